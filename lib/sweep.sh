#!/bin/bash
# usage: lib/sweep.sh <seed>...  — quick tier of every claimed check with other seeds (flakiness / false-alarm hunt)
cd /verif
for s in "$@"; do for p in $(cat lib/claimed.txt); do
  out=$(./check $p --seed $s 2>&1); rc=$?
  [ $rc -ne 0 ] && echo "seed=$s $p rc=$rc $(echo "$out" | grep -E "VIOLATION" | head -2 | tr '\n' ' ')"
done; echo "seed $s done"; done
