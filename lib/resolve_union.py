#!/usr/bin/env python3
# resolve git conflict markers by keeping both sides (ours then theirs), dropping duplicate lines
import sys,re
for p in sys.argv[1:]:
    s=open(p).read()
    def rep(m):
        ours=m.group(1); theirs=m.group(2)
        ol=ours.split('\n')
        extra=[l for l in theirs.split('\n') if l not in ol]
        return ours+('\n'.join(extra)+('\n' if extra else ''))
    s=re.sub(r'<<<<<<< [^\n]*\n(.*?)=======\n(.*?)>>>>>>> [^\n]*\n',rep,s,flags=re.S)
    open(p,'w').write(s)
