"""Check configuration for property C16 (streams, evidence texts)."""
CFG = {'streams': [{'name': 'C16',
              'n_quick': 480,
              'n_thorough': 4000,
              'thorough_seeds': 1,
              'what_fails': 'File::execute on a generated declaration set x supply pattern disagreed with Model/Globals.v: 1 = different error '
                            'variant, 2 = implementation failed where check_globals succeeds, 3 = implementation succeeded where the model reports '
                            "MissingGlobalVariable/ExpectedList/DuplicateVariable, 4 = panic, 90 = a caller's Variables set changed (iter() "
                            'before/after), 100+i / 200+i / 300+i / 400+i = i-th attribute copied from a global has another value / reads an unbound '
                            'name / has another name / is missing; load-time cases: 11 = other CheckError variant, 12 = hide/set/duplicate of a '
                            'global accepted, 13 = control program rejected'}],
 'rule': 'deterministic exhaustive part (tag product-exhaustive): phase A = 1 global: quantifier{none,?,*,+} x default{absent,present} x supply '
         'kind{absent,string,integer,bool,null,list,set,composite/empty list} x mode{strict,lazy} = 128; phase static = 8 forms (second `global`, '
         'let, var, node, for-variable, list-/set-comprehension variable, set) x {declared global a, declared global b, control name} = 24 load-time '
         'cases; phase shadow = local definition (let/var/node/for) of a supplied-but-undeclared name x {not supplied, inner set, outer set} x mode '
         '= 24; phase B = 2 globals: (quantifier class{plain,list} x default x supply class{absent,list,non-list})^2 x mode = 288 with class members '
         'rotating over all quantifiers/kinds; thorough adds phase C = 2 globals: (quantifier(4) x default(2) x '
         'supply{absent,string,list,integer})^2 x mode = 2048; the rest is random: 1-4 (70%: 3-4) distinct names, any quantifier/default (incl. '
         'escapes, unicode), values without graph/syntax nodes from the shared generator, chains of 1-4 nested Variables with hiding and undeclared '
         'extras, reads inside if/for/scan blocks nested 0-3 deep, both modes per draw. Supply chains rotate over 6 shapes (direct, inner of two, '
         'outer of two, outermost of three, inner hiding a different-kind outer value, alternating). non-trivial = at least 2 declared globals with '
         'at least one default and at least one supplied value; distinct by hash of (declarations, chain, reads, mode, blocks)',
 'explanation': 'Theorems (induction over the declaration list, any chain): check_globals_spec (Err e <-> the first declaration, in order, that is '
                'missing without default or list-typed but supplied a non-list has status e; Ok -> effective environment = supplied, else default as '
                'string; total, no panic), check_globals_outcomes (DuplicateVariable branch is dead code, any declaration list), '
                'missing_sound/missing_iff, list_sound, caller_unchanged(+_chain), defaults_frame (the nested copy holds exactly the defaults of '
                'unsupplied names), lookup_after, supplied_wins, undeclared_supplied_kept. Correspondence: real File::from_str + File::execute in '
                'both modes on the product of declarations x supply patterns (directly and through nested Variables) with programs copying every '
                'global into node attributes at block depth 0-3; compared: root-cause error variant or every attribute value against check_globals + '
                "globals_get, Variables::iter() of every set of the caller's chain before/after, and the load-time hide/set/duplicate rules against "
                'static_global_rule.',
 'assumptions': ['the declaration list given to the model is the one File::from_str produced: the harness writes the declarations both as DSL text '
                 'and as Coq terms (parser.rs parse_global is exercised, not modelled: name, quantifier character, optional string default with '
                 'escapes)',
                 'distinct declared names (NoDup) in check_globals_spec/missing_iff is what File::check enforces (DuplicateGlobalVariable, exercised '
                 'by the static cases); the remaining theorems hold for any declaration list',
                 'HashMap iteration order is not observable: Variables::iter() and attributes are compared as name-sorted lists',
                 "Rust's shared borrow `&Globals` already forbids writes to the caller's sets; the model states it as: defaults are added to the "
                 'head (nested) frame only'],
 'partial': ['global_eval is proved against the interpreter models (global_evaluates_strict/_lazy: in every state, hence in every stanza and '
             'block, a name bound in the variable set of the execution evaluates to that value; global_cannot_be_redeclared_or_hidden, '
             'global_cannot_be_assigned: every defining/assigning path fails); that ACCEPTED files never try is the rule of the checker (C06) and is tested '
             'here by the correspondence stream (hide/set/duplicate at load time, run-time DuplicateVariable for undeclared supplied names)']}
