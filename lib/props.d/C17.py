"""Check configuration for property C17 (streams, evidence texts)."""
CFG = {'streams': [{'name': 'C17',
              'n_quick': 160,
              'n_thorough': 1600,
              'thorough_seeds': 3,
              'shrink_field': 'ops',
              'what_fails': 'a public container operation returned a value different from the map/set model (first differing operation index = '
                            'verdict_code-1)'}],
 'rule': 'random API histories (5-200 ops, 10% of length 200) over add_graph_node/add_edge/get_edge/get_edge_mut/Attributes '
         'add,get,iter/iter_nodes/iter_edges/node_count/edge_count/Variables nested,add,get,remove,clear,is_empty,iter; a hub node receives >8 edges '
         'in half the cases; non-trivial = history containing at least one attribute conflict AND one re-added edge or duplicate variable; distinct '
         'by hash of the op list',
 'explanation': 'Theorems: Attributes::add refines the documented map contract; sorted insert correct; every history keeps edges strictly ascending '
                'and names unique; node refs dense; nested variable sets never write outer frames. Correspondence: every return value of every '
                'operation, model (vm_compute) vs real containers.',
 'assumptions': ['std::binary_search_by_key honours its documented contract on sorted slices (modelled by its specification)',
                 'HashMap iteration order is not observable: attribute/variable iteration is compared as a name-sorted list'],
 'partial': []}
