"""Check configuration for property C06 (streams, evidence texts)."""
CFG = {'streams': [{'name': 'C06',
              'n_quick': 300,
              'n_thorough': 3000,
              'thorough_seeds': 1,
              'what_fails': 'the real File::check (on the AST of the real File::parse) disagreed with check_file of Model/Checker.v on a generated '
                            'program: 1 = other CheckError variant, 2 = same variant at another location, 3 = implementation rejected a file the '
                            'model accepts, 4 = implementation accepted a file the model rejects, 5 = both accept but the checked ASTs differ '
                            '(capture indices / quantifier / full-match index / anything else changed), 6 = the text of UnusedCaptures differs '
                            '(names, order, separator), 7 = implementation panicked, 8 = model panics (tables inconsistent) but the implementation '
                            'does not',
              'model_only_codes': [6]}],
 'rule': 'stream C06 = 1/5 generated programs as they are (gen::gen_program under 6 option mixes: full; no scoped variables; no scan/stdlib; depth 4 '
         'and up to 7 stanzas; no shorthands/globals; shallow) + 4/5 SINGLE-FAULT programs: a generated program that File::from_str accepts, with '
         'exactly one entry of the catalogue injected by text (the generator is line-oriented) before a random statement or at the end of a random '
         'block, the block depth class drawn first so that deep positions are not starved, and wrapped in 0-3 further synthetic blocks (if / else / '
         'elif arm, for body, scan arm). Catalogue (round robin, tag rule:*): undef_var, out_of_scope (after if/for/scan-arm/comprehension/else), '
         'redefine (same block, after an inner block, loop variable in its body), set_immutable (let/node/loop variable, from 1-2 inner blocks, '
         'shadowing let), set_undefined (plain, after scope exit, nested, sibling arm), hide_global (let/var/node/for/list-/set-comprehension, '
         'nested comprehension), set_global, dup_global (any quantifier/default, before or after the original), unused_capture (1-3 extra captures '
         'from a pool with `_`-prefixed names, or a renamed capture; all-underscore => accepted), undef_capture (@nope), nonlocal_source (a scoped '
         'read or a var, optionally after set, reaching scan/if/elif/2nd condition/some/none/for/list-/set-comprehension through list and set '
         'literals, calls, comprehension elements, scoped reads and let chains), some_none_nonopt (literals, calls, one/list captures, let chains), '
         'for_nonlist (literals, one/optional captures, calls, let chains; for and both comprehensions), nullable_regex (10 patterns; first or '
         'second arm; with a later violation inside the arm), benign neighbours that must stay accepted (shadowing in an inner block, set of an '
         'outer var from two blocks down, \\b regexes, for over a loop variable, same name in sibling arms, some on a loop variable, comprehension '
         'variable shadowing a local, repeated scoped declarations). Faulty expressions sit in 12 statement carriers (print, let, var, attr, edge '
         'attr, edge, set, if, for, scoped let, node scope) and 0-2 expression contexts (list, set, call, scoped read, comprehension element or '
         'source). Files that File::parse rejects are skipped. Tags: rule, depth, enclosing block kinds, outcome variant. non-trivial = fault at '
         'block depth >= 1, or a valid file with >= 3 stanzas; distinct by hash of the DSL text',
 'explanation': 'Model/Checker.v transcribes checker.rs function by function over the nested VariableMap of Model/Vars.v (is_local/quantifier '
                'propagation incl. the FIXME cases, set writing through to the frame that holds the variable, in-place resolution of captures, '
                'sorted unused-capture list, every expect/index as a Panic site, shorthand bodies not visited). Spec/Rules.v states the reference '
                'declaratively: typing judgement sc |- e : (shape, local), well-formedness judgement sc |- s => sc with scopes/mutability, and the '
                'first-violation judgement Violates (premises: everything earlier in traversal order is well-formed). Theorems: check_sound (Err => '
                'Violates with the variant naming the rule, at that location), check_complete (Ok => WellFormed and no Violates), '
                'wellformed_excludes_violation, violation_unique (at most one (rule, location) satisfies Violates: "the first" is well defined), '
                'check_resolves (Ok => only resolution fields changed, every capture carries stanza index / file index / quantifier of the tables, '
                'full-match file index set; shorthands untouched), check_deterministic_names (result independent of hash iteration order; names '
                'strictly sorted, duplicate-free), unused_names_exact (the names are exactly the unused captures), no_panic_check (boolean table '
                'consistency => no panic), local_is_pure_partial + env_inv_reachable + set_needs_mutable (a local expression reads no scoped '
                'variable and only globals or immutable locals that are themselves judged local; that invariant holds in every reachable '
                'environment; set only succeeds on mutable bindings). Correspondence: every case compares variant, location, UnusedCaptures text '
                "and, on Ok, the complete checked AST against the real checker run on the real parser output with the real queries' tables.",
 'assumptions': ['tree-sitter Query is an external: the model receives capture_names() of every stanza query and of the merged file query and '
                 'capture_quantifiers(i) per pattern, dumped from the real Query objects of each case; capture_index_for_name(n) = position of n in '
                 'capture_names()',
                 'the regex crate is an external: `regex.captures("").is_some()` per scan arm is dumped from the real Regex of each case',
                 "the AST given to the model is the real parser's output (public fields of ast::File after File::parse, dumped by "
                 'harness/src/dump.rs); parsing itself is C07',
                 'CheckError is read through its Debug text (the type is private): variant name, last `Location { row, column }`, the string of '
                 'UnusedCaptures',
                 'HashSet iteration order is the explicit parameter `order` (any permutation); check_file uses the identity and '
                 'check_deterministic_names shows the choice is irrelevant',
                 'no_panic_check assumes tables_consistent (one name table and one quantifier row per stanza, rows as long as the file capture list, '
                 'every stanza capture name and the full-match name known to the file query) - C03 assumption A1; the harness dumps the tables as '
                 'they are, a violation would show as verdict 7/8',
                 'static shape Zero (a capture name the stanza pattern does not contain) is treated as neither optional nor list, as the '
                 'implementation does; it cannot arise for a capture that resolves in the stanza query under C03 A2'],
 'partial': ['WHAT THE RULES BUY AT RUN TIME is proved against the interpreter models: locality (checked_eager_positions_local, '
             'checker_local_is_eager_ok, local_never_forces, checked_expr_never_forces, local_invariant_preserved, '
             'checked_exec_phase_forces_nothing, local_independent_of_nonlocal_state: eager positions of an accepted file never touch the scoped '
             'store; Proofs/Local*.v) and the variable rules (checked_no_variable_errors_strict / _lazy: an accepted file never fails with '
             'CannotAssignImmutableVariable (UndefinedCapture cannot be raised at all: a missing capture is a panic, K8), and with UndefinedVariable / DuplicateVariable only if the FILE has scoped reads / scoped definitions (a file-level flag in strict mode; for lazy mode UndefinedVariable is excluded outright), for function libraries that do not return these errors themselves (call_clean: true of the stdlib); '
             'Proofs/VarScope*.v), both for files whose shorthand bodies are disciplined (K4) and, for the variable rules, supplied globals that '
             'are declared. The older local_is_pure_partial (syntactic core) is kept.',
             'shorthand bodies are outside the theorems because the implementation does not check them (known finding K4); Example '
             'ex_shorthand_not_checked is the witness']}
