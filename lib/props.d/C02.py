"""Check configuration for property C02 (streams, evidence texts)."""
CFG = {'streams': [{'name': 'C02',
              'n_quick': 240,
              'n_thorough': 2400,
              'thorough_seeds': 2,
              'what_fails': 'strict vs lazy on the implementation: 70 strict Ok but lazy fails; 71 graphs not isomorphic; 72 strict fails for an '
                            'order-independent reason but lazy succeeds; 73 one mode panics where the other does not'},
             {'name': 'LAZY',
              'n_quick': 160,
              'n_thorough': 1600,
              'thorough_seeds': 2,
              'what_fails': 'lazy execution differs from the model of lazy*.rs (codes as in C01)'}],
 'rule': 'same generator as C01 restricted to the order-insensitive fragment (no var/set on scoped variables; scoped variables are read only by '
         'stanzas after the defining ones; graph nodes are never rendered to text); graphs compared up to renumbering by colour refinement + bounded '
         'search (inconclusive searches are counted, never passed as violations); non-trivial = both modes succeed with at least 3 nodes and the '
         'program uses a scoped variable',
 'explanation': 'Theorems: (1) strict_lazy_same_graph_partial, the first whole-run theorem relating Model/Strict.v and Model/Lazy.v: on the '
                'fragment without scoped variables and with graph-pure function calls (every stdlib function except `node`, '
                'stdlib_graph_pure_partial) — local let/var/set, if, for, scan, comprehensions, print, node, edge, attr and attribute shorthands '
                'all included — whenever strict execution succeeds, lazy execution of the same file on the same matches (stanza by stanza in '
                'strict order, no debug attributes, no cancellation) never fails, never panics and, unless the model runs out of fuel, returns '
                'EXACTLY the strict graph (equality, not only isomorphism); strict_lazy_adequate_partial: on the same fragment some lazy model fuel '
                'suffices and from that fuel on the lazy run IS Ok with the strict graph. Proof: a store valuation gives every thunk its value, lazy values '
                'DENOTE strict values, forcing a denoting value yields exactly that value and only memoises (forcing lemma), pending edge/attr '
                'statements denote the graph operations strict already performed, and edge insertions commute in front of attribute insertions. '
                '(2) building blocks: both interpreters bind captures and regex captures identically; thunks are forced at most once and cycles are '
                'reported. (3) K7: the full statement is refuted for cyclic scoped-variable definitions. Direct stream: File::execute strict vs '
                'lazy on every generated fragment program. Correspondence: lazy implementation vs Model/Lazy.v.',
 'partial': ['strict_lazy_agree is proved only on the fragment of strict_lazy_same_graph_partial; NOT proved: any use of scoped variables '
             '(EScoped / VarS; the full statement is false for cyclic definitions, K7); `(node)` calls inside expressions, where only '
             'isomorphism instead of equality can hold; an arbitrary interleaving of the matches of different stanzas as the merged file query '
             'reports them (the theorem feeds the lazy run the strict matches stanza by stanza); debug attributes and cancellation budgets',
             'strict_fail_lazy_fail (the failure direction) is not proved; explored by the direct stream'],
 'assumptions': ['tree-sitter queries are an external: raw matches are recorded by calling QueryCursor::matches directly on the stanza queries and '
                 'on the merged file query',
                 'regex crate: modelled by Model/Regex.v on the generated sub-language (validated by stream C10rx); stdlib functions: Model/Stdlib.v '
                 '(validated by C13)',
                 'syntax nodes are identified by preorder index (KeyInjective: node ids distinct modulo 2^32, checked per tree in C04)']}
