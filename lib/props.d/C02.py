"""Check configuration for property C02 (streams, evidence texts)."""
CFG = {'streams': [{'name': 'C02',
              'n_quick': 240,
              'n_thorough': 2400,
              'thorough_seeds': 2,
              'what_fails': 'strict vs lazy on the implementation: 70 strict Ok but lazy fails; 71 graphs not isomorphic; 72 strict fails for an '
                            'order-independent reason but lazy succeeds; 73 one mode panics where the other does not'},
             {'name': 'LAZY',
              'n_quick': 160,
              'n_thorough': 1600,
              'thorough_seeds': 2,
              'what_fails': 'lazy execution differs from the model of lazy*.rs (codes as in C01)'}],
 'rule': 'same generator as C01 restricted to the order-insensitive fragment (no var/set on scoped variables; scoped variables are read only by '
         'stanzas after the defining ones; graph nodes are never rendered to text); graphs compared up to renumbering by colour refinement + bounded '
         'search (inconclusive searches are counted, never passed as violations); non-trivial = both modes succeed with at least 3 nodes and the '
         'program uses a scoped variable',
 'explanation': 'Theorems (building blocks): both interpreters bind captures and regex captures identically; thunks are forced at most once and '
                'cycles are reported. Direct stream: File::execute strict vs lazy on every generated fragment program. Correspondence: lazy '
                'implementation vs Model/Lazy.v.',
 'partial': ['strict_lazy_agree and strict_fail_lazy_fail (whole-run simulation through a mode-independent denotation) are not proved; explored by '
             'the direct stream'],
 'assumptions': ['tree-sitter queries are an external: raw matches are recorded by calling QueryCursor::matches directly on the stanza queries and '
                 'on the merged file query',
                 'regex crate: modelled by Model/Regex.v on the generated sub-language (validated by stream C10rx); stdlib functions: Model/Stdlib.v '
                 '(validated by C13)',
                 'syntax nodes are identified by preorder index (KeyInjective: node ids distinct modulo 2^32, checked per tree in C04)']}
