"""Check configuration for property C02 (streams, evidence texts)."""
CFG = {'streams': [{'name': 'C02',
              'n_quick': 240,
              'n_thorough': 2400,
              'thorough_seeds': 2,
              'what_fails': 'strict vs lazy on the implementation: 70 strict Ok but lazy fails; 71 graphs not isomorphic; 72 strict fails for an '
                            'order-independent reason but lazy succeeds; 73 one mode panics where the other does not'},
             {'name': 'LAZY',
              'n_quick': 160,
              'n_thorough': 1600,
              'thorough_seeds': 2,
              'what_fails': 'lazy execution differs from the model of lazy*.rs (codes as in C01)'}],
 'rule': 'same generator as C01 restricted to the order-insensitive fragment (no var/set on scoped variables; scoped variables are read only by '
         'stanzas after the defining ones; graph nodes are never rendered to text); graphs compared up to renumbering by colour refinement + bounded '
         'search (inconclusive searches are counted, never passed as violations); non-trivial = both modes succeed with at least 3 nodes and the '
         'program uses a scoped variable',
 'explanation': 'Theorems: (1) strict_lazy_same_graph_partial, whole-run theorem relating Model/Strict.v and Model/Lazy.v: on the '
                'fragment without scoped variables and with graph-pure function calls (every stdlib function except `node`, '
                'stdlib_graph_pure_partial) — local let/var/set, if, for, scan, comprehensions, print, node, edge, attr and attribute shorthands '
                'all included — whenever strict execution succeeds, lazy execution of the same file on the same matches (stanza by stanza in '
                'strict order, no debug attributes, no cancellation) never fails, never panics and, unless the model runs out of fuel, returns '
                'EXACTLY the strict graph (equality, not only isomorphism); strict_lazy_adequate_partial: on the same fragment some lazy model fuel '
                'suffices and from that fuel on the lazy run IS Ok with the strict graph. '
                '(1b) strict_lazy_same_graph_scoped_partial / strict_lazy_adequate_scoped_partial: the same two statements on the fragment WITH '
                'SCOPED VARIABLES: immutable scoped definitions (let <scope>.x = e, node <scope>.x) whose scope expression is pure, scoped reads '
                'in deferred positions (values of let/var/set, attribute values, edge/attr endpoints, print arguments, comprehension elements, call '
                'arguments, scope expressions of other reads), eager positions (if conditions, scan subjects, for/comprehension lists) pure — pure = '
                'no scoped read and only unscoped variables whose name is declared pure, every binding of a pure name having a pure right-hand side — '
                'and inherited names under the side condition inh_antichain on the FINAL strict scoped store (no node defining an inherited name has '
                'a proper ancestor defining it too; vacuous without inherited names). Proof: a world gives every thunk its value and a purity flag '
                'and lists the scoped definitions executed so far; lazy values DENOTE strict values (a scoped read denotes the value of a definition '
                'whose thunk is an earlier location); cells stay unforced during the execution phase; forcing a cell evaluates only pure scopes '
                '(level-0 forcing lemma, no re-entry) and finds one definition per (node, name) because strict succeeded; pending edge/attr '
                'statements denote the graph operations strict already performed, and edge insertions commute in front of attribute insertions. '
                '(2) building blocks: both interpreters bind captures and regex captures identically; thunks are forced at most once and cycles are '
                'reported. (2b) strict_fail_lazy_fail_partial, the FAILURE direction on the fragment without scoped variables: if strict execution '
                'returns Err e whose root cause is neither UndefinedEdge nor Cancelled, lazy execution of the same file on the same matches returns '
                'Ok for NO lazy fuel (extra hypotheses, true of the standard library: a failing call fails on every graph; every function only '
                'extends the graph); strict_fail_lazy_err_partial: with the hypotheses of lazy_exec_no_panic the lazy run IS Err unless the model '
                'runs out of fuel. Covered: type errors in eager positions (conditions, scan subjects, loop lists) and deferred positions (edge '
                'endpoints, attribute targets), conflicting attributes, duplicate/immutable/undefined local variables, failing or unknown '
                'functions also inside values nothing reads (evaluate_all forces every thunk), regex captures out of range. Proof: a failure in a '
                'deferred position leaves a DOOMED lazy state (a recorded statement or thunk that cannot be evaluated, or an attribute that '
                'conflicts with the strict graph); every later lazy computation preserves doom and the evaluation phase of a doomed state cannot '
                'succeed (the strict insertions are replayed on a graph that extends the strict one, whatever edges came first). UndefinedEdge is '
                'excluded because it IS order dependent (strict_fail_lazy_ok_undefined_edge: `attr (a -> b) k = 1  edge a -> b` fails strictly, '
                'succeeds lazily). (3) K7: the full statement is refuted for cyclic scoped-variable definitions (and Proofs/SL2Example.v k7b: the cycle may '
                'go through local variables, so definition scopes must be DEEPLY pure). Direct stream: File::execute strict vs '
                'lazy on every generated fragment program. Correspondence: lazy implementation vs Model/Lazy.v.',
 'partial': ['strict_lazy_agree is proved only on the fragments of strict_lazy_same_graph_partial and strict_lazy_same_graph_scoped_partial; NOT '
             'proved: mutable scoped variables (lazy rejects them); eager positions or definition scopes that depend on scoped variables (the full '
             'statement is false for cyclic definitions, K7); inherited names when a definer has a defining proper ancestor in the final store '
             '(the proved side condition is stronger than "not defined on a nearer node AFTER being read": it also forbids shadowing definitions '
             'made before the read); `(node)` calls inside expressions, where only isomorphism instead of equality can hold; debug attributes and cancellation '
             'budgets. An ARBITRARY interleaving of the matches (the order in which the merged file query reports them) is covered by the '
             'composition with the C08 theorems (strict_lazy_iso_any_order_partial, _scoped_partial, strict_lazy_iso_run_one_partial: graph '
             'ISOMORPHIC to the strict graph, on the intersection of the C02 and C08 fragments: call_ok functions, i.e. also without format/join)',
             'strict_fail_lazy_fail (the failure direction) is proved on the fragment without scoped variables (strict_fail_lazy_fail_partial) and on '
             'the fragment WITH scoped variables under the static condition inh_static on inherited names (strict_fail_lazy_fail_scoped_partial; '
             'two refutations show the side conditions are needed), for root causes other than UndefinedEdge (order dependent), Cancelled and - with '
             'scoped variables - UndefinedVariable (order dependent when the definer comes later), in strict order and in any order of the blocks '
             '(…_any_order_…), no debug attributes, no cancellation budget; the conclusion is "lazy never returns Ok" (plus "returns Err unless the model runs out '
             'of fuel" under the no-panic hypotheses): "lazy returns Err from some fuel on" is false in the model, because lazy execution goes on '
             'after the failure point and the statements it then runs may diverge (strict_fail_lazy_diverges_k2: a fragment program on which strict '
             'fails at the first statement and lazy runs out of EVERY fuel in a recursive shorthand, K2). NOT proved: an undefined UNSCOPED variable on the scoped '
             'fragment (the model error does not distinguish it from the scoped case); definitions of inherited names whose scope is not a capture'],
 'assumptions': ['tree-sitter queries are an external: raw matches are recorded by calling QueryCursor::matches directly on the stanza queries and '
                 'on the merged file query',
                 'regex crate: modelled by Model/Regex.v on the generated sub-language (validated by stream C10rx); stdlib functions: Model/Stdlib.v '
                 '(validated by C13)',
                 'syntax nodes are identified by preorder index (KeyInjective: node ids distinct modulo 2^32, checked per tree in C04)']}
