"""Check configuration for property C13 (streams, evidence texts)."""
CFG = {'debug_build': True,
 'streams': [{'name': 'C13',
              'n_quick': 300,
              'n_thorough': 3000,
              'thorough_seeds': 2,
              'shrink_field': 'args',
              'what_fails': 'a stdlib function call returned something different from Model/Stdlib.v (release build). verdict_code: 1 value differs, '
                            '2 graph node count differs, 3 error variant differs, 4 Ok/Err differs, 5 implementation panicked, 6 model panics but '
                            'implementation does not'},
             {'name': 'C13D',
              'debug': True,
              'n_quick': 300,
              'n_thorough': 3000,
              'thorough_seeds': 2,
              'shrink_field': 'args',
              'what_fails': 'a stdlib function call returned something different from Model/Stdlib.v (debug build: overflow checks on). '
                            'verdict_code: 1 value differs, 2 graph node count differs, 3 error variant differs, 4 Ok/Err differs, 5 implementation '
                            'panicked, 6 model panics but implementation does not'}],
 'rule': 'every run starts with a fixed core of 250 cases (the full 8x8 variant table of eq plus unequal same-type pairs and set-order pairs; the '
         "brace grammar of format: '', {}, {{, }}, {, }, {{}}, {}}, {{}, a{, a}, {x}, }{, {{{}}}, each with 0 and 1 argument, missing/extra "
         'arguments, every Value variant displayed alone, inside a list and inside a set; plus at 2^32-1 / 2^32 / 2^31+2^31; arity edges of every '
         'function; replace with valid/invalid patterns and 1-4 arguments; every syntax function on the root, a named child, an unnamed child and '
         'the last node, and with 0/2/ill-typed arguments; unknown names), followed by n random cases: each of the 21 functions equally often (plus '
         '~2% unknown names); graph with 0-3 nodes; 70% well-typed tuples (eq: 15% null-vs-value, 15% value-vs-null, 5% null-null, 25% equal, 30% '
         'same type, 10% different types; plus: boundary sums exactly 2^32-1 and 2^32; format: literals with {{ }} non-ASCII and as many arguments '
         "as {} holes; replace: 13 texts x 37 patterns (9 invalid) x 11 $-free replacements with the regex crate's own answer as oracle; syntax "
         'functions: every node of 3+n/150 generated Python sources round-robin, sources with ERROR/MISSING nodes and non-ASCII text so that byte '
         'columns differ from character columns) and 30% malformed (random tuples of length 0-4 over all Value variants nested to depth 2, '
         'dropped/extra/retyped/shuffled arguments, format strings with a lone or trailing brace); non-trivial = at least one argument and outcome '
         'Ok or FunctionFailed; distinct by hash of the whole case term; the same generator runs against the release build (stream C13) and the '
         'debug build (stream C13D, overflow checks on)',
 'explanation': 'Theorems (Props/C13.v): every function equals its documented contract (Spec/StdlibDoc.v) on all argument tuples: '
                'stdlib_refines_doc, per-function *_refines_doc; arity_errors; no_panic_stdlib; plus_no_wrap; format_spec; eq_spec; node_fresh; '
                'named_child_index_spec; error_classes; unknown_function. Correspondence: Functions::stdlib().call on the real library vs '
                'stdlib_call (vm_compute), compared as Ok value + node count / Err variant / panicked.',
 'assumptions': ['the regex crate is a parameter of the model (regex_oracle); theorems about `replace` assume only that validity of a pattern does '
                 "not depend on the replacement string; the correspondence embeds the crate's own answers and uses replacement strings without `$`",
                 'tree-sitter is modelled by the recorded tree (kinds, flags, parents, children, positions, character spans): '
                 'Node::parent/named_children/named_child_count/byte_range are compared through the correspondence, not verified',
                 "std's decimal Display of u32/usize and String::join are modelled (dec, intercalate) and compared through format/join",
                 'sets that contain more than one syntax node are not generated (their order is by node address, which the model does not have)',
                 'lists are shorter than 2^32 elements and tree-sitter rows/columns/child counts fit u32 (hypothesis args_u32 of the refinement '
                 'theorems; the casts `as u32` are modelled as truncation)',
                 'a failing case of the debug stream C13D is shrunk/replayed by the driver with the release binary (vcheck.replay_case); the replay '
                 'record carries the profile it was observed under'],
 'partial': ['length_refines_doc_partial: `length` equals its contract for lists shorter than 2^32 elements only; theorem length_wraps_at_2_32 shows '
             'that at 2^32 elements `list.len() as u32` returns 0 instead of failing (not reachable by the correspondence stream: such a list needs '
             '> 128 GiB)']}
