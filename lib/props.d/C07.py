"""Check configuration for property C07 (streams, evidence texts)."""
CFG = {'streams': [{'name': 'C07',
              'n_quick': 200,
              'n_thorough': 2000,
              'thorough_seeds': 1,
              'what_fails': 'ast::File::parse (parser.rs only, no checker) on a VALID program in a random layout disagreed with Model/Parser.v or '
                            'with the AST the generator intended; verdict codes (Model/ParserObs.v compare_obs): 1 = the parsed AST differs from the '
                            "model's AST, 2 = only locations differ, 3 = different ParseError variant, 4 = same variant at another location, 5 = "
                            "ORACLE_MISS (the harness did not supply tree-sitter's / the regex crate's answer for a query span / merged query / scan "
                            'pattern the model asked for, or a non-ASCII character has no Unicode-class row), 6 = the model reaches an '
                            'unwrap()/expect() panic site, 7 = the model ran out of fuel, 8 = the implementation panicked or took longer than 2 s '
                            '(tag HANG), 9 = one side Ok and the other Err, 10 = the implementation parsed a text of the AST-directed generator to '
                            'another AST (names, values or any location) than the one the generator wrote, 11 = the scan-arm patterns differ, 12 = '
                            'same error variant and location but another payload (token / pattern / keyword / literal / character + context / '
                            'query-error offset)'},
             {'name': 'C05p',
              'n_quick': 200,
              'n_thorough': 2000,
              'thorough_seeds': 1,
              'what_fails': 'ast::File::parse on a MALFORMED text (mutated valid program or hand-written edge case) disagreed with Model/Parser.v '
                            '(error variant, location, payload, Ok-vs-Err, panic, hang); verdict codes (Model/ParserObs.v compare_obs): 1 = the '
                            "parsed AST differs from the model's AST, 2 = only locations differ, 3 = different ParseError variant, 4 = same variant "
                            "at another location, 5 = ORACLE_MISS (the harness did not supply tree-sitter's / the regex crate's answer for a query "
                            'span / merged query / scan pattern the model asked for, or a non-ASCII character has no Unicode-class row), 6 = the '
                            'model reaches an unwrap()/expect() panic site, 7 = the model ran out of fuel, 8 = the implementation panicked or took '
                            'longer than 2 s (tag HANG), 9 = one side Ok and the other Err, 10 = the implementation parsed a text of the '
                            'AST-directed generator to another AST (names, values or any location) than the one the generator wrote, 11 = the '
                            'scan-arm patterns differ, 12 = same error variant and location but another payload (token / pattern / keyword / literal '
                            '/ character + context / query-error offset)',
              'model_only_codes': [3, 4, 12]}],
 'rule': 'stream C07: half the cases are gen::gen_program texts (all option mixes: scoped variables, scan, stdlib calls, globals, shorthands, '
         'inherit; depth 1-5, 1-4 stanzas) tokenised and laid out again, half come from an AST-directed generator (all 14 expression forms, all 11 '
         'statement forms, if/elif/else with 1-3 conditions of the kinds some/none/plain, scan with 1-3 arms, attribute lists with bare names, '
         'globals with the four quantifier forms and optional defaults, inherit, shorthands with distinct names, nesting to depth 5; identifier '
         'pools with keyword-prefixed names (something, none_left, forest, inner, elif_x, attribute_x, ...), names with digits and -, non-ASCII '
         'names; strings with multi-byte characters, quotes, backslashes, NUL, CR, raw newlines/tabs and every legal escape spelling; integers '
         '0..2^32-1 with leading zeros; $n up to usize::MAX; queries over several lines, with ; comments and with { ; \\" inside strings) which '
         'records during rendering the intended location of every located construct and compares the parsed AST with the intended one. Layout: '
         'between any two tokens a gap over space, tab, LF, CR and ; comments (any text incl. multi-byte, {, ", ;), empty where the parser allows it '
         '(never between two identifier characters, never inside @name/#name/$n, `inherit .name`, global NAME+quantifier; after a global NAME '
         'without quantifier ANY gap, also none - `global x="a"`, `global x;c`, `global x(module) ...`, `global x` at the end of the input - except '
         'that a following identifier character or `?` `*` `+` is kept apart: layouts the repaired parse_quantifier accepts, tags global-name-glued '
         '/ global-name-then-comment / global-name-at-eof / global:name-then-eq / global:quant-then-eq); optional trailing comma in non-empty '
         'list/set literals. Every run starts with 14 hand-written valid texts (FIXED_VALID, tag src:fixed: a `node` statement scoped on a string constant with U+00A0, U+2028 (escaped by <str as Debug>) and é (verbatim), whose text field needs the x_print table; `global x="a"`, `global x;c`, `global x= '
         '"a"`, `global x?="a"`, `global x` directly followed by a newline / a comment / a stanza / the end of the file). Texts <= 1500 characters. '
         'non-trivial = parses, contains a comment or a multi-byte character and at least 3 statements; distinct by hash of the text. stream C05p: '
         'up to 2/5 hand-written edge cases (empty / whitespace-only / comment-only input, `global x` followed by every character class (incl. the '
         'formerly ExpectedQuantifier texts `global x!`, `global x=x`, `global x! (module) @m { }`, `global x"a" ...`: the repaired parser leaves '
         'the character to the caller, so they now end in UnexpectedEOF at the end of the input, ExpectedToken("\\""), or a QueryError for the query '
         'text that starts at that character - or parse, e.g. `global x-` is the name `x-`), inherit / shorthand / statement / expression / stanza '
         'fragments for every ParseError variant, query errors on first and later rows with leading text, brackets/calls/blocks/scoped chains nested '
         '1-64 deep), the rest valid texts of both sources with 1-3 mutations: token delete/duplicate/swap, stray delimiters, truncation, huge '
         'integers and $-indices (2^32, 2^64-1, 2^64, 23 digits), NUL and non-ASCII characters (é, U+00A0, U+2028, U+3000, U+000B, 日, U+FF10, '
         'U+0661), near-miss keywords, top-level keywords in front of a stanza, deep nesting, queries with two patterns, invalid queries, invalid '
         'scan regexes, bad #literals/@captures',
 'explanation': 'Theorems (Props/C07.v, all universally quantified, Closed under the global context): location_advance / st_after_position '
                '(consuming ANY text: offset = sum of UTF-8 lengths, row = number of newlines, column = characters since the last newline); '
                'whitespace_skip_spec (exactly the maximal prefix of whitespace and ; comments); string_literal_roundtrip (every legal escape '
                'spelling); integer_literal_roundtrip + integer_literal_overflow (< 2^32 parsed, >= 2^32 is InvalidIntegerConstant, never a panic); '
                'name_roundtrip, identifier_roundtrip; keyword_prefix_safe (every identifier other than exactly some/none is a plain condition); '
                'parse_render_expr (round trip incl. all locations for all 14 expression forms under arbitrary layouts: gaps, trailing commas, '
                'literal spellings) + layout_irrelevant_expr; parse_render_stmt and parse_render_block (round trip for all 11 statement forms, '
                'attribute lists, condition lists, if/elif/else location bookkeeping, scan arms numbered in order of appearance, blocks nested to '
                'any depth); parse_render_file (whole files: globals - NAME, quantifier character directly after it, optional default with ARBITRARY '
                'gaps (also none) around `=` and behind the item: `global x="a"`, `global x;c`, `global x` + end of input are covered, see partial '
                '(b) - inherit, shorthands, stanzas with opaque query text up to the first `{` outside strings/comments, every location, scan arms '
                'numbered in order of appearance; result = file_of_items of the located items, patterns in order); unicode_sane_from_tables. '
                'Props/C05parse.v: parse_total, parse_never_out_of_fuel (fuel S(length text)), with witnesses that the two tree-sitter-dependent '
                'panic sites are reachable if tree-sitter misbehaves; parse_never_expected_quantifier + parse_quantifier_never_fails '
                '(ParseError::ExpectedQuantifier is dead code after the repair of parse_quantifier: the model never produces variant 1). Regression '
                'Examples in Props/C07.v: ex_global_default_without_space (`global x="a"` LF `(m) {}` = global x, One, default "a", at (0,7)), '
                'ex_global_comment_without_space, ex_global_eq_then_space, ex_global_quantifier_then_eq, ex_file_tight_roundtrip (parse_render_file '
                'applied to the layout without any gap: `global x="a"global y(m){}global z`). Correspondence: the real parser under catch_unwind and '
                'a wall clock vs parse of Model/Parser.v (vm_compute) with tree-sitter, the regex crate and the Unicode tables as per-case oracle '
                'tables keyed by what the MODEL asks for (byte span of its own skip_query, merged query source, decoded scan pattern); compared: the '
                'whole AST including every location, the scan patterns, or the error variant + location + payload. Mutants of the MODEL (column kept '
                'after newline; trailing comma rejected; `some` matched by prefix) are all detected by the streams (193/200, 27/200, 1/200 differing '
                'cases before the generator was biased towards some*/none* conditions).',
 'assumptions': ['tree-sitter (Query::new on each stanza query + "@__tsg__full_match" and on the merged source), Regex::new and '
                 'char::is_alphabetic/is_alphanumeric/is_whitespace on non-ASCII characters are externals of the model; the harness records their '
                 'answers per case, found by an untrusted structure-only port of parser.rs; a missing answer is verdict 5, never an agreement',
                 'the text field of `node` statements (Display of the variable: the real AST has no such field, dump.rs writes format!("{}", node) into it; the parser model fills it with display_variable) is COMPARED; <str as Debug> on non-ASCII characters is an external of the model (table x_print, recorded per case for every non-ASCII character of the text; a missing row is ORACLE_MISS)',
                 'HashSet/HashMap contents (inherited names, shorthands) are compared in sorted order',
                 'replay: the record holds the text and (AST-directed cases) the Debug text of the intended AST, which is compared again on replay'],
 'partial': ['none of the listed theorems is partial: parse_render_file is proved for whole files. Stated limits of its hypotheses (not weakenings '
             'of the parser model): (a) layouts of the theorems are slightly narrower than what the parser accepts - a gap is forced non-empty '
             'between a token ending and a token starting with an identifier character, so merges that the parser would still read correctly '
             '(`(f)x`, `forx`) are not claimed; the correspondence stream does generate them (for a global this is now exact: behind a name without '
             'quantifier and default only a following identifier character or `?` `*` `+` forces a gap - Spec/Render.v next_clash - which is what '
             'the parser needs: the former would continue the name, the latter would be read as the quantifier); (b) NO restriction on the '
             'whitespace after a global\'s name remains (the former "exactly one of space/tab/LF/CR after the name of a global without quantifier" '
             'mirrored a defect of parse_quantifier that has been repaired in parser.rs; model, spec and theorem were brought back to full '
             'strength); what remains for globals is only WfItem: the name is an identifier and the quantifier is not Zero (which cannot be '
             'written), and WfQuery for the stanza that may follow: its query text does not begin with `=` `,` `.` (after `global x` a `=` would '
             'start the default in ANY layout - not whitespace sensitivity -, the other two would continue an attribute list / a scoped variable of '
             'a preceding shorthand), with a top-level keyword, whitespace or `;`; (c) shorthand names may repeat (the result is then the map '
             'file_of_items computes: the later definition wins), the text field of a written `node` statement must be the Display text of its variable (WfStmt: t = '
             'display_variable v; it is what the parser model returns and what the stream compares)',
             'hypothesis UnicodeSane (whitespace characters are not identifier characters) is about the external Unicode tables; it is checked on '
             'the table of every correspondence case (uni_sane, a violation is ORACLE_MISS); hypotheses queries_ok / x_merged of parse_render_file '
             'are what tree-sitter answers, recorded per case']}
