"""Check configuration for property C08 (streams, evidence texts)."""
CFG = {'streams': [{'name': 'C08',
              'n_quick': 160,
              'n_thorough': 1600,
              'thorough_seeds': 2,
              'what_fails': 'lazy execution on permuted stanza orders (all n! for n<=4, 24 sampled for n=5): 80 success differs between orders; 81 '
                            'graphs not isomorphic; 82 a permuted file is rejected by the loader'},
             {'name': 'LAZY',
              'n_quick': 120,
              'n_thorough': 1200,
              'thorough_seeds': 2,
              'what_fails': 'lazy execution differs from the model of lazy*.rs'}],
 'rule': 'generated files with 2-5 stanzas (as C01) x permutations of their stanzas x sources; graphs compared up to renumbering; non-trivial = at '
         'least 3 stanzas and a scoped variable is used',
 'explanation': 'Theorems: the two mechanisms that make lazy evaluation order independent are proved order independent. (1) scoped variables: '
                'forcing the definitions of a scoped variable is invariant under permutation (success and every looked-up value); adding after '
                'forcing is an error. (2) deferred graph operations: deferred edges are evaluated before deferred attributes whatever the push '
                'order; deferred_ops_any_order / deferred_attrs_fail_any_order (Proofs/EvalPerm.v): edge insertions in any order give the SAME '
                'graph, attribute insertions in any order give the same graph up to the listing order of attribute entries, and a conflict is found '
                'in every order; lazy_eval_any_order_partial: the evaluation phase of the lazy interpreter on deferred statements with pure values '
                'never fails and yields that graph in every push order. Direct stream: every permutation on the implementation.',
 'partial': ['lazy_perm_invariant (whole-run invariance up to graph isomorphism) is not proved: the EXECUTION phase is missing (running the (stanza, '
             'match) blocks in another order renumbers graph nodes and store locations: an equivariance argument); the evaluation-phase theorem '
             'covers deferred statements whose values are pure (no scoped variables, no `(node)` calls). Explored by the direct permutation stream'],
 'assumptions': ['tree-sitter queries are an external: raw matches are recorded by calling QueryCursor::matches directly on the stanza queries and '
                 'on the merged file query',
                 'regex crate: modelled by Model/Regex.v on the generated sub-language (validated by stream C10rx); stdlib functions: Model/Stdlib.v '
                 '(validated by C13)',
                 'syntax nodes are identified by preorder index (KeyInjective: node ids distinct modulo 2^32, checked per tree in C04)']}
