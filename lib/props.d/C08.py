"""Check configuration for property C08 (streams, evidence texts)."""
CFG = {'streams': [{'name': 'C08',
              'n_quick': 160,
              'n_thorough': 1600,
              'thorough_seeds': 2,
              'what_fails': 'lazy execution on permuted stanza orders (all n! for n<=4, 24 sampled for n=5): 80 success differs between orders; 81 '
                            'graphs not isomorphic; 82 a permuted file is rejected by the loader'},
             {'name': 'LAZY',
              'n_quick': 120,
              'n_thorough': 1200,
              'thorough_seeds': 2,
              'what_fails': 'lazy execution differs from the model of lazy*.rs'}],
 'rule': 'generated files with 2-5 stanzas (as C01) x permutations of their stanzas x sources; graphs compared up to renumbering; 15% of the cases carry three single-match definitions of one scoped name (two on the module, one on its first child) at random positions, which must fail in EVERY order; non-trivial = at '
         'least 3 stanzas and a scoped variable is used',
 'explanation': 'Theorems. Reordering stanzas permutes the list of blocks (stanza, match) that run_lazy executes (stanza_permutation_is_block_permutation; the two-file forms lazy_stanza_order_iso_partial etc. relate a file to an IDEALISED reordering whose stanza records are the same, locations included - re-parsing a reordered text changes locations and merged-query indices, which is covered by the block-permutation theorems plus the index bridge, not by the two-file form); the whole-run theorems hold of the inputs the harness really records (…_real_partial: fragment predicates on normalize_file with the merged-query matches, idx_agree = assumptions A1-A3). WHOLE RUN on a fragment '
                '(lazy_block_order_iso_partial, Proofs/BlockPerm*.v): if the run on ms succeeds then on every permutation ms\' the run succeeds from '
                'some fuel on (same execution fuel, larger evaluation fuel: lazy_block_order_iso_two_fuels_partial) and the final graphs are isomorphic '
                '(graph_iso r: r a bijection of node ids fixing the initial graph; attribute maps equal as maps after renaming node references; '
                'edge vectors hold the renamed sinks); lazy_block_order_fail_partial: an error or a panic for one order excludes success for every '
                'other order at every fuel; lazy_fuel_mono_partial: fuel only decides between out-of-fuel and THE outcome. Parts: (1) '
                'lazy_block_shift_partial / lazy_block_swap_partial: one block started at other graph/store sizes runs in lockstep and appends the '
                'same delta with shifted ids (two-run simulation over the whole execution phase; acyclic thunk store, frame depth and parameter '
                'buffer restored); (2) lazy_exec_phase_perm_partial: any permutation of the execution phase = the canonical deltas of the blocks '
                'laid out in list order, every configuration; (3) lazy_eval_extract_partial: a successful lazy evaluation phase read back as '
                'store valuation + graph operations; renumbering of the laid-out operations by induction on the permutation; graph operations '
                'commute with renumberings; deferred_ops_any_order. stdlib_call_ok_partial: the hypothesis on called functions holds for every '
                'stdlib function but node/format/join. Earlier theorems kept: scoped-variable forcing is permutation invariant; deferred edge and '
                'attribute operations give the same graph in every order. WITH SCOPED VARIABLES (lazy_block_order_iso_scoped_partial, '
                'lazy_block_order_fail_scoped_partial, Proofs/ScPerm*.v): the same whole-run statement for blocks that communicate through scoped '
                'variables - definitions let @cap.x = e / node @cap.x, reads @cap.x in deferred positions, the reader may precede the definer; '
                'reference evaluator over a static environment instead of the by-index acyclic store (lazy_eval_sound_scoped_partial, '
                'lazy_eval_adequate_scoped_partial), renumbering monotone per block, adjacent exchanges of blocks (lazy_block_shift_scoped_partial). SCOPED READS INSIDE THUNKS '
                '(lazy_block_order_iso_scoped_thunks_partial, lazy_block_order_fail_scoped_thunks_partial, Proofs/ScTh*.v): let @a.x = @b.y and chains, '
                'local variables holding a scoped read (taint on variable names); store locations carry a ghost kind in a re-done simulation of the '
                'execution phase (lazy_block_shift_scoped_thunks_partial); all 6 orders of a three-stanza chain (c08_thunks_six_orders). '
                'Direct stream: every permutation on the implementation.',
 'partial': ['lazy_block_order_iso (whole-run invariance up to graph isomorphism) is proved on the fragment: scoped variables only as definitions with a capture as scope and a '
             'scoped-free value and as reads in deferred positions (node/source/sink of attr and edge statements, values of non-shorthand attributes, '
             'print arguments, list literals of these); NOT covered: scoped reads '
             'as call arguments or set elements (values would mix nodes of several blocks: isomorphism up to re-sorting of sets), definitions with non-capture scopes; called functions graph-pure and equivariant under '
             'order-preserving renamings (all stdlib functions except node, format, join), globals only mention nodes of a closed initial graph, '
             'no debug attributes (with a location attribute an edge created by two stanzas keeps the attribute of the statement evaluated first: '
             'the property as stated fails there), no cancellation budget. The fuel needed by the permuted run may be larger (a thunk may be forced '
             'first at a deeper nesting): the theorem gives success from some fuel on. '
             'Outside the fragment the whole-run statement is explored by the direct permutation stream'],
 'assumptions': ['tree-sitter queries are an external: raw matches are recorded by calling QueryCursor::matches directly on the stanza queries and '
                 'on the merged file query',
                 'regex crate: modelled by Model/Regex.v on the generated sub-language (validated by stream C10rx); stdlib functions: Model/Stdlib.v '
                 '(validated by C13)',
                 'syntax nodes are identified by preorder index (KeyInjective: node ids distinct modulo 2^32, checked per tree in C04)']}
