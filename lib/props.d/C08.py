"""Check configuration for property C08 (streams, evidence texts)."""
CFG = {'streams': [{'name': 'C08',
              'n_quick': 160,
              'n_thorough': 1600,
              'thorough_seeds': 2,
              'what_fails': 'lazy execution on permuted stanza orders (all n! for n<=4, 24 sampled for n=5): 80 success differs between orders; 81 '
                            'graphs not isomorphic; 82 a permuted file is rejected by the loader'},
             {'name': 'LAZY',
              'n_quick': 120,
              'n_thorough': 1200,
              'thorough_seeds': 2,
              'what_fails': 'lazy execution differs from the model of lazy*.rs'}],
 'rule': 'generated files with 2-5 stanzas (as C01) x permutations of their stanzas x sources; graphs compared up to renumbering; non-trivial = at '
         'least 3 stanzas and a scoped variable is used',
 'explanation': 'Theorems (building blocks): forcing the definitions of a scoped variable is invariant under permutation (success and every '
                'looked-up value); adding after forcing is an error; deferred edges are evaluated before deferred attributes whatever the push '
                'order. Direct stream: every permutation on the implementation.',
 'partial': ['lazy_perm_invariant (whole-run invariance up to graph isomorphism) is not proved; explored by the direct permutation stream'],
 'assumptions': ['tree-sitter queries are an external: raw matches are recorded by calling QueryCursor::matches directly on the stanza queries and '
                 'on the merged file query',
                 'regex crate: modelled by Model/Regex.v on the generated sub-language (validated by stream C10rx); stdlib functions: Model/Stdlib.v '
                 '(validated by C13)',
                 'syntax nodes are identified by preorder index (KeyInjective: node ids distinct modulo 2^32, checked per tree in C04)']}
