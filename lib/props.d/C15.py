"""Check configuration for property C15 (streams, evidence texts)."""
CFG = {'streams': [{'name': 'C15',
              'n_quick': 200,
              'n_thorough': 2000,
              'thorough_seeds': 2,
              'what_fails': 'debug attributes: 40 erasing the three attributes from the debug run does not give the plain run (or success differs); '
                            '41 a node lacks one of the three attributes or an edge lacks its location; 42 a cited location does not point, in the DSL text (1-based line and CHARACTER column), at the variable of the node statement / at an edge keyword; otherwise model with debug configuration vs '
                            'implementation (codes 1-7)'}],
 'rule': 'generated programs (as C01) x sources x both modes x {no debug attributes, debug attributes dbg_loc/dbg_var/dbg_match}; non-trivial = at '
         'least two edge statements and a successful debug run',
 'explanation': 'Theorems: debug_neutral_strict and debug_neutral_lazy — in both interpreters, erasing the configured names from the debug '
                'run gives exactly the plain run (graph, error with contexts, panic, polls), for any subset of the three names (hypotheses: pairwise different names that no attribute statement or shorthand of the file uses); the lazy proof '
                '(Proofs/DebugSimLazy.v) is a two-run simulation through the execution phase and the evaluation phase (pending edge statements '
                'related by erasure, thunk store / scoped cells / prev_element_debug_info equal); stdlib_ignores_attributes discharges the '
                'hypothesis on the function library; the helper sequence a `node` statement runs on the fresh node (debug_node_attrs is about that composite, not about exec_stmt (SNode ..) itself) records exactly variable text, 1-based line/column and the matched '
                "node; location text format; lazy edge creation gives a NEW edge the statement's location and leaves an existing edge alone. "
                'STATEMENT level (Proofs/DebugStmt.v): strict_/lazy_node_stmt_debug_attrs (exec_stmt / lexec_stmt of `node x`, x unbound: exactly one new node with exactly node_dbg_attrs cfg text loc first-full-match-node; _any_variable: equation for every variable; _scoped: success form for `node @scope.name` — node created and decorated first, scope expression evaluated in that state, name not yet defined on the scope node (strict) / cell still unforced (lazy): exactly one node with exactly node_dbg_attrs, variable bound / definition appended), strict_edge_stmt_debug_attr, lazy_edge_stmt_debug_attr (execution phase records edge_dbg_attrs) and lazy_edge_stmt_eval_debug_attr (new edge gets exactly the recorded attributes, existing edge and everything else unchanged), loaded_node_stmt_records_variable_text_partial (text = Display of the variable for loaded files; strict, unscoped). '
                'Direct stream: erase-and-compare on the implementation in both modes. Correspondence: model with the debug configuration vs '
                'implementation (exact attribute values).',
 'partial': [],
 'assumptions': ['tree-sitter queries are an external: raw matches are recorded by calling QueryCursor::matches directly on the stanza queries and '
                 'on the merged file query',
                 'regex crate: modelled by Model/Regex.v on the generated sub-language (validated by stream C10rx); stdlib functions: Model/Stdlib.v '
                 '(validated by C13)',
                 'syntax nodes are identified by preorder index (KeyInjective: node ids distinct modulo 2^32, checked per tree in C04)']}
