"""Check configuration for property C18 (streams, evidence texts)."""
CFG = {'streams': [{'name': 'C18',
              'n_quick': 150,
              'n_thorough': 1500,
              'thorough_seeds': 3,
              'shrink_field': 'lines',
              'what_fails': 'ParseError::first/all/into_first/into_all or a Display impl differs from the model on a generated Python source '
                            '(verdict_code: 1 all, 2 first, 3 into_all read on another thread, 4 into_first read on another thread, 5 plain display '
                            'text/panic, 6 pretty display text/panic, 7 citation of path:line:col differs, 8 model not Ok, 9 malformed observation, '
                            '10 display on the other thread differs, 11 a display of a reported error does not cite path:line:col (judged on the '
                            'real text, independently of the model), 99 oracle assumption violated: a visible ERROR/MISSING node but '
                            'root.has_error() is false)',
              'model_only_codes': [5, 6, 10]}],
 'rule': 'generated Python sources (1-6 top-level statements: assignments, calls, returns, augmented assignments, defs, if/else, for, nested two '
         'deep; non-ASCII identifiers, strings and paths incl. 4-byte characters; 5% CRLF, 15% without final newline; varied spacing) with i mod 7 = '
         '0..6 injected faults (delete/duplicate a token, insert an unbalanced bracket, a stray character or a misplaced keyword, delete a closing '
         'bracket/colon, MISSING-producing shapes `x. = 1`, `if :`); the first fault is biased in turn to anywhere / file start / file end / a line '
         'after the first; parsed with tree-sitter-python; non-trivial = at least two reported errors or a flagged node nested inside another '
         'flagged node; distinct by hash of the source',
 'explanation': 'Theorems (Coq, unbounded): the cursor loop of find_errors, modelled as a zipper walk with one iteration per unit of fuel and the '
                'is_error/else-if is_missing test on every iteration, returns with 2*size+1 fuel exactly the document-order list of ERROR/MISSING '
                'nodes without a flagged proper ancestor (error takes precedence), never runs out of fuel; first_only returns the head of that list; '
                'trees without flagged node yield nothing (and only those); plain and pretty display never panic on position data whose byte range '
                'is ordered and on character boundaries (string slicing is modelled with explicit Panic outcomes), plain display starts with '
                'path:row+1:col+1:, pretty display contains it for every node, zero-width (MISSING) nodes included, for which the exact output (kind '
                'line + excerpt with the empty column range) is also proved; dec is the decimal numeral. Correspondence: per generated tree the '
                'model (vm_compute) is compared with the real library on the (kind, preorder id) lists of first/all/into_first/into_all (owning '
                'bundles are moved to and read on another thread, where displays are recomputed), the complete text of display and display_pretty '
                'for every reported error (under catch_unwind), and the citation flags computed on the Rust side from the real text (a display that '
                'does not cite path:line:col is a DIFF, verdict 11, whatever the model says).',
 'assumptions': ['the wording of the two error kinds is a parameter of the display model (theorems hold for any wording); the harness reads the two '
                 'phrases off the implementation once per run (plain display of a zero-width MISSING node and of a non-empty ERROR node of fixed '
                 'sources) and falls back on the wording of the pinned commit when the format is not recognised',
                 'oracle: a visible ERROR or MISSING node implies tree.root_node().has_error() (checked on every generated tree, verdict 99); the '
                 'converse is false for real trees (`pass pass` has a MISSING hidden _newline: has_error() without any flagged visible node) and is '
                 'not assumed',
                 'TreeCursor goto_first_child/goto_next_sibling/goto_parent behave as the zipper of the recorded tree (the recorded tree is itself '
                 'obtained by a cursor walk; cross-checked by the agreement of the reported ids)',
                 'Excerpt::gutter_width uses f64 log10; modelled as the number of decimal digits of row+1 (rows below 2^53, log10 exact at powers of '
                 'ten; row 9/10 boundary exercised)',
                 'usize arithmetic (row+1, start+len) does not overflow; built without the term-colors feature',
                 'soundness of the unsafe Send/Sync impls and the lifetime transmute of the owning bundles is only exercised dynamically (move to '
                 'another thread, read there), not proved'],
 'partial': []}
