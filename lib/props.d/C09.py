"""Check configuration for property C09 (streams, evidence texts)."""
CFG = {'streams': [{'name': 'C09',
              'n_quick': 200,
              'n_thorough': 2000,
              'thorough_seeds': 2,
              'what_fails': 'history of 1-3 execute_into calls on one pre-populated graph: model vs implementation (codes 1-7); 60 the '
                            "implementation's graph lost/renumbered an existing node, edge or attribute value, or has a duplicate edge"}],
 'rule': 'initial graph built through the API (0-4 nodes, node and edge attributes) then 1-3 generated programs executed into it in random modes, '
         'earlier nodes passed back as globals pn0/pn1; programs re-create edges and re-assign attributes (names dup/keep); non-trivial = at least 2 '
         'runs on a non-empty initial graph',
 'explanation': 'Theorems: for BOTH interpreters every successful run on a well-formed graph yields a well-formed graph (edges strictly ascending by '
                'sink = one edge per ordered pair) that extends the given one (old indices, attribute values, edges and edge attributes kept; new '
                'nodes after the old ones); extension is a preorder (histories); Attributes::add accepts equal values and reports different ones; '
                're-adding an edge keeps it and its attributes. STATEMENT / RUN level (Proofs/AttrConflict.v): strict_attr_conflict_fails, strict_edge_attr_conflict_fails (an `attr` statement whose value differs from the '
                'value the node / edge already has returns exactly Err DuplicateAttribute), lazy_attr_conflict_fails, lazy_edge_attr_conflict_fails (evaluation of the deferred statement fails with DuplicateAttribute in the statement context, also when the old value was on the graph given to execute_into), '
                'the four _equal_value_accepted theorems (equal value: Ok, graph unchanged), strict_run_failing_statement_fails_run / strict_run_attr_conflict_fails / lazy_run_failing_attr_statement_fails_run (the failing top-level / deferred statement makes the RUN return Err with that root cause). '
                'WHOLE RUN, positive form (Proofs/MonoSubRun.v, AssignedStrict.v, AssignedLazy.v; ghost relations assigned_strict / assigned_lazy = the run executes Attributes::add of v under k on the element from a state it reached): strict_ok_run_keeps_every_assignment, lazy_ok_run_keeps_every_assignment (run Ok => every executed / evaluated assignment is in the final graph), _assignments_agree (two assignments to one (element, name) wrote equal values), strict_executed_attr_is_assignment (any depth, derivation given), strict_top_attr_node/edge_is_assignment (top-level attr statements of stanzas; no derivation rules through if/for/scan bodies), lazy_deferred_attr_node/edge_is_assignment (every deferred attribute statement).',
 'partial': [],
 'assumptions': ['tree-sitter queries are an external: raw matches are recorded by calling QueryCursor::matches directly on the stanza queries and '
                 'on the merged file query',
                 'regex crate: modelled by Model/Regex.v on the generated sub-language (validated by stream C10rx); stdlib functions: Model/Stdlib.v '
                 '(validated by C13)',
                 'syntax nodes are identified by preorder index (KeyInjective: node ids distinct modulo 2^32, checked per tree in C04)',
                 'functions supplied by the caller only extend the graph (PROVED for the stdlib: stdlib_extends, stdlib_extends_sorted, run_extends_strict_stdlib, run_extends_lazy_stdlib)']}
