"""Check configuration for property C14 (streams, evidence texts)."""
CFG = {'streams': [{'name': 'C14',
              'n_quick': 150,
              'n_thorough': 1500,
              'thorough_seeds': 2,
              'shrink_field': 'ops',
              'what_fails': "verdict_code is a sum: 1 = serde_json::to_value(&graph) differs from the model's JSON encoding of the in-memory API "
                            "view (members of both sorted by key); 2 = decoding the implementation's JSON (lookup by key) does not give back the API "
                            'view (node count, per-node attribute map, per-node edge map) - the property predicate; 4 = Graph::display_json into a file that held a longer document does not leave exactly the JSON of this graph there, or to_string_pretty/to_string '
                            "text does not re-parse to the same value; 8 = pretty_print text differs from the model's; 16 = nodes/edges/attributes "
                            "parsed back from the implementation's pretty text differ from the API view; 32 = the REAL JSON text written by "
                            "Graph::display_json (= serde_json::to_string_pretty(&graph)) differs from the model's print_pretty: the model's parser "
                            "parse_json_text rejects it, or print_pretty of the parsed tree does not reproduce the text character by character "
                            "(escaping, number rendering, indentation, separators), or the parsed tree (syntax-node ids canonicalised) is not the "
                            "implementation's value tree up to member order"}],
 'rule': 'graphs built through the public API (5 of 6 cases: 0-40 nodes, 10% with 0-1 nodes, 15% with 21-40, random edge sets incl. self loops, 35% '
         'with a hub node of >8 edges (SmallVec spill), 0-3 attributes per node and on 55% of edges, construction order shuffled, attribute names '
         'incl. the JSON structure keys type/id/attrs/values/sink/edges, non-ASCII, space and quote) or by executing generated DSL programs (1 of 6: '
         '1-3 stanzas over 5 query shapes, 1-4 nodes, edges, attr statements with literal/list/set/capture/node expressions, strict or lazy); values '
         'of every variant nested to depth 3, integers incl. u32 boundaries, 53 strings covering every escape class (quotes, backslash, \\0 \\t \\n '
         '\\r, C0/C1 controls, DEL, combining mark, zero-width/format, CJK, astral, private use, U+2028, U+10FFFF), every escape class of '
         "serde_json's string printer (\\b \\f \\n \\r \\t, quote, backslash, \\u00XX with hex letters in either digit, and '/', DEL, U+2028/9 which stay "
         "raw; also in attribute names; tags json_esc:* / json_raw:*) and strings that imitate the "
         'printed syntax; sets receive duplicate elements; non-trivial = at least 2 nodes AND an edge with attributes AND a list/set nested in a '
         'list/set; distinct by hash of (API view, pretty text); in 15-20% of cases syntax nodes may occur inside sets: there element order depends '
         'on addresses and is compared after re-sorting (tag syntax_node_in_set)',
 'explanation': 'Theorems (all closed): decode(encode g) = g for every graph; any reordering of object members at any depth still decodes, to the '
                'same graph up to attribute-list order = the same attribute maps for well-formed graphs; injectivity; shape (one object per node in '
                'index order with its id, edges once each in strictly ascending sink order, unique keys, exact type tags); value_cmp is a strict '
                'total order and sets are emitted strictly sorted without duplicates; pretty lines = node line, name-sorted attribute lines, edge '
                'lines with their sorted attribute lines; parsing the lines back yields exactly the nodes, sinks, attribute names and Debug texts; '
                'the text splits into exactly those lines; equal pretty TEXTS imply equal skeletons (pretty_text_determines_skel: the text alone determines node count, sinks, attribute names and Debug texts). TEXT level (Model/JsonText.v = serde_json PrettyFormatter + string escaping + u32 decimals, '
                'texts as lists of scalar values): parse_json (print_pretty j) = (j, nothing left) for EVERY value tree j with any fuel >= its size '
                '(the length of the text always suffices), also with surrounding whitespace; print_pretty injective; escape_roundtrip for all '
                'strings; no character below U+0020 in the output except layout line feeds, none inside string literals; well-formed trees print '
                'scalar values only; graph -> tree -> text -> tree -> graph is the identity (graph_json_text_roundtrip), for any member order up to '
                'attribute-list order. Correspondence per case: model JSON vs serde_json::to_value (members sorted on both sides '
                'by the model), decode(impl JSON) vs the API view read through iter_nodes/iter_edges/Attributes::iter, re-parse of the JSON text, '
                "full pretty_print text vs model, extraction from the implementation's text vs API view, and the real display_json text: parsed by "
                "the model's parser, printed back by the model's printer, compared character by character (member order is read off the text).",
 'assumptions': ["serde_json's pretty text is modelled (print_pretty) and compared character by character in every case; its compact "
                 'to_string form and its own parser are not modelled (checked dynamically by re-parsing both texts in every case)',
                 'JSON texts are lists of Unicode scalar values; the UTF-8 encoding of the file is outside the model (the harness decodes the '
                 'file with String::from_utf8)',
                 "Rust's Debug escaping (char::escape_debug_ext) is defined in the model for ASCII; for non-ASCII characters the "
                 'printable/Grapheme_Extend verdict is taken from std (char::escape_debug) as a per-case truth table',
                 "decimal / hexadecimal integer formatting of std = Coq's N.to_uint / N.to_hex_uint digit lists",
                 'syntax-node ids in JSON are truncated addresses; they are mapped to preorder ids by the harness (injectivity modulo 2^32 is '
                 'checked per case); kind and start position of a referenced syntax node are taken from tree-sitter directly',
                 'HashMap iteration order is not observable: the model encodes attribute objects in association-list order and all theorems and '
                 'comparisons are up to member order; BTreeSet iteration order of syntax nodes follows their addresses and is compared after '
                 're-sorting',
                 "pretty_extract needs attribute names without ':' and pretty_text_lines names/kinds without newline (generated names satisfy both)"],
 'partial': []}
