"""Check configuration for property C12 (streams, evidence texts)."""
CFG = {'streams': [{'name': 'C12',
              'n_quick': 60,
              'n_thorough': 600,
              'thorough_seeds': 2,
              'what_fails': 'verdict_code is a bit mask computed on the real library (notes with the first differing observation are in '
                            'case.impl.notes): 1 = (a) the same DSL text loaded 21x in one process did not always give the same canonical AST '
                            'dump / the same Debug+Display text of the error; 2 = (b) an execution of ONE loaded File (one function table, one '
                            'Variables; 5x strict + 5x lazy on the same parsed tree, then 12 executions interleaved over three trees) differs '
                            'from the isolated run (fresh load, fresh tables, single run) -- or (b2) an execution of one loaded File under CHANGING caller globals '
                            '(defaulted globals omitted / supplied / omitted again, a required global missing in between; both modes) differs from the '
                            'isolated run under the same globals -- in the canonical graph incl. node numbering, the '
                            'pretty_print text, the key-sorted JSON, or the Display+Debug text of the error; 4 = (c) one of 8 threads sharing '
                            '&File and &Functions (48 executions on thread-private tree copies) observed something else than the isolated '
                            "run; 8 = (d) the caller's Variables::iter() changed or the function table (stdlib + counting probe) answers a "
                            'battery of 42 direct Functions::call invocations differently after use; 16 = (e) one of 3 separate OS processes '
                            '(fresh hash seeds) regenerating the same case from the same generator state reports another hash of (load '
                            'observation, 6 isolated runs); 32 = the text inside CheckError::UnusedCaptures(..) is not Model/HashOrder.v '
                            'unused_message of the generated capture names (evaluated by coqc); 64 = a worker thread died'}],
 'rule': 'every observation of a run also carries the UNSORTED transcript of File::try_visit_matches in the same mode (matches in visiting order, capture_names() and named_captures() in the order the Match lists them); 60% of the texts also declare a global with a default that a stanza reads (40% of those supply a value); one case = one DSL text x three generated Python sources (1-6 statements or corpus; the third with 1-2 injected syntax faults in 30%). '
         'Texts: 28% programs of the typed generator of gen.rs over the whole statement/expression grammar (globals, inherit, shorthands, scan, '
         'scoped variables; redrawn up to 5x until the loader accepts), 22% exactly one unused-captures fault (query shapes with 3/4/5/6/8 captures '
         'named from a pool of 26 + 3 underscore names, shuffled, 0/1/2/all used, between 0-3 known-good stanzas), 12% two to four scoped '
         'variables defined twice on the same syntax nodes by two stanzas listing them in different orders (lazy: the error is raised while '
         'forcing cells, strict: at the second definition), 6% two to four scoped variables on a graph node, 8% two to four attributes set twice '
         'in different orders, 12% a node and an edge with 4-9 / 2-6 attributes of every value kind (pretty/JSON order), 6% three to six scoped '
         'names defined and read across stanzas, 6% one of 10 other loader faults; 45% of the non-generated kinds sit on top of a generated base '
         'program of 1-2 stanzas, the rest on 0-2 fixed stanzas calling stdlib and the probe function. Supplied globals: what the program declares '
         'plus an undeclared list. non-trivial = an error outcome whose message names at least 2 generated identifiers (unused captures with >= 2 '
         'names, or a run-time error in the scoped/duplicate-attribute kinds) or a loaded file interleaved over >= 2 distinct trees; distinct by '
         'hash of (DSL text, sources)',
 'explanation': 'Theorems (Props/C12.v, all closed; the iteration order of a hash container is an arbitrary Permutation of its association list, '
                'keys NoDup): str_cmp is a strict total order; insertion sort by a unique key is permutation invariant (sort_order_irrelevant); '
                'hence (1) attribute lines of Display for Attributes and the whole pretty_print lines/text, (2) the key-sorted JSON (and jperm of '
                'the raw encodings, so C14 decoding gives the same attribute maps), (3) the unused-captures list and message, for any order of both '
                'hash sets, with its membership specification, (4) the list of names LazyScopedVariables::evaluate_all forces (model '
                'scoped_evaluate_all = iterM force_one over that strictly ascending list for both stores; iterM reports the first failing '
                "element) are independent of the hash order; (5) alist_get / existsb / nmap_get lookups are permutation invariant; the streams' "
                'canon_graph as well. Dynamic stream on the real library per case: repeated loads, repeated + interleaved + concurrent executions '
                "of one loaded File against the isolated run, caller's Variables and Functions before/after, and three child processes "
                '(`tsgv transcript C12 --state <generator state> --n N`, spawned by the stream itself) compared line by line.',
 'assumptions': ['execute_is_a_function is deliberately NOT a theorem: run_strict/run_lazy take every input explicitly and Gallina has no hidden '
                 'state, so the statement would be vacuous; that the CODE has no hidden state is what sub-checks (a)-(e) exhibit on each run',
                 'graph_wf (attribute names unique, edges strictly ascending) in the pretty/JSON theorems is the invariant of every API history '
                 '(C17 history_wf)',
                 'NoDup of the capture-name set in unused_captures_order_irrelevant: the code collects the names into a HashSet',
                 'syntax-node ids in JSON are truncated addresses: mapped to preorder ids before comparing; generated programs put no syntax nodes '
                 'into sets (their BTreeSet order follows addresses, DESIGN 4.3)',
                 '`print` statements of generated programs write to stderr, which is not compared',
                 'the generator redraws a program the loader rejects, so it consults the implementation; a non-deterministic answer there makes '
                 'the child processes draw other cases and surfaces as (e)',
                 'sub-check (e) needs the harness binary to be able to start itself (std::env::current_exe) three times'],
 'partial': ['hash_order_irrelevant_partial: proved site by site (every place where /repo/src iterates a HashMap/HashSet, inventory in '
             'Model/HashOrder.v), not as one statement `forall iteration oracles, observe(load)/observe(run) agree` - that needs a model of the '
             'whole loader and a simulation through the complete interpreters for stores that differ by a permutation; the interpreter models take '
             'no oracle (they sort where the code sorts and otherwise look up by key)',
             'thread schedules and per-process hash seeds (RandomState) are explored DYNAMICALLY ONLY: 8 threads x 6 executions per loaded file and '
             '3 extra OS processes per run; the Coq model has neither threads nor processes, so immutability of a shared &File under concurrency and '
             'independence of the process are tested, not proved',
             'absence of state left behind in File / Functions / statics between executions is tested (sub-checks b, d), not proved: the model is a '
             'pure function by construction']}
