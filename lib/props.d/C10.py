"""Check configuration for property C10 (streams, evidence texts)."""
CFG = {'streams': [{'name': 'C10rx',
              'n_quick': 240,
              'n_thorough': 2400,
              'thorough_seeds': 2,
              'what_fails': "the model's regex matcher rx_captures and regex::Regex::captures disagree on a pattern of the generated sub-language "
                            '(verdict_code 1: match/no match; 2: whole-match span; 3: a group span; 4: AST outside the sub-language; 9: parse_regex '
                            'refused a generated pattern) - the modelled dependency, not /repo, is then in question'},
             {'name': 'C10',
              'n_quick': 200,
              'n_thorough': 2000,
              'thorough_seeds': 2,
              'what_fails': 'the sequence of graph nodes (arm number, $k strings) created by scan arm blocks, or the error / load-time rejection, '
                            "differs from the model's scan_loop (verdict_code 1: strict execution differs; 2: lazy execution differs; 3: both)"}],
 'rule': 'C10: one stanza `(module) { scan "<subject>" { "<re>" { node n attr (n) arm = <id>, c<k> = $k ... } ... } }` with 1-4 arms (55% from a '
         'pool of 44 path/optional-group/anchor/boundary shapes, 45% random ASTs of depth 1-3 over literals a b c e-acute U+65E5 / . space - newline '
         '1 _, `.`, (negated) classes, alternation, numbered groups, `? * +`, `^ $ \\b`), subjects of 0-10 code points over the same alphabet (35% '
         'path-like), 45% of programs allow nested scans of `$k` (two levels; nested arms drawn 65% from 12 generic shapes), 4% of node statements '
         'read `$k` beyond the group count, 8% of scans keep statically nullable arms, 24% keep arms that match empty somewhere in the subject and '
         '5% get an arm from a pool of 7 `\\b`-style shapes that pass the static check but match empty at run time; every program runs in strict AND '
         'lazy mode; non-trivial = at least 2 arms and at least 2 executed arms at top level; distinct by hash of the DSL text. C10rx: 25% pool '
         'patterns, 75% random ASTs of depth 2-5 x subjects of 0-10 code points (15% drawing from 18 probes of the \\w table borders), half of the '
         'cases go through the exported parse_regex; non-trivial = non-empty match of a regex with at least one group; distinct by hash of (pattern, '
         'subject)',
 'explanation': 'Theorems (for ANY regex engine `find` whose whole-match spans are ordered and inside the haystack): the loop computes exactly the '
                'unique declarative ScanSeq (leftmost start, earlier arm on ties, $0..$n = group texts with unmatched groups empty, continue after '
                'the end, stop at no match / end of string); every executed arm has end > start and events are strictly increasing; fuel |s|+1 '
                'suffices (termination); an empty match is the EmptyRegexCapture status for the first such arm and never an executed arm; an arm '
                'matching "" is rejected statically and whatever passes is still guarded at run time; `$k` is the k-th capture string and out of '
                'range is UndefinedRegexCapture identically in both modes; the executable matcher satisfies the engine hypothesis (group 0 always '
                'present, spans ordered and in range, 1+ngroups entries). Correspondence: per created graph node, in index order, (arm id, $k '
                "strings), or the root-cause error variant, or NullableRegex at load time, or a panic - real library in both modes vs the model's "
                'scan_loop instantiated with rx_captures (nested scans interpreted by the verdict function); plus rx_captures vs '
                'regex::Regex::captures (match span and every group span, byte offsets converted to code points).',
 'assumptions': ['rx_captures (Model/Regex.v) agrees with the regex crate (1.13) on the generated sub-language: literals, `.`, (negated) classes of '
                 'ranges, concatenation, alternation, numbered and non-capturing groups, greedy `?`, greedy `*`/`+` over bodies that cannot match '
                 'the empty string, `^`, `$` (no multi-line), `\\b` - validated on every run by stream C10rx; the theorems about scan do not depend '
                 'on it',
                 'the \\w table of the model is exact for ASCII, U+0080-U+02C1 and U+4E00-U+9FFF only; other code points are treated as non-word '
                 '(generated subjects stay inside these blocks)',
                 'strict and lazy scan loops are two textual copies of one algorithm; the property theorems are stated about one function (Model/Scan.v) and LINKED to the loops of the two interpreter models (strict_scan_refines_scan_model, lazy_scan_refines_scan_model, strict_/lazy_scan_spec, strict_/lazy_empty_match_is_error, interp_arm_select_spec); both are run against it '
                 'in every case',
                 "code-point offsets stand for the code's byte offsets: every offset the loop computes is a sum of match ends, hence a char "
                 'boundary'],
 'partial': []}
