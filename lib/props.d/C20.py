"""Check configuration for property C20 (streams, evidence texts)."""
CFG = {'streams': [{'name': 'C20',
              'n_quick': 240,
              'n_thorough': 2400,
              'thorough_seeds': 2,
              'what_fails': 'failing runs: 2 model succeeds; 4 root cause differs; 20 the outermost statement context(s) (statement location, stanza '
                            "location, matched node position and kind) differ from the model's; 50 a non-cancellation error has no statement "
                            'context; 51 display_pretty does not show the cited DSL/source lines'},
             {'name': 'C20r',
              'n_quick': 120,
              'n_thorough': 1200,
              'what_fails': 'rendering of the error of a failing run (ExecutionError::display_pretty and the plain Display) against '
                            'Model/ErrRender.v: 52 display_pretty panicked; 51 the real text lacks, for some statement context of the chain, '
                            'one of the three citations path:row+1:col+1: (statement, stanza, matched node) or the text of a cited line that '
                            'exists in the given DSL/source text (both judged on the real text alone); 61 the pretty text differs from '
                            "render_pretty of the walked chain; 62 the plain Display differs from render_plain; 63 the model's own text does "
                            'not show a context (excluded by the theorems); 64 the harness could not read a Context from its Debug rendering; 65 the '
                            "chain obtained by chain_of_error (Model/ErrChain.v) from the MODEL's error of the same run (node kind/position from "
                            'the recorded tree; statement, cause and Context::Other texts taken from the real error) is not the real chain: '
                            'number and order of entries, one/two statement contexts per entry, locations, node position and kind; 2 / 5 / 7 '
                            'the model run succeeds / panics / runs out of fuel'
                            '; 66 the statement text of a context (StatementContext::statement = format!("{}", stmt)) is not display_stmt (Model/As'
                            "tDisplay.v) of the model statement found at the context's statement location by stmt_at (or there is none); 69 two sta"
                            'tements of the loaded file share a location (locs_unique, the hypothesis of the *_disp theorems, is false)',
              'model_only_codes': [61, 62, 64, 66, 69]},
             {'name': 'C20d',
              'n_quick': 150,
              'n_thorough': 1500,
              'what_fails':
                            'Display impls of ast.rs against Model/AstDisplay.v on every statement (any depth) of a parsed file, walked on the REAL'
                            ' AST in stanza order / preorder: 66 format!("{}", statement) differs from display_stmt of the dumped statement (or the'
                            ' number of statements differs from file_stmts); 67 the Display of a scan arm / attribute shorthand differs from displa'
                            'y_scan_arm / display_shorthand; 68 the variable text recorded in an SNode differs from display_variable; 69 two statem'
                            'ents of the parsed file share a location (locs_unique false); 71 an identifier printed in a statement header of a pars'
                            'ed file contains a character below U+0020 (hypothesis of display_stmt_single_line_partial); 72 the REAL text of a stat'
                            'ement contains a character below U+0020 (judged on the real text alone: the statement text is one line); 70 a hand-wri'
                            'tten program of the stream does not parse',
              'model_only_codes': [66, 67, 68, 69, 70, 71]}],
 'rule': 'C20r: the failing runs of C20 (30% re-laid out: tabs, statements behind non-ASCII literals), rendered with paths containing spaces, '
         'non-ASCII and colons, and with the real DSL/source text (70%), a truncated one (rows missing), a CRLF copy or an unrelated text; '
         'non-trivial = two-statement context, a Context::Other entry, a missing row or a non-ASCII path. C20: '
         'generated programs with exactly one injected runtime fault (type error, unknown function, conflicting attribute, undefined edge, bad '
         'arity, eager faults in if/scan/for sources) at a random statement position and depth, plus naturally failing generated programs; both '
         'modes; non-trivial = fault at depth >= 1 or a two-statement (conflict) context'
         '. C20d: 7 hand-written programs (every statement and expression kind, strings with quotes, backslashes, newlines, cont'
         'rols, DEL, and non-ASCII characters that <str as Debug> escapes: U+0301, U+200B, U+FEFF, U+2028, U+00A0, U+E000, U+008'
         '5) and the texts of the C07 generators (AST-directed incl. nested comprehensions, odd identifiers and string constants'
         '; re-laid-out gen_program) and of the execution generator, parsed WITHOUT the checker; non-trivial = nested statements'
         ' and a string constant / scan pattern with a character that needs escaping or is not ASCII',
 'explanation': "Theorems. STRICT: the error of a run is the bare cancellation or comes from one (stanza, match) block and sits in ONE statement "
                "context carrying the stanza's location, the block's full-match node and the location of a statement s' of that stanza (any "
                "nesting depth) that failed directly: the cause (possibly inside Context::Other for scan arms) is the error returned by a run of "
                "s' itself which carries no statement context, while the error of a nested block is never without statement context — so the "
                "cited statement is the innermost failing one (strict_error_stmt_loc, strict_file_error_stmt_loc, strict_nested_error_not_plain). "
                "LAZY: an error of both phases is the bare cancellation or sits in one statement context, or two for a conflict (duplicate "
                "attribute / scoped variable); the cause is unwrapped and EVERY context is a valid context of the run: stanza location and "
                "first full-match node of an executed (stanza, match) pair and the location of a statement of that stanza at any depth (the "
                "failing statement or one enclosing it); no non-cancellation error escapes without a statement context "
                "(lazy_error_ctx_valid, lazy_run_error_ctx_valid; state invariant lazy_ctx_invariant). The innermost context wins. "
                "LAZY, WHICH statement is cited (all programs, states and fuels): a deferred edge/attr/print that fails when evaluated cites "
                "exactly its own debug info around a cause without statement context, a duplicate attribute names the earlier attribute "
                "statement that set the same key first and the failing one second, and when the failure comes out of a thunk or scoped "
                "definition the deferred statement's context is not added (lazy_deferred_error_cites_own_statement, "
                "lazy_eval_phase_error_cites_deferred); forcing cites the debug info of the innermost thunk / pending scoped definition whose "
                "own body failed without statement context, duplicate scoped definitions name the earlier one first, and no enclosing "
                "with_context changes such an error (lazy_thunk_error_cites_creator, lazy_value_error_cites_creator, lazy_creator_context_wins, "
                "lazy_thunk_error_not_plain); in the execution phase an error cites the nearest enclosing top-level statement or direct child "
                "of a scan arm whose own run returned the cause without statement context - for failures in if/for bodies the enclosing "
                "statement, not the nested one - or the creator of an eagerly forced value (lazy_stmt_error_cites_statement, "
                "lazy_exec_error_cites_statement); everything a statement stores carries its own error context or that of a statement nested "
                "in it (lazy_created_values_cite_statement); a whole run from the initial state has exactly these cases (lazy_run_error_cites). "
                "RENDERING: Model/ErrRender.v models display_pretty and the plain Display of execution/error.rs on the chain the Rust "
                "code sees (contexts outermost first, Display of the innermost error), for any wording of the phrases; for EVERY "
                "statement context of the chain the pretty text contains path:row+1:col+1: for the statement, the stanza and the "
                "matched node (render_pretty_cites) and the text of the cited DSL/source lines whenever the given texts have these "
                "rows (render_pretty_shows_lines; otherwise the excerpt is the citation and <missing source>: excerpt_missing_source); "
                "entries come in chain order numbered 0..n, the innermost error last (render_pretty_entries, render_entry_head). "
                "Stream C20r walks the real chain of failing runs and compares both texts character by character with the model. "
                "END TO END: chain_of_error maps the error VALUE of the execution model to the rendered chain (texts the model lacks are "
                "arbitrary function arguments); error_rendering_cites_all: every statement context of a model error is cited and its "
                "lines shown; strict_error_rendering_cites / _shows_lines: the text for the error of a strict run cites a statement of "
                "the stanza of an executed block, that stanza and the block's full-match node position; lazy_error_rendering_cites / "
                "_shows_lines: likewise for each (valid) context of a lazy run's error. C20r also checks that chain_of_error of the "
                "model's error of each run is the real chain (code 65)."
                ' STATEMENT TEXT: Model/AstDisplay.v models the Display impls of ast.rs (display_stmt, display_expr, ...; strings by <s'
                'tr as Debug>, `#true`/`#false` print as `true`/`false`, nested blocks as `{ ... }`, every statement ends with ` at (ro'
                'w+1, col+1)`); stream C20d compares it with format!("{}", stmt) on every statement of every parsed file, C20r on every'
                ' context of every failing run (code 66). Theorems: display_stmt_head (the text starts with the statement keyword), dis'
                'play_stmt_single_line_partial (no line break in the text: string constants are escaped; hypothesis: identifiers contai'
                'n none, true of parsed files), display_stmt_ends_with_location, strict_error_rendering_cites_disp / lazy_error_renderi'
                'ng_cites_disp (chain_of_error_disp = chain_of_error with the texts computed from the file by stmt_at; under locs_uniqu'
                'e the rendering contains display_stmt of the cited statement itself), display_stmt_injective_refuted (two different st'
                'atements with the same text).',
 'partial': ['WHICH statement is cited: the older theorems (strict_error_stmt_loc, lazy_run_error_cites) use fails_directly / forced, which quantify existentially over the state; the run-level versions in Props/C20run.v (strict_error_cites_statement_of_the_run, lazy_run_error_cites_reached) tie the citation to states reached by the run, except inside `origin` (innermost thunk body), still tied by debug info only',
             'the KIND and source position recorded for the matched node are compared by the stream only (the model of the execution '
             'identifies syntax nodes by index); the RENDERING of a recorded chain is modelled (Model/ErrRender.v, theorems '
             'render_pretty_*) and compared character by character by stream C20r'],
 'assumptions': ['tree-sitter queries are an external: raw matches are recorded by calling QueryCursor::matches directly on the stanza queries and '
                 'on the merged file query',
                 'regex crate: modelled by Model/Regex.v on the generated sub-language (validated by stream C10rx); stdlib functions: Model/Stdlib.v '
                 '(validated by C13)',
                 'syntax nodes are identified by preorder index (KeyInjective: node ids distinct modulo 2^32, checked per tree in C04)',
                 'errors returned by caller-supplied functions are plain errors (call_errors_base: PROVED for the stdlib, _stdlib corollaries)',
                 'rendering: the Display of the innermost error is an opaque string; the Display of a statement is modelled (Model/AstDi'
                 'splay.v) except for the Unicode table behind <str as Debug> (which non-ASCII characters are escaped: passed per case, '
                 'as for C14)'
                 '; paths are valid UTF-8 '
                 '(to_string_lossy is the identity); built without the term-colors feature; Excerpt::gutter_width (f64 log10) is the '
                 'number of decimal digits of row+1; the wording of the phrases is a parameter of the model, read off the implementation '
                 'once per run on a fixed two-statement conflict (tag phrases_read_off_the_implementation:k/11; pinned wording as fallback); '
                 'the chain is read from the Debug rendering of each Context (the type is private to the crate) and validated by '
                 'printing it back (code 64)'],
 'extra_props': ['C20disp', 'C20run']}
