"""Check configuration for property C20 (streams, evidence texts)."""
CFG = {'streams': [{'name': 'C20',
              'n_quick': 240,
              'n_thorough': 2400,
              'thorough_seeds': 2,
              'what_fails': 'failing runs: 2 model succeeds; 4 root cause differs; 20 the outermost statement context(s) (statement location, stanza '
                            "location, matched node position and kind) differ from the model's; 50 a non-cancellation error has no statement "
                            'context; 51 display_pretty does not show the cited DSL/source lines'}],
 'rule': 'generated programs with exactly one injected runtime fault (type error, unknown function, conflicting attribute, undefined edge, bad '
         'arity, eager faults in if/scan/for sources) at a random statement position and depth, plus naturally failing generated programs; both '
         'modes; non-trivial = fault at depth >= 1 or a two-statement (conflict) context',
 'explanation': "Theorems: strict: the error of a block execution is the bare cancellation or sits in ONE statement context carrying the stanza's "
                'location and the matched node (cause possibly inside Context::Other); the error of a run comes from one (stanza, match) block; '
                'lazy: one context, or two for a conflict; the innermost context wins.',
 'partial': ['that the cited STATEMENT location is the innermost failing statement (strict) / the failing or an enclosing statement (lazy) is '
             'checked by the correspondence stream against the model, not proved as a theorem',
             'lazy: stanza/node of contexts stored with thunks and deferred statements are compared by the stream, the theorem covers the shape of '
             'the chain'],
 'assumptions': ['tree-sitter queries are an external: raw matches are recorded by calling QueryCursor::matches directly on the stanza queries and '
                 'on the merged file query',
                 'regex crate: modelled by Model/Regex.v on the generated sub-language (validated by stream C10rx); stdlib functions: Model/Stdlib.v '
                 '(validated by C13)',
                 'syntax nodes are identified by preorder index (KeyInjective: node ids distinct modulo 2^32, checked per tree in C04)',
                 'errors returned by caller-supplied functions are plain errors']}
