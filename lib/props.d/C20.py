"""Check configuration for property C20 (streams, evidence texts)."""
CFG = {'streams': [{'name': 'C20',
              'n_quick': 240,
              'n_thorough': 2400,
              'thorough_seeds': 2,
              'what_fails': 'failing runs: 2 model succeeds; 4 root cause differs; 20 the outermost statement context(s) (statement location, stanza '
                            "location, matched node position and kind) differ from the model's; 50 a non-cancellation error has no statement "
                            'context; 51 display_pretty does not show the cited DSL/source lines'},
             {'name': 'C20r',
              'n_quick': 120,
              'n_thorough': 1200,
              'what_fails': 'rendering of the error of a failing run (ExecutionError::display_pretty and the plain Display) against '
                            'Model/ErrRender.v: 52 display_pretty panicked; 51 the real text lacks, for some statement context of the chain, '
                            'one of the three citations path:row+1:col+1: (statement, stanza, matched node) or the text of a cited line that '
                            'exists in the given DSL/source text (both judged on the real text alone); 61 the pretty text differs from '
                            "render_pretty of the walked chain; 62 the plain Display differs from render_plain; 63 the model's own text does "
                            'not show a context (excluded by the theorems); 64 the harness could not read a Context from its Debug rendering',
              'model_only_codes': [61, 62, 64]}],
 'rule': 'generated programs with exactly one injected runtime fault (type error, unknown function, conflicting attribute, undefined edge, bad '
         'arity, eager faults in if/scan/for sources) at a random statement position and depth, plus naturally failing generated programs; both '
         'modes; non-trivial = fault at depth >= 1 or a two-statement (conflict) context',
 'explanation': "Theorems. STRICT: the error of a run is the bare cancellation or comes from one (stanza, match) block and sits in ONE statement "
                "context carrying the stanza's location, the block's full-match node and the location of a statement s' of that stanza (any "
                "nesting depth) that failed directly: the cause (possibly inside Context::Other for scan arms) is the error returned by a run of "
                "s' itself which carries no statement context, while the error of a nested block is never without statement context — so the "
                "cited statement is the innermost failing one (strict_error_stmt_loc, strict_file_error_stmt_loc, strict_nested_error_not_plain). "
                "LAZY: an error of both phases is the bare cancellation or sits in one statement context, or two for a conflict (duplicate "
                "attribute / scoped variable); the cause is unwrapped and EVERY context is a valid context of the run: stanza location and "
                "first full-match node of an executed (stanza, match) pair and the location of a statement of that stanza at any depth (the "
                "failing statement or one enclosing it); no non-cancellation error escapes without a statement context "
                "(lazy_error_ctx_valid, lazy_run_error_ctx_valid; state invariant lazy_ctx_invariant). The innermost context wins.",
 'partial': ['lazy: WHICH statement of the stanza a context cites (the statement that created the failing thunk / deferred statement, or the '
             "enclosing top-level statement for failures in if/for blocks during execution) is compared by the stream with the model's; the "
             'theorem says it is a statement of the stanza of an executed (stanza, match) pair, with that pair\'s node',
             'the KIND and source position recorded for the matched node are compared by the stream only (the model of the execution '
             'identifies syntax nodes by index); the RENDERING of a recorded chain is modelled (Model/ErrRender.v, theorems '
             'render_pretty_*) and compared character by character by stream C20r'],
 'assumptions': ['tree-sitter queries are an external: raw matches are recorded by calling QueryCursor::matches directly on the stanza queries and '
                 'on the merged file query',
                 'regex crate: modelled by Model/Regex.v on the generated sub-language (validated by stream C10rx); stdlib functions: Model/Stdlib.v '
                 '(validated by C13)',
                 'syntax nodes are identified by preorder index (KeyInjective: node ids distinct modulo 2^32, checked per tree in C04)',
                 'errors returned by caller-supplied functions are plain errors']}
