"""Check configuration for property C20 (streams, evidence texts)."""
CFG = {'streams': [{'name': 'C20',
              'n_quick': 240,
              'n_thorough': 2400,
              'thorough_seeds': 2,
              'what_fails': 'failing runs: 2 model succeeds; 4 root cause differs; 20 the outermost statement context(s) (statement location, stanza '
                            "location, matched node position and kind) differ from the model's; 50 a non-cancellation error has no statement "
                            'context; 51 display_pretty does not show the cited DSL/source lines'}],
 'rule': 'generated programs with exactly one injected runtime fault (type error, unknown function, conflicting attribute, undefined edge, bad '
         'arity, eager faults in if/scan/for sources) at a random statement position and depth, plus naturally failing generated programs; both '
         'modes; non-trivial = fault at depth >= 1 or a two-statement (conflict) context',
 'explanation': "Theorems. STRICT: the error of a run is the bare cancellation or comes from one (stanza, match) block and sits in ONE statement "
                "context carrying the stanza's location, the block's full-match node and the location of a statement s' of that stanza (any "
                "nesting depth) that failed directly: the cause (possibly inside Context::Other for scan arms) is the error returned by a run of "
                "s' itself which carries no statement context, while the error of a nested block is never without statement context — so the "
                "cited statement is the innermost failing one (strict_error_stmt_loc, strict_file_error_stmt_loc, strict_nested_error_not_plain). "
                "LAZY: an error of both phases is the bare cancellation or sits in one statement context, or two for a conflict (duplicate "
                "attribute / scoped variable); the cause is unwrapped and EVERY context is a valid context of the run: stanza location and "
                "first full-match node of an executed (stanza, match) pair and the location of a statement of that stanza at any depth (the "
                "failing statement or one enclosing it); no non-cancellation error escapes without a statement context "
                "(lazy_error_ctx_valid, lazy_run_error_ctx_valid; state invariant lazy_ctx_invariant). The innermost context wins. "
                "LAZY, WHICH statement is cited (all programs, states and fuels): a deferred edge/attr/print that fails when evaluated cites "
                "exactly its own debug info around a cause without statement context, a duplicate attribute names the earlier attribute "
                "statement that set the same key first and the failing one second, and when the failure comes out of a thunk or scoped "
                "definition the deferred statement's context is not added (lazy_deferred_error_cites_own_statement, "
                "lazy_eval_phase_error_cites_deferred); forcing cites the debug info of the innermost thunk / pending scoped definition whose "
                "own body failed without statement context, duplicate scoped definitions name the earlier one first, and no enclosing "
                "with_context changes such an error (lazy_thunk_error_cites_creator, lazy_value_error_cites_creator, lazy_creator_context_wins, "
                "lazy_thunk_error_not_plain); in the execution phase an error cites the nearest enclosing top-level statement or direct child "
                "of a scan arm whose own run returned the cause without statement context - for failures in if/for bodies the enclosing "
                "statement, not the nested one - or the creator of an eagerly forced value (lazy_stmt_error_cites_statement, "
                "lazy_exec_error_cites_statement); everything a statement stores carries its own error context or that of a statement nested "
                "in it (lazy_created_values_cite_statement); a whole run from the initial state has exactly these cases (lazy_run_error_cites).",
 'partial': [
             'the KIND and source position displayed for the matched node, and the DSL/source excerpts of display_pretty, are checked by the '
             'stream only (the model identifies syntax nodes by index)'],
 'assumptions': ['tree-sitter queries are an external: raw matches are recorded by calling QueryCursor::matches directly on the stanza queries and '
                 'on the merged file query',
                 'regex crate: modelled by Model/Regex.v on the generated sub-language (validated by stream C10rx); stdlib functions: Model/Stdlib.v '
                 '(validated by C13)',
                 'syntax nodes are identified by preorder index (KeyInjective: node ids distinct modulo 2^32, checked per tree in C04)',
                 'errors returned by caller-supplied functions are plain errors']}
