"""Check configuration for property C11 (streams, evidence texts)."""
CFG = {'streams': [{'name': 'C11',
              'n_quick': 200,
              'n_thorough': 2000,
              'thorough_seeds': 2,
              'what_fails': "cancellation: model vs implementation result (codes 1-7); 10 the implementation's poll-label trace differs from the "
                            "model's; 11 the model is not cancelled with the same label at a sampled k; 30 on the implementation, a flag failing "
                            'from poll k on did not yield exactly ExecutionError::Cancelled or a further poll happened (exhaustive over k = '
                            '1..number of polls); 12 for some poll label the implementation polled fewer times than the model, whose polls are exactly one per unit of work of that kind (statement, attribute, scan iteration, match, deferred evaluation: theorems polls_each_*), i.e. a unit of work ran unpolled; 31 on the implementation, a successful lazy run made fewer per-match polls than the merged query has matches',
              'model_only_codes': [10, 11]}],
 'rule': 'generated programs (as C01) on short sources, both modes; for every k from 1 to the total number of polls of the uncancelled run '
         '(exhaustive) the real library is run with a flag failing from poll k on; the model is additionally checked at 4 sampled k; non-trivial = '
         'at least 20 polls or a scan iteration poll',
 'explanation': 'Theorems (both interpreters, any program): cancellation at any k between 1 and the number of polls yields the bare Cancelled error; '
                'a flag that does not fire leaves the result unchanged; a failing run fails with the same error or the bare cancellation; the '
                'cancellation error is never wrapped in a context; a successful budgeted run made fewer than k polls.',
 'partial': ['polls_cover_work is proved per unit of work ({strict,lazy}_polls_each_statement/_attribute/_scan_iteration, lazy_polls_each_match/'
             '_deferred_statement/_deferred_value: every unit begins with a poll); it is not stated as one inequality over a whole run because the '
             'number of executed units is not an observable; the poll sites of the model are tied to the code by comparing the full label trace of every run'],
 'assumptions': ['tree-sitter queries are an external: raw matches are recorded by calling QueryCursor::matches directly on the stanza queries and '
                 'on the merged file query',
                 'regex crate: modelled by Model/Regex.v on the generated sub-language (validated by stream C10rx); stdlib functions: Model/Stdlib.v '
                 '(validated by C13)',
                 'syntax nodes are identified by preorder index (KeyInjective: node ids distinct modulo 2^32, checked per tree in C04)',
                 'errors returned by caller-supplied functions are ordinary (non-cancellation) errors (call_errors_ok: PROVED for the stdlib, see the _stdlib corollaries and Example c11_nonvacuous)']}
