"""Check configuration for property C03 (streams, evidence texts)."""
CFG = {'streams': [{'name': 'C03',
              'n_quick': 200,
              'n_thorough': 2000,
              'thorough_seeds': 2,
              'what_fails': 'probe stanzas recording every capture: model vs implementation in strict (codes 1-7) or lazy (100+code) mode; 95 the recorded strict (stanza-indexed) and merged (file-indexed) matches are not related as assumptions A1-A3 say (Model/IdxBridge.v idx_agreeb, evaluated in Coq); 90 an '
                            "oracle assumption A1-A3 about tree-sitter's merged query fails; 91 the public match visitor disagrees with the raw "
                            'matches or between modes; 92 (large direct-only cases) strict or lazy execution does not run one block per raw stanza match'}],
 'rule': '2-5 stanzas drawn from a pool of 14 query shapes (fields, wildcards, alternation, anchors, #eq? predicate, ?, *, + captures, names shared '
         'between stanzas with different quantifiers, _-prefixed names), each recording all its captures as attributes; x generated sources incl. '
         '30% with injected syntax errors; both modes; non-trivial = at least 2 stanzas sharing a capture name; plus, per 700 cases (at least one), a LARGE direct-only case: three stanzas pairing non-adjacent siblings over three nested sibling lists of 360-440 nodes, so that more than a thousand matches of the merged query are in progress at once (model not evaluated on these: raw stanza-query matches vs lazy visitor vs blocks run in both modes)',
 'explanation': 'Theorems: capture value shape by quantifier; strict (stanza index, stanza match) and lazy (file index, merged match) bind the same '
                "value when the name denotes the same nodes; a capture's value depends only on its own match; each match runs its block once, in "
                'file order. Harness validates A1-A3 and compares try_visit_matches(lazy=false/true) with the raw matches.',
 'partial': [],
 'assumptions': ['tree-sitter queries are an external: raw matches are recorded by calling QueryCursor::matches directly on the stanza queries and '
                 'on the merged file query',
                 'regex crate: modelled by Model/Regex.v on the generated sub-language (validated by stream C10rx); stdlib functions: Model/Stdlib.v '
                 '(validated by C13)',
                 'syntax nodes are identified by preorder index (KeyInjective: node ids distinct modulo 2^32, checked per tree in C04)',
                 "A1-A3: the merged query knows every stanza capture name, gives it the stanza's quantifier under that stanza's pattern, and its "
                 "matches per pattern are a permutation of the stanza query's matches UP TO RE-INDEXING of the captures (the merged query numbers capture names over all stanzas, the stanza query over its own: compared by NAME; validated on every case)"]}
