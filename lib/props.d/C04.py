"""Check configuration for property C04 (streams, evidence texts)."""
CFG = {'streams': [{'name': 'C04',
              'n_quick': 200,
              'n_thorough': 2000,
              'thorough_seeds': 2,
              'what_fails': 'scoped-variable programs: model vs implementation in strict (codes 1-7) or lazy (100+code) mode; 95 the recorded strict and merged matches are not related as assumptions A1-A3 say (idx_agreeb); 92 two syntax nodes '
                            'share a truncated id (KeyInjective fails); 93 Node::parent disagrees with the cursor walk'}],
 'rule': 'programs composed from scoped-variable idioms (definition on one capture, read through another capture / list element / nested scope '
         '@n.owner.k, inherit declared or not, duplicate definition on one node, three definitions of one name with two on the module and one on its first child in between, lookup on a node lacking the variable) in random stanza order x '
         'deeply nested def/class sources; both modes; non-trivial = inherit declared and nested definitions present',
 'explanation': "Theorems: strict lookup = own value, else (only if inherited) the NEAREST ancestor's, else error; a second definition on a node is "
                'DuplicateVariable and changes nothing, a fresh one changes no other (node, name); lazy forcing yields the first definition per node '
                'and fails exactly when two definitions evaluate to the same node, naming both; lazy inherited lookup walks to the nearest ancestor; these lazy statements are proved for a pure evaluator AND for the stateful forcing of the interpreter model (lazy_force_refines_force_pairs, lazy_force_spec_interp, lazy_force_ok_iff_distinct_nodes_interp, lazy_scoped_lookup_rule).',
 'partial': [],
 'assumptions': ['tree-sitter queries are an external: raw matches are recorded by calling QueryCursor::matches directly on the stanza queries and '
                 'on the merged file query',
                 'regex crate: modelled by Model/Regex.v on the generated sub-language (validated by stream C10rx); stdlib functions: Model/Stdlib.v '
                 '(validated by C13)',
                 'syntax nodes are identified by preorder index (KeyInjective: node ids distinct modulo 2^32, checked per tree in C04)']}
