"""Check configuration for property C05 (streams, evidence texts).  Parser part only; to be extended."""
CFG = {'streams': [{'name': 'C05p',
              'n_quick': 200,
              'n_thorough': 2000,
              'thorough_seeds': 1,
              'what_fails': 'ast::File::parse on a MALFORMED text (mutated valid program or hand-written edge case) disagreed with Model/Parser.v: '
                            '1 = AST differs, 2 = only locations differ, 3 = different ParseError variant, 4 = other location, 5 = ORACLE_MISS, '
                            '6 = the model reaches a panic site, 7 = model out of fuel, 8 = the implementation panicked or took longer than 2 s, '
                            '9 = Ok vs Err, 10 = parsed AST is not the intended one (not used in this stream), 11 = scan patterns differ, '
                            '12 = error payload differs'}],
 'rule': 'see C07.py, stream C05p: hand-written edge cases for every ParseError variant plus valid texts with 1-3 token-/character-level mutations',
 'explanation': 'TODO-COQ',
 'assumptions': ['see C07.py'],
 'partial': ['TODO-COQ']}
