"""Check configuration for property C05 (streams, evidence texts)."""
CFG = {'streams': [{'name': 'C05x',
              'n_quick': 240,
              'n_thorough': 2400,
              'thorough_seeds': 2,
              'what_fails': 'execution and error rendering: 61 the run did not finish within the watchdog limit (hang); 62 the implementation '
                            'panicked (generators stay outside the known classes K1-K3); 63 rendering the error (Display / display_pretty) panicked; '
                            'otherwise outcome class and graph vs the model (codes 1-7)'},
             {'name': 'C05p',
              'n_quick': 200,
              'n_thorough': 2000,
              'thorough_seeds': 1,
              'what_fails': 'ast::File::parse on a MALFORMED text (mutated valid program or hand-written edge case) disagreed with Model/Parser.v: 1 '
                            '= AST differs, 2 = only locations differ, 3 = different ParseError variant, 4 = other location, 5 = ORACLE_MISS, 6 = '
                            'the model reaches a panic site, 7 = model out of fuel, 8 = the implementation panicked or took longer than 2 s, 9 = Ok '
                            'vs Err, 10 = parsed AST is not the intended one (not used in this stream), 11 = scan patterns differ, 12 = error '
                            'payload differs'}],
 'rule': 'accepted generated programs incl. ill-typed ones (0-2 injected runtime faults, graph nodes rendered to text allowed) x generated sources '
         'with 0-3 injected syntax faults (ERROR/MISSING nodes, non-ASCII text) x both modes; every run in its own thread with a 10 s watchdog and '
         'catch_unwind; errors are rendered plain and pretty; non-trivial = failing run or tree with syntax errors | parser part: see C07.py, stream '
         'C05p: hand-written edge cases for every ParseError variant plus valid texts with 1-3 token-/character-level mutations',
 'explanation': 'Theorems: scan loops always advance and terminate within S|subject| iterations for any regex engine with well-formed spans; no '
                'stdlib call panics or diverges; the checker never panics on consistent query tables; witness lemmas for the three known '
                'panic/divergence classes (K1 capture in a shorthand body, K2 recursive shorthand, K3 unbound full-match capture). Streams: outcome '
                'class {Ok, Err, Panic, Hang} of File::execute and of error rendering vs the model, which has an explicit Panic outcome at every '
                'unwrap/expect/index/unreachable! site. PARSER PART: Theorems in Props/C05parse.v (not Props/C05.v, which the execution part will '
                'provide): parse_total - for every text, with externals that answer (OracleTotal: tree-sitter keeps the appended full-match capture '
                'of every query it accepts and compiles the merged source), parse X (S (length text)) text is a file or a ParseError: no panic site, '
                'no fuel exhaustion (linear bound); parse_never_out_of_fuel - without any assumption: never out of fuel, and the only reachable '
                'panic sites are 7 (.expect on the full-match capture index) and 8 (merged Query::new(..).unwrap()), both decided by tree-sitter; '
                'all six self.skip().unwrap() sites are unreachable; integer / $n overflow is an error, not a panic (also C07 '
                'integer_literal_overflow). Correspondence stream C05p: see C07.py.',
 'assumptions': ['real stack exhaustion and wall-clock time cannot be exhibited by the model; they are covered by the watchdog / child-process runs '
                 'only',
                 'tree-sitter queries, regex crate and stdlib as in C01'],
 'partial': ['exec_no_panic (for every checked file, well-formed match data and valid globals neither interpreter reaches a Panic site outside '
             'K1-K3) is not proved as one theorem: it needs value-level invariants (graph-node references in range, balanced frames, valid store '
             'locations); the pieces above are proved and the streams compare the Panic outcome class on every case',
             'real stack depth is not modelled: the model recursion is bounded by fuel; nesting up to 64 is exercised dynamically by stream C05p'],
 'extra_props': ['C05parse']}
