"""Check configuration for property C05 (streams, evidence texts).  Parser part only; to be extended."""
CFG = {'streams': [{'name': 'C05p',
              'n_quick': 200,
              'n_thorough': 2000,
              'thorough_seeds': 1,
              'what_fails': 'ast::File::parse on a MALFORMED text (mutated valid program or hand-written edge case) disagreed with Model/Parser.v: '
                            '1 = AST differs, 2 = only locations differ, 3 = different ParseError variant, 4 = other location, 5 = ORACLE_MISS, '
                            '6 = the model reaches a panic site, 7 = model out of fuel, 8 = the implementation panicked or took longer than 2 s, '
                            '9 = Ok vs Err, 10 = parsed AST is not the intended one (not used in this stream), 11 = scan patterns differ, '
                            '12 = error payload differs'}],
 'rule': 'see C07.py, stream C05p: hand-written edge cases for every ParseError variant plus valid texts with 1-3 token-/character-level mutations',
 'explanation': 'PARSER PART ONLY. Theorems in Props/C05parse.v (not Props/C05.v, which the execution part will provide): parse_total - for every '
                'text, with externals that answer (OracleTotal: tree-sitter keeps the appended full-match capture of every query it accepts and '
                'compiles the merged source), parse X (S (length text)) text is a file or a ParseError: no panic site, no fuel exhaustion (linear '
                'bound); parse_never_out_of_fuel - without any assumption: never out of fuel, and the only reachable panic sites are 7 (.expect on '
                'the full-match capture index) and 8 (merged Query::new(..).unwrap()), both decided by tree-sitter; all six self.skip().unwrap() '
                'sites are unreachable; integer / $n overflow is an error, not a panic (also C07 integer_literal_overflow). Correspondence '
                'stream C05p: see C07.py.',
 'assumptions': ['see C07.py'],
 'partial': ['only the parser part of C05 is stated here (Props/C05parse.v); checker, execution and error rendering are not covered by this file',
             'real stack depth is not modelled: the model recursion is bounded by fuel; nesting up to 64 is exercised dynamically by stream C05p']}
