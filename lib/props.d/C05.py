"""Check configuration for property C05 (streams, evidence texts)."""
CFG = {'streams': [{'name': 'C05x',
              'n_quick': 240,
              'n_thorough': 2400,
              'thorough_seeds': 2,
              'what_fails': 'execution and error rendering: 61 the run did not finish within the watchdog limit (hang); 62 the implementation '
                            'panicked (generators stay outside the known classes K1-K3); 63 rendering the error (Display / display_pretty) panicked; '
                            'otherwise outcome class and graph vs the model (codes 1-7)'},
             {'name': 'C05p',
              'n_quick': 200,
              'n_thorough': 2000,
              'thorough_seeds': 1,
              'what_fails': 'ast::File::parse on a MALFORMED text (mutated valid program or hand-written edge case) disagreed with Model/Parser.v: 1 '
                            '= AST differs, 2 = only locations differ, 3 = different ParseError variant, 4 = other location, 5 = ORACLE_MISS, 6 = '
                            'the model reaches a panic site, 7 = model out of fuel, 8 = the implementation panicked or took longer than 2 s, 9 = Ok '
                            'vs Err, 10 = parsed AST is not the intended one (not used in this stream), 11 = scan patterns differ, 12 = error '
                            'payload differs',
              'model_only_codes': [3, 4, 12]},
             {'name': 'C05r',
              'n_quick': 150,
              'n_thorough': 1500,
              'what_fails': 'pretty rendering of a LOAD error (ParseError::display_pretty; for ParseError::Check also CheckError::display_pretty) of a '
                            'text the loader rejects, against Model/LoadErrRender.v: 72 rendering panicked; 71 the real text does not contain '
                            'path:row+1:col+1: of the location of the error (both judged on the real text alone); 73 the text differs from '
                            'load_error_pretty (message line = Display of the error, then the excerpt at the location of the variant); 74 '
                            "CheckError::display_pretty differs from the model's / from ParseError::Check's rendering",
              'model_only_codes': [73, 74]}],
 'rule': 'accepted generated programs incl. ill-typed ones (0-2 injected runtime faults, graph nodes rendered to text allowed) x generated sources '
         'with 0-3 injected syntax faults (ERROR/MISSING nodes, non-ASCII text) x both modes; every run in its own thread with a 10 s watchdog and '
         'catch_unwind; errors are rendered plain and pretty; non-trivial = failing run or tree with syntax errors | parser part: see C07.py, stream '
         'C05p: hand-written edge cases for every ParseError variant plus valid texts with 1-3 token-/character-level mutations',
 'explanation': 'RENDERING OF LOAD ERRORS (Props/C05render.v): load_error_pretty = message line + the excerpt of C18 at the location of the '
                'variant (every variant of ParseError and CheckError has one); it is a total function: when the row is not a line of the given text '
                'the result is message, citation and <missing source> (load_error_pretty_missing_source), otherwise message, citation, numbered '
                'line and caret line (load_error_pretty_present); the column is a repeat count clamped against the byte length of the line, never '
                'a slice bound; every load error is cited as path:row+1:col+1: (load_error_pretty_cites; for the error values of the parser and '
                'checker models: parse_model_error_pretty_cites, check_model_error_pretty_cites) and its line shown '
                '(load_error_pretty_shows_line). Stream C05r compares the text character by character on rejected texts (malformed texts of C05p, '
                'rule-breaking texts of C06, hand-written layouts: CRLF, non-ASCII before the error column, error at end of file / on a last line '
                'without newline; 20% rendered with another text than the file: truncated, CRLF copy, unrelated). '
                'Theorems: strict_exec_no_panic (Proofs/NoPanicStrict.v) and lazy_exec_no_panic (Proofs/NoPanicLazy.v): neither interpreter '
                '(check_globals + execution of all stanzas, for the lazy one also the evaluation phase) ever reaches a Panic site, for every tree, '
                'file, configuration, fuel, regex engine and cancellation budget, provided WellFormedFile (every scan statement, nested ones '
                'included, has a regex-table entry for each arm; attribute-shorthand bodies contain no capture expression, which excludes the known '
                'class K1), GoodMatches / GoodMatchesLazy (per stanza and match: the full-match capture is bound, which excludes K3; every capture '
                'expression has a quantifier other than Zero and, when One, a node in the match; matched nodes satisfy the syntax-node predicate '
                'sok; lazy: the stanza index of each match is in range and captures are looked up by file-query index), GoodGlobals (graph-node '
                'references in supplied global values are indices of the initial graph) and GoodCall (the function library does not panic on good '
                'arguments and returns good values and a graph that is not smaller). The proof is an invariant on the interpreter state: every '
                'graph-node reference in locals, scoped variables and the parameter buffer is an index of the current graph (P_graph_index), and '
                'frame depth and parameter-buffer length are tracked exactly (P_locals_empty, P_params_underflow); the selected scan arm is always '
                'an arm of the statement (P_regex_table); for the lazy interpreter in addition every store location inside a lazy value kept in '
                'locals, thunks, scoped-variable cells or recorded statements is an index of the store, which only grows (P_store_index), stanza '
                'indices are in range (P_stanza_index) and collected scoped definitions and their debug records have the same keys '
                '(P_unreachable_scoped). strict_exec_only_missing_capture / lazy_exec_only_missing_capture: without the assumption that tree-sitter '
                'binds every capture whose quantifier is One (GoodMatchesResolved: only the quantifier is resolved), the ONLY reachable site is '
                'Value::from_nodes `.expect("missing capture")`; this site IS reachable in the implementation (finding K8: a fourth capture on one '
                'query node is never bound by tree-sitter although its quantifier is One; witness theorems missing_capture_witness_strict/_lazy, '
                'example c05_missing_capture_reachable, reproduced by `tsgv known K8`). stdlib_good_call: GoodCall holds of the standard library '
                'with sok = the node is in the recorded tree. K2 (recursive shorthand) is OutOfFuel in the model, not Panic. Further: scan loops '
                'always advance and terminate within S|subject| iterations for any regex engine with well-formed spans; no stdlib call panics or '
                'diverges; the checker never panics on consistent query tables; witness lemmas for the known panic/divergence classes (K1 capture in '
                'a shorthand body, K2 recursive shorthand, K3 unbound full-match capture, K8 unbound capture with quantifier One). Streams: outcome '
                'class {Ok, Err, Panic, Hang} of File::execute and of error rendering vs the model, which has an explicit Panic outcome at every '
                'unwrap/expect/index/unreachable! site. PARSER PART: Theorems in Props/C05parse.v (not Props/C05.v, which the execution part will '
                'provide): parse_total - for every text, with externals that answer (OracleTotal: tree-sitter keeps the appended full-match capture '
                'of every query it accepts and compiles the merged source), parse X (S (length text)) text is a file or a ParseError: no panic site, '
                'no fuel exhaustion (linear bound); parse_never_out_of_fuel - without any assumption: never out of fuel, and the only reachable '
                'panic sites are 7 (.expect on the full-match capture index) and 8 (merged Query::new(..).unwrap()), both decided by tree-sitter; '
                'all six self.skip().unwrap() sites are unreachable; parse_never_expected_quantifier / parse_quantifier_never_fails - for every text and any externals parsing never returns variant 1, and the repaired parse_quantifier returns no error '
                '(ParseError::ExpectedQuantifier is never produced; `global x!` is UnexpectedEOF / a QueryError raised by the caller); integer / $n overflow is an error, not a panic (also C07 '
                'integer_literal_overflow). Correspondence stream C05p: see C07.py.',
 'assumptions': ['hypotheses of the no-panic theorems about externals: tree-sitter binds every capture whose quantifier is One in every match (false '
                 'for more than three captures on one query node: finding K8; the *_only_missing_capture theorems drop this hypothesis), reports '
                 'stanza (pattern) indices in range and nodes of the tree (GoodMatches / GoodMatchesLazy); the checker has resolved the quantifier '
                 'of every capture expression in stanza statements and the compiled regex table covers every scan arm (WellFormedFile); the function '
                 'library satisfies GoodCall (proved for the stdlib)',
                 'real stack exhaustion and wall-clock time cannot be exhibited by the model; they are covered by the watchdog / child-process runs '
                 'only',
                 'tree-sitter queries, regex crate and stdlib as in C01'],
 'partial': ['the execution part is proved for both interpreters (strict_exec_no_panic, lazy_exec_no_panic) and the parser part by Props/C05parse.v '
             '(parse_total); error RENDERING: display_pretty of LOAD errors (ParseError / CheckError) is modelled (Model/LoadErrRender.v, '
             'Props/C05render.v, stream C05r) and display_pretty of EXECUTION errors is modelled under C20 (Model/ErrRender.v, stream C20r): both '
             'are total functions whose only partial step is the line lookup of the excerpt; the plain Display of errors (thiserror format '
             'strings over opaque payload texts) is explored by streams C05x / C05p only',
             'real stack depth is not modelled: the model recursion is bounded by fuel; nesting up to 64 is exercised dynamically by stream C05p'],
 'extra_props': ['C05parse', 'C05render']}
