"""Check configuration for property C01 (streams, evidence texts)."""
CFG = {'streams': [{'name': 'C01',
              'n_quick': 240,
              'n_thorough': 2400,
              'thorough_seeds': 2,
              'what_fails': 'strict execution of an accepted file differs from the model of strict.rs (graph, error-vs-success, or root-cause '
                            'variant); codes: 1 graphs differ, 2 model Ok/impl Err, 3 model Err/impl Ok, 4 error variants differ, 5/6 panic '
                            'mismatch, 7 model out of fuel; 8x = the reference semantics Spec/RefSem.v disagrees with the implementation although '
                            'the model of strict.rs agrees'}],
 'rule': 'typed environment-tracking generator over the whole statement/expression grammar (11 statements, 13 expressions, globals, shorthands, '
         'inherit, scan, comprehensions; blocks nested to depth 3; 1-5 stanzas from 12 query templates) x generated/corpus Python sources x supplied '
         'globals; non-trivial = at least 2 stanzas and at least 3 matches; distinct by hash of (DSL, source)',
 'explanation': 'Theorems: strict_refines_reference — the model of strict.rs (Model/Strict.v, with cancellation polls, error contexts, the shared '
                'function_parameters buffer) returns exactly the result of the reference semantics Spec/RefSem.v (same graph by equality; same '
                'root-cause error; panics/divergence coincide), for every file, tree, match list, globals, initial graph and fuel, and every function library whose errors are plain (call_errors_base: true of the standard library, discharged in Props - see the _stdlib corollaries), with no debug attributes configured and no cancellation budget; '
                "params_stack_balanced; the driver runs each stanza's block once per match in file order; a successful run only extends the graph. "
                'Correspondence: BOTH Model/Strict.v and Spec/RefSem.v are evaluated (vm_compute) on every generated case and compared with '
                'File::execute — whole graph exactly (strict numbering is deterministic) or root-cause error variant.',
 'partial': ['Spec/RefSem.v is a hand transcription of the prose reference (src/reference/mod.rs) into an evaluator; points where the prose is '
             'silent are listed in its header. Debug attributes are outside the reference (covered by C15).'],
 'assumptions': ['tree-sitter queries are an external: raw matches are recorded by calling QueryCursor::matches directly on the stanza queries and '
                 'on the merged file query',
                 'regex crate: modelled by Model/Regex.v on the generated sub-language (validated by stream C10rx); stdlib functions: Model/Stdlib.v '
                 '(validated by C13)',
                 'syntax nodes are identified by preorder index (KeyInjective: node ids distinct modulo 2^32, checked per tree in C04)']}
