"""Check configuration for property C19 (streams, evidence texts)."""
CFG = {'pre': 'cli',
 'streams': [{'name': 'C19',
              'n_quick': 128,
              'n_thorough': 1280,
              'thorough_seeds': 3,
              'what_fails': "the built tree-sitter-graph binary behaved differently from Model/Cli.v applied to the library's in-process results "
                            '(verdict_code: 1 = --global split differs from the model, 2 = exit status, 3 = stdout content, 4 = --output file '
                            'content, 5 = stderr empty/non-empty)'}],
 'rule': 'generated (DSL file, Python source) pairs: 1-3 stanzas out of 7 shapes (scoped root + child edges, identifiers, function parameters loop, '
         'call sites, list/set literals, global readers with and without default, class names), empty files, 7 kinds of loader rejection, 4 kinds of '
         'run-time failure, use-before-definition of a scoped variable (strict fails, lazy succeeds); 6 valid and 5 syntactically broken sources '
         '(one with >5 errors); option sets: the 32 combinations of --lazy/--json/--output/--quiet/--allow-parse-errors enumerated cyclically '
         "(--output: fresh path, existing file, path in a missing directory), 0-3 --global (values with '=', empty, non-ASCII; 10% required global "
         "missing, 9% without '=', 9% duplicate name; shuffled); non-trivial = the binary got past clap and the DSL file has at least one stanza; "
         'distinct by hash of (DSL, source, argv)',
 'explanation': 'Theorems (about the decision function `cli` of Model/Cli.v, all non-boolean parameters universally quantified): exit 0 iff '
                'arguments well formed, DSL loads, (no syntax error or --allow-parse-errors) and execution succeeds in the selected mode with every '
                '--global bound as a string and the --output file (if any) can be written; then JSON is in the --output file (stdout empty) or on stdout, the pretty graph on stdout unless '
                '--quiet; --quiet changes nothing but the pretty graph; non-zero exit means no graph anywhere and a diagnostic (an unwritable --output file is exit 1); exit 2 only for '
                "--output without --json; specification of the --global loop (split at the first '=', duplicate names rejected). Correspondence: the "
                "binary built from /repo's working tree on every run vs `cli` applied to the results of the library run in-process on the same files "
                "(both modes): exit code, stdout and --output file compared with the library's pretty/JSON text (JSON compared as a tree with sorted "
                'keys plus line multiset, because Attributes serialises in HashMap order), prior file content preserved on failure, stderr empty iff '
                'exit 0.',
 'assumptions': ['the grammar compiled by tree-sitter-loader from the registry copy of tree-sitter-python 0.23.5 is the grammar linked into the '
                 'harness (same parser.c/scanner.c)',
                 "generated programs contain no `print` statement (it writes to stderr), so non-empty stderr is read as 'a diagnostic was printed'",
                 "input files are readable UTF-8, the config/loader steps succeed, stdout is open; --global arguments do not start with '-' (clap "
                 'would read them as flags)',
                 'creating a file in an existing directory succeeds and in a missing directory fails (lr_create_ok of the generated cases)',
                 'a --output path that cannot be created (generated as a path inside a missing directory) makes the tool fail: exit status 1, '
                 'diagnostic, nothing on stdout, no file (theorem unwritable_output_fails; /repo fix f75d511 replaced the earlier '
                 '`display_json(..).unwrap_or(())`, which exited 0 silently); a write error after a successful File::create is not generated'],
 'trusted_extra': ['cargo build --features cli of /repo into .work/cli-target; cc building the python grammar for tree-sitter-loader'],
 'partial': ['clap argument parsing, anyhow and tree-sitter-loader are outside the model; assurance for them is the correspondence stream only']}
