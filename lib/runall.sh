#!/bin/bash
# usage: lib/runall.sh [quick|thorough]  — run every claimed check on the current tree, one line per property
tier=${1:-quick}
cd /verif
for p in $(cat lib/claimed.txt); do
  out=$(./check $p --tier $tier 2>&1); rc=$?
  echo "$p rc=$rc $(echo "$out" | grep -E "OK \(|VIOLATION" | head -2 | tr '\n' ' ')"
done
