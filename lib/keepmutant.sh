#!/bin/bash
# usage: keepmutant.sh <ID> <seeded-name> "<caught-by>"  — re-verify a seeded change in its scratch worktree, store it under /verif/seeded, remove the worktree
id=$1; name=$2; caught=$3; w=/tmp/mut/$id
cd $w || exit 2
export CARGO_NET_OFFLINE=true
# verify the STORED patch: clean src/, apply it, test; reverse it, test
git checkout -q -- src/ ; git apply MUTANT/patch.diff || { echo "stored patch does not apply"; exit 3; }
with=$(cargo test --offline --no-fail-fast 2>&1 | grep "^test result" | head -1)
git apply -R MUTANT/patch.diff; without=$(cargo test --offline --no-fail-fast 2>&1 | grep "^test result" | head -1)
echo "with change:    $with"; echo "without change: $without"
d=/verif/seeded/$name; mkdir -p $d
cp MUTANT/patch.diff $d/patch.diff; cp MUTANT/seeded_demo.rs $d/seeded_demo.rs; cp MUTANT/notes.md $d/notes.md
python3 - "$id" "$name" "$with" "$without" "$caught" <<'PY'
import json,sys
id,name,w,wo,caught=sys.argv[1:6]
notes=open('/verif/seeded/%s/notes.md'%name).read()
json.dump({"property":id[:3],"round":(1 if len(id)==3 else (ord(id[3])-ord("a")+1)),"name":name,"breaks":"see notes.md (written by the sub-agent that produced the change, without access to /verif)",
 "needs_to_manifest":"see notes.md","verified_by_me":{"cargo test with change (162 original + demo)":w,"cargo test without change":wo},
 "checks_run":caught},open('/verif/seeded/%s/meta.json'%name,'w'),indent=1)
PY
cd /; git -C /repo worktree remove --force $w && echo "removed $w"
