import sys, os, re, json, time, subprocess, fcntl, shutil, hashlib, glob
from concurrent.futures import ThreadPoolExecutor

ROOT = os.path.dirname(os.path.dirname(os.path.abspath(__file__)))
COQ = os.path.join(ROOT, "coq")
THEORIES = os.path.join(COQ, "theories")
HARNESS = os.path.join(ROOT, "harness")
WORK = os.path.join(ROOT, ".work")
TSGV = os.path.join(HARNESS, "target", "release", "tsgv")
TSGV_DEBUG = os.path.join(HARNESS, "target", "debug", "tsgv")
ENV = dict(os.environ, CARGO_NET_OFFLINE="true")

import props as PROPS

ALLOWED_AXIOMS = set()  # named in DESIGN.md §6 before use; currently none
FORBIDDEN = re.compile(r"\b(Admitted|admit|Axiom|Axioms|Parameter|Parameters|Conjecture|Admit Obligations|bypass_check)\b|Unset Guard|Unset Positivity|Unset Universe|type-in-type|impredicative-set")

TRUSTED_BASE = [
    "Coq 8.16.1 kernel and vm_compute (no native_compute, no extraction)",
    "coqc parsing of the generated cases_*.v",
    "the Rust harness /verif/harness (generators, dumpers, canonicalisers) and this python driver",
    "faithfulness of the hand-written Gallina model beyond the compared observables (tied to /repo only by the correspondence stream of each run)",
    "modelled, not verified: tree-sitter, regex, serde_json, clap, tree-sitter-loader, std (hashing, Unicode tables, Debug escaping), smallvec, allocator/threads/stack",
]


def log(*a):
    print(*a, flush=True)


class Lock:
    def __init__(self, name):
        os.makedirs(WORK, exist_ok=True)
        self.path = os.path.join(WORK, name + ".lock")
    def __enter__(self):
        self.f = open(self.path, "w")
        fcntl.flock(self.f, fcntl.LOCK_EX)
    def __exit__(self, *a):
        fcntl.flock(self.f, fcntl.LOCK_UN)
        self.f.close()


def run(cmd, cwd=None, timeout=1800, env=None, stderr_file=None):
    try:
        errf = open(stderr_file, "w") if stderr_file else subprocess.STDOUT
        p = subprocess.run(cmd, cwd=cwd, env=env or ENV, stdout=subprocess.PIPE, stderr=errf, timeout=timeout)
        return p.returncode, p.stdout.decode("utf-8", "replace")
    except subprocess.TimeoutExpired as e:
        return 124, (e.stdout or b"").decode("utf-8", "replace") + "\n[timeout]"


# ------------------------------------------------------------------ proofs

def ensure_makefile():
    mk = os.path.join(COQ, "Makefile")
    cp = os.path.join(COQ, "_CoqProject")
    if not os.path.exists(mk) or os.path.getmtime(mk) < os.path.getmtime(cp):
        run(["coq_makefile", "-f", "_CoqProject", "-o", "Makefile"], cwd=COQ)


def props_files(prop):
    """Props/<prop>.v plus the files named by the property's 'extra_props' configuration."""
    import props
    return [prop] + list(props.PROPS.get(prop, {}).get("extra_props", []))


def theorem_names(prop):
    names = []
    for f in props_files(prop):
        path = os.path.join(THEORIES, "Props", f + ".v")
        if os.path.exists(path):
            names += re.findall(r"^\s*Theorem\s+([A-Za-z0-9_']+)", open(path).read(), re.M)
    return names


def grep_forbidden():
    bad = []
    for path in glob.glob(os.path.join(THEORIES, "**", "*.v"), recursive=True):
        txt = open(path).read()
        txt = re.sub(r"\(\*.*?\*\)", "", txt, flags=re.S)
        for m in FORBIDDEN.finditer(txt):
            bad.append("%s: %s" % (os.path.relpath(path, ROOT), m.group(0)))
    return bad


def build_proofs(prop):
    """Compile Props/<prop>.vo (full .vo build) and check Print Assumptions of every theorem."""
    res = {"obligations": 0, "discharged": 0, "failures": [], "theorems": [], "assumptions": {}, "make_log": ""}
    names = theorem_names(prop)
    res["theorems"] = names
    res["obligations"] = len(names)
    if not names:
        res["failures"].append("no Props/%s.v theorems" % prop)
        return res
    with Lock("coq"):
        ensure_makefile()
        rc, out = run(["timeout", "1500", "make", "-j16"] + ["theories/Props/%s.vo" % f for f in props_files(prop)], cwd=COQ, timeout=1600)
    res["make_log"] = out[-4000:]
    if rc != 0:
        m = re.findall(r'File "([^"]+)", line (\d+)', out)
        res["failures"].append("make theories/Props/%s.vo failed (%s)" % (prop, ", ".join("%s:%s" % x for x in m[-2:]) or "rc=%d" % rc))
        return res
    bad = grep_forbidden()
    if bad:
        res["failures"].append("forbidden constructs: " + "; ".join(bad[:5]))
        return res
    wd = os.path.join(WORK, prop)
    os.makedirs(wd, exist_ok=True)
    av = os.path.join(wd, "assum.v")
    with open(av, "w") as f:
        for pf in props_files(prop):
            f.write("From TSG Require Import Props.%s.\n" % pf)
        for n in names:
            f.write('Goal True. idtac "@@THM %s". exact I. Qed.\nPrint Assumptions %s.\n' % (n, n))
    rc, out = run(["timeout", "600", "coqc", "-noglob", "-Q", THEORIES, "TSG", av], cwd=wd, timeout=700)
    if rc != 0:
        res["failures"].append("Print Assumptions run failed: " + out[-300:])
        return res
    parts = re.split(r"@@THM (\S+)\n", out)
    for i in range(1, len(parts), 2):
        name, body = parts[i], parts[i + 1]
        if "Closed under the global context" in body:
            res["assumptions"][name] = []
            res["discharged"] += 1
        else:
            axs = re.findall(r"^([A-Za-z0-9_.']+)\s*:", body, re.M)
            res["assumptions"][name] = axs
            if axs and all(a in ALLOWED_AXIOMS for a in axs):
                res["discharged"] += 1
            else:
                res["failures"].append("theorem %s depends on non-allow-listed axioms %s" % (name, axs))
    return res


def coqchk(prop, res):
    """Thorough tier: re-check the compiled Props modules and everything they depend on with the independent
    checker, and require its context summary to list no axiom, no type-in-type, no unsafe fixpoint, no
    assumed positivity."""
    mods = ["TSG.Props.%s" % f for f in props_files(prop)]
    with Lock("coq"):
        rc, out = run(["timeout", "3000", "coqchk", "-o", "-silent", "-Q", "theories", "TSG"] + mods, cwd=COQ, timeout=3100)
    summary = out[out.find("CONTEXT SUMMARY"):] if "CONTEXT SUMMARY" in out else out[-600:]
    res["coqchk"] = " ".join(summary.split())[:600]
    if rc != 0 or "CONTEXT SUMMARY" not in out:
        res["failures"].append("coqchk failed (rc=%d): %s" % (rc, out[-300:]))
        return
    for item in ("Axioms", "Constants/Inductives relying on type-in-type", "Constants/Inductives relying on unsafe (co)fixpoints",
                 "Inductives whose positivity is assumed"):
        m = re.search(re.escape(item) + r":\s*(.*?)\n\s*\n", summary + "\n\n", re.S)
        if not m or m.group(1).strip() != "<none>":
            res["failures"].append("coqchk context summary: %s: %s" % (item, (m.group(1).strip() if m else "?")[:200]))


# ------------------------------------------------------------------ harness

def build_harness(debug=False):
    if os.environ.get("VERIF_SKIP_BUILD"):      # lib/trymutant.sh only: binaries were built a moment ago from a patched /repo
        return True, ""
    lockf = os.path.join(HARNESS, "Cargo.lock")
    if not os.path.exists(lockf):
        shutil.copy("/repo/Cargo.lock", lockf)
    with Lock("cargo"):
        cmd = ["cargo", "build", "--offline"] + ([] if debug else ["--release"])
        rc, out = run(cmd, cwd=HARNESS, timeout=1500)
    if rc != 0:
        return False, out[-3000:]
    return True, ""


# ------------------------------------------------------------------ per-property "pre" hooks
# A property may name a hook in props.py ("pre": "<name>"); it runs after the harness build and returns
# (ok, error text, environment variables handed to every harness invocation of this check).

CLI_TARGET = os.path.join(WORK, "cli-target")
CLI_ENV = os.path.join(WORK, "cli-env")


def pre_cli():
    """Build /repo's command-line tool (--features cli) from the CURRENT working tree into
    .work/cli-target (never inside /repo), prepare the tree-sitter-loader environment .work/cli-env
    (config + a copy of the python grammar from the cargo registry; the loader compiles it with cc on
    first use) and check that the binary runs there."""
    if not os.environ.get("VERIF_SKIP_BUILD"):
        with Lock("cargo"):
            rc, out = run(["cargo", "build", "--offline", "--features", "cli"], cwd="/repo",
                          env=dict(ENV, CARGO_TARGET_DIR=CLI_TARGET), timeout=1500)
        if rc != 0:
            return False, out[-3000:], {}
    binary = os.path.join(CLI_TARGET, "debug", "tree-sitter-graph")
    if not os.path.isfile(binary):
        return False, "cargo build --features cli produced no %s" % binary, {}
    with Lock("cli-env"):
        gdir = os.path.join(CLI_ENV, "grammars", "tree-sitter-python")
        if not os.path.isfile(os.path.join(gdir, "src", "parser.c")):
            srcs = sorted(glob.glob(os.path.expanduser("~/.cargo/registry/src/*/tree-sitter-python-0.23.5")))
            if not srcs:
                return False, "tree-sitter-python-0.23.5 not found in the cargo registry", {}
            shutil.rmtree(gdir, ignore_errors=True)
            os.makedirs(os.path.dirname(gdir), exist_ok=True)
            shutil.copytree(srcs[0], gdir)
        cdir = os.path.join(CLI_ENV, "config", "tree-sitter")
        os.makedirs(cdir, exist_ok=True)
        os.makedirs(os.path.join(CLI_ENV, "cache"), exist_ok=True)
        with open(os.path.join(cdir, "config.json"), "w") as f:
            json.dump({"parser-directories": [os.path.join(CLI_ENV, "grammars")]}, f)
        warm = os.path.join(CLI_ENV, "warm")
        os.makedirs(warm, exist_ok=True)
        open(os.path.join(warm, "w.tsg"), "w").write("(module) @_m { node n }\n")
        open(os.path.join(warm, "w.py"), "w").write("pass\n")
        penv = {"PATH": os.environ.get("PATH", "/usr/bin:/bin"), "HOME": os.environ.get("HOME", "/root"), "RUST_BACKTRACE": "0",
                "XDG_CONFIG_HOME": os.path.join(CLI_ENV, "config"), "XDG_CACHE_HOME": os.path.join(CLI_ENV, "cache"),
                "TREE_SITTER_DIR": cdir}
        rc, out = run([binary, "w.tsg", "w.py"], cwd=warm, env=penv, timeout=300)
    if rc != 0 or not out.endswith("node 0\n"):
        return False, "the built CLI does not run in %s (rc=%d): %s" % (CLI_ENV, rc, out[-1500:]), {}
    return True, "", {"TSGV_CLI_BIN": binary, "TSGV_CLI_ENV": CLI_ENV, "TSGV_CLI_SCRATCH": os.path.join(WORK, "cli-scratch")}


PRE_HOOKS = {"cli": pre_cli}


def coqc_shard(args):
    wd, fname = args
    rc, out = run(["timeout", "900", "coqc", "-noglob", "-Q", THEORIES, "TSG", fname], cwd=wd, timeout=1000)
    return fname, rc, out


def eval_cases(wd):
    """Run coqc on every cases_*.v of wd in parallel; return {case index: verdict N}, errors."""
    files = sorted(f for f in os.listdir(wd) if re.match(r"cases_\d+\.v$", f))
    verdicts, errors = {}, []
    with ThreadPoolExecutor(max_workers=16) as ex:
        for fname, rc, out in ex.map(coqc_shard, [(wd, f) for f in files]):
            flat = re.sub(r"\s+", " ", out)
            for m in re.finditer(r"= \((\d+), (\d+)\) : N \* N", flat):
                verdicts[int(m.group(1))] = int(m.group(2))
            if rc != 0:
                errors.append("%s: coqc rc=%d: %s" % (fname, rc, out[-400:]))
    return verdicts, errors


def eval_detail(wd, header, detail, name="detail"):
    path = os.path.join(wd, name + ".v")
    with open(path, "w") as f:
        f.write(header + "Open Scope N_scope.\nEval vm_compute in (%s).\n" % detail)
    rc, out = run(["timeout", "300", "coqc", "-noglob", "-Q", THEORIES, "TSG", path], cwd=wd, timeout=400)
    return re.sub(r"\s+", " ", out).strip()[:20000]


def run_corr(prop, stream, seed, n, wd, extra=None, debug=False):
    """One correspondence stream: harness gen -> coqc -> verdicts."""
    if os.path.exists(wd):
        shutil.rmtree(wd)
    os.makedirs(wd)
    cmd = [TSGV_DEBUG if debug else TSGV, "gen", stream, "--seed", str(seed), "--n", str(n), "--shards", "16", "--out", wd] + (extra or [])
    prog = os.path.join(wd, "progress.json")
    rc, out = run(cmd, cwd=wd, timeout=1500, stderr_file=os.path.join(wd, "gen.stderr"), env=dict(ENV, TSGV_PROGRESS=prog))
    if rc != 0:
        try:
            out += open(os.path.join(wd, "gen.stderr")).read()[-1500:]
        except Exception:
            pass
        crashed = None
        try:
            crashed = json.load(open(prog))        # the input the implementation was running when the process died
        except Exception:
            pass
        return {"error": "harness gen failed rc=%d: %s" % (rc, out[-1500:]), "crashed_on": crashed, "cases": [], "verdicts": {}, "errors": []}
    meta = json.load(open(os.path.join(wd, "meta.json")))
    verdicts, errors = eval_cases(wd)
    return {"cases": meta["cases"], "header": meta["header"], "verdicts": verdicts, "errors": errors, "gen_log": out[-2000:], "extra": meta.get("extra", {})}


def replay_case(prop, stream, case_replay, wd):
    """Re-run one case (implementation + model) from its replay json; returns verdict or None."""
    if os.path.exists(wd):
        shutil.rmtree(wd)
    os.makedirs(wd)
    rp = os.path.join(wd, "in.json")
    json.dump({"case": case_replay}, open(rp, "w"))
    rc, out = run([TSGV, "replay", stream, "--file", rp, "--out", wd], cwd=wd, timeout=300, stderr_file=os.path.join(wd, "replay.stderr"))
    if rc != 0:
        return None, None
    meta = json.load(open(os.path.join(wd, "meta.json")))
    verdicts, errors = eval_cases(wd)
    return verdicts.get(0), meta


def shrink(prop, stream, case_replay, field, wd, budget=40):
    """Delta-debugging on a list-valued field of the replay record, keeping 'verdict != 0'."""
    cur = list(case_replay[field])
    tries = 0
    chunk = max(1, len(cur) // 2)
    while chunk >= 1 and tries < budget:
        i = 0
        progressed = False
        while i < len(cur) and tries < budget:
            cand = cur[:i] + cur[i + chunk:]
            tries += 1
            r = dict(case_replay); r[field] = cand
            v, _ = replay_case(prop, stream, r, wd)
            if v is not None and v != 0:
                cur = cand
                progressed = True
            else:
                i += chunk
        if not progressed or chunk == 1:
            chunk //= 2
    out = dict(case_replay); out[field] = cur
    return out


# ------------------------------------------------------------------ known findings

def known_findings(prop):
    path = os.path.join(ROOT, "known_findings.json")
    if not os.path.exists(path):
        return []
    data = json.load(open(path))
    return [e for e in data.get("findings", []) if e.get("property") == prop]


# ------------------------------------------------------------------ main

def write_replay(prop, seed, idx, payload):
    d = os.path.join(ROOT, "replays", prop)
    os.makedirs(d, exist_ok=True)
    path = os.path.join(d, "%s-%s.json" % (seed, idx))
    json.dump(payload, open(path, "w"), indent=1)
    return path


def main(argv):
    if not argv:
        log("usage: check <PROP> [--tier quick|thorough] [--seed N] [--replay FILE]")
        return 2
    prop = argv[0]
    def opt(name, default=None):
        return argv[argv.index(name) + 1] if name in argv else default
    tier = opt("--tier", os.environ.get("VERIF_TIER", "quick"))
    if tier not in ("quick", "thorough"):
        tier = "quick"
    try:
        seed = int(opt("--seed", os.environ.get("VERIF_SEED", "1")))
    except ValueError:
        seed = 1
    replay_file = opt("--replay")
    if prop not in PROPS.PROPS:
        log("unknown property", prop)
        return 2
    cfg = PROPS.PROPS[prop]
    t0 = time.time()
    os.makedirs(WORK, exist_ok=True)
    wd = os.path.join(WORK, prop)
    os.makedirs(wd, exist_ok=True)

    violations = []      # (replay_path, concrete: bool, text)
    notes = []

    # 1. proofs
    proof = build_proofs(prop)
    if tier == "thorough" and not proof["failures"]:
        coqchk(prop, proof)
    log("[%s] proofs: %d/%d theorems discharged%s" % (prop, proof["discharged"], proof["obligations"],
        "" if not proof["failures"] else "  FAILURES: " + "; ".join(proof["failures"])))

    # 2. harness
    ok, err = build_harness()
    if ok and cfg.get("debug_build"):
        ok, err = build_harness(debug=True)
    if not ok:
        log("[%s] harness build failed against /repo working tree:\n%s" % (prop, err))
        path = write_replay(prop, seed, "harness-build", {"property": prop, "what": "harness does not build against /repo", "log": err})
        write_evidence(prop, tier, seed, proof, [], [], t0, 1, notes + ["harness build failed"], cfg)
        log("VIOLATION property=%s replay=%s no-failing-input-found" % (prop, path))
        return 1

    if cfg.get("pre"):
        ok, err, hook_env = PRE_HOOKS[cfg["pre"]]()
        if not ok:
            log("[%s] pre-step '%s' failed against /repo working tree:\n%s" % (prop, cfg["pre"], err))
            path = write_replay(prop, seed, "pre-" + cfg["pre"], {"property": prop, "what": "pre-step '%s' failed (for 'cli': the command-line tool does not build/run from /repo)" % cfg["pre"], "log": err})
            write_evidence(prop, tier, seed, proof, [], [], t0, 1, notes + ["pre-step %s failed" % cfg["pre"]], cfg)
            log("VIOLATION property=%s replay=%s no-failing-input-found" % (prop, path))
            return 1
        ENV.update(hook_env)   # every later harness invocation (gen, replay, shrink) sees these variables

    if replay_file:
        rp = json.load(open(replay_file))
        stream = rp.get("stream", prop)
        if "case" not in rp:
            log("[%s] replay file names a theorem/correspondence, not an input: %s" % (prop, rp.get("what")))
            return 1
        v, meta = replay_case(prop, stream, rp["case"], os.path.join(wd, "replay"))
        log("[%s] replay verdict: %s" % (prop, "AGREE/holds" if v == 0 else "FAILS (code %s)" % v))
        return 0 if v == 0 else 1

    # 3. correspondence + direct streams (all expressed as harness streams with a Coq verdict;
    #    streams whose verdict needs no model evaluation emit the constant computed by the harness)
    mult = 1
    if proof["failures"]:
        mult = 4   # proof broken: search harder for a concrete failing input
    streams_out = []
    for st in cfg["streams"]:
        n = st["n_quick"] if tier == "quick" else st["n_thorough"]
        n *= mult
        seeds = [seed] if tier == "quick" else [seed + 7919 * k for k in range(st.get("thorough_seeds", 1))]
        for sd in seeds:
            r = run_corr(prop, st["name"], sd, n, os.path.join(wd, "run-" + st["name"]), st.get("extra"), debug=st.get("debug", False))
            r["stream"] = st; r["seed"] = sd
            streams_out.append(r)
            if r.get("error"):
                if r.get("crashed_on"):
                    path = write_replay(prop, sd, st["name"] + "-crash", {"property": prop, "stream": st["name"], "seed": sd,
                        "what": "the harness process died (abort / kill / timeout: not a catchable panic) while the implementation was running this input",
                        "case": r["crashed_on"], "harness_output": r["error"][-600:]})
                    violations.append((path, True, "harness died on a recorded input"))
                else:
                    path = write_replay(prop, sd, st["name"] + "-gen", {"property": prop, "what": "correspondence stream %s could not run: %s" % (st["name"], r["error"])})
                    violations.append((path, False, r["error"]))
                continue
            missing = [c["i"] for c in r["cases"] if c["i"] not in r["verdicts"]]
            diffs = [c for c in r["cases"] if r["verdicts"].get(c["i"], 0) != 0]
            known_hits = 0
            # differing cases whose code says that a predicate of the PROPERTY fails come first; cases where only the
            # model and the implementation differ on an observable the property does not constrain ("model_only_codes")
            # are reported as a broken correspondence, not as a failing input
            mo = set(st.get("model_only_codes", []))
            diffs.sort(key=lambda c: r["verdicts"][c["i"]] in mo)
            for c in diffs[:5]:
                case = c["replay"]
                code = r["verdicts"][c["i"]]
                if st.get("shrink_field") and st["shrink_field"] in case:
                    case = shrink(prop, st["name"], case, st["shrink_field"], os.path.join(wd, "shrink"))
                detail = eval_detail(wd, r["header"], c["detail"]) if c.get("detail") else ""
                payload = {"property": prop, "stream": st["name"], "seed": sd, "case": case, "original_case": c["replay"],
                           "verdict_code": code, "what": st["what_fails"], "model_observation": detail,
                           "theorems": proof["theorems"]}
                if code in mo:
                    payload["what"] = ("correspondence %s no longer checks: the model and the implementation differ (code %d) on an observable the property "
                                       "does not constrain, while the property's own predicates held on this input; the theorems are no longer tied "
                                       "to this code. Codes: " % (st["name"], code)) + st["what_fails"]
                path = write_replay(prop, sd, "%s-%d" % (st["name"], c["i"]), payload)
                violations.append((path, code not in mo, "%s case %d code %d" % (st["name"], c["i"], code)))
            if missing or r["errors"]:
                path = write_replay(prop, sd, st["name"] + "-model-eval", {"property": prop, "what": "model evaluation failed for %d cases of correspondence stream %s" % (len(missing), st["name"]), "errors": r["errors"][:3]})
                violations.append((path, False, "model evaluation failed"))
            log("[%s] stream %s seed %d: %d cases, %d differ, %d unevaluated" % (prop, st["name"], sd, len(r["cases"]), len(diffs), len(missing)))

    # 4. known findings (reproduced by dedicated streams; see props.py)
    kf_lines = []
    for e in known_findings(prop):
        if e.get("status") == "known":
            # reproduce the listed witness on the current tree in a child process (aborts are contained)
            rc, out = run([TSGV, "known", e["id"]], cwd=wd, timeout=120, stderr_file=os.path.join(wd, "known.stderr"))
            if rc != 0 and not out.strip():
                status = "reproduced (process aborted, rc=%d)" % rc
            elif out.startswith("REPRODUCED"):
                status = "reproduced"
            else:
                status = "no longer reproduces: " + out.strip()[:120]
            notes.append("known finding %s: %s" % (e["id"], status))
            kf_lines.append("KNOWN-FINDING: property=%s %s %s [%s]" % (prop, e["id"], e["what"], status))

    # 5. proof broken and nothing concrete found
    concrete = [v for v in violations if v[1]]
    if proof["failures"] and not concrete:
        path = write_replay(prop, seed, "proof", {"property": prop, "what": "proof obligation no longer checks: " + "; ".join(proof["failures"]),
                            "theorems": proof["theorems"], "make_log": proof["make_log"][-1500:]})
        violations.append((path, False, "proof"))

    nviol = len(violations)
    write_evidence(prop, tier, seed, proof, streams_out, kf_lines, t0, nviol, notes, cfg)
    for l in kf_lines:
        log(l)
    if violations:
        # concrete ones first
        for path, conc, text in sorted(violations, key=lambda v: not v[1]):
            log("VIOLATION property=%s replay=%s%s" % (prop, os.path.relpath(path, ROOT), "" if conc else " no-failing-input-found"))
        return 1
    log("[%s] OK (%.1fs)" % (prop, time.time() - t0))
    return 0


def write_evidence(prop, tier, seed, proof, streams_out, kf_lines, t0, nviol, notes, cfg):
    evals = 0
    keys = set()
    tags = {}
    samples = []
    per_stream = []
    for r in streams_out:
        cs = r.get("cases", [])
        evals += len(cs)
        nt = 0
        for c in cs:
            if c.get("nontrivial"):
                if c["key"] not in keys:
                    nt += 1
                keys.add(c["key"])
            for t in c.get("tags", []):
                tags[t] = tags.get(t, 0) + 1
        if cs and len(samples) < 4:
            s = json.dumps(cs[min(1, len(cs) - 1)]["replay"])
            samples.append({"stream": r["stream"]["name"], "case": json.loads(s) if len(s) < 6000 else s[:6000] + "...(truncated)"})
        per_stream.append({"stream": r["stream"]["name"], "seed": r.get("seed"), "cases": len(cs), "distinct_nontrivial": nt,
                           "differ": sum(1 for c in cs if r["verdicts"].get(c["i"], 0) != 0),
                           "unevaluated": sum(1 for c in cs if c["i"] not in r["verdicts"]), "extra": r.get("extra", {})})
    if not samples:
        samples = [{"note": "no correspondence case was generated in this run"}]
    ev = {
        "property_id": prop, "tier": tier, "seed": seed, "level": "proof",
        "coverage": {
            "obligations": max(1, proof["obligations"]),
            "discharged": proof["discharged"],
            "checker_cmd": "make -C coq theories/Props/%s.vo (coqc 8.16.1, full .vo) + coqc Print Assumptions per theorem + coqc -Q coq/theories TSG cases_k.v (vm_compute) per correspondence shard" % prop,
            "trusted_base": TRUSTED_BASE + cfg.get("trusted_extra", []),
            "theorems": proof["theorems"],
            "assumptions_reported": proof["assumptions"],
            "proof_failures": proof["failures"],
            "coqchk": proof.get("coqchk", "not run in this tier"),
            "partial": cfg.get("partial", []),
            "evaluations": evals,
            "distinct_nontrivial": len(keys),
            "rule": cfg.get("rule", ""),
            "samples": samples,
            "streams": per_stream,
            "input_distribution": dict(sorted(tags.items())),
            "known_findings_hit": kf_lines,
            "explanation": cfg.get("explanation", ""),
        },
        "assumptions": cfg.get("assumptions", []) + notes,
        "wall_s": round(time.time() - t0, 2),
        "violations": nviol,
    }
    os.makedirs(os.path.join(ROOT, "evidence"), exist_ok=True)
    json.dump(ev, open(os.path.join(ROOT, "evidence", prop + ".json"), "w"), indent=1)
