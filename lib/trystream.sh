#!/bin/bash
# usage: trystream.sh <STREAM> <seed> <n>   — generate, evaluate in Coq, summarise verdict codes
st=$1; seed=${2:-1}; n=${3:-64}; out=/tmp/try_$st
rm -rf $out; /verif/harness/target/release/tsgv gen $st --seed $seed --n $n --shards 16 --out $out 2>$out.stderr || { tail -5 $out.stderr; exit 1; }
cd $out && (ls cases_*.v | xargs -P 16 -I{} sh -c 'timeout 600 coqc -noglob -Q /verif/coq/theories TSG {} > {}.out 2>&1')
echo "cases: $(python3 -c "import json;print(len(json.load(open('$out/meta.json'))['cases']))")"
cat *.out | tr -d '\n' | grep -o "= ([0-9]*, [0-9]*)" | awk '{print $3}' | sort | uniq -c
grep -l "Error" *.out | head -3
