"""Per-property configuration of the check driver: one file per property in lib/props.d/Cnn.py
(each defines CFG = {...}: correspondence/direct streams, evidence texts)."""
import os, glob

PROPS = {}
for _p in sorted(glob.glob(os.path.join(os.path.dirname(os.path.abspath(__file__)), "props.d", "C*.py"))):
    _ns = {}
    exec(open(_p).read(), _ns)
    PROPS[os.path.basename(_p)[:-3]] = _ns["CFG"]
