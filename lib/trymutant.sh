#!/bin/bash
# usage: trymutant.sh <patch.diff> <PROP>...   — apply a seeded patch to /repo, run the quick checks, undo
patch=$1; shift
git -C /repo apply "$patch" || { echo "patch does not apply"; exit 2; }
for p in "$@"; do ( cd /verif && ./check $p 2>&1 | grep -E "VIOLATION|OK \(|FAILURES|harness build" | head -4 ); done
git -C /repo checkout -- . ; git -C /repo status --short | head -3
( cd /verif/harness && cargo build --release --offline 2>&1 | grep -E "^error" )
