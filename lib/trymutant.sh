#!/bin/bash
# usage: trymutant.sh <patch.diff> <PROP>...   — build the check binaries from /repo + the seeded patch, undo the
# patch at once (other work may be building from /repo), run the quick checks on those binaries, rebuild clean
patch=$1; shift
export CARGO_NET_OFFLINE=true
git -C /repo apply "$patch" || { echo "patch does not apply"; exit 2; }
( cd /verif/harness && cargo build --release --offline 2>&1 | grep -E "^error" )
case " $* " in *" C12 "*|*" C05 "*|*" C13 "*) ( cd /verif/harness && cargo build --offline 2>&1 | grep -E "^error" );; esac
case " $* " in *" C19 "*) ( cd /repo && CARGO_TARGET_DIR=/verif/.work/cli-target cargo build --offline --features cli 2>&1 | grep -E "^error" );; esac
git -C /repo checkout -- . ; git -C /repo status --short | head -3
for p in "$@"; do ( cd /verif && VERIF_SKIP_BUILD=1 ./check $p 2>&1 | grep -E "VIOLATION|OK \(|FAILURES|harness build" | head -4 ); done
( cd /verif/harness && cargo build --release --offline 2>&1 | grep -E "^error" )
case " $* " in *" C12 "*|*" C05 "*|*" C13 "*) ( cd /verif/harness && cargo build --offline 2>&1 | grep -E "^error" );; esac
case " $* " in *" C19 "*) ( cd /repo && CARGO_TARGET_DIR=/verif/.work/cli-target cargo build --offline --features cli 2>&1 | grep -E "^error" );; esac
true
