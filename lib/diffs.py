#!/usr/bin/env python3
# usage: diffs.py <out_dir> [code] [count]  — show the smallest cases with non-zero verdicts
import json,re,glob,sys
d=sys.argv[1]; code=int(sys.argv[2]) if len(sys.argv)>2 and sys.argv[2]!='-' else None; cnt=int(sys.argv[3]) if len(sys.argv)>3 else 3
m=json.load(open(d+'/meta.json'))
txt=''.join(open(f).read() for f in glob.glob(d+'/*.out'))
txt=re.sub(r'\s+',' ',txt)
v={int(a):int(b) for a,b in re.findall(r'= \((\d+), (\d+)\)',txt)}
bad=[c for c in m['cases'] if v.get(c['i'],0)!=0 and (code is None or v[c['i']]==code)]
bad.sort(key=lambda c: len(json.dumps(c['replay'])))
print(len(bad),'diffs')
for c in bad[:cnt]:
    r=c['replay']
    print('-----',c['i'],v[c['i']],str(r.get('impl'))[:400])
    for k in r:
        if k!='impl': print(k,':',r[k] if not isinstance(r[k],str) else '\n'+r[k])
