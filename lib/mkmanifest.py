#!/usr/bin/env python3
"""Regenerate MANIFEST.json from lib/props.d (claimed = properties listed in CLAIMED below)."""
import json, os, sys
ROOT = os.path.dirname(os.path.dirname(os.path.abspath(__file__)))
sys.path.insert(0, os.path.join(ROOT, "lib"))
import props
CLAIMED = [l.strip() for l in open(os.path.join(ROOT, "lib", "claimed.txt")) if l.strip() and not l.startswith("#")]
allprops = [json.loads(l) for l in open(os.path.join(ROOT, "properties.jsonl"))]
checks = []
for pid in CLAIMED:
    cfg = props.PROPS[pid]
    checks.append({
        "property_id": pid,
        "quick_cmd": "./check %s --tier quick" % pid,
        "thorough_cmd": "./check %s --tier thorough" % pid,
        "evidence_file": "/verif/evidence/%s.json" % pid,
        "replay_cmd_template": "./check %s --replay {path}" % pid,
        "engine": "coq-model+correspondence",
        "level_claimed": {"category": "proof",
                          "text": cfg.get("level_text") or ("Coq theorems (closed under the global context) about a hand-written Gallina model of the code: " + cfg.get("explanation", "") + " The model is tied to /repo on every run by evaluating it (vm_compute) on generated inputs and comparing with the real implementation." + (" PARTIAL: " + "; ".join(cfg["partial"]) if cfg.get("partial") else "")),
                          "design_ref": "DESIGN.md §7 " + pid},
        "level_note": cfg.get("level_note") or ("Trusted: Coq kernel + vm_compute, the Rust harness and python driver, faithfulness of the hand-written model beyond the compared observables. " + " ".join(cfg.get("assumptions", []))),
        "technique": cfg.get("technique") or "machine-checked proof in Coq about an executable model + model/implementation correspondence check",
    })
m = {"version": 1,
     "setup_cmd": "./setup.sh",
     "hooks": {"guard": "tree_sitter_graph_verif",
               "enable": "no hooks are needed: the harness uses only public API (RUSTFLAGS=\"--cfg tree_sitter_graph_verif\" is reserved)",
               "baseline_off_cmd": "cd /repo && cargo test --workspace --no-fail-fast --offline",
               "source_commits": [], "add_only": True},
     "engines": [{"name": "coq-model+correspondence", "path": "/verif/check", "serves_properties": CLAIMED,
                  "kind_free_text": "Hand-written Gallina model of tree-sitter-graph with property theorems (coq/theories), tied to /repo by a Rust harness (harness/) that runs the implementation and emits the same inputs as Coq terms evaluated with vm_compute"}],
     "checks": checks,
     "notes": "See DESIGN.md. All checks: ./check <ID> [--tier quick|thorough] [--seed N] [--replay FILE]. Repairs of genuine defects are the fix: commits of /repo listed in known_findings.json.",
     "not_applicable": [{"property_id": p["id"], "reason": "check not yet registered in this revision (in progress; the technique applies — see DESIGN.md §7)"} for p in allprops if p["id"] not in CLAIMED]}
json.dump(m, open(os.path.join(ROOT, "MANIFEST.json"), "w"), indent=1)
print("claimed:", CLAIMED)
