(* Proofs/LocalLeval.v — C06 locality, semantic half, part 3: `leval` (evaluate_lazy of lazy.rs) on the expressions
   of a checked statement.  In a state whose locals satisfy `locals_ok` for the static environment env:
   - ANY expression whose eager positions are eager_ok (`expr_eok`) is evaluated without reading or writing the
     scoped store (the lists of its comprehensions are evaluated eagerly, and they are pure), locals are restored,
     the invariant is kept;
   - if the expression itself is `eager_ok`, the lazy value returned is PURE, so that the eager evaluation
     `leager` (scan subject, if condition, for list) does not depend on the scoped store either. *)
From TSG Require Import Spec.PureLv Proofs.BaseFacts Proofs.MonadFacts Proofs.Containers Proofs.Checker Proofs.LocalPos Proofs.LocalPure Proofs.LocalEval.

Definition lset_locs (x : varmap lvalue) (s : lstate) : lstate :=
  {| l_graph := l_graph s; l_locals := x; l_store := l_store s; l_scoped := l_scoped s; l_edges := l_edges s;
     l_attrs := l_attrs s; l_prints := l_prints s; l_params := l_params s; l_prev := l_prev s |}.

Lemma tr_exists {A X} (P : X -> SP) (m : M lstate A) Q : (forall x, tr (P x) m Q) -> tr (fun st l => exists x, P x st l) m Q.
Proof. intros H ls p [x HP]. exact (H x ls p HP). Qed.

(* ---------------- frames ---------------- *)
Lemma tr_lpush_frame (F : list thunk -> Prop) l0 :
  tr (fun st l => F st /\ l = l0) lpush_frame (fun _ st l => F st /\ l = [] :: l0).
Proof.
  intros ls p [HF Hl]. split; [reflexivity|]. intros a ls' p' E. unfold lpush_frame, bind, get_state, set_llocals, Lazy.upd, modify in E.
  inversion E; subst. cbn [l_store l_locals]. split; [apply sext_refl|]. split; [repeat split|auto].
Qed.
Lemma tr_lpop_frame (F : list thunk -> Prop) l0 :
  tr (fun st l => F st /\ exists fr, l = fr :: l0) lpop_frame (fun _ st l => F st /\ l = l0).
Proof.
  intros ls p [HF [fr Hl]]. unfold lpop_frame, bind, get_state. cbn [with_scoped l_locals]. rewrite Hl.
  split; [reflexivity|]. intros a ls' p' E. unfold set_llocals, Lazy.upd, modify in E.
  inversion E; subst. cbn [l_store l_locals]. split; [apply sext_refl|]. split; [repeat split|auto].
Qed.
Lemma tr_lclear_frame (F : list thunk -> Prop) l0 :
  tr (fun st l => F st /\ exists fr, l = fr :: l0) lclear_frame (fun _ st l => F st /\ l = [] :: l0).
Proof.
  intros ls p [HF [fr Hl]]. unfold lclear_frame, bind, get_state. cbn [with_scoped l_locals]. rewrite Hl. cbn [varmap_clear].
  split; [reflexivity|]. intros a ls' p' E. unfold set_llocals, Lazy.upd, modify in E.
  inversion E; subst. cbn [l_store l_locals]. split; [apply sext_refl|]. split; [repeat split|auto].
Qed.

(* ---------------- lookup ---------------- *)
Lemma frame_get st (fr : list (ident * bool)) (fr' : vframe lvalue) x :
  Forall2 (entry_ok st) fr fr' ->
  match alist_get x fr with
  | Some b => exists lv m, alist_get x fr' = Some (lv, m) /\ (b = true -> m = false /\ pure_lv st lv)
  | None => alist_get x fr' = None
  end.
Proof.
  induction 1 as [|[k b] [k' [lv m]] fr fr' [Hk Hb] HF IH]; cbn [alist_get]; [reflexivity|].
  cbn [fst snd] in Hk, Hb. subst k'. destruct (str_eqb x k); [|exact IH]. exists lv, m. auto.
Qed.
Lemma locals_get st env l x : locals_ok st env l ->
  match lenv_get env x with
  | Some b => exists lv, varmap_get l x = Some lv /\ (b = true -> pure_lv st lv)
  | None => varmap_get l x = None
  end.
Proof.
  induction 1 as [|fr fr' env l Hf Hl IH]; cbn [lenv_get varmap_get]; [reflexivity|].
  pose proof (frame_get st fr fr' x Hf) as H. destruct (alist_get x fr) as [b|].
  - destruct H as (lv & m & -> & Hb). exists lv. split; [reflexivity|]. intros E. apply Hb. exact E.
  - rewrite H. exact IH.
Qed.

Section Leval.
  Variable t : tree.
  Variable fl : file.
  Variable glob : globals.
  Variable call : ident -> graph -> list value -> res (value * graph).
  Variable G : ident -> bool.
  (* every declared global has a run-time value (check_globals) *)
  Hypothesis Hglob : forall x, G x = true -> exists v, globals_get glob x = Some v.
  Notation leval' := (leval t fl glob call).
  Notation eval_lv' := (eval_lv t fl call).

  (* the execution-phase invariant for the static environment env, at fixed locals l0 *)
  Definition Inv (env : lenv) (l0 : varmap lvalue) : SP := fun st l => locals_ok st env l0 /\ l = l0.

  Lemma tr_lunscoped_get env l0 x :
    tr (Inv env l0) (lunscoped_get glob x) (fun lv st l => Inv env l0 st l /\ (name_ok G env x = true -> pure_lv st lv)).
  Proof.
    intros ls p [Hok Hl]. unfold lunscoped_get. destruct (globals_get glob x) as [v|] eqn:Eg.
    - split; [reflexivity|]. intros a ls' p' E. apply ret_ok in E. destruct E as (-> & -> & ->).
      split; [apply sext_refl|]. split; [apply quiet_refl|]. split; [split; assumption|]. intros _. apply pure_lv_value.
    - unfold bind, get_state. cbn [with_scoped l_locals]. rewrite Hl. pose proof (locals_get _ _ _ x Hok) as Hg.
      destruct (varmap_get l0 x) as [lv|] eqn:El; (split; [reflexivity|]); intros a ls' p' E; [|discriminate].
      apply ret_ok in E. destruct E as (-> & -> & ->). split; [apply sext_refl|]. split; [apply quiet_refl|]. split; [split; assumption|].
      unfold name_ok. intros Hn. apply orb_true_iff in Hn. destruct Hn as [Hn|Hn].
      + destruct (Hglob _ Hn) as [v Hv]. congruence.
      + destruct (lenv_get env x) as [[|]|]; try discriminate. destruct Hg as (lv' & E1 & E2). inversion E1; subst. apply E2. reflexivity.
  Qed.

  (* LazyStore::add + VariableMap::add *)
  Lemma lunscoped_add_eq le x lv m ls p : globals_get glob x = None ->
    lunscoped_add glob le x lv m ls p =
    match varmap_add (l_locals ls) x (LVar (N.of_nat (length (l_store ls)))) m with
    | inl l' => Ok (tt, lset_locs l' (lset_store (l_store ls ++ [{| th_state := TUnforced lv; th_dbg := ll_ctx le |}]) ls), p)
    | inr _ => Err EDuplicateVariable
    end.
  Proof.
    intros Hg. unfold lunscoped_add. rewrite Hg. unfold store_add, bind, get_state, set_lstore, Lazy.upd, modify, ret. cbn [l_locals l_store].
    destruct (varmap_add (l_locals ls) x _ m); reflexivity.
  Qed.
  Lemma tr_lunscoped_add le x lv m (b : bool) efr env fr l0 :
    tr (fun st l => (locals_ok st (efr :: env) (fr :: l0) /\ (b = true -> m = false /\ pure_lv st lv)) /\ l = fr :: l0)
       (lunscoped_add glob le x lv m)
       (fun _ st l => exists loc, locals_ok st ((efr ++ [(x, b)]) :: env) ((fr ++ [(x, (LVar loc, m))]) :: l0) /\
                                  l = (fr ++ [(x, (LVar loc, m))]) :: l0).
  Proof.
    intros ls p [[Hok Hb] Hl]. destruct (globals_get glob x) as [v|] eqn:Eg.
    { unfold lunscoped_add. rewrite Eg. split; [reflexivity|]. intros a ls' p' E. discriminate. }
    rewrite lunscoped_add_eq by exact Eg. split.
    - intros sc. rewrite lunscoped_add_eq by exact Eg. cbn [with_scoped l_locals l_store].
      destruct (varmap_add (l_locals ls) x _ m); reflexivity.
    - intros a ls' p' E. rewrite Hl in E. cbn [varmap_add] in E. destruct (alist_get x fr); [discriminate|]. inversion E; subst.
      cbn [lset_locs lset_store l_store l_locals]. split; [apply sext_app|]. split; [repeat split|].
      exists (N.of_nat (length (l_store ls))). split; [|reflexivity].
      pose proof (locals_ok_sext _ _ _ _ (sext_app (l_store ls) [{| th_state := TUnforced lv; th_dbg := ll_ctx le |}]) Hok) as Hok'.
      inversion Hok' as [|? ? ? ? Hf Hr]; subst. constructor; [|exact Hr]. apply Forall2_app; [exact Hf|]. constructor; [|constructor].
      split; [reflexivity|]. cbn [fst snd]. intros Eb. destruct (Hb Eb) as [Hm Hp]. split; [exact Hm|]. apply pure_lv_var.
      apply pure_loc_new; [exact Hp|]. intros l Hin. apply pure_loc_lt. apply (proj2 Hp). exact Hin.
  Qed.

  Lemma stable_locals_ok env l0 : stable (fun st => locals_ok st env l0).
  Proof. intros st st' Hs H. eapply locals_ok_sext; eassumption. Qed.

  (* the eager evaluation of a pure lazy value keeps the invariant *)
  Lemma tr_eval_inv env l0 fuel lv :
    tr (fun st l => Inv env l0 st l /\ pure_lv st lv) (eval_lv' fuel lv) (fun _ => Inv env l0).
  Proof.
    eapply tr_conseq; [| |apply (tr_frame (fun st => locals_ok st env l0)); [apply stable_locals_ok|apply (eval_lv_pure t fl call fuel lv l0)]].
    - intros st l [[H1 H2] H3]. auto.
    - intros a st l [H1 H2]. split; assumption.
  Qed.

  Definition pure_if (b : bool) (lv : lvalue) (st : list thunk) : Prop := b = true -> pure_lv st lv.
  Lemma stable_pure_if b lv : stable (pure_if b lv).
  Proof. intros st st' Hs H E. eapply pure_lv_sext; [exact Hs|apply H; exact E]. Qed.

  Lemma leval_ok : forall fuel le e env l0, expr_eok G env e = true ->
    tr (Inv env l0) (leval' fuel le e) (fun lv st l => Inv env l0 st l /\ pure_if (eager_ok G env e) lv st).
  Proof.
    induction fuel as [|fuel IH]; intros le e env l0 Hok; [apply tr_oof|].
    (* lists of subexpressions *)
    assert (Hlist : forall es, forallb (expr_eok G env) es = true ->
      tr (Inv env l0) (Exec.mapM (leval' fuel le) es)
         (fun lvs st l => Inv env l0 st l /\ (forallb (eager_ok G env) es = true -> Forall (pure_lv st) lvs))).
    { intros es Hes.
      eapply tr_conseq; [| |apply (tr_mapM (Inv env l0) (fun lv st => forallb (eager_ok G env) es = true -> pure_lv st lv))].
      - auto.
      - intros lvs st l [HI HF]. split; [exact HI|]. intros E. eapply Forall_impl; [|exact HF]. intros a Ha. apply Ha. exact E.
      - intros y st st' Hs H E. eapply pure_lv_sext; [exact Hs|apply H; exact E].
      - intros x Hx. rewrite forallb_forall in Hes. eapply tr_conseq; [| |apply (IH le x env l0 (Hes _ Hx))]; [auto|].
        intros lv st l [HI Hp]. split; [exact HI|]. intros E. apply Hp. rewrite forallb_forall in E. apply E. exact Hx. }
    (* comprehensions *)
    assert (Hcomp : forall elem var value, eager_ok G env value = true -> expr_eok G ([(var, true)] :: env) elem = true ->
      tr (Inv env l0)
         (lv <- (lv <- leval' fuel le value ;; eval_lv' (S fuel + default_eval_fuel) lv) ;; vals <- lift (as_list lv) ;;
          lpush_frame ;;;
          out <- Exec.mapM (fun v => lclear_frame ;;; lunscoped_add glob le var (LValue v) false ;;; leval' fuel le elem) vals ;;
          lpop_frame ;;; ret out)
         (fun out st l => Inv env l0 st l /\ (eager_ok G ([(var, true)] :: env) elem = true -> Forall (pure_lv st) out))).
    { intros elem var value Hv Hel.
      eapply tr_bind.
      { eapply tr_bind; [apply (IH le value env l0 (eager_ok_expr_eok _ _ _ Hv))|]. intros lv. cbv beta.
        eapply tr_conseq; [| |apply (tr_eval_inv env l0)]; [|intros a st l H; exact H].
        intros st l [HI Hp]. split; [exact HI|apply Hp; exact Hv]. }
      intros lv. cbv beta. eapply tr_bind; [apply tr_lift; intros a st l _ H; exact H|]. intros vals. cbv beta.
      eapply tr_bind; [apply (tr_lpush_frame (fun st => locals_ok st env l0))|]. intros u. cbv beta.
      eapply tr_bind.
      - eapply tr_conseq; [| |apply (tr_mapM (fun st l => locals_ok st env l0 /\ exists fr, l = fr :: l0)
                                      (fun lv st => eager_ok G ([(var, true)] :: env) elem = true -> pure_lv st lv))].
        + intros st l [H1 H2]. split; [exact H1|eauto].
        + intros a st l H. exact H.
        + intros y st st' Hs H E. eapply pure_lv_sext; [exact Hs|apply H; exact E].
        + intros v _. eapply tr_bind; [apply (tr_lclear_frame (fun st => locals_ok st env l0))|]. intros u1. cbv beta.
          eapply tr_bind.
          * eapply tr_conseq; [| |apply (tr_lunscoped_add le var (LValue v) false true [] env [] l0)]; [|intros a st l H; exact H].
            intros st l [H1 H2]. split; [|exact H2]. split; [constructor; [constructor|exact H1]|]. intros _. split; [reflexivity|apply pure_lv_value].
          * intros u2. cbv beta. apply tr_exists. intros loc. cbn [app].
            eapply tr_conseq; [| |apply (IH le elem ([(var, true)] :: env) ([(var, (LVar loc, false))] :: l0) Hel)].
            -- intros st l H. exact H.
            -- intros lv' st l [[H1 H2] H3]. split; [|exact H3]. split; [inversion H1; assumption|eauto].
      - intros out. cbv beta. eapply tr_bind.
        { eapply tr_conseq; [| |apply (tr_lpop_frame (fun st => locals_ok st env l0 /\
              (eager_ok G ([(var, true)] :: env) elem = true -> Forall (pure_lv st) out)) l0)]; [|intros a st l H; exact H].
          intros st l [[H1 H2] H3]. split; [split; [exact H1|]|exact H2]. intros E. eapply Forall_impl; [|exact H3]. intros a Ha. apply Ha. exact E. }
        intros u3. apply tr_ret. intros st l [[H1 H2] H3]. split; [split; assumption|exact H2]. }
    destruct e; cbn [leval]; cbn [expr_eok] in Hok.
    1-5: apply tr_ret; intros st l H; (split; [exact H|intros _; apply pure_lv_value]).
    - eapply tr_bind; [apply (Hlist es Hok)|]. intros vs. apply tr_ret. intros st lo [HI HF]. split; [exact HI|].
      cbn [eager_ok]. intros E. apply pure_lv_list. apply HF. exact E.
    - eapply tr_bind; [apply (Hlist es Hok)|]. intros vs. apply tr_ret. intros st lo [HI HF]. split; [exact HI|].
      cbn [eager_ok]. intros E. apply pure_lv_set. apply HF. exact E.
    - apply andb_true_iff in Hok. destruct Hok as [Hv Hel]. eapply tr_bind; [apply (Hcomp e1 var e2 Hv Hel)|]. intros out.
      apply tr_ret. intros st lo [HI HF]. split; [exact HI|]. cbn [eager_ok]. intros E. apply andb_true_iff in E. apply pure_lv_list. apply HF. apply E.
    - apply andb_true_iff in Hok. destruct Hok as [Hv Hel]. eapply tr_bind; [apply (Hcomp e1 var e2 Hv Hel)|]. intros out.
      apply tr_ret. intros st lo [HI HF]. split; [exact HI|]. cbn [eager_ok]. intros E. apply andb_true_iff in E. apply pure_lv_set. apply HF. apply E.
    - eapply tr_bind; [apply tr_lift; intros a st lo _ H; exact H|]. intros v. apply tr_ret. intros st lo H. split; [exact H|intros _; apply pure_lv_value].
    - cbn [eager_ok]. apply tr_lunscoped_get.
    - eapply tr_bind; [apply (IH le e env l0 Hok)|]. intros sv. apply tr_ret. intros st lo [HI _]. split; [exact HI|]. cbn [eager_ok]. intros E. discriminate.
    - eapply tr_bind; [apply (Hlist args Hok)|]. intros vs. apply tr_ret. intros st lo [HI HF]. split; [exact HI|].
      cbn [eager_ok]. intros E. apply (pure_lv_call st f). apply HF. exact E.
    - destruct (nth_error (ll_caps le) (N.to_nat i)); [|apply tr_fail]. apply tr_ret. intros st lo H. split; [exact H|intros _; apply pure_lv_value].
  Qed.

  (* evaluate_eager on an eager_ok expression *)
  Lemma leager_ok fuel le e env l0 : eager_ok G env e = true ->
    tr (Inv env l0) (leager t fl glob call fuel le e) (fun _ => Inv env l0).
  Proof.
    intros He. unfold leager. eapply tr_bind; [apply (leval_ok fuel le e env l0 (eager_ok_expr_eok _ _ _ He))|]. intros lv. cbv beta.
    eapply tr_conseq; [| |apply (tr_eval_inv env l0)]; [|intros a st l H; exact H].
    intros st l [HI Hp]. split; [exact HI|apply Hp; exact He].
  Qed.
End Leval.
