(* Proofs/SLF2Expr.v — C02, failure direction with scoped variables, part 4: expressions and attributes of fragment v2.
   The strict evaluation of an expression of the fragment FAILS with an order-independent error (`okerr2`: not UndefinedEdge,
   not Cancelled, and not UndefinedVariable — the strict interpreter reports a scoped variable that is not defined YET with
   that error, and the definition may come later in the file: order dependent) from states related as in Proofs/SL2Expr.v.
   Then the lazy "evaluation" either does not return Ok (eager positions) or returns a lazy value that is BAD in the world
   reached (`bad_lv2`): a failing call, a scoped read whose scope fails or is not a syntax node, a list with a bad element ...
   After the failing sub-expression the lazy interpreter keeps going: that part only preserves the invariant K (`pfr2`). *)
From TSG Require Import Model.Lazy Proofs.BaseFacts Proofs.Containers Proofs.MonadFacts Proofs.StrictMeta
  Proofs.SLGraph Proofs.SLForce Proofs.SLExpr Proofs.SLConv Proofs.SLStmt Proofs.StrictLazy Proofs.Extends Proofs.Scoped
  Proofs.SL2Force Proofs.SL2Expr Proofs.SL2Stmt Proofs.SLFailGraph Proofs.SLFailStore Proofs.SLFailEval Proofs.SLFailExpr
  Proofs.SLF2Store Proofs.SLF2Jok Proofs.SLF2Eval.

(* errors whose cause does not depend on the order of the stanzas, in the presence of scoped variables *)
Definition okerr2 (e : exec_error) : Prop := okerr e /\ root_cause e <> EUndefinedVariable.
Definition order_independent_error2 : exec_error -> Prop := okerr2.
Lemma okerr2_add_context c e : okerr2 (add_context c e) -> okerr2 e.
Proof. intros [H1 H2]. split; [apply (okerr_add_context c e H1)|]. rewrite root_cause_add_context in H2. exact H2. Qed.

Section FailExpr2.
  Context {rx : Type}.
  Variables (t : tree) (fl : file) (glob : globals) (regexes : list rx)
            (find : rx -> str -> option (list (option (N * N))))
            (call : ident -> graph -> list value -> res (value * graph)).
  Variable okfn : ident -> Prop.
  Variable purev : ident -> bool.
  Hypothesis Hpure : forall f, okfn f -> pure_fn call f.
  Hypothesis Hperr : forall f, okfn f -> pure_err_fn call f.
  Hypothesis Hcall : call_graph_ext call.
  Variable D : ident -> N -> Prop.
  Hypothesis Hanti : forall name n a, inherited fl name = true -> D name n -> D name a -> In a (anc t n) -> False.
  Variable m : qmatch.

  Notation den2 := (den2 call).
  Notation Renv2 := (Renv2 t fl call purev).
  Notation esim2 := (esim2 t fl call purev).
  Notation epost2 := (epost2 t fl call purev).
  Notation K := (K call fl D).
  Notation J := (J call t fl D).
  Notation bad_lv2 := (bad_lv2 call t fl D).
  Notation bad_scope := (bad_scope call t fl D).
  Notation jok2 := (jok2 call t fl D).
  Notation ck := (ck call t fl D).
  Notation fexpr2' := (fexpr2 okfn purev m).
  Notation env_rel' := (env_rel m).
  Notation eval' := (eval t fl glob call).
  Notation leval' := (leval t fl glob call).
  Notation eval_lv' := (eval_lv t fl call).

  (* ---------------- from the success invariant to K ---------------- *)
  Lemma Sfull_storeK w st : Sfull call w st -> storeK call w st.
  Proof.
    intros [Hl H]. split; [lia|]. intros i th Hi Hn. destruct (H i th Hn) as (v & pb & Hv & Hs). exists v, pb. split; [exact Hv|].
    destruct (th_state th); [|contradiction|exact Hs]. eapply den2_weaken. eapply den2_mono; [apply wcut_wext|exact Hs].
  Qed.
  Lemma pairK_mono w w' pr d : wext w w' -> pairK call w pr d -> pairK call w' pr d.
  Proof. intros Hx [H1 H2]. split; [exact H1|eapply den2_mono; eauto]. Qed.
  Lemma cellK_mono0 w w' name c : wext0 w w' -> cellK call fl D w name c -> cellK call fl D w' name c.
  Proof.
    intros Hp. pose proof (wext0_sig _ _ Hp) as Es. destruct c as [[pairs| |mp]|]; cbn [cellK]; unfold mapK; try rewrite Es; auto.
    intros [(early & extra & E & HF) HD]. split; [|exact HD]. exists early, extra. split; [exact E|].
    eapply Forall2_mono_l; [|exact HF]. intros pr d. apply pairK_mono, wext0_wext, Hp.
  Qed.
  Lemma K_step0 w w' ls ls' : K w ls -> wext0 w w' -> Sfull call w' (l_store ls') -> l_scoped ls' = l_scoped ls -> K w' ls'.
  Proof. intros [_ Hc] Hp Hst Esc. split; [apply Sfull_storeK, Hst|]. intros name. rewrite Esc. eapply cellK_mono0; eauto. Qed.
  Lemma Renv2_static w ss ls : Renv2 w ss ls -> wstatic t fl w. Proof. intros (_ & _ & [H _]). exact H. Qed.
  Lemma wstatic_ext0 w w' : wext0 w w' -> wstatic t fl w -> wstatic t fl w'.
  Proof. intros (_ & _ & Ht & Hi) [A B]. split; congruence. Qed.
  (* the result of a successful expression-level step *)
  Lemma epost2_K {A B} (Q : world -> B -> A -> Prop) w a ss ss' ls b ls' pl' : K w ls -> epost2 Q w a ss ss' ls b ls' pl' ->
    nob pl' /\ lframe ls ls' /\ exists w', wext0 w w' /\ Renv2 w' ss' ls' /\ K w' ls' /\ Q w' b a.
  Proof.
    intros HK (Hb & _ & Hf & w' & Hp & HR & HQ). split; [exact Hb|]. split; [exact Hf|]. exists w'. split; [exact Hp|]. split; [exact HR|]. split; [|exact HQ].
    apply (K_step0 w w' ls ls' HK Hp (proj1 HR)). apply Hf.
  Qed.

  (* ---------------- frames below statement level ---------------- *)
  Definition EFr : lstate -> lstate -> Prop := FrP (@eq (list lstmt)).
  Let Prefl : forall l : list lstmt, l = l := fun l => eq_refl.
  Let Ptrans : forall a b c : list lstmt, a = b -> b = c -> a = c := fun a b c => @eq_trans _ a b c.
  Lemma EFr_refl s : EFr s s. Proof. apply FrP_refl, Prefl. Qed.
  Lemma EFr_trans a b c : EFr a b -> EFr b c -> EFr a c. Proof. apply FrP_trans, Ptrans. Qed.
  Lemma lframe_EFr ls ls' : lframe ls ls' -> EFr ls ls'.
  Proof. intros (F1 & F2 & F3 & F4 & F5). unfold EFr, FrP. rewrite F1, F2, F3, F4. split; [apply graph_ext_refl|auto]. Qed.

  (* what is known of a lazy computation that runs after the failure point *)
  Definition pfr2 {B} (ml : M lstate B) : Prop := ck ml /\ fr_ok eq ml.
  Lemma pfr2_nres {B} (ml : M lstate B) w dt dc ls0 ls pl : pfr2 ml -> wstatic t fl w -> J w dt dc ls -> EFr ls0 ls ->
    nres (ml ls pl) (fun _ ls' _ => J w dt dc ls' /\ EFr ls0 ls').
  Proof.
    intros [Hj Hf] Hws HJ HF. destruct (ml ls pl) as [[[b ls'] pl']|e|x|] eqn:E; cbn [nres]; auto.
    split; [apply (Hj w dt dc Hws _ _ _ _ _ HJ E)|]. eapply EFr_trans; [exact HF|]. eapply Hf; eauto.
  Qed.
  Ltac ckt := intros ? ? ? ?.
  Lemma pfr2_ret {B} (b : B) : pfr2 (ret b). Proof. split; [ckt; apply jk_ret|apply fr_ret, Prefl]. Qed.
  Lemma pfr2_bind {A B} (ml : M lstate A) (kl : A -> M lstate B) : pfr2 ml -> (forall a, pfr2 (kl a)) -> pfr2 (bind ml kl).
  Proof. intros [H1 H2] H. split; [ckt; apply jk_bind; [apply H1; assumption|intros a; apply (H a); assumption]|eapply fr_bind; [exact Ptrans|exact H2|intros a; apply (H a)]]. Qed.
  Lemma pfr2_mapM {X B} (f : X -> M lstate B) l : (forall x, pfr2 (f x)) -> pfr2 (mapM f l).
  Proof. intros H. split; [ckt; apply jk_mapM; intros x; apply (H x); assumption|apply fr_mapM; [exact Prefl|exact Ptrans|intros x; apply (H x)]]. Qed.
  Lemma pfr2_iterM {X} (f : X -> M lstate unit) l : (forall x, pfr2 (f x)) -> pfr2 (iterM f l).
  Proof. intros H. split; [ckt; apply jk_iterM; intros x; apply (H x); assumption|apply fr_iterM; [exact Prefl|exact Ptrans|intros x; apply (H x)]]. Qed.
  Lemma pfr2_leval fuel le e : pfr2 (leval' fuel le e).
  Proof. split; [ckt; apply jk_leval; assumption|apply fr_leval; [exact Hcall|exact Prefl|exact Ptrans]]. Qed.
  Lemma pfr2_lexec_attr fuel le a : pfr2 (lexec_attr t fl glob call fuel le a).
  Proof. split; [ckt; apply jk_lexec_attr; assumption|apply fr_lexec_attr; [exact Hcall|exact Prefl|exact Ptrans]]. Qed.
  Lemma pfr2_lunscoped_add le name v mu : pfr2 (lunscoped_add glob le name v mu).
  Proof. split; [ckt; apply jk_lunscoped_add|apply fr_lunscoped_add; [exact Prefl|exact Ptrans]]. Qed.
  Lemma pfr2_lunscoped_set le name v : pfr2 (lunscoped_set glob le name v).
  Proof. split; [ckt; apply jk_lunscoped_set|apply fr_lunscoped_set; [exact Prefl|exact Ptrans]]. Qed.
  Lemma pfr2_set_llocals x : pfr2 (set_llocals x). Proof. split; [ckt; apply jk_set_llocals|apply fr_set_llocals, Prefl]. Qed.
  Lemma pfr2_lclear_frame : pfr2 lclear_frame.
  Proof. split; [ckt; apply jk_lclear_frame|]. unfold lclear_frame. eapply fr_bind; [exact Ptrans|apply fr_get, Prefl|intros s; apply fr_set_llocals, Prefl]. Qed.
  Lemma pfr2_lpush_frame : pfr2 lpush_frame.
  Proof. split; [ckt; apply jk_lpush_frame|]. unfold lpush_frame. eapply fr_bind; [exact Ptrans|apply fr_get, Prefl|intros s; apply fr_set_llocals, Prefl]. Qed.
  Lemma pfr2_lpop_frame : pfr2 lpop_frame.
  Proof.
    split; [ckt; apply jk_lpop_frame|]. unfold lpop_frame. eapply fr_bind; [exact Ptrans|apply fr_get, Prefl|intros s]. destruct (l_locals s); [apply fr_panic|apply fr_set_llocals, Prefl].
  Qed.
  Lemma pfr2_eval_lv F lv : pfr2 (eval_lv' F lv).
  Proof. split; [ckt; apply jk_eval_lv; assumption|apply fr_eval_lv; [exact Hcall|exact Prefl|exact Ptrans]]. Qed.
  Lemma pfr2_leager fuel le e : pfr2 (leager t fl glob call fuel le e).
  Proof. unfold leager. apply pfr2_bind; [apply pfr2_leval|intros lv; apply pfr2_eval_lv]. Qed.
  Lemma pfr2_ltest_cond fuel le c : pfr2 (ltest_cond t fl glob call fuel le c).
  Proof. split; [ckt; apply jk_ltest_cond; assumption|apply fr_ltest_cond; [exact Hcall|exact Prefl|exact Ptrans]]. Qed.
  Lemma pfr2_lpoll l : pfr2 (lpoll l). Proof. split; [ckt; apply jk_lpoll|apply fr_lpoll, Prefl]. Qed.
  Lemma pfr2_lpoll_n n l : pfr2 (lpoll_n n l). Proof. split; [ckt; apply jk_lpoll_n|apply fr_lpoll_n; [exact Prefl|exact Ptrans]]. Qed.
  Lemma pfr2_noresult {B} (ml : M lstate B) : (forall s p a s' p', ml s p <> Ok (a, s', p')) -> pfr2 ml.
  Proof. intros H. split; [ckt; apply jk_noresult, H|]. intros s p a s' p' E. exfalso. eapply H; eauto. Qed.
  Lemma pfr2_lift {B} (r : res B) : pfr2 (lift r).
  Proof. split; [ckt; apply jk_lift|apply fr_lift, Prefl]. Qed.
  Lemma pfr2_ctx {B} c (ml : M lstate B) : pfr2 ml -> pfr2 (ctx_wrap c ml).
  Proof. intros [H1 H2]. split; [ckt; apply jk_ctx; apply H1; assumption|apply fr_ctx; [exact I|exact H2]]. Qed.

  (* ---------------- the failure relation for expression-level computations ---------------- *)
  Definition fpostE2 {B} (Bd : world -> B -> Prop) (w : world) (ls : lstate) : B -> lstate -> polls -> Prop :=
    fun b ls' _ => EFr ls ls' /\ exists wK, wext0 w wK /\ K wK ls' /\ Bd wK b.
  Definition efail2 {A B} (Bd : world -> B -> Prop) (ms : M sstate A) (ml : M lstate B) : Prop :=
    forall ss p e, ms ss p = Err e -> okerr2 e -> forall w ls pl, Renv2 w ss ls -> K w ls -> nob pl -> nres (ml ls pl) (fpostE2 Bd w ls).
  Definition enok2 {A B} (ms : M sstate A) (ml : M lstate B) : Prop :=
    forall ss p e, ms ss p = Err e -> okerr2 e -> forall w ls pl, Renv2 w ss ls -> K w ls -> nob pl -> nok (ml ls pl).
  Lemma efail2_of_enok2 {A B} Bd (ms : M sstate A) (ml : M lstate B) : enok2 ms ml -> efail2 Bd ms ml.
  Proof. intros H ss p e Hs Ho w ls pl HR HK Hb. apply nok_nres. eapply H; eauto. Qed.

  Lemma fpostE2_shift {B} (Bd : world -> B -> Prop) w w1 ls ls1 b ls2 pl2 :
    lframe ls ls1 -> wext0 w w1 -> fpostE2 Bd w1 ls1 b ls2 pl2 -> fpostE2 Bd w ls b ls2 pl2.
  Proof.
    intros Hf Hp (HF & wK & Hp2 & HK & HB). split; [eapply EFr_trans; [apply lframe_EFr, Hf|exact HF]|].
    exists wK. split; [eapply wext0_trans; eauto|]. auto.
  Qed.
  Lemma fpostE2_tail {B C} (Bd : world -> B -> Prop) (Bd2 : world -> C -> Prop) w ls b ls1 pl1 (kl : M lstate C) :
    wstatic t fl w -> fpostE2 Bd w ls b ls1 pl1 -> pfr2 kl -> (forall wK c, Bd wK b -> Bd2 wK c) -> nres (kl ls1 pl1) (fpostE2 Bd2 w ls).
  Proof.
    intros Hws (HF & wK & Hp & HK & HB) Hk Himp.
    eapply nres_mono; [apply (pfr2_nres kl wK None None ls ls1 pl1 Hk (wstatic_ext0 _ _ Hp Hws) (K_J _ _ _ _ _ _ HK) HF)|].
    intros c ls2 pl2 (HJ2 & HF2). split; [exact HF2|]. exists wK. split; [exact Hp|]. split; [apply HJ2|]. auto.
  Qed.
  Lemma fpostE2_intro {B} (Bd : world -> B -> Prop) w ls b ls' pl' wK :
    EFr ls ls' -> wext0 w wK -> K wK ls' -> Bd wK b -> fpostE2 Bd w ls b ls' pl'.
  Proof. intros H2 H3 H4 H5. split; [exact H2|]. exists wK. auto. Qed.

  (* traversals: the element on which the strict traversal failed, after elements that were simulated *)
  Lemma trav_fail2 {X A B} (F : X -> M sstate A) (F' : X -> M lstate B) (Q : world -> B -> A -> Prop) (Bd : world -> B -> Prop) (P : X -> Prop) :
    Qmono2 Q -> (forall x, P x -> esim2 Q (F x) (F' x)) -> (forall x, P x -> efail2 Bd (F x) (F' x)) -> (forall x, pfr2 (F' x)) ->
    forall l, All P l ->
      efail2 (fun r bs => exists pre b post as_, bs = pre ++ b :: post /\ Forall2 (Q r) pre as_ /\ Bd r b) (mapM F l) (mapM F' l).
  Proof.
    intros HQ HS HFl HP. induction l as [|x l IH]; intros HPl ss p e H Ho w ls pl HR HK Hb; cbn [mapM] in *; [discriminate|].
    destruct HPl as [Px HPl]. apply bind_err in H. destruct H as [H|(a & s1 & p1 & H1 & H)].
    - (* the head fails *)
      apply nres_bind. eapply nres_mono; [apply (HFl x Px _ _ _ H Ho w ls pl HR HK Hb)|]. intros b ls1 pl1 HP1.
      apply nres_bind. eapply nres_mono; [apply (fpostE2_tail Bd (fun r _ => Bd r b) w ls b ls1 pl1 (mapM F' l) (Renv2_static _ _ _ HR) HP1 (pfr2_mapM _ _ HP))|]; [auto|].
      intros bs ls2 pl2 (HF2 & wK & Hp & HK2 & HB). apply nres_ret. split; [exact HF2|]. exists wK. split; [exact Hp|]. split; [exact HK2|].
      exists [], b, bs, []. split; [reflexivity|]. split; [constructor|exact HB].
    - (* the head succeeds, the tail fails *)
      apply bind_err in H. destruct H as [H|(as1 & s2 & p2 & H2 & H)]; [|exfalso; eapply ret_noerr; eauto].
      apply nres_bind. apply nres_of_lres. eapply lres_mono; [apply (HS x Px _ _ _ _ _ H1 w ls pl HR Hb)|].
      intros b ls1 pl1 HP1. destruct (epost2_K _ _ _ _ _ _ _ _ _ HK HP1) as (Hb1 & Hf1 & w1 & Hp1 & HR1 & HK1 & Q1).
      apply nres_bind. eapply nres_mono; [apply (IH HPl _ _ _ H Ho w1 ls1 pl1 HR1 HK1 Hb1)|]. intros bs ls2 pl2 HP2. apply nres_ret.
      eapply fpostE2_shift; [exact Hf1|exact Hp1|]. destruct HP2 as (HF2 & wK & Hp & HK2 & pre & b0 & post & as_ & -> & HF & HB).
      split; [exact HF2|]. exists wK. split; [exact Hp|]. split; [exact HK2|].
      exists (b :: pre), b0, post, (a :: as_). split; [reflexivity|]. split; [constructor; [apply (HQ w1 wK _ _ Hp Q1)|exact HF]|exact HB].
  Qed.

  Lemma Forall2_den_weaken w b lvs vs : Forall2 (Qd call b w) lvs vs -> Forall2 (den2 w false) lvs vs.
  Proof. intros H. induction H; constructor; [eapply den2_weaken; eauto|assumption]. Qed.
  Lemma Forall2_den_weaken' w b lvs vs : Forall2 (den2 w b) lvs vs -> Forall2 (den2 w false) lvs vs.
  Proof. intros H. induction H; constructor; [eapply den2_weaken; eauto|assumption]. Qed.

  (* arguments of a call *)
  Lemma args_fail2 b (ev : expr -> M sstate value) (lev : expr -> M lstate lvalue) :
    forall args, (forall e, In e args -> esim2 (Qd call b) (ev e) (lev e)) -> (forall e, In e args -> efail2 bad_lv2 (ev e) (lev e)) -> (forall e, pfr2 (lev e)) ->
    efail2 (fun r lvs => exists pre x post vs, lvs = pre ++ x :: post /\ Forall2 (den2 r false) pre vs /\ bad_lv2 r x)
          (iterM (fun a => v <- ev a ;; push_param v) args) (mapM lev args).
  Proof.
    induction args as [|a args IH]; intros Hev Hfl HP ss p e H Ho w ls pl HR HK Hb; cbn [iterM mapM] in *; [discriminate|].
    apply bind_err in H. destruct H as [H|(u1 & s2 & p2 & Hhd & Htl)].
    - apply bind_err in H. destruct H as [H|(v & s1 & p1 & H1 & H)]; [|rewrite push_param_eq in H; discriminate].
      apply nres_bind. eapply nres_mono; [apply (Hfl a (or_introl eq_refl) _ _ _ H Ho w ls pl HR HK Hb)|]. intros b0 ls1 pl1 HP1.
      apply nres_bind. eapply nres_mono; [apply (fpostE2_tail bad_lv2 (fun r _ => bad_lv2 r b0) w ls b0 ls1 pl1 (mapM lev args) (Renv2_static _ _ _ HR) HP1 (pfr2_mapM _ _ HP))|]; [auto|].
      intros bs ls2 pl2 (HF2 & wK & Hp & HK2 & HB). apply nres_ret. split; [exact HF2|]. exists wK. split; [exact Hp|]. split; [exact HK2|].
      exists [], b0, bs, []. split; [reflexivity|]. split; [constructor|exact HB].
    - apply bind_ok in Hhd. destruct Hhd as (v & s1 & p1 & H1 & Hpush). rewrite push_param_eq in Hpush. inversion Hpush; subst; clear Hpush.
      apply nres_bind. apply nres_of_lres. eapply lres_mono; [apply (Hev a (or_introl eq_refl) _ _ _ _ _ H1 w ls pl HR Hb)|].
      intros lv ls1 pl1 HP1. destruct (epost2_K _ _ _ _ _ _ _ _ _ HK HP1) as (Hb1 & Hf1 & w1 & Hp1 & HR1 & HK1 & Q1).
      assert (HR1' : Renv2 w1 (sset_params (s_params s1 ++ [v]) s1) ls1) by exact HR1.
      apply nres_bind. eapply nres_mono; [apply (IH (fun e0 He => Hev e0 (or_intror He)) (fun e0 He => Hfl e0 (or_intror He)) HP _ _ _ Htl Ho w1 ls1 pl1 HR1' HK1 Hb1)|].
      intros lvs ls2 pl2 HP2. apply nres_ret. eapply fpostE2_shift; [exact Hf1|exact Hp1|].
      destruct HP2 as (HF2 & wK & Hp & HK2 & pre & b0 & post & vs & -> & HF & HB).
      split; [exact HF2|]. exists wK. split; [exact Hp|]. split; [exact HK2|].
      exists (lv :: pre), b0, post, (v :: vs). split; [reflexivity|]. split; [constructor; [eapply den2_weaken; eapply den2_mono; [apply wext0_wext, Hp|exact Q1]|exact HF]|exact HB].
  Qed.

  (* an eager position: the lazy value is evaluated on the spot *)
  Lemma eager_fail2 (ms : M sstate value) (ml : M lstate lvalue) F : efail2 bad_lv2 ms ml -> enok2 ms (bind ml (eval_lv' F)).
  Proof.
    intros Hf ss p e H Ho w ls pl HR HK Hb. apply nres_bind. eapply nres_mono; [apply (Hf _ _ _ H Ho w ls pl HR HK Hb)|].
    intros lv ls1 pl1 (_ & wK & _ & HK1 & HB). apply HB; assumption.
  Qed.

  Lemma locals_get_none2 w l l' k : locals_rel2 call purev w l l' -> varmap_get l k = None -> varmap_get l' k = None.
  Proof.
    intros H. induction H as [|f f' l l' Hf _ IH]; cbn [varmap_get]; [reflexivity|].
    pose proof (frame_get2 call purev w f f' k Hf) as G. destruct (alist_get k f) as [[v1 m1]|], (alist_get k f') as [[lv2 m2]|]; try contradiction; try discriminate.
    exact IH.
  Qed.
  Lemma unscoped_add_fail2 ll name v lv mu : enok2 (unscoped_add glob name v mu) (lunscoped_add glob ll name lv mu).
  Proof.
    intros ss p e H Ho w ls pl (Hst & Hl & Hsc) HK Hb. unfold unscoped_add, lunscoped_add in *. destruct (globals_get glob name); [exact I|].
    unfold bind, get_state in H. destruct (varmap_add (s_locals ss) name v mu) as [l1|e1] eqn:E; [discriminate|].
    apply nres_bind. rewrite store_add_eq. cbn [nres]. apply nres_get. cbn [set_store l_locals].
    destruct Hl as [|f f' l l' Hf Hl']; cbn [varmap_add] in *; [exact I|].
    pose proof (frame_get2 call purev w f f' name Hf) as G. destruct (alist_get name f) as [[v1 m1]|], (alist_get name f') as [[lv2 m2]|]; try contradiction; try discriminate.
    exact I.
  Qed.

  (* one iteration of a comprehension / of a `for` loop binds the variable to a plain value *)
  Lemma iter_bind_sim2 b ll var (ev : M sstate value) (lev : M lstate lvalue) v : esim2 (Qd call b) ev lev ->
    esim2 (Qd call b) (fun s p => (clear_frame ;;; unscoped_add glob var v false ;;; ev) s p)
                      (fun s p => (lclear_frame ;;; lunscoped_add glob ll var (LValue v) false ;;; lev) s p).
  Proof.
    intros Helem ss0 p0 a ss0' p0' H0 w0 ls0 pl0 HR0 Hb0.
    apply bind_ok in H0. destruct H0 as (u1 & t1 & q1 & G1 & H0). rewrite clear_frame_eq in G1. inversion G1; subst; clear G1.
    apply bind_ok in H0. destruct H0 as (u2 & t2 & q2 & G2 & G3).
    apply lres_bind. rewrite lclear_frame_eq. cbn [lres].
    assert (HRc : Renv2 w0 (sset_locals (varmap_clear (s_locals ss0)) ss0) (lset_locals (varmap_clear (l_locals ls0)) ls0)).
    { destruct HR0 as (A1 & A2 & A3). split; [exact A1|]. split; [apply locals_clear2, A2|exact A3]. }
    apply lres_bind. eapply lres_mono; [apply (unscoped_add_sim2 t fl glob call purev ll var v (LValue v) false _ _ _ _ _ w0 _ pl0 G2 HRc (d2_value call w0 _ v) Hb0)|].
    intros _ ls1' pl1' (Hb1' & S1' & Hf1' & w1' & Hp1' & HR1' & _).
    eapply lres_mono; [apply (Helem _ _ _ _ _ G3 w1' ls1' pl1' HR1' Hb1')|]. intros lv ls2' pl2' HP.
    eapply epost2_chain; [exact S1'|eapply lframe_trans; [apply lframe_set_locals|exact Hf1']|exact Hp1'|exact HP|]. intros r _ HQ. exact HQ.
  Qed.
  Lemma K_set_locals w x ls : K w ls -> K w (lset_locals x ls). Proof. intros H. exact H. Qed.
  Lemma iter_bind_fail2 {B} Bd ll var (ev : M sstate value) (lev : M lstate B) v : efail2 Bd ev lev ->
    efail2 Bd (fun s p => (clear_frame ;;; unscoped_add glob var v false ;;; ev) s p)
              (fun s p => (lclear_frame ;;; lunscoped_add glob ll var (LValue v) false ;;; lev) s p).
  Proof.
    intros Helem ss p e H Ho w ls pl HR HK Hb. apply bind_err in H. destruct H as [H|(u1 & t1 & q1 & G1 & H)]; [rewrite clear_frame_eq in H; discriminate|].
    rewrite clear_frame_eq in G1. inversion G1; subst; clear G1.
    assert (HRc : Renv2 w (sset_locals (varmap_clear (s_locals ss)) ss) (lset_locals (varmap_clear (l_locals ls)) ls)).
    { destruct HR as (A1 & A2 & A3). split; [exact A1|]. split; [apply locals_clear2, A2|exact A3]. }
    apply nres_bind. rewrite lclear_frame_eq. cbn [nres]. apply bind_err in H. destruct H as [H|(u2 & t2 & q2 & G2 & G3)].
    - apply nok_nres. apply nok_bind. apply (unscoped_add_fail2 ll var v (LValue v) false _ _ _ H Ho w _ pl HRc (K_set_locals _ _ _ HK) Hb).
    - apply nres_bind. apply nres_of_lres.
      eapply lres_mono; [apply (unscoped_add_sim2 t fl glob call purev ll var v (LValue v) false _ _ _ _ _ w _ pl G2 HRc (d2_value call w _ v) Hb)|].
      intros u ls1 pl1 HP1. destruct (epost2_K _ _ _ _ _ _ _ _ _ (K_set_locals _ _ _ HK) HP1) as (Hb1 & Hf1 & w1 & Hp1 & HR1 & HK1 & _).
      eapply nres_mono; [apply (Helem _ _ _ G3 Ho w1 ls1 pl1 HR1 HK1 Hb1)|]. intros b ls2 pl2 HP.
      eapply fpostE2_shift; [eapply lframe_trans; [apply lframe_set_locals|exact Hf1]|exact Hp1|exact HP].
  Qed.

  (* comprehensions *)
  Lemma comp_fail2 b (ev : expr -> M sstate value) (lev : expr -> M lstate lvalue) (Kc : list value -> value) ll F elem var value :
    esim2 (Qd call true) (ev value) (lev value) -> efail2 bad_lv2 (ev value) (lev value) ->
    esim2 (Qd call b) (ev elem) (lev elem) -> efail2 bad_lv2 (ev elem) (lev elem) -> pfr2 (lev elem) ->
    efail2 (fun r lvs => exists pre x post outs, lvs = pre ++ x :: post /\ Forall2 (den2 r false) pre outs /\ bad_lv2 r x)
      (lv <- ev value ;; vals <- lift (as_list lv) ;; push_frame ;;;
       out <- mapM (fun v => clear_frame ;;; unscoped_add glob var v false ;;; ev elem) vals ;; pop_frame ;;; ret (Kc out))
      (lv <- (lv <- lev value ;; eval_lv' F lv) ;; vals <- lift (as_list lv) ;; lpush_frame ;;;
       out <- mapM (fun v => lclear_frame ;;; lunscoped_add glob ll var (LValue v) false ;;; lev elem) vals ;; lpop_frame ;;; ret out).
  Proof.
    intros Hval Hvalf Helem Helemf Hpfr ss p e H Ho w ls pl HR HK Hb.
    apply bind_err in H. destruct H as [H|(lv0 & s1 & p1 & H1 & H)].
    { apply nok_nres. apply nok_bind. apply (eager_fail2 _ _ F Hvalf _ _ _ H Ho w ls pl HR HK Hb). }
    apply nres_bind. apply nres_of_lres. eapply lres_mono; [apply (eager_of2 t fl call purev _ F _ _ _ _ _ _ (Hval _ _ _ _ _ H1 w ls pl HR Hb))|].
    intros v' ls1 pl1 (-> & HP1). destruct (epost2_K _ _ _ _ _ _ _ _ _ HK HP1) as (Hb1 & Hf1 & w1 & Hp1 & HR1 & HK1 & _).
    apply bind_err in H. destruct H as [H|(vals & s2 & p2 & H2 & H)].
    { apply lift_err in H. apply nres_bind. rewrite H. exact I. }
    apply lift_ok in H2. destruct H2 as (Hal & -> & ->). apply nres_bind. rewrite Hal. cbn [lift nres].
    apply bind_err in H. destruct H as [H|(u3 & s3 & p3 & H3 & H)]; [rewrite push_frame_eq in H; discriminate|].
    rewrite push_frame_eq in H3. inversion H3; subst; clear H3.
    apply nres_bind. rewrite lpush_frame_eq. cbn [nres].
    assert (HR2 : Renv2 w1 (sset_locals ([] :: s_locals s1) s1) (lset_locals ([] :: l_locals ls1) ls1)).
    { destruct HR1 as (A1 & A2 & A3). split; [exact A1|]. split; [|exact A3]. constructor; [constructor|exact A2]. }
    apply bind_err in H. destruct H as [H|(out & s4 & p4 & H4 & H)].
    2:{ exfalso. apply bind_err in H. destruct H as [H|(u5 & s5 & p5 & H5 & H)]; [eapply pop_frame_noerr; eauto|eapply ret_noerr; eauto]. }
    apply nres_bind.
    eapply nres_mono; [apply (trav_fail2 _ _ (Qd call b) bad_lv2 (fun _ => True) (Qd_mono call b)
                               (fun v _ => iter_bind_sim2 b ll var (ev elem) (lev elem) v Helem)
                               (fun v _ => iter_bind_fail2 bad_lv2 ll var (ev elem) (lev elem) v Helemf)
                               (fun v => pfr2_bind _ _ pfr2_lclear_frame (fun _ => pfr2_bind _ _ (pfr2_lunscoped_add ll var (LValue v) false) (fun _ => Hpfr)))
                               vals ltac:(clear; induction vals; cbn; auto) _ _ _ H Ho w1 _ pl1 HR2 (K_set_locals _ _ _ HK1) Hb1)|].
    intros lvs ls4 pl4 HP4.
    assert (HP4' : fpostE2 (fun r lvs0 => exists pre x post outs, lvs0 = pre ++ x :: post /\ Forall2 (den2 r false) pre outs /\ bad_lv2 r x) w1
                     (lset_locals ([] :: l_locals ls1) ls1) lvs ls4 pl4).
    { destruct HP4 as (HF4 & wK & Hp & HK4 & pre & x & post & as_ & E & HF & HB). split; [exact HF4|]. exists wK. split; [exact Hp|]. split; [exact HK4|].
      exists pre, x, post, as_. split; [exact E|]. split; [apply (Forall2_den_weaken wK b), HF|exact HB]. }
    apply nres_bind.
    eapply nres_mono; [apply (fpostE2_tail _ (fun r (_ : unit) => exists pre x post outs, lvs = pre ++ x :: post /\ Forall2 (den2 r false) pre outs /\ bad_lv2 r x)
                                w1 _ lvs ls4 pl4 lpop_frame (Renv2_static _ _ _ HR2) HP4' pfr2_lpop_frame)|]; [auto|].
    intros u5 ls5 pl5 HP5. apply nres_ret. eapply fpostE2_shift; [eapply lframe_trans; [exact Hf1|apply lframe_set_locals]|exact Hp1|exact HP5].
  Qed.

  (* ---------------- expressions ---------------- *)
  Notation eval_sim2' := (eval_sim2 t fl glob call okfn purev Hpure m).

  Lemma eval_fail2 : forall fuel le ll e b, fexpr2' b e -> env_rel' le ll -> forall lf, efail2 bad_lv2 (eval' fuel le e) (leval' lf ll e).
  Proof.
    induction fuel as [|fuel IH]; intros le ll e b Hf Henv lf ss p err H Ho w ls pl HR HK Hb; [discriminate|].
    destruct lf as [|lf]; [exact I|].
    pose proof (Renv2_static _ _ _ HR) as Hws.
    destruct e; cbn [eval] in H; cbn [fexpr2] in Hf; cbn [leval].
    - exfalso; eapply ret_noerr; eauto.
    - exfalso; eapply ret_noerr; eauto.
    - exfalso; eapply ret_noerr; eauto.
    - exfalso; eapply ret_noerr; eauto.
    - exfalso; eapply ret_noerr; eauto.
    - (* list *)
      apply bind_err in H. destruct H as [H|(vs & s1 & p1 & H1 & H)]; [|exfalso; eapply ret_noerr; eauto].
      apply nres_bind.
      eapply nres_mono; [apply (trav_fail2 _ _ (Qd call b) bad_lv2 (fexpr2' b) (Qd_mono call b) (fun x Px => eval_sim2' fuel le ll x b Px Henv lf)
                                 (fun x Px => IH le ll x b Px Henv lf) (fun x => pfr2_leval lf ll x) es Hf _ _ _ H Ho w ls pl HR HK Hb)|].
      intros lvs ls1 pl1 (HF1 & wK & Hp & HK1 & pre & b0 & post & as_ & -> & HF & HB). apply nres_ret.
      apply (fpostE2_intro _ _ _ _ _ _ wK HF1 Hp HK1). apply (bad_list call Hcall t fl D Hanti wK (wstatic_ext0 _ _ Hp Hws) pre as_ b0 post (Forall2_den_weaken _ _ _ _ HF) HB).
    - (* set *)
      apply bind_err in H. destruct H as [H|(vs & s1 & p1 & H1 & H)]; [|exfalso; eapply ret_noerr; eauto].
      apply nres_bind.
      eapply nres_mono; [apply (trav_fail2 _ _ (Qd call b) bad_lv2 (fexpr2' b) (Qd_mono call b) (fun x Px => eval_sim2' fuel le ll x b Px Henv lf)
                                 (fun x Px => IH le ll x b Px Henv lf) (fun x => pfr2_leval lf ll x) es Hf _ _ _ H Ho w ls pl HR HK Hb)|].
      intros lvs ls1 pl1 (HF1 & wK & Hp & HK1 & pre & b0 & post & as_ & -> & HF & HB). apply nres_ret.
      apply (fpostE2_intro _ _ _ _ _ _ wK HF1 Hp HK1). apply (bad_set call Hcall t fl D Hanti wK (wstatic_ext0 _ _ Hp Hws) pre as_ b0 post (Forall2_den_weaken _ _ _ _ HF) HB).
    - (* list comprehension *)
      destruct Hf as [Hfe Hfv]. apply nres_bind.
      eapply nres_mono; [apply (comp_fail2 b (eval' fuel le) (leval' lf ll) VList ll _ e1 var e2
                                 (eval_sim2' fuel le ll e2 true Hfv Henv lf) (IH le ll e2 true Hfv Henv lf)
                                 (eval_sim2' fuel le ll e1 b Hfe Henv lf) (IH le ll e1 b Hfe Henv lf) (pfr2_leval lf ll e1)
                                 _ _ _ H Ho w ls pl HR HK Hb)|].
      intros lvs ls1 pl1 (HF1 & wK & Hp & HK1 & pre & b0 & post & as_ & -> & HF & HB). apply nres_ret.
      apply (fpostE2_intro _ _ _ _ _ _ wK HF1 Hp HK1). apply (bad_list call Hcall t fl D Hanti wK (wstatic_ext0 _ _ Hp Hws) pre as_ b0 post HF HB).
    - (* set comprehension *)
      destruct Hf as [Hfe Hfv]. apply nres_bind.
      eapply nres_mono; [apply (comp_fail2 b (eval' fuel le) (leval' lf ll) (fun o => VSet (set_of_list o)) ll _ e1 var e2
                                 (eval_sim2' fuel le ll e2 true Hfv Henv lf) (IH le ll e2 true Hfv Henv lf)
                                 (eval_sim2' fuel le ll e1 b Hfe Henv lf) (IH le ll e1 b Hfe Henv lf) (pfr2_leval lf ll e1)
                                 _ _ _ H Ho w ls pl HR HK Hb)|].
      intros lvs ls1 pl1 (HF1 & wK & Hp & HK1 & pre & b0 & post & as_ & -> & HF & HB). apply nres_ret.
      apply (fpostE2_intro _ _ _ _ _ _ wK HF1 Hp HK1). apply (bad_set call Hcall t fl D Hanti wK (wstatic_ext0 _ _ Hp Hws) pre as_ b0 post HF HB).
    - (* capture: never an error *)
      apply lift_err in H. exfalso. eapply from_nodes_noerr; eauto.
    - (* unscoped variable: UndefinedVariable is excluded *)
      exfalso. unfold unscoped_get in H. destruct (globals_get glob name); [discriminate|]. unfold bind, get_state in H.
      destruct (varmap_get (s_locals ss) name); [discriminate|]. inversion H; subst. apply (proj2 Ho). reflexivity.
    - (* scoped read *)
      destruct Hf as [-> Hfs]. apply bind_err in H. destruct H as [H|(sv & s1 & p1 & H1 & H)].
      + (* the scope fails *)
        apply nres_bind. eapply nres_mono; [apply (IH le ll e false Hfs Henv lf _ _ _ H Ho w ls pl HR HK Hb)|].
        intros slv ls1 pl1 (HF1 & wK & Hp & HK1 & HB). apply nres_ret. apply (fpostE2_intro _ _ _ _ _ _ wK HF1 Hp HK1).
        apply (bad_scoped_read call t fl D). apply (bad_scope_lv call t fl D). exact HB.
      + apply nres_bind. apply nres_of_lres. eapply lres_mono; [apply (eval_sim2' fuel le ll e false Hfs Henv lf _ _ _ _ _ H1 w ls pl HR Hb)|].
        intros slv ls1 pl1 HP1. destruct (epost2_K _ _ _ _ _ _ _ _ _ HK HP1) as (Hb1 & Hf1 & w1 & Hp1 & HR1 & HK1 & Hd1). apply nres_ret.
        apply bind_err in H. destruct H as [H|(n & s2 & p2 & H2 & H3)].
        * (* the scope is not a syntax node *)
          apply (fpostE2_intro _ _ _ _ _ _ w1 (lframe_EFr _ _ Hf1) Hp1 HK1). apply (bad_scoped_read call t fl D).
          apply (bad_scope_type call Hcall t fl D Hanti w1 (wstatic_ext0 _ _ Hp1 Hws) slv sv Hd1). intros n ->. discriminate.
        * (* not defined (yet): UndefinedVariable is excluded *)
          exfalso. unfold scoped_get_at, bind, get_state in H3. destruct (scoped_lookup (s_scoped s2) n name); [discriminate|].
          destruct (inherited fl name); [destruct (ancestor_lookup _ _ _ _ _); [discriminate|]|]; inversion H3; subst; apply (proj2 Ho); reflexivity.
    - (* call *)
      destruct Hf as [Hok Hargs]. apply bind_err in H. destruct H as [H|(u & s1 & p1 & H1 & H)].
      + apply nres_bind.
        eapply nres_mono; [apply (args_fail2 b (eval' fuel le) (leval' lf ll) args
                                   (fun e He => eval_sim2' fuel le ll e b (All_In _ _ _ Hargs He) Henv lf)
                                   (fun e He => IH le ll e b (All_In _ _ _ Hargs He) Henv lf) (fun e => pfr2_leval lf ll e) _ _ _ H Ho w ls pl HR HK Hb)|].
        intros lvs ls1 pl1 (HF1 & wK & Hp & HK1 & pre & b0 & post & as_ & -> & HF & HB). apply nres_ret.
        apply (fpostE2_intro _ _ _ _ _ _ wK HF1 Hp HK1). apply (bad_call_arg call Hcall t fl D Hanti wK (wstatic_ext0 _ _ Hp Hws) f pre as_ b0 post HF HB).
      + apply nres_bind. apply nres_of_lres.
        eapply lres_mono; [apply (args_sim2 t fl call purev b (eval' fuel le) (leval' lf ll) args
                                   (fun e He => eval_sim2' fuel le ll e b (All_In _ _ _ Hargs He) Henv lf) _ _ _ _ _ H1 w ls pl HR Hb)|].
        intros lvs ls1 pl1 (Hb1 & Hf1 & w1 & vs & Hp1 & HR1 & HF & Hlen & Hg1 & Hsc1 & Hps1). apply nres_ret.
        apply bind_err in H. destruct H as [H|(ps & s2 & p2 & H2 & H3)]; [exfalso; eapply drain_noerr; eauto|].
        rewrite <- Hlen in H2. destruct (drain_ok _ _ _ _ _ _ _ Hps1 H2) as (-> & -> & ->).
        unfold call_function, bind, get_state in H3. cbn [sset_params s_graph] in H3.
        destruct (call f (s_graph s1) vs) as [[v0 g']|e0|x0|] eqn:Ec; try discriminate.
        assert (HK1 : K w1 ls1) by (apply (K_step0 w w1 ls ls1 HK Hp1 (proj1 HR1)); apply Hf1).
        apply (fpostE2_intro _ _ _ _ _ _ w1 (lframe_EFr _ _ Hf1) Hp1 HK1).
        apply (bad_call_fail call t fl D Hanti w1 (wstatic_ext0 _ _ Hp1 Hws) f lvs vs (Forall2_den_weaken' _ _ _ _ HF)). intros g. rewrite (Hperr f Hok _ _ _ Ec g). exact I.
    - (* regex capture *)
      destruct Henv as (E1 & E2 & E3). rewrite <- E3. destruct (nth_error (le_caps le) (N.to_nat i)) as [s0|]; [exfalso; eapply ret_noerr; eauto|exact I].
  Qed.

  (* conditions, scan subjects, loop lists *)
  Lemma leager_fail2 fuel le ll e lf : fexpr2' true e -> env_rel' le ll -> enok2 (eval' fuel le e) (leager t fl glob call lf ll e).
  Proof. intros Hf Henv. unfold leager. apply eager_fail2. apply (eval_fail2 fuel le ll e true); assumption. Qed.

  (* ---------------- attributes ---------------- *)
  Hypothesis Hsh : Forall (fun sh => purev (sh_var sh) = false /\ All (fattr2 okfn purev m) (sh_attrs sh)) (f_shorthands fl).
  Notation den_attrs2 := (den_attrs2 call).
  Notation asim2 := (asim2 t fl call purev).
  Notation fattr2' := (fattr2 okfn purev m).
  Notation exec_attr' := (exec_attr t fl glob call).
  Notation lexec_attr' := (lexec_attr t fl glob call).

  Definition BdA2 (wK : world) (tgt : target) (G : graph) (out : list (ident * lvalue)) : Prop :=
    exists pre key lv post kvs G', out = pre ++ (key, lv) :: post /\ den_attrs2 wK pre kvs /\
      apply_attrs (map (mk tgt) kvs) G = Some G' /\ (bad_lv2 wK lv \/ exists v, den2 wK false lv v /\ conflict (mk tgt (key, v)) G').
  Definition fpostA2 (tgt : target) (G : graph) (w : world) (ls : lstate) : list (ident * lvalue) -> lstate -> polls -> Prop :=
    fun out ls' _ => EFr ls ls' /\ exists wK dt, wext0 w wK /\ J wK dt None ls' /\ (dt = None -> BdA2 wK tgt G out).
  Definition afail2 (tgt : target) (ms : M sstate unit) (ml : M lstate (list (ident * lvalue))) : Prop :=
    forall ss p e, ms ss p = Err e -> okerr2 e -> forall w ls pl, Renv2 w ss ls -> K w ls -> nob pl -> nres (ml ls pl) (fpostA2 tgt (s_graph ss) w ls).

  Lemma BdA2_app_r wK tgt G out x : BdA2 wK tgt G out -> BdA2 wK tgt G (out ++ x).
  Proof.
    intros (pre & key & lv & post & kvs & G' & -> & H1 & H2 & H3). exists pre, key, lv, (post ++ x), kvs, G'.
    split; [rewrite <- app_assoc; reflexivity|]. auto.
  Qed.
  Lemma BdA2_app_l wK tgt G G1 out1 kvs1 out : den_attrs2 wK out1 kvs1 -> apply_attrs (map (mk tgt) kvs1) G = Some G1 ->
    BdA2 wK tgt G1 out -> BdA2 wK tgt G (out1 ++ out).
  Proof.
    intros Hd Hg (pre & key & lv & post & kvs & G' & -> & H1 & H2 & H3). exists (out1 ++ pre), key, lv, post, (kvs1 ++ kvs), G'.
    split; [rewrite <- app_assoc; reflexivity|]. split; [apply Forall2_app; assumption|]. split; [|exact H3].
    rewrite map_app. eapply ofold_app_ok; eauto.
  Qed.
  Lemma fpostA2_shift tgt G w w1 ls ls1 out ls2 pl2 :
    lframe ls ls1 -> wext0 w w1 -> fpostA2 tgt G w1 ls1 out ls2 pl2 -> fpostA2 tgt G w ls out ls2 pl2.
  Proof.
    intros Hf Hp (HF & wK & dt & Hp2 & HJ & HB). split; [eapply EFr_trans; [apply lframe_EFr, Hf|exact HF]|].
    exists wK, dt. split; [eapply wext0_trans; eauto|]. auto.
  Qed.
  Lemma fpostA2_tail {C} tgt G w ls out ls1 pl1 (kl : M lstate C) : wstatic t fl w -> fpostA2 tgt G w ls out ls1 pl1 -> pfr2 kl ->
    nres (kl ls1 pl1) (fun _ ls2 pl2 => fpostA2 tgt G w ls out ls2 pl2).
  Proof.
    intros Hws (HF & wK & dt & Hp & HJ & HB) Hk. eapply nres_mono; [apply (pfr2_nres kl wK dt None ls ls1 pl1 Hk (wstatic_ext0 _ _ Hp Hws) HJ HF)|].
    intros c ls2 pl2 (HJ2 & HF2). split; [exact HF2|]. exists wK, dt. auto.
  Qed.

  (* what a successful attribute gives, with K *)
  Lemma apost2_K w tgt ss ss' ls out ls' pl' : K w ls -> apost2 t fl call purev w tgt ss ss' ls out ls' pl' ->
    nob pl' /\ lframe ls ls' /\ exists w' kvs, wext0 w w' /\ Renv2 w' ss' ls' /\ K w' ls' /\ den_attrs2 w' out kvs /\
      apply_attrs (map (mk tgt) kvs) (s_graph ss) = Some (s_graph ss').
  Proof.
    intros HK (Hb & Hf & _ & w' & kvs & Hp & HR & Hd & Hg). split; [exact Hb|]. split; [exact Hf|]. exists w', kvs. split; [exact Hp|]. split; [exact HR|].
    split; [apply (K_step0 w w' ls ls' HK Hp (proj1 HR)); apply Hf|]. auto.
  Qed.

  Lemma attrs_fail2 tgt (exa : attr -> M sstate unit) (lexa : attr -> M lstate (list (ident * lvalue))) :
    forall attrs, (forall a, In a attrs -> asim2 tgt (exa a) (lexa a)) -> (forall a, In a attrs -> afail2 tgt (exa a) (lexa a)) -> (forall a, pfr2 (lexa a)) ->
    forall ss p e, iterM exa attrs ss p = Err e -> okerr2 e -> forall w ls pl, Renv2 w ss ls -> K w ls -> nob pl ->
      nres (mapM lexa attrs ls pl) (fun outs ls' pl' => fpostA2 tgt (s_graph ss) w ls (concat outs) ls' pl').
  Proof.
    induction attrs as [|a attrs IH]; intros Ha Hfl HP ss p e H Ho w ls pl HR HK Hb; cbn [iterM mapM] in *; [discriminate|].
    apply bind_err in H. destruct H as [H|(u1 & s1 & p1 & H1 & H2)].
    - apply nres_bind. eapply nres_mono; [apply (Hfl a (or_introl eq_refl) _ _ _ H Ho w ls pl HR HK Hb)|]. intros o1 ls1 pl1 HP1.
      apply nres_bind. eapply nres_mono; [apply (fpostA2_tail tgt _ w ls o1 ls1 pl1 (mapM lexa attrs) (Renv2_static _ _ _ HR) HP1 (pfr2_mapM _ _ HP))|].
      intros outs ls2 pl2 (HF2 & wK & dt & Hp & HJ & HB). apply nres_ret. split; [exact HF2|]. exists wK, dt.
      split; [exact Hp|]. split; [exact HJ|]. intros Hd. cbn [concat]. apply BdA2_app_r, HB, Hd.
    - apply nres_bind. apply nres_of_lres. eapply lres_mono; [apply (Ha a (or_introl eq_refl) _ _ _ _ _ H1 w ls pl HR Hb)|].
      intros o1 ls1 pl1 HP1. destruct (apost2_K _ _ _ _ _ _ _ _ HK HP1) as (Hb1 & Hf1 & w1 & kvs1 & Hp1 & HR1 & HK1 & Hd1 & Hg1).
      apply nres_bind. eapply nres_mono; [apply (IH (fun a0 Hin => Ha a0 (or_intror Hin)) (fun a0 Hin => Hfl a0 (or_intror Hin)) HP _ _ _ H2 Ho w1 ls1 pl1 HR1 HK1 Hb1)|].
      intros outs ls2 pl2 HP2. apply nres_ret. eapply fpostA2_shift; [exact Hf1|exact Hp1|].
      destruct HP2 as (HF2 & wK & dt & Hp & HJ & HB). split; [exact HF2|]. exists wK, dt.
      split; [exact Hp|]. split; [exact HJ|]. intros Hd. cbn [concat]. eapply BdA2_app_l; [eapply den_attrs2_mono; [apply wext0_wext, Hp|exact Hd1]|exact Hg1|apply HB, Hd].
  Qed.

  Lemma add_attr_err2 tgt k v s p e : add_attr tgt k v s p = Err e -> okerr2 e -> conflict (mk tgt (k, v)) (s_graph s).
  Proof. intros H [Ho _]. eapply add_attr_err; eauto. Qed.

  Lemma attr_fail2 : forall fuel le ll tgt a, fattr2' a -> env_rel' le ll -> forall lf, afail2 tgt (exec_attr' fuel le tgt a) (lexec_attr' lf ll a).
  Proof.
    induction fuel as [|fuel IH]; intros le ll tgt a Hf Henv lf ss p err H Ho w ls pl HR HK Hb; [discriminate|].
    destruct lf as [|lf]; [exact I|]. destruct a as [name value]. cbn [exec_attr] in H. cbn [lexec_attr fattr2] in *.
    pose proof (Renv2_static _ _ _ HR) as Hws.
    apply bind_err in H. destruct H as [H|(u0 & s0 & p0 & H0 & H)]; [exfalso; eapply poll_okerr; [exact H|apply Ho]|].
    apply poll_ok in H0. destruct H0 as (-> & -> & _).
    apply nres_bind. unfold lpoll. apply nres_poll; [exact Hb|]. intros pl0 Hb0.
    apply bind_err in H. destruct H as [H|(v & s1 & p1 & H1 & H)].
    - (* the value fails *)
      apply nres_bind. eapply nres_mono; [apply (eval_fail2 fuel le ll value false Hf Henv lf _ _ _ H Ho w ls pl0 HR HK Hb0)|].
      intros lv ls1 pl1 (HF1 & wK & Hp & HK1 & HB).
      destruct (find_shorthand name (f_shorthands fl)) as [sh|] eqn:Esh.
      + (* shorthand: the bad value is stored in a thunk that nothing may ever read *)
        apply nres_get. apply nres_bind. rewrite set_llocals_eq. cbn [nres].
        apply nres_bind. unfold lunscoped_add. destruct (globals_get glob (sh_var sh)); [exact I|].
        apply nres_bind. rewrite store_add_eq. cbn [nres]. apply nres_get.
        destruct (varmap_add (l_locals (set_store (l_store (lset_locals [[]] ls1) ++ [{| th_state := TUnforced lv; th_dbg := ll_ctx ll |}]) (lset_locals [[]] ls1)))
                    (sh_var sh) (LVar (N.of_nat (length (l_store (lset_locals [[]] ls1))))) false) as [l1|e1]; [|exact I].
        rewrite set_llocals_eq. cbn [nres]. cbn [lset_locals l_store set_store].
        set (loc := length (l_store ls1)). set (th := {| th_state := TUnforced lv; th_dbg := ll_ctx ll |}).
        match goal with |- nres (?k ?st pl1) _ =>
          assert (HJ : J wK (Some (loc, lv)) None st);
          [|assert (Hk : pfr2 k) by (apply pfr2_bind; [apply pfr2_mapM; intros a0; apply pfr2_lexec_attr|intros outs; apply pfr2_bind; [apply pfr2_set_llocals|intros _; apply pfr2_ret]]);
            assert (HFs : EFr ls st) by (eapply EFr_trans; [exact HF1|]; apply lframe_EFr; repeat split);
            eapply nres_mono; [apply (pfr2_nres k wK (Some (loc, lv)) None ls st pl1 Hk (wstatic_ext0 _ _ Hp Hws) HJ HFs)|]]
        end.
        { destruct HK1 as [Hs Hc]. unfold SLF2Store.J, SLF2Store.K. cbn [lset_locals set_store l_store l_scoped].
          split; [split; [apply storeK_app, Hs|exact Hc]|]. split; [|exact I]. cbn [dtl].
          split; [apply Hs|]. split; [exact HB|]. exists (ll_ctx ll). unfold loc. rewrite nth_error_app2, Nat.sub_diag by lia. reflexivity. }
        intros out ls2 pl2 (HJ2 & HF2). split; [exact HF2|]. exists wK, (Some (loc, lv)).
        split; [exact Hp|]. split; [exact HJ2|]. discriminate.
      + apply nres_ret. split; [exact HF1|]. exists wK, None. split; [exact Hp|]. split; [apply K_J, HK1|]. intros _.
        exists [], name, lv, [], [], (s_graph ss). split; [reflexivity|]. split; [constructor|]. split; [reflexivity|]. left. exact HB.
    - (* the value is evaluated; the insertion fails *)
      apply nres_bind. apply nres_of_lres.
      eapply lres_mono; [apply (eval_sim2' fuel le ll value false Hf Henv lf _ _ _ _ _ H1 w ls pl0 HR Hb0)|].
      intros lv ls1 pl1 HP1. pose proof HP1 as (_ & (Sg1 & Sp1 & Ssc1) & _). destruct (epost2_K _ _ _ _ _ _ _ _ _ HK HP1) as (Hb1 & Hf1 & w1 & Hp1 & HR1 & HK1 & Hd1).
      destruct (find_shorthand name (f_shorthands fl)) as [sh|] eqn:Esh.
      + apply bind_err in H. destruct H as [H|(sg & s1' & p1' & G & H)]; [exfalso; eapply get_state_noerr; eauto|]. apply get_ok in G. destruct G as (-> & -> & ->).
        apply bind_err in H. destruct H as [H|(u2 & s2 & p2 & H2 & H)]; [rewrite set_locals_eq in H; discriminate|]. rewrite set_locals_eq in H2. inversion H2; subst; clear H2.
        apply nres_get. apply nres_bind. rewrite set_llocals_eq. cbn [nres].
        assert (HR2 : Renv2 w1 (sset_locals [[]] s1) (lset_locals [[]] ls1)).
        { destruct HR1 as (A1 & A2 & A3). split; [exact A1|]. split; [|exact A3]. constructor; [constructor|constructor]. }
        rewrite Forall_forall in Hsh. destruct (Hsh sh (find_shorthand_In _ _ _ Esh)) as [Hshv Hsha].
        assert (Hd1' : den2 w1 (purev (sh_var sh)) lv v) by (rewrite Hshv; exact Hd1).
        apply bind_err in H. destruct H as [H|(u3 & s3 & p3 & H3 & H)].
        * apply nok_nres. apply nok_bind. apply (unscoped_add_fail2 ll (sh_var sh) v lv false _ _ _ H Ho w1 _ pl1 HR2 (K_set_locals _ _ _ HK1) Hb1).
        * apply nres_bind. apply nres_of_lres.
          eapply lres_mono; [apply (unscoped_add_sim2 t fl glob call purev ll (sh_var sh) v lv false _ _ _ _ _ w1 _ pl1 H3 HR2 Hd1' Hb1)|].
          intros u ls3 pl3 HP3. pose proof HP3 as (_ & (Sg3 & Sp3 & Ssc3) & _).
          destruct (epost2_K _ _ _ _ _ _ _ _ _ (K_set_locals _ _ _ HK1) HP3) as (Hb3 & Hf3 & w3 & Hp3 & HR3 & HK3 & _).
          apply bind_err in H. destruct H as [H|(u4 & s4 & p4 & H4 & H5)]; [|rewrite set_locals_eq in H5; discriminate].
          assert (Hin : forall a0, In a0 (sh_attrs sh) -> fattr2' a0) by (intros a0 Hin0; apply (All_In _ _ _ Hsha Hin0)).
          apply nres_bind.
          eapply nres_mono; [apply (attrs_fail2 tgt _ _ (sh_attrs sh)
                                     (fun a0 Hin0 => attr_sim2 t fl glob call okfn purev Hpure m ltac:(rewrite Forall_forall; exact Hsh) fuel le ll tgt a0 (Hin a0 Hin0) Henv lf)
                                     (fun a0 Hin0 => IH le ll tgt a0 (Hin a0 Hin0) Henv lf) (fun a0 => pfr2_lexec_attr lf ll a0) _ _ _ H Ho w3 ls3 pl3 HR3 HK3 Hb3)|].
          intros outs ls4 pl4 HP4. apply nres_bind. rewrite set_llocals_eq. cbn [nres]. apply nres_ret.
          cbn [sset_locals s_graph] in *. rewrite Sg3, Sg1 in HP4.
          eapply fpostA2_shift; [eapply lframe_trans; [exact Hf1|]; eapply lframe_trans; [apply lframe_set_locals|exact Hf3]|eapply wext0_trans; [exact Hp1|exact Hp3]|].
          destruct HP4 as (HF4 & wK & dt & Hp & HJ & HB). split; [eapply EFr_trans; [exact HF4|apply lframe_EFr, lframe_set_locals]|].
          exists wK, dt. split; [exact Hp|]. split; [eapply J_same; [| |exact HJ]; reflexivity|exact HB].
      + pose proof (add_attr_err2 _ _ _ _ _ _ H Ho) as Hc. rewrite Sg1 in Hc. apply nres_ret.
        split; [apply lframe_EFr, Hf1|]. exists w1, None. split; [exact Hp1|]. split; [apply K_J, HK1|]. intros _.
        exists [], name, lv, [], [], (s_graph ss). split; [reflexivity|]. split; [constructor|]. split; [reflexivity|]. right. exists v. auto.
  Qed.
End FailExpr2.
