(* Proofs/SLAnyExample.v — C02 with an arbitrary interleaving of the matches: the hypotheses of Proofs/SLAny.v are inhabited by non-trivial programs.
   Tree of Proofs/K7.v (source "p\nq\nr\n": module 0, expression statements 1 3 5, identifiers 2 4 6); two stanzas, THREE matches each:
     ay1 (fragment v1, no scoped variables)
       (identifier) @x                              { node a  attr (a) v = (plus 1 2), s = @x }
       (expression_statement (identifier) @x) @s    { node b  node c  edge b -> c  attr (b -> c) w = 7  attr (c) o = @x }
     ay2 (intersection of fragment v2 of C02 and of the scoped fragment of C08)
       (identifier) @x                              { node @x.n  attr (@x.n) k = (plus 1 2)  edge @x.n -> @x.n }        DEFINES @x.n, creates a loop edge
       (expression_statement (identifier) @x) @s    { node m  edge m -> @x.n  attr (m -> @x.n) w = 7  attr (@x.n -> @x.n) l = #true
                                                      attr (m) c = @x.n  print @x.n }                                    READS @x.n, attributes the OTHER stanza's edge
     ay3 (failure direction)  as ay1 with second stanza  { node b  attr (b) k = 1  attr (b) k = 2 }   (DuplicateAttribute)
   Strict order: the three matches of stanza 0, then the three of stanza 1 (`lmatches_of ay_ms`).  "Merged-query" order `ay_ms'`: the blocks interleaved,
   a READER first:  (1,p) (0,p) (1,r) (0,r) (0,q) (1,q).  The lazy graphs are numbered differently from the strict ones; for ay2 the isomorphism is
   exhibited (ay2_r) as a cross-check by evaluation of what the composed theorem gives abstractly. *)
From Coq Require Import Permutation.
From TSG Require Import Model.Run Model.Stdlib Proofs.K7 Proofs.SLExpr Proofs.StrictLazy Proofs.SL2Expr Proofs.SL2Stmt Proofs.SL2Whole
  Proofs.SLFailGraph Proofs.SLFailExpr Proofs.SLFailStmt Proofs.SLFailExample
  Proofs.BlockPermRen Proofs.BlockPermGraph Proofs.BlockPermSwap Proofs.BlockPermExec Proofs.BlockPermStd Proofs.BlockPermExample
  Proofs.ScPermSim Proofs.ScPermSwap Proofs.ScPermExec Proofs.SLAny.
Open Scope N_scope.

Definition ay_l : loc := (0, 0).
Definition ay_x : expr := ECapture [120] QOne 0 0 ay_l.
Definition ay_n : ident := [110].
Definition ay_va (s : N) : expr := EUnscoped [s] ay_l.
Definition ay_plus : expr := ECall Lit.plus [EInt 1; EInt 2].
Definition ay1_file : file :=
  {| f_globals := []; f_inherited := []; f_shorthands := [];
     f_stanzas := [
       {| st_stmts := [SNode (VarU [97] ay_l) [97] ay_l; SAttrNode (ay_va 97) [Attr [118] ay_plus; Attr [115] ay_x] ay_l];
          st_full_stanza_idx := 1; st_full_file_idx := 1; st_start := ay_l |};
       {| st_stmts := [SNode (VarU [98] ay_l) [98] ay_l; SNode (VarU [99] ay_l) [99] ay_l; SEdge (ay_va 98) (ay_va 99) ay_l;
                       SAttrEdge (ay_va 98) (ay_va 99) [Attr [119] (EInt 7)] ay_l; SAttrNode (ay_va 99) [Attr [111] ay_x] ay_l];
          st_full_stanza_idx := 1; st_full_file_idx := 1; st_start := ay_l |} ] |}.
Definition ay_p (i : N) : qmatch := [(0, [i]); (1, [i])].
Definition ay_q (i j : N) : qmatch := [(0, [i]); (1, [j])].
Definition ay_ms : list (list qmatch) := [ [ay_p 2; ay_p 4; ay_p 6]; [ay_q 2 1; ay_q 4 3; ay_q 6 5] ].
Definition ay_ms' : list (N * qmatch) := [(1, ay_q 2 1); (0, ay_p 2); (1, ay_q 6 5); (0, ay_p 6); (0, ay_p 4); (1, ay_q 4 3)].
Definition ay2_file : file :=
  {| f_globals := []; f_inherited := []; f_shorthands := [];
     f_stanzas := [
       {| st_stmts := [SNode (VarS ay_x ay_n ay_l) [110] ay_l; SAttrNode (EScoped ay_x ay_n ay_l) [Attr [107] ay_plus] ay_l;
                       SEdge (EScoped ay_x ay_n ay_l) (EScoped ay_x ay_n ay_l) ay_l];
          st_full_stanza_idx := 1; st_full_file_idx := 1; st_start := ay_l |};
       {| st_stmts := [SNode (VarU [109] ay_l) [109] ay_l; SEdge (ay_va 109) (EScoped ay_x ay_n ay_l) ay_l;
                       SAttrEdge (ay_va 109) (EScoped ay_x ay_n ay_l) [Attr [119] (EInt 7)] ay_l;
                       SAttrEdge (EScoped ay_x ay_n ay_l) (EScoped ay_x ay_n ay_l) [Attr [108] ETrue] ay_l;
                       SAttrNode (ay_va 109) [Attr [99] (EScoped ay_x ay_n ay_l)] ay_l;
                       SPrint [EScoped ay_x ay_n ay_l] ay_l];
          st_full_stanza_idx := 1; st_full_file_idx := 1; st_start := ay_l |} ] |}.

Definition ay1_gs : graph :=
  [ {| g_attrs := [([118], VInt 3); ([115], VSyn 2)]; g_edges := [] |};
    {| g_attrs := [([118], VInt 3); ([115], VSyn 4)]; g_edges := [] |};
    {| g_attrs := [([118], VInt 3); ([115], VSyn 6)]; g_edges := [] |};
    {| g_attrs := []; g_edges := [(4, [([119], VInt 7)])] |};
    {| g_attrs := [([111], VSyn 2)]; g_edges := [] |};
    {| g_attrs := []; g_edges := [(6, [([119], VInt 7)])] |};
    {| g_attrs := [([111], VSyn 4)]; g_edges := [] |};
    {| g_attrs := []; g_edges := [(8, [([119], VInt 7)])] |};
    {| g_attrs := [([111], VSyn 6)]; g_edges := [] |} ].
Definition ay1_gl : graph :=
  [ {| g_attrs := []; g_edges := [(1, [([119], VInt 7)])] |};
    {| g_attrs := [([111], VSyn 2)]; g_edges := [] |};
    {| g_attrs := [([118], VInt 3); ([115], VSyn 2)]; g_edges := [] |};
    {| g_attrs := []; g_edges := [(4, [([119], VInt 7)])] |};
    {| g_attrs := [([111], VSyn 6)]; g_edges := [] |};
    {| g_attrs := [([118], VInt 3); ([115], VSyn 6)]; g_edges := [] |};
    {| g_attrs := [([118], VInt 3); ([115], VSyn 4)]; g_edges := [] |};
    {| g_attrs := []; g_edges := [(8, [([119], VInt 7)])] |};
    {| g_attrs := [([111], VSyn 4)]; g_edges := [] |} ].
Definition ay2_gs : graph :=
  [ {| g_attrs := [([107], VInt 3)]; g_edges := [(0, [([108], VBool true)])] |};
    {| g_attrs := [([107], VInt 3)]; g_edges := [(1, [([108], VBool true)])] |};
    {| g_attrs := [([107], VInt 3)]; g_edges := [(2, [([108], VBool true)])] |};
    {| g_attrs := [([99], VGraph 0)]; g_edges := [(0, [([119], VInt 7)])] |};
    {| g_attrs := [([99], VGraph 1)]; g_edges := [(1, [([119], VInt 7)])] |};
    {| g_attrs := [([99], VGraph 2)]; g_edges := [(2, [([119], VInt 7)])] |} ].
Definition ay2_gl : graph :=
  [ {| g_attrs := [([99], VGraph 1)]; g_edges := [(1, [([119], VInt 7)])] |};
    {| g_attrs := [([107], VInt 3)]; g_edges := [(1, [([108], VBool true)])] |};
    {| g_attrs := [([99], VGraph 3)]; g_edges := [(3, [([119], VInt 7)])] |};
    {| g_attrs := [([107], VInt 3)]; g_edges := [(3, [([108], VBool true)])] |};
    {| g_attrs := [([107], VInt 3)]; g_edges := [(4, [([108], VBool true)])] |};
    {| g_attrs := [([99], VGraph 4)]; g_edges := [(4, [([119], VInt 7)])] |} ].
Definition ay2_r (i : N) : N := match i with 0 => 1 | 1 => 4 | 2 => 3 | 3 => 0 | 4 => 5 | 5 => 2 | _ => i end.

Lemma ay_perm : Permutation (lmatches_of ay_ms) ay_ms'.
Proof.
  change (lmatches_of ay_ms) with [(0, ay_p 2); (0, ay_p 4); (0, ay_p 6); (1, ay_q 2 1); (1, ay_q 4 3); (1, ay_q 6 5)]. unfold ay_ms'.
  apply (Permutation_trans (l' := (1, ay_q 2 1) :: [(0, ay_p 2); (0, ay_p 4); (0, ay_p 6)] ++ [(1, ay_q 4 3); (1, ay_q 6 5)])); [apply Permutation_sym, (Permutation_middle [(0, ay_p 2); (0, ay_p 4); (0, ay_p 6)])|].
  apply perm_skip, perm_skip.
  apply (Permutation_trans (l' := (1, ay_q 6 5) :: [(0, ay_p 4); (0, ay_p 6); (1, ay_q 4 3)] ++ [])); [apply Permutation_sym, (Permutation_middle [(0, ay_p 4); (0, ay_p 6); (1, ay_q 4 3)] [])|].
  apply perm_skip. cbn [app]. apply perm_swap.
Qed.

Lemma ay1_file_ok : file_ok c8_okfn ay1_file (f_stanzas ay1_file) ay_ms.
Proof.
  cbn [file_ok ay1_file f_stanzas ay_ms]. repeat split; repeat constructor; unfold match_ok, c8_okfn; cbn; repeat split; try reflexivity; try discriminate; constructor.
Qed.
Lemma ay1_strict : graph_of (run_strict k7_tree ay1_file config0 [[]] None ([] : list regex) rx_captures c8_call default_fuel ay_ms []) = Ok ay1_gs.
Proof. vm_compute. reflexivity. Qed.
Lemma ay1_strict_state : exists s p, run_strict k7_tree ay1_file config0 [[]] None ([] : list regex) rx_captures c8_call default_fuel ay_ms [] = Ok (s, p) /\ s_graph s = ay1_gs.
Proof. eexists. eexists. split; [vm_compute; reflexivity|reflexivity]. Qed.
Lemma ay1_lazy : lgraph_of (run_lazy k7_tree ay1_file config0 [[]] None ([] : list regex) rx_captures c8_call default_fuel ay_ms' []) = Ok ay1_gl.
Proof. vm_compute. reflexivity. Qed.

Lemma ay1_differ : ay1_gs <> ay1_gl. Proof. discriminate. Qed.

Lemma ay2_file_ok : file_ok2 c8_okfn (fun _ => false) ay2_file (f_stanzas ay2_file) ay_ms.
Proof.
  cbn [file_ok2 ay2_file f_stanzas ay_ms]. repeat split; repeat constructor; unfold match_ok2, c8_okfn; cbn;
    repeat split; try reflexivity; try discriminate; try (intros; discriminate); constructor.
Qed.
Ltac ay_slv := repeat match goal with
  | |- _ /\ _ => split
  | |- True => exact I
  | |- _ = _ => reflexivity
  | |- False \/ _ => right
  | |- _ \/ False => left
  | |- True \/ _ => left
  | |- (_ = _ /\ _) \/ _ => left
  end.
Lemma ay2_blocks_ok : Forall (pm_ok2 ay2_file c8_okfn) (lmatches_of ay_ms).
Proof.
  change (lmatches_of ay_ms) with [(0, ay_p 2); (0, ay_p 4); (0, ay_p 6); (1, ay_q 2 1); (1, ay_q 4 3); (1, ay_q 6 5)].
  repeat (apply Forall_cons; [intros st E; vm_compute in E; inversion E; subst st; (split; [|apply Forall_nil]);
    cbn [All st_stmts sstmt svar mexpr mattr fexpr is_capture ay_x ay_va ay_plus ay_n]; unfold c8_okfn; ay_slv|]). apply Forall_nil.
Qed.

Lemma ay2_file_ok_any : file_ok_any2 c8_okfn (fun _ => false) ay2_file (f_stanzas ay2_file) ay_ms.
Proof.
  cbn [file_ok_any2 ay2_file f_stanzas ay_ms].
  split; [|split; [|exact I]]; repeat (apply Forall_cons; [split|]); try apply Forall_nil.
  all: match goal with
       | |- match_ok2 _ _ _ _ _ => unfold match_ok2, c8_okfn; cbn; repeat split; try reflexivity; try discriminate; try (intros; discriminate); constructor
       | |- _ => (split; [|apply Forall_nil]); cbn [All st_stmts sstmt svar mexpr mattr fexpr is_capture ay_x ay_va ay_plus ay_n]; unfold c8_okfn; ay_slv
       end.
Qed.
Lemma ay2_strict : exists s p, run_strict k7_tree ay2_file config0 [[]] None ([] : list regex) rx_captures c8_call default_fuel ay_ms [] = Ok (s, p) /\ s_graph s = ay2_gs.
Proof. eexists. eexists. split; [vm_compute; reflexivity|reflexivity]. Qed.
Lemma ay2_strict_graph : graph_of (run_strict k7_tree ay2_file config0 [[]] None ([] : list regex) rx_captures c8_call default_fuel ay_ms []) = Ok ay2_gs.
Proof. vm_compute. reflexivity. Qed.
Lemma ay2_lazy : lgraph_of (run_lazy k7_tree ay2_file config0 [[]] None ([] : list regex) rx_captures c8_call default_fuel ay_ms' []) = Ok ay2_gl.
Proof. vm_compute. reflexivity. Qed.
Lemma ay2_differ : ay2_gs <> ay2_gl. Proof. discriminate. Qed.
Lemma ay2_iso : graph_iso ay2_r ay2_gs ay2_gl.
Proof.
  split; [reflexivity|]. intros i nd E.
  assert (Hi : i = 0 \/ i = 1 \/ i = 2 \/ i = 3 \/ i = 4 \/ i = 5).
  { assert (N.to_nat i < 6)%nat by (change 6%nat with (length ay2_gs); apply nth_error_Some; congruence). lia. }
  destruct Hi as [ -> | [ -> | [ -> | [ -> | [ -> | -> ] ] ] ] ]; cbn in E; inversion E; subst nd; clear E; (eexists; split; [reflexivity|]); cbn [g_attrs g_edges];
  (split; [intros k; reflexivity|]); intros b; destruct b as [|[[[p|p|]|[p|p|]|]|[[p|p|]|[p|p|]|]|]]; cbn; try exact I; intros k; reflexivity.
Qed.

(* ---- ay3: the failure direction ---- *)
Definition ay3_file : file :=
  {| f_globals := []; f_inherited := []; f_shorthands := [];
     f_stanzas := [
       {| st_stmts := [SNode (VarU [97] ay_l) [97] ay_l; SAttrNode (ay_va 97) [Attr [118] ay_plus; Attr [115] ay_x] ay_l];
          st_full_stanza_idx := 1; st_full_file_idx := 1; st_start := ay_l |};
       {| st_stmts := [SNode (VarU [98] ay_l) [98] ay_l; SAttrNode (ay_va 98) [Attr [107] (EInt 1)] ay_l; SAttrNode (ay_va 98) [Attr [107] (EInt 2)] ay_l];
          st_full_stanza_idx := 1; st_full_file_idx := 1; st_start := ay_l |} ] |}.
Lemma ay3_file_ok : file_ok c8_okfn ay3_file (f_stanzas ay3_file) ay_ms.
Proof.
  cbn [file_ok ay3_file f_stanzas ay_ms]. repeat split; repeat constructor; unfold match_ok, c8_okfn; cbn; repeat split; try reflexivity; try discriminate; constructor.
Qed.
Lemma ay3_strict : exists e, run_strict k7_tree ay3_file config0 [[]] None ([] : list regex) rx_captures c8_call default_fuel ay_ms [] = Err e /\
  root_cause e = EDuplicateAttribute /\ order_independent_error e.
Proof. eexists. split; [vm_compute; reflexivity|]. split; [reflexivity|exact I]. Qed.
Lemma ay3_lazy : err_cause (run_lazy k7_tree ay3_file config0 [[]] None ([] : list regex) rx_captures c8_call default_fuel ay_ms' []) = Some EDuplicateAttribute.
Proof. vm_compute. reflexivity. Qed.
Lemma ay_graph_ext : call_graph_ext c8_call. Proof. apply stdlib_call_graph_ext. Qed.

(* ---- the composed theorems apply ---- *)
Lemma ay_closed : gclosed (N.of_nat (length (@nil gnode))) []. Proof. constructor. Qed.
Lemma ay1_globals_ok : forall glob, check_globals (f_globals ay1_file) (globals_nested [[]]) = Ok glob ->
  forall name v, globals_get glob name = Some v -> vall (fun i => i < N.of_nat (length (@nil gnode))) v.
Proof. exact c8_globals_ok. Qed.

Example ay1_theorem_applies :
  exists r r', (forall i, r' (r i) = i) /\ (forall i, r (r' i) = i) /\
    forall lfuel, match run_lazy k7_tree ay1_file config0 [[]] None ([] : list regex) rx_captures c8_call lfuel ay_ms' [] with
                  | Ok (ls, _) => graph_iso r ay1_gs (l_graph ls) | OutOfFuel => True | Err _ | Panic _ => False end.
Proof.
  destruct ay1_strict_state as (s & p & E & Hg).
  destruct (strict_lazy_iso_any_order_every_fuel_lemma k7_tree ay1_file [[]] [] rx_captures c8_call c8_okfn c8_call_ok [] ay_closed ay1_globals_ok
              default_fuel ay_ms s p ay_ms' ay1_file_ok E ay_perm) as (r & r' & I1 & I2 & _ & H).
  exists r, r'. split; [exact I1|]. split; [exact I2|]. rewrite <- Hg. exact H.
Qed.
Example ay2_theorem_applies :
  exists r r', (forall i, r' (r i) = i) /\ (forall i, r (r' i) = i) /\
    forall lfuel, match run_lazy k7_tree ay2_file config0 [[]] None ([] : list regex) rx_captures c8_call lfuel ay_ms' [] with
                  | Ok (ls, _) => graph_iso r ay2_gs (l_graph ls) | OutOfFuel => True | Err _ | Panic _ => False end.
Proof.
  destruct ay2_strict as (s & p & E & Hg).
  destruct (strict_lazy_iso_any_order_scoped_every_fuel_lemma k7_tree ay2_file [[]] [] rx_captures c8_call c8_okfn c8_call_ok [] ay_closed ay1_globals_ok
              (fun _ => false) default_fuel ay_ms s p ay_ms' ay2_file_ok ay2_blocks_ok E (inh_antichain_nil k7_tree ay2_file (s_scoped s) eq_refl) ay_perm) as (r & r' & I1 & I2 & _ & H).
  exists r, r'. split; [exact I1|]. split; [exact I2|]. rewrite <- Hg. exact H.
Qed.
Example ay3_theorem_applies :
  forall lfuel, match run_lazy k7_tree ay3_file config0 [[]] None ([] : list regex) rx_captures c8_call lfuel ay_ms' [] with
                | Ok _ => False | Err _ | Panic _ | OutOfFuel => True end.
Proof.
  destruct ay3_strict as (e & E & _ & He).
  exact (strict_fail_lazy_fail_any_order_lemma k7_tree ay3_file [[]] [] rx_captures c8_call c8_okfn c8_call_ok [] ay_closed ay1_globals_ok
           default_fuel ay_ms e ay_ms' ay_graph_ext ay3_file_ok E He ay_perm).
Qed.

(* the same through the driver of the correspondence harness (Model/Run.v): one run_in record, strict on ri_smatches, lazy on ri_lmatches *)
Definition ay2_run : run_in :=
  {| ri_lazy := false; ri_file := ay2_file; ri_rxs := []; ri_tbl := []; ri_supplied := [[]]; ri_smatches := ay_ms; ri_lmatches := ay_ms' |}.
Example ay2_run_one :
  drop_polls (run_one k7_tree config0 None (with_lazy ay2_run false) []) = Ok ay2_gs /\
  drop_polls (run_one k7_tree config0 None (with_lazy ay2_run true) []) = Ok ay2_gl.
Proof. split; vm_compute; reflexivity. Qed.
