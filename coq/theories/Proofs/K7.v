(* Proofs/K7.v — witness for known finding K7 (C02): a program without mutable or inherited scoped
   variables and without node rendering on which strict execution succeeds and lazy execution fails.
       (module (expression_statement (identifier) @x) (expression_statement (identifier) @y) (expression_statement (identifier) @z)) @_m
       { node n   let @x.a = @y   let @x.a.b = @z   let @x.a.b.a = 5   attr (n) r = @x.a.b.a }
   on the source "p\nq\nr\n".  The third definition of `a` has a scope expression that reads `b`, whose only
   definition has a scope expression that reads `a`: forcing `a` forces the scopes of ALL definitions of `a`,
   hence `b`, hence `a` again -> RecursivelyDefinedScopedVariable.  Strict execution evaluates each scope
   when the statement runs and succeeds.  The terms below are the harness's rendering of the real AST,
   tree and tree-sitter matches (tsgv replay). *)
From TSG Require Import Model.Run.
Open Scope N_scope.

Definition k7_tree : tree := {| t_src := [112;10;113;10;114;10]; t_nodes := [{| tn_kind := [109;111;100;117;108;101]; tn_named := true; tn_error := false; tn_missing := false; tn_parent := None; tn_children := [1; 3; 5]; tn_start := (0, 0); tn_end := (3, 0); tn_span := (0, 6) |}; {| tn_kind := [101;120;112;114;101;115;115;105;111;110;95;115;116;97;116;101;109;101;110;116]; tn_named := true; tn_error := false; tn_missing := false; tn_parent := (Some 0); tn_children := [2]; tn_start := (0, 0); tn_end := (0, 1); tn_span := (0, 1) |}; {| tn_kind := [105;100;101;110;116;105;102;105;101;114]; tn_named := true; tn_error := false; tn_missing := false; tn_parent := (Some 1); tn_children := []; tn_start := (0, 0); tn_end := (0, 1); tn_span := (0, 1) |}; {| tn_kind := [101;120;112;114;101;115;115;105;111;110;95;115;116;97;116;101;109;101;110;116]; tn_named := true; tn_error := false; tn_missing := false; tn_parent := (Some 0); tn_children := [4]; tn_start := (1, 0); tn_end := (1, 1); tn_span := (2, 3) |}; {| tn_kind := [105;100;101;110;116;105;102;105;101;114]; tn_named := true; tn_error := false; tn_missing := false; tn_parent := (Some 3); tn_children := []; tn_start := (1, 0); tn_end := (1, 1); tn_span := (2, 3) |}; {| tn_kind := [101;120;112;114;101;115;115;105;111;110;95;115;116;97;116;101;109;101;110;116]; tn_named := true; tn_error := false; tn_missing := false; tn_parent := (Some 0); tn_children := [6]; tn_start := (2, 0); tn_end := (2, 1); tn_span := (4, 5) |}; {| tn_kind := [105;100;101;110;116;105;102;105;101;114]; tn_named := true; tn_error := false; tn_missing := false; tn_parent := (Some 5); tn_children := []; tn_start := (2, 0); tn_end := (2, 1); tn_span := (4, 5) |}] |}.
Definition k7_file : file := {| f_globals := []; f_inherited := []; f_shorthands := []; f_stanzas := [{| st_stmts := [(SNode (VarU [110] (2, 7)) [110] (2, 2)); (SLet (VarS (ECapture [120] QOne 0 0 (3, 6)) [97] (3, 9)) (ECapture [121] QOne 1 1 (3, 13)) (3, 2)); (SLet (VarS (EScoped (ECapture [120] QOne 0 0 (4, 6)) [97] (4, 9)) [98] (4, 11)) (ECapture [122] QOne 2 2 (4, 15)) (4, 2)); (SLet (VarS (EScoped (EScoped (ECapture [120] QOne 0 0 (5, 6)) [97] (5, 9)) [98] (5, 11)) [97] (5, 13)) (EInt 5) (5, 2)); (SAttrNode (EUnscoped [110] (6, 8)) [(Attr [114] (EScoped (EScoped (EScoped (ECapture [120] QOne 0 0 (6, 15)) [97] (6, 18)) [98] (6, 20)) [97] (6, 22)))] (6, 2))]; st_full_stanza_idx := 4; st_full_file_idx := 4; st_start := (0, 0) |}] |}.
Definition k7_smatches : list (list qmatch) := [[[(3, [0]); (4, [0]); (0, [2]); (1, [4]); (2, [6])]]].
Definition k7_lmatches : list (N * qmatch) := [(0, [(3, [0]); (4, [0]); (0, [2]); (1, [4]); (2, [6])])].

Lemma k7_strict_ok :
  graph_of (run_strict k7_tree k7_file config0 [[]] None [] rx_captures (the_call k7_tree []) default_fuel k7_smatches [])
  = Ok [{| g_attrs := [([114], VInt 5)]; g_edges := [] |}].
Proof. vm_compute. reflexivity. Qed.

Lemma k7_lazy_fails :
  exists e, run_lazy k7_tree k7_file config0 [[]] None [] rx_captures (the_call k7_tree []) default_fuel k7_lmatches [] = Err e /\
            root_cause e = ERecursivelyDefinedScopedVariable.
Proof. eexists. split; [vm_compute; reflexivity|reflexivity]. Qed.

(* the program is in the property's order-insensitive class as far as its listed conditions go *)
Lemma k7_no_inherit_no_mutable_scoped : f_inherited k7_file = [] /\ f_shorthands k7_file = [].
Proof. split; reflexivity. Qed.
