(* Proofs/IdxStrict.v — capture-index bridge, strict side (audit finding G1).
   The strict interpreter reads a match only through `nodes_for_capture m stanza_idx` (capture expressions) and
   `nodes_for_capture m (st_full_stanza_idx st)` (full-match node).  Hence running the ORIGINAL file on a stanza-indexed
   match ms is the same computation — pointwise equal on every state and poll state: same outcome, same graph, same store,
   same polls — as running the NORMALIZED file (Model/IdxBridge.v) on any match ml that selects, through the FILE index,
   the same nodes for every capture the stanza can read. *)
From TSG Require Import Model.Strict Model.IdxBridge Proofs.BaseFacts Proofs.IdxMeq.

Definition cap_agree (ms ml : qmatch) (c : N * N) : Prop := nodes_for_capture ms (snd c) = nodes_for_capture ml (fst c).
Definition agree_on (ms ml : qmatch) (cs : list (N * N)) : Prop := forall c, In c cs -> cap_agree ms ml c.
(* the relation between a recorded strict match and a recorded merged-query match of the same stanza *)
Definition match_agree (fl : file) (st : stanza) (ms ml : qmatch) : Prop := agree_on ms ml (stanza_caps fl st).

Lemma agree_on_app_l ms ml a b : agree_on ms ml (a ++ b) -> agree_on ms ml a.
Proof. intros H c Hc. apply H. apply in_or_app. left. exact Hc. Qed.
Lemma agree_on_app_r ms ml a b : agree_on ms ml (a ++ b) -> agree_on ms ml b.
Proof. intros H c Hc. apply H. apply in_or_app. right. exact Hc. Qed.
Lemma agree_on_flat {A} ms ml (f : A -> list (N * N)) l x : agree_on ms ml (flat_map f l) -> In x l -> agree_on ms ml (f x).
Proof. intros H Hx c Hc. apply H. eapply in_flat_map_intro; eauto. Qed.

Definition reenv (ml : qmatch) (full : N) (le : lenv) : lenv :=
  {| le_match := ml; le_full := full; le_caps := le_caps le; le_ctx := le_ctx le |}.

Ltac mrefl := apply meq_refl.
Ltac mb := apply meq_bind; [try mrefl|intros ?; try mrefl].
Ltac mb2 := apply meq_bind; [|intros ?].

Section StrictReindex.
  Context {rx : Type}.
  Variables (t : tree) (fl : file) (cfg : config) (glob : globals) (regexes : list rx)
            (find : rx -> str -> option (list (option (N * N))))
            (call : ident -> graph -> list value -> res (value * graph)).
  Variables (ml : qmatch) (full : N).
  Notation fl' := (normalize_file fl).
  Notation re := (reenv ml full).

  Lemma eval_reindex fuel : forall le e, agree_on (le_match le) ml (expr_caps e) ->
    meq (eval t fl glob call fuel le e) (eval t fl' glob call fuel (re le) (norm_expr e)).
  Proof.
    induction fuel as [|fuel IH]; intros le e H; [mrefl|].
    destruct e; cbn [eval norm_expr]; cbn [expr_caps] in H; try mrefl.
    - mb. apply meq_mapM. intros x Hx. apply IH. eapply agree_on_flat; eauto.
    - mb. apply meq_mapM. intros x Hx. apply IH. eapply agree_on_flat; eauto.
    - mb; [apply IH; eapply agree_on_app_r; eauto|]. mb. mb. mb.
      apply meq_mapM_same. intros v _. mb. mb. apply IH. eapply agree_on_app_l; eauto.
    - mb; [apply IH; eapply agree_on_app_r; eauto|]. mb. mb. mb.
      apply meq_mapM_same. intros v _. mb. mb. apply IH. eapply agree_on_app_l; eauto.
    - intros s p. cbn [reenv le_match]. pose proof (H _ (or_introl eq_refl)) as A. unfold cap_agree in A. cbn [fst snd] in A. rewrite A. reflexivity.
    - mb. apply IH; exact H.
    - rewrite map_length. mb. apply meq_iterM. intros x Hx. mb. apply IH. eapply agree_on_flat; eauto.
  Qed.

  Lemma var_add_reindex fuel le v x mu : agree_on (le_match le) ml (var_caps v) ->
    meq (var_add t fl glob call fuel le v x mu) (var_add t fl' glob call fuel (re le) (norm_var v) x mu).
  Proof. intros H. destruct v; cbn [var_add norm_var]; [mrefl|]. mb. apply eval_reindex. exact H. Qed.
  Lemma var_set_reindex fuel le v x : agree_on (le_match le) ml (var_caps v) ->
    meq (var_set t fl glob call fuel le v x) (var_set t fl' glob call fuel (re le) (norm_var v) x).
  Proof. intros H. destruct v; cbn [var_set norm_var]; [mrefl|]. mb. apply eval_reindex. exact H. Qed.
  Lemma test_cond_reindex fuel le c : agree_on (le_match le) ml (cond_caps c) ->
    meq (test_cond t fl glob call fuel le c) (test_cond t fl' glob call fuel (re le) (norm_cond c)).
  Proof. intros H. destruct c; cbn [test_cond norm_cond]; mb; apply eval_reindex; exact H. Qed.

  Lemma exec_attr_reindex fuel : forall le tgt a, agree_on (le_match le) ml (attr_caps a) -> agree_on (le_match le) ml (shorthand_caps fl) ->
    meq (exec_attr t fl glob call fuel le tgt a) (exec_attr t fl' glob call fuel (re le) tgt (norm_attr a)).
  Proof.
    induction fuel as [|fuel IH]; intros le tgt [name value] H Hsh; [mrefl|]. cbn [exec_attr norm_attr]. mb. mb; [apply eval_reindex; exact H|].
    change (f_shorthands fl') with (map norm_shorthand (f_shorthands fl)). rewrite find_shorthand_norm.
    destruct (find_shorthand name (f_shorthands fl)) as [sh|] eqn:E; cbn [option_map]; [|mrefl].
    mb. cbn [norm_shorthand sh_var sh_attrs]. mb. mb. mb. apply meq_iterM. intros a' Ha'. apply IH; [|exact Hsh].
    intros c Hc. apply Hsh. unfold shorthand_caps. eapply in_flat_map_intro; [eapply find_shorthand_In'; exact E|]. eapply in_flat_map_intro; eauto.
  Qed.

  Lemma scan_loop_reindex (ra ra' : list str -> list stmt -> M sstate unit) arms rs subject :
    (forall k arm caps, nth_error arms k = Some arm -> meq (ra caps (snd (fst arm))) (ra' caps (map norm_stmt (snd (fst arm))))) ->
    forall sfuel i, meq (scan_loop find ra arms rs subject sfuel i) (scan_loop find ra' (map norm_arm arms) rs subject sfuel i).
  Proof.
    intros H. induction sfuel as [|sfuel IH]; intros i; [mrefl|]. cbn [scan_loop].
    destruct (N.ltb i (N.of_nat (length subject))); [|mrefl]. mb.
    destruct (arm_select find rs (skipn (N.to_nat i) subject)) as [|k|k caps]; try mrefl.
    rewrite nth_error_norm_arms. destruct (nth_error arms (N.to_nat k)) as [[[r body] l]|] eqn:E; cbn [option_map norm_arm fst snd]; [|mrefl].
    mb. mb; [exact (H _ _ (cap_texts (skipn (N.to_nat i) subject) caps) E)|]. mb. apply IH.
  Qed.
  Lemma if_loop_reindex (test test' : cond -> M sstate bool) (rb rb' : list stmt -> M sstate unit) arms :
    (forall arm c, In arm arms -> In c (fst (fst arm)) -> meq (test c) (test' (norm_cond c))) ->
    (forall arm, In arm arms -> meq (rb (snd (fst arm))) (rb' (map norm_stmt (snd (fst arm))))) ->
    meq (if_loop test rb arms) (if_loop test' rb' (map norm_ifarm arms)).
  Proof.
    induction arms as [|[[conds body] l] arms IH]; intros Ht Hb; cbn [if_loop map norm_ifarm fst snd]; [mrefl|].
    mb; [apply meq_mapM; intros c Hc; apply (Ht _ c (or_introl eq_refl)); exact Hc|].
    match goal with |- context [forallb ?f ?l] => destruct (forallb f l) end.
    - mb. mb. apply (Hb _ (or_introl eq_refl)).
    - apply IH; [intros arm c Ha; apply Ht; right; exact Ha|intros arm Ha; apply Hb; right; exact Ha].
  Qed.

  (* nested blocks: `ex` is the statement interpreter one fuel below *)
  Lemma block_reindex (ex ex' : lenv -> stmt -> M sstate unit) (wrap : M sstate unit -> M sstate unit) le' body :
    (forall m m', meq m m' -> meq (wrap m) (wrap m')) ->
    (forall c st, In st body -> meq (ex (le_with_ctx le' c) st) (ex' (re (le_with_ctx le' c)) (norm_stmt st))) ->
    meq (iterM (fun st => let c := ctx_update (le_ctx le') st in ctx_wrap (CtxStmts [c]) (wrap (ex (le_with_ctx le' c) st))) body)
        (iterM (fun st => let c := ctx_update (le_ctx (re le')) st in ctx_wrap (CtxStmts [c]) (wrap (ex' (le_with_ctx (re le') c) st))) (map norm_stmt body)).
  Proof.
    intros Hw H. apply meq_iterM. intros st Hst. cbv zeta. unfold ctx_update. rewrite stmt_loc_norm. cbn [reenv le_ctx].
    apply meq_ctx_wrap. apply Hw. apply (H _ st Hst).
  Qed.

  Lemma full_match_node_reindex le : cap_agree (le_match le) ml (full, le_full le) -> meq (full_match_node le) (full_match_node (re le)).
  Proof. intros H s p. unfold full_match_node. cbn [reenv le_match le_full]. unfold cap_agree in H. cbn [fst snd] in H. rewrite H. reflexivity. Qed.

  Lemma exec_stmt_reindex fuel : forall le s,
    cap_agree (le_match le) ml (full, le_full le) ->
    agree_on (le_match le) ml (stmt_caps s) -> agree_on (le_match le) ml (shorthand_caps fl) ->
    meq (exec_stmt t fl cfg glob regexes find call fuel le s) (exec_stmt t fl' cfg glob regexes find call fuel (re le) (norm_stmt s)).
  Proof.
    induction fuel as [|fuel IH]; intros le s Hf H Hsh; [mrefl|].
    assert (Hblock : forall le' (wrap : M sstate unit -> M sstate unit) body, le_match le' = le_match le -> le_full le' = le_full le ->
              (forall m m', meq m m' -> meq (wrap m) (wrap m')) -> agree_on (le_match le) ml (flat_map stmt_caps body) ->
              meq (iterM (fun st => let c := ctx_update (le_ctx le') st in
                                    ctx_wrap (CtxStmts [c]) (wrap (exec_stmt t fl cfg glob regexes find call fuel (le_with_ctx le' c) st))) body)
                  (iterM (fun st => let c := ctx_update (le_ctx (re le')) st in
                                    ctx_wrap (CtxStmts [c]) (wrap (exec_stmt t fl' cfg glob regexes find call fuel (le_with_ctx (re le') c) st))) (map norm_stmt body))).
    { intros le' wrap body E1 E2 Hw Hb. apply block_reindex; [exact Hw|]. intros c st Hst. apply IH; cbn [le_with_ctx le_match le_full]; rewrite ?E1, ?E2; auto.
      eapply agree_on_flat; eauto. }
    destruct s; cbn [exec_stmt norm_stmt]; cbn [stmt_caps] in H; mb.
    - mb; [apply eval_reindex; eapply agree_on_app_r; eauto|]. apply var_add_reindex. eapply agree_on_app_l; eauto.
    - mb; [apply eval_reindex; eapply agree_on_app_r; eauto|]. apply var_add_reindex. eapply agree_on_app_l; eauto.
    - mb; [apply eval_reindex; eapply agree_on_app_r; eauto|]. apply var_set_reindex. eapply agree_on_app_l; eauto.
    - mb. rewrite variable_loc_norm. mb. mb. apply meq_bind; [|intros ?; apply var_add_reindex; exact H].
      destruct (c_match_attr cfg); [|mrefl]. mb. apply full_match_node_reindex. exact Hf.
    - mb; [apply eval_reindex; eapply agree_on_app_l; eauto|]. mb. apply meq_iterM. intros a' Ha'. apply exec_attr_reindex; [|exact Hsh].
      eapply agree_on_flat; [eapply agree_on_app_r; eauto|exact Ha'].
    - mb2; [mb; apply eval_reindex; eapply agree_on_app_l; eauto|]. mb2; [mb; apply eval_reindex; eapply agree_on_app_r; eauto|]. mrefl.
    - mb2; [mb; apply eval_reindex; eapply agree_on_app_l; eauto|].
      mb2; [mb; apply eval_reindex; eapply agree_on_app_l; eapply agree_on_app_r; eauto|].
      apply meq_iterM. intros a' Ha'. apply exec_attr_reindex; [|exact Hsh].
      eapply agree_on_flat; [eapply agree_on_app_r; eapply agree_on_app_r; eauto|exact Ha'].
    - mb; [apply eval_reindex; eapply agree_on_app_l; eauto|]. mb.
      match goal with |- context [arm_table regexes (map ?f arms)] => change (map f arms) with (map norm_arm arms) end.
      rewrite arm_table_norm. destruct (arm_table regexes arms) as [rs|]; [|mrefl].
      apply scan_loop_reindex. intros k arm caps E.
      apply (Hblock (le_with_caps le caps) (ctx_wrap CtxOther) (snd (fst arm))); try reflexivity; [intros m m' Hm; apply meq_ctx_wrap; exact Hm|].
      apply (agree_on_flat _ _ (fun arm : N * list stmt * loc => flat_map stmt_caps (snd (fst arm))) arms arm); [eapply agree_on_app_r; eauto|eapply nth_error_In; eauto].
    - apply meq_iterM. intros e He. pose proof (agree_on_flat _ _ _ _ _ H He) as A.
      destruct e; try mrefl; (mb); apply (eval_reindex fuel le _ A).
    - match goal with |- context [if_loop _ _ (map ?f arms)] => change (map f arms) with (map norm_ifarm arms) end.
      apply if_loop_reindex.
      + intros arm c Ha Hc. apply test_cond_reindex.
        pose proof (agree_on_flat _ _ (fun arm : list cond * list stmt * loc => flat_map cond_caps (fst (fst arm)) ++ flat_map stmt_caps (snd (fst arm))) _ _ H Ha) as A.
        cbv beta in A. eapply agree_on_flat; [eapply agree_on_app_l; exact A|exact Hc].
      + intros arm Ha. apply (Hblock le (fun m => m) (snd (fst arm))); try reflexivity; [intros m m' Hm; exact Hm|].
        pose proof (agree_on_flat _ _ (fun arm : list cond * list stmt * loc => flat_map cond_caps (fst (fst arm)) ++ flat_map stmt_caps (snd (fst arm))) _ _ H Ha) as A.
        cbv beta in A. eapply agree_on_app_r; exact A.
    - mb; [apply eval_reindex; eapply agree_on_app_l; eauto|]. mb. mb. mb. apply meq_iterM_same. intros v _. mb. mb.
      apply (Hblock le (fun m => m) body); try reflexivity; [intros m m' Hm; exact Hm|]. eapply agree_on_app_r; eauto.
  Qed.
End StrictReindex.

Section StrictRun.
  Context {rx : Type}.
  Variables (t : tree) (fl : file) (cfg : config) (glob : globals) (regexes : list rx)
            (find : rx -> str -> option (list (option (N * N))))
            (call : ident -> graph -> list value -> res (value * graph)).
  Notation fl' := (normalize_file fl).

  Lemma exec_stanza_reindex fuel st ms ml : match_agree fl st ms ml ->
    meq (exec_stanza t fl cfg glob regexes find call fuel st ms) (exec_stanza t fl' cfg glob regexes find call fuel (norm_stanza st) ml).
  Proof.
    intros H. unfold exec_stanza. mb. cbn [norm_stanza st_stmts st_full_stanza_idx st_start]. apply meq_iterM. intros s Hs.
    assert (Hfull : cap_agree ms ml (st_full_file_idx st, st_full_stanza_idx st)) by (apply H; left; reflexivity).
    pose proof Hfull as Hn. unfold cap_agree in Hn. cbn [fst snd] in Hn. rewrite <- Hn.
    destruct (nodes_for_capture ms (st_full_stanza_idx st)) as [|n rest]; [mrefl|]. rewrite stmt_loc_norm. apply meq_ctx_wrap.
    apply (exec_stmt_reindex t fl cfg glob regexes find call ml (st_full_file_idx st) fuel
             (le_with_ctx {| le_match := ms; le_full := st_full_stanza_idx st; le_caps := [];
                             le_ctx := {| sc_stmt := (0, 0); sc_stanza := st_start st; sc_node := 0 |} |}
                          {| sc_stmt := stmt_loc s; sc_stanza := st_start st; sc_node := n |}) s).
    - exact Hfull.
    - intros c Hc. apply H. right. apply in_or_app. left. eapply in_flat_map_intro; eauto.
    - intros c Hc. apply H. right. apply in_or_app. right. exact Hc.
  Qed.

  Lemma meq_iterM2 {S A B} (R : A -> B -> Prop) (f : A -> M S unit) (g : B -> M S unit) l l' :
    Forall2 R l l' -> (forall x y, R x y -> meq (f x) (g y)) -> meq (iterM f l) (iterM g l').
  Proof. intros H Hf. induction H as [|x y l l' Hxy _ IH]; cbn [iterM]; [mrefl|]. mb; [apply Hf; exact Hxy|exact IH]. Qed.

  (* per stanza: the recorded strict matches and file-indexed matches, pairwise in agreement *)
  Fixpoint idx_rel (sts : list stanza) (sms sms' : list (list qmatch)) : Prop :=
    match sts, sms, sms' with
    | st :: sts', m :: ms, m' :: ms' => Forall2 (match_agree fl st) m m' /\ idx_rel sts' ms ms'
    | [], _, _ => True
    | _ :: _, [], [] => True
    | _, _, _ => False
    end.

  Lemma exec_file_reindex fuel : forall sts sms sms', idx_rel sts sms sms' ->
    meq (exec_file t fl cfg glob regexes find call fuel sts sms) (exec_file t fl' cfg glob regexes find call fuel (map norm_stanza sts) sms').
  Proof.
    induction sts as [|st sts IH]; intros sms sms' H; [destruct sms'; mrefl|].
    destruct sms as [|m ms], sms' as [|m' ms']; cbn [idx_rel] in H; try contradiction; cbn [map exec_file]; [mrefl|].
    destruct H as [H1 H2]. mb; [|apply IH; exact H2]. eapply meq_iterM2; [exact H1|]. intros x y Hxy. apply exec_stanza_reindex. exact Hxy.
  Qed.
End StrictRun.

(* STRICT REINDEXING, whole run: same outcome, same final state (graph, scoped store), same polls *)
Theorem run_strict_reindex {rx : Type} t fl cfg supplied budget (regexes : list rx) find call fuel sms sms' g0 :
  idx_rel fl (f_stanzas fl) sms sms' ->
  run_strict t fl cfg supplied budget regexes find call fuel sms g0 =
  run_strict t (normalize_file fl) cfg supplied budget regexes find call fuel sms' g0.
Proof.
  intros H. unfold run_strict. change (f_globals (normalize_file fl)) with (f_globals fl).
  destruct (check_globals (f_globals fl) (globals_nested supplied)) as [glob|e|x|]; try reflexivity.
  change (f_stanzas (normalize_file fl)) with (map norm_stanza (f_stanzas fl)).
  rewrite (exec_file_reindex t fl cfg glob regexes find call fuel (f_stanzas fl) sms sms' H). reflexivity.
Qed.
