(* Proofs/CheckerRules.v — the checker model against the declarative rules of Spec/Rules.v:
   every Ok of the model is a well-formedness derivation, every Err is a first-violation derivation
   (check_sound); well-formedness and violation exclude each other (check_complete). *)
From TSG Require Import Model.Checker Spec.Rules Proofs.BaseFacts Proofs.OrderFacts Proofs.Checker.
From Coq Require Import Sorted Permutation.

(* ------------------------------------------------------------------ errors and rules *)
Definition rule_of (e : check_error) : rule :=
  match e with
  | CkHideGlobal _ _ => RHideGlobal | CkSetGlobal _ _ => RAssignGlobal | CkDupGlobal _ _ => RDuplicateGlobal
  | CkExpectedList _ => RNotList | CkExpectedLocal _ => RNonLocalSource | CkExpectedOptional _ => RNotOptional
  | CkNullableRegex _ _ => RNullableRegex | CkUndefinedCapture _ _ => RUndefinedCapture
  | CkUndefinedVariable _ _ => RUndefinedVariable | CkUnusedCaptures _ _ => RUnusedCapture
  | CkVariable VarAlreadyDefined _ _ => RRedefinition | CkVariable VarUndefined _ _ => RAssignUndefined
  | CkVariable VarImmutable _ _ => RAssignImmutable
  end.
Lemma rule_of_code e : rule_code (rule_of e) = ce_variant e.
Proof. destruct e as [| | | | | | | | | |[| |]]; reflexivity. Qed.

(* ------------------------------------------------------------------ environments and scopes *)
Definition binding_of (b : vres * bool) : binding :=
  {| b_mutable := snd b; b_shape := vr_quant (fst b); b_local := vr_local (fst b) |}.
Definition frame_of (fr : vframe vres) : frame := map (fun kb => (fst kb, binding_of (snd kb))) fr.
Definition scope_of (env : cenv) : scope := map frame_of env.

Lemma frame_of_get fr x : alist_get x (frame_of fr) = option_map binding_of (alist_get x fr).
Proof.
  induction fr as [|[k b] fr IH]; cbn [frame_of map alist_get fst snd option_map]; [reflexivity|].
  destruct (str_eqb x k); [reflexivity|exact IH].
Qed.
Lemma scope_of_lookup env x : lookup x (scope_of env) = option_map binding_of (env_find env x).
Proof.
  induction env as [|fr env IH]; cbn [scope_of map lookup env_find]; [reflexivity|].
  rewrite frame_of_get. destruct (alist_get x fr); [reflexivity|exact IH].
Qed.
Lemma scope_of_get env x : option_map (fun b : binding => (b_shape b, b_local b)) (lookup x (scope_of env)) =
                           option_map (fun v => (vr_quant v, vr_local v)) (varmap_get env x).
Proof. rewrite scope_of_lookup, varmap_get_find. destruct (env_find env x) as [[v m]|]; reflexivity. Qed.
Lemma frame_of_app a b : frame_of (a ++ b) = frame_of a ++ frame_of b.
Proof. apply map_app. Qed.
Lemma frame_of_set fr x b : frame_of (alist_set x b fr) = alist_set x (binding_of b) (frame_of fr).
Proof.
  induction fr as [|[k b0] fr IH]; cbn [frame_of map alist_set fst snd]; [reflexivity|].
  destruct (str_eqb x k); cbn [map fst snd]; [reflexivity|]. f_equal. exact IH.
Qed.
Lemma scope_of_pop env : scope_of (varmap_pop env) = leave (scope_of env).
Proof. destruct env; reflexivity. Qed.

Lemma is_list_q_shape q : is_list_q q = is_list_shape q. Proof. reflexivity. Qed.
Lemma is_opt_q_shape q : is_opt_q q = is_optional_shape q. Proof. reflexivity. Qed.

(* the checker context of a stanza against what the rules see of it *)
Record ctx_rel (cx : cctx) (E : senv) : Prop := {
  cr_global : forall x, se_global E x = option_map vr_quant (varmap_get (cx_globals cx) x);
  cr_global_local : forall x v, varmap_get (cx_globals cx) x = Some v -> vr_local v = true;
  cr_cap_none : forall n, name_index n (cx_stanza_names cx) = None -> se_capture E n = None;
  cr_cap_some : forall n l e r, check_capture cx n l = Ok (e, r) -> se_capture E n = Some (er_quant r) /\ er_local r = true;
  cr_nullable : forall rx, se_nullable E rx = nullable_rx cx rx;
}.

Section Forward.
  Variable cx : cctx.
  Variable E : senv.
  Hypothesis HR : ctx_rel cx E.

  Lemma global_none x : varmap_get (cx_globals cx) x = None -> se_global E x = None.
  Proof. intros H. rewrite (cr_global _ _ HR), H. reflexivity. Qed.
  Lemma global_some x v : varmap_get (cx_globals cx) x = Some v -> se_global E x = Some (vr_quant v).
  Proof. intros H. rewrite (cr_global _ _ HR), H. reflexivity. Qed.

  (* ---------------- expressions ---------------- *)
  Definition expr_spec (sc : scope) (e : expr) (res : ck (expr * eres)) : Prop :=
    match res with
    | Ok (_, r) => ty E sc e (er_quant r) (er_local r)
    | Err ce => viol_e E sc e (rule_of ce) (ce_loc ce)
    | _ => True
    end.
  Definition exprs_spec (sc : scope) (es : list expr) (res : ck (list (expr * eres))) : Prop :=
    match res with
    | Ok rs => tys E sc es (map (fun r => er_local (snd r)) rs)
    | Err ce => viol_es E sc es (rule_of ce) (ce_loc ce)
    | _ => True
    end.

  Lemma all_local_true rs : all_local rs = all_true (map (fun r : expr * eres => er_local (snd r)) rs).
  Proof. unfold all_local, all_true. induction rs as [|r rs IH]; cbn [forallb map]; [reflexivity|]. rewrite IH. reflexivity. Qed.

  Lemma elems_spec env es :
    Forall (fun e => forall env, expr_spec (scope_of env) e (check_expr cx env e)) es ->
    exprs_spec (scope_of env) es (mapM (check_expr cx env) es).
  Proof.
    induction 1 as [|e es He Hes IH]; cbn [mapM exprs_spec map]; [constructor|].
    specialize (He env). destruct (check_expr cx env e) as [[e' r]|ce| |]; cbn [obind expr_spec exprs_spec] in *; auto.
    - destruct (mapM (check_expr cx env) es) as [rs|ce| |]; cbn [obind exprs_spec map snd] in *; auto.
      + econstructor; eassumption.
      + eapply VEs_later; eassumption.
    - apply VEs_here. assumption.
  Qed.

  Lemma check_elems_spec env mk q es e :
    elems_of e = Some (es, q) ->
    Forall (fun e => forall env, expr_spec (scope_of env) e (check_expr cx env e)) es ->
    expr_spec (scope_of env) e (check_elems cx env mk q es).
  Proof.
    intros He HF. unfold check_elems. pose proof (elems_spec env es HF) as Hs.
    destruct (mapM (check_expr cx env) es) as [rs|ce| |]; cbn [obind exprs_spec expr_spec er_quant er_local] in *; auto.
    - rewrite all_local_true. eapply T_Elems; eassumption.
    - eapply VE_Elems; eassumption.
  Qed.

  Lemma add_nested env x xl v :
    unscoped_check_add cx (varmap_nested env) x xl v false =
    match varmap_get (cx_globals cx) x with
    | Some _ => Err (CkHideGlobal x xl)
    | None => Ok ([(x, (v, false))] :: env)
    end.
  Proof. unfold unscoped_check_add. destruct (varmap_get (cx_globals cx) x); reflexivity. Qed.

  Lemma check_comp_spec env mk el x xl v l e :
    comp_parts e = Some (el, x, xl, v, l) ->
    (forall env, expr_spec (scope_of env) el (check_expr cx env el)) ->
    (forall env, expr_spec (scope_of env) v (check_expr cx env v)) ->
    expr_spec (scope_of env) e (check_comp cx env mk el x xl v l).
  Proof.
    intros Hp Hel Hv. unfold check_comp. specialize (Hv env).
    destruct (check_expr cx env v) as [[v' vr]|ce| |]; cbn [obind expr_spec] in *; auto.
    - destruct (er_local vr) eqn:Elv; cbn [negb].
      2:{ cbn [expr_spec rule_of ce_loc]. eapply VE_CompNonLocal; eassumption. }
      destruct (is_list_q (er_quant vr)) eqn:Elq; cbn [negb].
      2:{ cbn [expr_spec rule_of ce_loc]. eapply VE_CompNotList; eassumption. }
      rewrite add_nested. destruct (varmap_get (cx_globals cx) x) as [g|] eqn:Eg; cbn [obind].
      { cbn [expr_spec rule_of ce_loc]. eapply VE_CompHide; try eassumption. eapply global_some; eassumption. }
      specialize (Hel ([(x, (vres_of vr, false))] :: env)).
      assert (Esc : scope_of ([(x, (vres_of vr, false))] :: env) = [(x, immutable (er_quant vr) true)] :: scope_of env).
      { cbn [scope_of map frame_of fst snd]. unfold binding_of, immutable, vres_of. cbn [fst snd vr_quant vr_local]. rewrite Elv. reflexivity. }
      rewrite Esc in Hel.
      destruct (check_expr cx ([(x, (vres_of vr, false))] :: env) el) as [[el' er]|ce| |]; cbn [obind expr_spec er_quant er_local] in *; auto.
      + eapply T_Comp; try eassumption. apply global_none; assumption.
      + eapply VE_CompElem; try eassumption. apply global_none; assumption.
    - eapply VE_CompSource; eassumption.
  Qed.

  Lemma check_expr_spec e : forall env, expr_spec (scope_of env) e (check_expr cx env e).
  Proof.
    induction e using expr_ind'; intros env;
      try (cbn [check_expr expr_spec eres_lit er_quant er_local]; apply T_Literal; reflexivity).
    - rewrite check_expr_list. apply check_elems_spec; [reflexivity|assumption].
    - rewrite check_expr_set. apply check_elems_spec; [reflexivity|assumption].
    - rewrite check_expr_listcomp. apply check_comp_spec; [reflexivity|assumption|assumption].
    - rewrite check_expr_setcomp. apply check_comp_spec; [reflexivity|assumption|assumption].
    - cbn [check_expr]. destruct (check_capture cx n l) as [[e' r]|ce| |] eqn:Ec; cbn [expr_spec]; auto.
      + destruct (cr_cap_some _ _ HR _ _ _ _ Ec) as [H1 H2]. rewrite H2. apply T_Capture. assumption.
      + unfold check_capture in Ec. destruct (name_index n (cx_stanza_names cx)) eqn:En.
        * destruct (name_index n (cx_file_names cx)); [|discriminate]. destruct (cx_file_quants cx) as [row|]; [|discriminate].
          destruct (nth_error row (N.to_nat n1)); discriminate.
        * inversion Ec; subst. cbn [rule_of ce_loc]. apply VE_UndefinedCapture. eapply cr_cap_none; eassumption.
    - cbn [check_expr]. unfold unscoped_check_get.
      destruct (varmap_get (cx_globals cx) x) as [g|] eqn:Eg; cbn [obind expr_spec eres_of er_quant er_local].
      + rewrite (cr_global_local _ _ HR _ _ Eg). apply T_Global. eapply global_some; eassumption.
      + pose proof (scope_of_get env x) as Hg. destruct (varmap_get env x) as [v|] eqn:Ev; cbn [obind expr_spec eres_of er_quant er_local].
        * destruct (lookup x (scope_of env)) as [b|] eqn:El; cbn [option_map] in Hg; [|discriminate]. inversion Hg; subst.
          apply T_Local; [apply global_none; assumption|assumption].
        * cbn [rule_of ce_loc]. destruct (lookup x (scope_of env)) as [b|] eqn:El; cbn [option_map] in Hg; [discriminate|].
          apply VE_UndefinedVariable; [apply global_none; assumption|assumption].
    - rewrite check_expr_scoped. specialize (IHe env).
      destruct (check_expr cx env e) as [[s' sr]|ce| |]; cbn [obind expr_spec er_quant er_local] in *; auto.
      + eapply T_Scoped; eassumption.
      + apply VE_Scope. assumption.
    - rewrite check_expr_call. apply check_elems_spec; [reflexivity|assumption].
  Qed.

  Lemma check_expr_ok env e e' r : check_expr cx env e = Ok (e', r) -> ty E (scope_of env) e (er_quant r) (er_local r).
  Proof. intros H. pose proof (check_expr_spec e env) as Hs. rewrite H in Hs. exact Hs. Qed.
  Lemma check_expr_wf env e e' r : check_expr cx env e = Ok (e', r) -> wf_expr E (scope_of env) e.
  Proof. intros H. eexists _, _. eapply check_expr_ok; eassumption. Qed.
  Lemma check_expr_err env e ce : check_expr cx env e = Err ce -> viol_e E (scope_of env) e (rule_of ce) (ce_loc ce).
  Proof. intros H. pose proof (check_expr_spec e env) as Hs. rewrite H in Hs. exact Hs. Qed.

  (* ---------------- lists of independent items ---------------- *)
  Lemma mapM_first_viol {A B} (f : A -> ck B) (wf : A -> Prop) (viol : A -> rule -> loc -> Prop) l :
    (forall x, match f x with Ok _ => wf x | Err ce => viol x (rule_of ce) (ce_loc ce) | _ => True end) ->
    match mapM f l with Ok _ => Forall wf l | Err ce => first_viol wf viol l (rule_of ce) (ce_loc ce) | _ => True end.
  Proof.
    intros Hf. induction l as [|x l IH]; cbn [mapM]; [constructor|].
    specialize (Hf x). destruct (f x) as [y|ce| |]; cbn [obind]; try exact I.
    - destruct (mapM f l) as [ys|ce| |]; cbn [obind] in *; try exact I.
      + constructor; assumption.
      + apply FV_later; assumption.
    - apply FV_here. assumption.
  Qed.

  Lemma exprs_first_viol env es :
    match mapM (check_expr cx env) es with
    | Ok _ => Forall (wf_expr E (scope_of env)) es
    | Err ce => first_viol (wf_expr E (scope_of env)) (viol_e E (scope_of env)) es (rule_of ce) (ce_loc ce)
    | _ => True end.
  Proof.
    apply mapM_first_viol. intros e. pose proof (check_expr_spec e env) as Hs.
    destruct (check_expr cx env e) as [[e' r]|ce| |]; cbn [expr_spec] in Hs; auto. eexists _, _. eassumption.
  Qed.
  Lemma attrs_first_viol env attrs :
    match mapM (check_attr cx env) attrs with
    | Ok _ => Forall (wf_attr E (scope_of env)) attrs
    | Err ce => first_viol (wf_attr E (scope_of env)) (viol_attr E (scope_of env)) attrs (rule_of ce) (ce_loc ce)
    | _ => True end.
  Proof.
    apply mapM_first_viol. intros [n v]. cbn [check_attr]. pose proof (check_expr_spec v env) as Hs.
    destruct (check_expr cx env v) as [[e' r]|ce| |]; cbn [expr_spec obind] in *; auto.
    unfold wf_attr, wf_expr. cbn [attr_value]. eexists _, _. eassumption.
  Qed.

  Lemma check_cond_spec env c :
    match check_cond cx env c with
    | Ok _ => wf_cond E (scope_of env) c
    | Err ce => viol_cond E (scope_of env) c (rule_of ce) (ce_loc ce)
    | _ => True end.
  Proof.
    destruct c as [e l|e l|e l]; cbn [check_cond]; pose proof (check_expr_spec e env) as Hs;
      destruct (check_expr cx env e) as [[e' r]|ce| |]; cbn [expr_spec obind] in *; auto;
      try (eapply VC_Value; [reflexivity|assumption]);
      (destruct (er_local r) eqn:El; cbn [negb]; [|cbn [rule_of ce_loc]; eapply VC_NonLocal; [reflexivity|eassumption]]).
    - destruct (is_opt_q (er_quant r)) eqn:Eo; cbn [negb].
      + unfold wf_cond. cbn [cond_parts]. eexists. split; [eassumption|]. intros _. exact Eo.
      + cbn [rule_of ce_loc]. eapply VC_NotOptional; [reflexivity|eassumption|exact Eo].
    - destruct (is_opt_q (er_quant r)) eqn:Eo; cbn [negb].
      + unfold wf_cond. cbn [cond_parts]. eexists. split; [eassumption|]. intros _. exact Eo.
      + cbn [rule_of ce_loc]. eapply VC_NotOptional; [reflexivity|eassumption|exact Eo].
    - unfold wf_cond. cbn [cond_parts]. eexists. split; [eassumption|]. discriminate.
  Qed.
  Lemma conds_first_viol env conds :
    match mapM (check_cond cx env) conds with
    | Ok _ => Forall (wf_cond E (scope_of env)) conds
    | Err ce => first_viol (wf_cond E (scope_of env)) (viol_cond E (scope_of env)) conds (rule_of ce) (ce_loc ce)
    | _ => True end.
  Proof. apply mapM_first_viol. intros c. apply check_cond_spec. Qed.

  (* ---------------- declaration and assignment targets ---------------- *)
  Lemma unscoped_add_spec env x l v m : env <> [] ->
    match unscoped_check_add cx env x l v m with
    | Ok env' =>
        se_global E x = None /\ declared_here x (scope_of env) = false /\ length env' = length env /\
        scope_of env' = declare x {| b_mutable := m; b_shape := vr_quant v; b_local := if m then false else vr_local v |} (scope_of env)
    | Err ce => viol_declare E (scope_of env) (VarU x l) (rule_of ce) (ce_loc ce)
    | _ => True end.
  Proof.
    intros Hne. unfold unscoped_check_add. destruct (varmap_get (cx_globals cx) x) as [g|] eqn:Eg.
    { cbn [rule_of ce_loc]. eapply VD_Hide. eapply global_some; eassumption. }
    destruct env as [|fr up]; [contradiction|]. cbn [varmap_add].
    destruct (alist_get x fr) as [b|] eqn:Ea.
    - cbn [rule_of ce_loc]. apply VD_Redefinition; [apply global_none; assumption|].
      cbn [scope_of map declared_here]. rewrite frame_of_get, Ea. reflexivity.
    - split; [apply global_none; assumption|]. split; [cbn [scope_of map declared_here]; rewrite frame_of_get, Ea; reflexivity|].
      split; [reflexivity|]. cbn [scope_of map declare]. rewrite frame_of_app. cbn [frame_of map fst snd]. unfold binding_of. cbn [fst snd].
      destruct m; reflexivity.
  Qed.

  Lemma check_var_add_spec env v val m : env <> [] ->
    match check_var_add cx env v val m with
    | Ok (_, env', _) =>
        wf_declare E (scope_of env) v {| b_mutable := m; b_shape := vr_quant val; b_local := if m then false else vr_local val |} (scope_of env') /\
        length env' = length env
    | Err ce => viol_declare E (scope_of env) v (rule_of ce) (ce_loc ce)
    | _ => True end.
  Proof.
    intros Hne. destruct v as [x l|s x l]; cbn [check_var_add].
    - pose proof (unscoped_add_spec env x l val m Hne) as Hs.
      destruct (unscoped_check_add cx env x l val m) as [env'|ce| |]; cbn [obind]; auto.
      destruct Hs as (H1 & H2 & H3 & H4). split; [|assumption]. rewrite H4. apply WD_Unscoped; assumption.
    - pose proof (check_expr_spec s env) as Hs. destruct (check_expr cx env s) as [[s' sr]|ce| |]; cbn [obind expr_spec] in *; auto.
      + split; [|reflexivity]. apply WD_Scoped. eexists _, _. eassumption.
      + apply VD_Scope. assumption.
  Qed.

  Lemma varmap_set_spec (env : cenv) x q :
    match varmap_set env x {| vr_local := false; vr_quant := q |} with
    | inl env' => (exists b, lookup x (scope_of env) = Some b /\ b_mutable b = true) /\ length env' = length env /\
                  scope_of env' = assign x q (scope_of env)
    | inr VarUndefined => lookup x (scope_of env) = None
    | inr VarImmutable => exists b, lookup x (scope_of env) = Some b /\ b_mutable b = false
    | inr VarAlreadyDefined => False
    end.
  Proof.
    induction env as [|fr up IH]; cbn [varmap_set scope_of map lookup assign]; [reflexivity|].
    rewrite frame_of_get. destruct (alist_get x fr) as [[v0 [|]]|] eqn:Ea; cbn [option_map].
    - split; [eexists; split; [reflexivity|reflexivity]|]. split; [reflexivity|]. cbn [scope_of map]. rewrite frame_of_set. reflexivity.
    - eexists; split; reflexivity.
    - fold (scope_of up). destruct (varmap_set up x {| vr_local := false; vr_quant := q |}) as [up'|[| |]]; auto.
      destruct IH as (H1 & H2 & H3). split; [assumption|]. split; [cbn [length]; congruence|]. cbn [scope_of map]. fold (scope_of up'). congruence.
  Qed.

  Lemma check_var_set_spec env v val :
    match check_var_set cx env v val with
    | Ok (_, env', _) => wf_assign E (scope_of env) v (vr_quant val) (scope_of env') /\ length env' = length env
    | Err ce => viol_assign E (scope_of env) v (rule_of ce) (ce_loc ce)
    | _ => True end.
  Proof.
    destruct v as [x l|s x l]; cbn [check_var_set].
    - unfold unscoped_check_set. destruct (varmap_get (cx_globals cx) x) as [g|] eqn:Eg; cbn [obind].
      { cbn [rule_of ce_loc]. eapply VA_Global. eapply global_some; eassumption. }
      pose proof (varmap_set_spec env x (vr_quant val)) as Hs.
      destruct (varmap_set env x {| vr_local := false; vr_quant := vr_quant val |}) as [env'|[| |]]; cbn [obind rule_of ce_loc].
      + destruct Hs as ((b & Hb & Hm) & Hlen & Hsc). split; [|assumption]. rewrite Hsc. eapply WA_Unscoped; [apply global_none|..]; eassumption.
      + destruct Hs.
      + apply VA_Undefined; [apply global_none; assumption|assumption].
      + destruct Hs as (b & Hb & Hm). eapply VA_Immutable; [apply global_none|..]; eassumption.
    - pose proof (check_expr_spec s env) as Hs. destruct (check_expr cx env s) as [[s' sr]|ce| |]; cbn [obind expr_spec] in *; auto.
      + split; [|reflexivity]. apply WA_Scoped. eexists _, _. eassumption.
      + apply VA_Scope. assumption.
  Qed.

  (* ---------------- statements ---------------- *)
  Definition stmt_spec (s : stmt) (env : cenv) (res : ck (stmt * cenv * list ident)) : Prop :=
    match res with
    | Ok (_, env', _) => wf_stmt E (scope_of env) s (scope_of env') /\ length env' = length env
    | Err ce => viol_stmt E (scope_of env) s (rule_of ce) (ce_loc ce)
    | _ => True
    end.
  Definition block_spec (body : list stmt) (env : cenv) (res : ck (list stmt * cenv * list ident)) : Prop :=
    match res with
    | Ok (_, env', _) => wf_block E (scope_of env) body (scope_of env') /\ length env' = length env
    | Err ce => viol_block E (scope_of env) body (rule_of ce) (ce_loc ce)
    | _ => True
    end.

  Lemma length_ne (env env' : cenv) : length env' = length env -> env <> [] -> env' <> [].
  Proof. destruct env, env'; cbn; congruence. Qed.

  Lemma check_block_spec body :
    Forall (fun s => forall env, env <> [] -> stmt_spec s env (check_stmt cx env s)) body ->
    forall env, env <> [] -> block_spec body env (check_block cx env body).
  Proof.
    unfold check_block. induction 1 as [|s body Hs Hbody IH]; cbn [check_seq block_spec]; intros env Hne.
    - split; [constructor|reflexivity].
    - specialize (Hs env Hne). destruct (check_stmt cx env s) as [[[s' env1] u1]|ce| |]; cbn [obind stmt_spec block_spec] in *; auto.
      + destruct Hs as [Hw Hl]. specialize (IH env1 (length_ne _ _ Hl Hne)).
        destruct (check_seq (check_stmt cx) env1 body) as [[[b' env2] u2]|ce| |]; cbn [obind block_spec] in *; auto.
        * destruct IH as [Hw2 Hl2]. split; [econstructor; eassumption|congruence].
        * eapply VB_later; eassumption.
      + apply VB_here. assumption.
  Qed.

  Lemma nested_ne (env : cenv) : varmap_nested env <> []. Proof. discriminate. Qed.
  Lemma pop_length (env env1 : cenv) : length env1 = length (varmap_nested env) -> length (varmap_pop env1) = length env.
  Proof. destruct env1; cbn; [discriminate|]. intros [= ->]. reflexivity. Qed.

  Lemma scan_arms_spec arms :
    Forall (fun arm : N * list stmt * loc => Forall (fun s => forall env, env <> [] -> stmt_spec s env (check_stmt cx env s)) (arm_body arm)) arms ->
    forall env, env <> [] ->
    match check_seq (scan_arm cx) env arms with
    | Ok (_, env', _) => wf_scan_arms E (scope_of env) arms (scope_of env') /\ length env' = length env
    | Err ce => viol_scan_arms E (scope_of env) arms (rule_of ce) (ce_loc ce)
    | _ => True end.
  Proof.
    induction 1 as [|[[rx body] al] arms Harm Harms IH]; cbn [check_seq]; intros env Hne.
    - split; [constructor|reflexivity].
    - unfold scan_arm at 1. rewrite <- (cr_nullable _ _ HR rx). destruct (se_nullable E rx) eqn:En; cbn [obind].
      { cbn [rule_of ce_loc]. apply VS_Nullable. assumption. }
      pose proof (check_block_spec body Harm (varmap_nested env) (nested_ne env)) as Hb.
      destruct (check_block cx (varmap_nested env) body) as [[[body' env1] u1]|ce| |]; cbn [obind block_spec] in *; auto.
      + destruct Hb as [Hw Hl]. pose proof (pop_length _ _ Hl) as Hl'. specialize (IH (varmap_pop env1) (length_ne _ _ Hl' Hne)).
        rewrite scope_of_pop in IH.
        destruct (check_seq (scan_arm cx) (varmap_pop env1) arms) as [[[arms' env2] u2]|ce| |]; cbn [obind] in *; auto.
        * destruct IH as [Hw2 Hl2]. split; [econstructor; eassumption|congruence].
        * eapply VS_later; eassumption.
      + apply VS_Body; assumption.
  Qed.

  Lemma if_arms_spec arms :
    Forall (fun arm : list cond * list stmt * loc => Forall (fun s => forall env, env <> [] -> stmt_spec s env (check_stmt cx env s)) (arm_body arm)) arms ->
    forall env, env <> [] ->
    match check_seq (if_arm cx) env arms with
    | Ok (_, env', _) => wf_if_arms E (scope_of env) arms (scope_of env') /\ length env' = length env
    | Err ce => viol_if_arms E (scope_of env) arms (rule_of ce) (ce_loc ce)
    | _ => True end.
  Proof.
    induction 1 as [|[[conds body] al] arms Harm Harms IH]; cbn [check_seq]; intros env Hne.
    - split; [constructor|reflexivity].
    - unfold if_arm at 1. pose proof (conds_first_viol env conds) as Hc.
      destruct (mapM (check_cond cx env) conds) as [crs|ce| |]; cbn [obind] in *; auto.
      2:{ apply VI_Cond. assumption. }
      pose proof (check_block_spec body Harm (varmap_nested env) (nested_ne env)) as Hb.
      destruct (check_block cx (varmap_nested env) body) as [[[body' env1] u1]|ce| |]; cbn [obind block_spec] in *; auto.
      + destruct Hb as [Hw Hl]. pose proof (pop_length _ _ Hl) as Hl'. specialize (IH (varmap_pop env1) (length_ne _ _ Hl' Hne)).
        rewrite scope_of_pop in IH.
        destruct (check_seq (if_arm cx) (varmap_pop env1) arms) as [[[arms' env2] u2]|ce| |]; cbn [obind] in *; auto.
        * destruct IH as [Hw2 Hl2]. split; [econstructor; eassumption|congruence].
        * eapply VI_later; eassumption.
      + apply VI_Body; assumption.
  Qed.

  Lemma immutable_eq q lc : {| b_mutable := false; b_shape := q; b_local := lc |} = immutable q lc. Proof. reflexivity. Qed.
  Lemma mutable_eq q : {| b_mutable := true; b_shape := q; b_local := false |} = mutable q. Proof. reflexivity. Qed.

  Lemma check_stmt_spec s : forall env, env <> [] -> stmt_spec s env (check_stmt cx env s).
  Proof.
    induction s using stmt_ind'; intros env Hne.
    - (* let *)
      cbn [check_stmt]. pose proof (check_expr_spec e env) as He.
      destruct (check_expr cx env e) as [[e' r]|ce| |]; cbn [obind expr_spec stmt_spec] in *; auto; [|apply V_LetValue; assumption].
      pose proof (check_var_add_spec env v (vres_of r) false Hne) as Hv.
      destruct (check_var_add cx env v (vres_of r) false) as [[[v' env'] u]|ce| |]; cbn [obind stmt_spec] in *; auto.
      + destruct Hv as [Hw Hl]. split; [|assumption]. eapply W_Let; eassumption.
      + eapply V_LetTarget; eassumption.
    - (* var *)
      cbn [check_stmt]. pose proof (check_expr_spec e env) as He.
      destruct (check_expr cx env e) as [[e' r]|ce| |]; cbn [obind expr_spec stmt_spec] in *; auto; [|apply V_VarValue; assumption].
      pose proof (check_var_add_spec env v (vres_of r) true Hne) as Hv.
      destruct (check_var_add cx env v (vres_of r) true) as [[[v' env'] u]|ce| |]; cbn [obind stmt_spec] in *; auto.
      + destruct Hv as [Hw Hl]. split; [|assumption]. eapply W_Var; eassumption.
      + eapply V_VarTarget; eassumption.
    - (* set *)
      cbn [check_stmt]. pose proof (check_expr_spec e env) as He.
      destruct (check_expr cx env e) as [[e' r]|ce| |]; cbn [obind expr_spec stmt_spec] in *; auto; [|apply V_SetValue; assumption].
      pose proof (check_var_set_spec env v (vres_of r)) as Hv.
      destruct (check_var_set cx env v (vres_of r)) as [[[v' env'] u]|ce| |]; cbn [obind stmt_spec] in *; auto.
      + destruct Hv as [Hw Hl]. split; [|assumption]. eapply W_Set; eassumption.
      + eapply V_SetTarget; eassumption.
    - (* node *)
      cbn [check_stmt]. pose proof (check_var_add_spec env v {| vr_local := true; vr_quant := QOne |} false Hne) as Hv.
      destruct (check_var_add cx env v _ false) as [[[v' env'] u]|ce| |]; cbn [obind stmt_spec] in *; auto.
      + destruct Hv as [Hw Hl]. split; [|assumption]. apply W_Node. assumption.
      + apply V_NodeTarget. assumption.
    - (* attr node *)
      cbn [check_stmt]. pose proof (check_expr_spec n env) as He.
      destruct (check_expr cx env n) as [[n' r]|ce| |] eqn:En; cbn [obind expr_spec stmt_spec] in *; auto; [|apply V_AttrNodeNode; assumption].
      pose proof (attrs_first_viol env attrs) as Ha.
      destruct (mapM (check_attr cx env) attrs) as [ars|ce| |]; cbn [obind stmt_spec] in *; auto.
      + split; [|reflexivity]. apply W_AttrNode; [eapply check_expr_wf; eassumption|assumption].
      + apply V_AttrNodeAttr; [eapply check_expr_wf; eassumption|assumption].
    - (* edge *)
      cbn [check_stmt]. pose proof (check_expr_spec a env) as He.
      destruct (check_expr cx env a) as [[a' r]|ce| |] eqn:Ea; cbn [obind expr_spec stmt_spec] in *; auto; [|apply V_EdgeSource; assumption].
      pose proof (check_expr_spec b env) as Hb.
      destruct (check_expr cx env b) as [[b' r2]|ce| |] eqn:Eb; cbn [obind expr_spec stmt_spec] in *; auto.
      + split; [|reflexivity]. apply W_Edge; eapply check_expr_wf; eassumption.
      + apply V_EdgeSink; [eapply check_expr_wf; eassumption|assumption].
    - (* attr edge *)
      cbn [check_stmt]. pose proof (check_expr_spec a env) as He.
      destruct (check_expr cx env a) as [[a' r]|ce| |] eqn:Ea; cbn [obind expr_spec stmt_spec] in *; auto; [|apply V_AttrEdgeSource; assumption].
      pose proof (check_expr_spec b env) as Hb.
      destruct (check_expr cx env b) as [[b' r2]|ce| |] eqn:Eb; cbn [obind expr_spec stmt_spec] in *; auto.
      2:{ apply V_AttrEdgeSink; [eapply check_expr_wf; eassumption|assumption]. }
      pose proof (attrs_first_viol env attrs) as Ha.
      destruct (mapM (check_attr cx env) attrs) as [ars|ce| |]; cbn [obind stmt_spec] in *; auto.
      + split; [|reflexivity]. apply W_AttrEdge; [eapply check_expr_wf; eassumption|eapply check_expr_wf; eassumption|assumption].
      + apply V_AttrEdgeAttr; [eapply check_expr_wf; eassumption|eapply check_expr_wf; eassumption|assumption].
    - (* scan *)
      rewrite check_stmt_scan. pose proof (check_expr_spec v env) as He.
      destruct (check_expr cx env v) as [[v' r]|ce| |]; cbn [obind expr_spec stmt_spec] in *; auto; [|apply V_ScanValue; assumption].
      destruct (er_local r) eqn:El; cbn [negb]; [|cbn [stmt_spec rule_of ce_loc]; eapply V_ScanNonLocal; eassumption].
      pose proof (scan_arms_spec arms H env Hne) as Ha.
      destruct (check_seq (scan_arm cx) env arms) as [[[arms' env'] u]|ce| |]; cbn [obind stmt_spec] in *; auto.
      + destruct Ha as [Hw Hl]. split; [|assumption]. eapply W_Scan; eassumption.
      + eapply V_ScanArm; eassumption.
    - (* print *)
      cbn [check_stmt]. pose proof (exprs_first_viol env vs) as Hv.
      destruct (mapM (check_expr cx env) vs) as [rs|ce| |]; cbn [obind stmt_spec] in *; auto.
      + split; [|reflexivity]. apply W_Print. assumption.
      + apply V_Print. assumption.
    - (* if *)
      rewrite check_stmt_if. pose proof (if_arms_spec arms H env Hne) as Ha.
      destruct (check_seq (if_arm cx) env arms) as [[[arms' env'] u]|ce| |]; cbn [obind stmt_spec] in *; auto.
      + destruct Ha as [Hw Hl]. split; [|assumption]. apply W_If. assumption.
      + apply V_IfArm. assumption.
    - (* for *)
      rewrite check_stmt_for. pose proof (check_expr_spec v env) as He.
      destruct (check_expr cx env v) as [[v' r]|ce| |]; cbn [obind expr_spec stmt_spec] in *; auto; [|apply V_ForValue; assumption].
      destruct (er_local r) eqn:El; cbn [negb]; [|cbn [stmt_spec rule_of ce_loc]; eapply V_ForNonLocal; eassumption].
      destruct (is_list_q (er_quant r)) eqn:Eq; cbn [negb]; [|cbn [stmt_spec rule_of ce_loc]; eapply V_ForNotList; eassumption].
      rewrite add_nested. destruct (varmap_get (cx_globals cx) x) as [g|] eqn:Eg; cbn [obind].
      { cbn [stmt_spec rule_of ce_loc]. eapply V_ForHide; try eassumption. eapply global_some; eassumption. }
      assert (Hne' : [(x, (vres_of r, false))] :: env <> []) by discriminate.
      pose proof (check_block_spec body H _ Hne') as Hb.
      assert (Esc : scope_of ([(x, (vres_of r, false))] :: env) = [(x, immutable (er_quant r) true)] :: scope_of env).
      { cbn [scope_of map frame_of fst snd]. unfold binding_of, immutable, vres_of. cbn [fst snd vr_quant vr_local]. rewrite El. reflexivity. }
      destruct (check_block cx ([(x, (vres_of r, false))] :: env) body) as [[[body' env1] u1]|ce| |]; cbn [obind block_spec stmt_spec] in *; auto.
      + destruct Hb as [Hw Hl]. rewrite Esc in Hw. split.
        * rewrite scope_of_pop. eapply W_For; try eassumption. apply global_none; assumption.
        * destruct env1; cbn in *; [discriminate|]. congruence.
      + rewrite Esc in Hb. eapply V_ForBody; try eassumption. apply global_none; assumption.
  Qed.

  Lemma check_block_rules body env : env <> [] -> block_spec body env (check_block cx env body).
  Proof. intros Hne. apply check_block_spec; [|assumption]. apply Forall_forall. intros s _. apply check_stmt_spec. Qed.
End Forward.

(* ------------------------------------------------------------------ the global table *)
Definition gentry (g : global) : ident * (vres * bool) := (gl_name g, ({| vr_local := true; vr_quant := gl_quant g |}, false)).
Definition gframe_of (gs : list global) : vframe vres := map gentry gs.

Lemma check_global_table_ok gs : forall fr m, check_global_table gs [fr] = Ok m ->
  m = [fr ++ gframe_of gs] /\ NoDup (map gl_name gs) /\ forall g, In g gs -> alist_get (gl_name g) fr = None.
Proof.
  induction gs as [|g gs IH]; cbn [check_global_table]; intros fr m H.
  - inversion H; subst. rewrite app_nil_r. repeat split; [constructor|intros g []].
  - cbn [varmap_add] in H. destruct (alist_get (gl_name g) fr) eqn:Ea; [discriminate|].
    destruct (IH _ _ H) as (-> & Hnd & Hfr). split; [|split].
    + rewrite <- app_assoc. reflexivity.
    + cbn [map]. constructor; [|assumption]. intros Hin. apply in_map_iff in Hin as (g' & Hn & Hg').
      specialize (Hfr _ Hg'). rewrite alist_get_app in Hfr. destruct (alist_get (gl_name g') fr); [discriminate|].
      cbn [alist_get] in Hfr. rewrite Hn, str_eqb_refl in Hfr. discriminate.
    + intros g' [<-|Hg']; [assumption|]. specialize (Hfr _ Hg'). rewrite alist_get_app in Hfr.
      destruct (alist_get (gl_name g') fr); [discriminate|reflexivity].
Qed.

Lemma check_global_table_err gs : forall fr ce, check_global_table gs [fr] = Err ce ->
  exists pre g post, gs = pre ++ g :: post /\ ce = CkDupGlobal (gl_name g) (gl_loc g) /\ NoDup (map gl_name pre) /\
    (forall g', In g' pre -> alist_get (gl_name g') fr = None) /\
    (alist_get (gl_name g) fr <> None \/ In (gl_name g) (map gl_name pre)).
Proof.
  induction gs as [|g gs IH]; cbn [check_global_table]; intros fr ce H; [discriminate|].
  cbn [varmap_add] in H. destruct (alist_get (gl_name g) fr) eqn:Ea.
  - inversion H; subst. exists [], g, gs. repeat split; [constructor|intros g' []|left; congruence].
  - destruct (IH _ _ H) as (pre & g0 & post & -> & -> & Hnd & Hfr & Hdup).
    exists (g :: pre), g0, post. split; [reflexivity|]. split; [reflexivity|].
    assert (Hpre : forall g', In g' pre -> alist_get (gl_name g') fr = None /\ gl_name g' <> gl_name g).
    { intros g' Hg'. specialize (Hfr _ Hg'). rewrite alist_get_app in Hfr. destruct (alist_get (gl_name g') fr); [discriminate|].
      split; [reflexivity|]. cbn [alist_get] in Hfr. destruct (str_eqb_spec (gl_name g') (gl_name g)); [discriminate|assumption]. }
    split; [|split].
    + cbn [map]. constructor; [|assumption]. intros Hin. apply in_map_iff in Hin as (g' & Hn & Hg'). destruct (Hpre _ Hg'). congruence.
    + intros g' [<-|Hg']; [assumption|]. apply Hpre. assumption.
    + rewrite alist_get_app in Hdup. destruct (alist_get (gl_name g0) fr) eqn:E0.
      * left. discriminate.
      * right. cbn [map In]. destruct Hdup as [Hdup|Hdup]; [|auto]. cbn [alist_get] in Hdup.
        destruct (str_eqb_spec (gl_name g0) (gl_name g)) as [->|]; [auto|congruence].
Qed.

Lemma gframe_get gs x : alist_get x (gframe_of gs) = option_map (fun q => ({| vr_local := true; vr_quant := q |}, false)) (global_shape gs x).
Proof.
  induction gs as [|g gs IH]; cbn [gframe_of map alist_get global_shape gentry option_map]; [reflexivity|].
  destruct (str_eqb x (gl_name g)); [reflexivity|exact IH].
Qed.

Lemma stanza_ctx_rel q f i names :
  nth_error (qt_stanza_names q) i = Some names ->
  ctx_rel (stanza_ctx q [gframe_of (f_globals f)] i names) (stanza_env q f i).
Proof.
  intros Hn. constructor; cbn [stanza_ctx stanza_env cx_globals cx_stanza_names cx_file_names cx_file_quants se_global se_capture se_nullable].
  - intros x. cbn [varmap_get]. rewrite gframe_get. destruct (global_shape (f_globals f) x); reflexivity.
  - intros x v. cbn [varmap_get]. rewrite gframe_get. destruct (global_shape (f_globals f) x); cbn [option_map]; [|discriminate].
    intros [= <-]. reflexivity.
  - intros n H. unfold capture_shape. rewrite Hn. unfold name_index in H. destruct (name_pos n names); [discriminate|reflexivity].
  - intros n l e r H. unfold check_capture in H. cbn [stanza_ctx cx_stanza_names cx_file_names cx_file_quants] in H.
    unfold name_index in H. unfold capture_shape. rewrite Hn.
    destruct (name_pos n names) as [si|]; cbn [option_map] in H; [|discriminate].
    destruct (name_pos n (qt_file_names q)) as [fi|]; cbn [option_map] in H; [|discriminate].
    destruct (nth_error (qt_file_quants q) i) as [row|]; [|discriminate].
    rewrite Nnat.Nat2N.id in H. destruct (nth_error row fi) as [qu|]; [|discriminate].
    inversion H; subst. cbn. auto.
  - intros rx. reflexivity.
Qed.

(* ------------------------------------------------------------------ stanzas and files *)
Lemma check_stanza_spec order q f i st : (forall l, Permutation l (order l)) ->
  match check_stanza order q [gframe_of (f_globals f)] i st with
  | Ok _ => wf_stanza q f i st
  | Err ce => viol_stanza q f i st (rule_of ce) (ce_loc ce)
  | _ => True end.
Proof.
  intros Ho. unfold check_stanza. destruct (nth_error (qt_stanza_names q) i) as [names|] eqn:En; [|exact I].
  destruct (name_index FULL_MATCH (qt_file_names q)) as [ff|]; [|exact I].
  pose proof (check_block_rules _ _ (stanza_ctx_rel q f i names En) (st_stmts st) [[]]) as Hb.
  destruct (check_block (stanza_ctx q [gframe_of (f_globals f)] i names) [[]] (st_stmts st)) as [[[stmts' env'] used]|ce| |] eqn:Eb;
    cbn [obind block_spec] in *; try exact I.
  2:{ apply VSt_Body. apply Hb. discriminate. }
  destruct Hb as [Hw _]; [discriminate|]. cbn [scope_of map frame_of] in Hw.
  destruct (check_block_resolves _ _ _ _ _ _ Eb) as (_ & _ & Hused). subst used.
  destruct (unused_captures order names (st_full_stanza_idx st) _) as [un|ce| |] eqn:Eu; cbn [obind]; try exact I.
  - pose proof (unused_captures_In _ _ _ _ _ Ho Eu) as Hin. destruct un as [|u un].
    + exists names, (scope_of env'). split; [assumption|]. split; [assumption|].
      intros n (H1 & H2 & H3 & H4). apply (proj2 (Hin (64 :: n))).
      exists n. repeat split; auto.
    + cbn [rule_of ce_loc]. destruct (proj1 (Hin u) (or_introl eq_refl)) as (n & _ & H1 & H2 & H3 & H4).
      apply VSt_Unused with (names := names) (sc' := scope_of env') (n := n); [assumption|assumption|]. repeat split; auto.
  - exfalso. eapply unused_captures_no_err; eassumption.
Qed.

Lemma check_stanzas_spec order q f sts : (forall l, Permutation l (order l)) -> forall i,
  match check_stanzas order q [gframe_of (f_globals f)] i sts with
  | Ok _ => forall j st, nth_error sts j = Some st -> wf_stanza q f (i + j) st
  | Err ce => exists pre st post, sts = pre ++ st :: post /\
                (forall j stj, nth_error pre j = Some stj -> wf_stanza q f (i + j) stj) /\
                viol_stanza q f (i + length pre) st (rule_of ce) (ce_loc ce)
  | _ => True end.
Proof.
  intros Ho. induction sts as [|st sts IH]; cbn [check_stanzas]; intros i.
  - intros [|j] st; discriminate.
  - pose proof (check_stanza_spec order q f i st Ho) as Hs.
    destruct (check_stanza order q [gframe_of (f_globals f)] i st) as [st'|ce| |]; cbn [obind]; try exact I.
    + specialize (IH (S i)). destruct (check_stanzas order q [gframe_of (f_globals f)] (S i) sts) as [sts'|ce| |]; cbn [obind]; try exact I.
      * intros [|j] st0 Hj; cbn [nth_error] in Hj.
        -- inversion Hj; subst. rewrite Nat.add_0_r. assumption.
        -- rewrite Nat.add_succ_r. apply (IH j st0 Hj).
      * destruct IH as (pre & st0 & post & -> & Hpre & Hv). exists (st :: pre), st0, post. split; [reflexivity|]. split.
        -- intros [|j] stj Hj; cbn [nth_error] in Hj.
           ++ inversion Hj; subst. rewrite Nat.add_0_r. assumption.
           ++ rewrite Nat.add_succ_r. apply (Hpre j stj Hj).
        -- cbn [length]. rewrite Nat.add_succ_r. assumption.
    + exists [], st, sts. split; [reflexivity|]. split; [intros [|j] stj; discriminate|]. cbn [length]. rewrite Nat.add_0_r. assumption.
Qed.

Lemma check_sound_lemma order q f v l names : (forall l, Permutation l (order l)) ->
  check_file_with order q f = CkErr v l names -> exists r, rule_code r = v /\ Violates q f r l.
Proof.
  intros Ho. unfold check_file_with, to_result. destruct (check_file_ck order q f) as [|ce| |] eqn:E; try discriminate.
  intros [= <- <- <-]. exists (rule_of ce). split; [apply rule_of_code|].
  unfold check_file_ck in E. apply obind_err in E as [E|(g & Hg & E)].
  - apply check_global_table_err in E as (pre & g & post & Hgs & -> & Hnd & _ & [Hd|Hd]); [cbn in Hd; congruence|].
    cbn [rule_of ce_loc]. eapply V_DuplicateGlobal; eassumption.
  - apply check_global_table_ok in Hg as (-> & Hnd & _). cbn [app] in E.
    pose proof (check_stanzas_spec order q f (f_stanzas f) Ho 0%nat) as Hs.
    apply obind_err in E as [E|(sts' & _ & E)]; [|discriminate].
    match type of Hs with match ?X with _ => _ end => assert (EX : X = Err ce) by exact E; rewrite EX in Hs end.
    destruct Hs as (pre & st & post & Hsts & Hpre & Hv). eapply V_Stanza; eassumption.
Qed.

Lemma check_wf_lemma order q f f' : (forall l, Permutation l (order l)) ->
  check_file_with order q f = CkOk f' -> WellFormed q f.
Proof.
  intros Ho. unfold check_file_with, to_result. destruct (check_file_ck order q f) as [f0| | |] eqn:E; try discriminate.
  intros _. unfold check_file_ck in E. bind_ok E g Hg. bind_ok E sts' Hs.
  apply check_global_table_ok in Hg as (-> & Hnd & _). cbn [app] in Hs.
  pose proof (check_stanzas_spec order q f (f_stanzas f) Ho 0%nat) as Hspec.
  match type of Hspec with match ?X with _ => _ end => assert (EX : X = Ok sts') by exact Hs; rewrite EX in Hspec end.
  split; [assumption|]. intros i st Hi. apply (Hspec i st Hi).
Qed.

(* ================================================================== well-formed and violating exclude each other *)
Scheme ty_mind := Minimality for ty Sort Prop
  with tys_mind := Minimality for tys Sort Prop.
Combined Scheme ty_tys_mind from ty_mind, tys_mind.
Scheme viol_e_mind := Minimality for viol_e Sort Prop
  with viol_es_mind := Minimality for viol_es Sort Prop.
Combined Scheme viol_e_es_mind from viol_e_mind, viol_es_mind.
Scheme wf_stmt_mind := Minimality for wf_stmt Sort Prop
  with wf_block_mind := Minimality for wf_block Sort Prop
  with wf_scan_arms_mind := Minimality for wf_scan_arms Sort Prop
  with wf_if_arms_mind := Minimality for wf_if_arms Sort Prop.
Combined Scheme wf_all_mind from wf_stmt_mind, wf_block_mind, wf_scan_arms_mind, wf_if_arms_mind.
Scheme viol_stmt_mind := Minimality for viol_stmt Sort Prop
  with viol_block_mind := Minimality for viol_block Sort Prop
  with viol_scan_arms_mind := Minimality for viol_scan_arms Sort Prop
  with viol_if_arms_mind := Minimality for viol_if_arms Sort Prop.
Combined Scheme viol_all_mind from viol_stmt_mind, viol_block_mind, viol_scan_arms_mind, viol_if_arms_mind.

(* the syntactic side conditions of the rules pick one constructor *)
Ltac parts :=
  cbn [is_literal elems_of comp_parts cond_parts] in *; try discriminate;
  repeat match goal with
  | H : is_literal ?e = true |- _ => is_var e; destruct e; cbn [is_literal elems_of comp_parts] in *; try discriminate
  | H : elems_of ?e = Some _ |- _ => is_var e; destruct e; cbn [is_literal elems_of comp_parts] in *; try discriminate
  | H : comp_parts ?e = Some _ |- _ => is_var e; destruct e; cbn [is_literal elems_of comp_parts] in *; try discriminate
  | H : cond_parts ?c = _ |- _ => is_var c; destruct c; cbn [cond_parts] in *; try discriminate
  end;
  repeat match goal with
  | H : Some _ = Some _ |- _ => inversion H; subst; clear H
  | H : (_, _) = (_, _) |- _ => inversion H; subst; clear H
  end.

Section Exclusive.
  Variable E : senv.

  Lemma ty_det :
    (forall sc e q lc, ty E sc e q lc -> forall q' lc', ty E sc e q' lc' -> q = q' /\ lc = lc') /\
    (forall sc es ls, tys E sc es ls -> forall ls', tys E sc es ls' -> ls = ls').
  Proof.
    apply ty_tys_mind.
    - intros sc e He q' lc' H2. inversion H2; subst; parts; auto.
    - intros sc e es q ls He _ IH q' lc' H2. inversion H2; subst; parts;
        match goal with H : tys E _ _ _ |- _ => rewrite (IH _ H) end; auto.
    - intros sc e el x xl v l q q1 lc Hp _ IHv Hl Hg _ IHel q' lc' H2. inversion H2; subst; parts;
        match goal with H : ty E sc _ _ true |- _ => destruct (IHv _ _ H) as [-> _] end;
        match goal with H : ty E (_ :: sc) _ _ _ |- _ => destruct (IHel _ _ H) as [_ ->] end; auto.
    - intros sc name q0 fi si l q Hc q' lc' H2. inversion H2; subst; parts; split; congruence.
    - intros sc x l q Hg q' lc' H2. inversion H2; subst; parts; try congruence; split; congruence.
    - intros sc x l b Hg Hl q' lc' H2. inversion H2; subst; parts; try congruence; split; congruence.
    - intros sc s x l q lc _ _ q' lc' H2. inversion H2; subst; parts; auto.
    - intros sc ls' H2. inversion H2; subst. reflexivity.
    - intros sc e es q lc ls _ IHe _ IHes ls' H2. inversion H2; subst. destruct (IHe _ _ H3) as [_ ->]. rewrite (IHes _ H5). reflexivity.
  Qed.
  Lemma ty_det1 sc e q lc q' lc' : ty E sc e q lc -> ty E sc e q' lc' -> q = q' /\ lc = lc'.
  Proof. intros H1 H2. eapply (proj1 ty_det); eassumption. Qed.

  Ltac det :=
    repeat match goal with
    | H1 : ty E ?sc ?e ?q ?lc, H2 : ty E ?sc ?e ?q' ?lc' |- _ =>
        first [ constr_eq q q'; constr_eq lc lc'; fail 1
              | let Hq := fresh in let Hl := fresh in destruct (ty_det1 _ _ _ _ _ _ H1 H2) as [Hq Hl];
                try discriminate; subst; clear H2 ]
    end.

  Lemma ty_viol_excl :
    (forall sc e r l, viol_e E sc e r l -> forall q lc, ty E sc e q lc -> False) /\
    (forall sc es r l, viol_es E sc es r l -> forall ls, tys E sc es ls -> False).
  Proof.
    apply viol_e_es_mind.
    - intros sc e es q r l He _ IH q' lc H2. inversion H2; subst; parts; eauto.
    - intros sc e el x xl v l r l' Hp _ IH q' lc H2. inversion H2; subst; parts; eauto.
    - intros sc e el x xl v l q Hp Hv q' lc H2. inversion H2; subst; parts; det.
    - intros sc e el x xl v l q Hp Hv Hl q' lc H2. inversion H2; subst; parts; det; congruence.
    - intros sc e el x xl v l q q0 Hp Hv Hl Hg q' lc H2. inversion H2; subst; parts; congruence.
    - intros sc e el x xl v l q r l' Hp Hv Hl Hg _ IH q' lc H2. inversion H2; subst; parts; det; eauto.
    - intros sc name q0 fi si l Hc q' lc H2. inversion H2; subst; parts; congruence.
    - intros sc x l Hg Hl q' lc H2. inversion H2; subst; parts; congruence.
    - intros sc s x l r l' _ IH q' lc H2. inversion H2; subst; parts; eauto.
    - intros sc e es r l _ IH ls H2. inversion H2; subst. eauto.
    - intros sc e es q lc r l _ _ IH ls H2. inversion H2; subst. eauto.
  Qed.
  Lemma wf_expr_viol sc e r l : wf_expr E sc e -> viol_e E sc e r l -> False.
  Proof. intros (q & lc & H) Hv. eapply (proj1 ty_viol_excl); eassumption. Qed.
  Lemma ty_viol sc e q lc r l : ty E sc e q lc -> viol_e E sc e r l -> False.
  Proof. intros H Hv. eapply (proj1 ty_viol_excl); eassumption. Qed.

  Lemma first_viol_excl {A} (wf : A -> Prop) (viol : A -> rule -> loc -> Prop) l r lo :
    (forall x r l, wf x -> viol x r l -> False) -> Forall wf l -> first_viol wf viol l r lo -> False.
  Proof. intros Hx HF Hv. induction Hv; inversion HF; subst; eauto. Qed.

  Lemma wf_attr_viol sc a r l : wf_attr E sc a -> viol_attr E sc a r l -> False.
  Proof. unfold wf_attr, viol_attr. apply wf_expr_viol. Qed.
  Lemma wf_cond_viol sc c r l : wf_cond E sc c -> viol_cond E sc c r l -> False.
  Proof.
    unfold wf_cond. intros Hw Hv. destruct Hv; parts; destruct Hw as (q' & Hq & Ho).
    all: try (eapply ty_viol; eassumption).
    all: try (det; fail).
    all: det; specialize (Ho eq_refl); congruence.
  Qed.
  Lemma wf_declare_viol sc v b sc' r l : wf_declare E sc v b sc' -> viol_declare E sc v r l -> False.
  Proof. intros Hw Hv. destruct Hv; inversion Hw; subst; try congruence. eapply wf_expr_viol; eassumption. Qed.
  Lemma wf_assign_viol sc v q sc' r l : wf_assign E sc v q sc' -> viol_assign E sc v r l -> False.
  Proof. intros Hw Hv. destruct Hv; inversion Hw; subst; try congruence. eapply wf_expr_viol; eassumption. Qed.
  Lemma wf_declare_det sc v b sc1 sc2 : wf_declare E sc v b sc1 -> wf_declare E sc v b sc2 -> sc1 = sc2.
  Proof. intros H1 H2. destruct H1; inversion H2; subst; reflexivity. Qed.
  Lemma wf_assign_det sc v q sc1 sc2 : wf_assign E sc v q sc1 -> wf_assign E sc v q sc2 -> sc1 = sc2.
  Proof. intros H1 H2. destruct H1; inversion H2; subst; reflexivity. Qed.

  Lemma wf_det :
    (forall sc s sc1, wf_stmt E sc s sc1 -> forall sc2, wf_stmt E sc s sc2 -> sc1 = sc2) /\
    (forall sc ss sc1, wf_block E sc ss sc1 -> forall sc2, wf_block E sc ss sc2 -> sc1 = sc2) /\
    (forall sc arms sc1, wf_scan_arms E sc arms sc1 -> forall sc2, wf_scan_arms E sc arms sc2 -> sc1 = sc2) /\
    (forall sc arms sc1, wf_if_arms E sc arms sc1 -> forall sc2, wf_if_arms E sc arms sc2 -> sc1 = sc2).
  Proof.
    apply wf_all_mind.
    - intros sc v e l q lc sc' Ht Hd sc2 H2. inversion H2; subst. det. eapply wf_declare_det; eassumption.
    - intros sc v e l q lc sc' Ht Hd sc2 H2. inversion H2; subst. det. eapply wf_declare_det; eassumption.
    - intros sc v e l q lc sc' Ht Hd sc2 H2. inversion H2; subst. det. eapply wf_assign_det; eassumption.
    - intros sc v t l sc' Hd sc2 H2. inversion H2; subst. eapply wf_declare_det; eassumption.
    - intros sc n attrs l _ _ sc2 H2. inversion H2; subst. reflexivity.
    - intros sc a b l _ _ sc2 H2. inversion H2; subst. reflexivity.
    - intros sc a b attrs l _ _ _ sc2 H2. inversion H2; subst. reflexivity.
    - intros sc v arms l q sc' _ _ IH sc2 H2. inversion H2; subst. eauto.
    - intros sc vs l _ sc2 H2. inversion H2; subst. reflexivity.
    - intros sc arms l sc' _ IH sc2 H2. inversion H2; subst. eauto.
    - intros sc x xl v body l q sc1 Ht Hl Hg _ IH sc2 H2. inversion H2; subst. det. f_equal. eauto.
    - intros sc sc2 H2. inversion H2; subst. reflexivity.
    - intros sc s ss sc1 sc2 _ IHs _ IHss sc3 H2. inversion H2; subst. rewrite <- (IHs _ H3) in H5. eauto.
    - intros sc sc2 H2. inversion H2; subst. reflexivity.
    - intros sc rx body al arms sc1 sc2 Hn _ IHb _ IHa sc3 H2. inversion H2; subst. rewrite <- (IHb _ H7) in H8. eauto.
    - intros sc sc2 H2. inversion H2; subst. reflexivity.
    - intros sc conds body al arms sc1 sc2 Hc _ IHb _ IHa sc3 H2. inversion H2; subst. rewrite <- (IHb _ H7) in H8. eauto.
  Qed.

  Ltac excl :=
    match goal with
    | Hv : viol_e E ?sc ?e _ _, Hw : wf_expr E ?sc ?e |- _ => exact (wf_expr_viol _ _ _ _ Hw Hv)
    | Hv : viol_e E ?sc ?e _ _, Ht : ty E ?sc ?e _ _ |- _ => exact (ty_viol _ _ _ _ _ _ Ht Hv)
    | Hv : viol_declare E ?sc ?v _ _, Hw : wf_declare E ?sc ?v _ _ |- _ => exact (wf_declare_viol _ _ _ _ _ _ Hw Hv)
    | Hv : viol_assign E ?sc ?v _ _, Hw : wf_assign E ?sc ?v _ _ |- _ => exact (wf_assign_viol _ _ _ _ _ _ Hw Hv)
    | Hv : first_viol (wf_attr E ?sc) _ ?l _ _, Hw : Forall (wf_attr E ?sc) ?l |- _ =>
        exact (first_viol_excl _ _ _ _ _ (wf_attr_viol sc) Hw Hv)
    | Hv : first_viol (wf_expr E ?sc) _ ?l _ _, Hw : Forall (wf_expr E ?sc) ?l |- _ =>
        exact (first_viol_excl _ _ _ _ _ (wf_expr_viol sc) Hw Hv)
    | Hv : first_viol (wf_cond E ?sc) _ ?l _ _, Hw : Forall (wf_cond E ?sc) ?l |- _ =>
        exact (first_viol_excl _ _ _ _ _ (wf_cond_viol sc) Hw Hv)
    end.

  Lemma wf_viol_excl :
    (forall sc s r l, viol_stmt E sc s r l -> forall sc', wf_stmt E sc s sc' -> False) /\
    (forall sc ss r l, viol_block E sc ss r l -> forall sc', wf_block E sc ss sc' -> False) /\
    (forall sc arms r l, viol_scan_arms E sc arms r l -> forall sc', wf_scan_arms E sc arms sc' -> False) /\
    (forall sc arms r l, viol_if_arms E sc arms r l -> forall sc', wf_if_arms E sc arms sc' -> False).
  Proof.
    destruct wf_det as (Ds & Db & Da & Di).
    apply viol_all_mind; intros;
      match goal with H : ?T |- _ =>
        match T with wf_stmt _ _ _ _ => idtac | wf_block _ _ _ _ => idtac
                   | wf_scan_arms _ _ _ _ => idtac | wf_if_arms _ _ _ _ => idtac end;
        inversion H; subst; clear H end;
      try (excl; fail);
      try (det; excl; fail);
      try (det; fail);
      try (det; congruence);
      try congruence;
      try (det; eauto; fail);
      try (eauto; fail);
      repeat match goal with
      | H1 : wf_stmt E ?sc ?s ?a, H2 : wf_stmt E ?sc ?s ?b |- _ => rewrite (Ds _ _ _ H1 _ H2) in *; clear H1
      | H1 : wf_block E ?sc ?s ?a, H2 : wf_block E ?sc ?s ?b |- _ => rewrite (Db _ _ _ H1 _ H2) in *; clear H1
      end; eauto.
  Qed.
  (* ---------------- at most one first violation ---------------- *)
  Lemma viol_e_det :
    (forall sc e r l, viol_e E sc e r l -> forall r' l', viol_e E sc e r' l' -> r = r' /\ l = l') /\
    (forall sc es r l, viol_es E sc es r l -> forall r' l', viol_es E sc es r' l' -> r = r' /\ l = l').
  Proof.
    apply viol_e_es_mind; intros;
      match goal with H : ?T |- _ =>
        match T with viol_e _ _ _ _ _ => idtac | viol_es _ _ _ _ _ => idtac end; inversion H; subst; clear H end;
      parts;
      try (exfalso; excl; fail);
      try (det; try (exfalso; excl; fail); try congruence; eauto; fail);
      try congruence; eauto.
  Qed.
  Lemma viol_e_det1 sc e r l r' l' : viol_e E sc e r l -> viol_e E sc e r' l' -> r = r' /\ l = l'.
  Proof. intros H1 H2. eapply (proj1 viol_e_det); eassumption. Qed.

  Lemma first_viol_det {A} (wf : A -> Prop) (viol : A -> rule -> loc -> Prop) xs :
    (forall x r l, wf x -> viol x r l -> False) ->
    (forall x r l r' l', viol x r l -> viol x r' l' -> r = r' /\ l = l') ->
    forall r lo r' lo', first_viol wf viol xs r lo -> first_viol wf viol xs r' lo' -> r = r' /\ lo = lo'.
  Proof.
    intros Hex Hdet r lo r' lo' H1. revert r' lo'. induction H1; intros r' lo' H2; inversion H2; subst; eauto; exfalso; eauto.
  Qed.
  Lemma viol_attr_det sc a r l r' l' : viol_attr E sc a r l -> viol_attr E sc a r' l' -> r = r' /\ l = l'.
  Proof. unfold viol_attr. apply viol_e_det1. Qed.
  Lemma viol_cond_det sc c r l r' l' : viol_cond E sc c r l -> viol_cond E sc c r' l' -> r = r' /\ l = l'.
  Proof.
    intros H1 H2. destruct H1; destruct H2; parts;
      try (exfalso; excl; fail); try (det; try congruence; auto; fail); try (eapply viol_e_det1; eassumption); auto.
  Qed.
  Lemma viol_declare_det sc v r l r' l' : viol_declare E sc v r l -> viol_declare E sc v r' l' -> r = r' /\ l = l'.
  Proof. intros H1 H2. destruct H1; inversion H2; subst; try congruence; auto. eapply viol_e_det1; eassumption. Qed.
  Lemma viol_assign_det sc v r l r' l' : viol_assign E sc v r l -> viol_assign E sc v r' l' -> r = r' /\ l = l'.
  Proof. intros H1 H2. destruct H1; inversion H2; subst; try congruence; auto. eapply viol_e_det1; eassumption. Qed.

  Ltac excl2 :=
    exfalso;
    match goal with
    | Hv : viol_stmt E ?sc ?s _ _, Hw : wf_stmt E ?sc ?s _ |- _ => exact (proj1 wf_viol_excl _ _ _ _ Hv _ Hw)
    | Hv : viol_block E ?sc ?s _ _, Hw : wf_block E ?sc ?s _ |- _ => exact (proj1 (proj2 wf_viol_excl) _ _ _ _ Hv _ Hw)
    | _ => excl
    end.
  Ltac same :=
    match goal with
    | H1 : viol_e E ?sc ?e ?r ?l, H2 : viol_e E ?sc ?e ?r' ?l' |- ?r = ?r' /\ ?l = ?l' => exact (viol_e_det1 _ _ _ _ _ _ H1 H2)
    | H1 : viol_declare E ?sc ?e ?r ?l, H2 : viol_declare E ?sc ?e ?r' ?l' |- ?r = ?r' /\ ?l = ?l' => exact (viol_declare_det _ _ _ _ _ _ H1 H2)
    | H1 : viol_assign E ?sc ?e ?r ?l, H2 : viol_assign E ?sc ?e ?r' ?l' |- ?r = ?r' /\ ?l = ?l' => exact (viol_assign_det _ _ _ _ _ _ H1 H2)
    | H1 : first_viol (wf_attr E ?sc) _ ?xs ?r ?l, H2 : first_viol (wf_attr E ?sc) _ ?xs ?r' ?l' |- ?r = ?r' /\ ?l = ?l' =>
        exact (first_viol_det _ _ _ (wf_attr_viol sc) (viol_attr_det sc) _ _ _ _ H1 H2)
    | H1 : first_viol (wf_expr E ?sc) _ ?xs ?r ?l, H2 : first_viol (wf_expr E ?sc) _ ?xs ?r' ?l' |- ?r = ?r' /\ ?l = ?l' =>
        exact (first_viol_det _ _ _ (wf_expr_viol sc) (viol_e_det1 sc) _ _ _ _ H1 H2)
    | H1 : first_viol (wf_cond E ?sc) _ ?xs ?r ?l, H2 : first_viol (wf_cond E ?sc) _ ?xs ?r' ?l' |- ?r = ?r' /\ ?l = ?l' =>
        exact (first_viol_det _ _ _ (wf_cond_viol sc) (viol_cond_det sc) _ _ _ _ H1 H2)
    end.

  Lemma viol_det :
    (forall sc s r l, viol_stmt E sc s r l -> forall r' l', viol_stmt E sc s r' l' -> r = r' /\ l = l') /\
    (forall sc ss r l, viol_block E sc ss r l -> forall r' l', viol_block E sc ss r' l' -> r = r' /\ l = l') /\
    (forall sc arms r l, viol_scan_arms E sc arms r l -> forall r' l', viol_scan_arms E sc arms r' l' -> r = r' /\ l = l') /\
    (forall sc arms r l, viol_if_arms E sc arms r l -> forall r' l', viol_if_arms E sc arms r' l' -> r = r' /\ l = l').
  Proof.
    destruct wf_det as (Ds & Db & Da & Di).
    apply viol_all_mind; intros;
      match goal with H : ?T |- _ =>
        match T with viol_stmt _ _ _ _ _ => idtac | viol_block _ _ _ _ _ => idtac
                   | viol_scan_arms _ _ _ _ _ => idtac | viol_if_arms _ _ _ _ _ => idtac end;
        inversion H; subst; clear H end;
      try (same; fail);
      try (excl2; fail);
      try (det; try (same; fail); try (excl2; fail); try congruence; eauto; fail);
      try congruence;
      try (eauto; fail);
      repeat match goal with
      | H1 : wf_stmt E ?sc ?s ?a, H2 : wf_stmt E ?sc ?s ?b |- _ => rewrite (Ds _ _ _ H1 _ H2) in *; clear H1
      | H1 : wf_block E ?sc ?s ?a, H2 : wf_block E ?sc ?s ?b |- _ => rewrite (Db _ _ _ H1 _ H2) in *; clear H1
      end; eauto.
  Qed.
End Exclusive.

(* ------------------------------------------------------------------ check_complete *)
Lemma wf_stanza_viol q f i st r l : wf_stanza q f i st -> viol_stanza q f i st r l -> False.
Proof.
  intros (names & sc' & Hn & Hw & Hu) Hv. destruct Hv as [r l Hv|names' sc'' n Hn' Hw' Hun].
  - eapply (proj1 (proj2 (wf_viol_excl _))); eassumption.
  - rewrite Hn in Hn'. inversion Hn'; subst. eapply Hu; eassumption.
Qed.

Lemma nth_error_middle {A} (pre : list A) x post : nth_error (pre ++ x :: post) (length pre) = Some x.
Proof. induction pre as [|y pre IH]; cbn; auto. Qed.

Lemma wellformed_not_violates q f r l : WellFormed q f -> Violates q f r l -> False.
Proof.
  intros [Hnd Hst] Hv. destruct Hv as [pre g post Hg Hndp Hin|pre st post r l _ Hs Hpre Hv].
  - rewrite Hg, map_app in Hnd. cbn [map] in Hnd. apply NoDup_remove_2 in Hnd. apply Hnd. apply in_or_app. left. assumption.
  - eapply wf_stanza_viol; [|eassumption]. apply Hst. rewrite Hs. apply nth_error_middle.
Qed.

Lemma check_complete_lemma order q f f' : (forall l, Permutation l (order l)) ->
  check_file_with order q f = CkOk f' -> WellFormed q f /\ forall r l, ~ Violates q f r l.
Proof.
  intros Ho H. pose proof (check_wf_lemma _ _ _ _ Ho H) as Hw. split; [assumption|].
  intros r l Hv. eapply wellformed_not_violates; eassumption.
Qed.

(* an error is never reported for a well-formed file, and a violating file is never accepted *)
Lemma violates_not_ok order q f f' r l : (forall l, Permutation l (order l)) ->
  Violates q f r l -> check_file_with order q f <> CkOk f'.
Proof. intros Ho Hv H. destruct (check_complete_lemma _ _ _ _ Ho H) as [_ Hn]. eapply Hn; eassumption. Qed.

Lemma id_perm (l : list ident) : Permutation l ((fun l => l) l). Proof. apply Permutation_refl. Qed.

(* ------------------------------------------------------------------ the first violation is unique *)
Lemma viol_stanza_det q f i st r l r' l' : viol_stanza q f i st r l -> viol_stanza q f i st r' l' -> r = r' /\ l = l'.
Proof.
  intros H1 H2. destruct H1 as [r l H1|names sc n Hn Hw Hu]; destruct H2 as [r' l' H2|names' sc2 n' Hn' Hw' Hu'].
  - eapply (proj1 (proj2 (viol_det _))); eassumption.
  - exfalso. eapply (proj1 (proj2 (wf_viol_excl _))); eassumption.
  - exfalso. eapply (proj1 (proj2 (wf_viol_excl _))); eassumption.
  - auto.
Qed.

Lemma split_unique {A} (pre : list A) : forall (P Q : nat -> A -> Prop) pre' x x' post post',
  (forall j y, P j y -> Q j y -> False) ->
  pre ++ x :: post = pre' ++ x' :: post' ->
  (forall j y, nth_error pre j = Some y -> P j y) -> Q (length pre) x ->
  (forall j y, nth_error pre' j = Some y -> P j y) -> Q (length pre') x' ->
  pre = pre' /\ x = x'.
Proof.
  induction pre as [|a pre IH]; intros P Q [|a' pre'] x x' post post' Hex Heq Hp Hq Hp' Hq'; cbn [app length] in *.
  - inversion Heq; auto.
  - injection Heq as E1 E2. subst x. exfalso. eapply (Hex 0%nat a'); [apply Hp'; reflexivity|exact Hq].
  - injection Heq as E1 E2. subst x'. exfalso. eapply (Hex 0%nat a); [apply Hp; reflexivity|exact Hq'].
  - injection Heq as E1 E2. subst a'.
    destruct (IH (fun j => P (S j)) (fun j => Q (S j)) pre' x x' post post') as [-> ->]; auto.
    intros j y. apply Hex.
Qed.

Lemma first_dup_unique (pre : list global) : forall seen pre' g g' post post',
  pre ++ g :: post = pre' ++ g' :: post' ->
  NoDup (map gl_name pre) -> (forall y, In y pre -> ~ In (gl_name y) seen) -> In (gl_name g) (seen ++ map gl_name pre) ->
  NoDup (map gl_name pre') -> (forall y, In y pre' -> ~ In (gl_name y) seen) -> In (gl_name g') (seen ++ map gl_name pre') ->
  pre = pre' /\ g = g'.
Proof.
  induction pre as [|a pre IH]; intros seen [|a' pre'] g g' post post' Heq Hnd Hs Hin Hnd' Hs' Hin'; cbn [app map] in *.
  - inversion Heq; auto.
  - injection Heq as E1 E2. subst g. exfalso. rewrite app_nil_r in Hin. apply (Hs' a'); [left; reflexivity|assumption].
  - injection Heq as E1 E2. subst g'. exfalso. rewrite app_nil_r in Hin'. apply (Hs a); [left; reflexivity|assumption].
  - injection Heq as E1 E2. subst a. inversion Hnd as [|? ? Hna Hnd1]; subst. inversion Hnd' as [|? ? Hna' Hnd1']; subst.
    destruct (IH (seen ++ [gl_name a']) pre' g g' post post') as [-> ->]; auto.
    + intros y Hy Hin2. apply in_app_or in Hin2 as [Hin2|[Hin2|[]]]; [apply (Hs y); [right; assumption|assumption]|].
      apply Hna. rewrite Hin2. apply in_map. assumption.
    + rewrite <- app_assoc. exact Hin.
    + intros y Hy Hin2. apply in_app_or in Hin2 as [Hin2|[Hin2|[]]]; [apply (Hs' y); [right; assumption|assumption]|].
      apply Hna'. rewrite Hin2. apply in_map. assumption.
    + rewrite <- app_assoc. exact Hin'.
Qed.

Lemma violation_unique_lemma q f r l r' l' : Violates q f r l -> Violates q f r' l' -> r = r' /\ l = l'.
Proof.
  intros H1 H2.
  destruct H1 as [pre g post Hg Hnd Hin|pre st post r l Hnd Hs Hpre Hv];
    destruct H2 as [pre' g' post' Hg' Hnd' Hin'|pre' st' post' r' l' Hnd' Hs' Hpre' Hv'].
  - rewrite Hg in Hg'. destruct (first_dup_unique pre [] pre' g g' post post' Hg' Hnd (fun _ _ H => H) Hin Hnd' (fun _ _ H => H) Hin') as [_ ->]. auto.
  - exfalso. rewrite Hg, map_app in Hnd'. cbn [map] in Hnd'. apply NoDup_remove_2 in Hnd'. apply Hnd'. apply in_or_app. left. assumption.
  - exfalso. rewrite Hg', map_app in Hnd. cbn [map] in Hnd. apply NoDup_remove_2 in Hnd. apply Hnd. apply in_or_app. left. assumption.
  - rewrite Hs in Hs'.
    destruct (split_unique pre (fun j st => wf_stanza q f j st) (fun j st => exists r l, viol_stanza q f j st r l)
                pre' st st' post post') as [-> ->]; eauto.
    + intros j y Hw (r0 & l0 & Hv0). eapply wf_stanza_viol; eassumption.
    + eapply viol_stanza_det; eassumption.
Qed.

(* ------------------------------------------------------------------ the reported names are exactly the unused captures *)
Lemma check_stanza_unused_exact order q globals i st ns l : (forall l, Permutation l (order l)) ->
  check_stanza order q globals i st = Err (CkUnusedCaptures ns l) ->
  l = st_start st /\ exists cnames, nth_error (qt_stanza_names q) i = Some cnames /\
    forall s, In s ns <-> exists n, s = 64 :: n /\ unused_capture cnames st n.
Proof.
  intros Ho. unfold check_stanza. destruct (nth_error (qt_stanza_names q) i) as [names|] eqn:En; [|discriminate].
  destruct (name_index FULL_MATCH (qt_file_names q)); [|discriminate]. intros H.
  apply obind_err in H as [H|(a & Ha & H)]; [apply check_block_err_plain in H; destruct H|].
  destruct a as [[stmts' env'] used]. cbv beta iota in H.
  destruct (check_block_resolves _ _ _ _ _ _ Ha) as (_ & _ & ->).
  apply obind_err in H as [H|(un & Hun & H)]; [exfalso; eapply unused_captures_no_err; eassumption|].
  destruct un as [|u un]; [discriminate|]. inversion H; subst. split; [reflexivity|]. exists names. split; [reflexivity|].
  intros s. rewrite (unused_captures_In _ _ _ _ _ Ho Hun s). unfold unused_capture. split; intros (m & H1 & H2); exists m; tauto.
Qed.
Lemma check_stanzas_unused_exact order q globals sts ns l : (forall l, Permutation l (order l)) -> forall i,
  check_stanzas order q globals i sts = Err (CkUnusedCaptures ns l) ->
  exists pre st post cnames, sts = pre ++ st :: post /\ l = st_start st /\
    nth_error (qt_stanza_names q) (i + length pre) = Some cnames /\
    forall s, In s ns <-> exists n, s = 64 :: n /\ unused_capture cnames st n.
Proof.
  intros Ho. induction sts as [|st sts IH]; cbn [check_stanzas]; intros i H; [discriminate|].
  apply obind_err in H as [H|(st' & _ & H)].
  - destruct (check_stanza_unused_exact _ _ _ _ _ _ _ Ho H) as (-> & cnames & Hn & Hx).
    exists [], st, sts, cnames. cbn [length app]. rewrite Nat.add_0_r. auto.
  - apply obind_err in H as [H|(sts' & _ & H)]; [|discriminate].
    destruct (IH _ H) as (pre & st0 & post & cnames & -> & -> & Hn & Hx).
    exists (st :: pre), st0, post, cnames. cbn [length app]. rewrite Nat.add_succ_r. auto.
Qed.
Lemma unused_names_exact_lemma q f l names :
  check_file q f = CkErr 10 l names ->
  exists pre st post cnames, f_stanzas f = pre ++ st :: post /\ l = st_start st /\
    nth_error (qt_stanza_names q) (length pre) = Some cnames /\
    forall s, In s names <-> exists n, s = 64 :: n /\ unused_capture cnames st n.
Proof.
  unfold check_file, check_file_with, to_result. destruct (check_file_ck (fun l => l) q f) as [|ce| |] eqn:E; try discriminate.
  intros [= Hv <- <-]. assert (Hce : exists ns l0, ce = CkUnusedCaptures ns l0).
  { destruct ce as [| | | | | | | | | |[| |]]; try discriminate Hv. eauto. }
  destruct Hce as (ns & l0 & ->). cbn [ce_loc ce_names].
  unfold check_file_ck in E. apply obind_err in E as [E|(g & Hg & E)].
  - exfalso. revert E. generalize ([[]] : cenv). induction (f_globals f) as [|g gs IH]; cbn [check_global_table]; intros m E; [discriminate|].
    destruct (varmap_add m (gl_name g) _ false); [eauto|discriminate].
  - apply obind_err in E as [E|(sts' & _ & E)]; [|discriminate].
    apply (check_stanzas_unused_exact _ _ _ _ _ _ id_perm 0%nat E).
Qed.

(* ================================================================== statements as used by Props/C06.v *)

Lemma check_sound_thm q f v l names :
  check_file q f = CkErr v l names -> exists r, rule_code r = v /\ Violates q f r l.
Proof. apply (check_sound_lemma (fun l => l)). exact id_perm. Qed.
Lemma check_complete_thm q f f' :
  check_file q f = CkOk f' -> WellFormed q f /\ forall r l, ~ Violates q f r l.
Proof. apply (check_complete_lemma (fun l => l)). exact id_perm. Qed.
Lemma check_resolves_thm q f f' :
  check_file q f = CkOk f' -> erase_resolution f' = erase_resolution f /\ file_resolved q f'.
Proof. apply check_resolves_lemma. Qed.
Lemma check_deterministic_names_thm (order : list ident -> list ident) :
  (forall l, Permutation l (order l)) ->
  forall q f, check_file_with order q f = check_file q f /\
    forall v l names, check_file_with order q f = CkErr v l names -> StronglySorted str_lt names /\ NoDup names.
Proof.
  intros Ho q f. split; [apply check_file_order; assumption|]. intros v l names H.
  pose proof (check_file_names_sorted _ _ _ _ _ _ Ho H) as Hs. split; [assumption|]. apply sorted_lt_NoDup. assumption.
Qed.
Lemma no_panic_check_thm q f : tables_consistent q f = true -> forall s, check_file q f <> CkPanic s.
Proof. apply no_panic_check_lemma. Qed.
Lemma local_is_pure_partial_thm cx env e e' r :
  env_inv env -> check_expr cx env e = Ok (e', r) -> er_local r = true -> pure_expr (stable_name cx env) e = true.
Proof. intros Hinv Hc Hl. eapply local_is_pure_lemma; eassumption. Qed.
Lemma env_inv_reachable_thm cx :
  env_inv [[]] /\
  (forall env s s' env' u, env_inv env -> check_stmt cx env s = Ok (s', env', u) -> env_inv env') /\
  (forall env body body' env' u, env_inv env -> check_block cx env body = Ok (body', env', u) -> env_inv env') /\
  (forall env, env_inv env -> env_inv (varmap_nested env)) /\
  (forall env x l v env', env_inv env -> unscoped_check_add cx env x l v false = Ok env' -> env_inv env').
Proof.
  split; [exact env_inv_init|]. split; [intros; eapply check_stmt_inv; eassumption|].
  split; [intros; eapply check_block_inv; eassumption|]. split; [exact env_inv_nested|].
  intros; eapply env_inv_add; eassumption.
Qed.
Lemma set_needs_mutable_thm cx env x l v env' :
  unscoped_check_set cx env x l v = Ok env' ->
  varmap_get (cx_globals cx) x = None /\ exists v0, env_find env x = Some (v0, true).
Proof. apply set_needs_mutable_lemma. Qed.
Lemma violation_unique_thm q f r l r' l' : Violates q f r l -> Violates q f r' l' -> r = r' /\ l = l'.
Proof. apply violation_unique_lemma. Qed.
Lemma unused_names_exact_thm q f l names :
  check_file q f = CkErr 10 l names ->
  exists pre st post cnames, f_stanzas f = pre ++ st :: post /\ l = st_start st /\
    nth_error (qt_stanza_names q) (length pre) = Some cnames /\
    forall s, In s names <-> exists n, s = 64 :: n /\ unused_capture cnames st n.
Proof. apply unused_names_exact_lemma. Qed.
