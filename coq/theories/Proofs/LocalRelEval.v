(* Proofs/LocalRelEval.v — C06 locality, semantic half, part 8: two runs of the eager evaluation of an eager_ok
   expression from states that agree on the variables flagged local (and on what is reachable from them in the
   store) have the same outcome — whatever the two scoped stores, the values of the other variables (every `var`),
   the rest of the two thunk stores and the deferred statements are. *)
From TSG Require Import Spec.PureLv Spec.AgreeLv Proofs.BaseFacts Proofs.MonadFacts Proofs.Containers Proofs.LocalPos Proofs.LocalPure Proofs.LocalEval
  Proofs.LocalLeval Proofs.LocalRel.

Lemma stable2_Forall_agree es : stable2 (fun a c => Forall (agree_lv a c) es).
Proof. intros a1 a2 b1 b2 Hs H. eapply Forall_impl; [|exact H]. intros x. apply agree_lv_sext2. exact Hs. Qed.
Lemma stable2_lt n : stable2 (fun a c => (n < length a)%nat /\ (n < length c)%nat).
Proof.
  intros a1 a2 b1 b2 [Hl Hx] [H1 H2].
  destruct (nth_error a1 n) as [t1|] eqn:E1; [|apply nth_error_None in E1; lia].
  destruct (nth_error a2 n) as [t2|] eqn:E2; [|apply nth_error_None in E2; lia].
  destruct (Hx _ _ _ E1 E2) as (u1 & u2 & M1 & M2 & _). split; apply nth_error_Some; congruence.
Qed.

Lemma tr2_set_forced loc v l01 l02 :
  tr2 (fun a b c d => ((N.to_nat loc < length a)%nat /\ (N.to_nat loc < length c)%nat) /\ b = l01 /\ d = l02) (store_set_state loc (TForced v))
      (fun _ a b c d => (b = l01 /\ d = l02) /\
         exists th1 th2, nth_error a (N.to_nat loc) = Some th1 /\ nth_error c (N.to_nat loc) = Some th2 /\ th_state th1 = TForced v /\ th_state th2 = TForced v).
Proof.
  intros s1 s2 p (B1 & B2 & B3) ([L1 L2] & H1 & H2). rewrite !store_set_state_eq. cbn [lset_store l_store l_locals]. unfold set_thunk.
  split; [reflexivity|]. split; [reflexivity|]. split; [repeat split; cbn [lset_store l_graph l_params l_store]; rewrite ?list_update_length; assumption|]. split.
  - split; [rewrite list_update_length; lia|]. intros i t1 t2 N1 N2. rewrite !nth_error_list_update.
    destruct (Nat.eqb_spec i (N.to_nat loc)) as [Heq|Hne]; [|exists t1, t2; auto 8].
    rewrite N1, N2. cbn [option_map]. eexists. eexists. split; [reflexivity|]. split; [reflexivity|]. cbn [th_dbg th_state]. split; [reflexivity|].
    split; [reflexivity|]. right. eauto.
  - split; [split; assumption|].
    destruct (nth_error (l_store s1) (N.to_nat loc)) as [t1|] eqn:E1; [|apply nth_error_None in E1; lia].
    destruct (nth_error (l_store s2) (N.to_nat loc)) as [t2|] eqn:E2; [|apply nth_error_None in E2; lia].
    eexists. eexists. rewrite !nth_error_list_update, Nat.eqb_refl, E1, E2. cbn [option_map]. repeat split.
Qed.

Section Eval2.
  Variable t : tree.
  Variable fl : file.
  Variable call : ident -> graph -> list value -> res (value * graph).
  Notation eval_lv' := (eval_lv t fl call).
  Notation force_thunk' := (force_thunk t fl call).
  Definition L2 (l01 l02 : varmap lvalue) : SP2 := fun _ b _ d => b = l01 /\ d = l02.

  Section Step.
    Variable fuel : nat.
    Hypothesis IHe : forall lv l01 l02, tr2 (fun a b c d => agree_lv a c lv /\ L2 l01 l02 a b c d) (eval_lv' fuel lv) (fun _ => L2 l01 l02).
    Hypothesis IHt : forall loc l01 l02, tr2 (fun a b c d => agree a c loc /\ L2 l01 l02 a b c d) (force_thunk' fuel loc) (fun _ => L2 l01 l02).

    Lemma eval_list2 es l01 l02 :
      tr2 (fun a b c d => Forall (agree_lv a c) es /\ L2 l01 l02 a b c d) (Exec.mapM (eval_lv' fuel) es) (fun _ => L2 l01 l02).
    Proof.
      eapply tr2_conseq; [| |apply (tr2_mapM (fun a b c d => Forall (agree_lv a c) es /\ L2 l01 l02 a b c d) (fun (_ : value) _ _ => True))].
      - auto.
      - intros x a b c d [[_ H] _]. exact H.
      - intros y a1 a2 b1 b2 _ _. exact I.
      - intros x Hx. eapply tr2_conseq; [| |apply (tr2_frame (fun a c => Forall (agree_lv a c) es)); [apply stable2_Forall_agree|apply (IHe x l01 l02)]].
        + intros a b c d [HF HL]. split; [split; [|exact HL]|exact HF]. rewrite Forall_forall in HF. apply HF. exact Hx.
        + intros y a b c d [HL HF]. split; [split; assumption|exact I].
    Qed.
    Lemma eval_args2 (args : list lvalue) l01 l02 :
      tr2 (fun a b c d => Forall (agree_lv a c) args /\ L2 l01 l02 a b c d)
          (iterM (fun x => v <- eval_lv' fuel x ;; lpush_param v) args) (fun _ => L2 l01 l02).
    Proof.
      eapply tr2_conseq; [| |apply (tr2_iterM (fun a b c d => Forall (agree_lv a c) args /\ L2 l01 l02 a b c d))].
      - auto.
      - intros x a b c d [_ H]. exact H.
      - intros x Hx. eapply tr2_bind.
        + eapply tr2_conseq; [| |apply (tr2_frame (fun a c => Forall (agree_lv a c) args)); [apply stable2_Forall_agree|apply (IHe x l01 l02)]].
          * intros a b c d [HF HL]. split; [split; [|exact HL]|exact HF]. rewrite Forall_forall in HF. apply HF. exact Hx.
          * intros y a b c d H. exact H.
        + intros v. cbv beta. eapply tr2_conseq; [| |apply tr2_lpush_param]; [intros a b c d H; exact H|].
          intros y a b c d [HL HF]. split; assumption.
    Qed.

    Lemma eval_lv_step2 lv l01 l02 : tr2 (fun a b c d => agree_lv a c lv /\ L2 l01 l02 a b c d) (eval_lv' (S fuel) lv) (fun _ => L2 l01 l02).
    Proof.
      destruct lv; cbn [eval_lv]; (eapply tr2_bind; [apply tr2_poll|intros u; cbv beta]).
      - apply tr2_ret. intros a b c d [_ H]. exact H.
      - eapply tr2_bind; [|intros vs; apply tr2_ret; intros a b c d H; exact H].
        eapply tr2_conseq; [| |apply (eval_list2 l l01 l02)]; [|intros x a b c d H; exact H]. intros a b c d [H HL]. split; [apply agree_lv_list; exact H|exact HL].
      - eapply tr2_bind; [|intros vs; apply tr2_ret; intros a b c d H; exact H].
        eapply tr2_conseq; [| |apply (eval_list2 l l01 l02)]; [|intros x a b c d H; exact H]. intros a b c d [H HL]. split; [apply agree_lv_set; exact H|exact HL].
      - eapply tr2_conseq; [| |apply (IHt loc l01 l02)]; [|intros x a b c d H; exact H]. intros a b c d [H HL]. split; [apply agree_lv_var; exact H|exact HL].
      - apply tr2_false. intros a b c d [[H _] _]. discriminate.
      - eapply tr2_bind.
        + eapply tr2_conseq; [| |apply (eval_args2 args l01 l02)]; [|intros x a b c d H; exact H]. intros a b c d [H HL]. split; [apply (agree_lv_call a c f); exact H|exact HL].
        + intros u'. cbv beta. eapply tr2_bind; [apply tr2_ldrain_params|]. intros ps. cbv beta. apply tr2_lcall.
    Qed.

    Lemma force_thunk_step2 loc l01 l02 : tr2 (fun a b c d => agree a c loc /\ L2 l01 l02 a b c d) (force_thunk' (S fuel) loc) (fun _ => L2 l01 l02).
    Proof.
      assert (Hk : forall lv, tr2 (fun a b c d => (agree_lv a c lv /\ L2 l01 l02 a b c d) /\ ((N.to_nat loc < length a)%nat /\ (N.to_nat loc < length c)%nat))
                     (v <- eval_lv' fuel lv ;; store_set_state loc (TForced v) ;;; ret v)
                     (fun _ a b c d => L2 l01 l02 a b c d /\
                        exists th1 th2 v, nth_error a (N.to_nat loc) = Some th1 /\ nth_error c (N.to_nat loc) = Some th2 /\ th_state th1 = TForced v /\ th_state th2 = TForced v)).
      { intros lv. eapply tr2_bind; [apply (tr2_frame (fun a c => (N.to_nat loc < length a)%nat /\ (N.to_nat loc < length c)%nat)); [apply stable2_lt|apply (IHe lv l01 l02)]|].
        intros v. cbv beta. eapply tr2_bind; [eapply tr2_conseq; [| |apply (tr2_set_forced loc v l01 l02)]|].
        - intros a b c d [[H1 H2] H]. split; [exact H|split; assumption].
        - intros x a b c d H. exact H.
        - intros u. apply tr2_ret. intros a b c d [HL (th1 & th2 & N1 & N2 & S1 & S2)]. split; [exact HL|]. eauto 8. }
      intros s1 s2 p Hb [Ha HL]. rewrite !force_thunk_S.
      inversion Ha as [? th1 th2 v N1 N2 S1 S2 D|? th1 th2 lv N1 N2 S1 S2 D Hns Hlt Hpl]; subst; rewrite N1, N2, S1, S2.
      - unfold ctx_wrap, ret. split; [reflexivity|]. split; [reflexivity|]. split; [exact Hb|]. split; [apply sext2_refl|exact HL].
      - unfold ctx_wrap. rewrite !set_then.
        set (t1 := lset_store (set_thunk loc TForcing (l_store s1)) s1). set (t2 := lset_store (set_thunk loc TForcing (l_store s2)) s2).
        assert (Hb' : base t1 t2).
        { destruct Hb as (B1 & B2 & B3). unfold t1, t2, base. cbn [lset_store l_graph l_params l_store]. unfold set_thunk. rewrite !list_update_length. auto. }
        assert (HP : (agree_lv (l_store t1) (l_store t2) lv /\ L2 l01 l02 (l_store t1) (l_locals t1) (l_store t2) (l_locals t2)) /\
                     ((N.to_nat loc < length (l_store t1))%nat /\ (N.to_nat loc < length (l_store t2))%nat)).
        { unfold t1, t2. cbn [lset_store l_store l_locals]. unfold set_thunk. split; [split; [|exact HL]|].
          - split; [exact Hns|]. intros l Hin. eapply agree_mono; [apply Hpl; exact Hin|]. intros i u1 u2 Hi M1 M2.
            exists u1, u2. rewrite !nth_error_list_update. specialize (Hlt _ Hin).
            destruct (Nat.eqb_spec i (N.to_nat loc)) as [Heq|_]; [lia|]. auto 8.
          - rewrite !list_update_length. split; apply nth_error_Some; congruence. }
        specialize (Hk lv t1 t2 p Hb' HP). rewrite D.
        destruct ((v <- eval_lv' fuel lv ;; store_set_state loc (TForced v) ;;; ret v) t1 p) as [[[a1 u1] p1]| | |],
                 ((v <- eval_lv' fuel lv ;; store_set_state loc (TForced v) ;;; ret v) t2 p) as [[[a2 u2] p2]| | |]; try exact Hk; try contradiction.
        + destruct Hk as (E1 & E2 & B & [SL SX] & HQ & w1 & w2 & v' & W1 & W2 & X1 & X2).
          split; [exact E1|]. split; [exact E2|]. split; [exact B|]. split; [|exact HQ].
          unfold t1, t2 in SL, SX. cbn [lset_store l_store] in SL, SX. unfold set_thunk in SL, SX. rewrite list_update_length in SL.
          split; [exact SL|]. intros i r1 r2 R1 R2. specialize (SX i). rewrite !nth_error_list_update in SX.
          destruct (Nat.eqb_spec i (N.to_nat loc)) as [Heq|Hne].
          * rewrite Heq in R1, R2, SX. rewrite R1, R2 in SX. cbn [option_map] in SX.
            destruct (SX _ _ eq_refl eq_refl) as (y1 & y2 & Y1 & Y2 & Z1 & Z2 & _). cbn [th_dbg] in Z1, Z2.
            exists y1, y2. rewrite Heq. split; [exact Y1|]. split; [exact Y2|]. split; [exact Z1|]. split; [exact Z2|]. right. exists v'. split; congruence.
          * exact (SX _ _ R1 R2).
        + congruence.
    Qed.
  End Step.

  Theorem eval2 : forall fuel,
    (forall lv l01 l02, tr2 (fun a b c d => agree_lv a c lv /\ L2 l01 l02 a b c d) (eval_lv' fuel lv) (fun _ => L2 l01 l02)) /\
    (forall loc l01 l02, tr2 (fun a b c d => agree a c loc /\ L2 l01 l02 a b c d) (force_thunk' fuel loc) (fun _ => L2 l01 l02)).
  Proof.
    induction fuel as [|fuel [IHe IHt]].
    - split; intros; cbn [eval_lv force_thunk]; apply tr2_oof.
    - split; intros; [apply eval_lv_step2|apply force_thunk_step2]; assumption.
  Qed.
End Eval2.

(* ---------------- leval ---------------- *)
Lemma tr2_lpush_frame (F : list thunk -> list thunk -> Prop) l01 l02 :
  tr2 (fun a b c d => F a c /\ b = l01 /\ d = l02) lpush_frame (fun _ a b c d => F a c /\ b = [] :: l01 /\ d = [] :: l02).
Proof.
  intros s1 s2 p (B1 & B2 & B3) (HF & H1 & H2). unfold lpush_frame, bind, get_state, set_llocals, Lazy.upd, modify. cbn [l_store l_locals].
  split; [reflexivity|]. split; [reflexivity|]. split; [repeat split; assumption|]. split; [apply sext2_refl|]. rewrite H1, H2. auto.
Qed.
Lemma tr2_lpop_frame (F : list thunk -> list thunk -> Prop) l01 l02 :
  tr2 (fun a b c d => F a c /\ (exists fr, b = fr :: l01) /\ (exists fr, d = fr :: l02)) lpop_frame (fun _ a b c d => F a c /\ b = l01 /\ d = l02).
Proof.
  intros s1 s2 p (B1 & B2 & B3) (HF & [f1 H1] & [f2 H2]). unfold lpop_frame, bind, get_state. rewrite H1, H2. unfold set_llocals, Lazy.upd, modify. cbn [l_store l_locals].
  split; [reflexivity|]. split; [reflexivity|]. split; [repeat split; assumption|]. split; [apply sext2_refl|auto].
Qed.
Lemma tr2_lclear_frame (F : list thunk -> list thunk -> Prop) l01 l02 :
  tr2 (fun a b c d => F a c /\ (exists fr, b = fr :: l01) /\ (exists fr, d = fr :: l02)) lclear_frame (fun _ a b c d => F a c /\ b = [] :: l01 /\ d = [] :: l02).
Proof.
  intros s1 s2 p (B1 & B2 & B3) (HF & [f1 H1] & [f2 H2]). unfold lclear_frame, bind, get_state, set_llocals, Lazy.upd, modify. cbn [l_store l_locals].
  rewrite H1, H2. cbn [varmap_clear].
  split; [reflexivity|]. split; [reflexivity|]. split; [repeat split; assumption|]. split; [apply sext2_refl|auto].
Qed.

Lemma stable2_locals_agree env l01 l02 : stable2 (fun a c => locals_agree a c env l01 l02).
Proof.
  intros a1 a2 b1 b2 Hs H x Hx. destruct (H x Hx) as (lv & E1 & E2 & Ha). exists lv. split; [exact E1|]. split; [exact E2|].
  eapply agree_lv_sext2; eassumption.
Qed.

Section Leval2.
  Variable t : tree.
  Variable fl : file.
  Variable glob : globals.
  Variable call : ident -> graph -> list value -> res (value * graph).
  Variable G : ident -> bool.
  Hypothesis Hglob : forall x, G x = true -> exists v, globals_get glob x = Some v.
  Notation leval' := (leval t fl glob call).
  Notation eval_lv' := (eval_lv t fl call).

  Definition Inv2 (env : lenv) (l01 l02 : varmap lvalue) : SP2 := fun a b c d => locals_agree a c env l01 l02 /\ b = l01 /\ d = l02.

  Lemma tr2_lunscoped_get env l01 l02 x : name_ok G env x = true ->
    tr2 (Inv2 env l01 l02) (lunscoped_get glob x) (fun lv a b c d => Inv2 env l01 l02 a b c d /\ agree_lv a c lv).
  Proof.
    intros Hn s1 s2 p Hb (Hag & H1 & H2). unfold lunscoped_get. destruct (globals_get glob x) as [v|] eqn:Eg.
    - unfold ret. split; [reflexivity|]. split; [reflexivity|]. split; [exact Hb|]. split; [apply sext2_refl|]. split; [split; auto|apply agree_lv_value].
    - unfold name_ok in Hn. apply orb_true_iff in Hn. destruct Hn as [Hn|Hn]; [destruct (Hglob _ Hn) as [v Hv]; congruence|].
      destruct (lenv_get env x) as [[|]|] eqn:El; try discriminate. destruct (Hag x El) as (lv & E1 & E2 & Ha).
      unfold bind, get_state. rewrite H1, H2, E1, E2. unfold ret.
      split; [reflexivity|]. split; [reflexivity|]. split; [exact Hb|]. split; [apply sext2_refl|]. split; [split; auto|exact Ha].
  Qed.

  (* the loop variable of a comprehension *)
  Lemma tr2_add_loop_var le x v env l01 l02 :
    tr2 (fun a b c d => locals_agree a c env l01 l02 /\ b = [] :: l01 /\ d = [] :: l02)
        (lunscoped_add glob le x (LValue v) false)
        (fun _ a b c d => exists loc, Inv2 ([(x, true)] :: env) ([(x, (LVar loc, false))] :: l01) ([(x, (LVar loc, false))] :: l02) a b c d /\
                                      locals_agree a c env l01 l02).
  Proof.
    intros s1 s2 p (B1 & B2 & B3) (Hag & H1 & H2). destruct (globals_get glob x) as [w|] eqn:Eg.
    { unfold lunscoped_add. rewrite Eg. reflexivity. }
    rewrite !(lunscoped_add_eq glob le x (LValue v) false _ p Eg). rewrite H1, H2, B3. cbn [varmap_add alist_get app].
    cbn [lset_locs lset_store l_store l_locals].
    split; [reflexivity|]. split; [reflexivity|]. split; [repeat split; cbn [lset_locs lset_store l_graph l_params l_store]; rewrite ?app_length; try assumption; rewrite B3; reflexivity|].
    split; [apply sext2_app; exact B3|]. exists (N.of_nat (length (l_store s2))).
    split; [|eapply (stable2_locals_agree env l01 l02); [apply sext2_app; exact B3|exact Hag]]. split; [|split; reflexivity].
    intros y Hy. cbn [lenv_get alist_get] in Hy. cbn [varmap_get alist_get]. destruct (str_eqb y x).
    - eexists. split; [reflexivity|]. split; [reflexivity|]. apply agree_lv_var. rewrite <- B3. apply agree_new; [exact B3|apply agree_lv_value].
    - destruct (Hag y Hy) as (lv & E1 & E2 & Ha). exists lv. split; [exact E1|]. split; [exact E2|].
      eapply agree_lv_sext2; [apply sext2_app; exact B3|exact Ha].
  Qed.

  Lemma tr2_eval_inv env l01 l02 fuel lv :
    tr2 (fun a b c d => Inv2 env l01 l02 a b c d /\ agree_lv a c lv) (eval_lv' fuel lv) (fun _ => Inv2 env l01 l02).
  Proof.
    eapply tr2_conseq; [| |apply (tr2_frame (fun a c => locals_agree a c env l01 l02)); [apply stable2_locals_agree|apply (proj1 (eval2 t fl call fuel) lv l01 l02)]].
    - intros a b c d [(H1 & H2 & H3) H4]. split; [split; [exact H4|split; assumption]|exact H1].
    - intros x a b c d [[H1 H2] H3]. split; [exact H3|split; assumption].
  Qed.

  Lemma leval2 : forall fuel le e env l01 l02, eager_ok G env e = true ->
    tr2 (Inv2 env l01 l02) (leval' fuel le e) (fun lv a b c d => Inv2 env l01 l02 a b c d /\ agree_lv a c lv).
  Proof.
    induction fuel as [|fuel IH]; intros le e env l01 l02 Hok; [apply tr2_oof|].
    assert (Hlist : forall es, forallb (eager_ok G env) es = true ->
      tr2 (Inv2 env l01 l02) (Exec.mapM (leval' fuel le) es) (fun lvs a b c d => Inv2 env l01 l02 a b c d /\ Forall (agree_lv a c) lvs)).
    { intros es Hes. apply (tr2_mapM (Inv2 env l01 l02) (fun lv a c => agree_lv a c lv)).
      - intros y a1 a2 b1 b2 Hs H. eapply agree_lv_sext2; eassumption.
      - intros x Hx. rewrite forallb_forall in Hes. apply (IH le x env l01 l02 (Hes _ Hx)). }
    assert (Hcomp : forall elem var value, eager_ok G env value = true -> eager_ok G ([(var, true)] :: env) elem = true ->
      tr2 (Inv2 env l01 l02)
         (lv <- (lv <- leval' fuel le value ;; eval_lv' (S fuel + default_eval_fuel) lv) ;; vals <- lift (as_list lv) ;;
          lpush_frame ;;;
          out <- Exec.mapM (fun v => lclear_frame ;;; lunscoped_add glob le var (LValue v) false ;;; leval' fuel le elem) vals ;;
          lpop_frame ;;; ret out)
         (fun out a b c d => Inv2 env l01 l02 a b c d /\ Forall (agree_lv a c) out)).
    { intros elem var value Hv Hel.
      eapply tr2_bind.
      { eapply tr2_bind; [apply (IH le value env l01 l02 Hv)|]. intros lv. cbv beta. apply tr2_eval_inv. }
      intros lv. cbv beta. eapply tr2_bind; [apply tr2_lift|]. intros vals. cbv beta.
      eapply tr2_bind; [apply (tr2_lpush_frame (fun a c => locals_agree a c env l01 l02))|]. intros u. cbv beta.
      eapply tr2_bind.
      - eapply tr2_conseq; [| |apply (tr2_mapM (fun a b c d => locals_agree a c env l01 l02 /\ (exists fr, b = fr :: l01) /\ (exists fr, d = fr :: l02))
                                      (fun lv a c => agree_lv a c lv))].
        + intros a b c d (H1 & H2 & H3). split; [exact H1|]. split; eauto.
        + intros x a b c d H. exact H.
        + intros y a1 a2 b1 b2 Hs H. eapply agree_lv_sext2; eassumption.
        + intros v _. eapply tr2_bind; [apply (tr2_lclear_frame (fun a c => locals_agree a c env l01 l02))|]. intros u1. cbv beta.
          eapply tr2_bind; [apply tr2_add_loop_var|]. intros u2. cbv beta. apply tr2_exists. intros loc.
          eapply tr2_conseq; [| |apply (tr2_frame (fun a c => locals_agree a c env l01 l02)); [apply stable2_locals_agree|
                                     apply (IH le elem ([(var, true)] :: env) ([(var, (LVar loc, false))] :: l01) ([(var, (LVar loc, false))] :: l02) Hel)]].
          * intros a b c d [H HF]. split; [exact H|exact HF].
          * intros lv' a b c d [[(_ & H2 & H3) H4] H5]. split; [|exact H4]. split; [exact H5|]. split; eauto.
      - intros out. cbv beta. eapply tr2_bind; [|intros u3; apply tr2_ret; intros a b c d H; exact H].
        eapply tr2_conseq; [| |apply (tr2_lpop_frame (fun a c => locals_agree a c env l01 l02 /\ Forall (agree_lv a c) out) l01 l02)].
        + intros a b c d [(H1 & H2 & H3) H4]. split; [split; assumption|split; assumption].
        + intros x a b c d [[H1 H2] H3]. split; [split; assumption|exact H2]. }
    destruct e; cbn [leval]; cbn [eager_ok] in Hok; try discriminate.
    1-5: apply tr2_ret; intros a b c d H; (split; [exact H|apply agree_lv_value]).
    - eapply tr2_bind; [apply (Hlist es Hok)|]. intros vs. apply tr2_ret. intros a b c d [HI HF]. split; [exact HI|]. apply agree_lv_list. exact HF.
    - eapply tr2_bind; [apply (Hlist es Hok)|]. intros vs. apply tr2_ret. intros a b c d [HI HF]. split; [exact HI|]. apply agree_lv_set. exact HF.
    - apply andb_true_iff in Hok. destruct Hok as [Hv Hel]. eapply tr2_bind; [apply (Hcomp e1 var e2 Hv Hel)|]. intros out.
      apply tr2_ret. intros a b c d [HI HF]. split; [exact HI|]. apply agree_lv_list. exact HF.
    - apply andb_true_iff in Hok. destruct Hok as [Hv Hel]. eapply tr2_bind; [apply (Hcomp e1 var e2 Hv Hel)|]. intros out.
      apply tr2_ret. intros a b c d [HI HF]. split; [exact HI|]. apply agree_lv_set. exact HF.
    - eapply tr2_bind; [apply tr2_lift|]. intros v. apply tr2_ret. intros a b c d H. split; [exact H|apply agree_lv_value].
    - apply tr2_lunscoped_get. exact Hok.
    - eapply tr2_bind; [apply (Hlist args Hok)|]. intros vs. apply tr2_ret. intros a b c d [HI HF]. split; [exact HI|]. apply (agree_lv_call a c f). exact HF.
    - destruct (nth_error (ll_caps le) (N.to_nat i)); [|apply tr2_fail]. apply tr2_ret. intros a b c d H. split; [exact H|apply agree_lv_value].
  Qed.
End Leval2.

(* evaluate_eager from two agreeing states *)
Section Leager2.
  Variable t : tree.
  Variable fl : file.
  Variable glob : globals.
  Variable call : ident -> graph -> list value -> res (value * graph).
  Variable G : ident -> bool.
  Hypothesis Hglob : forall x, G x = true -> exists v, globals_get glob x = Some v.

  Lemma leager2 fuel le e env l01 l02 : eager_ok G env e = true ->
    tr2 (Inv2 env l01 l02) (leager t fl glob call fuel le e) (fun _ => Inv2 env l01 l02).
  Proof.
    intros He. unfold leager. eapply tr2_bind; [apply (leval2 t fl glob call G Hglob fuel le e env l01 l02 He)|]. intros lv. cbv beta.
    apply tr2_eval_inv.
  Qed.

  Theorem leager_states_agree fuel le e env s1 s2 p : eager_ok G env e = true -> states_agree env s1 s2 ->
    outcomes_agree (leager t fl glob call fuel le e s1 p) (leager t fl glob call fuel le e s2 p) /\
    (forall v1 s1' p1 v2 s2' p2, leager t fl glob call fuel le e s1 p = Ok (v1, s1', p1) -> leager t fl glob call fuel le e s2 p = Ok (v2, s2', p2) ->
       states_agree env s1' s2').
  Proof.
    intros He (B1 & B2 & B3 & Hag).
    pose proof (leager2 fuel le e env (l_locals s1) (l_locals s2) He s1 s2 p (conj B1 (conj B2 B3)) (conj Hag (conj eq_refl eq_refl))) as H.
    destruct (leager t fl glob call fuel le e s1 p) as [[[a1 t1] p1]| | |], (leager t fl glob call fuel le e s2 p) as [[[a2 t2] p2]| | |];
      try contradiction; try (split; [exact H|intros; discriminate]).
    destruct H as (E1 & E2 & (C1 & C2 & C3) & _ & (Hag' & L1 & L2)). split; [cbn [outcomes_agree]; auto|].
    intros v1 s1' q1 v2 s2' q2 X1 X2. inversion X1; subst. inversion X2; subst.
    split; [exact C1|]. split; [exact C2|]. split; [exact C3|]. rewrite L1, L2. exact Hag'.
  Qed.
End Leager2.

(* a state that satisfies the invariant agrees with itself, hence with every state obtained from it by changing
   what `states_agree` does not mention *)
Lemma agree_refl st l : pure_loc st l -> agree st st l.
Proof.
  induction 1 as [loc th v Hn Hs|loc th lv Hn Hs Hns Hlt Hp IH].
  - eapply AG_forced; eauto.
  - eapply AG_unforced; eauto.
Qed.
Lemma locals_ok_agree st env l : locals_ok st env l -> locals_agree st st env l l.
Proof.
  intros H x Hx. pose proof (locals_get st env l x H) as Hg. rewrite Hx in Hg. destruct Hg as (lv & E & Hp). exists lv. split; [exact E|]. split; [exact E|].
  destruct (Hp eq_refl) as [P1 P2]. split; [exact P1|]. intros l0 Hin. apply agree_refl. apply P2. exact Hin.
Qed.
Lemma locals_ok_states_agree env s : locals_ok (l_store s) env (l_locals s) -> states_agree env s s.
Proof. intros H. split; [reflexivity|]. split; [reflexivity|]. split; [reflexivity|]. apply locals_ok_agree. exact H. Qed.
