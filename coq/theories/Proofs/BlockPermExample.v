(* Proofs/BlockPermExample.v — C08: a concrete two-stanza program in the fragment of Proofs/BlockPermEval.v.
       (module) @_m { node a  attr (a) x = (plus 1 2) }
       (module) @_m { node b  node c  edge b -> c  attr (b -> c) w = 7 }
   The two orders of the blocks number the graph nodes differently (a=0,b=1,c=2 versus b=0,c=1,a=2); the
   graphs differ, and they are isomorphic under the renumbering 0->2, 1->0, 2->1.  The hypotheses of
   lazy_run_perm hold for it. *)
From Coq Require Import Permutation.
From TSG Require Import Model.Run Model.Stdlib Proofs.K7 Proofs.SLExpr Proofs.EvalPerm
  Proofs.BlockPermRen Proofs.BlockPermSim Proofs.BlockPermSwap Proofs.BlockPermExec Proofs.BlockPermGraph Proofs.BlockPermEval Proofs.BlockPermStd.
Open Scope N_scope.

Definition c8_l0 : loc := (0, 0).
Definition c8_va (s : N) : expr := EUnscoped [s] c8_l0.
Definition c8_file : file :=
  {| f_globals := []; f_inherited := []; f_shorthands := [];
     f_stanzas := [
       {| st_stmts := [SNode (VarU [97] c8_l0) [97] c8_l0; SAttrNode (c8_va 97) [Attr [120] (ECall Lit.plus [EInt 1; EInt 2])] c8_l0];
          st_full_stanza_idx := 0; st_full_file_idx := 0; st_start := c8_l0 |};
       {| st_stmts := [SNode (VarU [98] c8_l0) [98] c8_l0; SNode (VarU [99] c8_l0) [99] c8_l0; SEdge (c8_va 98) (c8_va 99) c8_l0;
                       SAttrEdge (c8_va 98) (c8_va 99) [Attr [119] (EInt 7)] c8_l0];
          st_full_stanza_idx := 0; st_full_file_idx := 0; st_start := c8_l0 |} ] |}.
Definition c8_m : qmatch := [(0, [0])].
Definition c8_ms : list (N * qmatch) := [(0, c8_m); (1, c8_m)].
Definition c8_ms' : list (N * qmatch) := [(1, c8_m); (0, c8_m)].
Definition c8_okfn (f : ident) : Prop := f = Lit.plus.
Definition c8_call := the_call k7_tree [].

Definition c8_g : graph :=
  [ {| g_attrs := [([120], VInt 3)]; g_edges := [] |};
    {| g_attrs := []; g_edges := [(2, [([119], VInt 7)])] |};
    {| g_attrs := []; g_edges := [] |} ].
Definition c8_g' : graph :=
  [ {| g_attrs := []; g_edges := [(1, [([119], VInt 7)])] |};
    {| g_attrs := []; g_edges := [] |};
    {| g_attrs := [([120], VInt 3)]; g_edges := [] |} ].
Definition c8_r (i : N) : N := match i with 0 => 2 | 1 => 0 | 2 => 1 | _ => i end.

Lemma c8_run : lgraph_of (run_lazy k7_tree c8_file config0 [[]] None ([] : list regex) rx_captures c8_call default_fuel c8_ms []) = Ok c8_g.
Proof. vm_compute. reflexivity. Qed.
Lemma c8_run' : lgraph_of (run_lazy k7_tree c8_file config0 [[]] None ([] : list regex) rx_captures c8_call default_fuel c8_ms' []) = Ok c8_g'.
Proof. vm_compute. reflexivity. Qed.
Lemma c8_differ : c8_g <> c8_g'. Proof. discriminate. Qed.

Lemma c8_iso : graph_iso c8_r c8_g c8_g'.
Proof.
  split; [reflexivity|]. intros i nd E.
  assert (Hi : i = 0 \/ i = 1 \/ i = 2).
  { assert (N.to_nat i < 3)%nat by (change 3%nat with (length c8_g); apply nth_error_Some; congruence). lia. }
  destruct Hi as [ -> | [ -> | -> ] ]; cbn in E; inversion E; subst nd; clear E; (eexists; split; [reflexivity|]); cbn [g_attrs g_edges].
  - split; [intros k; reflexivity|]. intros b. cbn [edges_get]. destruct b as [|[[p|p|]|[p|p|]|]]; exact I.
  - split; [intros k; reflexivity|]. intros b. destruct b as [|[[p|p|]|[p|p|]|]]; cbn; try exact I. intros k. reflexivity.
  - split; [intros k; reflexivity|]. intros b. cbn [edges_get]. exact I.
Qed.

(* the hypotheses of the theorems are satisfiable on this program *)
Lemma c8_call_ok : forall f, c8_okfn f -> call_ok c8_call f.
Proof. intros f ->. apply stdlib_call_ok. intros fn E. vm_compute in E. inversion E; subst fn. exact I. Qed.
Lemma c8_blocks_ok : Forall (pm_ok c8_file c8_okfn) c8_ms.
Proof.
  unfold c8_ms. constructor; [|constructor; [|constructor]]; intros st E; vm_compute in E; inversion E; subst st; (split; [cbn; unfold c8_okfn; repeat split|apply Forall_nil]).
Qed.
Lemma c8_globals_ok : forall glob, check_globals (f_globals c8_file) (globals_nested [[]]) = Ok glob ->
  forall name v, globals_get glob name = Some v -> vall (fun i => i < N.of_nat (length (@nil gnode))) v.
Proof. intros glob E. vm_compute in E. inversion E; subst glob. intros name v H. discriminate. Qed.

Lemma c8_run_state : exists ls p, run_lazy k7_tree c8_file config0 [[]] None ([] : list regex) rx_captures c8_call default_fuel c8_ms [] = Ok (ls, p) /\ l_graph ls = c8_g.
Proof. eexists. eexists. split; [vm_compute; reflexivity|reflexivity]. Qed.

Example c8_theorem_applies :
  exists r r', (forall i, r' (r i) = i) /\ (forall i, r (r' i) = i) /\
    exists F0, forall F, (F0 <= F)%nat -> exists ls' p',
      run_lazy2 k7_tree c8_file config0 [[]] None ([] : list regex) rx_captures c8_call default_fuel F c8_ms' [] = Ok (ls', p') /\
      graph_iso r c8_g (l_graph ls').
Proof.
  destruct c8_run_state as (ls & p & E & Hg).
  destruct (lazy_run_perm k7_tree c8_file [[]] [] rx_captures c8_call c8_okfn default_fuel c8_ms c8_ms' [] ls p c8_call_ok (Forall_nil _) c8_globals_ok
              (perm_swap _ _ _) c8_blocks_ok E) as (r & r' & I1 & I2 & _ & F0 & HF).
  exists r, r'. split; [exact I1|]. split; [exact I2|]. exists F0. intros F HF0. destruct (HF F HF0) as (ls' & p' & E' & Hiso). exists ls', p'. split; [exact E'|]. rewrite <- Hg. exact Hiso.
Qed.

(* ---- outside the fragment: with a location debug attribute the stanza order IS observable ----
       global r
       (module) @_m { edge r -> r }     (statement at line 2)
       (module) @_m { edge r -> r }     (statement at line 6)
   LazyCreateEdge::evaluate gives a NEW edge the debug attributes of the statement being evaluated and leaves an existing edge
   alone (`if let Ok(edge) = graph[source].add_edge(sink) { edge.attributes = self.attributes.clone(); }`), and the deferred edge
   statements are evaluated in stanza order: the edge carries the location of the stanza that comes first. *)
Definition dx_file : file :=
  {| f_globals := [{| gl_name := [114]; gl_quant := QOne; gl_default := None; gl_loc := (0, 0) |}]; f_inherited := []; f_shorthands := [];
     f_stanzas := [
       {| st_stmts := [SEdge (EUnscoped [114] (0, 0)) (EUnscoped [114] (0, 0)) (1, 2)]; st_full_stanza_idx := 0; st_full_file_idx := 0; st_start := (0, 0) |};
       {| st_stmts := [SEdge (EUnscoped [114] (0, 0)) (EUnscoped [114] (0, 0)) (5, 2)]; st_full_stanza_idx := 0; st_full_file_idx := 0; st_start := (0, 0) |} ] |}.
Definition dx_cfg : config := {| c_loc_attr := Some [108]; c_var_attr := None; c_match_attr := None |}.
Definition dx_run (ms : list (N * qmatch)) : outcome exec_error graph :=
  lgraph_of (run_lazy k7_tree dx_file dx_cfg [[([114], VGraph 0)]] None ([] : list regex) rx_captures (the_call k7_tree []) default_fuel ms [new_gnode]).
Definition dx_loc (line : N) : str := [108; 105; 110; 101; 32; line; 32; 99; 111; 108; 117; 109; 110; 32; 51].   (* "line <d> column 3" *)
Lemma dx_order_observable :
  dx_run [(0, c8_m); (1, c8_m)] = Ok [{| g_attrs := []; g_edges := [(0, [([108], VStr (dx_loc 50))])] |}] /\
  dx_run [(1, c8_m); (0, c8_m)] = Ok [{| g_attrs := []; g_edges := [(0, [([108], VStr (dx_loc 54))])] |}].
Proof. split; vm_compute; reflexivity. Qed.
