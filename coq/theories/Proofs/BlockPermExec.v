(* Proofs/BlockPermExec.v — C08, part 4 (STEP 2): the execution phase of the lazy interpreter on ANY order of the
   blocks.  Every block has a canonical delta: what it appends when it is run alone from the reference state s0
   (the state before the first block).  Running a list of blocks from s0 succeeds iff every block succeeds
   alone, and then the state is s0 followed by the deltas in list order, each one shifted to the sizes reached
   before it.  Hence a permutation of the blocks succeeds/fails alike and yields the permuted deltas laid out
   again (`exec_phase_perm`). *)
From Coq Require Import Permutation.
From TSG Require Import Model.Lazy Proofs.BaseFacts Proofs.MonadFacts Proofs.SLForce Proofs.SLExpr Proofs.EvalPermLazy
  Proofs.BlockPermRen Proofs.BlockPermSim Proofs.BlockPermSwap.

Definition dnil : delta := {| d_nodes := []; d_thunks := []; d_edges := []; d_attrs := []; d_prints := [] |}.
Definition dapp (a b : delta) : delta :=
  {| d_nodes := d_nodes a ++ d_nodes b; d_thunks := d_thunks a ++ d_thunks b; d_edges := d_edges a ++ d_edges b;
     d_attrs := d_attrs a ++ d_attrs b; d_prints := d_prints a ++ d_prints b |}.
Definition dcat (l : list delta) : delta := fold_right dapp dnil l.
(* the deltas of a list of blocks, each shifted from the reference sizes (gb, kb) to the sizes reached before it *)
Fixpoint lay (gb kb g k : N) (ds : list delta) : list delta :=
  match ds with
  | [] => []
  | d :: ds' => dren (shg gb g) (shl kb k) d :: lay gb kb (g + N.of_nat (length (d_nodes d))) (k + N.of_nat (length (d_thunks d))) ds'
  end.

Lemma extends_nil s s' : l_graph s' = l_graph s -> l_store s' = l_store s -> l_edges s' = l_edges s -> l_attrs s' = l_attrs s -> l_prints s' = l_prints s ->
  l_params s' = l_params s -> l_scoped s' = l_scoped s -> l_prev s' = l_prev s -> length (l_locals s') = length (l_locals s) -> extends s dnil s'.
Proof. intros. unfold extends, dnil; cbn [d_nodes d_thunks d_edges d_attrs d_prints]. rewrite !app_nil_r. repeat split; assumption. Qed.
Lemma extends_app s a s1 b s2 : extends s a s1 -> extends s1 b s2 -> extends s (dapp a b) s2.
Proof.
  intros (A1 & A2 & A3 & A4 & A5 & A6 & A7 & A8 & A9) (B1 & B2 & B3 & B4 & B5 & B6 & B7 & B8 & B9). unfold extends, dapp; cbn [d_nodes d_thunks d_edges d_attrs d_prints].
  rewrite B1, B2, B3, B4, B5, A1, A2, A3, A4, A5, <- !app_assoc. repeat split; congruence.
Qed.
Lemma extends_det s d1 d2 s' : extends s d1 s' -> extends s d2 s' -> d1 = d2.
Proof.
  intros (A1 & A2 & A3 & A4 & A5 & _) (B1 & B2 & B3 & B4 & B5 & _). destruct d1 as [n1 t1 e1 a1 p1], d2 as [n2 t2 e2 a2 p2]; cbn [d_nodes d_thunks d_edges d_attrs d_prints] in *.
  rewrite A1 in B1. rewrite A2 in B2. rewrite A3 in B3. rewrite A4 in B4. rewrite A5 in B5.
  apply app_inv_head in B1, B2, B3, B4, B5. congruence.
Qed.

Section Exec.
  Context {rx : Type}.
  Variables (t : tree) (fl : file) (cfg : config) (glob : globals) (regexes : list rx)
            (find : rx -> str -> option (list (option (N * N))))
            (call : ident -> graph -> list value -> res (value * graph)).
  Variable eaok : amap -> Prop.
  Variable okfn : ident -> Prop.
  Variable n0 : N.
  Hypothesis Hea : forall l : loc, eaok (match c_loc_attr cfg with Some k => [(k, VStr (loc_text l))] | None => [] end).
  Hypothesis Hcall : forall f, okfn f -> call_ok call f.
  Hypothesis Hglob : forall name v, globals_get glob name = Some v -> vall (fun i => i < n0) v.
  Variable s0 : lstate.
  Hypothesis Hs0n : n0 <= gn s0.
  Hypothesis Hs0f : one_frame s0.

  Notation run st qm fuel := (lexec_stanza t fl cfg glob regexes find call fuel st qm).
  Definition bstep (fuel : nat) (pm : N * qmatch) : M lstate unit :=
    match nth_error (f_stanzas fl) (N.to_nat (fst pm)) with
    | Some st => run st (snd pm) fuel
    | None => panic P_stanza_index
    end.
  (* the block (stanza index, match) is in the fragment *)
  Definition pm_ok (pm : N * qmatch) : Prop := forall st, nth_error (f_stanzas fl) (N.to_nat (fst pm)) = Some st -> block_ok fl okfn st (snd pm).
  (* the canonical delta of a block: it succeeds alone from s0 and appends d *)
  Definition block_delta (fuel : nat) (pm : N * qmatch) (d : delta) : Prop :=
    exists st s' p', nth_error (f_stanzas fl) (N.to_nat (fst pm)) = Some st /\ run st (snd pm) fuel s0 (polls0 None) = Ok (tt, s', p') /\
                     extends s0 d s' /\ delta_ok eaok okfn n0 (gn s0) (sn s0) d.

  Lemma block_delta_det fuel pm d1 d2 : block_delta fuel pm d1 -> block_delta fuel pm d2 -> d1 = d2.
  Proof. intros (st & s' & p' & E1 & R1 & X1 & _) (st2 & s2 & p2 & E2 & R2 & X2 & _). rewrite E1 in E2. inversion E2; subst st2. rewrite R1 in R2. inversion R2; subst. eapply extends_det; eauto. Qed.
  Lemma block_deltas_det fuel ms : forall ds1 ds2, Forall2 (block_delta fuel) ms ds1 -> Forall2 (block_delta fuel) ms ds2 -> ds1 = ds2.
  Proof.
    induction ms as [|pm ms IH]; intros ds1 ds2 H1 H2; inversion H1; inversion H2; subst; [reflexivity|]. f_equal; [eapply block_delta_det; eauto|apply IH; assumption].
  Qed.

  Lemma nob0 : nob (polls0 None). Proof. reflexivity. Qed.

  Lemma exec_blocks fuel : forall ms s p, Forall pm_ok ms -> n0 <= gn s -> one_frame s -> nob p ->
    match iterM (bstep fuel) ms s p with
    | Ok (_, s', p') => nob p' /\ exists ds, Forall2 (block_delta fuel) ms ds /\ extends s (dcat (lay (gn s0) (sn s0) (gn s) (sn s) ds)) s'
    | _ => ~ exists ds, Forall2 (block_delta fuel) ms ds
    end.
  Proof.
    induction ms as [|pm ms IH]; intros s p Hok Hn Hf Hp; cbn [iterM].
    - cbn. split; [exact Hp|]. exists []. split; [constructor|]. cbn [lay dcat fold_right]. apply extends_nil; reflexivity.
    - inversion Hok as [|? ? Hpm Hrest]; subst. unfold bind, bstep at 1. destruct (nth_error (f_stanzas fl) (N.to_nat (fst pm))) as [st|] eqn:Est.
      2:{ cbn. intros (ds & HF). inversion HF as [|? d ? ds' (st & s' & p' & E & _) _]; subst. congruence. }
      pose proof (block_shift t fl cfg glob regexes find call eaok okfn n0 Hea Hcall Hglob st (snd pm) fuel s0 s p (Hpm st Est) Hs0n Hn Hs0f Hf) as SH.
      pose proof (run_repoll t fl cfg glob regexes find call st (snd pm) fuel s0 p (polls0 None) Hp nob0) as RP.
      assert (Hfail : forall r, run st (snd pm) fuel s0 p = r -> (forall u s' p', r <> Ok (u, s', p')) -> ~ exists ds, Forall2 (block_delta fuel) (pm :: ms) ds).
      { intros r Er Hno (ds & HF). inversion HF as [|? d ? ds' (st2 & s' & p' & E & Rn & _) _]; subst. rewrite Est in E. inversion E; subst st2.
        rewrite Rn in RP. destruct (run st (snd pm) fuel s0 p) as [[[u1 s1] p1]|e|x|]; try discriminate. eapply Hno; reflexivity. }
      destruct (run st (snd pm) fuel s0 p) as [[[u0 s0'] p0']|e|x|] eqn:E0.
      + destruct SH as (d & s1 & E1 & X0 & X1 & Od). rewrite E1. destruct RP as (q' & RP & _).
        destruct (extends_sizes _ _ _ X1) as (G1 & K1 & F1). cbn [dren d_nodes d_thunks] in G1, K1. rewrite map_length in K1.
        assert (Hp1 : nob p0') by (eapply run_nob; [exact Hp|exact E1]).
        specialize (IH s1 p0' Hrest ltac:(lia) (F1 Hf) Hp1). rewrite G1, K1 in IH.
        destruct (iterM (bstep fuel) ms s1 p0') as [[[u2 s2] p2]|e2|x2|].
        * destruct IH as (Hp2 & ds & HF & X2). split; [exact Hp2|]. exists (d :: ds). split.
          -- constructor; [|exact HF]. exists st, s0', q'. split; [exact Est|]. split; [exact RP|]. split; [exact X0|exact Od].
          -- cbn [lay dcat fold_right]. eapply extends_app; [exact X1|exact X2].
        * intros (ds & HF). apply IH. inversion HF; subst. eauto.
        * intros (ds & HF). apply IH. inversion HF; subst. eauto.
        * intros (ds & HF). apply IH. inversion HF; subst. eauto.
      + rewrite SH. apply (Hfail _ eq_refl). intros; discriminate.
      + rewrite SH. apply (Hfail _ eq_refl). intros; discriminate.
      + rewrite SH. apply (Hfail _ eq_refl). intros; discriminate.
  Qed.

  (* STEP 2 *)
  Theorem exec_phase_perm fuel ms ms' p : Permutation ms ms' -> Forall pm_ok ms -> nob p ->
    match iterM (bstep fuel) ms s0 p with
    | Ok (_, s', _) =>
        exists ds ds' s'' p'', Forall2 (block_delta fuel) ms ds /\ Forall2 (block_delta fuel) ms' ds' /\ Permutation ds ds' /\
          extends s0 (dcat (lay (gn s0) (sn s0) (gn s0) (sn s0) ds)) s' /\
          iterM (bstep fuel) ms' s0 p = Ok (tt, s'', p'') /\ nob p'' /\ extends s0 (dcat (lay (gn s0) (sn s0) (gn s0) (sn s0) ds')) s''
    | _ => forall r, iterM (bstep fuel) ms' s0 p <> Ok r
    end.
  Proof.
    intros HP Hok Hp.
    assert (Hok' : Forall pm_ok ms') by (apply Forall_forall; intros x Hx; rewrite Forall_forall in Hok; apply Hok; eapply Permutation_in; [apply Permutation_sym, HP|exact Hx]).
    pose proof (exec_blocks fuel ms s0 p Hok Hs0n Hs0f Hp) as H1. pose proof (exec_blocks fuel ms' s0 p Hok' Hs0n Hs0f Hp) as H2.
    destruct (iterM (bstep fuel) ms s0 p) as [[[u s'] p']|e|x|].
    - destruct H1 as (_ & ds & HF & X). destruct (Forall2_perm _ _ _ HP _ HF) as (ds' & Pd & HF').
      destruct (iterM (bstep fuel) ms' s0 p) as [[[[] s''] p'']|e|x|]; try (exfalso; apply H2; eauto).
      destruct H2 as (Hp'' & ds2 & HF2 & X2). rewrite (block_deltas_det fuel ms' ds2 ds' HF2 HF') in X2.
      exists ds, ds', s'', p''. repeat (split; [assumption|]). split; [reflexivity|]. split; assumption.
    - intros r Er. rewrite Er in H2. destruct r as [[[] s''] p'']. destruct H2 as (_ & ds' & HF' & _).
      destruct (Forall2_perm _ _ _ (Permutation_sym HP) _ HF') as (ds & _ & HF). apply H1. eauto.
    - intros r Er. rewrite Er in H2. destruct r as [[[] s''] p'']. destruct H2 as (_ & ds' & HF' & _).
      destruct (Forall2_perm _ _ _ (Permutation_sym HP) _ HF') as (ds & _ & HF). apply H1. eauto.
    - intros r Er. rewrite Er in H2. destruct r as [[[] s''] p'']. destruct H2 as (_ & ds' & HF' & _).
      destruct (Forall2_perm _ _ _ (Permutation_sym HP) _ HF') as (ds & _ & HF). apply H1. eauto.
  Qed.
End Exec.
