(* Proofs/BlockPermRen.v — C08 (whole-run order independence of the lazy interpreter), part 1:
   renaming graph-node ids and store locations inside values, lazy values, thunks and deferred statements.
   `vren r v` renames every graph-node reference of v (sets are mapped element-wise, NOT re-sorted);
   `vall D v` says that every graph-node reference of v lies in D.  A renaming that preserves the order of
   the ids of D preserves the comparison of values over D, hence commutes with building sets over D. *)
From TSG Require Import Model.Lazy Proofs.BaseFacts Proofs.OrderFacts.

(* ---------------- values ---------------- *)
Fixpoint vren (r : N -> N) (v : value) : value :=
  match v with
  | VList l => VList (map (vren r) l)
  | VSet l => VSet (map (vren r) l)
  | VGraph n => VGraph (r n)
  | _ => v
  end.

Fixpoint vall (D : N -> Prop) (v : value) : Prop :=
  match v with
  | VList l => (fix all (l : list value) : Prop := match l with [] => True | x :: l' => vall D x /\ all l' end) l
  | VSet l => (fix all (l : list value) : Prop := match l with [] => True | x :: l' => vall D x /\ all l' end) l
  | VGraph n => D n
  | _ => True
  end.

Lemma vall_all D l :
  (fix all (l : list value) : Prop := match l with [] => True | x :: l' => vall D x /\ all l' end) l <-> Forall (vall D) l.
Proof.
  induction l as [|x l IH]; [split; constructor|]. split.
  - intros [H1 H2]. constructor; [exact H1|apply IH, H2].
  - intros H. inversion H; subst. split; [assumption|apply IH; assumption].
Qed.
Lemma vall_list D l : vall D (VList l) <-> Forall (vall D) l. Proof. apply vall_all. Qed.
Lemma vall_set D l : vall D (VSet l) <-> Forall (vall D) l. Proof. apply vall_all. Qed.

Definition noid : N -> Prop := fun _ => False.

Lemma vall_impl (D D' : N -> Prop) v : (forall i, D i -> D' i) -> vall D v -> vall D' v.
Proof.
  intros HD. induction v as [| | | |l IH|l IH| |n] using value_ind'; try (intros; exact I).
  - rewrite !vall_list. intros H. rewrite Forall_forall in *. intros x Hx. apply IH; auto.
  - rewrite !vall_set. intros H. rewrite Forall_forall in *. intros x Hx. apply IH; auto.
  - cbn [vall]. apply HD.
Qed.
Lemma valls_impl (D D' : N -> Prop) l : (forall i, D i -> D' i) -> Forall (vall D) l -> Forall (vall D') l.
Proof. intros HD H. eapply Forall_impl; [|exact H]. intros v. apply vall_impl, HD. Qed.

Lemma vren_ext (D : N -> Prop) r r' v : (forall i, D i -> r i = r' i) -> vall D v -> vren r v = vren r' v.
Proof.
  intros HD. induction v as [| | | |l IH|l IH| |n] using value_ind'; try reflexivity.
  - rewrite vall_list. intros H. cbn [vren]. f_equal. apply map_ext_in. intros x Hx. rewrite Forall_forall in *. apply IH; auto.
  - rewrite vall_set. intros H. cbn [vren]. f_equal. apply map_ext_in. intros x Hx. rewrite Forall_forall in *. apply IH; auto.
  - cbn [vall vren]. intros H. rewrite (HD _ H). reflexivity.
Qed.
Lemma vren_idf v : vren (fun i => i) v = v.
Proof.
  induction v as [| | | |l IH|l IH| |n] using value_ind'; try reflexivity.
  - cbn [vren]. f_equal. rewrite <- (map_id l) at 2. apply map_ext_in. intros x Hx. rewrite Forall_forall in IH. auto.
  - cbn [vren]. f_equal. rewrite <- (map_id l) at 2. apply map_ext_in. intros x Hx. rewrite Forall_forall in IH. auto.
Qed.
Lemma vren_fix (D : N -> Prop) r v : (forall i, D i -> r i = i) -> vall D v -> vren r v = v.
Proof. intros HD H. rewrite (vren_ext D r (fun i => i) v HD H). apply vren_idf. Qed.
Lemma vren_noid r v : vall noid v -> vren r v = v.
Proof. apply vren_fix. intros i []. Qed.
Lemma vren_comp r r' v : vren r (vren r' v) = vren (fun i => r (r' i)) v.
Proof.
  induction v as [| | | |l IH|l IH| |n] using value_ind'; try reflexivity.
  - cbn [vren]. f_equal. rewrite map_map. apply map_ext_in. intros x Hx. rewrite Forall_forall in IH. auto.
  - cbn [vren]. f_equal. rewrite map_map. apply map_ext_in. intros x Hx. rewrite Forall_forall in IH. auto.
Qed.
Lemma vall_vren (D D' : N -> Prop) r v : (forall i, D i -> D' (r i)) -> vall D v -> vall D' (vren r v).
Proof.
  intros HD. induction v as [| | | |l IH|l IH| |n] using value_ind'; try (intros; exact I).
  - rewrite vall_list. intros H. cbn [vren]. rewrite vall_list. apply Forall_forall. intros y Hy. apply in_map_iff in Hy as (x & <- & Hx).
    rewrite Forall_forall in *. apply IH; auto.
  - rewrite vall_set. intros H. cbn [vren]. rewrite vall_set. apply Forall_forall. intros y Hy. apply in_map_iff in Hy as (x & <- & Hx).
    rewrite Forall_forall in *. apply IH; auto.
  - cbn [vall vren]. apply HD.
Qed.

(* order-preserving renamings preserve the comparison of values *)
Definition cmp_pres (D : N -> Prop) (r : N -> N) : Prop := forall i j, D i -> D j -> (r i ?= r j) = (i ?= j).
Lemma smono_cmp_pres (D : N -> Prop) r : (forall i j, D i -> D j -> i < j -> r i < r j) -> cmp_pres D r.
Proof.
  intros H i j Hi Hj. destruct (N.compare_spec i j) as [->|Hlt|Hgt].
  - apply N.compare_refl.
  - apply N.compare_lt_iff. apply H; assumption.
  - apply N.compare_gt_iff. apply H; assumption.
Qed.

Lemma tag_vren r v : tag (vren r v) = tag v. Proof. destruct v; reflexivity. Qed.

Lemma list_cmp_map_pres (f : value -> value) (P : value -> Prop) (a : list value) :
  Forall (fun x => forall y, P x -> P y -> value_cmp (f x) (f y) = value_cmp x y) a ->
  forall b, Forall P a -> Forall P b -> list_cmp value_cmp (map f a) (map f b) = list_cmp value_cmp a b.
Proof.
  induction 1 as [|x a Hx _ IH]; intros [|y b] Ha Hb; cbn [map list_cmp]; try reflexivity.
  inversion Ha; subst. inversion Hb; subst. rewrite Hx by assumption. destruct (value_cmp x y); try reflexivity. apply IH; assumption.
Qed.

Lemma value_cmp_vren (D : N -> Prop) r : cmp_pres D r -> forall a b, vall D a -> vall D b -> value_cmp (vren r a) (vren r b) = value_cmp a b.
Proof.
  intros Hr. induction a as [|b0|k|s|l IH|l IH|k|n] using value_ind'; intros w Ha Hb.
  - destruct w; reflexivity.
  - destruct w; reflexivity.
  - destruct w; reflexivity.
  - destruct w; reflexivity.
  - destruct w as [| | | |l2|l2| |]; try reflexivity. cbn [vren]. rewrite !value_cmp_list. unfold vlist_cmp. rewrite vall_list in Ha, Hb.
    apply (list_cmp_map_pres (vren r) (vall D)); assumption.
  - destruct w as [| | | |l2|l2| |]; try reflexivity. cbn [vren]. rewrite !value_cmp_set. unfold vlist_cmp. rewrite vall_set in Ha, Hb.
    apply (list_cmp_map_pres (vren r) (vall D)); assumption.
  - destruct w; reflexivity.
  - destruct w as [| | | | | | |n2]; try reflexivity. cbn [vren vall] in *. change (value_cmp (VGraph (r n)) (VGraph (r n2))) with (r n ?= r n2).
    change (value_cmp (VGraph n) (VGraph n2)) with (n ?= n2). apply Hr; assumption.
Qed.
Lemma value_eqb_vren (D : N -> Prop) r a b : cmp_pres D r -> vall D a -> vall D b -> value_eqb (vren r a) (vren r b) = value_eqb a b.
Proof. intros Hr Ha Hb. unfold value_eqb. rewrite (value_cmp_vren D r Hr a b Ha Hb). reflexivity. Qed.

(* ... hence commute with building sets *)
Lemma set_insert_vren (D : N -> Prop) r x l : cmp_pres D r -> vall D x -> Forall (vall D) l ->
  set_insert (vren r x) (map (vren r) l) = map (vren r) (set_insert x l).
Proof.
  intros Hr Hx. induction l as [|y l IH]; intros Hl; cbn [map set_insert]; [reflexivity|].
  inversion Hl; subst. rewrite (value_cmp_vren D r Hr x y) by assumption.
  destruct (value_cmp x y); cbn [map]; try reflexivity. rewrite IH by assumption. reflexivity.
Qed.
Lemma set_insert_all (P : value -> Prop) x l : P x -> Forall P l -> Forall P (set_insert x l).
Proof. intros Hx Hl. apply Forall_forall. intros z Hz. apply set_insert_In in Hz. destruct Hz as [->|Hz]; [exact Hx|]. rewrite Forall_forall in Hl. auto. Qed.
Lemma set_of_list_vren (D : N -> Prop) r l : cmp_pres D r -> Forall (vall D) l ->
  set_of_list (map (vren r) l) = map (vren r) (set_of_list l).
Proof.
  intros Hr. unfold set_of_list.
  assert (G : forall acc, Forall (vall D) acc -> Forall (vall D) l ->
            fold_left (fun s x => set_insert x s) (map (vren r) l) (map (vren r) acc) = map (vren r) (fold_left (fun s x => set_insert x s) l acc)).
  { induction l as [|x l IH]; intros acc Hacc Hl; cbn [map fold_left]; [reflexivity|]. inversion Hl; subst.
    rewrite (set_insert_vren D r x acc Hr) by assumption. apply IH; [apply set_insert_all; assumption|assumption]. }
  intros Hl. apply (G [] (Forall_nil _) Hl).
Qed.
Lemma set_of_list_all (P : value -> Prop) l : Forall P l -> Forall P (set_of_list l).
Proof. intros H. apply Forall_forall. intros z Hz. apply (proj1 (set_of_list_In l z)) in Hz. rewrite Forall_forall in H. apply H, Hz. Qed.

(* ---------------- lazy values ---------------- *)
Section LValueInd.
  Variable P : lvalue -> Prop.
  Hypothesis Hvalue : forall v, P (LValue v).
  Hypothesis Hlist : forall l, Forall P l -> P (LList l).
  Hypothesis Hset : forall l, Forall P l -> P (LSet l).
  Hypothesis Hvar : forall loc, P (LVar loc).
  Hypothesis Hscoped : forall sc name, P sc -> P (LScoped sc name).
  Hypothesis Hcall : forall f args, Forall P args -> P (LCall f args).
  Fixpoint lv_ind (lv : lvalue) : P lv :=
    let fix go (l : list lvalue) : Forall P l :=
      match l with [] => Forall_nil _ | x :: l' => Forall_cons x (lv_ind x) (go l') end in
    match lv with
    | LValue v => Hvalue v
    | LList l => Hlist l (go l)
    | LSet l => Hset l (go l)
    | LVar loc => Hvar loc
    | LScoped sc name => Hscoped sc name (lv_ind sc)
    | LCall f args => Hcall f args (go args)
    end.
End LValueInd.

Fixpoint lvren (rg rl : N -> N) (lv : lvalue) : lvalue :=
  match lv with
  | LValue v => LValue (vren rg v)
  | LList l => LList (map (lvren rg rl) l)
  | LSet l => LSet (map (lvren rg rl) l)
  | LVar loc => LVar (rl loc)
  | LScoped sc name => LScoped (lvren rg rl sc) name
  | LCall f args => LCall f (map (lvren rg rl) args)
  end.

(* graph ids in D, store locations in L, called functions in okfn, no scoped variable *)
Fixpoint lvall (okfn : ident -> Prop) (D L : N -> Prop) (lv : lvalue) : Prop :=
  match lv with
  | LValue v => vall D v
  | LList l => (fix all (l : list lvalue) : Prop := match l with [] => True | x :: l' => lvall okfn D L x /\ all l' end) l
  | LSet l => (fix all (l : list lvalue) : Prop := match l with [] => True | x :: l' => lvall okfn D L x /\ all l' end) l
  | LVar loc => L loc
  | LScoped _ _ => False
  | LCall f args => okfn f /\ (fix all (l : list lvalue) : Prop := match l with [] => True | x :: l' => lvall okfn D L x /\ all l' end) args
  end.
Lemma lvall_all okfn D L l :
  (fix all (l : list lvalue) : Prop := match l with [] => True | x :: l' => lvall okfn D L x /\ all l' end) l <-> Forall (lvall okfn D L) l.
Proof.
  induction l as [|x l IH]; [split; constructor|]. split.
  - intros [H1 H2]. constructor; [exact H1|apply IH, H2].
  - intros H. inversion H; subst. split; [assumption|apply IH; assumption].
Qed.
Lemma lvall_list okfn D L l : lvall okfn D L (LList l) <-> Forall (lvall okfn D L) l. Proof. apply lvall_all. Qed.
Lemma lvall_set okfn D L l : lvall okfn D L (LSet l) <-> Forall (lvall okfn D L) l. Proof. apply lvall_all. Qed.
Lemma lvall_call okfn D L f l : lvall okfn D L (LCall f l) <-> okfn f /\ Forall (lvall okfn D L) l.
Proof. cbn [lvall]. rewrite lvall_all. tauto. Qed.

Lemma lvall_impl okfn (D D' L L' : N -> Prop) lv : (forall i, D i -> D' i) -> (forall i, L i -> L' i) -> lvall okfn D L lv -> lvall okfn D' L' lv.
Proof.
  intros HD HL. induction lv as [v|l IH|l IH|loc|sc name IH|f args IH] using lv_ind.
  - cbn [lvall]. apply vall_impl, HD.
  - rewrite !lvall_list. intros H. rewrite Forall_forall in *. intros x Hx. apply IH; auto.
  - rewrite !lvall_set. intros H. rewrite Forall_forall in *. intros x Hx. apply IH; auto.
  - cbn [lvall]. apply HL.
  - cbn [lvall]. tauto.
  - rewrite !lvall_call. intros [Hf H]. split; [exact Hf|]. rewrite Forall_forall in *. intros x Hx. apply IH; auto.
Qed.
Lemma lvalls_impl okfn (D D' L L' : N -> Prop) l : (forall i, D i -> D' i) -> (forall i, L i -> L' i) ->
  Forall (lvall okfn D L) l -> Forall (lvall okfn D' L') l.
Proof. intros HD HL H. eapply Forall_impl; [|exact H]. intros lv. apply lvall_impl; assumption. Qed.

Lemma lvren_ext okfn (D L : N -> Prop) rg rg' rl rl' lv : (forall i, D i -> rg i = rg' i) -> (forall i, L i -> rl i = rl' i) ->
  lvall okfn D L lv -> lvren rg rl lv = lvren rg' rl' lv.
Proof.
  intros HD HL. induction lv as [v|l IH|l IH|loc|sc name IH|f args IH] using lv_ind.
  - cbn [lvall lvren]. intros H. f_equal. eapply vren_ext; eauto.
  - rewrite lvall_list. intros H. cbn [lvren]. f_equal. apply map_ext_in. intros x Hx. rewrite Forall_forall in *. apply IH; auto.
  - rewrite lvall_set. intros H. cbn [lvren]. f_equal. apply map_ext_in. intros x Hx. rewrite Forall_forall in *. apply IH; auto.
  - cbn [lvall lvren]. intros H. rewrite (HL _ H). reflexivity.
  - cbn [lvall]. intros [].
  - rewrite lvall_call. intros [_ H]. cbn [lvren]. f_equal. apply map_ext_in. intros x Hx. rewrite Forall_forall in *. apply IH; auto.
Qed.
Lemma lvren_comp rg rg' rl rl' lv : lvren rg rl (lvren rg' rl' lv) = lvren (fun i => rg (rg' i)) (fun i => rl (rl' i)) lv.
Proof.
  induction lv as [v|l IH|l IH|loc|sc name IH|f args IH] using lv_ind; cbn [lvren].
  - f_equal. apply vren_comp.
  - f_equal. rewrite map_map. apply map_ext_in. intros x Hx. rewrite Forall_forall in IH. auto.
  - f_equal. rewrite map_map. apply map_ext_in. intros x Hx. rewrite Forall_forall in IH. auto.
  - reflexivity.
  - f_equal. exact IH.
  - f_equal. rewrite map_map. apply map_ext_in. intros x Hx. rewrite Forall_forall in IH. auto.
Qed.
Lemma lvall_lvren okfn (D D' L L' : N -> Prop) rg rl lv : (forall i, D i -> D' (rg i)) -> (forall i, L i -> L' (rl i)) ->
  lvall okfn D L lv -> lvall okfn D' L' (lvren rg rl lv).
Proof.
  intros HD HL. induction lv as [v|l IH|l IH|loc|sc name IH|f args IH] using lv_ind.
  - cbn [lvall lvren]. apply vall_vren, HD.
  - rewrite lvall_list. intros H. cbn [lvren]. rewrite lvall_list. apply Forall_forall. intros y Hy. apply in_map_iff in Hy as (x & <- & Hx).
    rewrite Forall_forall in *. apply IH; auto.
  - rewrite lvall_set. intros H. cbn [lvren]. rewrite lvall_set. apply Forall_forall. intros y Hy. apply in_map_iff in Hy as (x & <- & Hx).
    rewrite Forall_forall in *. apply IH; auto.
  - cbn [lvall lvren]. apply HL.
  - cbn [lvall]. intros [].
  - rewrite lvall_call. intros [Hf H]. cbn [lvren]. rewrite lvall_call. split; [exact Hf|]. apply Forall_forall. intros y Hy.
    apply in_map_iff in Hy as (x & <- & Hx). rewrite Forall_forall in *. apply IH; auto.
Qed.

(* ---------------- thunks, deferred statements, frames ---------------- *)
Definition tsren (rg rl : N -> N) (st : thunk_state) : thunk_state :=
  match st with TUnforced lv => TUnforced (lvren rg rl lv) | TForcing => TForcing | TForced v => TForced (vren rg v) end.
Definition thren (rg rl : N -> N) (th : thunk) : thunk := {| th_state := tsren rg rl (th_state th); th_dbg := th_dbg th |}.
Definition tsall (okfn : ident -> Prop) (D L : N -> Prop) (st : thunk_state) : Prop :=
  match st with TUnforced lv => lvall okfn D L lv | TForcing => True | TForced v => vall D v end.
Definition thall (okfn : ident -> Prop) (D L : N -> Prop) (th : thunk) : Prop := tsall okfn D L (th_state th).

Definition atren (rg rl : N -> N) (a : ident * lvalue) : ident * lvalue := (fst a, lvren rg rl (snd a)).
Definition lsren (rg rl : N -> N) (st : lstmt) : lstmt :=
  match st with
  | LSAttrNode n attrs dbg => LSAttrNode (lvren rg rl n) (map (atren rg rl) attrs) dbg
  | LSEdge a b ea dbg => LSEdge (lvren rg rl a) (lvren rg rl b) ea dbg
  | LSAttrEdge a b attrs dbg => LSAttrEdge (lvren rg rl a) (lvren rg rl b) (map (atren rg rl) attrs) dbg
  | LSPrint args dbg => LSPrint (map (option_map (lvren rg rl)) args) dbg
  end.
Definition atall (okfn : ident -> Prop) (D L : N -> Prop) (a : ident * lvalue) : Prop := lvall okfn D L (snd a).
Definition amap_plain (m : amap) : Prop := Forall (fun kv => vall noid (snd kv)) m.
Definition lsall (eaok : amap -> Prop) (okfn : ident -> Prop) (D L : N -> Prop) (st : lstmt) : Prop :=
  match st with
  | LSAttrNode n attrs _ => lvall okfn D L n /\ Forall (atall okfn D L) attrs
  | LSEdge a b ea _ => lvall okfn D L a /\ lvall okfn D L b /\ eaok ea
  | LSAttrEdge a b attrs _ => lvall okfn D L a /\ lvall okfn D L b /\ Forall (atall okfn D L) attrs
  | LSPrint args _ => Forall (fun o => match o with Some lv => lvall okfn D L lv | None => True end) args
  end.

Definition enren (rg rl : N -> N) (e : ident * (lvalue * bool)) : ident * (lvalue * bool) := (fst e, (lvren rg rl (fst (snd e)), snd (snd e))).
Definition frren (rg rl : N -> N) (f : vframe lvalue) : vframe lvalue := map (enren rg rl) f.
Definition llren (rg rl : N -> N) (l : varmap lvalue) : varmap lvalue := map (frren rg rl) l.
Definition frall (okfn : ident -> Prop) (D L : N -> Prop) (f : vframe lvalue) : Prop := Forall (fun e => lvall okfn D L (fst (snd e))) f.
Definition llall (okfn : ident -> Prop) (D L : N -> Prop) (l : varmap lvalue) : Prop := Forall (frall okfn D L) l.

Section Impl.
  Variables (eaok : amap -> Prop) (okfn : ident -> Prop) (D D' L L' : N -> Prop).
  Hypothesis HD : forall i, D i -> D' i.
  Hypothesis HL : forall i, L i -> L' i.
  Lemma thall_impl th : thall okfn D L th -> thall okfn D' L' th.
  Proof. unfold thall, tsall. destruct (th_state th); auto; [apply lvall_impl|apply vall_impl]; assumption. Qed.
  Lemma atall_impl l : Forall (atall okfn D L) l -> Forall (atall okfn D' L') l.
  Proof. intros H. eapply Forall_impl; [|exact H]. intros a. apply lvall_impl; assumption. Qed.
  Lemma lsall_impl st : lsall eaok okfn D L st -> lsall eaok okfn D' L' st.
  Proof.
    destruct st; cbn [lsall].
    - intros [H1 H2]. split; [eapply lvall_impl; eauto|apply atall_impl, H2].
    - intros (H1 & H2 & H3). split; [|split]; [eapply lvall_impl; eauto..|exact H3].
    - intros (H1 & H2 & H3). split; [|split]; [eapply lvall_impl; eauto..|apply atall_impl, H3].
    - intros H. eapply Forall_impl; [|exact H]. intros [lv|]; auto. apply lvall_impl; assumption.
  Qed.
  Lemma lsalls_impl l : Forall (lsall eaok okfn D L) l -> Forall (lsall eaok okfn D' L') l.
  Proof. intros H. eapply Forall_impl; [|exact H]. apply lsall_impl. Qed.
  Lemma frall_impl f : frall okfn D L f -> frall okfn D' L' f.
  Proof. intros H. eapply Forall_impl; [|exact H]. intros e. apply lvall_impl; assumption. Qed.
  Lemma llall_impl l : llall okfn D L l -> llall okfn D' L' l.
  Proof. intros H. eapply Forall_impl; [|exact H]. apply frall_impl. Qed.
End Impl.

(* composition, extensionality and validity of the renaming of thunks and deferred statements *)
Lemma lvren_idf lv : lvren (fun i => i) (fun l => l) lv = lv.
Proof.
  induction lv as [v|l IH|l IH|loc|sc name IH|f args IH] using lv_ind; cbn [lvren].
  - f_equal. apply vren_idf.
  - f_equal. rewrite <- (map_id l) at 2. apply map_ext_in. intros x Hx. rewrite Forall_forall in IH. auto.
  - f_equal. rewrite <- (map_id l) at 2. apply map_ext_in. intros x Hx. rewrite Forall_forall in IH. auto.
  - reflexivity.
  - f_equal. exact IH.
  - f_equal. rewrite <- (map_id args) at 2. apply map_ext_in. intros x Hx. rewrite Forall_forall in IH. auto.
Qed.
Lemma lvren_back okfn (D L : N -> Prop) rg rl rg' rl' lv : (forall i, D i -> rg' (rg i) = i) -> (forall l, L l -> rl' (rl l) = l) ->
  lvall okfn D L lv -> lvren rg' rl' (lvren rg rl lv) = lv.
Proof. intros HD HL H. rewrite lvren_comp. rewrite (lvren_ext okfn D L _ (fun i => i) _ (fun l => l) lv HD HL H). apply lvren_idf. Qed.

Section RenBack.
  Variables (eaok : amap -> Prop) (okfn : ident -> Prop) (D L : N -> Prop) (rg rl rg' rl' : N -> N).
  Hypothesis HD : forall i, D i -> rg' (rg i) = i.
  Hypothesis HL : forall l, L l -> rl' (rl l) = l.
  Lemma vren_back v : vall D v -> vren rg' (vren rg v) = v.
  Proof. intros H. rewrite vren_comp. apply (vren_fix D). exact HD. exact H. Qed.
  Lemma atren_back l : Forall (atall okfn D L) l -> map (atren rg' rl') (map (atren rg rl) l) = l.
  Proof.
    intros H. rewrite map_map. rewrite <- (map_id l) at 2. apply map_ext_in. intros [k lv] Hin. unfold atren. cbn [fst snd]. f_equal.
    rewrite Forall_forall in H. apply (lvren_back okfn D L); auto. apply (H _ Hin).
  Qed.
  Lemma lsren_back st : lsall eaok okfn D L st -> lsren rg' rl' (lsren rg rl st) = st.
  Proof.
    destruct st; cbn [lsall lsren].
    - intros [H1 H2]. rewrite (lvren_back okfn D L) by assumption. rewrite atren_back by assumption. reflexivity.
    - intros (H1 & H2 & _). rewrite !(lvren_back okfn D L) by assumption. reflexivity.
    - intros (H1 & H2 & H3). rewrite !(lvren_back okfn D L) by assumption. rewrite atren_back by assumption. reflexivity.
    - intros H. f_equal. rewrite map_map. rewrite <- (map_id args) at 2. apply map_ext_in. intros [lv|] Hin; cbn [option_map]; [|reflexivity].
      f_equal. rewrite Forall_forall in H. apply (lvren_back okfn D L); auto. apply (H _ Hin).
  Qed.
  Lemma thren_back th : thall okfn D L th -> thren rg' rl' (thren rg rl th) = th.
  Proof.
    destruct th as [st dbg]. unfold thall, thren. cbn [th_state th_dbg]. intros H. f_equal. destruct st; cbn [tsren tsall] in *.
    - f_equal. apply (lvren_back okfn D L); auto.
    - reflexivity.
    - f_equal. apply vren_back, H.
  Qed.
End RenBack.

Section RenAll.
  Variables (eaok : amap -> Prop) (okfn : ident -> Prop) (D D' L L' : N -> Prop) (rg rl : N -> N).
  Hypothesis HD : forall i, D i -> D' (rg i).
  Hypothesis HL : forall l, L l -> L' (rl l).
  Lemma atall_atren l : Forall (atall okfn D L) l -> Forall (atall okfn D' L') (map (atren rg rl) l).
  Proof. intros H. apply Forall_forall. intros y Hy. apply in_map_iff in Hy as (x & <- & Hx). rewrite Forall_forall in H. unfold atall, atren. cbn [snd]. eapply lvall_lvren; eauto. apply (H _ Hx). Qed.
  Lemma lsall_lsren st : lsall eaok okfn D L st -> lsall eaok okfn D' L' (lsren rg rl st).
  Proof.
    destruct st; cbn [lsall lsren].
    - intros [H1 H2]. split; [eapply lvall_lvren; eauto|apply atall_atren, H2].
    - intros (H1 & H2 & H3). split; [|split]; [eapply lvall_lvren; eauto..|exact H3].
    - intros (H1 & H2 & H3). split; [|split]; [eapply lvall_lvren; eauto..|apply atall_atren, H3].
    - intros H. apply Forall_forall. intros y Hy. apply in_map_iff in Hy as (x & <- & Hx). rewrite Forall_forall in H. specialize (H _ Hx).
      destruct x as [lv|]; cbn [option_map]; [eapply lvall_lvren; eauto|exact I].
  Qed.
  Lemma thall_thren th : thall okfn D L th -> thall okfn D' L' (thren rg rl th).
  Proof. unfold thall, thren. cbn [th_state]. destruct (th_state th); cbn [tsren tsall]; auto; [eapply lvall_lvren; eauto|eapply vall_vren; eauto]. Qed.
End RenAll.

(* ---------------- environments under renaming ---------------- *)
Section Frames.
  Variables (rg rl : N -> N).
  Lemma alist_get_frren f k : alist_get k (frren rg rl f) = option_map (fun x : lvalue * bool => (lvren rg rl (fst x), snd x)) (alist_get k f).
  Proof.
    induction f as [|[k0 [v0 b0]] f IH]; cbn [frren map enren alist_get fst snd option_map]; [reflexivity|].
    destruct (str_eqb k k0); [reflexivity|exact IH].
  Qed.
  Lemma varmap_get_llren l k : varmap_get (llren rg rl l) k = option_map (lvren rg rl) (varmap_get l k).
  Proof.
    induction l as [|f up IH]; cbn [llren map varmap_get option_map]; [reflexivity|].
    rewrite alist_get_frren. destruct (alist_get k f) as [[v b]|]; cbn [option_map fst snd]; [reflexivity|exact IH].
  Qed.
  Lemma varmap_add_llren l k v mu :
    varmap_add (llren rg rl l) k (lvren rg rl v) mu = match varmap_add l k v mu with inl l' => inl (llren rg rl l') | inr e => inr e end.
  Proof.
    destruct l as [|f up]; cbn [llren map varmap_add]; [reflexivity|]. rewrite alist_get_frren.
    destruct (alist_get k f) as [[v0 b0]|]; cbn [option_map]; [reflexivity|].
    cbn [llren map]. f_equal. f_equal. unfold frren. rewrite map_app. reflexivity.
  Qed.
  Lemma alist_set_frren f k v b : alist_set k (lvren rg rl v, b) (frren rg rl f) = frren rg rl (alist_set k (v, b) f).
  Proof.
    induction f as [|[k0 [v0 b0]] f IH]; cbn [frren map enren alist_set fst snd]; [reflexivity|].
    destruct (str_eqb k k0); cbn [map enren fst snd]; [reflexivity|]. f_equal. exact IH.
  Qed.
  Lemma varmap_set_llren k v : forall l,
    varmap_set (llren rg rl l) k (lvren rg rl v) = match varmap_set l k v with inl l' => inl (llren rg rl l') | inr e => inr e end.
  Proof.
    induction l as [|f up IH]; cbn [llren map varmap_set]; [reflexivity|]. rewrite alist_get_frren.
    destruct (alist_get k f) as [[v0 [|]]|]; cbn [option_map fst snd].
    - rewrite alist_set_frren. reflexivity.
    - reflexivity.
    - fold (llren rg rl up). rewrite IH. destruct (varmap_set up k v); reflexivity.
  Qed.
  Lemma varmap_clear_llren (l : varmap lvalue) : varmap_clear (llren rg rl l) = llren rg rl (varmap_clear l).
  Proof. destruct l; reflexivity. Qed.
End Frames.

Section FrameAll.
  Variables (okfn : ident -> Prop) (D L : N -> Prop).
  Lemma frall_get f k v b : frall okfn D L f -> alist_get k f = Some (v, b) -> lvall okfn D L v.
  Proof. intros H E. apply alist_get_In in E. unfold frall in H. rewrite Forall_forall in H. apply (H _ E). Qed.
  Lemma llall_get l k v : llall okfn D L l -> varmap_get l k = Some v -> lvall okfn D L v.
  Proof.
    intros H. induction l as [|f up IH]; cbn [varmap_get]; [discriminate|]. inversion H; subst.
    destruct (alist_get k f) as [[v0 b0]|] eqn:E; [intros [= <-]; eapply frall_get; eauto|apply IH; assumption].
  Qed.
  Lemma llall_add l k v mu l' : llall okfn D L l -> lvall okfn D L v -> varmap_add l k v mu = inl l' -> llall okfn D L l'.
  Proof.
    intros H Hv. destruct l as [|f up]; cbn [varmap_add]; [discriminate|]. inversion H; subst.
    destruct (alist_get k f); [discriminate|]. intros [= <-]. constructor; [|assumption]. apply Forall_app. split; [assumption|]. constructor; [exact Hv|constructor].
  Qed.
  Lemma frall_set f k v b : frall okfn D L f -> lvall okfn D L v -> frall okfn D L (alist_set k (v, b) f).
  Proof.
    intros H Hv. induction f as [|[k0 x0] f IH]; cbn [alist_set]; [constructor; [exact Hv|constructor]|].
    inversion H; subst. destruct (str_eqb k k0); constructor; cbn [fst snd]; auto. apply IH. assumption.
  Qed.
  Lemma llall_set k v : forall l l', llall okfn D L l -> lvall okfn D L v -> varmap_set l k v = inl l' -> llall okfn D L l'.
  Proof.
    induction l as [|f up IH]; intros l' H Hv; cbn [varmap_set]; [discriminate|]. inversion H; subst.
    destruct (alist_get k f) as [[v0 [|]]|].
    - intros [= <-]. constructor; [apply frall_set; assumption|assumption].
    - discriminate.
    - destruct (varmap_set up k v) as [up'|e] eqn:Eu; [|discriminate]. intros [= <-]. constructor; [assumption|]. eapply IH; eauto.
  Qed.
  Lemma llall_clear (l : varmap lvalue) : llall okfn D L l -> llall okfn D L (varmap_clear l).
  Proof. intros H. destruct l as [|f up]; cbn [varmap_clear]; [constructor|]. inversion H; subst. constructor; [constructor|assumption]. Qed.
End FrameAll.

(* shifts of graph ids (ids below gb1 fixed) and of store locations *)
Definition shg (gb1 gb2 : N) (i : N) : N := if i <? gb1 then i else i - gb1 + gb2.
Definition shl (kb1 kb2 : N) (l : N) : N := l - kb1 + kb2.

(* ---------------- the hypothesis on function calls ----------------
   A function of the fragment (i) neither reads nor changes the graph, (ii) commutes with every renaming of
   graph-node ids that preserves the order of the ids occurring in its arguments, errors included, and
   (iii) returns no graph-node id that does not occur in its arguments.  (Every function of the standard
   library except `node`, `format` and `join`: Proofs/BlockPermStd.v; `format` and `join` render a graph node
   as text that shows its number.) *)
Definition call_ok (call : ident -> graph -> list value -> res (value * graph)) (f : ident) : Prop :=
  forall (D : N -> Prop) (r : N -> N) g g' args, Forall (vall D) args -> (forall i j, D i -> D j -> i < j -> r i < r j) ->
    match call f g args with
    | Ok (v, g1) => g1 = g /\ vall D v /\ call f g' (map (vren r) args) = Ok (vren r v, g')
    | Err e => call f g' (map (vren r) args) = Err e
    | Panic x => call f g' (map (vren r) args) = Panic x
    | OutOfFuel => call f g' (map (vren r) args) = OutOfFuel
    end.
