(* Proofs/ScanLink.v — the scan loops of the interpreter models (Model/Strict.v scan_loop with
   Model/Exec.v arm_select; Model/Lazy.v lscan_loop) refine the stand-alone scan model Model/Scan.v:
   same selection rule, same empty-match error, same advance, same termination.  Hence every C10
   theorem about Model/Scan.v is a theorem about the scan the interpreters execute. *)
From TSG Require Import Model.Scan Spec.ScanSpec Proofs.Scan Model.Strict Model.Lazy Spec.ScanRun.

Lemma bind_ext_at {S A B} (m : M S A) (f g : A -> M S B) s p :
  (forall a s' p', f a s' p' = g a s' p') -> bind m f s p = bind m g s p.
Proof. intros H. unfold bind. destruct (m s p) as [[[a s'] p']| | |]; auto. Qed.

Lemma cap_texts_captures_text : forall suffix caps, cap_texts suffix caps = captures_text suffix caps.
Proof. reflexivity. Qed.

Section ScanLink.
  Variable find : regex -> str -> option rcaps.
  Hypothesis G0 : find_group0 find.

  (* ---------------- arm selection: running minimum = minimum of the collected vector ---------------- *)
  Lemma best_snoc : forall l c d, best c (l ++ [d]) = if cand_lt d (best c l) then d else best c l.
  Proof. induction l as [|d0 l IH]; intros c d; cbn [app best]; [reflexivity|apply IH]. Qed.

  (* the interpreter's "best so far" is the minimum of the candidates collected so far; all of them
     come from arms before k *)
  Definition sel_inv (fw : list cand) (bst : option (N * rcaps)) (k : N) : Prop :=
    match fw with
    | [] => bst = None
    | c :: l => exists a k' b g, best c l = (a, k', b, g) /\ bst = Some (k', g) /\ cap0 g = (a, b) /\ k' < k
    end.

  Lemma sel_inv_weaken : forall fw bst k, sel_inv fw bst k -> sel_inv fw bst (k + 1).
  Proof.
    intros [|c l] bst k H; cbn [sel_inv] in *; [exact H|].
    destruct H as (a & k' & b & g & B & E & C & L). exists a, k', b, g. repeat split; auto. lia.
  Qed.

  Lemma arm_collect_collect : forall l k suffix acc bst, sel_inv (rev acc) bst k ->
    match collect find l k suffix acc with
    | CEmpty j => arm_collect find l k suffix bst = ASelEmpty j
    | CList [] => arm_collect find l k suffix bst = ASelNone
    | CList (c :: l0) => exists a k' b g, best c l0 = (a, k', b, g) /\
                           arm_collect find l k suffix bst = ASelArm k' g /\ cap0 g = (a, b)
    end.
  Proof.
    induction l as [|r l IH]; intros k suffix acc bst H; cbn [collect arm_collect].
    - unfold sel_inv in H. destruct (rev acc) as [|c l0].
      + subst bst. reflexivity.
      + destruct H as (a & k' & b & g & B & -> & C & _). exists a, k', b, g. auto.
    - destruct (find r suffix) as [caps|] eqn:F.
      + destruct (G0 _ _ _ F) as (a & b & g & ->). cbn [whole_match cap0].
        destruct (N.eqb a b) eqn:E; [reflexivity|].
        apply IH. cbn [rev]. unfold sel_inv in *. destruct (rev acc) as [|c l0]; cbn [app].
        * subst bst. exists a, k, b, (Some (a, b) :: g). cbn [best cap0]. repeat split; auto. lia.
        * destruct H as (a0 & k0 & b0 & g0 & B & -> & C & L).
          rewrite best_snoc, B. unfold cand_lt.
          assert (K : N.ltb k k0 = false) by (apply N.ltb_ge; lia).
          rewrite K, andb_false_r, orb_false_r, C. cbn [fst].
          destruct (N.ltb a a0).
          -- exists a, k, b, (Some (a, b) :: g). cbn [cap0]. repeat split; auto. lia.
          -- exists a0, k0, b0, g0. repeat split; auto. lia.
      + cbn [whole_match]. apply IH. apply sel_inv_weaken. exact H.
  Qed.

  (* Model/Exec.v arm_select = Model/Scan.v scan_pick *)
  Lemma arm_select_pick : forall rs suffix,
    match scan_pick find rs suffix with
    | PNone => arm_select find rs suffix = ASelNone
    | PEmpty k => arm_select find rs suffix = ASelEmpty k
    | PArm k a b g => arm_select find rs suffix = ASelArm k g /\ cap0 g = (a, b)
    end.
  Proof.
    intros rs suffix. unfold scan_pick, arm_select.
    pose proof (arm_collect_collect rs 0 suffix [] None eq_refl) as H.
    destruct (collect find rs 0 suffix []) as [j|[|c l0]]; auto.
    destruct H as (a & k' & b & g & B & S & C). rewrite B. auto.
  Qed.

  Lemma arm_select_scan_select : forall rs suffix,
    arm_select find rs suffix =
    match scan_select find rs suffix with
    | SelNone => ASelNone
    | SelEmpty k => ASelEmpty k
    | SelArm k g => ASelArm k g
    end.
  Proof.
    intros rs suffix. unfold scan_select. pose proof (arm_select_pick rs suffix) as H.
    destruct (scan_pick find rs suffix); [exact H|exact H|exact (proj1 H)].
  Qed.

  (* ---------------- the strict loop ---------------- *)
  Theorem strict_scan_refines : forall run_arm arms rs subject fuel i st p,
    Strict.scan_loop find run_arm arms rs subject fuel i st p =
    strict_scan_fold run_arm arms subject i
      (fst (Scan.scan_loop find fuel rs subject i)) (snd (Scan.scan_loop find fuel rs subject i)) st p.
  Proof.
    intros run_arm arms rs subject. induction fuel as [|fuel IH]; intros i st p; [reflexivity|].
    cbn [Strict.scan_loop Scan.scan_loop].
    change (N.of_nat (length subject)) with (str_len subject).
    change (skipn (N.to_nat i) subject) with (str_skip i subject).
    destruct (N.ltb i (str_len subject)) eqn:L.
    2:{ cbn [fst snd strict_scan_fold strict_scan_tail]. rewrite L. reflexivity. }
    pose proof (arm_select_pick rs (str_skip i subject)) as P.
    destruct (scan_pick find rs (str_skip i subject)) as [|k|k a b g].
    - rewrite P. cbn [fst snd strict_scan_fold strict_scan_tail]. rewrite L. reflexivity.
    - rewrite P. reflexivity.
    - destruct P as (P & C). rewrite P, C. cbn [snd].
      specialize (IH (i + b)).
      destruct (Scan.scan_loop find fuel rs subject (i + b)) as [evs f]. cbn [fst snd] in *.
      cbn [strict_scan_fold]. rewrite cap_texts_captures_text.
      apply bind_ext_at. intros _ s1 p1.
      destruct (nth_error arms (N.to_nat k)) as [[[x body] y]|]; [|reflexivity].
      apply bind_ext_at. intros _ s2 p2. apply bind_ext_at. intros _ s3 p3. apply bind_ext_at. intros _ s4 p4.
      apply IH.
  Qed.

  (* ---------------- the lazy loop ---------------- *)
  Theorem lazy_scan_refines : forall run_arm arms rs subject fuel i st p,
    lscan_loop find run_arm arms rs subject fuel i st p =
    lazy_scan_fold run_arm arms (length rs) subject i
      (fst (Scan.scan_loop find fuel rs subject i)) (snd (Scan.scan_loop find fuel rs subject i)) st p.
  Proof.
    intros run_arm arms rs subject. induction fuel as [|fuel IH]; intros i st p; [reflexivity|].
    cbn [lscan_loop Scan.scan_loop].
    change (N.of_nat (length subject)) with (str_len subject).
    change (skipn (N.to_nat i) subject) with (str_skip i subject).
    destruct (N.ltb i (str_len subject)) eqn:L.
    2:{ cbn [fst snd lazy_scan_fold lazy_scan_tail]. rewrite L. reflexivity. }
    pose proof (arm_select_pick rs (str_skip i subject)) as P.
    destruct (scan_pick find rs (str_skip i subject)) as [|k|k a b g].
    - rewrite P. cbn [fst snd lazy_scan_fold lazy_scan_tail]. rewrite L. reflexivity.
    - rewrite P. reflexivity.
    - destruct P as (P & C). rewrite P, C. cbn [snd].
      specialize (IH (i + b)).
      destruct (Scan.scan_loop find fuel rs subject (i + b)) as [evs f]. cbn [fst snd] in *.
      cbn [lazy_scan_fold]. rewrite cap_texts_captures_text.
      apply bind_ext_at. intros _ s1 p1.
      destruct (nth_error arms (N.to_nat k)) as [[[x body] y]|]; [|reflexivity].
      apply bind_ext_at. intros _ s2 p2. apply bind_ext_at. intros _ s3 p3. apply bind_ext_at. intros _ s4 p4.
      apply IH.
  Qed.

  (* ---------------- the C10 headline results, about the interpreters' loops ---------------- *)
  Hypothesis find_wf : forall r s a b g, find r s = Some (Some (a, b) :: g) -> a <= b /\ b <= str_len s.

  (* with fuel above the remaining length (the interpreters pass |subject| + 1 from position 0) the
     loop is the fold over THE declarative sequence: the loop itself never runs out of fuel, the
     sequence is unique and makes progress *)
  Theorem strict_scan_spec_lemma : forall rs subject fuel i,
    (N.to_nat (str_len subject - i) < fuel)%nat ->
    exists evs f,
      ScanSeq find rs subject i evs f /\ ev_chain subject i evs /\ f <> SOutOfFuel /\
      (forall evs' f', ScanSeq find rs subject i evs' f' -> evs' = evs /\ f' = f) /\
      forall run_arm arms st p,
        Strict.scan_loop find run_arm arms rs subject fuel i st p = strict_scan_fold run_arm arms subject i evs f st p.
  Proof.
    intros rs subject fuel i Hf.
    destruct (Scan.scan_loop find fuel rs subject i) as [evs f] eqn:R. exists evs, f.
    assert (HS : ScanSeq find rs subject i evs f) by (apply (loop_complete find find_wf rs subject fuel i evs f Hf); exact R).
    split; [exact HS|]. split; [exact (loop_chain find find_wf _ _ _ _ _ _ R)|].
    split; [exact (ScanSeq_status find _ _ _ _ _ HS)|]. split.
    - intros evs' f' HS'. destruct (ScanSeq_unique find _ _ _ _ _ HS _ _ HS') as [-> ->]. auto.
    - intros run_arm arms st p. rewrite strict_scan_refines, R. reflexivity.
  Qed.

  Theorem lazy_scan_spec_lemma : forall rs subject fuel i,
    (N.to_nat (str_len subject - i) < fuel)%nat ->
    exists evs f,
      ScanSeq find rs subject i evs f /\ ev_chain subject i evs /\ f <> SOutOfFuel /\
      (forall evs' f', ScanSeq find rs subject i evs' f' -> evs' = evs /\ f' = f) /\
      forall run_arm arms st p,
        lscan_loop find run_arm arms rs subject fuel i st p = lazy_scan_fold run_arm arms (length rs) subject i evs f st p.
  Proof.
    intros rs subject fuel i Hf.
    destruct (Scan.scan_loop find fuel rs subject i) as [evs f] eqn:R. exists evs, f.
    assert (HS : ScanSeq find rs subject i evs f) by (apply (loop_complete find find_wf rs subject fuel i evs f Hf); exact R).
    split; [exact HS|]. split; [exact (loop_chain find find_wf _ _ _ _ _ _ R)|].
    split; [exact (ScanSeq_status find _ _ _ _ _ HS)|]. split.
    - intros evs' f' HS'. destruct (ScanSeq_unique find _ _ _ _ _ HS _ _ HS') as [-> ->]. auto.
    - intros run_arm arms st p. rewrite lazy_scan_refines, R. reflexivity.
  Qed.

  (* progress at every fuel: the arms an interpreter runs form a chain of non-empty, strictly advancing spans *)
  Theorem strict_scan_progress_lemma : forall rs subject fuel i,
    exists evs f, ev_chain subject i evs /\
      forall run_arm arms st p,
        Strict.scan_loop find run_arm arms rs subject fuel i st p = strict_scan_fold run_arm arms subject i evs f st p.
  Proof.
    intros rs subject fuel i. destruct (Scan.scan_loop find fuel rs subject i) as [evs f] eqn:R. exists evs, f.
    split; [exact (loop_chain find find_wf _ _ _ _ _ _ R)|].
    intros run_arm arms st p. rewrite strict_scan_refines, R. reflexivity.
  Qed.
  Theorem lazy_scan_progress_lemma : forall rs subject fuel i,
    exists evs f, ev_chain subject i evs /\
      forall run_arm arms st p,
        lscan_loop find run_arm arms rs subject fuel i st p = lazy_scan_fold run_arm arms (length rs) subject i evs f st p.
  Proof.
    intros rs subject fuel i. destruct (Scan.scan_loop find fuel rs subject i) as [evs f] eqn:R. exists evs, f.
    split; [exact (loop_chain find find_wf _ _ _ _ _ _ R)|].
    intros run_arm arms st p. rewrite lazy_scan_refines, R. reflexivity.
  Qed.

  (* an empty match at a position the loop reaches: the interpreter polls and fails with
     EmptyRegexCapture; no arm body runs, no frame is pushed *)
  Theorem strict_empty_match_lemma : forall run_arm arms rs subject fuel i k a g st p,
    i < str_len subject -> arm_match find rs subject i k a a g ->
    Strict.scan_loop find run_arm arms rs subject (S fuel) i st p = (poll L_scan ;;; fail EEmptyRegexCapture) st p.
  Proof.
    intros run_arm arms rs subject fuel i k a g st p L M.
    destruct (empty_match_error find find_wf rs subject fuel i k a g L M) as (k' & _ & R & _).
    rewrite strict_scan_refines, R. reflexivity.
  Qed.
  Theorem lazy_empty_match_lemma : forall run_arm arms rs subject fuel i k a g st p,
    i < str_len subject -> arm_match find rs subject i k a a g ->
    exists k', k' <= k /\ (exists a' g', arm_match find rs subject i k' a' a' g') /\
      lscan_loop find run_arm arms rs subject (S fuel) i st p =
      (lpoll_n (S (N.to_nat k')) L_scan ;;; fail EEmptyRegexCapture) st p.
  Proof.
    intros run_arm arms rs subject fuel i k a g st p L M.
    destruct (empty_match_error find find_wf rs subject fuel i k a g L M) as (k' & Hle & R & Hm & _).
    exists k'. split; [exact Hle|]. split; [exact Hm|].
    rewrite lazy_scan_refines, R. reflexivity.
  Qed.

  (* the arm the interpreters select (Model/Exec.v arm_select, used by both) has a non-empty match
     inside the suffix, and it is the answer of the engine for that arm *)
  Theorem arm_select_nonempty_lemma : forall rs suffix k c,
    arm_select find rs suffix = ASelArm k c ->
    exists a b g, c = Some (a, b) :: g /\ a < b /\ b <= str_len suffix /\
      (exists r, nth_error rs (N.to_nat k) = Some r /\ find r suffix = Some c).
  Proof.
    intros rs suffix k c H. rewrite arm_select_scan_select in H.
    destruct (scan_select find rs suffix) as [|k'|k' c'] eqn:E; try discriminate.
    inversion H; subst. exact (selected_arm_nonempty find find_wf rs suffix k c E).
  Qed.
  (* ... and selection is the declarative rule: leftmost start, earlier arm on ties, nobody matches empty *)
  Theorem arm_select_spec_lemma : forall rs suffix,
    match arm_select find rs suffix with
    | ASelEmpty k => exists a c, arm_hit find rs suffix k a a c /\ forall k' a' c', k' < k -> ~ arm_hit find rs suffix k' a' a' c'
    | ASelNone => forall k a b c, ~ arm_hit find rs suffix k a b c
    | ASelArm k c => exists a b, arm_hit find rs suffix k a b c /\ a < b /\
                       (forall k' a' c', ~ arm_hit find rs suffix k' a' a' c') /\
                       (forall k' a' b' c', arm_hit find rs suffix k' a' b' c' -> a < a' \/ (a = a' /\ k <= k'))
    end.
  Proof.
    intros rs suffix. pose proof (arm_select_pick rs suffix) as P. pose proof (scan_pick_spec find find_wf rs suffix) as Q.
    destruct (scan_pick find rs suffix) as [|k|k a b g].
    - rewrite P. exact Q.
    - rewrite P. exact Q.
    - destruct P as (P & _). rewrite P. exists a, b. exact Q.
  Qed.
End ScanLink.

(* ---------------- the `scan` STATEMENT of the two interpreters ---------------- *)
Section ScanStmt.
  Variable t : tree.
  Variable fl : file.
  Variable cfg : config.
  Variable glob : globals.
  Variable regexes : list regex.
  Variable find : regex -> str -> option rcaps.
  Variable call : ident -> graph -> list value -> res (value * graph).
  Hypothesis G0 : find_group0 find.

  Theorem strict_scan_stmt_refines_lemma : forall fuel le value arms l st p,
    exec_stmt t fl cfg glob regexes find call (S fuel) le (SScan value arms l) st p =
    (poll L_exec_stmt ;;;
     sv <- eval t fl glob call fuel le value ;; subject <- lift (as_str sv) ;;
     match arm_table regexes arms with
     | None => panic P_regex_table
     | Some rs =>
         let r := Scan.scan_loop find (S (length subject)) rs subject 0 in
         strict_scan_fold (strict_arm_runner t fl cfg glob regexes find call fuel le) arms subject 0 (fst r) (snd r)
     end) st p.
  Proof.
    intros fuel le value arms l st p. cbn [exec_stmt].
    apply bind_ext_at. intros _ s1 p1. apply bind_ext_at. intros sv s2 p2. apply bind_ext_at. intros subject s3 p3.
    destruct (arm_table regexes arms) as [rs|]; [|reflexivity].
    cbv zeta. rewrite (strict_scan_refines find G0). reflexivity.
  Qed.

  Theorem lazy_scan_stmt_refines_lemma : forall fuel le value arms l st p,
    lexec_stmt t fl cfg glob regexes find call (S fuel) le (SScan value arms l) st p =
    (lpoll L_exec_stmt ;;;
     sv <- leager t fl glob call fuel le value ;; subject <- lift (as_str sv) ;;
     match arm_table regexes arms with
     | None => panic P_regex_table
     | Some rs =>
         let r := Scan.scan_loop find (S (length subject)) rs subject 0 in
         lazy_scan_fold (lazy_arm_runner t fl cfg glob regexes find call fuel le) arms (length rs) subject 0 (fst r) (snd r)
     end) st p.
  Proof.
    intros fuel le value arms l st p. cbn [lexec_stmt].
    apply bind_ext_at. intros _ s1 p1. apply bind_ext_at. intros sv s2 p2. apply bind_ext_at. intros subject s3 p3.
    destruct (arm_table regexes arms) as [rs|]; [|reflexivity].
    cbv zeta. rewrite (lazy_scan_refines find G0). reflexivity.
  Qed.
End ScanStmt.
