(* Proofs/ScThExec.v — C08 WITH scoped variables inside thunks, part 5: the execution phase on two block lists that differ
   by one exchange of adjacent blocks (as Proofs/ScPermExec.v, for the fragment `tstmt` and kinded deltas). *)
From Coq Require Import Permutation.
From TSG Require Import Model.Lazy Proofs.BaseFacts Proofs.Containers Proofs.MonadFacts Proofs.SLForce Proofs.SLExpr Proofs.BlockPermRen Proofs.BlockPermSim Proofs.BlockPermDepth Proofs.BlockPermSwap
  Proofs.BlockPermExec Proofs.BlockPermGraph Proofs.ScPermSound Proofs.ScPermSim Proofs.ScPermSwap Proofs.ScPermTyped Proofs.ScPermSR Proofs.ScPermExec
  Proofs.ScThSim Proofs.ScThSwap Proofs.ScThTyped Proofs.ScThSR.

Section Exec3.
  Context {rx : Type}.
  Variables (t : tree) (fl : file) (glob : globals) (regexes : list rx)
            (find : rx -> str -> option (list (option (N * N))))
            (call : ident -> graph -> list value -> res (value * graph)).
  Variable okfn : ident -> Prop.
  Variable tnt : ident -> bool.
  Hypothesis Hcall : forall f, okfn f -> call_ok call f.
  Variable g0 : graph.
  Notation n0 := (N.of_nat (length g0)).
  Hypothesis Hglob : forall name v, globals_get glob name = Some v -> vall (fun i => i < n0) v.

  Notation step fuel := (bstep t fl config0 glob regexes find call fuel).
  Notation run st qm fuel := (lexec_stanza t fl config0 glob regexes find call fuel st qm).
  Definition pm_ok3 (pm : N * qmatch) : Prop := forall st, nth_error (f_stanzas fl) (N.to_nat (fst pm)) = Some st -> block_ok3 fl okfn tnt st (snd pm).

  Definition bst3 (bds : list bdesc3) (s : lstate) : Prop := styped3 okfn g0 bds s /\ n0 <= gn s /\ one_frame s.
  Lemma bst3_init : bst3 [] (linit g0).
  Proof. split; [apply styped3_init|]. split; [unfold gn; cbn; lia|reflexivity]. Qed.
  Lemma bst3_unf bds s : bst3 bds s -> allunf (l_scoped s). Proof. intros ((_ & _ & _ & _ & _ & (H & _) & _) & _). exact H. Qed.

  Lemma exec_block3 bds s st qm fuel p : bst3 bds s -> block_ok3 fl okfn tnt st qm -> nob p ->
    match run st qm fuel s p with
    | Ok (_, s1, p1) => nob p1 /\ exists d ks, extends2 s d s1 /\ delta_ok3 ea0 okfn n0 (gn s) (sn s) d /\ bst3 (bds ++ [mkdesc3 s s1 ks]) s1
    | _ => True
    end.
  Proof.
    intros (Ht & Hn & Hf) Hok Hb. pose proof (bst3_unf bds s (conj Ht (conj Hn Hf))) as Hu.
    pose proof (block_shift3 t fl config0 glob regexes find call ea0 okfn tnt n0 Hea0 Hcall Hglob st qm fuel s s p Hok Hn Hn Hf Hf Hu Hu) as H.
    destruct (run st qm fuel s p) as [[[u s1] p1]|e|x|] eqn:E; try exact I. destruct H as (d & s2 & _ & X & _ & Od).
    split; [eapply run_nob; eauto|]. destruct (extends2_sizes _ _ _ X) as (G & _ & F & _).
    destruct (styped3_step okfn g0 bds s d s1 Ht Hn X Od) as (ks & Ht1). exists d, ks. split; [exact X|]. split; [exact Od|].
    split; [exact Ht1|]. split; [lia|apply F, Hf].
  Qed.

  Lemma exec_prefix3 fuel : forall l bds s p, bst3 bds s -> Forall pm_ok3 l -> nob p ->
    match iterM (step fuel) l s p with
    | Ok (_, s', p') => nob p' /\ exists bds', bst3 bds' s'
    | _ => True
    end.
  Proof.
    induction l as [|pm l IH]; intros bds s p Hs Hok Hb; cbn [iterM].
    - split; [exact Hb|]. exists bds. exact Hs.
    - inversion Hok as [|? ? Hpm Hrest]; subst. unfold bind, bstep at 1. destruct (nth_error (f_stanzas fl) (N.to_nat (fst pm))) as [st|] eqn:Est; [|exact I].
      pose proof (exec_block3 bds s st (snd pm) fuel p Hs (Hpm st Est) Hb) as H. destruct (run st (snd pm) fuel s p) as [[[u s1] p1]|e|x|]; try exact I.
      destruct H as (Hb1 & d & ks & _ & _ & Hs1). apply (IH _ s1 p1 Hs1 Hrest Hb1).
  Qed.

  Definition SRT3 (rg rl : N -> N) (bds : list bdesc3) (s s' : lstate) : Prop :=
    SR g0 rg rl s s' /\ bst3 bds s /\ one_frame s' /\ gn s' = gn s /\ sn s' = sn s /\
    (forall i, i < n0 \/ gn s <= i -> rg i = i) /\ (forall l, sn s <= l -> rl l = l) /\
    (forall d, In d bds -> forall i j, bD n0 (q_b d) i -> bD n0 (q_b d) j -> i < j -> rg i < rg j).

  Lemma exec_suffix3 rg rl fuel : forall l bds s s' p p2, SRT3 rg rl bds s s' -> Forall pm_ok3 l -> nob p -> nob p2 ->
    match iterM (step fuel) l s p with
    | Ok (_, s1, p1) => exists s1' p1' bds1, iterM (step fuel) l s' p2 = Ok (tt, s1', p1') /\ nob p1 /\ nob p1' /\ SRT3 rg rl bds1 s1 s1'
    | _ => True
    end.
  Proof.
    induction l as [|pm l IH]; intros bds s s' p p2 HS Hok Hb Hb2; cbn [iterM].
    - exists s', p2, bds. split; [reflexivity|]. auto.
    - inversion Hok as [|? ? Hpm Hrest]; subst. unfold bind, bstep at 1 3. destruct (nth_error (f_stanzas fl) (N.to_nat (fst pm))) as [st|] eqn:Est; [|exact I].
      destruct HS as (HSR & Hs & Hf' & Eg & Es & Hrg & Hrl & Hmono). pose proof Hs as (Ht & Hn & Hf). pose proof (bst3_unf _ _ Hs) as Hu.
      assert (Hu' : allunf (l_scoped s')) by apply HSR.
      pose proof (same_size3 t fl config0 glob regexes find call ea0 okfn tnt n0 Hea0 Hcall Hglob st (snd pm) fuel s s' p (Hpm st Est) Hn Eg Es Hf Hf' Hu Hu') as H.
      pose proof (run_repoll t fl config0 glob regexes find call st (snd pm) fuel s' p p2 Hb Hb2) as RP.
      destruct (run st (snd pm) fuel s p) as [[[u s1] p1]|e|x|] eqn:E1; try exact I. destruct H as (d & s1' & E1' & X & X' & Od). rewrite E1' in RP.
      destruct RP as (q' & RP & Hq'). rewrite RP.
      destruct (extends2_sizes _ _ _ X) as (G & K & F & _). destruct (extends2_sizes _ _ _ X') as (G' & K' & F' & _).
      destruct (styped3_step okfn g0 bds s d s1 Ht Hn X Od) as (ks & Ht1).
      assert (HS1 : SRT3 rg rl (bds ++ [mkdesc3 s s1 ks]) s1 s1').
      { split; [apply (SR_step_gen g0 rg rl s s' d s1 s1' HSR Hn Hrg Hrl Hu X X' (ok3_nodes okfn g0 _ _ d Od) (ok3_fix okfn g0 rg rl s d Od Hrg Hrl))|].
        split; [split; [exact Ht1|split; [lia|apply F, Hf]]|]. split; [apply F', Hf'|]. split; [lia|]. split; [lia|].
        split; [intros i Hi; apply Hrg; lia|]. split; [intros l0 Hl; apply Hrl; lia|].
        intros d0 Hin i j Hi Hj Hlt. apply in_app_or in Hin as [Hin|[<-|[]]]; [apply (Hmono d0 Hin i j Hi Hj Hlt)|].
        unfold bD, mkdesc3, mkdesc in Hi, Hj. cbn [q_b b_glo b_ghi] in Hi, Hj. rewrite (Hrg i), (Hrg j); [exact Hlt| |]; lia. }
      assert (Hb1 : nob p1) by (eapply run_nob; [exact Hb|exact E1]).
      apply (IH _ s1 s1' p1 q' HS1 Hrest Hb1 Hq').
  Qed.

  Theorem exec_swap3 fuel l1 a b l2 p u S pS : Forall pm_ok3 (l1 ++ a :: b :: l2) -> nob p ->
    iterM (step fuel) (l1 ++ a :: b :: l2) (linit g0) p = Ok (u, S, pS) ->
    exists S' pS' bds rg rl rg' rl', iterM (step fuel) (l1 ++ b :: a :: l2) (linit g0) p = Ok (tt, S', pS') /\ nob pS /\ nob pS' /\ SRT3 rg rl bds S S' /\
      (forall i, rg' (rg i) = i) /\ (forall i, rg (rg' i) = i) /\ (forall l, rl' (rl l) = l) /\ (forall l, rl (rl' l) = l).
  Proof.
    intros Hok Hb H. apply Forall_app in Hok as [Hok1 Hok2]. inversion Hok2 as [|? ? Ha Hok3]; subst. inversion Hok3 as [|? ? Hbk Hok4]; subst.
    rewrite iterM_app in H. rewrite iterM_app. unfold bind at 1 in H. unfold bind at 1.
    pose proof (exec_prefix3 fuel l1 [] (linit g0) p bst3_init Hok1 Hb) as HP.
    destruct (iterM (step fuel) l1 (linit g0) p) as [[[u1 X] pX]|e|x|] eqn:EX; try discriminate. destruct HP as (HbX & bdsX & HX).
    pose proof HX as (HtX & HnX & HfX). pose proof (bst3_unf _ _ HX) as HuX.
    cbn [iterM] in H. cbn [iterM]. unfold bind at 1, bstep at 1 in H. unfold bind at 1, bstep at 1.
    destruct (nth_error (f_stanzas fl) (N.to_nat (fst a))) as [stA|] eqn:EstA; [|discriminate].
    destruct (run stA (snd a) fuel X pX) as [[[uA XA] pA]|e|x|] eqn:EA; try discriminate.
    unfold bind at 1, bstep at 1 in H. destruct (nth_error (f_stanzas fl) (N.to_nat (fst b))) as [stB|] eqn:EstB; [|discriminate].
    destruct (run stB (snd b) fuel XA pA) as [[[uB SAB] pAB]|e|x|] eqn:EAB; try discriminate.
    (* the actual run: X -> XA -> SAB, typed *)
    pose proof (exec_block3 bdsX X stA (snd a) fuel pX HX (Ha stA EstA) HbX) as HA1. rewrite EA in HA1. destruct HA1 as (HbA & dA0 & ksA & _ & _ & HXA).
    pose proof HXA as (HtXA & HnXA & HfXA). pose proof (bst3_unf _ _ HXA) as HuXA.
    pose proof (exec_block3 _ XA stB (snd b) fuel pA HXA (Hbk stB EstB) HbA) as HB1. rewrite EAB in HB1. destruct HB1 as (HbAB & dB0 & ksB & _ & _ & HSAB).
    (* B from X and from XA *)
    pose proof (block_shift3 t fl config0 glob regexes find call ea0 okfn tnt n0 Hea0 Hcall Hglob stB (snd b) fuel X XA pX (Hbk stB EstB) HnX HnXA HfX HfXA HuX HuXA) as SB.
    pose proof (run_repoll t fl config0 glob regexes find call stB (snd b) fuel XA pX pA HbX HbA) as RB.
    destruct (run stB (snd b) fuel X pX) as [[[uB0 XB] pB]|e|x|] eqn:EB.
    2:{ rewrite SB in RB. congruence. } 2:{ rewrite SB in RB. congruence. } 2:{ rewrite SB in RB. congruence. }
    destruct SB as (dB & SAB0 & ESAB0 & XdB & XdBA & OdB). rewrite ESAB0 in RB. destruct RB as (q1 & RB & _). rewrite EAB in RB. inversion RB; subst SAB0 q1. clear RB.
    assert (HbB : nob pB) by (eapply run_nob; [exact HbX|exact EB]).
    destruct (extends2_sizes _ _ _ XdB) as (GB & KB & FB & UB).
    (* A from XB *)
    pose proof (block_shift3 t fl config0 glob regexes find call ea0 okfn tnt n0 Hea0 Hcall Hglob stA (snd a) fuel X XB pX (Ha stA EstA) HnX ltac:(lia) HfX (FB HfX) HuX (UB HuX)) as SA.
    rewrite EA in SA. destruct SA as (dA & SBA & ESBA & XdA & XdAB & OdA).
    pose proof (run_repoll t fl config0 glob regexes find call stA (snd a) fuel XB pX pB HbX HbB) as RA. rewrite ESBA in RA. destruct RA as (q2 & RA & Hq2).
    unfold bind at 1, bstep at 1. rewrite EstA, RA.
    (* the two states after the exchanged pair *)
    destruct (styped3_fix okfn g0 bdsX X (srg X dA dB) (srl X dA dB) HtX (agree_X_g g0 X dA dB HnX) (agree_X_l g0 X dA dB HnX)) as (FXt & FXs & FXp).
    pose proof HtX as (HbdX & _ & _ & _ & _ & _ & HgX).
    pose proof (SR_swap_gen g0 X XA SAB XB SBA dA dB HnX XdA XdB XdBA XdAB HgX HuX FXt FXs FXp (ok3_nodes okfn g0 _ _ dA OdA) (ok3_nodes okfn g0 _ _ dB OdB)
                  (ok3_A okfn g0 X XB dA dB HnX XdB OdA) (ok3_B okfn g0 X XA dA dB HnX XdA OdB)) as HSR.
    destruct (extends2_sizes _ _ _ XdA) as (GA & KA & _). destruct (extends2_sizes _ _ _ XdBA) as (GAB & KAB & _). destruct (extends2_sizes _ _ _ XdAB) as (GBA & KBA & FBA & _).
    cbn [dren2 e_nodes e_thunks] in GAB, KAB, GBA, KBA. rewrite map_length in KAB, KBA.
    assert (HS : SRT3 (srg X dA dB) (srl X dA dB) ((bdsX ++ [mkdesc3 X XA ksA]) ++ [mkdesc3 XA SAB ksB]) SAB SBA).
    { split; [exact HSR|]. split; [exact HSAB|]. split; [apply FBA, FB, HfX|]. split; [lia|]. split; [lia|].
      split; [apply (srg_out g0 X XA SAB dA dB HnX XdA XdBA)|]. split; [apply (srl_out g0 X XA SAB dA dB HnX XdA XdBA)|].
      intros d Hin. apply in_app_or in Hin as [Hin|[<-|[]]]; [apply in_app_or in Hin as [Hin|[<-|[]]]|].
      - intros i j Hi Hj Hlt. destruct (HbdX d Hin) as (B1 & B1' & B2 & _). rewrite !(agree_X_g g0 X dA dB HnX); [exact Hlt| |]; unfold bD in *; lia.
      - apply (srg_mono_A g0 X XA dA dB HnX XdA).
      - apply (srg_mono_B g0 X XA SAB dA dB HnX XdA XdBA). }
    pose proof (exec_suffix3 (srg X dA dB) (srl X dA dB) fuel l2 _ SAB SBA pAB q2 HS Hok4 HbAB Hq2) as HT.
    destruct (iterM (step fuel) l2 SAB pAB) as [[[u2 S2] p2]|e|x|]; try discriminate. inversion H; subst u S pS; clear H.
    destruct HT as (S' & pS' & bds1 & ES' & Hb2 & Hb2' & HS2).
    exists S', pS', bds1, (srg X dA dB), (srl X dA dB), (swp (gn X) (N.of_nat (length (e_nodes dB))) (N.of_nat (length (e_nodes dA)))),
      (swp (sn X) (N.of_nat (length (e_thunks dB))) (N.of_nat (length (e_thunks dA)))).
    split; [exact ES'|]. split; [exact Hb2|]. split; [exact Hb2'|]. split; [exact HS2|].
    split; [intros i; apply swp_inv|]. split; [intros i; apply swp_inv|]. split; [intros i; apply swp_inv|intros i; apply swp_inv].
  Qed.
End Exec3.
