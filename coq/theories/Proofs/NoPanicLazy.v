(* Proofs/NoPanicLazy.v — C05 (execution part, lazy interpreter): under what the parser, the checker and
   tree-sitter guarantee, `run_lazy` never reaches a Panic site.

   The invariant extends the one of Proofs/NoPanicStrict.v to lazy values: every graph-node reference in a
   value is an index of the current graph and every store location in a lazy value is an index of the current
   store, wherever the state keeps lazy values (locals, thunks, scoped-variable cells, recorded statements);
   graph and store only grow.  Frame depth and parameter-buffer length are tracked exactly. *)
From TSG Require Import Model.Strict Model.Lazy Model.Stdlib Spec.StdlibDoc.
From TSG Require Import Proofs.BaseFacts Proofs.MonadFacts Proofs.Containers Proofs.OrderFacts Proofs.NoPanicStrict.

Section LValueInd.
  Variable P : lvalue -> Prop.
  Hypothesis Hvalue : forall v, P (LValue v).
  Hypothesis Hlist : forall l, Forall P l -> P (LList l).
  Hypothesis Hset : forall l, Forall P l -> P (LSet l).
  Hypothesis Hvar : forall loc, P (LVar loc).
  Hypothesis Hscoped : forall sc name, P sc -> P (LScoped sc name).
  Hypothesis Hcall : forall f args, Forall P args -> P (LCall f args).
  Fixpoint lvalue_ind' (lv : lvalue) : P lv :=
    let fix go (l : list lvalue) : Forall P l :=
      match l with [] => Forall_nil _ | x :: l' => Forall_cons x (lvalue_ind' x) (go l') end in
    match lv with
    | LValue v => Hvalue v
    | LList l => Hlist l (go l)
    | LSet l => Hset l (go l)
    | LVar loc => Hvar loc
    | LScoped sc name => Hscoped sc name (lvalue_ind' sc)
    | LCall f args => Hcall f args (go args)
    end.
End LValueInd.

(* the lazy interpreter looks captures up by their index in the file query *)
Definition by_file (f : quant -> N -> bool) (q : quant) (fi si : N) : bool := f q fi.

Section LGood.
  Variable sok : N -> Prop.

  (* n: graph size; ns: store size *)
  Fixpoint lvgood (n ns : nat) (lv : lvalue) {struct lv} : Prop :=
    let fix all (l : list lvalue) : Prop := match l with [] => True | x :: l' => lvgood n ns x /\ all l' end in
    match lv with
    | LValue v => vgood sok n v
    | LList l => all l
    | LSet l => all l
    | LVar loc => (N.to_nat loc < ns)%nat
    | LScoped sc _ => lvgood n ns sc
    | LCall _ args => all args
    end.
  Lemma lvgood_all n ns l :
    (fix all (l : list lvalue) : Prop := match l with [] => True | x :: l' => lvgood n ns x /\ all l' end) l <-> Forall (lvgood n ns) l.
  Proof.
    induction l as [|x l IH]; [split; constructor|]. split.
    - intros [H1 H2]. constructor; [exact H1|apply IH, H2].
    - intros H. inversion H; subst. split; [assumption|apply IH; assumption].
  Qed.
  Lemma lvgood_list n ns l : lvgood n ns (LList l) <-> Forall (lvgood n ns) l. Proof. apply lvgood_all. Qed.
  Lemma lvgood_set n ns l : lvgood n ns (LSet l) <-> Forall (lvgood n ns) l. Proof. apply lvgood_all. Qed.
  Lemma lvgood_call n ns f l : lvgood n ns (LCall f l) <-> Forall (lvgood n ns) l. Proof. apply lvgood_all. Qed.

  Lemma lvgood_mono n ns n' ns' lv : (n <= n')%nat -> (ns <= ns')%nat -> lvgood n ns lv -> lvgood n' ns' lv.
  Proof.
    intros Hn Hs. induction lv as [v|l IH|l IH|loc|sc name IH|f args IH] using lvalue_ind'.
    - cbn [lvgood]. apply vgood_mono, Hn.
    - rewrite !lvgood_list. intros H. rewrite Forall_forall in *. intros x Hx. apply IH; auto.
    - rewrite !lvgood_set. intros H. rewrite Forall_forall in *. intros x Hx. apply IH; auto.
    - cbn [lvgood]. lia.
    - cbn [lvgood]. exact IH.
    - rewrite !lvgood_call. intros H. rewrite Forall_forall in *. intros x Hx. apply IH; auto.
  Qed.
  Lemma lvsgood_mono n ns n' ns' l : (n <= n')%nat -> (ns <= ns')%nat -> Forall (lvgood n ns) l -> Forall (lvgood n' ns') l.
  Proof. intros Hn Hs H. rewrite Forall_forall in *. intros x Hx. eapply lvgood_mono; eauto. Qed.

  Definition lfgood (n ns : nat) (f : vframe lvalue) : Prop := Forall (fun kv => lvgood n ns (fst (snd kv))) f.
  Definition llgood (n ns : nat) (l : varmap lvalue) : Prop := Forall (lfgood n ns) l.
  Definition thgood (n ns : nat) (th : thunk) : Prop :=
    match th_state th with TUnforced lv => lvgood n ns lv | TForcing => True | TForced v => vgood sok n v end.
  Definition pairgood (n ns : nat) (x : lvalue * lvalue * stmt_ctx) : Prop := lvgood n ns (fst (fst x)) /\ lvgood n ns (snd (fst x)).
  Definition mapgood (n ns : nat) (m : list (N * lvalue)) : Prop := Forall (fun kv => lvgood n ns (snd kv)) m.
  Definition svgood (n ns : nat) (sv : scoped_values) : Prop :=
    match sv with SVUnforced pairs => Forall (pairgood n ns) pairs | SVForcing => True | SVForced m => mapgood n ns m end.
  Definition attrsgood (n ns : nat) (l : list (ident * lvalue)) : Prop := Forall (fun a => lvgood n ns (snd a)) l.
  Definition lsgood (n ns : nat) (st : lstmt) : Prop :=
    match st with
    | LSAttrNode node attrs _ => lvgood n ns node /\ attrsgood n ns attrs
    | LSEdge a b _ _ => lvgood n ns a /\ lvgood n ns b
    | LSAttrEdge a b attrs _ => lvgood n ns a /\ lvgood n ns b /\ attrsgood n ns attrs
    | LSPrint args _ => Forall (fun o => match o with Some lv => lvgood n ns lv | None => True end) args
    end.
  Definition stgood (n ns : nat) (s : lstate) : Prop :=
    llgood n ns (l_locals s) /\ Forall (thgood n ns) (l_store s) /\ Forall (fun c => svgood n ns (snd c)) (l_scoped s) /\
    Forall (lsgood n ns) (l_edges s) /\ Forall (lsgood n ns) (l_attrs s) /\ Forall (lsgood n ns) (l_prints s) /\
    Forall (vgood sok n) (l_params s).

  Section Mono.
    Variables n ns n' ns' : nat.
    Hypothesis Hn : (n <= n')%nat.
    Hypothesis Hs : (ns <= ns')%nat.
    Lemma Forall_impl' {A} (P Q : A -> Prop) l : (forall x, P x -> Q x) -> Forall P l -> Forall Q l.
    Proof. intros H HF. eapply Forall_impl; eauto. Qed.
    Lemma lfgood_mono f : lfgood n ns f -> lfgood n' ns' f.
    Proof. apply Forall_impl'. intros x. apply lvgood_mono; assumption. Qed.
    Lemma llgood_mono l : llgood n ns l -> llgood n' ns' l.
    Proof. apply Forall_impl'. apply lfgood_mono. Qed.
    Lemma thgood_mono th : thgood n ns th -> thgood n' ns' th.
    Proof. unfold thgood. destruct (th_state th); auto; [apply lvgood_mono|apply vgood_mono]; assumption. Qed.
    Lemma pairgood_mono x : pairgood n ns x -> pairgood n' ns' x.
    Proof. intros [H1 H2]. split; eapply lvgood_mono; eauto. Qed.
    Lemma mapgood_mono m : mapgood n ns m -> mapgood n' ns' m.
    Proof. apply Forall_impl'. intros x. apply lvgood_mono; assumption. Qed.
    Lemma svgood_mono sv : svgood n ns sv -> svgood n' ns' sv.
    Proof. destruct sv; cbn [svgood]; auto; [apply Forall_impl'; apply pairgood_mono|apply mapgood_mono]. Qed.
    Lemma attrsgood_mono l : attrsgood n ns l -> attrsgood n' ns' l.
    Proof. apply Forall_impl'. intros x. apply lvgood_mono; assumption. Qed.
    Lemma lsgood_mono st : lsgood n ns st -> lsgood n' ns' st.
    Proof.
      destruct st; cbn [lsgood].
      - intros [H1 H2]. split; [eapply lvgood_mono; eauto|apply attrsgood_mono, H2].
      - intros [H1 H2]. split; eapply lvgood_mono; eauto.
      - intros (H1 & H2 & H3). split; [|split]; [eapply lvgood_mono; eauto..|apply attrsgood_mono, H3].
      - apply Forall_impl'. intros [lv|]; auto. apply lvgood_mono; assumption.
    Qed.
    Lemma stgood_mono s : stgood n ns s -> stgood n' ns' s.
    Proof.
      intros (H1 & H2 & H3 & H4 & H5 & H6 & H7). unfold stgood. split; [apply llgood_mono, H1|].
      split; [revert H2; apply Forall_impl'; apply thgood_mono|]. split; [revert H3; apply Forall_impl'; intros c; apply svgood_mono|].
      split; [revert H4; apply Forall_impl'; apply lsgood_mono|]. split; [revert H5; apply Forall_impl'; apply lsgood_mono|].
      split; [revert H6; apply Forall_impl'; apply lsgood_mono|]. revert H7. apply Forall_impl'. intros v. apply vgood_mono, Hn.
    Qed.
  End Mono.

  (* environments *)
  Lemma lfgood_get n ns f k v b : lfgood n ns f -> alist_get k f = Some (v, b) -> lvgood n ns v.
  Proof. intros H E. apply alist_get_In in E. unfold lfgood in H. rewrite Forall_forall in H. apply (H _ E). Qed.
  Lemma lfgood_app n ns f k v b : lfgood n ns f -> lvgood n ns v -> lfgood n ns (f ++ [(k, (v, b))]).
  Proof. intros H Hv. unfold lfgood. apply Forall_app. split; [exact H|]. constructor; [exact Hv|constructor]. Qed.
  Lemma lfgood_set n ns f k v b : lfgood n ns f -> lvgood n ns v -> lfgood n ns (alist_set k (v, b) f).
  Proof.
    intros H Hv. induction f as [|[k0 x0] f IH]; cbn [alist_set].
    - constructor; [exact Hv|constructor].
    - inversion H; subst. destruct (str_eqb k k0); constructor; cbn [fst snd]; auto. apply IH. assumption.
  Qed.
  Lemma lvarmap_get_good n ns l k v : llgood n ns l -> varmap_get l k = Some v -> lvgood n ns v.
  Proof.
    intros H. induction l as [|f up IH]; cbn [varmap_get]; [discriminate|]. inversion H; subst.
    destruct (alist_get k f) as [[v0 b0]|] eqn:E.
    - intros E'. inversion E'; subst. eapply lfgood_get; eauto.
    - apply IH. assumption.
  Qed.
  Lemma lvarmap_add_good n ns l k v b l' : llgood n ns l -> lvgood n ns v -> varmap_add l k v b = inl l' ->
    llgood n ns l' /\ length l' = length l.
  Proof.
    intros H Hv. destruct l as [|f up]; cbn [varmap_add]; [discriminate|]. inversion H; subst.
    destruct (alist_get k f); [discriminate|]. intros E. inversion E; subst. split; [|reflexivity].
    constructor; [apply lfgood_app; assumption|assumption].
  Qed.
  Lemma lvarmap_set_good n ns k v : forall l l', llgood n ns l -> lvgood n ns v -> varmap_set l k v = inl l' ->
    llgood n ns l' /\ length l' = length l.
  Proof.
    induction l as [|f up IH]; intros l' H Hv; cbn [varmap_set]; [discriminate|]. inversion H; subst.
    destruct (alist_get k f) as [[v0 [|]]|].
    - intros E. inversion E; subst. split; [|reflexivity]. constructor; [apply lfgood_set; assumption|assumption].
    - discriminate.
    - destruct (varmap_set up k v) as [up'|e] eqn:Eu; [|discriminate]. intros E. inversion E; subst.
      destruct (IH up') as [G L]; auto. split; [constructor; assumption|cbn [length]; rewrite L; reflexivity].
  Qed.
  Lemma lvarmap_clear_good n ns (l : varmap lvalue) : llgood n ns l -> llgood n ns (varmap_clear l) /\ length (varmap_clear l) = length l.
  Proof.
    intros H. destruct l as [|f up]; cbn [varmap_clear]; [split; [constructor|reflexivity]|]. inversion H; subst.
    split; [constructor; [constructor|assumption]|reflexivity].
  Qed.

  Lemma nmap_get_good n ns m k v : mapgood n ns m -> nmap_get m k = Some v -> lvgood n ns v.
  Proof.
    intros H. induction m as [|[j x] m IH]; cbn [nmap_get]; [discriminate|]. inversion H; subst.
    destruct (N.eqb k j); [intros E; inversion E; subst; assumption|apply IH; assumption].
  Qed.
  Lemma lancestor_lookup_good t n ns m v : mapgood n ns m -> forall fuel parent, lancestor_lookup t fuel m parent = Some v -> lvgood n ns v.
  Proof.
    intros H. induction fuel as [|fuel IH]; intros parent; cbn [lancestor_lookup]; [discriminate|].
    destruct parent as [p|]; [|discriminate]. destruct (nmap_get m p) as [v0|] eqn:E.
    - intros E'. inversion E'; subst. eapply nmap_get_good; eauto.
    - apply IH.
  Qed.
  Lemma cells_get_good n ns (sc : list (ident * scoped_values)) name c :
    Forall (fun c => svgood n ns (snd c)) sc -> alist_get name sc = Some c -> svgood n ns c.
  Proof. intros H E. apply alist_get_In in E. rewrite Forall_forall in H. apply (H _ E). Qed.
  Lemma cells_set_good n ns (sc : list (ident * scoped_values)) name c :
    Forall (fun c => svgood n ns (snd c)) sc -> svgood n ns c -> Forall (fun c => svgood n ns (snd c)) (alist_set name c sc).
  Proof.
    intros H Hc. induction sc as [|[k0 x0] sc IH]; cbn [alist_set].
    - constructor; [exact Hc|constructor].
    - inversion H; subst. destruct (str_eqb name k0); constructor; cbn [snd]; auto.
  Qed.
  Lemma Forall_list_update {A} (P : A -> Prop) (f : A -> A) : (forall x, P x -> P (f x)) -> forall k l, Forall P l -> Forall P (list_update k f l).
  Proof.
    intros Hf. induction k as [|k IH]; intros [|x l] H; cbn [list_update]; try constructor; inversion H; subst; auto.
  Qed.
  (* the keys of the collected definitions and of their debug records coincide *)
  Lemma dbg_get_some (values : list (N * lvalue)) : forall (dbgs : list (N * stmt_ctx)) n v,
    map fst values = map fst dbgs -> nmap_get values n = Some v -> dbg_get dbgs n <> None.
  Proof.
    induction values as [|[k x] values IH]; intros [|[k' d] dbgs] n v Hk; cbn [nmap_get dbg_get]; try discriminate.
    cbn [map fst] in Hk. inversion Hk; subst. destruct (N.eqb n k'); [discriminate|]. apply IH. assumption.
  Qed.
End LGood.

(* ------------------------------------------------------------------ the safety predicate *)
Definition lglen (s : lstate) : nat := length (l_graph s).
Definition slen (s : lstate) : nat := length (l_store s).
Definition lshape (s : lstate) : nat * nat := (length (l_locals s), length (l_params s)).

Section LSafe.
  Variable sok : N -> Prop.
  Variable base : nat.
  Variable allowed : N -> Prop.                (* panic sites that the hypotheses do not exclude *)

  Definition LInv (s : lstate) : Prop := (base <= lglen s)%nat /\ stgood sok (lglen s) (slen s) s.

  Definition lsafe {A} (n0 m0 : nat) (sh sh' : nat * nat) (Q : A -> nat -> nat -> Prop) (c : M lstate A) : Prop :=
    forall s p, LInv s -> (n0 <= lglen s)%nat -> (m0 <= slen s)%nat -> lshape s = sh ->
      match c s p with
      | Ok (a, s', p') => LInv s' /\ (lglen s <= lglen s')%nat /\ (slen s <= slen s')%nat /\ lshape s' = sh' /\ Q a (lglen s') (slen s')
      | Panic x => allowed x
      | _ => True
      end.
  Definition T3 {A} : A -> nat -> nat -> Prop := fun _ _ _ => True.
  Definition VG3 : value -> nat -> nat -> Prop := fun v n _ => vgood sok n v.
  Definition LG3 : lvalue -> nat -> nat -> Prop := fun lv n m => lvgood sok n m lv.

  Lemma lsafe_ret A n0 m0 sh (Q : A -> nat -> nat -> Prop) a :
    (forall n m, (n0 <= n)%nat -> (m0 <= m)%nat -> Q a n m) -> lsafe n0 m0 sh sh Q (ret a).
  Proof. intros H s p HI Hn Hm Hs. cbn. split; [exact HI|]. repeat split; auto. Qed.
  Lemma lsafe_bind A B n0 m0 sh sh1 sh2 (Q : A -> nat -> nat -> Prop) (R : B -> nat -> nat -> Prop) (c : M lstate A) (f : A -> M lstate B) :
    lsafe n0 m0 sh sh1 Q c ->
    (forall a n1 m1, (n0 <= n1)%nat -> (m0 <= m1)%nat -> Q a n1 m1 -> lsafe n1 m1 sh1 sh2 R (f a)) ->
    lsafe n0 m0 sh sh2 R (bind c f).
  Proof.
    intros Hc Hf s p HI Hn Hm Hs. specialize (Hc s p HI Hn Hm Hs). unfold bind. destruct (c s p) as [[[a s1] p1]|e|x|]; auto.
    destruct Hc as (HI1 & Hg1 & Hst1 & Hs1 & HQ).
    assert (Hn1 : (n0 <= lglen s1)%nat) by lia. assert (Hm1 : (m0 <= slen s1)%nat) by lia.
    specialize (Hf a (lglen s1) (slen s1) Hn1 Hm1 HQ s1 p1 HI1 (le_n _) (le_n _) Hs1).
    destruct (f a s1 p1) as [[[b s2] p2]|e|x|]; auto. destruct Hf as (HI2 & Hg2 & Hst2 & Hs2 & HR).
    split; [exact HI2|]. split; [lia|]. split; [lia|]. split; [exact Hs2|exact HR].
  Qed.
  Lemma lsafe_conseq A n0 m0 sh sh' (Q Q' : A -> nat -> nat -> Prop) c :
    (forall a n m, (n0 <= n)%nat -> (m0 <= m)%nat -> Q a n m -> Q' a n m) -> lsafe n0 m0 sh sh' Q c -> lsafe n0 m0 sh sh' Q' c.
  Proof.
    intros HQ H s p HI Hn Hm Hs. specialize (H s p HI Hn Hm Hs). destruct (c s p) as [[[a s1] p1]|e|x|]; auto.
    destruct H as (H1 & H2 & H3 & H4 & H5). split; [exact H1|]. split; [exact H2|]. split; [exact H3|]. split; [exact H4|].
    apply HQ; [lia|lia|exact H5].
  Qed.
  Lemma lsafe_weaken A n0 m0 n1 m1 sh sh' (Q : A -> nat -> nat -> Prop) c :
    (n0 <= n1)%nat -> (m0 <= m1)%nat -> lsafe n0 m0 sh sh' Q c -> lsafe n1 m1 sh sh' Q c.
  Proof. intros H1 H2 H s p HI Hn Hm Hs. apply H; auto; lia. Qed.
  Lemma lsafe_fail A n0 m0 sh sh' (Q : A -> nat -> nat -> Prop) e : lsafe n0 m0 sh sh' Q (fail e).
  Proof. intros s p HI Hn Hm Hs. exact I. Qed.
  Lemma lsafe_fail_in A n0 m0 sh sh' (Q : A -> nat -> nat -> Prop) c e : lsafe n0 m0 sh sh' Q (fail_in c e).
  Proof. intros s p HI Hn Hm Hs. exact I. Qed.
  Lemma lsafe_oof A n0 m0 sh sh' (Q : A -> nat -> nat -> Prop) : lsafe n0 m0 sh sh' Q out_of_fuel.
  Proof. intros s p HI Hn Hm Hs. exact I. Qed.
  Lemma lsafe_lift A n0 m0 sh (Q : A -> nat -> nat -> Prop) (r : res A) :
    match r with Ok a => forall n m, (n0 <= n)%nat -> (m0 <= m)%nat -> Q a n m | Panic x => allowed x | _ => True end ->
    lsafe n0 m0 sh sh Q (lift r).
  Proof.
    intros H s p HI Hn Hm Hs. unfold lift. destruct r as [a|e|x|]; [|exact I|exact H|exact I].
    split; [exact HI|]. split; [lia|]. split; [lia|]. split; [exact Hs|]. apply H; assumption.
  Qed.
  Lemma lsafe_poll n0 m0 sh l : lsafe n0 m0 sh sh T3 (lpoll l).
  Proof.
    intros s p HI Hn Hm Hs. unfold lpoll, poll. destruct (poll_step l p) as [q c]. destruct c; [exact I|].
    split; [exact HI|]. repeat split; auto.
  Qed.
  Lemma lsafe_poll_n n0 m0 sh k l : lsafe n0 m0 sh sh T3 (lpoll_n k l).
  Proof.
    revert n0 m0. induction k as [|k IH]; intros n0 m0; cbn [lpoll_n]; [apply lsafe_ret; intros; exact I|].
    eapply lsafe_bind; [apply lsafe_poll|]. intros _ n1 m1 _ _ _. apply IH.
  Qed.
  Lemma lsafe_ctx A n0 m0 sh sh' (Q : A -> nat -> nat -> Prop) c m : lsafe n0 m0 sh sh' Q m -> lsafe n0 m0 sh sh' Q (ctx_wrap c m).
  Proof. intros H s p HI Hn Hm Hs. specialize (H s p HI Hn Hm Hs). unfold ctx_wrap. destruct (m s p) as [[[a s1] p1]|e|x|]; auto. Qed.
  Lemma lsafe_get_state A n0 m0 sh sh' (Q : A -> nat -> nat -> Prop) (f : lstate -> M lstate A) :
    (forall s0, LInv s0 -> (n0 <= lglen s0)%nat -> (m0 <= slen s0)%nat -> lshape s0 = sh -> lsafe (lglen s0) (slen s0) sh sh' Q (f s0)) ->
    lsafe n0 m0 sh sh' Q (s <- get_state ;; f s).
  Proof. intros H s p HI Hn Hm Hs. unfold bind, get_state. apply (H s HI Hn Hm Hs s p HI (le_n _) (le_n _) Hs). Qed.

  Lemma lsafe_mapM_in A B n0 m0 sh (Q : B -> nat -> nat -> Prop) (f : A -> M lstate B) l :
    (forall b n m n' m', (n <= n')%nat -> (m <= m')%nat -> Q b n m -> Q b n' m') ->
    (forall x, In x l -> forall n1 m1, (n0 <= n1)%nat -> (m0 <= m1)%nat -> lsafe n1 m1 sh sh Q (f x)) ->
    lsafe n0 m0 sh sh (fun ys n m => Forall (fun y => Q y n m) ys) (mapM f l).
  Proof.
    intros Hmono. revert n0 m0. induction l as [|x l IH]; intros n0 m0 H; cbn [mapM].
    - apply lsafe_ret. intros n m _ _. constructor.
    - eapply lsafe_bind; [apply H; [left; reflexivity|apply le_n|apply le_n]|]. intros y n1 m1 Hn1 Hm1 Hy.
      eapply lsafe_bind.
      + apply IH. intros z Hz n2 m2 Hn2 Hm2. apply H; [right; exact Hz|lia|lia].
      + intros ys n2 m2 Hn2 Hm2 Hys. apply lsafe_ret. intros n3 m3 Hn3 Hm3. constructor.
        * eapply Hmono; [| |exact Hy]; lia.
        * rewrite Forall_forall in *. intros z Hz. eapply Hmono; [| |apply Hys, Hz]; lia.
  Qed.
  Lemma lsafe_iterM_in A n0 m0 sh (f : A -> M lstate unit) l :
    (forall x, In x l -> forall n1 m1, (n0 <= n1)%nat -> (m0 <= m1)%nat -> lsafe n1 m1 sh sh T3 (f x)) ->
    lsafe n0 m0 sh sh T3 (iterM f l).
  Proof.
    revert n0 m0. induction l as [|x l IH]; intros n0 m0 H; cbn [iterM].
    - apply lsafe_ret. intros; exact I.
    - eapply lsafe_bind; [apply H; [left; reflexivity|apply le_n|apply le_n]|]. intros y n1 m1 Hn1 Hm1 _.
      apply IH. intros z Hz n2 m2 Hn2 Hm2. apply H; [right; exact Hz|lia|lia].
  Qed.
  Lemma lsafe_iterM_push A n0 m0 d (f : A -> M lstate unit) l :
    (forall x, In x l -> forall n1 m1 k1, (n0 <= n1)%nat -> (m0 <= m1)%nat -> lsafe n1 m1 (d, k1) (d, S k1) T3 (f x)) ->
    forall k, lsafe n0 m0 (d, k) (d, (length l + k)%nat) T3 (iterM f l).
  Proof.
    revert n0 m0. induction l as [|x l IH]; intros n0 m0 H k; cbn [iterM length].
    - apply lsafe_ret. intros; exact I.
    - eapply lsafe_bind; [apply H; [left; reflexivity|apply le_n|apply le_n]|]. intros y n1 m1 Hn1 Hm1 _.
      replace (S (length l) + k)%nat with (length l + S k)%nat by lia.
      apply IH. intros z Hz n2 m2 k2 Hn2 Hm2. apply H; [right; exact Hz|lia|lia].
  Qed.

  (* ---- primitives ---- *)
  Ltac lst := unfold LInv, stgood, lglen, slen, lshape in *;
              cbn [l_graph l_locals l_store l_scoped l_edges l_attrs l_prints l_params l_prev] in *.
  Ltac start := intros s p (Hb & H1 & H2 & H3 & H4 & H5 & H6 & H7) Hn Hm Hs.

  Lemma lsafe_set_llocals n0 m0 d k l : llgood sok n0 m0 l -> lsafe n0 m0 (d, k) (length l, k) T3 (set_llocals l).
  Proof.
    intros Hl. start. unfold set_llocals, Lazy.upd, modify. lst. injection Hs as _ Hk.
    repeat split; auto. all: try congruence. eapply llgood_mono; [| |exact Hl]; assumption.
  Qed.
  Lemma lsafe_push_frame n0 m0 d k : lsafe n0 m0 (d, k) (S d, k) T3 lpush_frame.
  Proof.
    start. unfold lpush_frame, bind, get_state, set_llocals, Lazy.upd, modify. lst. injection Hs as Hd Hk.
    repeat split; auto. all: try (cbn [length]; congruence). constructor; [constructor|exact H1].
  Qed.
  Lemma lsafe_pop_frame n0 m0 d k : lsafe n0 m0 (S d, k) (d, k) T3 lpop_frame.
  Proof.
    start. unfold lpop_frame, bind, get_state. lst. injection Hs as Hd Hk.
    destruct (l_locals s) as [|f up]; [discriminate|]. unfold set_llocals, Lazy.upd, modify. lst. inversion H1; subst.
    repeat split; auto. all: try (cbn [length] in Hd; congruence).
  Qed.
  Lemma lsafe_clear_frame n0 m0 sh : lsafe n0 m0 sh sh T3 lclear_frame.
  Proof.
    start. unfold lclear_frame, bind, get_state, set_llocals, Lazy.upd, modify. lst.
    destruct (lvarmap_clear_good sok _ _ _ H1) as [G L]. repeat split; auto. rewrite L. exact Hs.
  Qed.
  Lemma lsafe_push_param n0 m0 d k v : vgood sok n0 v -> lsafe n0 m0 (d, k) (d, S k) T3 (lpush_param v).
  Proof.
    intros Hv. start. unfold lpush_param, bind, get_state, set_lparams, Lazy.upd, modify. lst. injection Hs as Hd Hk.
    repeat split; auto.
    - apply Forall_app. split; [exact H7|]. constructor; [|constructor]. eapply vgood_mono; eauto.
    - rewrite app_length. cbn [length]. f_equal; lia.
  Qed.
  Lemma lsafe_drain_params n0 m0 d k n : lsafe n0 m0 (d, (n + k)%nat) (d, k) (fun vs g _ => Forall (vgood sok g) vs) (ldrain_params n).
  Proof.
    start. unfold ldrain_params, bind, get_state. lst. injection Hs as Hd Hk.
    destruct (Nat.ltb_spec (length (l_params s)) n) as [Hlt|Hge]; [lia|]. unfold set_lparams, Lazy.upd, modify, ret. lst.
    rewrite <- (firstn_skipn (length (l_params s) - n) (l_params s)) in H7. apply Forall_app in H7 as [Hf Hsk].
    repeat split; auto. rewrite firstn_length. f_equal; lia.
  Qed.

  Lemma LInv_set_graph s g' : LInv s -> (lglen s <= length g')%nat ->
    LInv {| l_graph := g'; l_locals := l_locals s; l_store := l_store s; l_scoped := l_scoped s; l_edges := l_edges s;
            l_attrs := l_attrs s; l_prints := l_prints s; l_params := l_params s; l_prev := l_prev s |}.
  Proof.
    intros [Hb Hst] Hg. split; [unfold lglen in *; cbn [l_graph]; lia|].
    apply (stgood_mono sok (lglen s) (slen s) (length g') (slen s) Hg (le_n _)) in Hst. exact Hst.
  Qed.
  Ltac graph_done s HI Hlen :=
    split; [apply LInv_set_graph; [exact HI|lia]|]; unfold lglen, slen, lshape in *; cbn [l_graph l_store l_locals l_params];
    rewrite ?Hlen; repeat split; auto; try lia.

  Lemma lsafe_add_node n0 m0 sh : lsafe n0 m0 sh sh (fun n k _ => (N.to_nat n < k)%nat) ladd_node.
  Proof.
    intros s p HI Hn Hm Hs. unfold ladd_node, bind, get_state, add_graph_node, set_lgraph, Lazy.upd, modify, ret.
    assert (Hlen : length (l_graph s ++ [new_gnode]) = S (lglen s)) by (rewrite app_length; cbn [length]; unfold lglen; lia).
    graph_done s HI Hlen.
  Qed.
  Lemma lsafe_add_node_attr n0 m0 sh n k v : (N.to_nat n < n0)%nat -> lsafe n0 m0 sh sh T3 (ladd_node_attr n k v).
  Proof.
    intros Hlt s p HI Hn Hm Hs. unfold ladd_node_attr, bind, get_state.
    destruct (gnode_at (l_graph s) n) as [nd|] eqn:E; [|exfalso; revert E; apply gnode_at_some; unfold lglen in Hn; lia].
    destruct (attrs_add (g_attrs nd) k v) as [m' c]. destruct c; [exact I|]. unfold set_lgraph, Lazy.upd, modify.
    assert (Hlen : length (graph_update (l_graph s) n (with_attrs m')) = lglen s) by (unfold graph_update; rewrite list_update_length; reflexivity).
    graph_done s HI Hlen.
  Qed.
  Lemma lsafe_opt_node_attr n0 m0 sh n o v : (N.to_nat n < n0)%nat -> lsafe n0 m0 sh sh T3 (lopt_node_attr n o v).
  Proof. intros Hlt. destruct o; cbn [lopt_node_attr]; [apply lsafe_add_node_attr, Hlt|apply lsafe_ret; intros; exact I]. Qed.
  Lemma lsafe_attr_node_add n0 m0 sh n k v prev dbg : (N.to_nat n < n0)%nat -> lsafe n0 m0 sh sh T3 (lattr_node_add n k v prev dbg).
  Proof.
    intros Hlt s p HI Hn Hm Hs. unfold lattr_node_add, bind, get_state.
    destruct (gnode_at (l_graph s) n) as [nd|] eqn:E; [|exfalso; revert E; apply gnode_at_some; unfold lglen in Hn; lia].
    destruct (attrs_add (g_attrs nd) k v) as [m' c]. destruct c; [exact I|]. unfold set_lgraph, Lazy.upd, modify.
    assert (Hlen : length (graph_update (l_graph s) n (with_attrs m')) = lglen s) by (unfold graph_update; rewrite list_update_length; reflexivity).
    graph_done s HI Hlen.
  Qed.
  Lemma lsafe_edge_add n0 m0 sh a b ea : (N.to_nat a < n0)%nat -> lsafe n0 m0 sh sh T3 (ledge_add a b ea).
  Proof.
    intros Hlt s p HI Hn Hm Hs. unfold ledge_add, bind, get_state, graph_add_edge.
    destruct (gnode_at (l_graph s) a) as [nd|] eqn:E; [|exfalso; revert E; apply gnode_at_some; unfold lglen in Hn; lia].
    destruct (edges_add b (g_edges nd)) as [isnew es].
    assert (Hlen : length (graph_update (l_graph s) a (with_edges es)) = lglen s) by (unfold graph_update; rewrite list_update_length; reflexivity).
    destruct isnew; unfold set_lgraph, Lazy.upd, modify.
    - assert (Hlen2 : length (graph_update (graph_update (l_graph s) a (with_edges es)) a
                                 (fun nd0 => with_edges (edges_set b ea (g_edges nd0)) nd0)) = lglen s)
        by (unfold graph_update; rewrite !list_update_length; reflexivity).
      graph_done s HI Hlen2.
    - graph_done s HI Hlen.
  Qed.
  Lemma lsafe_attr_edge_add n0 m0 sh a b k v prev dbg : (N.to_nat a < n0)%nat -> lsafe n0 m0 sh sh T3 (lattr_edge_add a b k v prev dbg).
  Proof.
    intros Hlt s p HI Hn Hm Hs. unfold lattr_edge_add, bind, get_state.
    destruct (gnode_at (l_graph s) a) as [nd|] eqn:E; [|exfalso; revert E; apply gnode_at_some; unfold lglen in Hn; lia].
    destruct (edges_get b (g_edges nd)) as [m|]; [|exact I].
    destruct (attrs_add m k v) as [m' c]. destruct c; [exact I|]. unfold set_lgraph, Lazy.upd, modify.
    assert (Hlen : length (graph_update (l_graph s) a (with_edges (edges_set b m' (g_edges nd)))) = lglen s) by (unfold graph_update; rewrite list_update_length; reflexivity).
    graph_done s HI Hlen.
  Qed.
  Lemma lsafe_edge_exists n0 m0 sh a b : (N.to_nat a < n0)%nat -> lsafe n0 m0 sh sh T3 (ledge_exists a b).
  Proof.
    intros Hlt s p HI Hn Hm Hs. unfold ledge_exists, bind, get_state.
    destruct (gnode_at (l_graph s) a) as [nd|] eqn:E; [|exfalso; revert E; apply gnode_at_some; unfold lglen in Hn; lia].
    cbn. split; [exact HI|]. repeat split; auto.
  Qed.

  (* ---- the store ---- *)
  Lemma lsafe_store_add n0 m0 sh lv dbg : lvgood sok n0 m0 lv -> lsafe n0 m0 sh sh LG3 (store_add lv dbg).
  Proof.
    intros Hlv s p [Hb Hst] Hn Hm Hs. unfold store_add, bind, get_state, set_lstore, Lazy.upd, modify, ret.
    pose proof (stgood_mono sok _ _ (lglen s) (S (slen s)) (le_n _) (le_S _ _ (le_n _)) s Hst) as (G1 & G2 & G3 & G4 & G5 & G6 & G7).
    assert (Hlen : length (l_store s ++ [{| th_state := TUnforced lv; th_dbg := dbg |}]) = S (slen s))
      by (rewrite app_length; cbn [length]; unfold slen; lia).
    unfold LInv, stgood, lglen, slen, lshape in *. cbn [l_graph l_locals l_store l_scoped l_edges l_attrs l_prints l_params l_prev].
    rewrite Hlen. repeat split; auto.
    - apply Forall_app. split; [exact G2|]. constructor; [|constructor]. unfold thgood. cbn [th_state].
      eapply lvgood_mono; [| |exact Hlv]; lia.
    - unfold LG3. cbn [lvgood]. rewrite Nat2N.id. lia.
  Qed.
  Definition state_good (n : nat) (st : thunk_state) : Prop :=
    match st with TUnforced _ => False | TForcing => True | TForced v => vgood sok n v end.
  Lemma lsafe_store_set_state n0 m0 sh loc st : state_good n0 st -> lsafe n0 m0 sh sh T3 (store_set_state loc st).
  Proof.
    intros Hg. start. unfold store_set_state, bind, get_state, set_lstore, Lazy.upd, modify. lst. rewrite list_update_length.
    repeat split; auto. apply Forall_list_update; [|exact H2]. intros th _. unfold thgood. cbn [th_state].
    destruct st; [contradiction|exact I|]. cbn [state_good] in Hg. eapply vgood_mono; eauto.
  Qed.

  Definition cell_opt_good (o : option scoped_values) (n m : nat) : Prop :=
    match o with Some c => svgood sok n m c | None => True end.
  Lemma lsafe_cell_get n0 m0 sh name : lsafe n0 m0 sh sh cell_opt_good (cell_get name).
  Proof.
    start. unfold cell_get, bind, get_state, ret. lst. repeat split; auto. unfold cell_opt_good.
    destruct (alist_get name (l_scoped s)) as [c|] eqn:E; [|exact I]. eapply cells_get_good; eauto.
  Qed.
  Lemma lsafe_cell_set n0 m0 sh name c : svgood sok n0 m0 c -> lsafe n0 m0 sh sh T3 (cell_set name c).
  Proof.
    intros Hc. start. unfold cell_set, bind, get_state, set_lscoped, Lazy.upd, modify. lst. repeat split; auto.
    apply cells_set_good; [exact H3|]. eapply svgood_mono; [| |exact Hc]; assumption.
  Qed.
  Lemma lsafe_scoped_store_add n0 m0 sh scope name v dbg : lvgood sok n0 m0 scope -> lvgood sok n0 m0 v ->
    lsafe n0 m0 sh sh T3 (scoped_store_add scope name v dbg).
  Proof.
    intros Hsc Hv. unfold scoped_store_add. eapply lsafe_bind; [apply lsafe_cell_get|]. intros c n1 m1 Hn1 Hm1 Hc.
    assert (Hp : pairgood sok n1 m1 (scope, v, dbg)) by (split; cbn [fst snd]; eapply lvgood_mono; eauto).
    destruct c as [[pairs| |map]|]; try apply lsafe_fail; apply lsafe_cell_set; cbn [svgood].
    - apply Forall_app. split; [exact Hc|]. constructor; [exact Hp|constructor].
    - constructor; [exact Hp|constructor].
  Qed.

  Lemma lsafe_push_lstmt n0 m0 sh st : lsgood sok n0 m0 st -> lsafe n0 m0 sh sh T3 (push_lstmt st).
  Proof.
    intros Hg. start. assert (Hg' : lsgood sok (lglen s) (slen s) st) by (eapply lsgood_mono; [| |exact Hg]; assumption).
    unfold push_lstmt, Lazy.upd, modify. destruct st; lst; repeat split; auto; apply Forall_app; (split; [assumption|constructor; [exact Hg'|constructor]]).
  Qed.
  Lemma lsafe_prev_insert n0 m0 sh k dbg : lsafe n0 m0 sh sh T3 (prev_insert k dbg).
  Proof. start. unfold prev_insert, bind, get_state, set_lprev, Lazy.upd, modify, ret. lst. repeat split; auto. Qed.
  Lemma lsafe_full_match_node n0 m0 sh le : nodes_for_capture (ll_match le) (ll_full le) <> [] -> lsafe n0 m0 sh sh T3 (lfull_match_node le).
  Proof.
    intros H. unfold lfull_match_node. destruct (nodes_for_capture (ll_match le) (ll_full le)); [contradiction|].
    apply lsafe_ret. intros; exact I.
  Qed.

  Section LInterp.
    Context {rx : Type}.
    Variables (t : tree) (fl : file) (cfg : config) (glob : globals) (regexes : list rx)
              (find : rx -> str -> option (list (option (N * N))))
              (call : ident -> graph -> list value -> res (value * graph)).
    Hypothesis Hglob : ggood sok base glob.
    Hypothesis Hcall : GoodCall sok call.
    Hypothesis Hsh : forall sh, In sh (f_shorthands fl) -> forallb (attr_ok no_capture) (sh_attrs sh) = true.
    Variable okc : qmatch -> quant -> N -> bool.
    Hypothesis Hokc : forall m, Forall (fun c : N * list N => Forall sok (snd c)) m -> forall q idx, okc m q idx = true ->
      match from_nodes (nodes_for_capture m idx) q with
      | Ok v => forall n, vgood sok n v
      | Panic x => allowed x
      | _ => True
      end.

    Lemma VG3_mono b n m n' m' : (n <= n')%nat -> (m <= m')%nat -> VG3 b n m -> VG3 b n' m'.
    Proof. unfold VG3. intros Hn _. apply vgood_mono, Hn. Qed.
    Lemma LG3_mono b n m n' m' : (n <= n')%nat -> (m <= m')%nat -> LG3 b n m -> LG3 b n' m'.
    Proof. unfold LG3. apply lvgood_mono. Qed.

    Lemma lsafe_call_function n0 m0 sh f args : Forall (vgood sok n0) args -> lsafe n0 m0 sh sh VG3 (lcall_function call f args).
    Proof.
      intros Ha s p HI Hn Hm Hs. unfold lcall_function, bind, get_state.
      assert (Ha' : Forall (vgood sok (length (l_graph s))) args) by (eapply vsgood_mono; [|exact Ha]; exact Hn).
      pose proof (Hcall f (l_graph s) args Ha') as Hc. destruct (call f (l_graph s) args) as [[v g']|e|x|]; [|exact I|contradiction|exact I].
      destruct Hc as [Hg Hv]. unfold set_lgraph, Lazy.upd, modify, ret. split; [apply LInv_set_graph; [exact HI|exact Hg]|].
      unfold lglen, slen, lshape, VG3 in *. cbn [l_graph l_store l_locals l_params]. repeat split; auto.
    Qed.
    Lemma lsafe_unscoped_get n0 m0 sh name : lsafe n0 m0 sh sh LG3 (lunscoped_get glob name).
    Proof.
      unfold lunscoped_get. destruct (globals_get glob name) as [v|] eqn:E.
      - intros s p HI Hn Hm Hs. cbn. split; [exact HI|]. split; [lia|]. split; [lia|]. split; [exact Hs|]. unfold LG3. cbn [lvgood].
        destruct HI as (Hb & _). eapply vgood_mono; [exact Hb|]. eapply globals_get_good; eauto.
      - intros s p (Hb & H1 & Hrest) Hn Hm Hs. unfold bind, get_state.
        destruct (varmap_get (l_locals s) name) as [v|] eqn:Ev; [|exact I]. cbn. split; [split; [exact Hb|split; [exact H1|exact Hrest]]|].
        split; [lia|]. split; [lia|]. split; [exact Hs|]. unfold LG3. eapply lvarmap_get_good; eauto.
    Qed.
    Lemma lsafe_locals_add n0 m0 sh name var b : lvgood sok n0 m0 var ->
      lsafe n0 m0 sh sh T3 (s <- get_state ;;
                            match varmap_add (l_locals s) name var b with
                            | inl l' => set_llocals l'
                            | inr _ => fail EDuplicateVariable
                            end).
    Proof.
      intros Hv s p (Hb & H1 & H2 & H3 & H4 & H5 & H6 & H7) Hn Hm Hs. unfold bind, get_state.
      destruct (varmap_add (l_locals s) name var b) as [l'|e] eqn:E; [|exact I]. unfold set_llocals, Lazy.upd, modify.
      destruct (lvarmap_add_good sok (lglen s) (slen s) (l_locals s) name var b l' H1) as [G L]; [eapply lvgood_mono; [| |exact Hv]; assumption|exact E|].
      unfold LInv, stgood, lglen, slen, lshape in *. cbn [l_graph l_locals l_store l_scoped l_edges l_attrs l_prints l_params l_prev].
      repeat split; auto. rewrite L. exact Hs.
    Qed.
    Lemma lsafe_unscoped_add n0 m0 sh le name v b : lvgood sok n0 m0 v -> lsafe n0 m0 sh sh T3 (lunscoped_add glob le name v b).
    Proof.
      intros Hv. unfold lunscoped_add. destruct (globals_get glob name); [apply lsafe_fail|].
      eapply lsafe_bind; [apply lsafe_store_add; exact Hv|]. intros var n1 m1 Hn1 Hm1 Hvar. apply lsafe_locals_add. exact Hvar.
    Qed.
    Lemma lsafe_unscoped_set n0 m0 sh le name v : lvgood sok n0 m0 v -> lsafe n0 m0 sh sh T3 (lunscoped_set glob le name v).
    Proof.
      intros Hv. unfold lunscoped_set. destruct (globals_get glob name); [apply lsafe_fail|].
      eapply lsafe_bind; [apply lsafe_store_add; exact Hv|]. intros var n1 m1 Hn1 Hm1 Hvar. unfold LG3 in Hvar.
      intros s p (Hb & H1 & H2 & H3 & H4 & H5 & H6 & H7) Hn Hm Hs. unfold bind, get_state.
      destruct (varmap_set (l_locals s) name var) as [l'|e] eqn:E.
      - unfold set_llocals, Lazy.upd, modify.
        destruct (lvarmap_set_good sok (lglen s) (slen s) name var (l_locals s) l' H1) as [G L]; [eapply lvgood_mono; [| |exact Hvar]; assumption|exact E|].
        unfold LInv, stgood, lglen, slen, lshape in *. cbn [l_graph l_locals l_store l_scoped l_edges l_attrs l_prints l_params l_prev].
        repeat split; auto. rewrite L. exact Hs.
      - destruct (varmap_get (l_locals s) name); exact I.
    Qed.

    (* ---- evaluation ---- *)
    Lemma lsafe_force_pairs sh (ev : lvalue -> M lstate N) :
      (forall sc n1 m1, lvgood sok n1 m1 sc -> lsafe n1 m1 sh sh T3 (ev sc)) ->
      forall ps values dbgs n0 m0, Forall (pairgood sok n0 m0) ps -> mapgood sok n0 m0 values -> map fst values = map fst dbgs ->
        lsafe n0 m0 sh sh (fun mp n m => mapgood sok n m mp) (force_pairs ev ps values dbgs).
    Proof.
      intros Hev. induction ps as [|[[scope v] dbg] ps IHp]; intros values dbgs n0 m0 Hps Hvals Hk; cbn [force_pairs].
      - apply lsafe_ret. intros n m Hn Hm. eapply mapgood_mono; [| |exact Hvals]; assumption.
      - inversion Hps as [|? ? [Hp1 Hp2] Hps']; subst. cbn [fst snd] in Hp1, Hp2.
        eapply lsafe_bind; [apply lsafe_ctx, lsafe_ctx, Hev; exact Hp1|]. intros n n1 m1 Hn1 Hm1 _.
        destruct (nmap_get values n) as [old|] eqn:Eg.
        + destruct (dbg_get dbgs n) eqn:Ed; [apply lsafe_fail_in|]. exfalso. revert Ed. eapply dbg_get_some; eauto.
        + apply IHp.
          * revert Hps'. apply Forall_impl. intros x. apply pairgood_mono; assumption.
          * apply Forall_app. split; [eapply mapgood_mono; [| |exact Hvals]; assumption|]. constructor; [|constructor].
            cbn [snd]. eapply lvgood_mono; [| |exact Hp2]; assumption.
          * rewrite !map_app. cbn [map fst]. rewrite Hk. reflexivity.
    Qed.

    Notation eval_lv' := (eval_lv t fl call).
    Notation force_thunk' := (force_thunk t fl call).
    Notation force_scoped' := (force_scoped t fl call).

    Lemma lsafe_as_syn n0 m0 sh v : lsafe n0 m0 sh sh T3 (lift (as_syn v)).
    Proof. apply lsafe_lift. destruct v; cbn [as_syn]; intros; exact I. Qed.

    Lemma lsafe_eval_all : forall fuel,
      (forall lv n0 m0 sh, lvgood sok n0 m0 lv -> lsafe n0 m0 sh sh VG3 (eval_lv' fuel lv)) /\
      (forall loc n0 m0 sh, (N.to_nat loc < m0)%nat -> lsafe n0 m0 sh sh VG3 (force_thunk' fuel loc)) /\
      (forall name cell n0 m0 sh, svgood sok n0 m0 cell -> lsafe n0 m0 sh sh (fun mp n m => mapgood sok n m mp) (force_scoped' fuel name cell)).
    Proof.
      induction fuel as [|fuel (IHe & IHt & IHs)]; [repeat split; intros; apply lsafe_oof|].
      assert (Hscope : forall scope n0 m0 sh, lvgood sok n0 m0 scope -> lsafe n0 m0 sh sh T3 (sv <- eval_lv' fuel scope ;; lift (as_syn sv))).
      { intros scope n0 m0 sh Hsc. eapply lsafe_bind; [apply IHe; exact Hsc|]. intros sv n1 m1 _ _ _. apply lsafe_as_syn. }
      repeat split.
      - intros lv n0 m0 sh Hlv. destruct lv as [v|es|es|loc|scope name|f args]; cbn [eval_lv];
          (eapply lsafe_bind; [apply lsafe_poll|intros _ n1 m1 Hn1 Hm1 _]).
        + apply lsafe_ret. intros n m Hn Hm. unfold VG3. cbn [lvgood] in Hlv. eapply vgood_mono; [|exact Hlv]. lia.
        + apply lvgood_list in Hlv. eapply lsafe_bind; [apply lsafe_mapM_in with (Q := VG3); [exact VG3_mono|]|].
          * intros x Hx n2 m2 Hn2 Hm2. apply IHe. rewrite Forall_forall in Hlv. eapply lvgood_mono; [| |apply Hlv, Hx]; lia.
          * intros vs n2 m2 Hn2 Hm2 Hvs. apply lsafe_ret. intros n3 m3 Hn3 Hm3. unfold VG3 in *. apply vgood_list.
            eapply vsgood_mono; [|exact Hvs]. exact Hn3.
        + apply lvgood_set in Hlv. eapply lsafe_bind; [apply lsafe_mapM_in with (Q := VG3); [exact VG3_mono|]|].
          * intros x Hx n2 m2 Hn2 Hm2. apply IHe. rewrite Forall_forall in Hlv. eapply lvgood_mono; [| |apply Hlv, Hx]; lia.
          * intros vs n2 m2 Hn2 Hm2 Hvs. apply lsafe_ret. intros n3 m3 Hn3 Hm3. unfold VG3 in *. apply vgood_set. apply set_of_list_good.
            eapply vsgood_mono; [|exact Hvs]. exact Hn3.
        + apply IHt. cbn [lvgood] in Hlv. lia.
        + cbn [lvgood] in Hlv. eapply lsafe_bind; [apply lsafe_ctx, Hscope; eapply lvgood_mono; [| |exact Hlv]; lia|].
          intros n n2 m2 Hn2 Hm2 _. eapply lsafe_bind; [apply lsafe_cell_get|]. intros c n3 m3 Hn3 Hm3 Hc.
          destruct c as [cell|]; [|apply lsafe_fail]. cbn [cell_opt_good] in Hc.
          eapply lsafe_bind; [apply lsafe_cell_set; exact I|]. intros _ n4 m4 Hn4 Hm4 _.
          eapply lsafe_bind; [apply IHs; eapply svgood_mono; [| |exact Hc]; lia|]. intros mp n5 m5 Hn5 Hm5 Hmp. cbv beta in Hmp. cbv zeta.
          eapply lsafe_bind; [apply lsafe_cell_set; exact Hmp|]. intros _ n6 m6 Hn6 Hm6 _.
          match goal with |- lsafe _ _ _ _ _ (match ?x with _ => _ end) => destruct x as [v|] eqn:Er end; [|apply lsafe_fail].
          apply IHe. assert (Hv : lvgood sok n5 m5 v).
          { destruct (nmap_get mp n) as [v0|] eqn:Eg.
            - inversion Er; subst. eapply nmap_get_good; eauto.
            - destruct (linherited fl name); [|discriminate]. eapply lancestor_lookup_good; eauto. }
          eapply lvgood_mono; [| |exact Hv]; lia.
        + apply lvgood_call in Hlv. destruct sh as [d k].
          eapply lsafe_bind; [apply lsafe_iterM_push|].
          * intros x Hx n2 m2 k2 Hn2 Hm2. eapply lsafe_bind; [apply IHe; rewrite Forall_forall in Hlv; eapply lvgood_mono; [| |apply Hlv, Hx]; lia|].
            intros v n3 m3 Hn3 Hm3 Hv. apply lsafe_push_param. exact Hv.
          * intros _ n2 m2 Hn2 Hm2 _. eapply lsafe_bind; [apply lsafe_drain_params|]. intros ps n3 m3 Hn3 Hm3 Hps.
            apply lsafe_call_function. exact Hps.
      - intros loc n0 m0 sh Hloc. cbn [force_thunk]. apply lsafe_get_state. intros s0 (Hb0 & H01 & H02 & Hrest0) Hn0 Hm0 Hs0.
        destruct (nth_error (l_store s0) (N.to_nat loc)) as [th|] eqn:Eth.
        2:{ exfalso. apply nth_error_None in Eth. unfold slen in Hm0. lia. }
        assert (Hth : thgood sok (lglen s0) (slen s0) th).
        { apply nth_error_In in Eth. rewrite Forall_forall in H02. apply H02, Eth. }
        apply lsafe_ctx. unfold thgood in Hth. destruct (th_state th) as [inner| |v].
        + eapply lsafe_bind; [apply lsafe_store_set_state; exact I|]. intros _ n1 m1 Hn1 Hm1 _.
          eapply lsafe_bind; [apply IHe; eapply lvgood_mono; [| |exact Hth]; assumption|]. intros v n2 m2 Hn2 Hm2 Hv.
          eapply lsafe_bind; [apply lsafe_store_set_state; exact Hv|]. intros _ n3 m3 Hn3 Hm3 _.
          apply lsafe_ret. intros n4 m4 Hn4 Hm4. eapply VG3_mono; [| |exact Hv]; lia.
        + apply lsafe_fail.
        + apply lsafe_ret. intros n1 m1 Hn1 Hm1. unfold VG3. eapply vgood_mono; [|exact Hth]. exact Hn1.
      - intros name cell n0 m0 sh Hc. cbn [force_scoped]. destruct cell as [pairs| |mp]; cbn [svgood] in Hc.
        + apply lsafe_force_pairs; [|exact Hc|constructor|reflexivity]. intros sc n1 m1 Hsc. apply Hscope. exact Hsc.
        + apply lsafe_fail.
        + apply lsafe_ret. intros n m Hn Hm. eapply mapgood_mono; [| |exact Hc]; assumption.
    Qed.
    Lemma lsafe_eval_lv fuel lv n0 m0 sh : lvgood sok n0 m0 lv -> lsafe n0 m0 sh sh VG3 (eval_lv' fuel lv).
    Proof. apply lsafe_eval_all. Qed.
    Lemma lsafe_force_thunk fuel loc n0 m0 sh : (N.to_nat loc < m0)%nat -> lsafe n0 m0 sh sh VG3 (force_thunk' fuel loc).
    Proof. apply lsafe_eval_all. Qed.
    Lemma lsafe_force_scoped fuel name cell n0 m0 sh : svgood sok n0 m0 cell ->
      lsafe n0 m0 sh sh (fun mp n m => mapgood sok n m mp) (force_scoped' fuel name cell).
    Proof. apply lsafe_eval_all. Qed.

    Lemma lsafe_eval_as_gnode fuel lv n0 m0 sh : lvgood sok n0 m0 lv ->
      lsafe n0 m0 sh sh (fun a n _ => (N.to_nat a < n)%nat) (eval_as_gnode t fl call fuel lv).
    Proof.
      intros Hlv. unfold eval_as_gnode. eapply lsafe_bind; [apply lsafe_eval_lv; exact Hlv|]. intros v n1 m1 Hn1 Hm1 Hv. apply lsafe_lift.
      destruct v; cbn [as_gnode]; try exact I. intros n2 m2 Hn2 Hm2. unfold VG3 in Hv. cbn [vgood] in Hv. lia.
    Qed.

    Lemma lsafe_eval_lstmt fuel st n0 m0 sh : lsgood sok n0 m0 st -> lsafe n0 m0 sh sh T3 (eval_lstmt t fl call fuel st).
    Proof.
      intros Hst. unfold eval_lstmt. eapply lsafe_bind; [apply lsafe_poll|]. intros _ n1 m1 Hn1 Hm1 _.
      destruct st as [node attrs dbg|src snk ea dbg|src snk attrs dbg|args dbg]; cbn [lsgood] in Hst; apply lsafe_ctx.
      - destruct Hst as [Hnode Hattrs].
        eapply lsafe_bind; [apply lsafe_ctx, lsafe_eval_as_gnode; eapply lvgood_mono; [| |exact Hnode]; lia|]. intros n n2 m2 Hn2 Hm2 Hlt. cbv beta in Hlt.
        apply lsafe_iterM_in. intros a Hin n3 m3 Hn3 Hm3.
        eapply lsafe_bind; [apply lsafe_eval_lv; unfold attrsgood in Hattrs; rewrite Forall_forall in Hattrs; eapply lvgood_mono; [| |apply Hattrs, Hin]; lia|].
        intros v n4 m4 Hn4 Hm4 _. eapply lsafe_bind; [apply lsafe_prev_insert|]. intros prev n5 m5 Hn5 Hm5 _.
        apply lsafe_attr_node_add. lia.
      - destruct Hst as [Ha Hb].
        eapply lsafe_bind; [apply lsafe_ctx, lsafe_eval_as_gnode; eapply lvgood_mono; [| |exact Ha]; lia|]. intros a n2 m2 Hn2 Hm2 Hlt. cbv beta in Hlt.
        eapply lsafe_bind; [apply lsafe_ctx, lsafe_eval_as_gnode; eapply lvgood_mono; [| |exact Hb]; lia|]. intros b n3 m3 Hn3 Hm3 _.
        apply lsafe_edge_add. lia.
      - destruct Hst as (Ha & Hb & Hattrs).
        eapply lsafe_bind; [apply lsafe_ctx, lsafe_eval_as_gnode; eapply lvgood_mono; [| |exact Ha]; lia|]. intros a n2 m2 Hn2 Hm2 Hlt. cbv beta in Hlt.
        eapply lsafe_bind; [apply lsafe_ctx, lsafe_eval_as_gnode; eapply lvgood_mono; [| |exact Hb]; lia|]. intros b n3 m3 Hn3 Hm3 _.
        apply lsafe_iterM_in. intros ak Hin n4 m4 Hn4 Hm4.
        eapply lsafe_bind; [apply lsafe_eval_lv; unfold attrsgood in Hattrs; rewrite Forall_forall in Hattrs; eapply lvgood_mono; [| |apply Hattrs, Hin]; lia|].
        intros v n5 m5 Hn5 Hm5 _. eapply lsafe_bind; [apply lsafe_edge_exists; lia|]. intros ex n6 m6 Hn6 Hm6 _.
        destruct ex; [|apply lsafe_fail]. eapply lsafe_bind; [apply lsafe_prev_insert|]. intros prev n7 m7 Hn7 Hm7 _.
        apply lsafe_attr_edge_add. lia.
      - apply lsafe_iterM_in. intros a Hin n2 m2 Hn2 Hm2. rewrite Forall_forall in Hst. specialize (Hst a Hin).
        destruct a as [lv|]; [|apply lsafe_ret; intros; exact I].
        eapply lsafe_bind; [apply lsafe_eval_lv; eapply lvgood_mono; [| |exact Hst]; lia|]. intros; apply lsafe_ret; intros; exact I.
    Qed.

    Lemma lsafe_evaluate_phase fuel n0 m0 sh : lsafe n0 m0 sh sh T3 (evaluate_phase t fl call fuel).
    Proof.
      unfold evaluate_phase. apply lsafe_get_state. intros s0 (Hb0 & H01 & H02 & H03 & H04 & H05 & H06 & H07) Hn0 Hm0 Hs0.
      assert (Hstmts : forall l n1 m1, (lglen s0 <= n1)%nat -> (slen s0 <= m1)%nat -> Forall (lsgood sok (lglen s0) (slen s0)) l ->
                 lsafe n1 m1 sh sh T3 (iterM (eval_lstmt t fl call fuel) l)).
      { intros l n1 m1 Hn1 Hm1 Hl. apply lsafe_iterM_in. intros st Hin n2 m2 Hn2 Hm2. apply lsafe_eval_lstmt.
        rewrite Forall_forall in Hl. eapply lsgood_mono; [| |apply Hl, Hin]; lia. }
      eapply lsafe_bind; [apply Hstmts; [apply le_n|apply le_n|exact H04]|]. intros _ n1 m1 Hn1 Hm1 _.
      eapply lsafe_bind; [apply Hstmts; [lia|lia|exact H05]|]. intros _ n2 m2 Hn2 Hm2 _.
      eapply lsafe_bind; [apply Hstmts; [lia|lia|exact H06]|]. intros _ n3 m3 Hn3 Hm3 _.
      eapply lsafe_bind.
      - unfold store_evaluate_all. apply lsafe_get_state. intros s1 _ Hn1' Hm1' _. apply lsafe_iterM_in. intros i Hin n4 m4 Hn4 Hm4.
        eapply lsafe_bind; [apply lsafe_force_thunk|intros; apply lsafe_ret; intros; exact I].
        apply in_map_iff in Hin as (j & <- & Hj). apply in_seq in Hj. rewrite Nat2N.id. unfold slen in Hm4. lia.
      - intros _ n4 m4 Hn4 Hm4 _. unfold scoped_evaluate_all. apply lsafe_get_state. intros s1 _ _ _ _. apply lsafe_iterM_in.
        intros name Hin n5 m5 Hn5 Hm5. eapply lsafe_bind; [apply lsafe_cell_get|]. intros c n6 m6 Hn6 Hm6 Hc.
        destruct c as [cell|]; [|apply lsafe_ret; intros; exact I]. cbn [cell_opt_good] in Hc.
        eapply lsafe_bind; [apply lsafe_cell_set; exact I|]. intros _ n7 m7 Hn7 Hm7 _.
        eapply lsafe_bind; [apply lsafe_force_scoped; eapply svgood_mono; [| |exact Hc]; lia|]. intros mp n8 m8 Hn8 Hm8 Hmp. cbv beta in Hmp.
        apply lsafe_cell_set. exact Hmp.
    Qed.

    (* ---- execution phase ---- *)
    Definition lcaps_safe (m : qmatch) (okq : quant -> N -> N -> bool) : Prop :=
      forall q fi si, okq q fi si = true ->
        match from_nodes (nodes_for_capture m fi) q with
        | Ok v => forall n, vgood sok n v
        | Panic x => allowed x
        | _ => True
        end.
    Lemma lcaps_safe_none m : lcaps_safe m no_capture.
    Proof. intros q fi si H. discriminate. Qed.

    Notation leval' := (leval t fl glob call).
    Definition LGS : list lvalue -> nat -> nat -> Prop := fun out n m => Forall (lvgood sok n m) out.

    Lemma lsafe_leval : forall fuel le e okq n0 m0 sh, lcaps_safe (ll_match le) okq -> expr_ok okq e = true ->
      lsafe n0 m0 sh sh LG3 (leval' fuel le e).
    Proof.
      induction fuel as [|fuel IH]; intros le e okq n0 m0 sh Hc He; [apply lsafe_oof|].
      assert (Heager : forall e' n1 m1 sh1, expr_ok okq e' = true ->
                 lsafe n1 m1 sh1 sh1 VG3 (lv <- leval' fuel le e' ;; eval_lv' (S fuel + default_eval_fuel) lv)).
      { intros e' n1 m1 sh1 He'. eapply lsafe_bind; [eapply IH; eauto|]. intros lv n2 m2 _ _ Hlv. apply lsafe_eval_lv. exact Hlv. }
      assert (Hmapm : forall es n1 m1, forallb (expr_ok okq) es = true -> lsafe n1 m1 sh sh LGS (mapM (leval' fuel le) es)).
      { intros es n1 m1 Hes. apply lsafe_mapM_in with (Q := LG3); [exact LG3_mono|]. intros x Hx n2 m2 _ _.
        eapply IH; [exact Hc|eapply forallb_In; eauto]. }
      assert (Hcomp : forall elem var vale, expr_ok okq elem && expr_ok okq vale = true ->
        lsafe n0 m0 sh sh LGS
          (lv <- (lv <- leval' fuel le vale ;; eval_lv' (S fuel + default_eval_fuel) lv) ;; vals <- lift (as_list lv) ;;
           lpush_frame ;;;
           out <- mapM (fun v => lclear_frame ;;; lunscoped_add glob le var (LValue v) false ;;; leval' fuel le elem) vals ;;
           lpop_frame ;;; ret out)).
      { intros elem var vale Hb. apply andb_true_iff in Hb as [He1 He2].
        eapply lsafe_bind; [apply Heager; exact He2|]. intros lv n1 m1 Hn1 Hm1 Hlv.
        eapply lsafe_bind; [apply lsafe_lift with (Q := fun vals n _ => Forall (vgood sok n) vals)|].
        { destruct lv; cbn [as_list]; try exact I. intros n m Hn Hm. apply vgood_list in Hlv. eapply vsgood_mono; eauto. }
        intros vals n2 m2 Hn2 Hm2 Hvals. cbv beta in Hvals. destruct sh as [d k].
        eapply lsafe_bind; [apply lsafe_push_frame|]. intros _ n3 m3 Hn3 Hm3 _.
        eapply lsafe_bind; [apply lsafe_mapM_in with (Q := LG3); [exact LG3_mono|]|].
        - intros x Hx n4 m4 Hn4 Hm4. eapply lsafe_bind; [apply lsafe_clear_frame|]. intros _ n5 m5 Hn5 Hm5 _.
          eapply lsafe_bind; [apply lsafe_unscoped_add|].
          + cbn [lvgood]. rewrite Forall_forall in Hvals. eapply vgood_mono; [|apply Hvals, Hx]. lia.
          + intros _ n6 m6 Hn6 Hm6 _. eapply IH; eauto.
        - intros out n4 m4 Hn4 Hm4 Hout. eapply lsafe_bind; [apply lsafe_pop_frame|]. intros _ n5 m5 Hn5 Hm5 _.
          apply lsafe_ret. intros n6 m6 Hn6 Hm6. unfold LGS. eapply lvsgood_mono; [| |exact Hout]; lia. }
      destruct e as [ | | |n|s|es|es|elem var vloc vale l|elem var vloc vale l|name q fi si l|name l|scope name l|f args|i];
        cbn [leval]; cbn [expr_ok] in He.
      - apply lsafe_ret; intros; exact I.
      - apply lsafe_ret; intros; exact I.
      - apply lsafe_ret; intros; exact I.
      - apply lsafe_ret; intros; exact I.
      - apply lsafe_ret; intros; exact I.
      - eapply lsafe_bind; [apply Hmapm; exact He|]. intros vs n1 m1 Hn1 Hm1 Hvs. apply lsafe_ret. intros n2 m2 Hn2 Hm2.
        unfold LG3. apply lvgood_list. eapply lvsgood_mono; [| |exact Hvs]; assumption.
      - eapply lsafe_bind; [apply Hmapm; exact He|]. intros vs n1 m1 Hn1 Hm1 Hvs. apply lsafe_ret. intros n2 m2 Hn2 Hm2.
        unfold LG3. apply lvgood_set. eapply lvsgood_mono; [| |exact Hvs]; assumption.
      - eapply lsafe_bind; [apply (Hcomp elem var vale He)|]. intros out n1 m1 Hn1 Hm1 Hout. apply lsafe_ret. intros n2 m2 Hn2 Hm2.
        unfold LG3. apply lvgood_list. eapply lvsgood_mono; [| |exact Hout]; assumption.
      - eapply lsafe_bind; [apply (Hcomp elem var vale He)|]. intros out n1 m1 Hn1 Hm1 Hout. apply lsafe_ret. intros n2 m2 Hn2 Hm2.
        unfold LG3. apply lvgood_set. eapply lvsgood_mono; [| |exact Hout]; assumption.
      - eapply lsafe_bind; [apply lsafe_lift with (Q := VG3)|].
        + specialize (Hc q fi si He). destruct (from_nodes (nodes_for_capture (ll_match le) fi) q); auto. intros n m _ _. apply Hc.
        + intros v n1 m1 Hn1 Hm1 Hv. apply lsafe_ret. intros n2 m2 Hn2 Hm2. unfold LG3. cbn [lvgood]. eapply vgood_mono; [|exact Hv]. exact Hn2.
      - apply lsafe_unscoped_get.
      - eapply lsafe_bind; [eapply IH; eauto|]. intros sv n1 m1 Hn1 Hm1 Hsv. apply lsafe_ret. intros n2 m2 Hn2 Hm2.
        unfold LG3. cbn [lvgood]. eapply lvgood_mono; [| |exact Hsv]; assumption.
      - eapply lsafe_bind; [apply Hmapm; exact He|]. intros vs n1 m1 Hn1 Hm1 Hvs. apply lsafe_ret. intros n2 m2 Hn2 Hm2.
        unfold LG3. apply lvgood_call. eapply lvsgood_mono; [| |exact Hvs]; assumption.
      - destruct (nth_error (ll_caps le) (N.to_nat i)); [apply lsafe_ret; intros; exact I|apply lsafe_fail].
    Qed.
    Lemma lsafe_leager fuel le e okq n0 m0 sh : lcaps_safe (ll_match le) okq -> expr_ok okq e = true ->
      lsafe n0 m0 sh sh VG3 (leager t fl glob call fuel le e).
    Proof.
      intros Hc He. unfold leager. eapply lsafe_bind; [eapply lsafe_leval; eauto|]. intros lv n1 m1 _ _ Hlv. apply lsafe_eval_lv. exact Hlv.
    Qed.

    Lemma lsafe_lvar_add fuel le v x b okq n0 m0 sh : lcaps_safe (ll_match le) okq -> var_ok okq v = true -> lvgood sok n0 m0 x ->
      lsafe n0 m0 sh sh T3 (lvar_add t fl glob call fuel le v x b).
    Proof.
      intros Hc Hv Hx. destruct v as [name l|scope name l]; cbn [lvar_add]; cbn [var_ok] in Hv.
      - apply lsafe_unscoped_add. exact Hx.
      - destruct b; [apply lsafe_fail|]. eapply lsafe_bind; [eapply lsafe_leval; eauto|]. intros sv n1 m1 Hn1 Hm1 Hsv.
        eapply lsafe_bind; [apply lsafe_store_add; eapply lvgood_mono; [| |exact Hx]; assumption|]. intros var n2 m2 Hn2 Hm2 Hvar.
        apply lsafe_scoped_store_add; [eapply lvgood_mono; [| |exact Hsv]; assumption|exact Hvar].
    Qed.
    Lemma lsafe_lvar_set fuel le v x n0 m0 sh : lvgood sok n0 m0 x -> lsafe n0 m0 sh sh T3 (lvar_set glob fuel le v x).
    Proof. intros Hx. destruct v as [name l|scope name l]; cbn [lvar_set]; [apply lsafe_unscoped_set; exact Hx|apply lsafe_fail]. Qed.
    Lemma lsafe_ltest_cond fuel le c okq n0 m0 sh : lcaps_safe (ll_match le) okq -> cond_ok okq c = true ->
      lsafe n0 m0 sh sh T3 (ltest_cond t fl glob call fuel le c).
    Proof.
      intros Hc Hk. destruct c as [e l|e l|e l]; cbn [ltest_cond]; cbn [cond_ok] in Hk;
        (eapply lsafe_bind; [eapply lsafe_leager; eauto|]); intros v n1 m1 Hn1 Hm1 _.
      - apply lsafe_ret; intros; exact I.
      - apply lsafe_ret; intros; exact I.
      - apply lsafe_lift. destruct v; cbn [as_bool]; intros; exact I.
    Qed.

    Definition AG3 : list (ident * lvalue) -> nat -> nat -> Prop := fun out n m => attrsgood sok n m out.
    Lemma AG3_mono b n m n' m' : (n <= n')%nat -> (m <= m')%nat -> AG3 b n m -> AG3 b n' m'.
    Proof. unfold AG3. intros Hn Hm. apply attrsgood_mono; assumption. Qed.
    Lemma attrsgood_concat n m outs : Forall (fun y => AG3 y n m) outs -> attrsgood sok n m (concat outs).
    Proof.
      induction outs as [|o outs IH]; intros H; cbn [concat]; [constructor|]. inversion H; subst.
      apply Forall_app. split; [assumption|apply IH; assumption].
    Qed.

    Lemma lsafe_lexec_attr : forall fuel le a okq n0 m0 sh, lcaps_safe (ll_match le) okq -> attr_ok okq a = true ->
      lsafe n0 m0 sh sh AG3 (lexec_attr t fl glob call fuel le a).
    Proof.
      induction fuel as [|fuel IH]; intros le a okq n0 m0 sh Hc Ha; [apply lsafe_oof|].
      destruct a as [name vale]. cbn [lexec_attr]. cbn [attr_ok] in Ha.
      eapply lsafe_bind; [apply lsafe_poll|]. intros _ n1 m1 Hn1 Hm1 _.
      eapply lsafe_bind; [eapply lsafe_leval; eauto|]. intros v n2 m2 Hn2 Hm2 Hv.
      destruct (find_shorthand name (f_shorthands fl)) as [shd|] eqn:Ef.
      2:{ apply lsafe_ret. intros n3 m3 Hn3 Hm3. unfold AG3. constructor; [|constructor]. cbn [snd]. eapply lvgood_mono; [| |exact Hv]; assumption. }
      apply lsafe_get_state. intros s0 (_ & Hl0 & _) Hn0 Hm0 Hs0. cbv zeta. unfold lshape in Hs0. subst sh.
      eapply lsafe_bind; [apply lsafe_set_llocals with (l := [[]]); constructor; constructor|]. intros _ n3 m3 Hn3 Hm3 _.
      eapply lsafe_bind; [apply lsafe_unscoped_add; eapply lvgood_mono; [| |exact Hv]; lia|]. intros _ n4 m4 Hn4 Hm4 _.
      eapply lsafe_bind.
      - apply lsafe_mapM_in with (Q := AG3); [exact AG3_mono|]. intros a Hin n5 m5 Hn5 Hm5.
        apply IH with (okq := no_capture); [apply lcaps_safe_none|].
        eapply forallb_In; [apply Hsh; eapply find_shorthand_in; exact Ef|exact Hin].
      - intros outs n5 m5 Hn5 Hm5 Houts.
        eapply lsafe_bind; [apply lsafe_set_llocals; eapply llgood_mono; [| |exact Hl0]; lia|]. intros _ n6 m6 Hn6 Hm6 _.
        apply lsafe_ret. intros n7 m7 Hn7 Hm7. unfold AG3. apply attrsgood_concat. revert Houts. apply Forall_impl.
        intros o. apply AG3_mono; lia.
    Qed.
    Lemma lsafe_lexec_attrs fuel le attrs okq n0 m0 sh : lcaps_safe (ll_match le) okq -> forallb (attr_ok okq) attrs = true ->
      lsafe n0 m0 sh sh AG3 (outs <- mapM (lexec_attr t fl glob call fuel le) attrs ;; ret (concat outs)).
    Proof.
      intros Hc Ha. eapply lsafe_bind.
      - apply lsafe_mapM_in with (Q := AG3); [exact AG3_mono|]. intros a Hin n1 m1 _ _. eapply lsafe_lexec_attr; [exact Hc|eapply forallb_In; eauto].
      - intros outs n1 m1 Hn1 Hm1 Houts. apply lsafe_ret. intros n2 m2 Hn2 Hm2. unfold AG3. apply attrsgood_concat. revert Houts. apply Forall_impl.
        intros o. apply AG3_mono; assumption.
    Qed.

    Lemma lsafe_lscan_loop (run_arm : list str -> list stmt -> M lstate unit) arms rs subject :
      length rs = length arms ->
      (forall caps r body l, In (r, body, l) arms -> forall n1 m1 sh, lsafe n1 m1 sh sh T3 (run_arm caps body)) ->
      forall sfuel i n0 m0 sh, lsafe n0 m0 sh sh T3 (lscan_loop find run_arm arms rs subject sfuel i).
    Proof.
      intros Hlen Hrun. induction sfuel as [|sfuel IHs]; intros i n0 m0 sh; cbn [lscan_loop]; [apply lsafe_oof|].
      destruct (N.ltb i (N.of_nat (length subject))); [|apply lsafe_ret; intros; exact I]. cbv zeta.
      eapply lsafe_bind; [apply lsafe_poll_n|]. intros _ n1 m1 Hn1 Hm1 _.
      destruct (arm_select find rs (skipn (N.to_nat i) subject)) as [|k|k caps] eqn:Es; [apply lsafe_ret; intros; exact I|apply lsafe_fail|].
      destruct (nth_error arms (N.to_nat k)) as [[[r body] l']|] eqn:En.
      2:{ exfalso. apply nth_error_None in En. unfold arm_select in Es. apply arm_collect_range in Es; [|intros; discriminate]. lia. }
      destruct sh as [d kk].
      eapply lsafe_bind; [apply lsafe_push_frame|]. intros _ n2 m2 Hn2 Hm2 _.
      eapply lsafe_bind; [eapply Hrun, nth_error_In, En|]. intros _ n3 m3 Hn3 Hm3 _.
      eapply lsafe_bind; [apply lsafe_pop_frame|]. intros _ n4 m4 Hn4 Hm4 _. apply IHs.
    Qed.
    Lemma lsafe_lif_loop (test : cond -> M lstate bool) (run_body : list stmt -> M lstate unit) : forall arms,
      (forall conds body l c, In (conds, body, l) arms -> In c conds -> forall n1 m1 sh, lsafe n1 m1 sh sh T3 (test c)) ->
      (forall conds body l, In (conds, body, l) arms -> forall n1 m1 sh, lsafe n1 m1 sh sh T3 (run_body body)) ->
      forall n0 m0 sh, lsafe n0 m0 sh sh T3 (lif_loop test run_body arms).
    Proof.
      induction arms as [|[[conds body] l'] arms IHa]; intros Ht Hr n0 m0 sh; cbn [lif_loop]; [apply lsafe_ret; intros; exact I|].
      eapply lsafe_bind; [apply lsafe_mapM_in with (Q := T3); [intros; exact I|]|].
      - intros c Hin n1 m1 _ _. eapply Ht; [left; reflexivity|exact Hin].
      - intros bs n1 m1 _ _ _. destruct (forallb (fun b => b) bs).
        + destruct sh as [d k]. eapply lsafe_bind; [apply lsafe_push_frame|]. intros _ n2 m2 _ _ _.
          eapply lsafe_bind; [eapply Hr; left; reflexivity|]. intros _ n3 m3 _ _ _. apply lsafe_pop_frame.
        + apply IHa.
          * intros conds0 body0 l0 c Hin Hc. eapply Ht; [right; exact Hin|exact Hc].
          * intros conds0 body0 l0 Hin. eapply Hr. right. exact Hin.
    Qed.

    Notation lexec_stmt' := (lexec_stmt t fl cfg glob regexes find call).
    Definition OG3 : option lvalue -> nat -> nat -> Prop :=
      fun o n m => match o with Some lv => lvgood sok n m lv | None => True end.

    Lemma lsafe_lexec_stmt : forall fuel le s okq n0 m0 sh, lcaps_safe (ll_match le) okq ->
      nodes_for_capture (ll_match le) (ll_full le) <> [] ->
      stmt_ok okq s = true -> scans_ok regexes s = true -> lsafe n0 m0 sh sh T3 (lexec_stmt' fuel le s).
    Proof.
      induction fuel as [|fuel IH]; intros le s okq n0 m0 sh Hc Hfull Hs Hsc; [apply lsafe_oof|].
      assert (Hblock : forall le' body n1 m1 sh1, ll_match le' = ll_match le -> ll_full le' = ll_full le ->
                 forallb (stmt_ok okq) body = true -> forallb (scans_ok regexes) body = true ->
                 lsafe n1 m1 sh1 sh1 T3 (iterM (fun st => lexec_stmt' fuel (ll_with_ctx le' (ctx_update (ll_ctx le') st)) st) body)).
      { intros le' body n1 m1 sh1 Hm Hf Hb1 Hb2. apply lsafe_iterM_in. intros st Hin n2 m2 _ _. apply IH with (okq := okq).
        - cbn [ll_with_ctx ll_match]. rewrite Hm. exact Hc.
        - cbn [ll_with_ctx ll_match ll_full]. rewrite Hm, Hf. exact Hfull.
        - eapply forallb_In; eauto.
        - eapply forallb_In; eauto. }
      assert (Harm : forall le' body n1 m1 sh1, ll_match le' = ll_match le -> ll_full le' = ll_full le ->
                 forallb (stmt_ok okq) body = true -> forallb (scans_ok regexes) body = true ->
                 lsafe n1 m1 sh1 sh1 T3 (iterM (fun st => let c := ctx_update (ll_ctx le') st in
                                         ctx_wrap (CtxStmts [c]) (ctx_wrap CtxOther (lexec_stmt' fuel (ll_with_ctx le' c) st))) body)).
      { intros le' body n1 m1 sh1 Hm Hf Hb1 Hb2. apply lsafe_iterM_in. intros st Hin n2 m2 _ _. cbv zeta. apply lsafe_ctx, lsafe_ctx.
        apply IH with (okq := okq).
        - cbn [ll_with_ctx ll_match]. rewrite Hm. exact Hc.
        - cbn [ll_with_ctx ll_match ll_full]. rewrite Hm, Hf. exact Hfull.
        - eapply forallb_In; eauto.
        - eapply forallb_In; eauto. }
      destruct s as [v e l|v e l|v e l|v vtext l|node attrs l|src snk l|src snk attrs l|vale arms l|values l|arms l|var vloc vale body l];
        cbn [lexec_stmt]; cbn [stmt_ok] in Hs; cbn [scans_ok] in Hsc; (eapply lsafe_bind; [apply lsafe_poll|intros _ n1 m1 Hn1 Hm1 _]).
      - apply andb_true_iff in Hs as [Hs1 Hs2]. eapply lsafe_bind; [eapply lsafe_leval; eauto|]. intros x n2 m2 Hn2 Hm2 Hx. eapply lsafe_lvar_add; eauto.
      - apply andb_true_iff in Hs as [Hs1 Hs2]. eapply lsafe_bind; [eapply lsafe_leval; eauto|]. intros x n2 m2 Hn2 Hm2 Hx. eapply lsafe_lvar_add; eauto.
      - apply andb_true_iff in Hs as [Hs1 Hs2]. eapply lsafe_bind; [eapply lsafe_leval; eauto|]. intros x n2 m2 Hn2 Hm2 Hx. apply lsafe_lvar_set. exact Hx.
      - eapply lsafe_bind; [apply lsafe_add_node|]. intros n n2 m2 Hn2 Hm2 Hlt. cbv beta in Hlt.
        eapply lsafe_bind; [apply lsafe_opt_node_attr; exact Hlt|]. intros _ n3 m3 Hn3 Hm3 _.
        eapply lsafe_bind; [apply lsafe_opt_node_attr; lia|]. intros _ n4 m4 Hn4 Hm4 _.
        eapply lsafe_bind.
        { destruct (c_match_attr cfg) as [k|].
          - eapply lsafe_bind; [apply lsafe_full_match_node; exact Hfull|]. intros mn n5 m5 Hn5 Hm5 _. apply lsafe_add_node_attr. lia.
          - apply lsafe_ret; intros; exact I. }
        intros _ n5 m5 Hn5 Hm5 _. eapply lsafe_lvar_add; eauto. cbn [lvgood vgood]. lia.
      - apply andb_true_iff in Hs as [Hs1 Hs2]. eapply lsafe_bind; [eapply lsafe_leval; eauto|]. intros nv n2 m2 Hn2 Hm2 Hnv.
        eapply lsafe_bind; [apply lsafe_mapM_in with (Q := AG3); [exact AG3_mono|]|].
        + intros a Hin n3 m3 _ _. eapply lsafe_lexec_attr; [exact Hc|eapply forallb_In; eauto].
        + intros outs n3 m3 Hn3 Hm3 Houts. apply lsafe_push_lstmt. cbn [lsgood]. split; [eapply lvgood_mono; [| |exact Hnv]; assumption|].
          apply attrsgood_concat. exact Houts.
      - apply andb_true_iff in Hs as [Hs1 Hs2].
        eapply lsafe_bind; [eapply lsafe_leval; eauto|]. intros a n2 m2 Hn2 Hm2 Ha.
        eapply lsafe_bind; [eapply lsafe_leval; eauto|]. intros b n3 m3 Hn3 Hm3 Hb. cbv zeta.
        apply lsafe_push_lstmt. cbn [lsgood]. split; [eapply lvgood_mono; [| |exact Ha]; assumption|exact Hb].
      - apply andb_true_iff in Hs as [Hs12 Hs3]. apply andb_true_iff in Hs12 as [Hs1 Hs2].
        eapply lsafe_bind; [eapply lsafe_leval; eauto|]. intros a n2 m2 Hn2 Hm2 Ha.
        eapply lsafe_bind; [eapply lsafe_leval; eauto|]. intros b n3 m3 Hn3 Hm3 Hb.
        eapply lsafe_bind; [apply lsafe_mapM_in with (Q := AG3); [exact AG3_mono|]|].
        + intros a' Hin n4 m4 _ _. eapply lsafe_lexec_attr; [exact Hc|eapply forallb_In; eauto].
        + intros outs n4 m4 Hn4 Hm4 Houts. apply lsafe_push_lstmt. cbn [lsgood].
          split; [eapply lvgood_mono; [| |exact Ha]; lia|]. split; [eapply lvgood_mono; [| |exact Hb]; assumption|].
          apply attrsgood_concat. exact Houts.
      - apply andb_true_iff in Hs as [Hs1 Hs2]. apply andb_true_iff in Hsc as [Hsc1 Hsc2].
        eapply lsafe_bind; [eapply lsafe_leager; eauto|]. intros sv n2 m2 Hn2 Hm2 _.
        eapply lsafe_bind; [apply lsafe_lift with (Q := T3); destruct sv; cbn [as_str]; intros; exact I|]. intros subject n3 m3 Hn3 Hm3 _.
        destruct (arm_table regexes arms) as [rs|] eqn:Et; [|discriminate Hsc1].
        apply lsafe_lscan_loop; [eapply arm_table_length; eauto|]. intros caps r body l' Hin n4 m4 sh4.
        apply (Harm (ll_with_caps le caps) body); try reflexivity.
        + apply (forallb_In _ _ _ Hs2 Hin).
        + apply (forallb_In _ _ _ Hsc2 Hin).
      - eapply lsafe_bind; [apply lsafe_mapM_in with (Q := OG3)|].
        + intros o n m n' m' Hn Hm. destruct o as [lv|]; cbn [OG3]; [apply lvgood_mono; assumption|auto].
        + intros e Hin n2 m2 _ _. pose proof (forallb_In _ _ _ Hs Hin) as He.
          destruct e; try (apply lsafe_ret; intros; exact I);
            (eapply lsafe_bind; [eapply lsafe_leval; eauto|intros lv n3 m3 Hn3 Hm3 Hlv; apply lsafe_ret; intros n4 m4 Hn4 Hm4; cbn [OG3];
                                                            eapply lvgood_mono; [| |exact Hlv]; assumption]).
        + intros args n2 m2 Hn2 Hm2 Hargs. apply lsafe_push_lstmt. cbn [lsgood]. exact Hargs.
      - apply lsafe_lif_loop.
        + intros conds body l' c Hin Hc' n2 m2 sh2. pose proof (forallb_In _ _ _ Hs Hin) as Ha. cbn [fst snd] in Ha.
          apply andb_true_iff in Ha as [Ha1 Ha2]. eapply lsafe_ltest_cond; [exact Hc|eapply forallb_In; eauto].
        + intros conds body l' Hin n2 m2 sh2. pose proof (forallb_In _ _ _ Hs Hin) as Ha. cbn [fst snd] in Ha.
          apply andb_true_iff in Ha as [Ha1 Ha2]. apply (Hblock le body); auto.
          apply (forallb_In _ _ _ Hsc Hin).
      - apply andb_true_iff in Hs as [Hs1 Hs2].
        eapply lsafe_bind; [eapply lsafe_leager; eauto|]. intros lv n2 m2 Hn2 Hm2 Hlv.
        eapply lsafe_bind; [apply lsafe_lift with (Q := fun vals n _ => Forall (vgood sok n) vals)|].
        { destruct lv; cbn [as_list]; try exact I. intros n m Hn Hm. apply vgood_list in Hlv. eapply vsgood_mono; eauto. }
        intros vals n3 m3 Hn3 Hm3 Hvals. cbv beta in Hvals. destruct sh as [d k].
        eapply lsafe_bind; [apply lsafe_push_frame|]. intros _ n4 m4 Hn4 Hm4 _.
        eapply lsafe_bind; [|intros _ n5 m5 _ _ _; apply lsafe_pop_frame].
        apply lsafe_iterM_in. intros x Hx n5 m5 Hn5 Hm5. eapply lsafe_bind; [apply lsafe_clear_frame|]. intros _ n6 m6 Hn6 Hm6 _.
        eapply lsafe_bind; [apply lsafe_unscoped_add|].
        + cbn [lvgood]. rewrite Forall_forall in Hvals. eapply vgood_mono; [|apply Hvals, Hx]. lia.
        + intros _ n7 m7 _ _ _. apply (Hblock le body); auto.
    Qed.

    (* ---- matches: one (stanza index, match) pair as the merged query reports it ---- *)
    Definition good_lmatch (pm : N * qmatch) : Prop :=
      match nth_error (f_stanzas fl) (N.to_nat (fst pm)) with
      | Some st => nodes_for_capture (snd pm) (st_full_file_idx st) <> [] /\
                   forallb (stmt_ok (by_file (okc (snd pm)))) (st_stmts st) = true /\
                   Forall (fun c : N * list N => Forall sok (snd c)) (snd pm)
      | None => False
      end.
    Lemma lcaps_safe_okc m : Forall (fun c : N * list N => Forall sok (snd c)) m -> lcaps_safe m (by_file (okc m)).
    Proof. intros H q fi si Hq. apply Hokc; assumption. Qed.

    Lemma lsafe_lexec_stanza fuel st m n0 m0 sh :
      nodes_for_capture m (st_full_file_idx st) <> [] -> forallb (stmt_ok (by_file (okc m))) (st_stmts st) = true ->
      Forall (fun c : N * list N => Forall sok (snd c)) m -> forallb (scans_ok regexes) (st_stmts st) = true ->
      lsafe n0 m0 sh sh T3 (lexec_stanza t fl cfg glob regexes find call fuel st m).
    Proof.
      intros Hfull Hok Hm Hsc. unfold lexec_stanza. eapply lsafe_bind; [apply lsafe_poll|]. intros _ n1 m1 _ _ _.
      eapply lsafe_bind; [apply lsafe_clear_frame|]. intros _ n2 m2 _ _ _. cbv zeta.
      destruct (nodes_for_capture m (st_full_file_idx st)) as [|n ns] eqn:En; [exfalso; apply Hfull; reflexivity|].
      apply lsafe_iterM_in. intros s Hin n3 m3 _ _. cbv zeta. apply lsafe_ctx. apply lsafe_lexec_stmt with (okq := by_file (okc m)).
      - cbn [ll_with_ctx ll_match]. apply lcaps_safe_okc, Hm.
      - cbn [ll_with_ctx ll_match ll_full]. rewrite En. discriminate.
      - eapply forallb_In; eauto.
      - eapply forallb_In; eauto.
    Qed.

    Lemma lsafe_lexec_file fuel ms n0 m0 sh : Forall good_lmatch ms ->
      forallb (fun st => forallb (scans_ok regexes) (st_stmts st)) (f_stanzas fl) = true ->
      lsafe n0 m0 sh sh T3 (lexec_file t fl cfg glob regexes find call fuel ms).
    Proof.
      intros Hms Hsc. unfold lexec_file. eapply lsafe_bind; [|intros _ n1 m1 _ _ _; apply lsafe_evaluate_phase].
      apply lsafe_iterM_in. intros pm Hin n1 m1 _ _. rewrite Forall_forall in Hms. specialize (Hms pm Hin). unfold good_lmatch in Hms.
      destruct (nth_error (f_stanzas fl) (N.to_nat (fst pm))) as [st|] eqn:Est; [|contradiction].
      destruct Hms as (Hfull & Hok & Hm). apply lsafe_lexec_stanza; auto.
      apply nth_error_In in Est. apply (forallb_In _ _ _ Hsc Est).
    Qed.
  End LInterp.
End LSafe.

(* ------------------------------------------------------------------ the run *)
(* matches of the merged file query, each with the index of its stanza: the index is in range (P_stanza_index);
   the full-match capture (by its index in the file query) is bound; every capture expression of the stanza has a
   resolved quantifier and, when it is One, a node in the match (by file capture index); matched nodes satisfy sok *)
Definition GoodMatchesLazy (sok : N -> Prop) (fl : file) (matches : list (N * qmatch)) : Prop :=
  Forall (good_lmatch sok fl cap_ok) matches.
(* the same without "a capture whose quantifier is One has a node in the match" *)
Definition GoodMatchesLazyResolved (sok : N -> Prop) (fl : file) (matches : list (N * qmatch)) : Prop :=
  Forall (good_lmatch sok fl cap_resolved) matches.

Theorem exec_panics_lazy {rx : Type} (sok allowed : N -> Prop) (okc : qmatch -> quant -> N -> bool)
    t fl cfg supplied budget (regexes : list rx) find call fuel matches g0 :
  (forall m, Forall (fun c : N * list N => Forall sok (snd c)) m -> forall q idx, okc m q idx = true ->
     match from_nodes (nodes_for_capture m idx) q with
     | Ok v => forall n, vgood sok n v
     | Panic x => allowed x
     | _ => True
     end) ->
  WellFormedFile regexes fl -> Forall (good_lmatch sok fl okc) matches -> GoodGlobals sok g0 supplied -> GoodCall sok call ->
  forall x, run_lazy t fl cfg supplied budget regexes find call fuel matches g0 = Panic x -> allowed x.
Proof.
  intros Hokc Hwf Hm Hg Hcall x. unfold run_lazy. unfold WellFormedFile, wf_file in Hwf. apply andb_true_iff in Hwf as [Hsc Hsh].
  destruct (check_globals (f_globals fl) (globals_nested supplied)) as [glob|e|y|] eqn:Eg; try discriminate.
  2:{ exfalso. exact (check_globals_no_panic _ _ _ Eg). }
  assert (Hglob : ggood sok (length g0) glob).
  { eapply check_globals_good; [|exact Eg]. constructor; [constructor|exact Hg]. }
  assert (HI : LInv sok (length g0) (linit g0)).
  { unfold LInv, stgood, linit, lglen, slen. cbn [l_graph l_locals l_store l_scoped l_edges l_attrs l_prints l_params].
    split; [lia|]. split; [constructor; constructor|]. repeat split; constructor. }
  pose proof (lsafe_lexec_file sok (length g0) allowed t fl cfg glob regexes find call Hglob Hcall
                (fun sh Hin => forallb_In _ _ _ Hsh Hin) okc Hokc fuel matches 0%nat 0%nat (1%nat, 0%nat) Hm Hsc
                (linit g0) (polls0 budget) HI (Nat.le_0_l _) (Nat.le_0_l _) eq_refl) as H.
  destruct (lexec_file t fl cfg glob regexes find call fuel matches (linit g0) (polls0 budget)) as [[[u s] p]|e|y|];
    try discriminate. intros E. inversion E; subst. exact H.
Qed.

Theorem exec_no_panic_lazy {rx : Type} (sok : N -> Prop) t fl cfg supplied budget (regexes : list rx) find call fuel matches g0 :
  WellFormedFile regexes fl -> GoodMatchesLazy sok fl matches -> GoodGlobals sok g0 supplied -> GoodCall sok call ->
  forall x, run_lazy t fl cfg supplied budget regexes find call fuel matches g0 <> Panic x.
Proof.
  intros Hwf Hm Hg Hcall x E.
  exact (exec_panics_lazy sok (fun _ => False) cap_ok t fl cfg supplied budget regexes find call fuel matches g0
           (cap_ok_from_nodes sok) Hwf Hm Hg Hcall x E).
Qed.

Theorem exec_only_missing_capture_lazy {rx : Type} (sok : N -> Prop) t fl cfg supplied budget (regexes : list rx) find call fuel matches g0 :
  WellFormedFile regexes fl -> GoodMatchesLazyResolved sok fl matches -> GoodGlobals sok g0 supplied -> GoodCall sok call ->
  forall x, run_lazy t fl cfg supplied budget regexes find call fuel matches g0 = Panic x -> x = P_missing_capture.
Proof.
  intros Hwf Hm Hg Hcall.
  exact (exec_panics_lazy sok (fun x => x = P_missing_capture) cap_resolved t fl cfg supplied budget regexes find call fuel matches g0
           (cap_resolved_from_nodes sok) Hwf Hm Hg Hcall).
Qed.

Lemma missing_capture_panics_lazy t fl glob call fuel le name fidx sidx l s p :
  nodes_for_capture (ll_match le) fidx = [] ->
  leval t fl glob call (S fuel) le (ECapture name QOne fidx sidx l) s p = Panic P_missing_capture.
Proof. intros H. cbn [leval]. rewrite H. reflexivity. Qed.
