(* Proofs/CiteStmt.v — C20, lazy mode, evaluation phase: which statement the error of a DEFERRED graph statement
   (edge / attr on node / attr on edge / print: lazy/statements.rs) cites.

   eval_lstmt st = check ;;; with_context(st.debug_info) (body).  An error of it is
     - the cancellation, or
     - InContext(Statement [ls_dbg st], e1) with e1 WITHOUT statement context: the statement's own evaluation failed
       (not inside a thunk or a scoped definition, whose errors always carry their own context), or
     - InContext(Statement [prev; ls_dbg st], DuplicateAttribute): st sets an attribute (key k: element and name) that the
       statement with debug info `prev` set before — prev FIRST, the failing statement second; prev is recorded in
       prev_element_debug_info under the same key, i.e. it is the debug info of a deferred attribute statement
       evaluated earlier (or of st itself, when st sets the same name twice), or
     - an error with `origin` (Proofs/CiteEval.v): it cites the creator of the thunk / scoped definition that
       failed directly, and the context of st is NOT added (the innermost statement context wins).
   The whole evaluation phase (evaluate_phase) then cites, for its error, one deferred statement st of
   l_edges ++ l_attrs ++ l_prints (evaluated in this order), and for a conflict an attribute statement st' that is
   evaluated before st (or st itself) and sets the same key. *)
From TSG Require Import Model.Strict Model.Lazy.
From TSG Require Import Proofs.BaseFacts Proofs.Containers Proofs.MonadFacts Proofs.StrictMeta Proofs.Captures Proofs.ErrorCtx Proofs.ErrorCtxValid Proofs.CiteEval.

(* the graph-element keys whose attribute a deferred statement sets (the element itself is only known after evaluation) *)
Definition key_sets (st : lstmt) (k : elem_key) : Prop :=
  match st, k with
  | LSAttrNode _ attrs _, KNode _ name => In name (map fst attrs)
  | LSAttrEdge _ _ attrs _, KEdge _ _ name => In name (map fst attrs)
  | _, _ => False
  end.
Definition prevs_in (D : elem_key -> stmt_ctx -> Prop) (l : list (elem_key * stmt_ctx)) : Prop :=
  Forall (fun kd => D (fst kd) (snd kd)) l.
Lemma prevs_in_mono (D D' : elem_key -> stmt_ctx -> Prop) l : (forall k d, D k d -> D' k d) -> prevs_in D l -> prevs_in D' l.
Proof. intros H. unfold prevs_in. rewrite !Forall_forall. intros Hl x Hx. apply H, Hl, Hx. Qed.

Lemma elem_key_eqb_eq x y : elem_key_eqb x y = true -> x = y.
Proof.
  destruct x, y; cbn [elem_key_eqb]; try discriminate; rewrite ?andb_true_iff, ?N.eqb_eq, ?str_eqb_eq.
  - intros [-> ->]. reflexivity.
  - intros [[-> ->] ->]. reflexivity.
Qed.

Lemma h_err A P (m : M lstate A) Q (E E' : exec_error -> Prop) : (forall e, E e -> E' e) -> hoare P m Q E -> hoare P m Q E'.
Proof. intros HE H s p HP. specialize (H s p HP). destruct (m s p) as [[[a s1] p1]|e|x|]; auto. Qed.

Lemma inv_mono s0 (F F' : list (elem_key * stmt_ctx) -> Prop) s : (forall l, F l -> F' l) -> inv s0 F s -> inv s0 F' s.
Proof. intros H [H1 H2]. split; [exact H1|apply H, H2]. Qed.

(* the deferred statements whose debug info may sit in prev_element_debug_info: those of `init` and the attribute
   statements of L, under a key they set *)
Definition Dall (init : list (elem_key * stmt_ctx)) (L : list lstmt) (k : elem_key) (d : stmt_ctx) : Prop :=
  In (k, d) init \/ exists st', In st' L /\ d = ls_dbg st' /\ key_sets st' k.
Lemma Dall_mono init L L' k d : incl L L' -> Dall init L k d -> Dall init L' k d.
Proof. intros Hi [H|(st' & Hin & H)]; [left; exact H|right; exists st'; split; [apply Hi, Hin|exact H]]. Qed.

Section CiteStmt.
  Variables (t : tree) (fl : file) (call : ident -> graph -> list value -> res (value * graph)).
  Hypothesis Hcall : call_errors_base call.

  Notation LM := (M lstate).
  Notation eval_lv' := (eval_lv t fl call).
  Notation origin' := (origin t fl call).

  Definition lstmt_body (fuel : nat) (st : lstmt) : LM unit :=
    match st with
    | LSAttrNode node attrs dbg =>
        n <- ctx_wrap CtxOther (eval_as_gnode t fl call fuel node) ;;
        iterM (fun a : ident * lvalue =>
                 v <- eval_lv' fuel (snd a) ;;
                 prev <- prev_insert (KNode n (fst a)) dbg ;;
                 lattr_node_add n (fst a) v prev dbg) attrs
    | LSEdge src snk eattrs dbg =>
        a <- ctx_wrap CtxOther (eval_as_gnode t fl call fuel src) ;;
        b <- ctx_wrap CtxOther (eval_as_gnode t fl call fuel snk) ;;
        ledge_add a b eattrs
    | LSAttrEdge src snk attrs dbg =>
        a <- ctx_wrap CtxOther (eval_as_gnode t fl call fuel src) ;;
        b <- ctx_wrap CtxOther (eval_as_gnode t fl call fuel snk) ;;
        iterM (fun ak : ident * lvalue =>
                 v <- eval_lv' fuel (snd ak) ;;
                 ex <- ledge_exists a b ;;
                 if ex then
                   prev <- prev_insert (KEdge a b (fst ak)) dbg ;;
                   lattr_edge_add a b (fst ak) v prev dbg
                 else fail EUndefinedEdge) attrs
    | LSPrint args dbg =>
        iterM (fun a => match a with Some lv => eval_lv' fuel lv ;;; ret tt | None => ret tt end) args
    end.
  Lemma eval_lstmt_unfold fuel st :
    eval_lstmt t fl call fuel st = (lpoll L_eval_stmt ;;; ctx_wrap (CtxStmts [ls_dbg st]) (lstmt_body fuel st)).
  Proof. destruct st; reflexivity. Qed.

  Section Body.
    Variable s0 : lstate.
    Variable D : elem_key -> stmt_ctx -> Prop.
    Notation Iv := (inv s0 (prevs_in D)).
    Notation ev' := (ev t fl call s0 (prevs_in D)).

    Definition berr (st : lstmt) (e : exec_error) : Prop :=
      cancelled e \/ unwrapped e \/ origin' s0 e \/
      e = EInContext (CtxStmts [ls_dbg st]) EDuplicateAttribute \/
      exists k prev, e = EInContext (CtxStmts [prev; ls_dbg st]) EDuplicateAttribute /\ key_sets st k /\ D k prev.
    Definition hb {A} (st : lstmt) (m : LM A) (R : A -> Prop) : Prop := hoare Iv m (fun a s => Iv s /\ R a) (berr st).

    Lemma berr_of_eerr st top e : eerr t fl call s0 top e -> berr st e.
    Proof. intros [H|[[_ H]|H]]; [left; exact H|right; left; exact H|right; right; left; exact H]. Qed.
    Lemma hb_of_ev st top A (m : LM A) R : ev' top m R -> hb st m R.
    Proof. apply h_err. apply berr_of_eerr. Qed.
    Lemma hb_ret st A (a : A) (R : A -> Prop) : R a -> hb st (ret a) R.
    Proof. intros H s p HI. cbn. split; assumption. Qed.
    Lemma hb_bind st A B (m : LM A) (f : A -> LM B) R R' : hb st m R -> (forall a, R a -> hb st (f a) R') -> hb st (bind m f) R'.
    Proof.
      intros Hm Hf s p HI. specialize (Hm s p HI). unfold bind. destruct (m s p) as [[[a s1] p1]|e|x|]; auto.
      destruct Hm as [HI1 HR]. apply (Hf a HR s1 p1 HI1).
    Qed.
    Lemma hb_bindT st A B (m : LM A) (f : A -> LM B) R' : hb st m TT -> (forall a, hb st (f a) R') -> hb st (bind m f) R'.
    Proof. intros Hm Hf. eapply hb_bind; [exact Hm|]. intros a _. apply Hf. Qed.
    Lemma hb_iterM st A (f : A -> LM unit) l : (forall x, In x l -> hb st (f x) TT) -> hb st (iterM f l) TT.
    Proof.
      induction l as [|x l IH]; intros H; cbn [iterM]; [apply hb_ret; exact I|].
      apply hb_bindT; [apply H; left; reflexivity|intros _]. apply IH. intros z Hz. apply H. right. exact Hz.
    Qed.
    Lemma hb_fail st A e (R : A -> Prop) : base_error e -> hb st (fail e) R.
    Proof. intros H s p HI. cbn. right. left. apply U_base, H. Qed.

    Lemma same_dbgs_graph s g :
      same_dbgs s0 s ->
      same_dbgs s0 {| l_graph := g; l_locals := l_locals s; l_store := l_store s; l_scoped := l_scoped s; l_edges := l_edges s;
                      l_attrs := l_attrs s; l_prints := l_prints s; l_params := l_params s; l_prev := l_prev s |}.
    Proof. intros H. exact H. Qed.

    (* prev_element_debug_info.insert: the new entry is st's; the returned one was recorded under the SAME key *)
    Lemma hb_prev_insert st k dbg : D k dbg -> hb st (prev_insert k dbg) (fun prev => forall d, prev = Some d -> D k d).
    Proof.
      intros HD s p [HS HP]. cbv [prev_insert bind get_state set_lprev Lazy.upd modify ret]. split; [split|].
      - exact HS.
      - cbn [l_prev]. constructor; [exact HD|]. unfold prevs_in in *. rewrite Forall_forall in *. intros x Hx. apply filter_In in Hx. apply HP, Hx.
      - unfold prevs_in in HP. induction (l_prev s) as [|[k' d'] l IH]; intros d E; [discriminate|]. inversion HP; subst. cbn [fst snd] in *.
        destruct (elem_key_eqb k k') eqn:Ek.
        + inversion E; subst. apply elem_key_eqb_eq in Ek. subst. assumption.
        + apply IH; assumption.
    Qed.

    Lemma hb_lattr_node_add st n k v prev :
      key_sets st (KNode n k) -> (forall d, prev = Some d -> D (KNode n k) d) -> hb st (lattr_node_add n k v prev (ls_dbg st)) TT.
    Proof.
      intros Hk Hp s p HI. cbv [lattr_node_add bind get_state fail_in panic set_lgraph Lazy.upd modify].
      destruct (gnode_at (l_graph s) n) as [nd|]; [|exact I]. destruct (attrs_add (g_attrs nd) k v) as [m' c]. destruct c.
      - destruct prev as [d|]; [|right; right; right; left; reflexivity].
        right; right; right; right. exists (KNode n k), d. split; [reflexivity|]. split; [exact Hk|apply Hp; reflexivity].
      - split; [exact HI|exact I].
    Qed.
    Lemma hb_lattr_edge_add st a b k v prev :
      key_sets st (KEdge a b k) -> (forall d, prev = Some d -> D (KEdge a b k) d) -> hb st (lattr_edge_add a b k v prev (ls_dbg st)) TT.
    Proof.
      intros Hk Hp s p HI. cbv [lattr_edge_add bind get_state fail fail_in panic set_lgraph Lazy.upd modify].
      destruct (gnode_at (l_graph s) a) as [nd|]; [|exact I]. destruct (edges_get b (g_edges nd)) as [m|]; [|right; left; apply U_base; exact I].
      destruct (attrs_add m k v) as [m' c]. destruct c.
      - destruct prev as [d|]; [|right; right; right; left; reflexivity].
        right; right; right; right. exists (KEdge a b k), d. split; [reflexivity|]. split; [exact Hk|apply Hp; reflexivity].
      - split; [exact HI|exact I].
    Qed.
    Lemma hb_ledge_add st a b ea : hb st (ledge_add a b ea) TT.
    Proof.
      intros s p HI. cbv [ledge_add bind get_state panic set_lgraph Lazy.upd modify].
      destruct (graph_add_edge (l_graph s) a b) as [[g' isnew]|]; [|exact I]. destruct isnew; (split; [exact HI|exact I]).
    Qed.
    Lemma hb_ledge_exists st a b : hb st (ledge_exists a b) TT.
    Proof.
      intros s p HI. cbv [ledge_exists bind get_state panic ret]. destruct (gnode_at (l_graph s) a); [split; [exact HI|exact I]|exact I].
    Qed.

    Lemma hb_gnode st fuel lv : hb st (ctx_wrap CtxOther (eval_as_gnode t fl call fuel lv)) TT.
    Proof. eapply hb_of_ev. apply ev_ctx_other. apply (ev_eval_as_gnode t fl call Hcall). Qed.
    Lemma hb_eval st fuel lv : hb st (eval_lv' fuel lv) TT.
    Proof. eapply hb_of_ev. apply (ev_eval_lv t fl call Hcall). Qed.

    Lemma hb_lstmt_body fuel st : (forall k, key_sets st k -> D k (ls_dbg st)) -> hb st (lstmt_body fuel st) TT.
    Proof.
      intros HD. destruct st as [node attrs dbg|src snk ea dbg|src snk attrs dbg|args dbg]; cbn [lstmt_body].
      - apply hb_bindT; [apply hb_gnode|intros n]. apply hb_iterM. intros a Ha.
        assert (Hk : key_sets (LSAttrNode node attrs dbg) (KNode n (fst a))) by (cbn [key_sets]; apply in_map, Ha).
        apply hb_bindT; [apply hb_eval|intros v]. eapply hb_bind; [apply hb_prev_insert; apply (HD _ Hk)|intros prev Hp].
        apply (hb_lattr_node_add (LSAttrNode node attrs dbg)); assumption.
      - apply hb_bindT; [apply hb_gnode|intros a]. apply hb_bindT; [apply hb_gnode|intros b]. apply hb_ledge_add.
      - apply hb_bindT; [apply hb_gnode|intros a]. apply hb_bindT; [apply hb_gnode|intros b]. apply hb_iterM. intros ak Ha.
        assert (Hk : key_sets (LSAttrEdge src snk attrs dbg) (KEdge a b (fst ak))) by (cbn [key_sets]; apply in_map, Ha).
        apply hb_bindT; [apply hb_eval|intros v]. apply hb_bindT; [apply hb_ledge_exists|intros ex].
        destruct ex; [|apply hb_fail; exact I]. eapply hb_bind; [apply hb_prev_insert; apply (HD _ Hk)|intros prev Hp].
        apply (hb_lattr_edge_add (LSAttrEdge src snk attrs dbg)); assumption.
      - apply hb_iterM. intros a _. destruct a; [|apply hb_ret; exact I]. apply hb_bindT; [apply hb_eval|intros _; apply hb_ret; exact I].
    Qed.

    (* one deferred statement *)
    Definition lerr (st : lstmt) (e : exec_error) : Prop :=
      cancelled e \/
      (exists e1, e = EInContext (CtxStmts [ls_dbg st]) e1 /\ unwrapped e1) \/
      (exists k prev, e = EInContext (CtxStmts [prev; ls_dbg st]) EDuplicateAttribute /\ key_sets st k /\ D k prev) \/
      origin' s0 e.
    Lemma h_eval_lstmt fuel st :
      (forall k, key_sets st k -> D k (ls_dbg st)) -> hoare Iv (eval_lstmt t fl call fuel st) (fun _ s => Iv s) (lerr st).
    Proof.
      intros HD. rewrite eval_lstmt_unfold. intros s p HI. unfold bind at 1, lpoll, poll. destruct (poll_step L_eval_stmt p) as [q c].
      destruct c; [left; exists L_eval_stmt; reflexivity|].
      pose proof (hb_lstmt_body fuel st HD s q HI) as H. unfold ctx_wrap. destruct (lstmt_body fuel st s q) as [[[a s1] p1]|e|x|]; auto.
      - apply H.
      - destruct H as [[l ->]|[Hu|[Ho|[->|(k & prev & -> & Hk & Hp)]]]].
        + left. exists l. reflexivity.
        + right. left. exists e. split; [apply unwrapped_add_stmts, Hu|exact Hu].
        + right. right. right. rewrite (origin_add_context _ _ _ _ _ _ Ho). exact Ho.
        + right. left. exists EDuplicateAttribute. split; [reflexivity|apply U_base; exact I].
        + right. right. left. exists k, prev. auto.
    Qed.
  End Body.

  (* ---------------------------------------------------------------- the whole evaluation phase *)
  Section Phase.
    Variable s0 : lstate.
    Variable init : list (elem_key * stmt_ctx).
    Variable all : list lstmt.

    (* e cites a deferred statement st of `all`; for a conflict the FIRST context is that of an attribute statement of
       `all` evaluated no later than st (or an entry of `init`) that sets the same key *)
    Definition cites_deferred (e : exec_error) : Prop :=
      exists pre st post, all = pre ++ st :: post /\
        ((exists e1, e = EInContext (CtxStmts [ls_dbg st]) e1 /\ unwrapped e1) \/
         (exists k prev, e = EInContext (CtxStmts [prev; ls_dbg st]) EDuplicateAttribute /\ key_sets st k /\ Dall init (pre ++ [st]) k prev)).
    Definition perr (e : exec_error) : Prop := cancelled e \/ unwrapped e \/ cites_deferred e \/ origin' s0 e.
    Notation J L := (inv s0 (prevs_in (Dall init L))).

    Lemma perr_of_eerr top e : eerr t fl call s0 top e -> perr e.
    Proof. intros [H|[[_ H]|H]]; [left; exact H|right; left; exact H|right; right; right; exact H]. Qed.

    Lemma h_eval_seg fuel : forall l before after, all = before ++ l ++ after ->
      hoare (J before) (iterM (eval_lstmt t fl call fuel) l) (fun _ s => J (before ++ l) s) perr.
    Proof.
      induction l as [|x l IH]; intros before after Hall; cbn [iterM].
      - intros s p HI. cbn. rewrite app_nil_r. exact HI.
      - eapply h_bind.
        + eapply h_pre; [|eapply h_err; [|apply (h_eval_lstmt s0 (Dall init (before ++ [x])) fuel x)]].
          * intros s. apply inv_mono. intros pv. apply prevs_in_mono. intros k d. apply Dall_mono. apply incl_appl, incl_refl.
          * intros e [H|[H|[H|H]]].
            -- left. exact H.
            -- right. right. left. exists before, x, (l ++ after). split; [exact Hall|left; exact H].
            -- right. right. left. exists before, x, (l ++ after). split; [exact Hall|right; exact H].
            -- right. right. right. exact H.
          * intros k Hk. right. exists x. split; [apply in_or_app; right; left; reflexivity|]. split; [reflexivity|exact Hk].
        + intros u. cbv beta. replace (before ++ x :: l) with ((before ++ [x]) ++ l) by (rewrite <- app_assoc; reflexivity).
          apply (IH (before ++ [x]) after). rewrite Hall, <- app_assoc. reflexivity.
    Qed.

    Lemma h_of_ev F top A (m : M lstate A) R : ev t fl call s0 F top m R -> hoare (inv s0 F) m (fun _ s => inv s0 F s) perr.
    Proof. intros H. eapply h_post; [|eapply h_err; [|exact H]]; [intros a s [H1 _]; exact H1|apply perr_of_eerr]. Qed.

    Lemma h_store_evaluate_all F fuel : hoare (inv s0 F) (store_evaluate_all t fl call fuel) (fun _ s => inv s0 F s) perr.
    Proof.
      eapply (h_of_ev F true). unfold store_evaluate_all. apply ev_get_bind. intros s1 _. apply ev_iterM. intros i _.
      apply ev_bindT; [apply (ev_force_thunk t fl call Hcall)|intros _; apply ev_ret; exact I].
    Qed.
    Lemma h_scoped_evaluate_all F fuel : hoare (inv s0 F) (scoped_evaluate_all t fl call fuel) (fun _ s => inv s0 F s) perr.
    Proof.
      eapply (h_of_ev F false). unfold scoped_evaluate_all. apply ev_get_bind. intros s1 _. apply ev_iterM. intros name _.
      eapply ev_bind; [apply ev_cell_get|intros c Hc]. destruct c as [cell|]; [|apply ev_ret; exact I].
      apply ev_bindT; [apply ev_cell_set; discriminate|intros _].
      apply ev_bindT; [apply (ev_force_scoped t fl call Hcall); intros ps ->; apply Hc; reflexivity|intros map].
      apply ev_cell_set; discriminate.
    Qed.
  End Phase.

  Theorem evaluate_phase_cites fuel s p e :
    evaluate_phase t fl call fuel s p = Err e ->
    perr s (l_prev s) (l_edges s ++ l_attrs s ++ l_prints s) e.
  Proof.
    intros H. set (all := l_edges s ++ l_attrs s ++ l_prints s). set (init := l_prev s).
    unfold evaluate_phase in H. unfold bind at 1 in H. unfold get_state at 1 in H.
    match type of H with ?m s p = Err e =>
      assert (K : hoare (inv s (prevs_in (Dall init []))) m (fun _ _ => True) (perr s init all)) end.
    { eapply h_bind; [apply (h_eval_seg s init all fuel (l_edges s) [] (l_attrs s ++ l_prints s)); reflexivity|intros u; cbv beta; clear u].
      cbn [app]. eapply h_bind; [apply (h_eval_seg s init all fuel (l_attrs s) (l_edges s) (l_prints s)); reflexivity|intros u; cbv beta; clear u].
      eapply h_bind; [apply (h_eval_seg s init all fuel (l_prints s) (l_edges s ++ l_attrs s) []); rewrite app_nil_r, <- app_assoc; reflexivity|intros u; cbv beta; clear u].
      eapply h_bind; [apply h_store_evaluate_all|intros u; cbv beta; clear u].
      eapply h_post; [|apply h_scoped_evaluate_all]. intros; exact I. }
    specialize (K s p). rewrite H in K. apply K. split; [apply same_dbgs_refl|].
    unfold prevs_in. rewrite Forall_forall. intros [k d] Hx. left. exact Hx.
  Qed.
End CiteStmt.
