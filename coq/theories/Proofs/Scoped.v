(* Proofs/Scoped.v — C04: scoped variables follow node identity and inherit only when declared. *)
From TSG Require Import Model.Strict Model.Lazy Proofs.BaseFacts Proofs.MonadFacts.

(* the chain of proper ancestors, nearest first *)
Fixpoint ancestors (t : tree) (fuel : nat) (p : option N) : list N :=
  match fuel with
  | O => []
  | S f => match p with
           | None => []
           | Some a => a :: ancestors t f (match node_at t a with Some nd => tn_parent nd | None => None end)
           end
  end.
Fixpoint first_some {A B} (f : A -> option B) (l : list A) : option B :=
  match l with [] => None | x :: l' => match f x with Some y => Some y | None => first_some f l' end end.

(* the `while let Some(scope) = parent` loop returns the value at the NEAREST ancestor that has one *)
Lemma ancestor_lookup_nearest t fuel sc p name :
  ancestor_lookup t fuel sc p name = first_some (fun a => scoped_lookup sc a name) (ancestors t fuel p).
Proof.
  revert p. induction fuel as [|f IH]; intros p; cbn [ancestor_lookup ancestors first_some]; [reflexivity|].
  destruct p as [a|]; cbn [first_some]; [|reflexivity]. destruct (scoped_lookup sc a name); [reflexivity|apply IH].
Qed.
Lemma lancestor_lookup_nearest t fuel m p :
  lancestor_lookup t fuel m p = first_some (nmap_get m) (ancestors t fuel p).
Proof.
  revert p. induction fuel as [|f IH]; intros p; cbn [lancestor_lookup ancestors first_some]; [reflexivity|].
  destruct p as [a|]; cbn [first_some]; [|reflexivity]. destruct (nmap_get m a); [reflexivity|apply IH].
Qed.

(* preorder numbering: a parent has a smaller index than its child, so the chain from node n has at
   most n elements and the fuel S (length nodes) never cuts it short *)
Definition tree_wf (t : tree) : Prop :=
  forall n nd p, node_at t n = Some nd -> tn_parent nd = Some p -> (p < n)%N.
Lemma ancestors_fuel_enough t (Hwf : tree_wf t) : forall fuel fuel' a,
  (N.to_nat a < fuel)%nat -> (N.to_nat a < fuel')%nat -> ancestors t fuel (Some a) = ancestors t fuel' (Some a).
Proof.
  induction fuel as [|f IH]; intros fuel' a H1 H2; [lia|]. destruct fuel' as [|f']; [lia|]. cbn [ancestors]. f_equal.
  destruct (node_at t a) as [nd|] eqn:E; [|destruct f, f'; reflexivity].
  destruct (tn_parent nd) as [p|] eqn:Ep; [|destruct f, f'; reflexivity].
  pose proof (Hwf _ _ _ E Ep) as Hlt. apply IH; lia.
Qed.

(* ---- strict store ---- *)
Section StrictScoped.
  Variables (t : tree) (fl : file).

  (* lookup: own map first; then, only if the name is declared `inherit`, the nearest ancestor *)
  Lemma scoped_get_spec n name s p :
    scoped_get_at t fl n name s p =
    match scoped_lookup (s_scoped s) n name with
    | Some v => Ok (v, s, p)
    | None =>
        if inherited fl name then
          match first_some (fun a => scoped_lookup (s_scoped s) a name)
                  (ancestors t (S (length (t_nodes t))) (match node_at t n with Some nd => tn_parent nd | None => None end)) with
          | Some v => Ok (v, s, p)
          | None => Err EUndefinedVariable
          end
        else Err EUndefinedVariable
    end.
  Proof.
    unfold scoped_get_at, bind, get_state. destruct (scoped_lookup (s_scoped s) n name); [reflexivity|].
    destruct (inherited fl name); [|reflexivity]. rewrite ancestor_lookup_nearest.
    destruct (first_some _ _); reflexivity.
  Qed.

  Lemma scopes_get_set sc n f m : scopes_get (scopes_set sc n f) m = if N.eqb m n then Some f else scopes_get sc m.
  Proof.
    induction sc as [|[k g] sc IH]; cbn [scopes_set scopes_get].
    - destruct (N.eqb_spec m n); reflexivity.
    - destruct (N.eqb_spec n k) as [->|Hn]; cbn [scopes_get].
      + destruct (N.eqb_spec m k); reflexivity.
      + rewrite IH. destruct (N.eqb_spec m k) as [->|Hm]; [destruct (N.eqb_spec k n); [congruence|reflexivity]|reflexivity].
  Qed.

  (* definition: a second definition of the same name on the same node is an error and changes nothing;
     a fresh one is visible on that node with that value and invisible from every other node *)
  Lemma scoped_add_spec n name v mut s p :
    match scoped_lookup (s_scoped s) n name with
    | Some _ => scoped_add_at n name v mut s p = Err EDuplicateVariable
    | None => exists s', scoped_add_at n name v mut s p = Ok (tt, s', p) /\
                scoped_lookup (s_scoped s') n name = Some v /\
                (forall n' name', (n', name') <> (n, name) -> scoped_lookup (s_scoped s') n' name' = scoped_lookup (s_scoped s) n' name') /\
                s_graph s' = s_graph s
    end.
  Proof.
    unfold scoped_add_at, scoped_lookup, bind, get_state.
    destruct (scopes_get (s_scoped s) n) as [f|] eqn:E.
    - destruct (alist_get name f) as [[v0 m0]|] eqn:E2; [reflexivity|].
      eexists. split; [reflexivity|]. cbn [s_scoped s_graph]. repeat split.
      + rewrite scopes_get_set, N.eqb_refl, alist_get_app, E2. cbn [alist_get]. rewrite str_eqb_refl. reflexivity.
      + intros n' name' Hne. rewrite scopes_get_set. destruct (N.eqb_spec n' n) as [->|Hn]; [|reflexivity].
        rewrite E, alist_get_app. destruct (alist_get name' f) as [[v1 m1]|] eqn:E3; [reflexivity|]. cbn [alist_get].
        destruct (str_eqb_spec name' name) as [->|Hs]; [exfalso; apply Hne; reflexivity|reflexivity].
    - eexists. split; [reflexivity|]. cbn [s_scoped s_graph]. repeat split.
      + rewrite scopes_get_set, N.eqb_refl. cbn [app alist_get]. rewrite str_eqb_refl. reflexivity.
      + intros n' name' Hne. rewrite scopes_get_set. destruct (N.eqb_spec n' n) as [->|Hn]; [|reflexivity].
        rewrite E. cbn [app alist_get]. destruct (str_eqb_spec name' name) as [->|Hs]; [exfalso; apply Hne; reflexivity|reflexivity].
  Qed.
End StrictScoped.

(* ---- lazy store: forcing the collected definitions ---- *)
Section LazyScoped.
  Variables (t : tree) (fl : file).
  (* scope expressions that evaluate without effect to the nodes given by `node_of` *)
  Variable node_of : lvalue -> N.
  Definition pure_ev (sc : lvalue) : M lstate N := ret (node_of sc).

  Fixpoint build (ps : list (lvalue * lvalue * stmt_ctx)) (values : list (N * lvalue)) (dbgs : list (N * stmt_ctx))
    : (list (N * lvalue)) + (stmt_ctx * stmt_ctx) :=
    match ps with
    | [] => inl values
    | (sc, v, dbg) :: ps' =>
        match nmap_get values (node_of sc), dbg_get dbgs (node_of sc) with
        | Some _, Some prev => inr (prev, dbg)
        | Some _, None => inl []                       (* unreachable when values/dbgs have the same keys *)
        | None, _ => build ps' (values ++ [(node_of sc, v)]) (dbgs ++ [(node_of sc, dbg)])
        end
    end.

  Lemma force_pairs_spec ps : forall values dbgs s p,
    (forall n, nmap_get values n <> None -> dbg_get dbgs n <> None) ->
    force_pairs pure_ev ps values dbgs s p =
    match build ps values dbgs with
    | inl m => Ok (m, s, p)
    | inr (prev, dbg) => Err (EInContext (CtxStmts [prev; dbg]) EDuplicateVariable)
    end.
  Proof.
    induction ps as [|[[sc v] dbg] ps IH]; intros values dbgs s p Hk; cbn [force_pairs build]; [reflexivity|].
    unfold bind, ctx_wrap, pure_ev, ret.
    destruct (nmap_get values (node_of sc)) eqn:E1.
    - destruct (dbg_get dbgs (node_of sc)) eqn:E2; [reflexivity|]. exfalso. apply (Hk (node_of sc)); congruence.
    - apply IH. intros n Hn. assert (Hg : forall (l : list (N * lvalue)) k x, nmap_get (l ++ [(k, x)]) n = match nmap_get l n with Some y => Some y | None => if N.eqb n k then Some x else None end).
      { induction l as [|[k0 x0] l IHl]; intros k x; cbn [app nmap_get]; [reflexivity|]. destruct (N.eqb n k0); [reflexivity|apply IHl]. }
      assert (Hd : forall (l : list (N * stmt_ctx)) k x, dbg_get (l ++ [(k, x)]) n = match dbg_get l n with Some y => Some y | None => if N.eqb n k then Some x else None end).
      { induction l as [|[k0 x0] l IHl]; intros k x; cbn [app dbg_get]; [reflexivity|]. destruct (N.eqb n k0); [reflexivity|apply IHl]. }
      rewrite Hg in Hn. rewrite Hd. destruct (nmap_get values n) eqn:E3.
      + specialize (Hk n). rewrite E3 in Hk. destruct (dbg_get dbgs n); [discriminate|]. exfalso. apply Hk; [discriminate|reflexivity].
      + destruct (dbg_get dbgs n); [discriminate|]. destruct (N.eqb n (node_of sc)); [discriminate|contradiction].
  Qed.

  (* the forced map holds, per node, the FIRST collected definition; it exists for exactly the defined nodes *)
  Lemma build_lookup ps : forall values dbgs m n,
    build ps values dbgs = inl m ->
    (forall k, nmap_get values k <> None -> dbg_get dbgs k <> None) ->
    nmap_get m n = match nmap_get values n with
                   | Some x => Some x
                   | None => first_some (fun q : lvalue * lvalue * stmt_ctx => if N.eqb n (node_of (fst (fst q))) then Some (snd (fst q)) else None) ps
                   end.
  Proof.
    induction ps as [|[[sc v] dbg] ps IH]; intros values dbgs m n H Hk; cbn [build first_some fst snd] in *.
    - inversion H; subst. destruct (nmap_get m n); reflexivity.
    - destruct (nmap_get values (node_of sc)) eqn:E1.
      + destruct (dbg_get dbgs (node_of sc)) eqn:E2; [discriminate|]. exfalso. apply (Hk (node_of sc)); congruence.
      + assert (Hg : forall (l : list (N * lvalue)) k x j, nmap_get (l ++ [(k, x)]) j = match nmap_get l j with Some y => Some y | None => if N.eqb j k then Some x else None end).
        { induction l as [|[k0 x0] l IHl]; intros k x j; cbn [app nmap_get]; [reflexivity|]. destruct (N.eqb j k0); [reflexivity|apply IHl]. }
        assert (Hd : forall (l : list (N * stmt_ctx)) k x j, dbg_get (l ++ [(k, x)]) j = match dbg_get l j with Some y => Some y | None => if N.eqb j k then Some x else None end).
        { induction l as [|[k0 x0] l IHl]; intros k x j; cbn [app dbg_get]; [reflexivity|]. destruct (N.eqb j k0); [reflexivity|apply IHl]. }
        rewrite (IH _ _ _ n H).
        * rewrite Hg. destruct (nmap_get values n) eqn:E3; [reflexivity|]. destruct (N.eqb_spec n (node_of sc)); [reflexivity|reflexivity].
        * intros k Hn. rewrite Hg in Hn. rewrite Hd. destruct (nmap_get values k) eqn:E3.
          -- specialize (Hk k). rewrite E3 in Hk. destruct (dbg_get dbgs k); [discriminate|]. exfalso. apply Hk; [discriminate|reflexivity].
          -- destruct (dbg_get dbgs k); [discriminate|]. destruct (N.eqb k (node_of sc)); [discriminate|contradiction].
  Qed.

  (* forcing succeeds exactly when no two collected definitions evaluate to the same node; otherwise it is
     a DuplicateVariable error (never a silent overwrite) *)
  Definition same_keys (values : list (N * lvalue)) (dbgs : list (N * stmt_ctx)) : Prop :=
    forall n, nmap_get values n = None <-> dbg_get dbgs n = None.
  Notation nodes_of ps := (map (fun q : lvalue * lvalue * stmt_ctx => node_of (fst (fst q))) ps).

  Lemma nmap_get_snoc (l : list (N * lvalue)) k x j :
    nmap_get (l ++ [(k, x)]) j = match nmap_get l j with Some y => Some y | None => if N.eqb j k then Some x else None end.
  Proof. induction l as [|[k0 x0] l IHl]; cbn [app nmap_get]; [reflexivity|]. destruct (N.eqb j k0); [reflexivity|apply IHl]. Qed.
  Lemma dbg_get_snoc (l : list (N * stmt_ctx)) k x j :
    dbg_get (l ++ [(k, x)]) j = match dbg_get l j with Some y => Some y | None => if N.eqb j k then Some x else None end.
  Proof. induction l as [|[k0 x0] l IHl]; cbn [app dbg_get]; [reflexivity|]. destruct (N.eqb j k0); [reflexivity|apply IHl]. Qed.

  Lemma build_ok_iff ps : forall values dbgs, same_keys values dbgs ->
    ((exists m, build ps values dbgs = inl m) <-> (NoDup (nodes_of ps) /\ forall n, In n (nodes_of ps) -> nmap_get values n = None)).
  Proof.
    induction ps as [|[[sc v] dbg] ps IH]; intros values dbgs Hk; cbn [build map fst].
    - split; [intros _; split; [constructor|intros n []]|intros _; eauto].
    - destruct (nmap_get values (node_of sc)) eqn:E1.
      + assert (E2 : dbg_get dbgs (node_of sc) <> None) by (intros H; apply Hk in H; congruence).
        destruct (dbg_get dbgs (node_of sc)); [|contradiction]. split; [intros [m H]; discriminate|].
        intros [_ H]. specialize (H (node_of sc) (or_introl eq_refl)). congruence.
      + assert (Hk' : same_keys (values ++ [(node_of sc, v)]) (dbgs ++ [(node_of sc, dbg)])).
        { intros n. rewrite nmap_get_snoc, dbg_get_snoc. specialize (Hk n).
          destruct (nmap_get values n), (dbg_get dbgs n), (N.eqb n (node_of sc)); try tauto; split; intros; try discriminate; try (apply Hk in H; discriminate);
          try (apply Hk; assumption); try reflexivity. all: destruct Hk as [A B]; try (specialize (A eq_refl); discriminate); try (specialize (B eq_refl); discriminate). }
        rewrite (IH _ _ Hk'). split.
        * intros [Hnd Hin]. split.
          -- constructor; [|exact Hnd]. intros Hi. specialize (Hin _ Hi). rewrite nmap_get_snoc, E1, N.eqb_refl in Hin. discriminate.
          -- intros n [<-|Hi]; [exact E1|]. specialize (Hin _ Hi). rewrite nmap_get_snoc in Hin. destruct (nmap_get values n); [discriminate|reflexivity].
        * intros [Hnd Hin]. inversion Hnd as [|? ? Hnot Hnd']; subst. split; [exact Hnd'|].
          intros n Hi. rewrite nmap_get_snoc, (Hin n (or_intror Hi)). destruct (N.eqb_spec n (node_of sc)) as [->|]; [contradiction|reflexivity].
  Qed.
End LazyScoped.
