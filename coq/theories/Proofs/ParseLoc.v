(* Proofs/ParseLoc.v — how the LOCATION of the parser state moves (Model/Parser.v), for every function of the parser up to
   expressions, attributes and conditions; together with "the identifiers in the result contain no character below U+0020".

   loc_le / loc_lt: the lexicographic order on (row, column).  Every consumed character moves the location strictly up
   (advance_lt); every parser function returns, when it returns Ok, a state whose location is >= the one it started at
   (`mp P m`: monotone, and the result satisfies P); parse_name moves it strictly (parse_name_lt).
   No fuel hypothesis: only Ok results are described.
   `within lo L hi`: the list of locations L is strictly increasing and lies in [lo, hi) — the invariant of the statement
   level (Proofs/ParseLocStmt.v). *)
From TSG Require Import Model.AstDisplay.
From TSG Require Import Model.Parser Proofs.BaseFacts.

(* ------------------------------------------------------------------ the order on locations *)
Definition loc_le (a b : loc) : Prop := fst a < fst b \/ (fst a = fst b /\ snd a <= snd b).
Definition loc_lt (a b : loc) : Prop := fst a < fst b \/ (fst a = fst b /\ snd a < snd b).
Definition loc_succ (a : loc) : loc := (fst a, snd a + 1).

Lemma loc_le_refl a : loc_le a a.
Proof. unfold loc_le. lia. Qed.
Lemma loc_le_trans a b c : loc_le a b -> loc_le b c -> loc_le a c.
Proof. unfold loc_le. lia. Qed.
Lemma loc_lt_le a b : loc_lt a b -> loc_le a b.
Proof. unfold loc_le, loc_lt. lia. Qed.
Lemma loc_lt_le_trans a b c : loc_lt a b -> loc_le b c -> loc_lt a c.
Proof. unfold loc_le, loc_lt. lia. Qed.
Lemma loc_le_lt_trans a b c : loc_le a b -> loc_lt b c -> loc_lt a c.
Proof. unfold loc_le, loc_lt. lia. Qed.
Lemma loc_lt_succ a b : loc_lt a b -> loc_le (loc_succ a) b.
Proof. unfold loc_lt, loc_le, loc_succ. cbn [fst snd]. lia. Qed.
Lemma loc_succ_lt a b : loc_le (loc_succ a) b -> loc_lt a b.
Proof. unfold loc_lt, loc_le, loc_succ. cbn [fst snd]. lia. Qed.
Lemma loc_le_succ a : loc_le a (loc_succ a).
Proof. unfold loc_le, loc_succ. cbn [fst snd]. lia. Qed.
Lemma loc_lt_irrefl a : ~ loc_lt a a.
Proof. unfold loc_lt. lia. Qed.

(* ------------------------------------------------------------------ strictly increasing lists of locations in [lo, hi) *)
Fixpoint within (lo : loc) (L : list loc) (hi : loc) : Prop :=
  match L with
  | [] => loc_le lo hi
  | x :: r => loc_le lo x /\ within (loc_succ x) r hi
  end.

Lemma within_weaken_l lo lo' L hi : loc_le lo' lo -> within lo L hi -> within lo' L hi.
Proof.
  destruct L as [|x r]; cbn [within]; intros H1 H2; [eapply loc_le_trans; eassumption|].
  destruct H2 as [H2 H3]. split; [eapply loc_le_trans; eassumption|exact H3].
Qed.
Lemma within_weaken_r L : forall lo hi hi', within lo L hi -> loc_le hi hi' -> within lo L hi'.
Proof.
  induction L as [|x r IH]; cbn [within]; intros lo hi hi' H1 H2; [eapply loc_le_trans; eassumption|].
  destruct H1 as [H1 H3]. split; [exact H1|eapply IH; eassumption].
Qed.
Lemma within_app L1 : forall lo mid L2 hi, within lo L1 mid -> within mid L2 hi -> within lo (L1 ++ L2) hi.
Proof.
  induction L1 as [|x r IH]; cbn [within app]; intros lo mid L2 hi H1 H2; [eapply within_weaken_l; eassumption|].
  destruct H1 as [H1 H3]. split; [exact H1|eapply IH; eassumption].
Qed.
Lemma within_le L : forall lo hi, within lo L hi -> loc_le lo hi.
Proof.
  induction L as [|x r IH]; cbn [within]; intros lo hi H; [exact H|]. destruct H as [H1 H2].
  eapply loc_le_trans; [exact H1|]. eapply loc_le_trans; [apply loc_le_succ|apply IH; exact H2].
Qed.
Lemma within_ge L : forall lo hi y, within lo L hi -> In y L -> loc_le lo y.
Proof.
  induction L as [|x r IH]; cbn [within In]; intros lo hi y H Hin; [contradiction|]. destruct H as [H1 H2].
  destruct Hin as [<-|Hin]; [exact H1|]. eapply loc_le_trans; [exact H1|].
  eapply loc_le_trans; [apply loc_le_succ|eapply IH; eassumption].
Qed.
Lemma within_lt L : forall lo hi y, within lo L hi -> In y L -> loc_lt y hi.
Proof.
  induction L as [|x r IH]; cbn [within In]; intros lo hi y H Hin; [contradiction|]. destruct H as [H1 H2].
  destruct Hin as [<-|Hin]; [apply loc_succ_lt; eapply within_le; exact H2|eapply IH; eassumption].
Qed.
Lemma within_distinct L : forall lo hi, within lo L hi -> locs_distinct L = true.
Proof.
  induction L as [|x r IH]; cbn [within locs_distinct]; intros lo hi H; [reflexivity|]. destruct H as [H1 H2].
  rewrite (IH _ _ H2), andb_true_r. apply negb_true_iff.
  destruct (existsb (loc_eqb x) r) eqn:E; [|reflexivity]. exfalso.
  apply existsb_exists in E. destruct E as [y [Hin Heq]].
  assert (x = y).
  { destruct x as [x1 x2], y as [y1 y2]. unfold loc_eqb in Heq. cbn [fst snd] in Heq.
    apply andb_true_iff in Heq. destruct Heq as [Ha Hb]. apply N.eqb_eq in Ha, Hb. congruence. }
  subst y. apply (loc_lt_irrefl x). apply loc_succ_lt. eapply within_ge; eassumption.
Qed.

(* ------------------------------------------------------------------ Ok-results of the parser monad *)
Definition okp {A} (P : A -> pst -> Prop) (r : pr A) : Prop :=
  match r with ROk a s' => P a s' | _ => True end.

(* m moves the location monotonically and its result satisfies P *)
Definition mp {A} (P : A -> Prop) (m : M A) : Prop :=
  forall s, okp (fun a s' => loc_le (p_loc s) (p_loc s') /\ P a) (m s).
Notation mt := (mp (fun _ => True)).

Lemma mp_inv {A} (P : A -> Prop) (m : M A) s a s' : mp P m -> m s = ROk a s' -> loc_le (p_loc s) (p_loc s') /\ P a.
Proof. intros H E. specialize (H s). rewrite E in H. exact H. Qed.

Lemma mp_bind {A B} (P : A -> Prop) (Q : B -> Prop) (m : M A) (f : A -> M B) :
  mp P m -> (forall a, P a -> mp Q (f a)) -> mp Q (bind m f).
Proof.
  intros Hm Hf s. unfold bind. specialize (Hm s). destruct (m s) as [a s1| | | |]; cbn [okp] in *; auto.
  destruct Hm as [Hl Hp]. specialize (Hf a Hp s1). destruct (f a s1) as [b s2| | | |]; cbn [okp] in *; auto.
  destruct Hf as [Hl2 Hq]. split; [eapply loc_le_trans; eassumption|exact Hq].
Qed.
Lemma mp_if_ok {A B} (P : A -> Prop) (Q : B -> Prop) (m : M A) (th el : M B) :
  mp P m -> mp Q th -> mp Q el -> mp Q (if_ok m th el).
Proof.
  intros Hm Ht He s. unfold if_ok. specialize (Hm s). destruct (m s) as [a s1| | | |]; cbn [okp] in *; auto.
  destruct Hm as [Hl _]. specialize (Ht s1). destruct (th s1) as [b s2| | | |]; cbn [okp] in *; auto.
  destruct Ht as [Hl2 Hq]. split; [eapply loc_le_trans; eassumption|exact Hq].
Qed.
Lemma mp_ret {A} (P : A -> Prop) a : P a -> mp P (ret a).
Proof. intros H s. cbn [okp ret]. split; [apply loc_le_refl|exact H]. Qed.
Lemma mp_fail {A} (P : A -> Prop) e : mp P (fail e).
Proof. intros s. exact I. Qed.
Lemma mp_weaken {A} (P Q : A -> Prop) m : mp P m -> (forall a, P a -> Q a) -> mp Q m.
Proof. intros H HPQ s. specialize (H s). destruct (m s); cbn [okp] in *; auto. destruct H; split; auto. Qed.
Lemma mp_eta {A} (P : A -> Prop) (m : M A) : mp P m -> mp P (fun s => m s).
Proof. intros H s. apply H. Qed.
Lemma okp_here {A} (P : A -> Prop) a s : P a -> okp (fun a s' => loc_le (p_loc s) (p_loc s') /\ P a) (ROk a s).
Proof. intros H. cbn [okp]. split; [apply loc_le_refl|exact H]. Qed.

(* ------------------------------------------------------------------ primitives *)
Lemma advance_lt s c r : loc_lt (p_loc s) (p_loc (advance s c r)).
Proof. unfold advance, p_loc, loc_lt. cbn [p_row p_col fst snd]. destruct (c =? 10); lia. Qed.

Lemma get_loc_mp : mt get_loc.
Proof. intros s. apply okp_here. exact I. Qed.
Lemma get_off_mp : mt get_off.
Proof. intros s. apply okp_here. exact I. Qed.
Lemma peek_mp : mt peek.
Proof. intros s. unfold peek. destruct (p_rest s); [exact I|apply okp_here; exact I]. Qed.
Lemma try_peek_mp : mt try_peek.
Proof. intros s. apply okp_here. exact I. Qed.
Lemma next_mp : mt next.
Proof.
  intros s. unfold next. destruct (p_rest s) as [|c r]; [exact I|]. cbn [okp].
  split; [apply loc_lt_le, advance_lt|exact I].
Qed.
Lemma skip_unwrap_mp site : mt (skip_unwrap site).
Proof.
  intros s. unfold skip_unwrap, next. destruct (p_rest s) as [|c r]; [exact I|]. cbn [okp].
  split; [apply loc_lt_le, advance_lt|exact I].
Qed.
Lemma consume_n_mp n : mt (consume_n n).
Proof.
  induction n as [|n IH]; cbn [consume_n]; [apply mp_ret; exact I|].
  eapply mp_bind; [apply next_mp|]. intros _ _. exact IH.
Qed.
Lemma consume_token_mp tok : mt (consume_token tok).
Proof. intros s. unfold consume_token. destruct (starts_with tok (p_rest s)); [apply consume_n_mp|exact I]. Qed.

Create HintDb mp discriminated.
#[export] Hint Resolve get_loc_mp get_off_mp peek_mp try_peek_mp next_mp skip_unwrap_mp consume_n_mp consume_token_mp : mp.

(* one structural step; leaves are closed from the hint database *)
Ltac mleaf := solve [eauto 3 with mp nocore].
Ltac mstep :=
  lazymatch goal with
  | |- mp _ (bind _ _) => eapply mp_bind; [mleaf|intros ? ?]
  | |- mp _ (if_ok _ _ _) => eapply mp_if_ok; [mleaf| |]
  | |- mp _ (ret _) => apply mp_ret
  | |- mp _ (fail _) => apply mp_fail
  | |- mp _ (fun _ => RMiss) => intros ?; exact I
  | |- mp _ (fun _ => RPanic _) => intros ?; exact I
  end.

Ltac mapp s := refine ((_ : mp _ _) s).
Tactic Notation "mbind" ident(x) ident(H) := eapply mp_bind; [mleaf|intros x H].

(* ------------------------------------------------------------------ identifier characters are not control characters *)
Ltac boolhyps :=
  repeat match goal with
         | H : (_ || _) = true |- _ => apply orb_true_iff in H; destruct H as [H|H]
         | H : (_ && _) = true |- _ => apply andb_true_iff in H; destruct H as [? H]
         | H : (_ =? _) = true |- _ => apply N.eqb_eq in H
         | H : (_ <=? _) = true |- _ => apply N.leb_le in H
         end.

Ltac fbsolve :=
  rewrite ?forallb_app; cbn [forallb]; repeat (apply andb_true_iff; split); try assumption; try reflexivity.

Section Loc.
  Variable X : ext.
  Variable F : nat.

  Lemma is_ident_ge32 c : is_ident X c = true -> (32 <=? c) = true.
  Proof.
    unfold is_ident, is_alphanumeric, ascii_alpha, ascii_digit. intros H. apply N.leb_le.
    destruct (N.ltb_spec c 128) as [Hc|Hc]; [|lia]. boolhyps; lia.
  Qed.
  Lemma is_ident_start_ge32 c : is_ident_start X c = true -> (32 <=? c) = true.
  Proof.
    unfold is_ident_start, is_alphabetic, ascii_alpha. intros H. apply N.leb_le.
    destruct (N.ltb_spec c 128) as [Hc|Hc]; [|lia]. boolhyps; lia.
  Qed.
  Lemma forallb_is_ident_clean t : forallb (is_ident X) t = true -> clean_strb t = true.
  Proof.
    unfold clean_strb. induction t as [|c t IH]; cbn [forallb]; [reflexivity|]. intros H.
    apply andb_true_iff in H. destruct H as [H1 H2]. rewrite (is_ident_ge32 _ H1), (IH H2). reflexivity.
  Qed.

  (* ---------------------------------------------------------------- scanning loops *)
  Lemma ws_loop_mp k : forall ic, mt (ws_loop X k ic).
  Proof.
    induction k as [|k IH]; intros ic s; cbn [ws_loop]; [exact I|].
    destruct (p_rest s) as [|ch r] eqn:E; [apply okp_here; exact I|].
    assert (Hstep : forall b, okp (fun _ s' => loc_le (p_loc s) (p_loc s') /\ True) ((skip_unwrap 1 ;;; ws_loop X k b) s)).
    { intros b. apply (mp_bind _ _ _ _ (skip_unwrap_mp 1) (fun _ _ => IH b)). }
    destruct ic; [apply Hstep|]. destruct (ch =? 59); [apply Hstep|].
    destruct (negb (is_whitespace X ch)); [apply okp_here; exact I|apply Hstep].
  Qed.
  Lemma consume_whitespace_mp : mt (consume_whitespace X F).
  Proof. apply ws_loop_mp. Qed.

  Lemma while_loop_mp f k : mp (fun l => forallb f l = true) (while_loop f k).
  Proof.
    induction k as [|k IH]; intros s; cbn [while_loop]; [exact I|].
    destruct (p_rest s) as [|ch r] eqn:E; [apply okp_here; reflexivity|].
    destruct (f ch) eqn:Hf; [|apply okp_here; reflexivity].
    refine (mp_bind _ _ _ _ (skip_unwrap_mp 2) (fun _ _ => _) s).
    eapply mp_bind; [exact IH|]. intros l Hl. apply mp_ret. cbn [forallb]. rewrite Hf, Hl. reflexivity.
  Qed.
  Lemma consume_while_mp f : mp (fun l => forallb f l = true) (consume_while F f).
  Proof. apply while_loop_mp. Qed.

  Lemma consume_keyword_mp kw : mt (consume_keyword X kw).
  Proof. intros s. unfold consume_keyword. destruct (_ && _); [apply consume_n_mp|exact I]. Qed.

  Hint Resolve consume_whitespace_mp consume_while_mp consume_keyword_mp : mp.

  (* ---------------------------------------------------------------- names *)
  Lemma parse_name_mp w : mp (fun n => clean_strb n = true) (parse_name X F w).
  Proof.
    unfold parse_name. mstep. destruct (negb (is_ident_start X a)) eqn:Hs.
    - mstep. mstep.
    - mstep. mstep. apply negb_false_iff in Hs. unfold clean_strb. cbn [forallb].
      rewrite (is_ident_start_ge32 _ Hs). apply forallb_is_ident_clean. assumption.
  Qed.
  Lemma parse_name_lt w s n s' : parse_name X F w s = ROk n s' -> loc_lt (p_loc s) (p_loc s').
  Proof.
    unfold parse_name, bind, next. destruct (p_rest s) as [|c r]; [discriminate|].
    destruct (negb (is_ident_start X c)); [discriminate|].
    destruct (consume_while F (is_ident X) (advance s c r)) as [l s1| | | |] eqn:E; try discriminate.
    unfold ret. intros H. injection H as _ <-.
    eapply loc_lt_le_trans; [apply advance_lt|]. exact (proj1 (mp_inv _ _ _ _ _ (consume_while_mp _) E)).
  Qed.
  Hint Resolve parse_name_mp : mp.

  Lemma string_loop_mp k : forall esc, mt (string_loop k esc).
  Proof.
    induction k as [|k IH]; intros esc; [intros s; exact I|].
    change (string_loop (S k) esc) with
      (ch <- next ;;
       if esc then
         (v <- string_loop k false ;;
          ret ((if ch =? 48 then 0 else if ch =? 110 then 10 else if ch =? 114 then 13
                else if ch =? 116 then 9 else ch) :: v))
       else if ch =? 34 then ret []
       else if ch =? 92 then string_loop k true
       else (v <- string_loop k false ;; ret (ch :: v))).
    mstep. destruct esc.
    - eapply mp_bind; [apply IH|]. intros; mstep; exact I.
    - destruct (a =? 34); [mstep; exact I|]. destruct (a =? 92); [apply IH|].
      eapply mp_bind; [apply IH|]. intros; mstep; exact I.
  Qed.
  Lemma parse_string_mp : mt (parse_string F).
  Proof. unfold parse_string. mstep. apply string_loop_mp. Qed.
  Hint Resolve parse_string_mp : mp.

  Lemma parse_quantifier_mp : mt parse_quantifier.
  Proof.
    intros s. unfold parse_quantifier.
    destruct (match p_rest s with [] => None | c :: _ => quantifier_of c end); [|apply okp_here; exact I].
    refine (mp_bind _ _ _ _ (skip_unwrap_mp 3) (fun _ _ => _) s). mstep. exact I.
  Qed.
  Hint Resolve parse_quantifier_mp : mp.

  Lemma parse_global_mp : mt (parse_global X F).
  Proof.
    unfold parse_global. mstep. mstep. mstep. mstep. eapply mp_bind with (P := fun _ => True).
    - mstep; [|mstep; exact I]. mstep. mstep. mstep. exact I.
    - intros d _. mstep. exact I.
  Qed.

  Lemma skip_query_loop_mp k : forall a b c, mt (skip_query_loop k a b c).
  Proof.
    induction k as [|k IH]; intros a b c; [intros s; exact I|].
    cbn [skip_query_loop]. apply mp_eta. mstep. cbv zeta.
    assert (Hstep : forall a b c, mt (skip_unwrap 4 ;;; l <- skip_query_loop k a b c ;; ret (a0 :: l))).
    { intros a' b' c'. mstep. eapply mp_bind; [apply IH|]. intros; mstep; exact I. }
    destruct b; [apply Hstep|]. destruct a.
    { destruct (a0 =? 92); [apply Hstep|]. destruct ((a0 =? 34) || (a0 =? 10)); apply Hstep. }
    destruct c; [apply Hstep|]. destruct (a0 =? 34); [apply Hstep|].
    destruct (a0 =? 123); [mstep; exact I|]. destruct (a0 =? 59); apply Hstep.
  Qed.
  Lemma skip_query_mp : mt (skip_query F).
  Proof. apply skip_query_loop_mp. Qed.
  Hint Resolve skip_query_mp : mp.

  Lemma parse_query_mp : mt (parse_query X F).
  Proof.
    unfold parse_query. mstep. mstep. mstep. mstep.
    destruct (x_query X a0 a2) as [[n fm|r c o]|]; [|mstep|mstep].
    destruct (1 <? n); [mstep|]. destruct fm; [mstep; exact I|mstep].
  Qed.

  (* ---------------------------------------------------------------- identifiers of expressions *)
  Definition ec (e : expr) : Prop := forallb clean_strb (expr_names e) = true.
  Definition ecs (l : list expr) : Prop := forallb clean_strb (flat_map expr_names l) = true.
  Definition vc (v : variable) : Prop := forallb clean_strb (variable_names v) = true.

  Lemma ecs_cons e l : ec e -> ecs l -> ecs (e :: l).
  Proof. unfold ec, ecs. cbn [flat_map]. intros H1 H2. fbsolve. Qed.
  Lemma ecs_nil : ecs [].
  Proof. reflexivity. Qed.
  Lemma ec_scoped e n l : ec e -> clean_strb n = true -> ec (EScoped e n l).
  Proof. unfold ec. cbn [expr_names]. intros H1 H2. fbsolve. Qed.
  Lemma ec_comp_list el v vl value l : ec el -> clean_strb v = true -> ec value -> ec (EListComp el v vl value l).
  Proof. unfold ec. cbn [expr_names]. intros H1 H2 H3. fbsolve. Qed.
  Lemma ec_comp_set el v vl value l : ec el -> clean_strb v = true -> ec value -> ec (ESetComp el v vl value l).
  Proof. unfold ec. cbn [expr_names]. intros H1 H2 H3. fbsolve. Qed.

  Lemma parse_capture_mp : mp ec (parse_capture X F).
  Proof.
    unfold parse_capture. mstep. mstep. mstep. destruct (negb (is_ident_start X a1)) eqn:Hs.
    - mstep. mstep.
    - mstep. mstep. apply negb_false_iff in Hs. unfold ec, clean_strb. cbn [expr_names forallb].
      rewrite (is_ident_start_ge32 _ Hs). rewrite andb_true_r. apply forallb_is_ident_clean. assumption.
  Qed.
  Lemma parse_integer_constant_mp : mp ec (parse_integer_constant F).
  Proof.
    unfold parse_integer_constant. mstep. mstep. destruct (from_str_radix10 u32_max a0); mstep. reflexivity.
  Qed.
  Lemma parse_literal_mp : mp ec (parse_literal X F).
  Proof.
    unfold parse_literal. mstep. mstep. mstep.
    destruct (str_eqb a1 t_false); [mstep; reflexivity|]. destruct (str_eqb a1 t_null); [mstep; reflexivity|].
    destruct (str_eqb a1 t_true); mstep. reflexivity.
  Qed.
  Lemma parse_regex_capture_mp : mp ec (parse_regex_capture F).
  Proof.
    unfold parse_regex_capture. mstep. mstep. mstep. destruct (from_str_radix10 usize_max a1); mstep. reflexivity.
  Qed.

  Lemma parse_variable_with_mp (pe : M expr) : mp ec pe -> mp vc (parse_variable_with pe).
  Proof.
    intros Hpe. unfold parse_variable_with. mstep. eapply mp_bind; [exact Hpe|]. intros e He.
    destruct e; cbn [expr_as_variable]; mstep; exact He.
  Qed.
  Lemma parse_unscoped_variable_with_mp (pe : M expr) :
    mp ec pe -> mp (fun p => clean_strb (fst p) = true) (parse_unscoped_variable_with pe).
  Proof.
    intros Hpe. unfold parse_unscoped_variable_with.
    eapply mp_bind; [apply parse_variable_with_mp; exact Hpe|]. intros v Hv. destruct v; mstep.
    unfold vc in Hv. cbn [variable_names forallb fst] in *. apply andb_true_iff in Hv. apply Hv.
  Qed.

  Section ExprLoc.
    Variable rec : M expr.
    Hypothesis Hrec : mp ec rec.

    Lemma call_loop_mp k : mp ecs (call_loop X F rec k).
    Proof.
      induction k as [|k IH]; [intros s; exact I|]. cbn [call_loop]. apply mp_eta.
      mstep. destruct (a =? 41); [mstep; apply ecs_nil|].
      eapply mp_bind; [exact Hrec|]. intros e He. mstep.
      eapply mp_bind; [exact IH|]. intros l Hl. mstep. apply ecs_cons; assumption.
    Qed.
    Lemma parse_call_mp : mp ec (parse_call X F rec).
    Proof.
      unfold parse_call. mstep. mstep. mstep. mstep.
      eapply mp_bind; [apply call_loop_mp|]. intros l Hl. mstep. mstep.
      unfold ec, ecs in *. cbn [expr_names]. fbsolve.
    Qed.

    Lemma sequence_loop_mp e k : mp ecs (sequence_loop X F rec e k).
    Proof.
      induction k as [|k IH]; [intros s; exact I|]. cbn [sequence_loop]. apply mp_eta.
      mstep. destruct (a =? e); [mstep; apply ecs_nil|].
      eapply mp_bind; [exact Hrec|]. intros e1 He1. mstep. mbind ch2 Hch2.
      eapply mp_bind with (P := fun _ => True).
      { destruct (ch2 =? e); [mstep; exact I|]. mstep. apply consume_whitespace_mp. }
      intros _ _. eapply mp_bind; [exact IH|]. intros l Hl. mstep. apply ecs_cons; assumption.
    Qed.

    Lemma parse_collection_mp op cl cc (lit : list expr -> expr) (comp : expr -> ident -> loc -> expr -> loc -> expr) :
      (forall es, ecs es -> ec (lit es)) ->
      (forall el v vl value l, ec el -> clean_strb v = true -> ec value -> ec (comp el v vl value l)) ->
      mp ec (parse_collection X F rec op cl cc lit comp).
    Proof.
      intros Hlit Hcomp. unfold parse_collection. mstep. mstep. mstep.
      mstep; [mstep; apply Hlit, ecs_nil|].
      eapply mp_bind; [exact Hrec|]. intros e1 He1. mstep.
      mstep; [mstep; apply Hlit, ecs_cons; [exact He1|apply ecs_nil]|].
      mstep.
      - mstep. eapply mp_bind; [apply sequence_loop_mp|]. intros l Hl. mstep. mstep. mstep.
        apply Hlit, ecs_cons; assumption.
      - mstep. mstep.
        eapply mp_bind; [apply parse_unscoped_variable_with_mp; exact Hrec|]. intros v Hv.
        mstep. mstep. mstep. eapply mp_bind; [exact Hrec|]. intros e2 He2. mstep. mstep. mstep.
        apply Hcomp; assumption.
    Qed.
    Lemma parse_list_mp : mp ec (parse_list X F rec).
    Proof. apply parse_collection_mp; [intros es H; exact H|apply ec_comp_list]. Qed.
    Lemma parse_set_mp : mp ec (parse_set X F rec).
    Proof. apply parse_collection_mp; [intros es H; exact H|apply ec_comp_set]. Qed.

    Lemma suffix_loop_mp k : forall e, ec e -> mp ec (suffix_loop X F k e).
    Proof.
      induction k as [|k IH]; intros e He s; cbn [suffix_loop]; [exact I|].
      destruct (peek_is 46 s); [|apply okp_here; exact He].
      mapp s. mstep. mstep. mstep. mstep. mstep. apply IH. apply ec_scoped; assumption.
    Qed.

    Lemma expression_body_mp : mp ec (expression_body X F rec).
    Proof.
      unfold expression_body. mstep. eapply mp_bind with (P := ec).
      { destruct (a =? 35); [apply parse_literal_mp|].
        destruct (a =? 34); [mstep; mstep; reflexivity|].
        destruct (a =? 64); [apply parse_capture_mp|].
        destruct (a =? 36); [apply parse_regex_capture_mp|].
        destruct (a =? 40); [apply parse_call_mp|].
        destruct (a =? 91); [apply parse_list_mp|].
        destruct (a =? 123); [apply parse_set_mp|].
        destruct (ascii_digit a); [apply parse_integer_constant_mp|].
        destruct (is_ident_start X a).
        - mstep. mstep. mstep. unfold ec. cbn [expr_names]. fbsolve.
        - mstep. mstep. }
      intros e He. mstep. apply suffix_loop_mp. exact He.
    Qed.
  End ExprLoc.

  Lemma parse_expression_n_mp n : mp ec (parse_expression_n X F n).
  Proof.
    induction n as [|n IH]; [intros s; exact I|]. cbn [parse_expression_n]. apply mp_eta.
    apply expression_body_mp. apply mp_eta. exact IH.
  Qed.
  Lemma parse_expression_mp : mp ec (parse_expression X F).
  Proof. apply parse_expression_n_mp. Qed.
  Lemma parse_variable_mp : mp vc (parse_variable X F).
  Proof. apply parse_variable_with_mp, parse_expression_mp. Qed.
  Lemma parse_unscoped_variable_mp : mp (fun p => clean_strb (fst p) = true) (parse_unscoped_variable X F).
  Proof. apply parse_unscoped_variable_with_mp, parse_expression_mp. Qed.
  Hint Resolve parse_expression_mp parse_variable_mp parse_unscoped_variable_mp : mp.

  (* ---------------------------------------------------------------- attributes, conditions *)
  Definition acs (l : list attr) : Prop := forallb clean_strb (flat_map attr_names l) = true.
  Definition ccs (l : list cond) : Prop := forallb clean_strb (flat_map cond_names l) = true.

  Lemma parse_attribute_mp : mp (fun a => acs [a]) (parse_attribute X F).
  Proof.
    unfold parse_attribute. mbind name Hname. mstep. intros s.
    destruct (peek_is 61 s); [|apply okp_here; unfold acs; cbn [flat_map attr_names expr_names app]; fbsolve].
    mapp s. mstep. mstep. mbind v Hv. mstep.
    unfold acs, ec in *. cbn [flat_map attr_names app]. rewrite app_nil_r. fbsolve.
  Qed.
  Lemma acs_cons a l : acs [a] -> acs l -> acs (a :: l).
  Proof. unfold acs. cbn [flat_map]. rewrite app_nil_r. intros H1 H2. fbsolve. Qed.
  Lemma attributes_loop_mp k : mp acs (attributes_loop X F k).
  Proof.
    induction k as [|k IH]; intros s; cbn [attributes_loop]; [exact I|].
    destruct (peek_is 44 s); [|apply okp_here; reflexivity].
    mapp s. mstep. mstep. eapply mp_bind; [apply parse_attribute_mp|]. intros at1 Ha. mstep.
    eapply mp_bind; [exact IH|]. intros l Hl. mstep. apply acs_cons; assumption.
  Qed.
  Lemma parse_attributes_mp : mp acs (parse_attributes X F).
  Proof.
    unfold parse_attributes. eapply mp_bind; [apply parse_attribute_mp|]. intros a Ha. mstep.
    eapply mp_bind; [apply attributes_loop_mp|]. intros l Hl. mstep. apply acs_cons; assumption.
  Qed.

  Lemma parse_condition_mp : mp (fun c => ccs [c]) (parse_condition X F).
  Proof.
    unfold parse_condition. mstep. eapply mp_bind with (P := fun c => ccs [c]).
    - mstep.
      + mstep. mstep. mstep. unfold ccs, ec in *. cbn [flat_map cond_names]. rewrite app_nil_r. assumption.
      + mstep.
        * mstep. mstep. mstep. unfold ccs, ec in *. cbn [flat_map cond_names]. rewrite app_nil_r. assumption.
        * intros s. pose proof (parse_expression_mp s) as Hp.
          destruct (parse_expression X F s) as [v s'| | | |]; cbn [okp] in Hp |- *; auto.
          destruct Hp as [Hl Hv].
          assert (Hk : mp (fun c => ccs [c]) (consume_whitespace X F ;;; ret (CBool v a))).
          { mstep. mstep. unfold ccs, ec in *. cbn [flat_map cond_names]. rewrite app_nil_r. assumption. }
          specialize (Hk s'). destruct ((consume_whitespace X F ;;; ret (CBool v a)) s'); cbn [okp] in *; auto.
          destruct Hk; split; [eapply loc_le_trans; eassumption|assumption].
    - intros c Hc. mstep. mstep. exact Hc.
  Qed.
  Lemma ccs_cons c l : ccs [c] -> ccs l -> ccs (c :: l).
  Proof. unfold ccs. cbn [flat_map]. rewrite app_nil_r. intros H1 H2. fbsolve. Qed.
  Lemma conditions_loop_mp k : mp ccs (conditions_loop X F k).
  Proof.
    induction k as [|k IH]; [intros s; exact I|]. cbn [conditions_loop]. apply mp_eta.
    eapply mp_bind; [apply parse_condition_mp|]. intros c Hc. mstep. intros s.
    destruct (peek_is 44 s); [|apply okp_here; exact Hc].
    mapp s. mstep. mstep. eapply mp_bind; [exact IH|]. intros l Hl. mstep. apply ccs_cons; assumption.
  Qed.
  Lemma parse_conditions_mp : mp ccs (parse_conditions X F).
  Proof. apply conditions_loop_mp. Qed.
End Loc.

#[export] Hint Resolve consume_whitespace_mp consume_while_mp consume_keyword_mp parse_name_mp parse_string_mp
  parse_quantifier_mp skip_query_mp parse_expression_mp parse_variable_mp parse_unscoped_variable_mp
  parse_attributes_mp parse_conditions_mp parse_query_mp : mp.
