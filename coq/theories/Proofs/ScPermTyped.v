(* Proofs/ScPermTyped.v — C08 WITH scoped variables, part 7: the shape of a state between blocks.
   `styped bds s`: the state s was built from the initial graph g0 by appending deltas; bds lists, per block, the
   interval of graph ids and the interval of store locations it owns.  Every thunk lies in exactly one block and
   its body is local to that block (graph ids of g0 or of the block, earlier locations of the block); every
   deferred statement is typed by some block (`msall`: scoped reads allowed); every cell is unforced and holds
   definitions with literal id-free scopes whose values are locations of the store.  Appending a block's delta
   keeps the state typed (`styped_step`). *)
From Coq Require Import Permutation.
From TSG Require Import Model.Lazy Proofs.BaseFacts Proofs.Containers Proofs.MonadFacts Proofs.SLExpr Proofs.BlockPermRen Proofs.BlockPermSim Proofs.BlockPermSwap
  Proofs.BlockPermGraph Proofs.ScPermSound Proofs.ScPermSim Proofs.ScPermSwap.

Notation ea0 := (fun ea : amap => ea = []).

Record bdesc := { b_glo : N; b_ghi : N; b_klo : N; b_khi : N }.
Definition bD (n0 : N) (d : bdesc) : N -> Prop := fun i => i < n0 \/ (b_glo d <= i /\ i < b_ghi d).
Definition bL (d : bdesc) : N -> Prop := fun l => b_klo d <= l /\ l < b_khi d.

(* the definitions collected for one name *)
Definition cellps (cells : list (ident * scoped_values)) (name : ident) : list (lvalue * lvalue * stmt_ctx) :=
  match alist_get name cells with Some (SVUnforced ps) => ps | _ => [] end.
Definition pairs_of (name : ident) (defs : list sdef) : list (lvalue * lvalue * stmt_ctx) :=
  map snd (filter (fun d : sdef => str_eqb name (fst d)) defs).

Lemma pairs_of_app name a b : pairs_of name (a ++ b) = pairs_of name a ++ pairs_of name b.
Proof. unfold pairs_of. rewrite filter_app, map_app. reflexivity. Qed.
Lemma pairs_of_map name (f : sdef -> sdef) (h : lvalue * lvalue * stmt_ctx -> lvalue * lvalue * stmt_ctx) defs :
  (forall d, fst (f d) = fst d /\ snd (f d) = h (snd d)) -> pairs_of name (map f defs) = map h (pairs_of name defs).
Proof.
  intros Hf. unfold pairs_of. induction defs as [|d defs IH]; [reflexivity|]. cbn [map filter]. destruct (Hf d) as [H1 H2]. rewrite H1.
  destruct (str_eqb name (fst d)); cbn [map]; [rewrite H2, IH; reflexivity|exact IH].
Qed.

Lemma add_def_get cells d name : allunf cells ->
  alist_get name (add_def cells d) =
  if str_eqb name (fst d) then Some (SVUnforced (cellps cells name ++ [snd d])) else alist_get name cells.
Proof.
  intros Hu. unfold add_def, cellps. destruct (str_eqb_spec name (fst d)) as [->|Hne].
  - destruct (alist_get (fst d) cells) as [c|] eqn:E.
    + destruct (Hu _ _ E) as [ps ->]. rewrite alist_get_set, str_eqb_refl. reflexivity.
    + rewrite alist_get_set, str_eqb_refl. reflexivity.
  - destruct (alist_get (fst d) cells) as [c|] eqn:E.
    + destruct (Hu _ _ E) as [ps ->]. rewrite alist_get_set. destruct (str_eqb_spec name (fst d)); [contradiction|reflexivity].
    + rewrite alist_get_set. destruct (str_eqb_spec name (fst d)); [contradiction|reflexivity].
Qed.
Lemma cellps_add_def cells d name : allunf cells ->
  cellps (add_def cells d) name = if str_eqb name (fst d) then cellps cells name ++ [snd d] else cellps cells name.
Proof. intros Hu. unfold cellps at 1. rewrite (add_def_get cells d name Hu). destruct (str_eqb name (fst d)); reflexivity. Qed.
Lemma pairs_of_cons name d defs : pairs_of name (d :: defs) = if str_eqb name (fst d) then snd d :: pairs_of name defs else pairs_of name defs.
Proof. unfold pairs_of. cbn [filter]. destruct (str_eqb name (fst d)); reflexivity. Qed.
Lemma addl_get defs : forall cells name, allunf cells ->
  alist_get name (addl defs cells) =
  match alist_get name cells, pairs_of name defs with
  | None, [] => None
  | _, _ => Some (SVUnforced (cellps cells name ++ pairs_of name defs))
  end.
Proof.
  induction defs as [|d defs IH]; intros cells name Hu.
  - cbn [addl fold_left pairs_of filter map]. unfold cellps. destruct (alist_get name cells) as [c|] eqn:E; [|reflexivity].
    destruct (Hu _ _ E) as [ps ->]. rewrite app_nil_r. reflexivity.
  - change (addl (d :: defs) cells) with (addl defs (add_def cells d)). rewrite (IH _ name (allunf_add cells d Hu)).
    rewrite (add_def_get cells d name Hu), (cellps_add_def cells d name Hu), pairs_of_cons.
    destruct (str_eqb name (fst d)); [|reflexivity]. rewrite <- app_assoc. cbn [app].
    destruct (alist_get name cells); destruct (pairs_of name defs); reflexivity.
Qed.
Lemma addl_cellps defs cells name : allunf cells -> cellps (addl defs cells) name = cellps cells name ++ pairs_of name defs.
Proof.
  intros Hu. unfold cellps at 1. rewrite (addl_get defs cells name Hu). unfold cellps. destruct (alist_get name cells) as [c|] eqn:E.
  - destruct (Hu _ _ E) as [ps ->]. destruct (pairs_of name defs); reflexivity.
  - destruct (pairs_of name defs); reflexivity.
Qed.
Lemma addl_none defs cells name : allunf cells -> (alist_get name (addl defs cells) = None <-> alist_get name cells = None /\ pairs_of name defs = []).
Proof.
  intros Hu. rewrite (addl_get defs cells name Hu). destruct (alist_get name cells), (pairs_of name defs); split; try discriminate; try tauto; intros [A B]; discriminate.
Qed.

Section Typed.
  Variable okfn : ident -> Prop.
  Variable g0 : graph.
  Notation n0 := (N.of_nat (length g0)).

  Definition pair_ok (top : N) (pr : lvalue * lvalue * stmt_ctx) : Prop :=
    (exists v, fst (fst pr) = LValue v /\ vall noid v) /\ (exists loc, snd (fst pr) = LVar loc /\ loc < top).
  Definition stmts_typed (K : lstmt -> Prop) (bds : list bdesc) (l : list lstmt) : Prop :=
    Forall (fun st => K st /\ exists d, In d bds /\ msall ea0 okfn (bD n0 d) (bL d) st) l.

  Definition styped (bds : list bdesc) (s : lstate) : Prop :=
    (forall d, In d bds -> n0 <= b_glo d /\ b_ghi d <= gn s /\ b_khi d <= sn s) /\
    (forall i th, nth_error (l_store s) i = Some th ->
       (exists d, In d bds /\ bL d (N.of_nat i)) /\
       (forall d, In d bds -> bL d (N.of_nat i) -> thall okfn (bD n0 d) (fun l => b_klo d <= l /\ l < N.of_nat i) th)) /\
    stmts_typed is_estmt bds (l_edges s) /\ stmts_typed is_astmt bds (l_attrs s) /\ stmts_typed is_pstmt bds (l_prints s) /\
    (allunf (l_scoped s) /\ forall name, Forall (pair_ok (sn s)) (cellps (l_scoped s) name)) /\
    (exists ns, l_graph s = g0 ++ ns /\ Forall nplain ns).

  Lemma styped_init : styped [] (linit g0).
  Proof.
    unfold styped, stmts_typed, gn, sn. cbn [linit l_graph l_store l_edges l_attrs l_prints l_scoped]. split; [intros d []|].
    split; [intros i th H; destruct i; discriminate|]. split; [constructor|]. split; [constructor|]. split; [constructor|].
    split; [split; [intros name c H; discriminate|intros name; constructor]|]. exists []. rewrite app_nil_r. split; [reflexivity|constructor].
  Qed.

  Definition mkdesc (s s1 : lstate) : bdesc := {| b_glo := gn s; b_ghi := gn s1; b_klo := sn s; b_khi := sn s1 |}.

  Lemma stmts_typed_app K bds l es d : stmts_typed K bds l -> Forall (fun st => K st /\ msall ea0 okfn (bD n0 d) (bL d) st) es -> stmts_typed K (bds ++ [d]) (l ++ es).
  Proof.
    intros Hl He. apply Forall_app. split.
    - eapply Forall_impl; [|exact Hl]. intros st [HK (d0 & Hin & Hm)]. split; [exact HK|]. exists d0. split; [apply in_or_app; left; exact Hin|exact Hm].
    - eapply Forall_impl; [|exact He]. intros st [HK Hm]. split; [exact HK|]. exists d. split; [apply in_or_app; right; left; reflexivity|exact Hm].
  Qed.

  Theorem styped_step bds s d s1 : styped bds s -> n0 <= gn s -> extends2 s d s1 -> delta_ok2 ea0 okfn n0 (gn s) (sn s) d ->
    styped (bds ++ [mkdesc s s1]) s1.
  Proof.
    intros (Hb & Ht & He & Ha & Hp & (Hu & Hc) & (ns & Hg & Hpl)) Hn0 X Od.
    destruct (extends2_sizes _ _ _ X) as (Eg & Es & _ & Hu1). destruct X as (Xg & Xs & Xe & Xa & Xp & _ & Xc & _).
    destruct Od as (On & Oth & Oe & Oa & Op & Odf).
    assert (HD : forall i, (i < n0 \/ gn s <= i /\ i < gn s + N.of_nat (length (e_nodes d))) <-> bD n0 (mkdesc s s1) i).
    { intros i. unfold bD, mkdesc. cbn [b_glo b_ghi]. rewrite Eg. reflexivity. }
    assert (Hst : forall K l, Forall (fun st => K st /\ msall ea0 okfn (fun i => i < n0 \/ gn s <= i /\ i < gn s + N.of_nat (length (e_nodes d)))
                                                            (fun l => sn s <= l /\ l < sn s + N.of_nat (length (e_thunks d))) st) l ->
                             Forall (fun st => K st /\ msall ea0 okfn (bD n0 (mkdesc s s1)) (bL (mkdesc s s1)) st) l).
    { intros K l H. eapply Forall_impl; [|exact H]. intros st [HK Hm]. split; [exact HK|]. eapply msall_impl; [| |exact Hm].
      - intros i Hi. apply HD, Hi.
      - intros l0 Hl. unfold bL, mkdesc. cbn [b_klo b_khi]. rewrite Es. exact Hl. }
    split; [|split; [|split; [|split; [|split; [|split]]]]].
    - intros d0 Hin. apply in_app_or in Hin as [Hin|[<-|[]]].
      + destruct (Hb d0 Hin) as (A & B & C). split; [exact A|]. split; lia.
      + unfold mkdesc. cbn [b_glo b_ghi b_khi]. split; [exact Hn0|]. split; lia.
    - intros i th Ei. rewrite Xs in Ei. destruct (Nat.lt_ge_cases i (length (l_store s))) as [Hlt|Hge].
      + rewrite nth_error_app1 in Ei by exact Hlt. destruct (Ht i th Ei) as ((d0 & Hin & HL) & Hall). split; [exists d0; split; [apply in_or_app; left; exact Hin|exact HL]|].
        intros d1 Hin1 HL1. apply in_app_or in Hin1 as [Hin1|[<-|[]]]; [apply (Hall d1 Hin1 HL1)|].
        exfalso. unfold bL, mkdesc in HL1. cbn [b_klo b_khi] in HL1. unfold sn in HL1. lia.
      + rewrite nth_error_app2 in Ei by exact Hge. assert (Hj : (i - length (l_store s) < length (e_thunks d))%nat) by (apply nth_error_Some; congruence).
        split; [exists (mkdesc s s1); split; [apply in_or_app; right; left; reflexivity|unfold bL, mkdesc; cbn [b_klo b_khi]; unfold sn in *; lia]|].
        intros d1 Hin1 HL1. apply in_app_or in Hin1 as [Hin1|[<-|[]]].
        * exfalso. destruct (Hb d1 Hin1) as (_ & _ & C). unfold bL in HL1. unfold sn in C. lia.
        * pose proof (Oth _ _ Ei) as Hth. eapply thall_impl; [| |exact Hth].
          -- intros k Hk. apply HD, Hk.
          -- intros l Hl. unfold mkdesc. cbn [b_klo]. unfold sn in *. lia.
    - rewrite Xe. apply stmts_typed_app; [exact He|apply Hst, Oe].
    - rewrite Xa. apply stmts_typed_app; [exact Ha|apply Hst, Oa].
    - rewrite Xp. apply stmts_typed_app; [exact Hp|apply Hst, Op].
    - split; [apply Hu1, Hu|]. intros name. rewrite Xc, (addl_cellps _ _ name Hu). apply Forall_app. split.
      + eapply Forall_impl; [|apply Hc]. intros pr [A (loc & B & C)]. split; [exact A|]. exists loc. split; [exact B|lia].
      + unfold pairs_of. apply Forall_forall. intros pr Hpr. apply in_map_iff in Hpr as (df & <- & Hdf). apply filter_In in Hdf as [Hdf _].
        rewrite Forall_forall in Odf. destruct (Odf df Hdf) as [A (loc & B & C)]. split; [exact A|]. exists loc. split; [exact B|lia].
    - exists (ns ++ e_nodes d). rewrite Xg, Hg, app_assoc. split; [reflexivity|]. apply Forall_app. split; [exact Hpl|exact On].
  Qed.
End Typed.
