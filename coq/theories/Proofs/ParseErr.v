(* Proofs/ParseErr.v — lemmas about Model/ParseErr.v (property C18). *)
From TSG Require Import Model.ParseErr.
From Coq Require Import Lia.

(* ------------------------------------------------------------------ equations of the nested fixes *)

Local Open Scope nat_scope.

Lemma psize_eq e m i cs : psize (PT e m i cs) = S (fsize cs).
Proof. cbn [psize]. apply f_equal. induction cs as [|x r IH]; cbn [fsize fold_right]; [reflexivity|]. rewrite IH. reflexivity. Qed.

Lemma any_flagged_eq e m i cs : any_flagged (PT e m i cs) = e || m || existsb any_flagged cs.
Proof. cbn [any_flagged]. apply f_equal. induction cs as [|x r IH]; cbn [existsb]; [reflexivity|]. rewrite IH. reflexivity. Qed.

Lemma outermost_eq e m i cs :
  outermost (PT e m i cs) = if e then [(KUnexpected, i)] else if m then [(KMissing, i)] else fouter cs.
Proof.
  cbn [outermost]. destruct e; [reflexivity|]. destruct m; [reflexivity|].
  induction cs as [|x r IH]; cbn [fouter flat_map]; [reflexivity|]. rewrite IH. reflexivity.
Qed.

Lemma preorder_anc_eq anc e m i cs :
  preorder_anc anc (PT e m i cs) = (anc, PT e m i cs) :: flat_map (preorder_anc (anc || e || m)) cs.
Proof.
  cbn [preorder_anc]. apply f_equal.
  induction cs as [|x r IH]; cbn [flat_map]; [reflexivity|]. rewrite IH. reflexivity.
Qed.

Lemma psize_pos t : 1 <= psize t.
Proof. destruct t. rewrite psize_eq. lia. Qed.

(* structural induction with the hypothesis for all children *)
Section ptree_induction.
  Variable P : ptree -> Prop.
  Hypothesis step : forall e m i cs, Forall P cs -> P (PT e m i cs).
  Fixpoint ptree_ind' (t : ptree) : P t :=
    match t with
    | PT e m i cs =>
        step e m i cs ((fix go (l : list ptree) : Forall P l :=
                          match l with
                          | [] => Forall_nil P
                          | x :: r => Forall_cons x (ptree_ind' x) (go r)
                          end) cs)
    end.
End ptree_induction.

(* ------------------------------------------------------ recursive spec = declarative spec, facts *)

Lemma flat_map_ext_Forall {A B} (f g : A -> list B) l :
  Forall (fun x => f x = g x) l -> flat_map f l = flat_map g l.
Proof. induction 1 as [|x r Hx _ IH]; cbn [flat_map]; [reflexivity|]. rewrite Hx, IH. reflexivity. Qed.

Lemma flat_map_nil {A B} (l : list A) : flat_map (fun _ => @nil B) l = [].
Proof. induction l; cbn [flat_map app]; auto. Qed.

Lemma flat_map_flat_map {A B C} (f : B -> list C) (g : A -> list B) l :
  flat_map f (flat_map g l) = flat_map (fun x => flat_map f (g x)) l.
Proof. induction l as [|x r IH]; cbn [flat_map]; [reflexivity|]. rewrite flat_map_app, IH. reflexivity. Qed.

Lemma preorder_report : forall t anc,
  flat_map report_of (preorder_anc anc t) = if anc then [] else outermost t.
Proof.
  induction t as [e m i cs IH] using ptree_ind'. intros anc.
  rewrite preorder_anc_eq, outermost_eq. cbn [flat_map]. rewrite flat_map_flat_map.
  rewrite (flat_map_ext_Forall _ (fun x => if anc || e || m then [] else outermost x)).
  2:{ eapply Forall_impl; [|exact IH]. intros x Hx. apply Hx. }
  unfold report_of, classify. cbn [fst snd pt_err pt_miss pt_id].
  destruct anc; cbn [orb]; [apply flat_map_nil|].
  destruct e; cbn [orb]; [rewrite flat_map_nil; reflexivity|].
  destruct m; cbn [orb]; [rewrite flat_map_nil; reflexivity|].
  reflexivity.
Qed.

Lemma outermost_decl_eq t : outermost_decl t = outermost t.
Proof. unfold outermost_decl. apply (preorder_report t false). Qed.

Lemma outermost_nil_iff : forall t, outermost t = [] <-> any_flagged t = false.
Proof.
  induction t as [e m i cs IH] using ptree_ind'.
  rewrite outermost_eq, any_flagged_eq.
  destruct e; cbn [orb]; [split; discriminate|].
  destruct m; cbn [orb]; [split; discriminate|].
  induction IH as [|x r Hx _ IHr]; cbn [fouter flat_map existsb]; [tauto|].
  split.
  - intros H. apply app_eq_nil in H. destruct H as [H1 H2].
    apply Hx in H1. apply IHr in H2. rewrite H1, H2. reflexivity.
  - intros H. apply orb_false_iff in H. destruct H as [H1 H2].
    apply Hx in H1. apply IHr in H2. unfold fouter in H2. rewrite H1, H2. reflexivity.
Qed.

(* --------------------------------------------------------------------------------- the loop *)

(* second half of a loop iteration *)
Definition move (fo : bool) (fuel : nat) (c : cursor) (dvc : bool) (acc : list perr) : outcome unit (list perr) :=
  if dvc then
    match goto_next_sibling c with
    | Some c' => walk fo fuel c' false acc
    | None => match goto_parent c with
              | Some c' => walk fo fuel c' true acc
              | None => Ok acc
              end
    end
  else
    match goto_first_child c with
    | Some c' => walk fo fuel c' false acc
    | None => walk fo fuel c true acc
    end.

Lemma walk_S fo fuel c dvc acc :
  walk fo (S fuel) c dvc acc =
  match classify (focus c) with
  | Some p => if fo then Ok (acc ++ [p]) else move fo fuel c true (acc ++ [p])
  | None => move fo fuel c dvc acc
  end.
Proof.
  unfold classify, move. cbn [walk].
  destruct (pt_err (focus c)); [destruct fo; reflexivity|].
  destruct (pt_miss (focus c)); [destruct fo; reflexivity|].
  reflexivity.
Qed.

Lemma walk_mono : forall fo fuel c d acc r, walk fo fuel c d acc = Ok r ->
  forall fuel', fuel <= fuel' -> walk fo fuel' c d acc = Ok r.
Proof.
  intros fo. induction fuel as [|fuel IH]; intros c d acc r H fuel' Hle; [discriminate|].
  destruct fuel' as [|fuel']; [lia|].
  rewrite walk_S in *.
  assert (M : forall d' acc', move fo fuel c d' acc' = Ok r -> move fo fuel' c d' acc' = Ok r).
  { intros d' acc'. unfold move. destruct d'.
    - destruct (goto_next_sibling c); [intros; eapply IH; eauto; lia|].
      destruct (goto_parent c); [intros; eapply IH; eauto; lia|auto].
    - destruct (goto_first_child c); intros; eapply IH; eauto; lia. }
  destruct (classify (focus c)); [destruct fo; auto|auto].
Qed.

(* "done with the focus": depends only on the context *)
Definition after (fo : bool) (fuel : nat) (c : cursor) (acc : list perr) := move fo fuel c true acc.

Lemma classify_PT e m i cs :
  classify (PT e m i cs) = if e then Some (KUnexpected, i) else if m then Some (KMissing, i) else None.
Proof. reflexivity. Qed.

Lemma finish_subtree : forall n t, psize t <= n -> forall k acc fuel r,
    after false fuel {| focus := t; ctx := k |} (acc ++ outermost t) = Ok r ->
    walk false (fuel + 2 * psize t) {| focus := t; ctx := k |} false acc = Ok r.
Proof.
  induction n as [|n IH]; intros t Hsz k acc fuel r H.
  { pose proof (psize_pos t). lia. }
  destruct t as [e m i cs]. rewrite psize_eq in *. rewrite outermost_eq in H.
  assert (Flag : forall p, after false fuel {| focus := PT e m i cs; ctx := k |} (acc ++ [p]) = Ok r ->
                           classify (PT e m i cs) = Some p ->
                           walk false (fuel + 2 * S (fsize cs)) {| focus := PT e m i cs; ctx := k |} false acc = Ok r).
  { intros p Hp Hc.
    replace (fuel + 2 * S (fsize cs)) with (S (fuel + 1 + 2 * fsize cs)) by lia.
    rewrite walk_S. cbn [focus]. rewrite Hc.
    unfold after, move in *.
    destruct (goto_next_sibling _); [eapply walk_mono; eauto; lia|].
    destruct (goto_parent _); [eapply walk_mono; eauto; lia|auto]. }
  destruct e; [apply (Flag _ H); reflexivity|].
  destruct m; [apply (Flag _ H); reflexivity|].
  clear Flag.
  destruct cs as [|x cs].
  - (* leaf: two iterations *)
    cbn [fouter flat_map] in H. rewrite app_nil_r in H.
    replace (fuel + 2 * S (fsize [])) with (S (S fuel)) by (cbn [fsize fold_right]; lia).
    rewrite walk_S. cbn [focus]. rewrite classify_PT. unfold move at 1. cbn [goto_first_child focus].
    rewrite walk_S. cbn [focus]. rewrite classify_PT. exact H.
  - replace (fuel + 2 * S (fsize (x :: cs))) with (S (S fuel + 2 * fsize (x :: cs))) by lia.
    rewrite walk_S. cbn [focus]. rewrite classify_PT. unfold move at 1. cbn [goto_first_child focus ctx].
    assert (G : forall rs ls y acc' fuel', fsize (y :: rs) <= n ->
               after false fuel' {| focus := PT false false i (rev_append ls (y :: rs)); ctx := k |} (acc' ++ fouter (y :: rs)) = Ok r ->
               walk false (S fuel' + 2 * fsize (y :: rs))
                    {| focus := y; ctx := {| f_lefts := ls; f_err := false; f_miss := false; f_id := i; f_rights := rs |} :: k |}
                    false acc' = Ok r).
    { induction rs as [|z rs IHrs]; intros ls y acc' fuel' Hn Hafter.
      - (* last child: back to the parent, which is revisited (and tested again) with dvc = true *)
        cbn [fsize fold_right] in *. rewrite Nat.add_0_r in *.
        apply IH; [lia|].
        unfold after at 1, move at 1.
        cbn [goto_next_sibling ctx f_rights goto_parent f_lefts f_err f_miss f_id focus].
        rewrite walk_S. cbn [focus]. rewrite classify_PT.
        cbn [fouter flat_map] in Hafter. rewrite app_nil_r in Hafter. exact Hafter.
      - cbn [fsize fold_right] in *.
        replace (S fuel' + 2 * (psize y + (psize z + fold_right (fun x a => psize x + a) 0 rs)))
          with ((S fuel' + 2 * fsize (z :: rs)) + 2 * psize y) by (unfold fsize; cbn [fold_right]; lia).
        apply IH; [lia|].
        unfold after at 1, move at 1.
        cbn [goto_next_sibling ctx f_rights f_lefts f_err f_miss f_id focus].
        apply IHrs; [cbn [fsize fold_right]; lia|].
        cbn [fouter flat_map] in *. rewrite <- app_assoc.
        cbn [rev_append] in *. exact Hafter. }
    apply (G cs [] x acc fuel); [cbn [fsize fold_right] in *; lia|].
    cbn [rev_append]. exact H.
Qed.

Lemma walk_all_root t : walk false (enough_fuel t) (root_cursor t) false [] = Ok (outermost t).
Proof.
  unfold enough_fuel, root_cursor. replace (2 * psize t + 1) with (1 + 2 * psize t) by lia.
  apply finish_subtree with (n := psize t); [lia|]. reflexivity.
Qed.

(* first_only = true stops at the first push: generic simulation by the first_only = false run *)
Lemma walk_prefix : forall fuel c d acc r, walk false fuel c d acc = Ok r -> exists tl, r = acc ++ tl.
Proof.
  induction fuel as [|fuel IH]; intros c d acc r H; [discriminate|].
  rewrite walk_S in H.
  assert (M : forall d' acc', move false fuel c d' acc' = Ok r -> exists tl, r = acc' ++ tl).
  { intros d' acc'. unfold move. destruct d'.
    - destruct (goto_next_sibling c); [apply IH|].
      destruct (goto_parent c); [apply IH|].
      intros E. injection E as <-. exists []. rewrite app_nil_r. reflexivity.
    - destruct (goto_first_child c); apply IH. }
  destruct (classify (focus c)) as [p|]; [|apply M in H; exact H].
  apply M in H. destruct H as [tl ->]. exists (p :: tl). rewrite <- app_assoc. reflexivity.
Qed.

Lemma walk_first_of_all : forall fuel c d acc r, walk false fuel c d acc = Ok r ->
  walk true fuel c d acc = Ok (firstn (S (length acc)) r).
Proof.
  induction fuel as [|fuel IH]; intros c d acc r H; [discriminate|].
  rewrite walk_S in *.
  destruct (classify (focus c)) as [p|].
  - assert (P : exists tl, r = (acc ++ [p]) ++ tl).
    { revert H. unfold move.
      destruct (goto_next_sibling c); [apply walk_prefix|].
      destruct (goto_parent c); [apply walk_prefix|].
      intros E. injection E as <-. exists []. rewrite app_nil_r. reflexivity. }
    destruct P as [tl ->]. f_equal.
    replace (S (length acc)) with (length (acc ++ [p]) + 0) by (rewrite app_length; cbn [length]; lia).
    rewrite firstn_app_2. cbn [firstn]. rewrite app_nil_r. reflexivity.
  - revert H. unfold move. destruct d.
    + destruct (goto_next_sibling c); [apply IH|].
      destruct (goto_parent c); [apply IH|].
      intros E. injection E as <-. rewrite firstn_all2 by lia. reflexivity.
    + destruct (goto_first_child c); apply IH.
Qed.

Lemma hd_error_firstn1 {A} (l : list A) : hd_error (firstn 1 l) = hd_error l.
Proof. destruct l; reflexivity. Qed.

(* ------------------------------------------------------------------------- API level lemmas *)

Lemma oracle_false_outermost t : oracle_ok false t = true -> outermost t = [].
Proof.
  unfold oracle_ok. intros H. apply outermost_nil_iff.
  destruct (any_flagged t); [discriminate|reflexivity].
Qed.

Lemma find_errors_all_lemma : forall he t fuel, oracle_ok he t = true -> enough_fuel t <= fuel ->
  find_errors he fuel t false = Ok (outermost t).
Proof.
  intros he t fuel Hor Hf. unfold find_errors. destruct he; cbn [negb].
  - eapply walk_mono; [apply walk_all_root|exact Hf].
  - rewrite (oracle_false_outermost t Hor). reflexivity.
Qed.

Lemma find_errors_first_lemma : forall he t fuel, oracle_ok he t = true -> enough_fuel t <= fuel ->
  find_errors he fuel t true = Ok (firstn 1 (outermost t)).
Proof.
  intros he t fuel Hor Hf. unfold find_errors. destruct he; cbn [negb].
  - apply (walk_first_of_all fuel (root_cursor t) false [] (outermost t)).
    eapply walk_mono; [apply walk_all_root|exact Hf].
  - rewrite (oracle_false_outermost t Hor). reflexivity.
Qed.

Lemma pe_first_lemma : forall he t fuel, oracle_ok he t = true -> enough_fuel t <= fuel ->
  pe_first he fuel t = Ok (hd_error (outermost t)).
Proof.
  intros. unfold pe_first. rewrite find_errors_first_lemma by assumption.
  cbn [obind]. rewrite hd_error_firstn1. reflexivity.
Qed.

Lemma find_errors_fuel_lemma : forall he t first_only fuel, enough_fuel t <= fuel ->
  exists l, find_errors he fuel t first_only = Ok l.
Proof.
  intros he t fo fuel Hf. unfold find_errors. destruct he; cbn [negb]; [|eauto].
  assert (W : walk false fuel (root_cursor t) false [] = Ok (outermost t))
    by (eapply walk_mono; [apply walk_all_root|exact Hf]).
  destruct fo; [|eauto].
  apply walk_first_of_all in W. eauto.
Qed.

Lemma no_error_none_lemma : forall he t first_only fuel, any_flagged t = false -> enough_fuel t <= fuel ->
  find_errors he fuel t first_only = Ok [].
Proof.
  intros he t fo fuel Hn Hf.
  assert (Hor : oracle_ok he t = true) by (unfold oracle_ok; rewrite Hn; reflexivity).
  apply outermost_nil_iff in Hn.
  destruct fo.
  - rewrite find_errors_first_lemma by assumption. rewrite Hn. reflexivity.
  - rewrite find_errors_all_lemma by assumption. rewrite Hn. reflexivity.
Qed.

(* ------------------------------------------------------------------------ strings and slices *)

Local Open Scope N_scope.

Lemma utf8_len_pos c : 1 <= utf8_len c.
Proof. unfold utf8_len. destruct (c <? 128); [lia|]. destruct (c <? 2048); [lia|]. destruct (c <? 65536); lia. Qed.

Lemma utf8_bytes_app a b : utf8_bytes (a ++ b) = utf8_bytes a + utf8_bytes b.
Proof. induction a as [|c a IH]; cbn [utf8_bytes app]; [reflexivity|]. rewrite IH. lia. Qed.

Lemma split_at_byte_0 s : split_at_byte s 0 = Some ([], s).
Proof. destruct s; reflexivity. Qed.

Lemma split_at_byte_app : forall p q, split_at_byte (p ++ q) (utf8_bytes p) = Some (p, q).
Proof.
  induction p as [|c p IH]; intros q; cbn [utf8_bytes app]; [apply split_at_byte_0|].
  pose proof (utf8_len_pos c) as Hc.
  cbn [split_at_byte].
  destruct (N.eqb_spec (utf8_len c + utf8_bytes p) 0) as [E|_]; [lia|].
  destruct (N.leb_spec (utf8_len c) (utf8_len c + utf8_bytes p)) as [_|L]; [|lia].
  replace (utf8_len c + utf8_bytes p - utf8_len c) with (utf8_bytes p) by lia.
  rewrite IH. reflexivity.
Qed.

Lemma split_at_byte_inv : forall s n a b, split_at_byte s n = Some (a, b) -> s = a ++ b /\ utf8_bytes a = n.
Proof.
  induction s as [|c s IH]; intros n a b H; cbn [split_at_byte] in H.
  - destruct (N.eqb_spec n 0) as [->|_]; [|discriminate]. injection H as <- <-. split; reflexivity.
  - destruct (N.eqb_spec n 0) as [->|Hn]; [injection H as <- <-; split; reflexivity|].
    destruct (N.leb_spec (utf8_len c) n) as [L|_]; [|discriminate].
    destruct (split_at_byte s (n - utf8_len c)) as [[a' b']|] eqn:E; [|discriminate].
    injection H as <- <-. apply IH in E. destruct E as [-> E2].
    split; [reflexivity|]. cbn [utf8_bytes]. lia.
Qed.

Lemma prefix_by_bytes : forall x y r1 r2, x ++ r1 = y ++ r2 -> utf8_bytes x <= utf8_bytes y ->
  exists mid, y = x ++ mid.
Proof.
  induction x as [|c x IH]; intros y r1 r2 E L; [exists y; reflexivity|].
  destruct y as [|c' y].
  - cbn [utf8_bytes] in L. pose proof (utf8_len_pos c). lia.
  - cbn [app] in E. injection E as -> E. cbn [utf8_bytes] in L.
    destruct (IH y r1 r2 E) as [mid ->]; [lia|]. exists mid. reflexivity.
Qed.

Lemma slice_between : forall s a b x rest y rest2,
  split_at_byte s a = Some (x, rest) -> split_at_byte s b = Some (y, rest2) -> a <= b ->
  exists mid, rest = mid ++ rest2 /\ split_at_byte rest (b - a) = Some (mid, rest2).
Proof.
  intros s a b x rest y rest2 Ha Hb L.
  apply split_at_byte_inv in Ha. destruct Ha as [Es Ea].
  apply split_at_byte_inv in Hb. destruct Hb as [Es' Eb].
  destruct (prefix_by_bytes x y rest rest2) as [mid ->]; [congruence|lia|].
  rewrite Es in Es'. rewrite <- app_assoc in Es'. apply app_inv_head in Es'. subst rest.
  exists mid. split; [reflexivity|].
  rewrite utf8_bytes_app in Eb.
  replace (b - a) with (utf8_bytes mid) by lia.
  apply split_at_byte_app.
Qed.

Lemma until_nl_prefix : forall s, exists r, s = until_nl s ++ r.
Proof.
  induction s as [|c s [r IH]]; [exists []; reflexivity|].
  cbn [until_nl]. destruct (c =? 10); [exists (c :: s); reflexivity|].
  exists r. cbn [app]. rewrite <- IH. reflexivity.
Qed.

(* the two slices of a node with well-formed position data *)
Lemma wf_slices : forall src p, wf_pos src p = true ->
  exists x txt rest2,
    split_at_byte src (np_start p) = Some (x, txt ++ rest2) /\
    slice_bytes 1 src (np_start p) (np_end p) = Ok txt /\
    slice_bytes 3 src (np_start p) (np_end p) = Ok txt /\
    slice_bytes 2 src (np_start p) (np_start p + utf8_bytes (until_nl txt)) = Ok (until_nl txt).
Proof.
  intros src p Hwf. unfold wf_pos, is_boundary in Hwf.
  apply andb_true_iff in Hwf. destruct Hwf as [Hwf Hb]. apply andb_true_iff in Hwf. destruct Hwf as [Hle Ha].
  apply N.leb_le in Hle.
  destruct (split_at_byte src (np_start p)) as [[x rest]|] eqn:Ea; [|discriminate].
  destruct (split_at_byte src (np_end p)) as [[y rest2]|] eqn:Eb; [|discriminate].
  destruct (slice_between _ _ _ _ _ _ _ Ea Eb Hle) as [txt [-> Hmid]].
  exists x, txt, rest2. split; [reflexivity|].
  assert (S13 : forall site, slice_bytes site src (np_start p) (np_end p) = Ok txt).
  { intros site. unfold slice_bytes.
    destruct (N.ltb_spec (np_end p) (np_start p)); [lia|]. rewrite Ea, Hmid. reflexivity. }
  split; [apply S13|]. split; [apply S13|].
  unfold slice_bytes.
  destruct (N.ltb_spec (np_start p + utf8_bytes (until_nl txt)) (np_start p)); [lia|].
  rewrite Ea.
  replace (np_start p + utf8_bytes (until_nl txt) - np_start p) with (utf8_bytes (until_nl txt)) by lia.
  destruct (until_nl_prefix txt) as [r Hr].
  rewrite Hr at 1. rewrite <- app_assoc. rewrite split_at_byte_app. reflexivity.
Qed.

(* ----------------------------------------------------------------------------- Display impls *)

Definition plain_text (kt : pkind -> str) (path : str) (k : pkind) (p : npos) (txt : str) : str :=
  cite path (np_row p) (np_col p) ++ [32] ++ kt k ++
  (if range_is_empty p then [10] else [58; 32] ++ until_nl txt).

Lemma display_plain_lemma : forall kt path src k p, wf_pos src p = true ->
  exists txt, (range_is_empty p = false -> slice_bytes 1 src (np_start p) (np_end p) = Ok txt) /\
              display_plain kt path src k p = Ok (plain_text kt path k p txt).
Proof.
  intros kt path src k p Hwf. unfold display_plain, plain_text.
  destruct (range_is_empty p) eqn:Em.
  - exists []. split; [discriminate|]. rewrite <- !app_assoc. reflexivity.
  - destruct (wf_slices src p Hwf) as [x [txt [rest2 [_ [S1 [_ S2]]]]]].
    exists txt. split; [intros _; exact S1|].
    rewrite S1. cbn [obind]. rewrite S2. cbn [obind]. rewrite <- !app_assoc. reflexivity.
Qed.

Lemma display_pretty_lemma : forall kt path src k p, wf_pos src p = true ->
  exists s, display_pretty kt path src k p = Ok s.
Proof.
  intros kt path src k p Hwf. unfold display_pretty.
  destruct (wf_slices src p Hwf) as [x [txt [rest2 [_ [_ [S3 _]]]]]].
  rewrite S3. cbn [obind]. eauto.
Qed.

Lemma is_prefix_app : forall a b, is_prefix a (a ++ b) = true.
Proof. induction a as [|c a IH]; intros b; cbn [is_prefix app]; [reflexivity|]. rewrite N.eqb_refl, IH. reflexivity. Qed.

Lemma contains_here n h : is_prefix n h = true -> contains n h = true.
Proof. intros H. destruct h; cbn [contains]; rewrite H; reflexivity. Qed.

Lemma contains_app : forall x n y, contains n (x ++ n ++ y) = true.
Proof.
  induction x as [|c x IH]; intros n y; cbn [app].
  - apply contains_here, is_prefix_app.
  - cbn [contains]. rewrite IH. apply orb_true_r.
Qed.

Lemma display_plain_cites_lemma : forall kt path src k p s,
  display_plain kt path src k p = Ok s -> is_prefix (cite path (np_row p) (np_col p)) s = true.
Proof.
  intros kt path src k p s. unfold display_plain.
  destruct (range_is_empty p).
  - intros E. injection E as <-. rewrite <- !app_assoc. apply is_prefix_app.
  - destruct (slice_bytes 1 src (np_start p) (np_end p)) as [txt| | |]; cbn [obind]; try discriminate.
    destruct (slice_bytes 2 src _ _) as [text| | |]; cbn [obind]; try discriminate.
    intros E. injection E as <-. rewrite <- !app_assoc. apply is_prefix_app.
Qed.

Lemma display_pretty_cites_lemma : forall kt path src k p s,
  display_pretty kt path src k p = Ok s -> contains (cite path (np_row p) (np_col p)) s = true.
Proof.
  intros kt path src k p s. unfold display_pretty.
  destruct (slice_bytes 3 src (np_start p) (np_end p)) as [txt| | |]; cbn [obind]; try discriminate.
  intros E. injection E as <-. unfold excerpt.
  destruct (nth_error (lines src) (N.to_nat (np_row p)));
    rewrite <- (app_assoc (cite path (np_row p) (np_col p))); apply contains_app.
Qed.

(* a zero-width node (every MISSING node): empty slice, excerpt with the empty column range col..col *)
Lemma display_pretty_zero_width_lemma : forall kt path src k p,
  wf_pos src p = true -> np_start p = np_end p ->
  display_pretty kt path src k p =
    Ok ((kt k ++ [10]) ++ excerpt path src (np_row p) (np_col p) (np_col p)).
Proof.
  intros kt path src k p Hwf E. unfold wf_pos, is_boundary in Hwf.
  apply andb_true_iff in Hwf. destruct Hwf as [Hwf _]. apply andb_true_iff in Hwf. destruct Hwf as [_ Ha].
  unfold display_pretty, slice_bytes. rewrite <- E.
  destruct (N.ltb_spec (np_start p) (np_start p)); [lia|].
  destruct (split_at_byte src (np_start p)) as [[x rest]|]; [|discriminate].
  rewrite N.sub_diag, split_at_byte_0. cbn [obind until_nl length N.of_nat].
  rewrite N.add_0_r. reflexivity.
Qed.

(* ------------------------------------------------------------------ `dec` is the decimal numeral *)

Lemma dec_aux_acc : forall fuel n acc, dec_aux fuel n acc = dec_aux fuel n [] ++ acc.
Proof.
  induction fuel as [|f IH]; intros n acc; cbn [dec_aux]; [reflexivity|].
  destruct (n <? 10); [reflexivity|].
  rewrite (IH (n / 10) ((48 + n mod 10) :: acc)), (IH (n / 10) [48 + n mod 10]).
  rewrite <- app_assoc. reflexivity.
Qed.

Lemma undec_snoc s d : undec (s ++ [d]) = 10 * undec s + (d - 48).
Proof. unfold undec. rewrite fold_left_app. reflexivity. Qed.

Lemma dec_aux_correct : forall fuel n, n < 2 ^ N.of_nat fuel -> undec (dec_aux fuel n []) = n.
Proof.
  induction fuel as [|f IH]; intros n Hn.
  - cbn in Hn. assert (n = 0) by lia. subst. reflexivity.
  - cbn [dec_aux]. destruct (N.ltb_spec n 10) as [L|L].
    + rewrite N.mod_small by lia. unfold undec. cbn [fold_left]. lia.
    + rewrite dec_aux_acc, undec_snoc. rewrite IH.
      * assert (D : n = 10 * (n / 10) + n mod 10) by (apply N.div_mod; lia).
        assert (M : n mod 10 < 10) by (apply N.mod_lt; lia).
        revert D M. generalize (n / 10) (n mod 10). intros q d D M. lia.
      * rewrite Nat2N.inj_succ, N.pow_succ_r' in Hn.
        apply N.div_lt_upper_bound; lia.
Qed.

Lemma dec_correct n : undec (dec n) = n.
Proof.
  unfold dec. apply dec_aux_correct.
  rewrite Nat2N.inj_succ, N2Nat.id, N.pow_succ_r'.
  pose proof (N.size_gt n). lia.
Qed.

(* membership form of the specification: p is reported iff it classifies a node of the tree none of whose proper
   ancestors is flagged *)
Lemma outermost_In_iff t p :
  In p (outermost t) <-> exists x, In x (preorder_anc false t) /\ fst x = false /\ classify (snd x) = Some p.
Proof.
  rewrite <- outermost_decl_eq. unfold outermost_decl. rewrite in_flat_map. split.
  - intros [x [Hin Hp]]. exists x. split; [exact Hin|]. unfold report_of in Hp.
    destruct (fst x); [destruct Hp|]. destruct (classify (snd x)) as [q|]; [|destruct Hp].
    destruct Hp as [->|[]]. split; reflexivity.
  - intros [x [Hin [Hf Hc]]]. exists x. split; [exact Hin|]. unfold report_of. rewrite Hf, Hc. left. reflexivity.
Qed.
