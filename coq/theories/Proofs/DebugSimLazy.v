(* Proofs/DebugSimLazy.v — C15 (neutrality half, lazy interpreter): the run with debug attributes configured
   and the run without them proceed in lockstep through the execution phase AND the evaluation phase.
   The graphs are related by erasing the debug names; the pending edge statements are related by erasing
   the debug names from the attributes computed at execution time; everything else (locals, thunk store,
   scoped cells, attribute and print statements, parameters, prev_element_debug_info) is equal; values,
   errors (contexts included), panics and poll traces are identical.
   The erasure (erase_amap / erase_node / erase_graph) and its lemmas come from Proofs/DebugSim.v. *)
From TSG Require Import Model.Lazy Proofs.BaseFacts Proofs.MonadFacts Proofs.StrictMeta Proofs.Containers Proofs.DebugAttrs Proofs.DebugSim.

Section NamesL.
  Variable is_dbg : ident -> bool.

  (* lazy attribute statements only use non-debug names *)
  Definition name_ok (a : ident * lvalue) : Prop := is_dbg (fst a) = false.
  Definition lstmt_ok (st : lstmt) : Prop :=
    match st with
    | LSAttrNode _ attrs _ | LSAttrEdge _ _ attrs _ => Forall name_ok attrs
    | _ => True
    end.
  (* the plain run's pending `edge` statement: the debug run's with the debug names erased *)
  Definition erase_lstmt (st : lstmt) : lstmt :=
    match st with LSEdge a b ea dbg => LSEdge a b (erase_amap is_dbg ea) dbg | _ => st end.

  Definition RL (s1 s0 : lstate) : Prop :=
    erase_graph is_dbg (l_graph s1) = l_graph s0 /\
    l_locals s1 = l_locals s0 /\ l_store s1 = l_store s0 /\ l_scoped s1 = l_scoped s0 /\
    map erase_lstmt (l_edges s1) = l_edges s0 /\ map erase_lstmt (l_attrs s1) = l_attrs s0 /\ map erase_lstmt (l_prints s1) = l_prints s0 /\
    l_params s1 = l_params s0 /\ l_prev s1 = l_prev s0 /\
    Forall lstmt_ok (l_edges s1) /\ Forall lstmt_ok (l_attrs s1) /\ Forall lstmt_ok (l_prints s1).

  (* lockstep simulation with a postcondition on the (common) result *)
  Definition lsimP {A} (P : A -> Prop) (m1 m0 : M lstate A) : Prop :=
    forall s1 s0 p, RL s1 s0 ->
      match m1 s1 p with
      | Ok (a, s1', p') => P a /\ exists s0', m0 s0 p = Ok (a, s0', p') /\ RL s1' s0'
      | Err e => m0 s0 p = Err e
      | Panic x => m0 s0 p = Panic x
      | OutOfFuel => m0 s0 p = OutOfFuel
      end.
  Notation lsim := (lsimP (fun _ => True)).

  Lemma lsimP_weaken A (P Q : A -> Prop) (m1 m0 : M lstate A) : (forall a, P a -> Q a) -> lsimP P m1 m0 -> lsimP Q m1 m0.
  Proof.
    intros HPQ Hm s1 s0 p H. specialize (Hm s1 s0 p H). destruct (m1 s1 p) as [[[a s1'] p']|e|x|]; try exact Hm.
    destruct Hm as (Pa & Hm). split; [apply HPQ, Pa|exact Hm].
  Qed.
  Lemma lsimP_ret A (P : A -> Prop) (a : A) : P a -> lsimP P (ret a) (ret a).
  Proof. intros Pa s1 s0 p H. cbn. split; [exact Pa|]. exists s0. auto. Qed.
  Lemma lsim_ret A (a : A) : lsim (ret a) (ret a).
  Proof. apply lsimP_ret. exact I. Qed.
  Lemma lsimP_bind A B (P : A -> Prop) (Q : B -> Prop) (m1 m0 : M lstate A) (f1 f0 : A -> M lstate B) :
    lsimP P m1 m0 -> (forall a, P a -> lsimP Q (f1 a) (f0 a)) -> lsimP Q (bind m1 f1) (bind m0 f0).
  Proof.
    intros Hm Hf s1 s0 p H. specialize (Hm s1 s0 p H). unfold bind. destruct (m1 s1 p) as [[[a s1'] p']|e|x|].
    - destruct Hm as (Pa & s0' & Hr & HR). rewrite Hr. apply Hf; [exact Pa|exact HR].
    - rewrite Hm. reflexivity.
    - rewrite Hm. reflexivity.
    - rewrite Hm. reflexivity.
  Qed.
  Lemma lsim_bind A B (Q : B -> Prop) (m1 m0 : M lstate A) (f1 f0 : A -> M lstate B) :
    lsim m1 m0 -> (forall a, lsimP Q (f1 a) (f0 a)) -> lsimP Q (bind m1 f1) (bind m0 f0).
  Proof. intros Hm Hf. apply (lsimP_bind _ _ (fun _ => True)); [exact Hm|]. intros a _. apply Hf. Qed.
  Lemma lsim_ctx A (P : A -> Prop) c (m1 m0 : M lstate A) : lsimP P m1 m0 -> lsimP P (ctx_wrap c m1) (ctx_wrap c m0).
  Proof.
    intros Hm s1 s0 p H. specialize (Hm s1 s0 p H). unfold ctx_wrap. destruct (m1 s1 p) as [[[a s1'] p']|e|x|].
    - destruct Hm as (Pa & s0' & Hr & HR). rewrite Hr. eauto.
    - rewrite Hm. reflexivity.
    - rewrite Hm. reflexivity.
    - rewrite Hm. reflexivity.
  Qed.
  Lemma lsim_fail A (P : A -> Prop) e : lsimP P (@fail lstate A e) (fail e). Proof. intros s1 s0 p H. reflexivity. Qed.
  Lemma lsim_fail_in A (P : A -> Prop) c e : lsimP P (@fail_in A c e) (fail_in c e). Proof. intros s1 s0 p H. reflexivity. Qed.
  Lemma lsim_panic A (P : A -> Prop) x : lsimP P (@panic lstate A x) (panic x). Proof. intros s1 s0 p H. reflexivity. Qed.
  Lemma lsim_oof A (P : A -> Prop) : lsimP P (@out_of_fuel lstate A) out_of_fuel. Proof. intros s1 s0 p H. reflexivity. Qed.
  Lemma lsim_lift A (r : res A) : lsim (lift r) (lift r).
  Proof. intros s1 s0 p H. destruct r; cbn; try reflexivity. split; [exact I|]. exists s0. auto. Qed.
  Lemma lsim_lpoll l : lsim (lpoll l) (lpoll l).
  Proof. intros s1 s0 p H. unfold lpoll, poll. destruct (poll_step l p) as [q c]. destruct c; [reflexivity|]. split; [exact I|]. exists s0. auto. Qed.
  Lemma lsimP_mapM_in A B (P : B -> Prop) (f1 f0 : A -> M lstate B) l :
    (forall x, In x l -> lsimP P (f1 x) (f0 x)) -> lsimP (Forall P) (mapM f1 l) (mapM f0 l).
  Proof.
    induction l as [|x l IH]; intros H; cbn [mapM]; [apply lsimP_ret; constructor|].
    apply (lsimP_bind _ _ P); [apply H; left; reflexivity|]. intros y Py.
    apply (lsimP_bind _ _ (Forall P)); [apply IH; intros z Hz; apply H; right; exact Hz|]. intros ys Pys. apply lsimP_ret. constructor; assumption.
  Qed.
  Lemma lsim_mapM_in A B (f1 f0 : A -> M lstate B) l : (forall x, In x l -> lsim (f1 x) (f0 x)) -> lsim (mapM f1 l) (mapM f0 l).
  Proof. intros H. eapply lsimP_weaken; [|apply lsimP_mapM_in; exact H]. auto. Qed.
  (* the two runs may iterate over different but pointwise related lists *)
  Lemma lsim_iterM_map A (f1 f0 : A -> M lstate unit) (g : A -> A) l :
    (forall x, In x l -> lsim (f1 x) (f0 (g x))) -> lsim (iterM f1 l) (iterM f0 (map g l)).
  Proof.
    induction l as [|x l IH]; intros H; cbn [iterM map]; [apply lsim_ret|]. apply lsim_bind; [apply H; left; reflexivity|]. intros _.
    apply IH. intros z Hz. apply H. right. exact Hz.
  Qed.
  Lemma lsim_iterM_in A (f1 f0 : A -> M lstate unit) l : (forall x, In x l -> lsim (f1 x) (f0 x)) -> lsim (iterM f1 l) (iterM f0 l).
  Proof. intros H. rewrite <- (map_id l) at 2. apply lsim_iterM_map. exact H. Qed.
  Lemma lsim_get A (P : A -> Prop) (f1 f0 : lstate -> M lstate A) :
    (forall s1 s0, RL s1 s0 -> lsimP P (f1 s1) (f0 s0)) -> lsimP P (s <- get_state ;; f1 s) (s <- get_state ;; f0 s).
  Proof. intros H s1 s0 p HR. unfold bind, get_state. apply (H s1 s0 HR s1 s0 p HR). Qed.

  (* ---- field setters ---- *)
  Ltac rl_split :=
    unfold RL; cbn [l_graph l_locals l_store l_scoped l_edges l_attrs l_prints l_params l_prev]; repeat split; try assumption.
  Ltac setter :=
    let s1 := fresh "s1" in let s0 := fresh "s0" in let p := fresh "p" in
    intros s1 s0 p (Hg & Hl & Hst & Hsc & He & Ha & Hp & Hps & Hpv & Fe & Fa & Fp);
    unfold set_lgraph, set_llocals, set_lstore, set_lscoped, set_lparams, set_lprev, upd, modify;
    split; [exact I|]; eexists; split; [reflexivity|]; rl_split.

  Lemma lsim_set_lgraph g1 g0 : erase_graph is_dbg g1 = g0 -> lsim (set_lgraph g1) (set_lgraph g0).
  Proof. intros Hgg. setter. Qed.
  Lemma lsim_set_llocals x : lsim (set_llocals x) (set_llocals x). Proof. setter. Qed.
  Lemma lsim_set_lstore x : lsim (set_lstore x) (set_lstore x). Proof. setter. Qed.
  Lemma lsim_set_lscoped x : lsim (set_lscoped x) (set_lscoped x). Proof. setter. Qed.
  Lemma lsim_set_lparams x : lsim (set_lparams x) (set_lparams x). Proof. setter. Qed.
  Lemma lsim_set_lprev x : lsim (set_lprev x) (set_lprev x). Proof. setter. Qed.

  Lemma lsim_push_lstmt st : lstmt_ok st -> lsim (push_lstmt st) (push_lstmt (erase_lstmt st)).
  Proof.
    intros Hok s1 s0 p (Hg & Hl & Hst & Hsc & He & Ha & Hp & Hps & Hpv & Fe & Fa & Fp).
    unfold push_lstmt, upd, modify. split; [exact I|]. eexists. split; [reflexivity|].
    destruct st; cbn [erase_lstmt]; rl_split.
    all: try (rewrite map_app, He; reflexivity); try (rewrite map_app, Ha; reflexivity); try (rewrite map_app, Hp; reflexivity).
    all: apply Forall_app; split; [assumption|constructor; [exact Hok|constructor]].
  Qed.

  (* get_state followed by code that only looks at the fields that are equal in both runs *)
  Ltac lget :=
    apply lsim_get;
    let s1 := fresh "s1" in let s0 := fresh "s0" in let HR := fresh "HR" in
    let Hg := fresh "Hg" in let Hl := fresh "Hl" in let Hst := fresh "Hst" in let Hsc := fresh "Hsc" in
    let He := fresh "He" in let Ha := fresh "Ha" in let Hp := fresh "Hp" in let Hps := fresh "Hps" in let Hpv := fresh "Hpv" in
    let Fe := fresh "Fe" in let Fa := fresh "Fa" in let Fp := fresh "Fp" in
    intros s1 s0 HR; pose proof HR as (Hg & Hl & Hst & Hsc & He & Ha & Hp & Hps & Hpv & Fe & Fa & Fp);
    cbv beta zeta; rewrite ?Hl, ?Hst, ?Hsc, ?Hps, ?Hpv.

  (* syntactic dispatch (plain `apply` would unfold the monad and search for ever) *)
  Ltac lsim_step0 :=
    lazymatch goal with
    | |- lsimP _ (ret _) _ => apply lsim_ret
    | |- lsimP _ (set_llocals _) _ => apply lsim_set_llocals
    | |- lsimP _ (set_lstore _) _ => apply lsim_set_lstore
    | |- lsimP _ (set_lscoped _) _ => apply lsim_set_lscoped
    | |- lsimP _ (set_lparams _) _ => apply lsim_set_lparams
    | |- lsimP _ (set_lprev _) _ => apply lsim_set_lprev
    | |- lsimP _ (panic _) _ => apply lsim_panic
    | |- lsimP _ out_of_fuel _ => apply lsim_oof
    | |- lsimP _ (fail _) _ => apply lsim_fail
    | |- lsimP _ (fail_in _ _) _ => apply lsim_fail_in
    | |- lsimP _ (lift _) _ => apply lsim_lift
    | |- lsimP _ (lpoll _) _ => apply lsim_lpoll
    | |- lsimP _ (bind get_state _) _ => lget
    | |- lsimP _ (bind _ _) _ => apply lsim_bind; [|intros ?]
    | |- lsimP _ (ctx_wrap _ _) _ => apply lsim_ctx
    | |- lsimP _ (mapM _ _) _ => apply lsim_mapM_in; intros ? _
    | |- lsimP _ (iterM _ _) _ => apply lsim_iterM_in; intros ? _
    | |- lsimP _ (match ?x with _ => _ end) (match ?x with _ => _ end) => destruct x
    end.

  Lemma lsim_lpoll_n n l : lsim (lpoll_n n l) (lpoll_n n l).
  Proof. induction n as [|n IH]; cbn [lpoll_n]; [apply lsim_ret|]. apply lsim_bind; [apply lsim_lpoll|intros _; exact IH]. Qed.
  Lemma lsim_lpush_frame : lsim lpush_frame lpush_frame. Proof. unfold lpush_frame. repeat lsim_step0. Qed.
  Lemma lsim_lpop_frame : lsim lpop_frame lpop_frame. Proof. unfold lpop_frame. repeat lsim_step0. Qed.
  Lemma lsim_lclear_frame : lsim lclear_frame lclear_frame. Proof. unfold lclear_frame. repeat lsim_step0. Qed.
  Lemma lsim_store_add lv dbg : lsim (store_add lv dbg) (store_add lv dbg). Proof. unfold store_add. repeat lsim_step0. Qed.
  Lemma lsim_store_set_state loc st : lsim (store_set_state loc st) (store_set_state loc st). Proof. unfold store_set_state. repeat lsim_step0. Qed.
  Lemma lsim_cell_get name : lsim (cell_get name) (cell_get name). Proof. unfold cell_get. repeat lsim_step0. Qed.
  Lemma lsim_cell_set name v : lsim (cell_set name v) (cell_set name v). Proof. unfold cell_set. repeat lsim_step0. Qed.
  Lemma lsim_scoped_store_add sc name v dbg : lsim (scoped_store_add sc name v dbg) (scoped_store_add sc name v dbg).
  Proof.
    unfold scoped_store_add. apply lsim_bind; [apply lsim_cell_get|intros c].
    destruct c as [[| |]|]; first [apply lsim_cell_set | apply lsim_fail].
  Qed.
  Lemma lsim_lpush_param v : lsim (lpush_param v) (lpush_param v). Proof. unfold lpush_param. repeat lsim_step0. Qed.
  Lemma lsim_ldrain_params n : lsim (ldrain_params n) (ldrain_params n). Proof. unfold ldrain_params. repeat lsim_step0. Qed.
  Lemma lsim_prev_insert k dbg : lsim (prev_insert k dbg) (prev_insert k dbg). Proof. unfold prev_insert. repeat lsim_step0. Qed.
  Lemma lsim_lfull_match_node le : lsim (lfull_match_node le) (lfull_match_node le). Proof. unfold lfull_match_node. repeat lsim_step0. Qed.

  (* ---- graph primitives ---- *)
  Lemma lsim_ladd_node : lsim ladd_node ladd_node.
  Proof.
    unfold ladd_node. lget. unfold add_graph_node. rewrite <- Hg, erase_length.
    apply lsim_bind; [|intros _; apply lsim_ret]. apply lsim_set_lgraph. unfold erase_graph. rewrite map_app. reflexivity.
  Qed.

  (* evaluation-phase attribute statements use non-debug names: they commute with erasure *)
  Lemma lsim_lattr_node_add n k v prev dbg : is_dbg k = false -> lsim (lattr_node_add n k v prev dbg) (lattr_node_add n k v prev dbg).
  Proof.
    intros Hk. unfold lattr_node_add. lget. rewrite <- Hg, erase_gnode_at.
    destruct (gnode_at (l_graph s1) n) as [nd|]; cbn [option_map]; [|apply lsim_panic].
    cbn [erase_node g_attrs]. rewrite (erase_attrs_add is_dbg (g_attrs nd) k v Hk).
    destruct (attrs_add (g_attrs nd) k v) as [m' c]. cbn [fst snd]. destruct c; [apply lsim_fail_in|].
    apply lsim_set_lgraph. apply erase_graph_update. intros nd0. apply erase_with_attrs.
  Qed.
  Lemma lsim_lattr_edge_add a b k v prev dbg : is_dbg k = false -> lsim (lattr_edge_add a b k v prev dbg) (lattr_edge_add a b k v prev dbg).
  Proof.
    intros Hk. unfold lattr_edge_add. lget. rewrite <- Hg, erase_gnode_at.
    destruct (gnode_at (l_graph s1) a) as [nd|]; cbn [option_map]; [|apply lsim_panic].
    cbn [erase_node g_edges]. rewrite erase_edges_get. destruct (edges_get b (g_edges nd)) as [m|]; cbn [option_map]; [|apply lsim_fail].
    rewrite (erase_attrs_add is_dbg m k v Hk). destruct (attrs_add m k v) as [m' c]. cbn [fst snd]. destruct c; [apply lsim_fail_in|].
    apply lsim_set_lgraph. apply erase_graph_update. intros nd0. rewrite erase_with_edges, erase_edges_set. reflexivity.
  Qed.
  Lemma lsim_ledge_exists a b : lsim (ledge_exists a b) (ledge_exists a b).
  Proof.
    unfold ledge_exists. lget. rewrite <- Hg, erase_gnode_at.
    destruct (gnode_at (l_graph s1) a) as [nd|]; cbn [option_map]; [|apply lsim_panic].
    cbn [erase_node g_edges]. rewrite erase_edges_get. destruct (edges_get b (g_edges nd)); cbn [option_map]; apply lsim_ret.
  Qed.
  (* a NEW edge gets the attributes computed at execution time: all of them in the debug run, the erased ones in the plain run *)
  Lemma lsim_ledge_add a b ea : lsim (ledge_add a b ea) (ledge_add a b (erase_amap is_dbg ea)).
  Proof.
    unfold ledge_add. lget. unfold graph_add_edge. rewrite <- Hg, erase_gnode_at.
    destruct (gnode_at (l_graph s1) a) as [nd|]; cbn [option_map]; [|apply lsim_panic].
    cbn [erase_node g_edges]. rewrite erase_edges_add. destruct (edges_add b (g_edges nd)) as [isnew es]. cbn [fst snd].
    assert (E1 : erase_graph is_dbg (graph_update (l_graph s1) a (with_edges es)) =
                 graph_update (erase_graph is_dbg (l_graph s1)) a (with_edges (map (fun e => (fst e, erase_amap is_dbg (snd e))) es))).
    { apply erase_graph_update. intros nd0. apply erase_with_edges. }
    destruct isnew; apply lsim_set_lgraph; [|exact E1].
    rewrite <- E1. apply erase_graph_update. intros nd0. rewrite erase_with_edges. cbn [erase_node g_edges]. rewrite erase_edges_set. reflexivity.
  Qed.

  Section InterpL.
    Context {rx : Type}.
    Variables (t : tree) (fl : file) (glob : globals) (regexes : list rx)
              (find : rx -> str -> option (list (option (N * N))))
              (call : ident -> graph -> list value -> res (value * graph)).
    Hypothesis Hcall : call_erasable is_dbg call.

    Lemma lsim_lcall f args : lsim (lcall_function call f args) (lcall_function call f args).
    Proof.
      unfold lcall_function. lget. rewrite <- Hg.
      pose proof (Hcall f (l_graph s1) args) as Hc. destruct (call f (l_graph s1) args) as [[v g']|e|x|]; rewrite Hc.
      - apply lsim_bind; [apply lsim_set_lgraph; reflexivity|intros _; apply lsim_ret].
      - apply lsim_fail.
      - apply lsim_panic.
      - apply lsim_oof.
    Qed.

    Ltac lsim_step :=
      lazymatch goal with
      | |- lsimP _ (lpoll_n _ _) _ => apply lsim_lpoll_n
      | |- lsimP _ lpush_frame _ => apply lsim_lpush_frame
      | |- lsimP _ lpop_frame _ => apply lsim_lpop_frame
      | |- lsimP _ lclear_frame _ => apply lsim_lclear_frame
      | |- lsimP _ (store_add _ _) _ => apply lsim_store_add
      | |- lsimP _ (store_set_state _ _) _ => apply lsim_store_set_state
      | |- lsimP _ (cell_get _) _ => apply lsim_cell_get
      | |- lsimP _ (cell_set _ _) _ => apply lsim_cell_set
      | |- lsimP _ (scoped_store_add _ _ _ _) _ => apply lsim_scoped_store_add
      | |- lsimP _ (lpush_param _) _ => apply lsim_lpush_param
      | |- lsimP _ (ldrain_params _) _ => apply lsim_ldrain_params
      | |- lsimP _ (prev_insert _ _) _ => apply lsim_prev_insert
      | |- lsimP _ (lfull_match_node _) _ => apply lsim_lfull_match_node
      | |- lsimP _ (ledge_exists _ _) _ => apply lsim_ledge_exists
      | |- lsimP _ (lcall_function _ _ _) _ => apply lsim_lcall
      | |- lsimP _ ladd_node _ => apply lsim_ladd_node
      | |- _ => lsim_step0
      end.
    Ltac lsims := repeat lsim_step.

    Lemma lsim_lunscoped_get name : lsim (lunscoped_get glob name) (lunscoped_get glob name).
    Proof. unfold lunscoped_get. lsims. Qed.
    Lemma lsim_lunscoped_add le name v m : lsim (lunscoped_add glob le name v m) (lunscoped_add glob le name v m).
    Proof. unfold lunscoped_add. lsims. Qed.
    Lemma lsim_lunscoped_set le name v : lsim (lunscoped_set glob le name v) (lunscoped_set glob le name v).
    Proof. unfold lunscoped_set. lsims. Qed.

    (* ---- evaluation: does not depend on the configuration at all ---- *)
    Lemma lsim_force_pairs ev : (forall sc, lsim (ev sc) (ev sc)) ->
      forall ps values dbgs, lsim (force_pairs ev ps values dbgs) (force_pairs ev ps values dbgs).
    Proof.
      intros Hev. induction ps as [|[[scope v] dbg] ps IHp]; intros values dbgs; cbn [force_pairs]; [apply lsim_ret|].
      apply lsim_bind; [apply lsim_ctx, lsim_ctx, Hev|intros n].
      destruct (nmap_get values n); [|apply IHp]. destruct (dbg_get dbgs n); [apply lsim_fail_in|apply lsim_panic].
    Qed.

    Notation eval_lv' := (eval_lv t fl call).
    Notation force_thunk' := (force_thunk t fl call).
    Notation force_scoped' := (force_scoped t fl call).

    Lemma lsim_eval_all : forall fuel,
      (forall lv, lsim (eval_lv' fuel lv) (eval_lv' fuel lv)) /\
      (forall loc, lsim (force_thunk' fuel loc) (force_thunk' fuel loc)) /\
      (forall name cell, lsim (force_scoped' fuel name cell) (force_scoped' fuel name cell)).
    Proof.
      induction fuel as [|fuel (IHe & IHt & IHs)]; [repeat split; intros; apply lsim_oof|].
      repeat split.
      - intros lv. destruct lv; cbn [eval_lv]; (apply lsim_bind; [apply lsim_lpoll|intros _]).
        + apply lsim_ret.
        + lsims. apply IHe.
        + lsims. apply IHe.
        + apply IHt.
        + apply lsim_bind.
          { apply lsim_ctx. apply lsim_bind; [apply IHe|intros sv; apply lsim_lift]. }
          intros n. apply lsim_bind; [apply lsim_cell_get|intros c]. destruct c as [cell|]; [|apply lsim_fail].
          apply lsim_bind; [apply lsim_cell_set|intros _]. apply lsim_bind; [apply IHs|intros map]. cbv zeta.
          apply lsim_bind; [apply lsim_cell_set|intros _].
          match goal with |- lsimP _ (match ?x with _ => _ end) _ => destruct x end; [apply IHe|apply lsim_fail].
        + lsims. apply IHe.
      - intros loc. cbn [force_thunk]. lget.
        destruct (nth_error (l_store s0) (N.to_nat loc)) as [th|]; [|apply lsim_panic].
        apply lsim_ctx. destruct (th_state th); lsims. apply IHe.
      - intros name cell. cbn [force_scoped]. destruct cell as [pairs| |map]; [|apply lsim_fail|apply lsim_ret].
        apply lsim_force_pairs. intros scope. apply lsim_bind; [exact (IHe scope)|intros sv; apply lsim_lift].
    Qed.
    Lemma lsim_eval_lv fuel lv : lsim (eval_lv' fuel lv) (eval_lv' fuel lv). Proof. apply lsim_eval_all. Qed.
    Lemma lsim_force_thunk fuel loc : lsim (force_thunk' fuel loc) (force_thunk' fuel loc). Proof. apply lsim_eval_all. Qed.
    Lemma lsim_force_scoped fuel name cell : lsim (force_scoped' fuel name cell) (force_scoped' fuel name cell). Proof. apply lsim_eval_all. Qed.

    Lemma lsim_eval_as_gnode fuel lv : lsim (eval_as_gnode t fl call fuel lv) (eval_as_gnode t fl call fuel lv).
    Proof. unfold eval_as_gnode. apply lsim_bind; [apply lsim_eval_lv|intros v; apply lsim_lift]. Qed.

    (* a pending statement of the debug run against its erased counterpart of the plain run *)
    Lemma lsim_eval_lstmt fuel st : lstmt_ok st -> lsim (eval_lstmt t fl call fuel st) (eval_lstmt t fl call fuel (erase_lstmt st)).
    Proof.
      intros Hok. unfold eval_lstmt. apply lsim_bind; [apply lsim_lpoll|intros _]. destruct st; cbn [erase_lstmt lstmt_ok] in *.
      - apply lsim_ctx. apply lsim_bind; [apply lsim_ctx, lsim_eval_as_gnode|intros n]. apply lsim_iterM_in. intros a Hin.
        apply lsim_bind; [apply lsim_eval_lv|intros v]. apply lsim_bind; [apply lsim_prev_insert|intros prev].
        apply lsim_lattr_node_add. rewrite Forall_forall in Hok. apply (Hok a Hin).
      - apply lsim_ctx. apply lsim_bind; [apply lsim_ctx, lsim_eval_as_gnode|intros a]. apply lsim_bind; [apply lsim_ctx, lsim_eval_as_gnode|intros b].
        apply lsim_ledge_add.
      - apply lsim_ctx. apply lsim_bind; [apply lsim_ctx, lsim_eval_as_gnode|intros a]. apply lsim_bind; [apply lsim_ctx, lsim_eval_as_gnode|intros b].
        apply lsim_iterM_in. intros ak Hin. apply lsim_bind; [apply lsim_eval_lv|intros v]. apply lsim_bind; [apply lsim_ledge_exists|intros ex].
        destruct ex; [|apply lsim_fail]. apply lsim_bind; [apply lsim_prev_insert|intros prev].
        apply lsim_lattr_edge_add. rewrite Forall_forall in Hok. apply (Hok ak Hin).
      - apply lsim_ctx. apply lsim_iterM_in. intros a _. destruct a; [|apply lsim_ret]. apply lsim_bind; [apply lsim_eval_lv|intros _; apply lsim_ret].
    Qed.

    Lemma lsim_evaluate_phase fuel : lsim (evaluate_phase t fl call fuel) (evaluate_phase t fl call fuel).
    Proof.
      unfold evaluate_phase. apply lsim_get. intros s1 s0 (Hg & Hl & Hst & Hsc & He & Ha & Hp & Hps & Hpv & Fe & Fa & Fp).
      rewrite <- He, <- Ha, <- Hp. rewrite Forall_forall in Fe, Fa, Fp.
      apply lsim_bind; [apply lsim_iterM_map; intros x Hin; apply lsim_eval_lstmt, Fe, Hin|intros _].
      apply lsim_bind; [apply lsim_iterM_map; intros x Hin; apply lsim_eval_lstmt, Fa, Hin|intros _].
      apply lsim_bind; [apply lsim_iterM_map; intros x Hin; apply lsim_eval_lstmt, Fp, Hin|intros _].
      apply lsim_bind.
      - unfold store_evaluate_all. lget. apply lsim_iterM_in. intros i _. apply lsim_bind; [apply lsim_force_thunk|intros _; apply lsim_ret].
      - intros _. unfold scoped_evaluate_all. lget. apply lsim_iterM_in. intros name _.
        apply lsim_bind; [apply lsim_cell_get|intros c]. destruct c as [cell|]; [|apply lsim_ret].
        apply lsim_bind; [apply lsim_cell_set|intros _]. apply lsim_bind; [apply lsim_force_scoped|intros map]. apply lsim_cell_set.
    Qed.

    (* ---- the `node` statement: the debug run decorates the fresh node during the execution phase ---- *)
    Definition with_lgraph (g : graph) (s : lstate) : lstate :=
      {| l_graph := g; l_locals := l_locals s; l_store := l_store s; l_scoped := l_scoped s; l_edges := l_edges s;
         l_attrs := l_attrs s; l_prints := l_prints s; l_params := l_params s; l_prev := l_prev s |}.
    Lemma ladd_node_eq s p : ladd_node s p = Ok (N.of_nat (length (l_graph s)), with_lgraph (l_graph s ++ [new_gnode]) s, p).
    Proof. reflexivity. Qed.
    Lemma bind_ok_eq {A B} (m : M lstate A) (f : A -> M lstate B) s p a s' p' : m s p = Ok (a, s', p') -> bind m f s p = f a s' p'.
    Proof. intros H. unfold bind. rewrite H. reflexivity. Qed.

    Lemma ladd_node_attr_dbg n k v s1 s0 p nd : is_dbg k = true -> RL s1 s0 ->
      gnode_at (l_graph s1) n = Some nd -> alist_get k (g_attrs nd) = None ->
      exists s1', ladd_node_attr n k v s1 p = Ok (tt, s1', p) /\ RL s1' s0 /\
                  gnode_at (l_graph s1') n = Some (with_attrs (g_attrs nd ++ [(k, v)]) nd).
    Proof.
      intros Hk (Hg & Hl & Hst & Hsc & He & Ha & Hp & Hps & Hpv & Fe & Fa & Fp) Hn Hnone.
      unfold ladd_node_attr, bind, get_state. rewrite Hn. unfold attrs_add. rewrite Hnone. unfold set_lgraph, upd, modify.
      eexists. split; [reflexivity|]. split.
      - rl_split. rewrite <- Hg. apply (erase_graph_update_same is_dbg _ _ _ nd Hn).
        unfold erase_node, with_attrs; cbn [g_attrs g_edges].
        destruct (erase_attrs_add_dbg is_dbg (g_attrs nd) k v Hk Hnone) as [_ Hera]. rewrite Hera. reflexivity.
      - cbn [l_graph]. apply graph_update_at, Hn.
    Qed.

    Lemma lopt_dbg_step n o v s1 s0 p nd : RL s1 s0 -> gnode_at (l_graph s1) n = Some nd ->
      (forall k, o = Some k -> is_dbg k = true /\ alist_get k (g_attrs nd) = None) ->
      exists s1' nd', lopt_node_attr n o v s1 p = Ok (tt, s1', p) /\ RL s1' s0 /\ gnode_at (l_graph s1') n = Some nd' /\
        (forall k', (forall k, o = Some k -> str_eqb k' k = false) -> alist_get k' (g_attrs nd) = None -> alist_get k' (g_attrs nd') = None).
    Proof.
      intros HR Hn Ho. destruct o as [k|]; cbn [lopt_node_attr].
      - destruct (Ho k eq_refl) as [Hk Hnone].
        destruct (ladd_node_attr_dbg n k v s1 s0 p nd Hk HR Hn Hnone) as (s1' & E & HR' & Hn').
        exists s1', (with_attrs (g_attrs nd ++ [(k, v)]) nd). split; [exact E|]. split; [exact HR'|]. split; [exact Hn'|].
        intros k' Hk' Hgt. cbn [with_attrs g_attrs]. apply alist_get_app_none; [exact Hgt|]. apply Hk'. reflexivity.
      - exists s1, nd. split; [reflexivity|]. split; [exact HR|]. split; [exact Hn|]. auto.
    Qed.

    Lemma lsim_node_stmt le (o1 o2 o3 : option ident) v1 v2 (K1 K0 : N -> M lstate unit) :
      nodes_for_capture (ll_match le) (ll_full le) <> [] ->
      (forall k, o1 = Some k -> is_dbg k = true) -> (forall k, o2 = Some k -> is_dbg k = true) -> (forall k, o3 = Some k -> is_dbg k = true) ->
      (forall a b, o2 = Some a -> o1 = Some b -> str_eqb a b = false) ->
      (forall a b, o3 = Some a -> o1 = Some b -> str_eqb a b = false) ->
      (forall a b, o3 = Some a -> o2 = Some b -> str_eqb a b = false) ->
      (forall n, lsim (K1 n) (K0 n)) ->
      lsim (n <- ladd_node ;;
            lopt_node_attr n o1 v1 ;;;
            lopt_node_attr n o2 v2 ;;;
            match o3 with
            | Some k => mn <- lfull_match_node le ;; ladd_node_attr n k (VSyn mn)
            | None => ret tt
            end ;;; K1 n)
           (n <- ladd_node ;;
            lopt_node_attr n (c_var_attr config0) v1 ;;;
            lopt_node_attr n (c_loc_attr config0) v2 ;;;
            match c_match_attr config0 with
            | Some k => mn <- lfull_match_node le ;; ladd_node_attr n k (VSyn mn)
            | None => ret tt
            end ;;; K0 n).
    Proof.
      intros Hfull H1 H2 H3 D21 D31 D32 HK s1 s0 p HR.
      set (n := N.of_nat (length (l_graph s1))).
      set (s1a := with_lgraph (l_graph s1 ++ [new_gnode]) s1).
      set (s0a := with_lgraph (l_graph s0 ++ [new_gnode]) s0).
      assert (En0 : N.of_nat (length (l_graph s0)) = n).
      { destruct HR as (Hg & _). rewrite <- Hg, erase_length. reflexivity. }
      assert (HRa : RL s1a s0a).
      { destruct HR as (Hg & Hl & Hst & Hsc & He & Ha & Hp & Hps & Hpv & Fe & Fa & Fp). unfold s1a, s0a, with_lgraph. rl_split.
        unfold erase_graph. rewrite map_app. fold (erase_graph is_dbg (l_graph s1)). rewrite Hg. reflexivity. }
      assert (Hn : gnode_at (l_graph s1a) n = Some new_gnode).
      { unfold gnode_at, s1a, n, with_lgraph. cbn [l_graph]. rewrite Nat2N.id, nth_error_app2, Nat.sub_diag by lia. reflexivity. }
      destruct (lopt_dbg_step n o1 v1 s1a s0a p new_gnode HRa Hn) as (s1b & nd1 & E1 & HRb & Hn1 & Hk1).
      { intros k Hk. split; [apply H1; exact Hk|reflexivity]. }
      destruct (lopt_dbg_step n o2 v2 s1b s0a p nd1 HRb Hn1) as (s1c & nd2 & E2 & HRc & Hn2 & Hk2).
      { intros k Hk. split; [apply H2; exact Hk|]. apply Hk1; [|reflexivity]. intros k2 Hk2. exact (D21 k k2 Hk Hk2). }
      assert (E3g : exists s1d, match o3 with
                                | Some k => mn <- lfull_match_node le ;; ladd_node_attr n k (VSyn mn)
                                | None => ret tt
                                end s1c p = Ok (tt, s1d, p) /\ RL s1d s0a).
      { destruct o3 as [k|]; [|exists s1c; split; [reflexivity|exact HRc]].
        unfold lfull_match_node. destruct (nodes_for_capture (ll_match le) (ll_full le)) as [|mn ?]; [contradiction|].
        destruct (lopt_dbg_step n (Some k) (VSyn mn) s1c s0a p nd2 HRc Hn2) as (s1d & nd3 & E3 & HRd & _).
        { intros k' Ek. inversion Ek; subst k'. split; [apply H3; reflexivity|].
          apply Hk2; [intros k2 Hk2'; exact (D32 k k2 eq_refl Hk2')|].
          apply Hk1; [intros k2 Hk2'; exact (D31 k k2 eq_refl Hk2')|reflexivity]. }
        exists s1d. split; [|exact HRd]. rewrite (bind_ok_eq (ret mn) _ s1c p mn s1c p eq_refl). exact E3. }
      destruct E3g as (s1d & E3 & HRd).
      match goal with |- match ?m1 s1 p with _ => _ end => assert (EL : m1 s1 p = K1 n s1d p) end.
      { rewrite (bind_ok_eq _ _ _ _ _ _ _ (ladd_node_eq s1 p)). fold n. fold s1a.
        rewrite (bind_ok_eq _ _ _ _ _ _ _ E1). rewrite (bind_ok_eq _ _ _ _ _ _ _ E2). rewrite (bind_ok_eq _ _ _ _ _ _ _ E3). reflexivity. }
      rewrite EL.
      match goal with |- context [?m0 s0 p] => assert (ER : m0 s0 p = K0 n s0a p) end.
      { rewrite (bind_ok_eq _ _ _ _ _ _ _ (ladd_node_eq s0 p)). rewrite En0. reflexivity. }
      rewrite ER. apply HK, HRd.
    Qed.

    (* ---- execution phase ---- *)
    Notation leval' := (leval t fl glob call).
    Lemma lsim_leval : forall fuel le e, lsim (leval' fuel le e) (leval' fuel le e).
    Proof.
      induction fuel as [|fuel IH]; intros le e; [apply lsim_oof|].
      assert (Heager : forall e', lsim (lv <- leval' fuel le e' ;; eval_lv' (S fuel + default_eval_fuel) lv)
                                       (lv <- leval' fuel le e' ;; eval_lv' (S fuel + default_eval_fuel) lv)).
      { intros e'. apply lsim_bind; [apply IH|intros lv; apply lsim_eval_lv]. }
      assert (Hcomp : forall elem var value,
        let m := (lv <- (lv <- leval' fuel le value ;; eval_lv' (S fuel + default_eval_fuel) lv) ;; vals <- lift (as_list lv) ;;
             lpush_frame ;;;
             out <- mapM (fun v => lclear_frame ;;; lunscoped_add glob le var (LValue v) false ;;; leval' fuel le elem) vals ;;
             lpop_frame ;;; ret out) in lsim m m).
      { intros elem var value. cbv zeta. apply lsim_bind; [apply Heager|intros lv]. apply lsim_bind; [apply lsim_lift|intros vals].
        apply lsim_bind; [apply lsim_lpush_frame|intros _]. apply lsim_bind.
        - apply lsim_mapM_in. intros v _. apply lsim_bind; [apply lsim_lclear_frame|intros _]. apply lsim_bind; [apply lsim_lunscoped_add|intros _]. apply IH.
        - intros out. apply lsim_bind; [apply lsim_lpop_frame|intros _; apply lsim_ret]. }
      destruct e; cbn [leval].
      all: try (apply lsim_bind; [apply Hcomp|intros out; apply lsim_ret]).
      all: try apply lsim_lunscoped_get.
      all: lsims; apply IH.
    Qed.
    Lemma lsim_leager fuel le e : lsim (leager t fl glob call fuel le e) (leager t fl glob call fuel le e).
    Proof. unfold leager. apply lsim_bind; [apply lsim_leval|intros lv; apply lsim_eval_lv]. Qed.
    Lemma lsim_lvar_add fuel le v x m : lsim (lvar_add t fl glob call fuel le v x m) (lvar_add t fl glob call fuel le v x m).
    Proof.
      destruct v; cbn [lvar_add]; [apply lsim_lunscoped_add|]. destruct m; [apply lsim_fail|].
      apply lsim_bind; [apply lsim_leval|intros sv]. apply lsim_bind; [apply lsim_store_add|intros var]. apply lsim_scoped_store_add.
    Qed.
    Lemma lsim_lvar_set fuel le v x : lsim (lvar_set glob fuel le v x) (lvar_set glob fuel le v x).
    Proof. destruct v; cbn [lvar_set]; [apply lsim_lunscoped_set|apply lsim_fail]. Qed.
    Lemma lsim_ltest_cond fuel le c : lsim (ltest_cond t fl glob call fuel le c) (ltest_cond t fl glob call fuel le c).
    Proof. destruct c; cbn [ltest_cond]; (apply lsim_bind; [apply lsim_leager|intros v]); try apply lsim_ret. apply lsim_lift. Qed.

    (* attribute names used by the program (shorthand bodies included) are not debug names, so the lazy
       attributes an attribute statement pushes all have non-debug names *)
    Hypothesis Hsh : forall sh, In sh (f_shorthands fl) -> Forall (attr_ok is_dbg) (sh_attrs sh).

    Lemma Forall_concat_ok {A} (P : A -> Prop) (ls : list (list A)) : Forall (Forall P) ls -> Forall P (concat ls).
    Proof. induction 1 as [|l ls Hl _ IH]; cbn [concat]; [constructor|]. apply Forall_app. split; assumption. Qed.

    Notation lexec_attr' := (lexec_attr t fl glob call).
    Lemma lsim_lexec_attr : forall fuel le a, attr_ok is_dbg a -> lsimP (Forall name_ok) (lexec_attr' fuel le a) (lexec_attr' fuel le a).
    Proof.
      induction fuel as [|fuel IH]; intros le a Hok; [apply lsim_oof|].
      destruct a as [name value]. cbn [lexec_attr]. apply lsim_bind; [apply lsim_lpoll|intros _].
      apply lsim_bind; [apply lsim_leval|intros v]. destruct (find_shorthand name (f_shorthands fl)) as [sh|] eqn:Ef.
      2:{ apply lsimP_ret. constructor; [exact Hok|constructor]. }
      lget. apply lsim_bind; [apply lsim_set_llocals|intros _]. apply lsim_bind; [apply lsim_lunscoped_add|intros _].
      apply (lsimP_bind _ _ (Forall (Forall name_ok))).
      - apply lsimP_mapM_in. intros a Hin. apply IH.
        pose proof (Hsh sh (find_shorthand_in _ _ _ Ef)) as Hf. rewrite Forall_forall in Hf. apply Hf, Hin.
      - intros outs Houts. apply lsim_bind; [apply lsim_set_llocals|intros _]. apply lsimP_ret. apply Forall_concat_ok, Houts.
    Qed.
    Lemma lsim_lexec_attrs fuel le attrs : Forall (attr_ok is_dbg) attrs ->
      lsimP (fun outs => Forall name_ok (concat outs)) (mapM (lexec_attr' fuel le) attrs) (mapM (lexec_attr' fuel le) attrs).
    Proof.
      intros Hf. eapply lsimP_weaken; [|apply lsimP_mapM_in; intros a Hin; apply lsim_lexec_attr; rewrite Forall_forall in Hf; apply Hf, Hin].
      intros outs. apply Forall_concat_ok.
    Qed.

    Lemma lsim_lscan_loop (run1 run0 : list str -> list stmt -> M lstate unit) arms rs subject :
      (forall caps r body l, In (r, body, l) arms -> lsim (run1 caps body) (run0 caps body)) ->
      forall sfuel i, lsim (lscan_loop find run1 arms rs subject sfuel i) (lscan_loop find run0 arms rs subject sfuel i).
    Proof.
      intros Hrun. induction sfuel as [|sfuel IHs]; intros i; cbn [lscan_loop]; [apply lsim_oof|].
      destruct (N.ltb i (N.of_nat (length subject))); [|apply lsim_ret]. cbv zeta.
      apply lsim_bind; [apply lsim_lpoll_n|intros _].
      destruct (arm_select find rs (skipn (N.to_nat i) subject)) as [|k|k caps]; [apply lsim_ret|apply lsim_fail|].
      destruct (nth_error arms (N.to_nat k)) as [[[r body] l']|] eqn:En; [|apply lsim_panic].
      apply lsim_bind; [apply lsim_lpush_frame|intros _]. apply lsim_bind; [eapply Hrun, nth_error_In, En|intros _].
      apply lsim_bind; [apply lsim_lpop_frame|intros _]. apply IHs.
    Qed.
    Lemma lsim_lif_loop (test : cond -> M lstate bool) (run1 run0 : list stmt -> M lstate unit) :
      (forall c, lsim (test c) (test c)) ->
      forall arms, (forall conds body l, In (conds, body, l) arms -> lsim (run1 body) (run0 body)) ->
      lsim (lif_loop test run1 arms) (lif_loop test run0 arms).
    Proof.
      intros Ht. induction arms as [|[[conds body] l'] arms IHa]; intros Hr; cbn [lif_loop]; [apply lsim_ret|].
      apply lsim_bind; [apply lsim_mapM_in; intros c _; apply Ht|intros bs]. destruct (forallb (fun b => b) bs).
      - apply lsim_bind; [apply lsim_lpush_frame|intros _]. apply lsim_bind; [eapply Hr; left; reflexivity|intros _]. apply lsim_lpop_frame.
      - apply IHa. intros c b l Hin. eapply Hr. right. exact Hin.
    Qed.

    (* ---- the debug configuration: its names are debug names, pairwise distinct ---- *)
    Variable cfg : config.
    Hypothesis Hloc : forall k, c_loc_attr cfg = Some k -> is_dbg k = true.
    Hypothesis Hvar : forall k, c_var_attr cfg = Some k -> is_dbg k = true.
    Hypothesis Hmat : forall k, c_match_attr cfg = Some k -> is_dbg k = true.
    Hypothesis Hd_lv : forall a b, c_loc_attr cfg = Some a -> c_var_attr cfg = Some b -> str_eqb a b = false.
    Hypothesis Hd_mv : forall a b, c_match_attr cfg = Some a -> c_var_attr cfg = Some b -> str_eqb a b = false.
    Hypothesis Hd_ml : forall a b, c_match_attr cfg = Some a -> c_loc_attr cfg = Some b -> str_eqb a b = false.

    Notation lexec_stmt1 := (lexec_stmt t fl cfg glob regexes find call).
    Notation lexec_stmt0 := (lexec_stmt t fl config0 glob regexes find call).

    Lemma lsim_lexec_stmt : forall fuel le s, nodes_for_capture (ll_match le) (ll_full le) <> [] -> stmt_fresh is_dbg s ->
      lsim (lexec_stmt1 fuel le s) (lexec_stmt0 fuel le s).
    Proof.
      induction fuel as [|fuel IH]; intros le s Hfull Hs; [apply lsim_oof|].
      assert (Hblock : forall le' body, ll_match le' = ll_match le -> ll_full le' = ll_full le ->
                 Forall (attr_ok is_dbg) (flat_map stmt_attrs body) ->
                 lsim (iterM (fun st => lexec_stmt1 fuel (ll_with_ctx le' (ctx_update (ll_ctx le') st)) st) body)
                      (iterM (fun st => lexec_stmt0 fuel (ll_with_ctx le' (ctx_update (ll_ctx le') st)) st) body)).
      { intros le' body Hm Hf Hb. apply lsim_iterM_in. intros st Hin. apply IH.
        - cbn [ll_with_ctx ll_match ll_full]. rewrite Hm, Hf. exact Hfull.
        - eapply fresh_block; eauto. }
      assert (Harm : forall le' body, ll_match le' = ll_match le -> ll_full le' = ll_full le ->
                 Forall (attr_ok is_dbg) (flat_map stmt_attrs body) ->
                 lsim (iterM (fun st => let c := ctx_update (ll_ctx le') st in
                                        ctx_wrap (CtxStmts [c]) (ctx_wrap CtxOther (lexec_stmt1 fuel (ll_with_ctx le' c) st))) body)
                      (iterM (fun st => let c := ctx_update (ll_ctx le') st in
                                        ctx_wrap (CtxStmts [c]) (ctx_wrap CtxOther (lexec_stmt0 fuel (ll_with_ctx le' c) st))) body)).
      { intros le' body Hm Hf Hb. apply lsim_iterM_in. intros st Hin. cbv zeta. apply lsim_ctx, lsim_ctx. apply IH.
        - cbn [ll_with_ctx ll_match ll_full]. rewrite Hm, Hf. exact Hfull.
        - eapply fresh_block; eauto. }
      destruct s; cbn [lexec_stmt]; (apply lsim_bind; [apply lsim_lpoll|intros _]).
      - apply lsim_bind; [apply lsim_leval|intros x; apply lsim_lvar_add].
      - apply lsim_bind; [apply lsim_leval|intros x; apply lsim_lvar_add].
      - apply lsim_bind; [apply lsim_leval|intros x; apply lsim_lvar_set].
      - apply (lsim_node_stmt le (c_var_attr cfg) (c_loc_attr cfg) (c_match_attr cfg) (VStr vtext) (VStr (loc_text (variable_loc v)))
                 (fun n => lvar_add t fl glob call fuel le v (LValue (VGraph n)) false)
                 (fun n => lvar_add t fl glob call fuel le v (LValue (VGraph n)) false) Hfull Hvar Hloc Hmat Hd_lv Hd_mv Hd_ml).
        intros n. apply lsim_lvar_add.
      - apply lsim_bind; [apply lsim_leval|intros nv].
        apply (lsimP_bind _ _ (fun outs => Forall name_ok (concat outs))); [apply lsim_lexec_attrs; exact Hs|intros outs Ho].
        exact (lsim_push_lstmt (LSAttrNode nv (concat outs) (ll_ctx le)) Ho).
      - apply lsim_bind; [apply lsim_leval|intros a]. apply lsim_bind; [apply lsim_leval|intros b]. cbv zeta.
        assert (Ee : forall o : option ident, (forall k, o = Some k -> is_dbg k = true) ->
                  erase_amap is_dbg (match o with Some k => [(k, VStr (loc_text l))] | None => [] end) = []).
        { intros [k|] Ho; [|reflexivity]. unfold erase_amap. cbn [filter fst]. rewrite (Ho k eq_refl). reflexivity. }
        pose proof (lsim_push_lstmt (LSEdge a b (match c_loc_attr cfg with Some k => [(k, VStr (loc_text l))] | None => [] end) (ll_ctx le)) I) as Hpush.
        cbn [erase_lstmt] in Hpush. rewrite (Ee _ Hloc) in Hpush. exact Hpush.
      - apply lsim_bind; [apply lsim_leval|intros a]. apply lsim_bind; [apply lsim_leval|intros b].
        apply (lsimP_bind _ _ (fun outs => Forall name_ok (concat outs))); [apply lsim_lexec_attrs; exact Hs|intros outs Ho].
        exact (lsim_push_lstmt (LSAttrEdge a b (concat outs) (ll_ctx le)) Ho).
      - apply lsim_bind; [apply lsim_leager|intros sv]. apply lsim_bind; [apply lsim_lift|intros subject].
        destruct (arm_table regexes arms) as [rs|]; [|apply lsim_panic].
        apply lsim_lscan_loop. intros caps r body l' Hin. apply (Harm (ll_with_caps le caps) body); try reflexivity.
        unfold stmt_fresh in Hs. cbn [stmt_attrs] in Hs. rewrite Forall_forall in *. intros a Ha. apply Hs.
        apply in_flat_map. exists (r, body, l'). auto.
      - apply lsim_bind; [|intros args; exact (lsim_push_lstmt (LSPrint args (ll_ctx le)) I)].
        apply lsim_mapM_in. intros e _. destruct e; try apply lsim_ret.
        all: apply lsim_bind; [apply lsim_leval|intros lv; apply lsim_ret].
      - apply lsim_lif_loop; [intros c; apply lsim_ltest_cond|]. intros conds body l' Hin. apply (Hblock le body); auto.
        unfold stmt_fresh in Hs. cbn [stmt_attrs] in Hs. rewrite Forall_forall in *. intros a Ha. apply Hs.
        apply in_flat_map. exists (conds, body, l'). auto.
      - apply lsim_bind; [apply lsim_leager|intros lv]. apply lsim_bind; [apply lsim_lift|intros vals].
        apply lsim_bind; [apply lsim_lpush_frame|intros _]. apply lsim_bind; [|intros _; apply lsim_lpop_frame].
        apply lsim_iterM_in. intros v _. apply lsim_bind; [apply lsim_lclear_frame|intros _].
        apply lsim_bind; [apply lsim_lunscoped_add|intros _]. apply (Hblock le body); auto.
    Qed.

    Lemma lsim_lexec_stanza fuel st m : stanza_fresh is_dbg st ->
      lsim (lexec_stanza t fl cfg glob regexes find call fuel st m) (lexec_stanza t fl config0 glob regexes find call fuel st m).
    Proof.
      intros Hst. unfold lexec_stanza. apply lsim_bind; [apply lsim_lpoll|intros _]. apply lsim_bind; [apply lsim_lclear_frame|intros _].
      cbv zeta. destruct (nodes_for_capture m (st_full_file_idx st)) as [|n ns] eqn:En; [apply lsim_panic|].
      apply lsim_iterM_in. intros s Hin. apply lsim_ctx.
      apply lsim_lexec_stmt; [cbn [ll_with_ctx ll_match ll_full]; rewrite En; discriminate|]. eapply fresh_block; eauto.
    Qed.

    Lemma lsim_lexec_file fuel ms : Forall (stanza_fresh is_dbg) (f_stanzas fl) ->
      lsim (lexec_file t fl cfg glob regexes find call fuel ms) (lexec_file t fl config0 glob regexes find call fuel ms).
    Proof.
      intros Hf. unfold lexec_file. apply lsim_bind; [|intros _; apply lsim_evaluate_phase].
      apply lsim_iterM_in. intros pm _. destruct (nth_error (f_stanzas fl) (N.to_nat (fst pm))) as [st|] eqn:En; [|apply lsim_panic].
      apply lsim_lexec_stanza. rewrite Forall_forall in Hf. apply Hf. eapply nth_error_In, En.
    Qed.
  End InterpL.
End NamesL.

(* ------------------------------------------------------------------ run level *)
Theorem debug_neutral_lazy_lemma {rx : Type} t fl cfg supplied budget (regexes : list rx) find call fuel (matches : list (N * qmatch)) g0 :
  cfg_distinct cfg -> call_erasable (is_dbg_of cfg) call -> file_fresh cfg fl ->
  match run_lazy t fl cfg supplied budget regexes find call fuel matches g0 with
  | Ok (s, p) => exists s0, run_lazy t fl config0 supplied budget regexes find call fuel matches (erase_graph (is_dbg_of cfg) g0) = Ok (s0, p) /\
                            l_graph s0 = erase_graph (is_dbg_of cfg) (l_graph s)
  | Err e => run_lazy t fl config0 supplied budget regexes find call fuel matches (erase_graph (is_dbg_of cfg) g0) = Err e
  | Panic x => run_lazy t fl config0 supplied budget regexes find call fuel matches (erase_graph (is_dbg_of cfg) g0) = Panic x
  | OutOfFuel => run_lazy t fl config0 supplied budget regexes find call fuel matches (erase_graph (is_dbg_of cfg) g0) = OutOfFuel
  end.
Proof.
  intros (D1 & D2 & D3) Hcall (Hst & Hsh). unfold run_lazy.
  destruct (check_globals (f_globals fl) (globals_nested supplied)) as [glob|e|x|]; try reflexivity.
  assert (Hn : forall (o : option ident) k, o = Some k -> In k (olist o)) by (intros o k ->; left; reflexivity).
  assert (Hin : forall k, In k (cfg_names cfg) -> is_dbg_of cfg k = true).
  { intros k Hk. unfold is_dbg_of. apply existsb_exists. exists k. split; [exact Hk|apply str_eqb_refl]. }
  pose proof (lsim_lexec_file (is_dbg_of cfg) t fl glob regexes find call Hcall Hsh cfg) as H.
  assert (HR : RL (is_dbg_of cfg) (linit g0) (linit (erase_graph (is_dbg_of cfg) g0))).
  { unfold RL, linit. cbn [l_graph l_locals l_store l_scoped l_edges l_attrs l_prints l_params l_prev map]. repeat split; constructor. }
  specialize (H (fun k Hk => Hin k ltac:(unfold cfg_names; apply in_or_app; left; apply Hn, Hk))
                (fun k Hk => Hin k ltac:(unfold cfg_names; apply in_or_app; right; apply in_or_app; left; apply Hn, Hk))
                (fun k Hk => Hin k ltac:(unfold cfg_names; apply in_or_app; right; apply in_or_app; right; apply Hn, Hk))
                (fun a b Ha Hb => proj2 (str_eqb_neq a b) (D1 a b Ha Hb))
                (fun a b Ha Hb => proj2 (str_eqb_neq a b) (D2 a b Ha Hb))
                (fun a b Ha Hb => proj2 (str_eqb_neq a b) (D3 a b Ha Hb))
                fuel matches Hst (linit g0) _ (polls0 budget) HR).
  destruct (lexec_file t fl cfg glob regexes find call fuel matches (linit g0) (polls0 budget)) as [[[u s] p]|e|x|].
  - destruct H as (_ & s0 & E & (Hg & _)). rewrite E. exists s0. split; [reflexivity|]. symmetry. exact Hg.
  - rewrite H. reflexivity.
  - rewrite H. reflexivity.
  - rewrite H. reflexivity.
Qed.
