(* Proofs/SL2StmtConv.v — C02 version 2, adequacy part 2: the lazy execution phase converges (some fuel suffices)
   on the fragment with scoped variables; the limit satisfies the invariant `Rel2` of Proofs/SL2Stmt.v. *)
From TSG Require Import Model.Lazy Proofs.BaseFacts Proofs.Containers Proofs.MonadFacts Proofs.SLGraph Proofs.SLForce Proofs.SLExpr Proofs.SLConv
  Proofs.SLStmt Proofs.Scoped Proofs.SL2Force Proofs.SL2Expr Proofs.SL2Conv Proofs.SL2Stmt.

Section Stmt2Conv.
  Context {rx : Type}.
  Variables (t : tree) (fl : file) (glob : globals) (regexes : list rx)
            (find : rx -> str -> option (list (option (N * N))))
            (call : ident -> graph -> list value -> res (value * graph)).
  Variable okfn : ident -> Prop.
  Variable purev : ident -> bool.
  Hypothesis Hpure : forall f, okfn f -> pure_fn call f.
  Variable m : qmatch.

  Notation den2 := (den2 call).
  Notation Renv2 := (Renv2 t fl call purev).
  Notation epost2 := (epost2 t fl call purev).
  Notation econv2 := (econv2 t fl call purev).
  Notation fexpr2' := (fexpr2 okfn purev m).
  Notation fattr2' := (fattr2 okfn purev m).
  Notation fstmt2' := (fstmt2 okfn purev m).
  Notation env_rel' := (env_rel m).
  Notation Rel2 := (Rel2 t fl call purev).
  Notation RelX2 := (RelX2 t fl call purev).
  Notation rel_step2 := (rel_step2 t fl call purev).
  Notation apost2 := (apost2 t fl call purev).
  Notation den_attrs2 := (den_attrs2 call).
  Notation xsim2 := (xsim2 t fl call purev).

  Hypothesis Hsh : Forall (fun sh => purev (sh_var sh) = false /\ All fattr2' (sh_attrs sh)) (f_shorthands fl).

  Notation eval' := (eval t fl glob call).
  Notation leval' := (leval t fl glob call).
  Notation exec_attr' := (exec_attr t fl glob call).
  Notation lexec_attr' := (lexec_attr t fl glob call).
  Notation eval_conv2' := (eval_conv2 t fl glob call okfn purev Hpure m).

  Definition aconv2 (tgt : target) (ms : M sstate unit) (mlf : nat -> M lstate (list (ident * lvalue))) : Prop :=
    forall ss p u ss' p', ms ss p = Ok (u, ss', p') -> forall w ls pl, Renv2 w ss ls -> nob pl ->
      convP (fun lf => mlf lf ls pl) (apost2 w tgt ss ss' ls).

  Lemma attrs_conv2 tgt (exa : attr -> M sstate unit) (lexa : nat -> attr -> M lstate (list (ident * lvalue))) :
    forall attrs, (forall a, In a attrs -> aconv2 tgt (exa a) (fun lf => lexa lf a)) ->
    forall ss p u ss' p', iterM exa attrs ss p = Ok (u, ss', p') -> forall w ls pl, Renv2 w ss ls -> nob pl ->
      convP (fun lf => mapM (lexa lf) attrs ls pl) (fun outs ls' pl' => apost2 w tgt ss ss' ls (concat outs) ls' pl').
  Proof.
    induction attrs as [|a attrs IH]; intros Ha ss p u ss' p' H w ls pl HR Hb; cbn [iterM mapM] in *.
    - apply ret_ok in H. destruct H as (-> & -> & ->). apply convP_ret. split; [exact Hb|]. split; [apply lframe_refl|]. split; [reflexivity|].
      exists w, []. split; [apply wext0_refl|]. split; [exact HR|]. split; [constructor|reflexivity].
    - apply bind_ok in H. destruct H as (u1 & s1 & p1 & H1 & H2).
      apply convP_bind. eapply convP_mono; [apply (Ha a (or_introl eq_refl) _ _ _ _ _ H1 w ls pl HR Hb)|].
      intros o1 ls1 pl1 (Hb1 & Hf1 & Hsc1 & w1 & kvs1 & Hp1 & HR1 & Hd1 & Hg1).
      apply convP_bind. eapply convP_mono; [apply (IH (fun a0 Hin => Ha a0 (or_intror Hin)) _ _ _ _ _ H2 w1 ls1 pl1 HR1 Hb1)|].
      intros outs ls2 pl2 (Hb2 & Hf2 & Hsc2 & w2 & kvs2 & Hp2 & HR2 & Hd2 & Hg2). apply convP_ret.
      split; [exact Hb2|]. split; [eapply lframe_trans; eauto|]. split; [congruence|]. exists w2, (kvs1 ++ kvs2). split; [eapply wext0_trans; eauto|].
      split; [exact HR2|]. split.
      + cbn [concat]. apply Forall2_app; [eapply den_attrs2_mono; [apply wext0_wext, Hp2|exact Hd1]|exact Hd2].
      + rewrite map_app. eapply ofold_app_ok; eauto.
  Qed.

  Lemma attr_conv2 : forall fuel le ll tgt a, fattr2' a -> env_rel' le ll -> aconv2 tgt (exec_attr' fuel le tgt a) (fun lf => lexec_attr' lf ll a).
  Proof.
    induction fuel as [|fuel IH]; intros le ll tgt a Hf Henv ss p u ss' p' H w ls pl HR Hb; [discriminate|].
    destruct a as [name value]. cbn [exec_attr] in H. cbn [fattr2] in *.
    eapply convP_shift; [intros lf; cbn [lexec_attr]; reflexivity|].
    apply bind_ok in H. destruct H as (u0 & s0 & p0 & H0 & H). apply poll_ok in H0. destruct H0 as (-> & -> & _).
    apply bind_ok in H. destruct H as (v & s1 & p1 & H1 & H).
    apply convP_bind. apply convP_poll; [exact Hb|]. intros pl0 Hb0.
    apply convP_bind. eapply convP_mono; [apply (eval_conv2' fuel le ll value false Hf Henv _ _ _ _ _ H1 w ls pl0 HR Hb0)|].
    intros lv ls1 pl1 (Hb1 & (Sg1 & Sp1 & Ssc1) & Hf1 & w1 & Hp1 & HR1 & Hd1).
    destruct (find_shorthand name (f_shorthands fl)) as [sh|] eqn:Esh.
    - apply bind_ok in H. destruct H as (sg & s1' & p1' & G & H). apply get_ok in G. destruct G as (-> & -> & ->).
      apply bind_ok in H. destruct H as (u2 & s2 & p2 & H2 & H). rewrite set_locals_eq in H2. inversion H2; subst; clear H2.
      apply bind_ok in H. destruct H as (u3 & s3 & p3 & H3 & H). apply bind_ok in H. destruct H as (u4 & s4 & p4 & H4 & H5).
      rewrite set_locals_eq in H5. inversion H5; subst; clear H5.
      apply convP_get. apply convP_bind. eapply convP_const; [apply set_llocals_eq|].
      assert (HR2 : Renv2 w1 (sset_locals [[]] s1) (lset_locals [[]] ls1)).
      { destruct HR1 as (A1 & A2 & A3). split; [exact A1|]. split; [|exact A3]. constructor; [constructor|constructor]. }
      rewrite Forall_forall in Hsh. destruct (Hsh sh (find_shorthand_In _ _ _ Esh)) as [Hshv Hsha].
      assert (Hd1' : den2 w1 (purev (sh_var sh)) lv v) by (rewrite Hshv; exact Hd1).
      apply convP_bind. eapply convP_mono; [apply (unscoped_add_conv2 t fl glob call purev ll (sh_var sh) v lv false _ _ _ _ _ w1 _ pl1 H3 HR2 Hd1' Hb1)|].
      intros _ ls3 pl3 (Hb3 & (Sg3 & Sp3 & Ssc3) & Hf3 & w3 & Hp3 & HR3 & _).
      assert (Hin : forall a0, In a0 (sh_attrs sh) -> aconv2 tgt (exec_attr' fuel le tgt a0) (fun lf => lexec_attr' lf ll a0)).
      { intros a0 Hin0. apply IH; [|exact Henv]. apply (All_In _ _ _ Hsha Hin0). }
      apply convP_bind. eapply convP_mono; [apply (attrs_conv2 tgt _ (fun lf => lexec_attr' lf ll) (sh_attrs sh) Hin _ _ _ _ _ H4 w3 ls3 pl3 HR3 Hb3)|].
      intros outs ls4 pl4 (Hb4 & Hf4 & Hsc4 & w4 & kvs & Hp4 & HR4 & Hd4 & Hg4).
      apply convP_bind. eapply convP_const; [apply set_llocals_eq|]. apply convP_ret. split; [exact Hb4|].
      split; [eapply lframe_trans; [exact Hf1|]; eapply lframe_trans; [apply lframe_set_locals|]; eapply lframe_trans; [exact Hf3|]; eapply lframe_trans; [exact Hf4|apply lframe_set_locals]|].
      split; [cbn [sset_locals s_scoped] in *; congruence|].
      exists w4, kvs. split; [eapply wext0_trans; [exact Hp1|]; eapply wext0_trans; [exact Hp3|exact Hp4]|]. split.
      + destruct HR4 as (A1 & _ & A3). destruct HR1 as (_ & A2 & _). split; [exact A1|]. cbn [sset_locals lset_locals s_locals l_locals s_scoped]. split; [|exact A3].
        eapply locals_rel2_mono; [|exact A2]. apply wext0_wext. eapply wext0_trans; eauto.
      + split; [exact Hd4|]. cbn [sset_locals s_graph] in *. rewrite <- Sg1, <- Sg3. exact Hg4.
    - destruct (add_attr_ok _ _ _ _ _ _ _ _ H) as (Hg & Hl & Hps). apply convP_ret. split; [exact Hb1|]. split; [exact Hf1|].
      assert (Hsc : s_scoped ss' = s_scoped s1).
      { unfold add_attr, bind, get_state in H. destruct tgt as [n|a b].
        - destruct (gnode_at (s_graph s1) n) as [nd|]; [|discriminate]. destruct (attrs_add (g_attrs nd) name v) as [m' [c|]]; [discriminate|].
          unfold set_graph, modify in H. inversion H; reflexivity.
        - destruct (gnode_at (s_graph s1) a) as [nd|]; [|discriminate]. destruct (edges_get b (g_edges nd)) as [m0|]; [|discriminate].
          destruct (attrs_add m0 name v) as [m' [c|]]; [discriminate|]. unfold set_graph, modify in H. inversion H; reflexivity. }
      split; [congruence|].
      exists w1, [(name, v)]. split; [exact Hp1|]. split.
      + destruct HR1 as (A1 & A2 & A3). split; [exact A1|]. split; [rewrite Hl; exact A2|rewrite Hsc; exact A3].
      + split; [constructor; [split; [reflexivity|exact Hd1]|constructor]|]. cbn [map ofold]. rewrite <- Sg1, Hg. reflexivity.
  Qed.

  Definition xconv2 {A B} (Q : A -> B -> Prop) (ms : M sstate A) (mlf : nat -> M lstate B) : Prop :=
    forall ss p a ss' p', ms ss p = Ok (a, ss', p') -> forall ls pl, RelX2 ss ls -> nob pl ->
      convP (fun lf => mlf lf ls pl) (fun b ls' pl' => nob pl' /\ RelX2 ss' ls' /\ Q a b).
  Notation xconvU2 := (xconv2 (@anyQ unit unit)).

  Lemma xconv2_ret {A B} (Q : A -> B -> Prop) a b : Q a b -> xconv2 Q (ret a) (fun _ => ret b).
  Proof. intros HQ ss p a' ss' p' H ls pl HR Hb. apply ret_ok in H. destruct H as (-> & -> & ->). apply convP_ret. auto. Qed.
  Lemma xconv2_bind {A B C D} (Q1 : A -> B -> Prop) (Q2 : C -> D -> Prop) ms (mlf : nat -> M lstate B) fs (flf : nat -> B -> M lstate D) :
    xconv2 Q1 ms mlf -> (forall a b, Q1 a b -> xconv2 Q2 (fs a) (fun lf => flf lf b)) -> xconv2 Q2 (bind ms fs) (fun lf => bind (mlf lf) (flf lf)).
  Proof.
    intros Hm Hf ss p c ss' p' H ls pl HR Hb. apply bind_ok in H. destruct H as (a & s1 & p1 & H1 & H2).
    apply convP_bind. eapply convP_mono; [apply (Hm _ _ _ _ _ H1 ls pl HR Hb)|]. intros b ls1 pl1 (Hb1 & HR1 & HQ).
    apply (Hf a b HQ _ _ _ _ _ H2 ls1 pl1 HR1 Hb1).
  Qed.
  Lemma xconv2_seq {A B} (Q : A -> B -> Prop) (ms : M sstate unit) (mlf : nat -> M lstate unit) ks (klf : nat -> M lstate B) :
    xconvU2 ms mlf -> xconv2 Q ks klf -> xconv2 Q (ms ;;; ks) (fun lf => mlf lf ;;; klf lf).
  Proof. intros H1 H2. apply (xconv2_bind anyQ Q ms mlf (fun _ => ks) (fun lf _ => klf lf)); [exact H1|]. intros _ _ _. exact H2. Qed.
  Lemma xconv2_sctx {A B} (Q : A -> B -> Prop) c ms mlf : xconv2 Q ms mlf -> xconv2 Q (ctx_wrap c ms) mlf.
  Proof. intros Hm ss p a ss' p' H. apply ctx_wrap_ok in H. apply (Hm _ _ _ _ _ H). Qed.
  Lemma xconv2_lctx {A B} (Q : A -> B -> Prop) c ms (mlf : nat -> M lstate B) : xconv2 Q ms mlf -> xconv2 Q ms (fun lf => ctx_wrap c (mlf lf)).
  Proof. intros Hm ss p a ss' p' H ls pl HR Hb. apply convP_ctx. apply (Hm _ _ _ _ _ H ls pl HR Hb). Qed.
  Lemma xconv2_spoll {A B} (Q : A -> B -> Prop) l ms mlf : xconv2 Q ms mlf -> xconv2 Q (poll l ;;; ms) mlf.
  Proof.
    intros Hm ss p a ss' p' H. apply bind_ok in H. destruct H as (u & s1 & p1 & H1 & H2). apply poll_ok in H1. destruct H1 as (-> & -> & _).
    apply (Hm _ _ _ _ _ H2).
  Qed.
  Lemma xconv2_lpoll {A B} (Q : A -> B -> Prop) l ms (mlf : nat -> M lstate B) : xconv2 Q ms mlf -> xconv2 Q ms (fun lf => lpoll l ;;; mlf lf).
  Proof.
    intros Hm ss p a ss' p' H ls pl HR Hb. apply (convP_bind (fun _ => lpoll l) (fun lf _ => mlf lf)). unfold lpoll. apply convP_poll; [exact Hb|]. intros pl0 Hb0.
    apply (Hm _ _ _ _ _ H ls pl0 HR Hb0).
  Qed.
  Lemma xconv2_lpoll_n {A B} (Q : A -> B -> Prop) n l ms (mlf : nat -> M lstate B) : xconv2 Q ms mlf -> xconv2 Q ms (fun lf => lpoll_n n l ;;; mlf lf).
  Proof.
    intros Hm ss p a ss' p' H ls pl HR Hb. apply (convP_bind (fun _ => lpoll_n n l) (fun lf _ => mlf lf)).
    apply convP_of_lres; [|apply lpoll_n_noof, Hb]. eapply lres_mono; [apply lpoll_n_res, Hb|].
    intros _ ls0 pl0 [-> Hb0]. apply (Hm _ _ _ _ _ H ls pl0 HR Hb0).
  Qed.
  Lemma xconv2_soof {A B} (Q : A -> B -> Prop) mlf : xconv2 Q (@out_of_fuel sstate A) mlf.
  Proof. intros ss p a ss' p' H. discriminate. Qed.
  Lemma xconv2_spanic {A B} (Q : A -> B -> Prop) x mlf : xconv2 Q (@panic sstate A x) mlf.
  Proof. intros ss p a ss' p' H. discriminate. Qed.
  Lemma xconv2_sfail {A B} (Q : A -> B -> Prop) e mlf : xconv2 Q (@fail sstate A e) mlf.
  Proof. intros ss p a ss' p' H. discriminate. Qed.
  Lemma xconv2_lift {A} (r : res A) : xconv2 eq (lift r) (fun _ => lift r).
  Proof. intros ss p a ss' p' H ls pl HR Hb. apply lift_ok in H. destruct H as (-> & -> & ->). eapply convP_lift; [reflexivity|]. auto. Qed.
  Lemma xconv2_iter {X} (P : X -> Prop) (F : X -> M sstate unit) (F' : nat -> X -> M lstate unit) l :
    (forall x, P x -> xconvU2 (F x) (fun lf => F' lf x)) -> All P l -> xconvU2 (iterM F l) (fun lf => iterM (F' lf) l).
  Proof.
    intros HF. induction l as [|x l IH]; intros HP; cbn [iterM]; [apply xconv2_ret; exact I|]. destruct HP as [Px HP].
    apply (xconv2_seq anyQ (F x) (fun lf => F' lf x) (iterM F l) (fun lf => iterM (F' lf) l)); [apply HF, Px|apply IH, HP].
  Qed.
  Lemma xconv2_mapM {X A B} (Q : A -> B -> Prop) (P : X -> Prop) (F : X -> M sstate A) (F' : nat -> X -> M lstate B) l :
    (forall x, P x -> xconv2 Q (F x) (fun lf => F' lf x)) -> All P l -> xconv2 (Forall2 Q) (mapM F l) (fun lf => mapM (F' lf) l).
  Proof.
    intros HF. induction l as [|x l IH]; intros HP; cbn [mapM]; [apply xconv2_ret; constructor|]. destruct HP as [Px HP].
    apply (xconv2_bind Q (Forall2 Q) (F x) (fun lf => F' lf x) _ (fun lf y => ys <- mapM (F' lf) l ;; ret (y :: ys))); [apply HF, Px|]. intros a b Hab.
    apply (xconv2_bind (Forall2 Q) (Forall2 Q) (mapM F l) (fun lf => mapM (F' lf) l) _ (fun _ ys => ret (b :: ys))); [apply IH, HP|].
    intros as_ bs Habs. apply xconv2_ret. constructor; assumption.
  Qed.
  Lemma xconv2_shift {A B} (Q : A -> B -> Prop) ms (f g : nat -> M lstate B) : (forall lf, f (S lf) = g lf) -> xconv2 Q ms g -> xconv2 Q ms f.
  Proof.
    intros E Hm ss p a ss' p' H ls pl HR Hb. apply (convP_shift _ (fun lf => g lf ls pl)); [intros lf; rewrite E; reflexivity|].
    apply (Hm _ _ _ _ _ H ls pl HR Hb).
  Qed.
  Lemma xconv2_const {A B} (Q : A -> B -> Prop) ms (ml : M lstate B) : xsim2 Q ms ml -> (forall ls pl, nob pl -> ml ls pl <> OutOfFuel) -> xconv2 Q ms (fun _ => ml).
  Proof. intros Hx Hn ss p a ss' p' H ls pl HR Hb. apply convP_of_lres; [apply (Hx _ _ _ _ _ H ls pl HR Hb)|apply Hn, Hb]. Qed.

  Lemma xconv2_eager fuel le ll e : fexpr2' true e -> env_rel' le ll -> xconv2 eq (eval' fuel le e) (fun lf => leager t fl glob call lf ll e).
  Proof.
    intros Hf Henv ss p v ss' p' H ls pl [w HR] Hb.
    eapply convP_mono; [apply (leager_conv2 t fl glob call okfn purev Hpure m fuel le ll e _ _ _ _ _ w ls pl Hf Henv H (proj1 HR) Hb)|].
    intros v' ls' pl' (-> & HP). destruct (rel_step2 _ w tt ss ss' ls tt ls' pl' HR HP) as (w' & _ & HR' & _).
    split; [apply HP|]. split; [exists w'; exact HR'|reflexivity].
  Qed.

  Lemma xconv2_push_frame : xconvU2 push_frame (fun _ => lpush_frame).
  Proof. apply xconv2_const; [apply xsim2_push_frame|]. intros ls pl _. rewrite lpush_frame_eq. discriminate. Qed.
  Lemma xconv2_clear_frame : xconvU2 clear_frame (fun _ => lclear_frame).
  Proof. apply xconv2_const; [apply xsim2_clear_frame|]. intros ls pl _. rewrite lclear_frame_eq. discriminate. Qed.
  Lemma xconv2_pop_frame : xconvU2 pop_frame (fun _ => lpop_frame).
  Proof. apply xconv2_const; [apply xsim2_pop_frame|]. intros ls pl _. unfold lpop_frame, bind, get_state. destruct (l_locals ls); discriminate. Qed.
  Lemma xconv2_unscoped_add ll name v mu : xconvU2 (unscoped_add glob name v mu) (fun _ => lunscoped_add glob ll name (LValue v) mu).
  Proof. apply xconv2_const; [apply xsim2_unscoped_add|]. intros ls pl _. apply lunscoped_add_noof. Qed.
  Lemma xconv2_add_node : xconv2 eq add_node (fun _ => ladd_node).
  Proof. apply xconv2_const; [apply xsim2_add_node|]. intros ls pl _. rewrite ladd_node_eq. discriminate. Qed.

  Lemma xconv2_bind_var fuel le ll e name mu : fexpr2' (purev name) e -> env_rel' le ll ->
    xconvU2 (x <- eval' fuel le e ;; unscoped_add glob name x mu) (fun lf => x <- leval' lf ll e ;; lunscoped_add glob ll name x mu).
  Proof.
    intros Hf Henv ss p u ss' p' H ls pl [w HR] Hb. apply bind_ok in H. destruct H as (x & s1 & p1 & H1 & H2).
    apply (convP_bind (fun lf => leval' lf ll e) (fun _ x0 => lunscoped_add glob ll name x0 mu)).
    eapply convP_mono; [apply (eval_conv2' fuel le ll e _ Hf Henv _ _ _ _ _ H1 w ls pl (proj1 HR) Hb)|].
    intros lv ls1 pl1 HP1. destruct (rel_step2 _ w x ss s1 ls lv ls1 pl1 HR HP1) as (w1 & _ & HR1 & Hd).
    eapply convP_mono; [apply (unscoped_add_conv2 t fl glob call purev ll name x lv mu _ _ _ _ _ w1 ls1 pl1 H2 (proj1 HR1) Hd (proj1 HP1))|].
    intros [] ls' pl' HP. destruct (rel_step2 _ w1 tt s1 ss' ls1 tt ls' pl' HR1 HP) as (w' & _ & HR' & _).
    split; [apply HP|]. split; [exists w'; exact HR'|exact I].
  Qed.
  Lemma xconv2_set_var fuel le ll e name : fexpr2' (purev name) e -> env_rel' le ll ->
    xconvU2 (x <- eval' fuel le e ;; unscoped_set glob name x) (fun lf => x <- leval' lf ll e ;; lunscoped_set glob ll name x).
  Proof.
    intros Hf Henv ss p u ss' p' H ls pl [w HR] Hb. apply bind_ok in H. destruct H as (x & s1 & p1 & H1 & H2).
    apply (convP_bind (fun lf => leval' lf ll e) (fun _ x0 => lunscoped_set glob ll name x0)).
    eapply convP_mono; [apply (eval_conv2' fuel le ll e _ Hf Henv _ _ _ _ _ H1 w ls pl (proj1 HR) Hb)|].
    intros lv ls1 pl1 HP1. destruct (rel_step2 _ w x ss s1 ls lv ls1 pl1 HR HP1) as (w1 & _ & HR1 & Hd).
    eapply convP_mono; [apply (unscoped_set_conv2 t fl glob call purev ll name x lv _ _ _ _ _ w1 ls1 pl1 H2 (proj1 HR1) Hd (proj1 HP1))|].
    intros [] ls' pl' HP. destruct (rel_step2 _ w1 tt s1 ss' ls1 tt ls' pl' HR1 HP) as (w' & _ & HR' & _).
    split; [apply HP|]. split; [exists w'; exact HR'|exact I].
  Qed.

  (* ---------------- scoped definitions ---------------- *)
  Lemma scoped_tail_noof ctx slv name lvx ls pl : (var <- store_add lvx ctx ;; scoped_store_add slv name var ctx) ls pl <> OutOfFuel.
  Proof.
    rewrite (bind_ok_eq' _ _ _ _ _ _ _ (store_add_eq lvx ctx ls pl)). unfold scoped_store_add, cell_get. unfold bind, get_state, ret. unfold bind. cbn [set_store l_scoped].
    destruct (alist_get name (l_scoped ls)) as [[pairs| |mp]|]; discriminate.
  Qed.
  Lemma scoped_def_core_conv fuel le ll sc name x lvx ss p u ss' p' w ls pl :
    fexpr2' true sc -> env_rel' le ll ->
    (sv <- eval' fuel le sc ;; n <- scope_of sv ;; scoped_add_at n name x false) ss p = Ok (u, ss', p') ->
    Rel2 w ss ls -> den2 w false lvx x -> nob pl ->
    convP (fun lf => (sv <- leval' lf ll sc ;; var <- store_add lvx (ll_ctx ll) ;; scoped_store_add sv name var (ll_ctx ll)) ls pl)
          (fun _ ls' pl' => nob pl' /\ RelX2 ss' ls').
  Proof.
    intros Hf Henv H HR Hdx Hb.
    apply bind_ok in H. destruct H as (sv & s1 & p1 & H1 & H). apply bind_ok in H. destruct H as (n & s2 & p2 & H2 & H3).
    assert (Esv : sv = VSyn n /\ s2 = s1 /\ p2 = p1).
    { unfold scope_of in H2. destruct sv; try discriminate. apply ret_ok in H2. destruct H2 as (-> & -> & ->). auto. }
    destruct Esv as (-> & -> & ->). clear H2.
    apply (convP_bind (fun lf => leval' lf ll sc) (fun _ sv0 => var <- store_add lvx (ll_ctx ll) ;; scoped_store_add sv0 name var (ll_ctx ll))).
    eapply convP_mono; [apply (eval_conv2' fuel le ll sc true Hf Henv _ _ _ _ _ H1 w ls pl (proj1 HR) Hb)|].
    intros slv ls1 pl1 HP1. destruct (rel_step2 _ w (VSyn n) ss s1 ls slv ls1 pl1 HR HP1) as (w1 & Hp1 & HR1 & Hds). unfold Qd in Hds.
    pose proof (den2_mono call w w1 (wext0_wext _ _ Hp1) _ _ _ Hdx) as Hdx1.
    apply convP_of_lres; [|apply scoped_tail_noof].
    apply (scoped_def_tail t fl call purev (ll_ctx ll) n name x lvx slv s1 p1 u ss' p' w1 ls1 pl1 H3 HR1 Hds Hdx1 (proj1 HP1)).
  Qed.
  Lemma xconv2_scoped_val fuel le ll sc name x : fexpr2' true sc -> env_rel' le ll ->
    xconvU2 (sv <- eval' fuel le sc ;; n <- scope_of sv ;; scoped_add_at n name x false)
            (fun lf => sv <- leval' lf ll sc ;; var <- store_add (LValue x) (ll_ctx ll) ;; scoped_store_add sv name var (ll_ctx ll)).
  Proof.
    intros Hf Henv ss p u ss' p' H ls pl [w HR] Hb.
    eapply convP_mono; [apply (scoped_def_core_conv fuel le ll sc name x (LValue x) _ _ _ _ _ w ls pl Hf Henv H HR (d2_value call w _ x) Hb)|].
    intros [] ls' pl' [H1 H2]. split; [exact H1|]. split; [exact H2|exact I].
  Qed.
  Lemma xconv2_scoped_def fuel le ll e sc name : fexpr2' false e -> fexpr2' true sc -> env_rel' le ll ->
    xconvU2 (x <- eval' fuel le e ;; sv <- eval' fuel le sc ;; n <- scope_of sv ;; scoped_add_at n name x false)
            (fun lf => x <- leval' lf ll e ;; sv <- leval' lf ll sc ;; var <- store_add x (ll_ctx ll) ;; scoped_store_add sv name var (ll_ctx ll)).
  Proof.
    intros Hfe Hf Henv ss p u ss' p' H ls pl [w HR] Hb. apply bind_ok in H. destruct H as (x & s1 & p1 & H1 & H2).
    apply (convP_bind (fun lf => leval' lf ll e) (fun lf x0 => sv <- leval' lf ll sc ;; var <- store_add x0 (ll_ctx ll) ;; scoped_store_add sv name var (ll_ctx ll))).
    eapply convP_mono; [apply (eval_conv2' fuel le ll e false Hfe Henv _ _ _ _ _ H1 w ls pl (proj1 HR) Hb)|].
    intros lv ls1 pl1 HP1. destruct (rel_step2 _ w x ss s1 ls lv ls1 pl1 HR HP1) as (w1 & _ & HR1 & Hd).
    eapply convP_mono; [apply (scoped_def_core_conv fuel le ll sc name x lv _ _ _ _ _ w1 ls1 pl1 Hf Henv H2 HR1 Hd (proj1 HP1))|].
    intros [] ls' pl' [A1 A2]. split; [exact A1|]. split; [exact A2|exact I].
  Qed.

  (* ---------------- graph statements ---------------- *)
  Lemma endpoint_conv2 fuel le ll e : fexpr2' false e -> env_rel' le ll ->
    econv2 (fun r lv n => den2 r false lv (VGraph n)) (x <- eval' fuel le e ;; lift (as_gnode x)) (fun lf => leval' lf ll e).
  Proof.
    intros Hf Henv ss p n ss' p' H w ls pl HR Hb. apply bind_ok in H. destruct H as (x & s1 & p1 & H1 & H2).
    apply lift_ok in H2. destruct H2 as (Hg & -> & ->). apply as_gnode_ok in Hg. subst x.
    apply (eval_conv2' fuel le ll e false Hf Henv _ _ _ _ _ H1 w ls pl HR Hb).
  Qed.
  Lemma attrs_all_conv2 fuel le ll tgt attrs : All fattr2' attrs -> env_rel' le ll ->
    forall a, In a attrs -> aconv2 tgt (exec_attr' fuel le tgt a) (fun lf => lexec_attr' lf ll a).
  Proof. intros Hall Henv a Hin. apply attr_conv2; [apply (All_In _ _ _ Hall Hin)|exact Henv]. Qed.

  Lemma xconv2_attr_node fuel le ll node attrs : fexpr2' false node -> All fattr2' attrs -> env_rel' le ll ->
    xconvU2 (nv <- eval' fuel le node ;; n <- lift (as_gnode nv) ;; iterM (exec_attr' fuel le (TNode n)) attrs)
            (fun lf => nv <- leval' lf ll node ;; outs <- mapM (lexec_attr' lf ll) attrs ;; push_lstmt (LSAttrNode nv (concat outs) (ll_ctx ll))).
  Proof.
    intros Hfn Hfa Henv ss p u ss' p' H ls pl [w HR] Hb.
    assert (H' : exists n s1 p1, (x <- eval' fuel le node ;; lift (as_gnode x)) ss p = Ok (n, s1, p1) /\ iterM (exec_attr' fuel le (TNode n)) attrs s1 p1 = Ok (u, ss', p')).
    { apply bind_ok in H. destruct H as (nv & s1 & p1 & H1 & H). apply bind_ok in H. destruct H as (n & s2 & p2 & H2 & H3).
      exists n, s2, p2. split; [|exact H3]. unfold bind at 1. rewrite H1. exact H2. }
    destruct H' as (n & s1 & p1 & H1 & H3).
    apply convP_bind. eapply convP_mono; [apply (endpoint_conv2 fuel le ll node Hfn Henv _ _ _ _ _ H1 w ls pl (proj1 HR) Hb)|].
    intros nv' ls1 pl1 HP1. destruct (rel_step2 _ w n ss s1 ls nv' ls1 pl1 HR HP1) as (w1 & _ & HR1 & Hdn).
    apply (convP_bind (fun lf => mapM (lexec_attr' lf ll) attrs) (fun _ outs => push_lstmt (LSAttrNode nv' (concat outs) (ll_ctx ll)))).
    eapply convP_mono; [apply (attrs_conv2 (TNode n) _ (fun lf => lexec_attr' lf ll) attrs (attrs_all_conv2 fuel le ll (TNode n) attrs Hfa Henv) _ _ _ _ _ H3 w1 ls1 pl1 (proj1 HR1) (proj1 HP1))|].
    intros outs ls2 pl2 (Hb2 & Hf2 & Hsc2 & w2 & kvs & Hp2 & HR2 & Hd2 & Hg2).
    unfold push_lstmt, Lazy.upd. apply convP_modify. split; [exact Hb2|]. split; [|exact I]. exists w2.
    apply (rel_push_attr2 t fl call purev w1 w2 s1 ss' ls1 ls2 _ (map (mk (TNode n)) kvs) HR1 Hp2 Hf2 Hsc2 HR2); [|exact Hg2].
    exists n, kvs. split; [eapply den2_mono; [apply wext0_wext, Hp2|exact Hdn]|]. split; [exact Hd2|reflexivity].
  Qed.

  Lemma xconv2_attr_edge fuel le ll src snk attrs : fexpr2' false src -> fexpr2' false snk -> All fattr2' attrs -> env_rel' le ll ->
    xconvU2 (a <- (x <- eval' fuel le src ;; lift (as_gnode x)) ;; b <- (x <- eval' fuel le snk ;; lift (as_gnode x)) ;;
             iterM (exec_attr' fuel le (TEdge a b)) attrs)
            (fun lf => a <- leval' lf ll src ;; b <- leval' lf ll snk ;; outs <- mapM (lexec_attr' lf ll) attrs ;;
             push_lstmt (LSAttrEdge a b (concat outs) (ll_ctx ll))).
  Proof.
    intros Hfa Hfb Hfat Henv ss p u ss' p' H ls pl [w HR] Hb.
    apply bind_ok in H. destruct H as (a & s1 & p1 & H1 & H). apply bind_ok in H. destruct H as (b & s2 & p2 & H2 & H3).
    apply convP_bind. eapply convP_mono; [apply (endpoint_conv2 fuel le ll src Hfa Henv _ _ _ _ _ H1 w ls pl (proj1 HR) Hb)|].
    intros a' ls1 pl1 HP1. destruct (rel_step2 _ w a ss s1 ls a' ls1 pl1 HR HP1) as (w1 & _ & HR1 & Hda).
    apply convP_bind. eapply convP_mono; [apply (endpoint_conv2 fuel le ll snk Hfb Henv _ _ _ _ _ H2 w1 ls1 pl1 (proj1 HR1) (proj1 HP1))|].
    intros b' ls2 pl2 HP2. destruct (rel_step2 _ w1 b s1 s2 ls1 b' ls2 pl2 HR1 HP2) as (w2 & Hp12 & HR2 & Hdb).
    apply (convP_bind (fun lf => mapM (lexec_attr' lf ll) attrs) (fun _ outs => push_lstmt (LSAttrEdge a' b' (concat outs) (ll_ctx ll)))).
    eapply convP_mono; [apply (attrs_conv2 (TEdge a b) _ (fun lf => lexec_attr' lf ll) attrs (attrs_all_conv2 fuel le ll (TEdge a b) attrs Hfat Henv) _ _ _ _ _ H3 w2 ls2 pl2 (proj1 HR2) (proj1 HP2))|].
    intros outs ls3 pl3 (Hb3 & Hf3 & Hsc3 & w3 & kvs & Hp3 & HR3 & Hd3 & Hg3).
    unfold push_lstmt, Lazy.upd. apply convP_modify. split; [exact Hb3|]. split; [|exact I]. exists w3.
    apply (rel_push_attr2 t fl call purev w2 w3 s2 ss' ls2 ls3 _ (map (mk (TEdge a b)) kvs) HR2 Hp3 Hf3 Hsc3 HR3); [|exact Hg3].
    exists a, b, kvs. split; [eapply den2_mono; [|exact Hda]; apply wext0_wext; eapply wext0_trans; eauto|]. split; [eapply den2_mono; [apply wext0_wext, Hp3|exact Hdb]|]. split; [exact Hd3|reflexivity].
  Qed.

  Lemma xconv2_edge fuel le ll src snk dbg : fexpr2' false src -> fexpr2' false snk -> env_rel' le ll ->
    xconvU2 (a <- (x <- eval' fuel le src ;; lift (as_gnode x)) ;; b <- (x <- eval' fuel le snk ;; lift (as_gnode x)) ;;
             isnew <- add_edge a b ;; (if isnew : bool then ret tt else ret tt))
            (fun lf => a <- leval' lf ll src ;; b <- leval' lf ll snk ;; push_lstmt (LSEdge a b [] dbg)).
  Proof.
    intros Hfa Hfb Henv ss p u ss' p' H ls pl [w HR] Hb.
    apply bind_ok in H. destruct H as (a & s1 & p1 & H1 & H). apply bind_ok in H. destruct H as (b & s2 & p2 & H2 & H).
    apply bind_ok in H. destruct H as (isnew & s3 & p3 & H3 & H4).
    assert (E4 : ss' = s3) by (destruct isnew; apply ret_ok in H4; destruct H4 as (_ & -> & _); reflexivity). subst s3.
    apply convP_bind. eapply convP_mono; [apply (endpoint_conv2 fuel le ll src Hfa Henv _ _ _ _ _ H1 w ls pl (proj1 HR) Hb)|].
    intros a' ls1 pl1 HP1. destruct (rel_step2 _ w a ss s1 ls a' ls1 pl1 HR HP1) as (w1 & _ & HR1 & Hda).
    apply (convP_bind (fun lf => leval' lf ll snk) (fun _ b0 => push_lstmt (LSEdge a' b0 [] dbg))).
    eapply convP_mono; [apply (endpoint_conv2 fuel le ll snk Hfb Henv _ _ _ _ _ H2 w1 ls1 pl1 (proj1 HR1) (proj1 HP1))|].
    intros b' ls2 pl2 HP2. destruct (rel_step2 _ w1 b s1 s2 ls1 b' ls2 pl2 HR1 HP2) as (w2 & Hp12 & HR2 & Hdb).
    unfold push_lstmt, Lazy.upd. apply convP_modify. split; [apply HP2|]. split; [|exact I]. exists w2.
    destruct (add_edge_ok _ _ _ _ _ _ _ H3) as [Hedge Hs].
    apply (rel_push_edge2 t fl call purev w2 s2 ss' ls2 a' b' a b dbg HR2); [eapply den2_mono; [apply wext0_wext, Hp12|exact Hda]|exact Hdb|exact Hedge| |]; rewrite Hs; reflexivity.
  Qed.

  Lemma print_arg_conv2 fuel le ll e : fexpr2' false e -> env_rel' le ll ->
    econv2 (arg_ok2 call) (match e with EStr _ => ret tt | _ => eval' fuel le e ;;; ret tt end)
                          (fun lf => match e with EStr _ => ret None | _ => lv <- leval' lf ll e ;; ret (Some lv) end).
  Proof.
    intros Hf Henv.
    assert (Hgen : econv2 (arg_ok2 call) (eval' fuel le e ;;; ret tt) (fun lf => lv <- leval' lf ll e ;; ret (Some lv))).
    { intros ss p u ss' p' H w ls pl HR Hb. apply bind_ok in H. destruct H as (v & s1 & p1 & H1 & H2). apply ret_ok in H2. destruct H2 as (-> & -> & ->).
      apply (convP_bind (fun lf => leval' lf ll e) (fun _ lv => ret (Some lv))).
      eapply convP_mono; [apply (eval_conv2' fuel le ll e false Hf Henv _ _ _ _ _ H1 w ls pl HR Hb)|].
      intros lv ls1 pl1 HP. apply convP_ret. eapply epost2_impl; [exact HP|]. intros r Hd. exists v. exact Hd. }
    destruct e; try exact Hgen.
    intros ss p u ss' p' H w ls pl HR Hb. apply ret_ok in H. destruct H as (-> & -> & ->). apply convP_ret. apply epost2_here; [exact HR|exact Hb|exact I].
  Qed.

  Lemma xconv2_print fuel le ll values dbg : All (fexpr2' false) values -> env_rel' le ll ->
    xconvU2 (iterM (fun e => match e with EStr _ => ret tt | _ => eval' fuel le e ;;; ret tt end) values)
            (fun lf => args <- mapM (fun e => match e with EStr _ => ret None | _ => lv <- leval' lf ll e ;; ret (Some lv) end) values ;;
             push_lstmt (LSPrint args dbg)).
  Proof.
    intros Hf Henv ss p u ss' p' H ls pl [w HR] Hb. destruct (iterM_mapM _ _ _ _ _ _ _ H) as (us & H').
    apply (convP_bind (fun lf => mapM (fun e => match e with EStr _ => ret None | _ => lv <- leval' lf ll e ;; ret (Some lv) end) values)
                      (fun _ args => push_lstmt (LSPrint args dbg))).
    eapply convP_mono; [apply (trav_conv2 t fl call purev _ (fun lf e => match e with EStr _ => ret None | _ => lv <- leval' lf ll e ;; ret (Some lv) end) (arg_ok2 call) (fexpr2' false) (arg_ok2_mono call) (fun e He => print_arg_conv2 fuel le ll e He Henv) values Hf _ _ _ _ _ H' w ls pl (proj1 HR) Hb)|].
    intros args ls1 pl1 HP. destruct (rel_step2 _ w us ss ss' ls args ls1 pl1 HR HP) as (w1 & _ & HR1 & HF).
    unfold push_lstmt, Lazy.upd. apply convP_modify. split; [apply HP|]. split; [|exact I]. exists w1.
    destruct HR1 as (A & Hcells & Hnd & Hss & Hpr & B). split; [exact A|]. split; [exact Hcells|]. split; [exact Hnd|]. split; [exact Hss|]. split; [|exact B].
    cbn [l_prints]. apply Forall_app. split; [exact Hpr|]. constructor; [|constructor]. cbn [print_ok2].
    clear -HF. induction HF as [|a b l l' Hab _ IH]; constructor; [exact Hab|exact IH].
  Qed.

  Lemma xconv2_cond fuel le ll c : fcond2 okfn purev m c -> env_rel' le ll ->
    xconv2 eq (test_cond t fl glob call fuel le c) (fun lf => ltest_cond t fl glob call lf ll c).
  Proof.
    intros Hf Henv. destruct c; cbn [test_cond ltest_cond fcond2] in *.
    - apply (xconv2_bind eq eq _ (fun lf => leager t fl glob call lf ll e) _ (fun _ v => ret (negb (match v with VNull => true | _ => false end)))); [apply xconv2_eager; assumption|].
      intros a b <-. apply xconv2_ret. reflexivity.
    - apply (xconv2_bind eq eq _ (fun lf => leager t fl glob call lf ll e) _ (fun _ v => ret (match v with VNull => true | _ => false end))); [apply xconv2_eager; assumption|].
      intros a b <-. apply xconv2_ret. reflexivity.
    - apply (xconv2_bind eq eq _ (fun lf => leager t fl glob call lf ll e) _ (fun _ v => lift (as_bool v))); [apply xconv2_eager; assumption|].
      intros a b <-. apply xconv2_lift.
  Qed.

  Lemma xconv2_if test (test' : nat -> cond -> M lstate bool) run (run' : nat -> list stmt -> M lstate unit) arms :
    All (fun arm : list cond * list stmt * loc =>
           All (fun c => xconv2 eq (test c) (fun lf => test' lf c)) (fst (fst arm)) /\ xconvU2 (run (snd (fst arm))) (fun lf => run' lf (snd (fst arm)))) arms ->
    xconvU2 (if_loop test run arms) (fun lf => lif_loop (test' lf) (run' lf) arms).
  Proof.
    induction arms as [|[[conds body] l'] arms IH]; cbn [if_loop lif_loop All fst snd]; [intros _; apply xconv2_ret; exact I|].
    intros [[Hc Hb] Hrest].
    apply (xconv2_bind (Forall2 eq) anyQ _ (fun lf => mapM (test' lf) conds) _
             (fun lf bs => if forallb (fun b => b) bs then lpush_frame ;;; run' lf body ;;; lpop_frame else lif_loop (test' lf) (run' lf) arms)).
    { apply (xconv2_mapM eq _ test test' conds (fun c Hc0 => Hc0) Hc). }
    intros bs bs' HF. apply Forall2_eq in HF. subst bs'. destruct (forallb (fun b => b) bs); [|apply IH, Hrest].
    apply (xconv2_seq anyQ _ (fun _ => lpush_frame) _ (fun lf => run' lf body ;;; lpop_frame)); [apply xconv2_push_frame|].
    apply (xconv2_seq anyQ _ (fun lf => run' lf body) _ (fun _ => lpop_frame)); [exact Hb|apply xconv2_pop_frame].
  Qed.

  Lemma xconv2_scan run (run' : nat -> list str -> list stmt -> M lstate unit) arms rs subject :
    (forall caps k r body l', nth_error arms k = Some (r, body, l') -> xconvU2 (run caps body) (fun lf => run' lf caps body)) ->
    forall sfuel i, xconvU2 (scan_loop find run arms rs subject sfuel i) (fun lf => lscan_loop find (run' lf) arms rs subject sfuel i).
  Proof.
    intros Hrun. induction sfuel as [|sfuel IH]; intros i; cbn [scan_loop lscan_loop]; [apply xconv2_soof|].
    destruct (N.ltb i (N.of_nat (length subject))); [|apply xconv2_ret; exact I]. apply xconv2_spoll. cbv zeta.
    apply (xconv2_lpoll_n anyQ _ L_scan _ (fun lf => match arm_select find rs (skipn (N.to_nat i) subject) with
                                                     | ASelNone => ret tt
                                                     | ASelEmpty _ => fail EEmptyRegexCapture
                                                     | ASelArm k caps =>
                                                         match nth_error arms (N.to_nat k) with
                                                         | Some (_, body, _) => lpush_frame ;;; run' lf (cap_texts (skipn (N.to_nat i) subject) caps) body ;;; lpop_frame ;;;
                                                                                lscan_loop find (run' lf) arms rs subject sfuel (i + snd (cap0 caps))
                                                         | None => panic P_regex_table
                                                         end
                                                     end)).
    destruct (arm_select find rs (skipn (N.to_nat i) subject)) as [|k|k caps]; [apply xconv2_ret; exact I|apply xconv2_sfail|].
    destruct (nth_error arms (N.to_nat k)) as [[[r body] l']|] eqn:E; [|apply xconv2_spanic].
    apply (xconv2_seq anyQ _ (fun _ => lpush_frame) _ (fun lf => run' lf (cap_texts (skipn (N.to_nat i) subject) caps) body ;;; lpop_frame ;;; lscan_loop find (run' lf) arms rs subject sfuel (i + snd (cap0 caps)))); [apply xconv2_push_frame|].
    apply (xconv2_seq anyQ _ (fun lf => run' lf (cap_texts (skipn (N.to_nat i) subject) caps) body) _ (fun lf => lpop_frame ;;; lscan_loop find (run' lf) arms rs subject sfuel (i + snd (cap0 caps)))); [apply (Hrun _ _ _ _ _ E)|].
    apply (xconv2_seq anyQ _ (fun _ => lpop_frame) _ (fun lf => lscan_loop find (run' lf) arms rs subject sfuel (i + snd (cap0 caps)))); [apply xconv2_pop_frame|apply IH].
  Qed.

  Notation exec_stmt' := (exec_stmt t fl config0 glob regexes find call).
  Notation lexec_stmt' := (lexec_stmt t fl config0 glob regexes find call).

  Lemma stmt_conv2 : forall fuel le ll s, fstmt2' s -> env_rel' le ll -> xconvU2 (exec_stmt' fuel le s) (fun lf => lexec_stmt' lf ll s).
  Proof.
    induction fuel as [|fuel IH]; intros le ll s Hf Henv; [apply xconv2_soof|].
    assert (Hblock : forall le' ll' (wrap : M sstate unit -> M sstate unit) body, env_rel' le' ll' -> All fstmt2' body ->
               (forall ms mlf, xconvU2 ms mlf -> xconvU2 (wrap ms) mlf) ->
               xconvU2 (iterM (fun st => let c := ctx_update (le_ctx le') st in
                                         ctx_wrap (CtxStmts [c]) (wrap (exec_stmt' fuel (le_with_ctx le' c) st))) body)
                       (fun lf => iterM (fun st => lexec_stmt' lf (ll_with_ctx ll' (ctx_update (ll_ctx ll') st)) st) body)).
    { intros le' ll' wrap body Henv' Hbody Hw.
      apply (xconv2_iter fstmt2' _ (fun lf st => lexec_stmt' lf (ll_with_ctx ll' (ctx_update (ll_ctx ll') st)) st)); [|exact Hbody].
      intros st Hst. cbv zeta. apply xconv2_sctx, Hw. apply IH; [exact Hst|apply env_rel_ctx, Henv']. }
    assert (Harm : forall le' ll' body, env_rel' le' ll' -> All fstmt2' body ->
               xconvU2 (iterM (fun st => let c := ctx_update (le_ctx le') st in
                                         ctx_wrap (CtxStmts [c]) (ctx_wrap CtxOther (exec_stmt' fuel (le_with_ctx le' c) st))) body)
                       (fun lf => iterM (fun st => let c := ctx_update (ll_ctx ll') st in
                                         ctx_wrap (CtxStmts [c]) (ctx_wrap CtxOther (lexec_stmt' lf (ll_with_ctx ll' c) st))) body)).
    { intros le' ll' body Henv' Hbody.
      apply (xconv2_iter fstmt2' _ (fun lf st => let c := ctx_update (ll_ctx ll') st in
                                        ctx_wrap (CtxStmts [c]) (ctx_wrap CtxOther (lexec_stmt' lf (ll_with_ctx ll' c) st)))); [|exact Hbody].
      intros st Hst. cbv zeta. apply xconv2_sctx, xconv2_sctx.
      apply (xconv2_lctx anyQ _ _ (fun lf => ctx_wrap CtxOther (lexec_stmt' lf (ll_with_ctx ll' (ctx_update (ll_ctx ll') st)) st))).
      apply (xconv2_lctx anyQ _ _ (fun lf => lexec_stmt' lf (ll_with_ctx ll' (ctx_update (ll_ctx ll') st)) st)).
      apply IH; [exact Hst|apply env_rel_ctx, Henv']. }
    destruct s; cbn [exec_stmt]; cbn [fstmt2] in Hf; (eapply xconv2_shift; [intros lf; cbn [lexec_stmt]; reflexivity|]); apply xconv2_spoll; eapply xconv2_lpoll.
    - (* let *) destruct v as [x lx|sc name lx]; cbn [fbind2] in Hf; cbn [var_add lvar_add].
      + apply xconv2_bind_var; assumption.
      + destruct Hf as [Hsc He]. apply xconv2_scoped_def; assumption.
    - (* var *) destruct v; cbn [fmut2] in Hf; [|contradiction]. cbn [var_add lvar_add]. apply xconv2_bind_var; assumption.
    - (* set *) destruct v; cbn [fmut2] in Hf; [|contradiction]. cbn [var_set lvar_set]. apply xconv2_set_var; assumption.
    - (* node *) cbn [config0 c_var_attr c_loc_attr c_match_attr opt_attr lopt_node_attr].
      eapply xconv2_bind; [apply xconv2_add_node|]. intros n n' <-. cbv beta.
      eapply xconv2_seq; [apply xconv2_ret; exact I|]. eapply xconv2_seq; [apply xconv2_ret; exact I|].
      eapply xconv2_seq; [apply xconv2_ret; exact I|]. destruct v as [x lx|sc name lx]; cbn [var_add lvar_add].
      + apply (xconv2_unscoped_add ll x (VGraph n) false).
      + apply xconv2_scoped_val; assumption.
    - (* attr on a node *) destruct Hf as [Hn Ha]. apply xconv2_attr_node; assumption.
    - (* edge *) destruct Hf as [Ha Hb]. cbn [config0 c_loc_attr opt_attr]. apply xconv2_edge; assumption.
    - (* attr on an edge *) destruct Hf as (Ha & Hb & Hat). apply xconv2_attr_edge; assumption.
    - (* scan *) destruct Hf as [Hv Harms]. eapply xconv2_bind; [apply xconv2_eager; eassumption|]. intros sv sv' <-. cbv beta.
      eapply xconv2_bind; [apply xconv2_lift|]. intros subject subject' <-. cbv beta. destruct (arm_table regexes arms) as [rs|]; [|apply xconv2_spanic].
      apply (xconv2_scan _ (fun lf caps body => iterM (fun st => let c := ctx_update (ll_ctx (ll_with_caps ll caps)) st in
                                        ctx_wrap (CtxStmts [c]) (ctx_wrap CtxOther (lexec_stmt' lf (ll_with_ctx (ll_with_caps ll caps) c) st))) body)).
      intros caps k r body l' E. apply Harm; [apply env_rel_caps, Henv|].
      apply (All_In _ _ _ Harms (nth_error_In _ _ E)).
    - (* print *) apply xconv2_print; assumption.
    - (* if *)
      apply (xconv2_if _ (fun lf => ltest_cond t fl glob call lf ll) _
               (fun lf body => iterM (fun st => lexec_stmt' lf (ll_with_ctx ll (ctx_update (ll_ctx ll) st)) st) body)).
      eapply All_impl; [|exact Hf]. intros [[conds body] l'] [Hc Hb]. cbn [fst snd] in *. split.
      + eapply All_impl; [|exact Hc]. intros c Hfc. apply xconv2_cond; assumption.
      + apply (Hblock le ll (fun ms => ms) body Henv Hb). auto.
    - (* for *) destruct Hf as [Hv Hbody]. eapply xconv2_bind; [apply xconv2_eager; eassumption|]. intros lv lv' <-. cbv beta.
      eapply xconv2_bind; [apply xconv2_lift|]. intros vals vals' <-. cbv beta. eapply xconv2_seq; [apply xconv2_push_frame|].
      eapply xconv2_seq; [|apply xconv2_pop_frame].
      apply (xconv2_iter (fun _ => True) _ (fun lf v => lclear_frame ;;; lunscoped_add glob ll var (LValue v) false ;;;
                                            iterM (fun st => lexec_stmt' lf (ll_with_ctx ll (ctx_update (ll_ctx ll) st)) st) body)); [|clear; induction vals; cbn; auto].
      intros v _. eapply xconv2_seq; [apply xconv2_clear_frame|]. eapply xconv2_seq; [apply xconv2_unscoped_add|].
      apply (Hblock le ll (fun ms => ms) body Henv Hbody). auto.
  Qed.

  Lemma stanza_conv2 fuel st : All fstmt2' (st_stmts st) -> nodes_for_capture m (st_full_file_idx st) <> [] ->
    xconvU2 (exec_stanza t fl config0 glob regexes find call fuel st m) (fun lf => lexec_stanza t fl config0 glob regexes find call lf st m).
  Proof.
    intros Hst Hfull. unfold exec_stanza, lexec_stanza. eapply xconv2_lpoll. eapply xconv2_seq; [apply xconv2_clear_frame|]. cbv zeta.
    destruct (nodes_for_capture m (st_full_file_idx st)) as [|n' ns']; [contradiction|].
    apply (xconv2_iter fstmt2' _ (fun lf s => ctx_wrap (CtxStmts [{| sc_stmt := stmt_loc s; sc_stanza := st_start st; sc_node := n' |}])
                                   (lexec_stmt' lf (ll_with_ctx {| ll_match := m; ll_full := st_full_file_idx st; ll_caps := []; ll_ctx := {| sc_stmt := (0, 0); sc_stanza := st_start st; sc_node := 0 |} |}
                                                                {| sc_stmt := stmt_loc s; sc_stanza := st_start st; sc_node := n' |}) s))); [|exact Hst].
    intros s Hs. destruct (nodes_for_capture m (st_full_stanza_idx st)) as [|n ns]; [apply xconv2_spanic|].
    apply xconv2_sctx. eapply xconv2_lctx. apply stmt_conv2; [exact Hs|]. repeat split.
  Qed.
End Stmt2Conv.
