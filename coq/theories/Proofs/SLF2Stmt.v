(* Proofs/SLF2Stmt.v — C02, failure direction with scoped variables, part 5: the statements of fragment v2 that fail by
   themselves (bindings, scoped definitions, graph statements, print).
   `fsimK ms ml`: whenever the strict computation ms FAILS with an order-independent error (`okerr2`) from a state related to
   the lazy state by the execution-phase invariant `Rel2 w` of Proofs/SL2Stmt.v, and the lazy state satisfies `K w`
   (Proofs/SLF2Store.v), the lazy computation ml either does not return Ok or leaves a DOOMED state (Proofs/SLF2Eval.v).
   `K w` follows from `Rel2 w` and the lazy-only invariant `CD` = K for the empty world (every cell of an inherited name
   holds literal nodes of D only): `rel_K`.
   Scoped definitions `let sc.x = e` / `node sc.x`:
   * the value e fails: its lazy value is bad and is stored in a thunk — a doomed thunk;
   * the scope sc fails or is not a syntax node: the pair appended to the cell of x has a scope that cannot evaluate to a
     syntax node — a doomed cell;
   * (sc, x) is already defined (DuplicateVariable): the world is extended with the second definition; the cell of x then
     lists the same node twice (`dupsig`) and the final sweep over the cells cannot succeed. *)
From TSG Require Import Model.Lazy Model.Stdlib Proofs.BaseFacts Proofs.Containers Proofs.MonadFacts Proofs.StrictMeta
  Proofs.SLGraph Proofs.SLForce Proofs.SLExpr Proofs.SLConv Proofs.SLStmt Proofs.StrictLazy Proofs.Extends Proofs.Scoped
  Proofs.SL2Force Proofs.SL2Expr Proofs.SL2Stmt Proofs.SLFailGraph Proofs.SLFailStore Proofs.SLFailEval Proofs.SLFailExpr Proofs.SLFailStmt
  Proofs.SLF2Store Proofs.SLF2Jok Proofs.SLF2Eval Proofs.SLF2Expr.

Lemma nres_eqn {S B} (r : outcome exec_error (B * S * polls)) (Post Phi : B -> S -> polls -> Prop) :
  nres r Post -> (forall b s' p', r = Ok (b, s', p') -> Post b s' p' -> Phi b s' p') -> nres r Phi.
Proof. destruct r as [[[b s'] p']|e|x|]; cbn [nres]; auto. Qed.

Section FailStmt2.
  Context {rx : Type}.
  Variables (t : tree) (fl : file) (glob : globals) (regexes : list rx)
            (find : rx -> str -> option (list (option (N * N))))
            (call : ident -> graph -> list value -> res (value * graph)).
  Variable okfn : ident -> Prop.
  Variable purev : ident -> bool.
  Hypothesis Hpure : forall f, okfn f -> pure_fn call f.
  Hypothesis Hperr : forall f, okfn f -> pure_err_fn call f.
  Hypothesis Hcall : call_graph_ext call.
  Variable D : ident -> N -> Prop.
  Hypothesis Hanti : forall name n a, inherited fl name = true -> D name n -> D name a -> In a (anc t n) -> False.
  Variable m : qmatch.
  Hypothesis Hsh : Forall (fun sh => purev (sh_var sh) = false /\ All (fattr2 okfn purev m) (sh_attrs sh)) (f_shorthands fl).

  Notation den2 := (den2 call).
  Notation den_attrs2 := (den_attrs2 call).
  Notation Renv2 := (Renv2 t fl call purev).
  Notation Rel2 := (Rel2 t fl call purev).
  Notation RelX2 := (RelX2 t fl call purev).
  Notation K := (K call fl D).
  Notation J := (J call t fl D).
  Notation bad_lv2 := (bad_lv2 call t fl D).
  Notation bad_scope := (bad_scope call t fl D).
  Notation bad_end := (bad_end call t fl D).
  Notation bad_stmt := (bad_stmt call t fl D).
  Notation bad_stmt_g := (bad_stmt_g call t fl D).
  Notation Doomed2 := (Doomed2 call t fl D).
  Notation ck := (ck call t fl D).
  Notation pfr2 := (pfr2 t fl call D).
  Notation efail2 := (efail2 t fl call purev D).
  Notation fexpr2' := (fexpr2 okfn purev m).
  Notation fattr2' := (fattr2 okfn purev m).
  Notation env_rel' := (env_rel m).
  Notation eval' := (eval t fl glob call).
  Notation leval' := (leval t fl glob call).
  Notation exec_attr' := (exec_attr t fl glob call).
  Notation lexec_attr' := (lexec_attr t fl glob call).
  Notation eval_sim2' := (eval_sim2 t fl glob call okfn purev Hpure m).
  Notation eval_fail2' := (eval_fail2 t fl glob call okfn purev Hpure Hperr Hcall D Hanti m).

  (* ---------------- the lazy-only invariant and the hand-over at the failure point ---------------- *)
  Definition W0 : world := W [] [] t (f_inherited fl).
  Definition CD (ls : lstate) : Prop := K W0 ls.
  Lemma W0_static : wstatic t fl W0. Proof. split; reflexivity. Qed.
  Lemma CD_ok {B} (ml : M lstate B) ls pl b ls' pl' : ck ml -> CD ls -> ml ls pl = Ok (b, ls', pl') -> CD ls'.
  Proof. intros Hk HC E. apply (J_K call t fl D W0 None None). apply (Hk W0 None None W0_static _ _ _ _ _ (K_J _ _ _ _ _ _ HC) E). Qed.
  Lemma CD_init g0 : CD (linit g0).
  Proof. split; [split; [cbn; lia|intros i th Hi; cbn in Hi; lia]|intros name; reflexivity]. Qed.

  Lemma rel_K w ss ls : Rel2 w ss ls -> CD ls -> K w ls.
  Proof.
    intros ((Hst & _ & _) & Hcells & _) [_ HC]. split; [apply Sfull_storeK, Hst|]. intros name. specialize (Hcells name). specialize (HC name).
    destruct (alist_get name (l_scoped ls)) as [[pairs| |mp]|]; try contradiction; [|exact Hcells].
    cbn [cellK] in *. destruct HC as [_ HD]. split; [|exact HD]. exists pairs, []. split; [rewrite app_nil_r; reflexivity|].
    eapply Forall2_mono_l; [|exact Hcells]. intros pr d [H1 H2]. split; [exact H1|eapply den2_weaken; exact H2].
  Qed.
  Lemma Rel2_static w ss ls : Rel2 w ss ls -> wstatic t fl w.
  Proof. intros ((_ & _ & [H _]) & _). exact H. Qed.

  Definition dpost2 {B} : B -> lstate -> polls -> Prop := fun _ ls' _ => Doomed2 ls'.
  Definition RelF (ss : sstate) (ls : lstate) : Prop := RelX2 ss ls /\ CD ls.
  Definition fsim2 {A B} (ms : M sstate A) (ml : M lstate B) : Prop :=
    forall ss p e, ms ss p = Err e -> okerr2 e -> forall ls pl, RelF ss ls -> nob pl -> nres (ml ls pl) dpost2.
  Definition fsimK {A B} (ms : M sstate A) (ml : M lstate B) : Prop :=
    forall ss p e, ms ss p = Err e -> okerr2 e -> forall w ls pl, Rel2 w ss ls -> K w ls -> nob pl -> nres (ml ls pl) dpost2.
  Lemma fsim2_of_K {A B} (ms : M sstate A) (ml : M lstate B) : fsimK ms ml -> fsim2 ms ml.
  Proof. intros H ss p e Hs Ho ls pl [[w HR] HC] Hb. apply (H _ _ _ Hs Ho w ls pl HR (rel_K _ _ _ HR HC) Hb). Qed.

  (* ---------------- doomed states ---------------- *)
  Lemma doomed_thunk2 wK d dc ls : wstatic t fl wK -> J wK (Some d) dc ls -> Doomed2 ls.
  Proof. intros Hws HJ. exists wK, (Some d), dc. split; [exact Hws|]. split; [exact HJ|]. left. discriminate. Qed.
  Lemma doomed_cell2 wK dt c ls : wstatic t fl wK -> J wK dt (Some c) ls -> Doomed2 ls.
  Proof. intros Hws HJ. exists wK, dt, (Some c). split; [exact Hws|]. split; [exact HJ|]. right. left. discriminate. Qed.
  Lemma doomed_dup2 wK ls : wstatic t fl wK -> K wK ls -> dupsig wK -> Doomed2 ls.
  Proof. intros Hws HK Hd. exists wK, None, None. split; [exact Hws|]. split; [apply K_J, HK|]. right. right. left. exact Hd. Qed.
  Lemma doomed_stmt2 wK dt st ls : wstatic t fl wK -> J wK dt None ls -> In st (l_edges ls) \/ In st (l_attrs ls) \/ In st (l_prints ls) -> bad_stmt wK st -> Doomed2 ls.
  Proof. intros Hws HJ Hin Hbad. exists wK, dt, None. split; [exact Hws|]. split; [exact HJ|]. right. right. right. left. exists st. auto. Qed.
  Lemma doomed_conflict2 w wK ss ls ls1 st : Rel2 w ss ls -> wext0 w wK -> EFr ls ls1 -> K wK ls1 ->
    bad_stmt_g wK (s_graph ss) st -> Doomed2 (lpush_attr st ls1).
  Proof.
    intros HR Hp (F1 & F2 & F3 & F4) HK Hbad. pose proof (wstatic_ext0 t fl _ _ Hp (Rel2_static _ _ _ HR)) as Hws.
    destruct HR as (_ & _ & _ & _ & _ & eops & aopss & g1 & He & Ha & Hg1 & Hg2). pose proof (wext0_wext _ _ Hp) as Hx.
    exists wK, None, None. split; [exact Hws|]. split; [apply K_J; exact HK|]. right. right. right. right.
    exists (l_edges ls), [], (l_attrs ls), st, [], eops, aopss, (l_graph ls), g1, (s_graph ss). cbn [lpush_attr l_edges l_attrs l_graph].
    split; [rewrite app_nil_r; symmetry; exact F2|]. split; [rewrite F3; reflexivity|].
    split; [eapply Forall2_mono_l; [|exact He]; intros st0 e0; apply den_edge2_mono, Hx|].
    split; [eapply Forall2_mono_l; [|exact Ha]; intros st0 e0; apply den_astmt2_mono, Hx|]. auto.
  Qed.

  (* ---------------- a bound variable: `let` / `var` / `set` ---------------- *)
  Lemma store_add_doomed2 wK lv dbg ls : K wK ls -> bad_lv2 wK lv ->
    J wK (Some (length (l_store ls), lv)) None (set_store (l_store ls ++ [{| th_state := TUnforced lv; th_dbg := dbg |}]) ls).
  Proof.
    intros [Hs Hc] HB. unfold SLF2Store.J, SLF2Store.K. cbn [set_store l_store l_scoped]. split; [split; [apply storeK_app, Hs|exact Hc]|]. split; [|exact I].
    cbn [dtl]. split; [apply Hs|]. split; [exact HB|]. exists dbg. rewrite nth_error_app2, Nat.sub_diag by lia. reflexivity.
  Qed.
  Lemma fsimK_bind_var fuel le ll e lf name mu : fexpr2' (purev name) e -> env_rel' le ll ->
    fsimK (x <- eval' fuel le e ;; unscoped_add glob name x mu) (x <- leval' lf ll e ;; lunscoped_add glob ll name x mu).
  Proof.
    intros Hf Henv ss p err H Ho w ls pl HR HK Hb. pose proof (Rel2_static _ _ _ HR) as Hws. apply bind_err in H. destruct H as [H|(x & s1 & p1 & H1 & H2)].
    - apply nres_bind. eapply nres_mono; [apply (eval_fail2' fuel le ll e _ Hf Henv lf _ _ _ H Ho w ls pl (proj1 HR) HK Hb)|].
      intros lv ls1 pl1 (HF1 & wK & Hp & HK1 & HB). unfold lunscoped_add. destruct (globals_get glob name); [exact I|].
      apply nres_bind. rewrite store_add_eq. cbn [nres]. apply nres_get.
      destruct (varmap_add (l_locals (set_store (l_store ls1 ++ [{| th_state := TUnforced lv; th_dbg := ll_ctx ll |}]) ls1)) name (LVar (N.of_nat (length (l_store ls1)))) mu) as [l1|e1]; [|exact I].
      rewrite set_llocals_eq. cbn [nres]. unfold dpost2. eapply (doomed_thunk2 wK); [eapply wstatic_ext0; eauto|].
      eapply J_same; [| |apply (store_add_doomed2 wK lv (ll_ctx ll) ls1 HK1 HB)]; reflexivity.
    - apply nres_bind. apply nres_of_lres.
      eapply lres_mono; [apply (eval_sim2' fuel le ll e _ Hf Henv lf _ _ _ _ _ H1 w ls pl (proj1 HR) Hb)|].
      intros lv ls1 pl1 HP1. eapply epost2_K in HP1; [|exact HK]. destruct HP1 as (Hb1 & _ & w1 & _ & HR1 & HK1 & _).
      apply nok_nres. eapply unscoped_add_fail2; eauto.
  Qed.
  Lemma unscoped_set_fail2 ll name v lv : enok2 t fl call purev D (unscoped_set glob name v) (lunscoped_set glob ll name lv).
  Proof.
    intros ss p e H Ho w ls pl (Hst & Hl & Hsc) HK Hb. unfold unscoped_set, lunscoped_set in *. destruct (globals_get glob name); [exact I|].
    unfold bind, get_state in H. destruct (varmap_set (s_locals ss) name v) as [l1|e1] eqn:E; [discriminate|].
    apply nres_bind. rewrite store_add_eq. cbn [nres]. apply nres_get. cbn [set_store l_locals].
    destruct (varmap_set (l_locals ls) name (LVar (N.of_nat (length (l_store ls))))) as [l1'|e1'] eqn:E'; [|destruct (varmap_get (l_locals ls) name); exact I].
    exfalso. clear H Hst. revert l1' E' e1 E. induction Hl as [|f f' l l' Hf Hl' IH]; intros l1' E' e1 E; cbn [varmap_set] in *; [discriminate|].
    pose proof (frame_get2 call purev w f f' name Hf) as G. destruct (alist_get name f) as [[v1 m1]|], (alist_get name f') as [[lv2 m2]|]; try contradiction.
    - destruct G as [<- _]. destruct m1; discriminate.
    - destruct (varmap_set l name v) as [up|e2] eqn:Eu; [discriminate|]. destruct (varmap_set l' name (LVar (N.of_nat (length (l_store ls))))) as [up'|e2'] eqn:Eu'; [|discriminate].
      apply (IH up' eq_refl e2 eq_refl).
  Qed.
  Lemma fsimK_set_var fuel le ll e lf name : fexpr2' (purev name) e -> env_rel' le ll ->
    fsimK (x <- eval' fuel le e ;; unscoped_set glob name x) (x <- leval' lf ll e ;; lunscoped_set glob ll name x).
  Proof.
    intros Hf Henv ss p err H Ho w ls pl HR HK Hb. pose proof (Rel2_static _ _ _ HR) as Hws. apply bind_err in H. destruct H as [H|(x & s1 & p1 & H1 & H2)].
    - apply nres_bind. eapply nres_mono; [apply (eval_fail2' fuel le ll e _ Hf Henv lf _ _ _ H Ho w ls pl (proj1 HR) HK Hb)|].
      intros lv ls1 pl1 (HF1 & wK & Hp & HK1 & HB). unfold lunscoped_set. destruct (globals_get glob name); [exact I|].
      apply nres_bind. rewrite store_add_eq. cbn [nres]. apply nres_get.
      destruct (varmap_set (l_locals (set_store (l_store ls1 ++ [{| th_state := TUnforced lv; th_dbg := ll_ctx ll |}]) ls1)) name (LVar (N.of_nat (length (l_store ls1))))) as [l1|e1].
      + rewrite set_llocals_eq. cbn [nres]. unfold dpost2. eapply (doomed_thunk2 wK); [eapply wstatic_ext0; eauto|].
        eapply J_same; [| |apply (store_add_doomed2 wK lv (ll_ctx ll) ls1 HK1 HB)]; reflexivity.
      + destruct (varmap_get (l_locals (set_store (l_store ls1 ++ [{| th_state := TUnforced lv; th_dbg := ll_ctx ll |}]) ls1)) name); exact I.
    - apply nres_bind. apply nres_of_lres.
      eapply lres_mono; [apply (eval_sim2' fuel le ll e _ Hf Henv lf _ _ _ _ _ H1 w ls pl (proj1 HR) Hb)|].
      intros lv ls1 pl1 HP1. eapply epost2_K in HP1; [|exact HK]. destruct HP1 as (Hb1 & _ & w1 & _ & HR1 & HK1 & _).
      apply nok_nres. eapply unscoped_set_fail2; eauto.
  Qed.

  (* ---------------- scoped definitions ---------------- *)
  Lemma leval_scope_pairD fuel le sc name l x dbg ls p sv ls1 p1 : inh_scope_ok fl D (ll_match le) (VarS sc name l) ->
    leval' fuel le sc ls p = Ok (sv, ls1, p1) -> pairD fl D name (sv, x, dbg).
  Proof.
    intros Hs H1 Hi. destruct (Hs Hi) as (nm & q & fi & si & l0 & -> & HD). destruct fuel as [|fuel]; [discriminate|]. cbn [leval] in H1.
    apply bind_ok in H1 as (v & s' & p'' & Hl & Hr). apply lift_ok in Hl as (Hfn & -> & ->). apply ret_ok in Hr as (-> & _ & _).
    exists v. split; [reflexivity|]. intros k ->. apply HD. eapply from_nodes_syn; eauto.
  Qed.
  Lemma scoped_store_add_nres slv name v dbg ls p (Phi : unit -> lstate -> polls -> Prop) :
    (forall pairs, (alist_get name (l_scoped ls) = Some (SVUnforced pairs) \/ (alist_get name (l_scoped ls) = None /\ pairs = [])) ->
       Phi tt (set_scoped_l (alist_set name (SVUnforced (pairs ++ [(slv, v, dbg)])) (l_scoped ls)) ls) p) ->
    nres (scoped_store_add slv name v dbg ls p) Phi.
  Proof.
    intros H. unfold scoped_store_add. apply nres_bind. unfold cell_get. apply nres_get. apply nres_ret.
    destruct (alist_get name (l_scoped ls)) as [[pairs| |mp]|] eqn:Ec; try exact I.
    - rewrite cell_set_eq. cbn [nres]. apply H. left. reflexivity.
    - rewrite cell_set_eq. cbn [nres]. apply (H []). right. auto.
  Qed.

  (* the value of the definition is bad: a doomed thunk *)
  Lemma scoped_value_fail lf ll sc name l lvx wK ls pl : wstatic t fl wK -> inh_scope_ok fl D (ll_match ll) (VarS sc name l) ->
    K wK ls -> bad_lv2 wK lvx ->
    nres ((sv <- leval' lf ll sc ;; var <- store_add lvx (ll_ctx ll) ;; scoped_store_add sv name var (ll_ctx ll)) ls pl) dpost2.
  Proof.
    intros Hws Hsd HK HB. apply nres_bind. destruct (leval' lf ll sc ls pl) as [[[slv ls1] pl1]|e|x|] eqn:Esc; cbn [nres]; try exact I.
    assert (HK1 : K wK ls1).
    { apply (J_K call t fl D wK None None). apply (jk_leval call t fl D Hanti glob wK None None Hws lf ll sc _ _ _ _ _ (K_J _ _ _ _ _ _ HK) Esc). }
    apply nres_bind. rewrite store_add_eq. cbn [nres].
    pose proof (store_add_doomed2 wK lvx (ll_ctx ll) ls1 HK1 HB) as HJ.
    match goal with |- nres (scoped_store_add ?a ?b ?c ?d ?s ?p) _ => destruct (scoped_store_add a b c d s p) as [[[u ls3] pl3]|e|x|] eqn:E; cbn [nres]; try exact I end.
    unfold dpost2. eapply (doomed_thunk2 wK); [exact Hws|].
    refine (jk_scoped_store_add call t fl D wK _ None slv name _ (ll_ctx ll) _ _ _ _ _ _ HJ E).
    eapply leval_scope_pairD; eauto.
  Qed.

  (* the scope of the definition cannot evaluate to a syntax node: a doomed cell *)
  Lemma scoped_scope_fail name slv lvx dbg wK ls pl : wstatic t fl wK -> K wK ls -> bad_scope wK slv ->
    (forall v, pairD fl D name (slv, v, dbg)) ->
    nres ((var <- store_add lvx dbg ;; scoped_store_add slv name var dbg) ls pl) dpost2.
  Proof.
    intros Hws [Hs Hc] HB HD. apply nres_bind. rewrite store_add_eq. cbn [nres]. apply scoped_store_add_nres. intros pairs Hp. cbn [set_store l_scoped] in Hp.
    unfold dpost2. eapply (doomed_cell2 wK None (name, slv)); [exact Hws|].
    unfold SLF2Store.J, SLF2Store.K. cbn [set_scoped_l set_store l_store l_scoped]. split; [split; [apply storeK_app, Hs|]|split; [exact I|]].
    - intros name'. rewrite alist_get_set. destruct (str_eqb_spec name' name) as [->|Hne]; [|apply Hc]. specialize (Hc name). cbn [cellK].
      destruct Hp as [Ep|[Ep ->]]; rewrite Ep in Hc; cbn [cellK] in Hc.
      + destruct Hc as [(early & extra & -> & HF) HDs]. split; [exists early, (extra ++ [(slv, LVar (N.of_nat (length (l_store ls))), dbg)]); split; [rewrite app_assoc; reflexivity|exact HF]|].
        apply Forall_app. split; [exact HDs|constructor; [apply HD|constructor]].
      + split; [exists [], [(slv, LVar (N.of_nat (length (l_store ls))), dbg)]; split; [reflexivity|rewrite Hc; constructor]|constructor; [apply HD|constructor]].
    - cbn [dcl]. split; [exact HB|]. rewrite alist_get_set, str_eqb_refl. exists (LVar (N.of_nat (length (l_store ls)))), dbg. apply in_or_app. right. left. reflexivity.
  Qed.

  (* (node, name) is already defined: the world with the second definition has a duplicate *)
  Lemma scoped_dup_fail name n x lvx slv dbg w ss ls pl v0 : Rel2 w ss ls -> K w ls ->
    scoped_lookup (s_scoped ss) n name = Some v0 -> den2 w true slv (VSyn n) -> den2 w false lvx x -> (forall v, pairD fl D name (slv, v, dbg)) ->
    nres ((var <- store_add lvx dbg ;; scoped_store_add slv name var dbg) ls pl) dpost2.
  Proof.
    intros HR [Hs Hc] Hl Hds Hdx HD. pose proof (Rel2_static _ _ _ HR) as Hws. destruct HR as ((Hst & _ & Hsc) & Hcells & _).
    destruct (proj2 Hsc n name v0 Hl) as (loc0 & pb0 & Hin0 & _).
    apply nres_bind. rewrite store_add_eq. cbn [nres]. apply scoped_store_add_nres. intros pairs Hp. cbn [set_store l_scoped] in Hp.
    set (loc := length (l_store ls)). set (sig2 := w_sig w ++ [(n, name, loc)]).
    set (w2 := W (w_rho w ++ [(x, false)]) sig2 (w_tree w) (w_inhl w)).
    destruct (Sfull_add call w sig2 (l_store ls) lvx x false dbg Hst Hdx (prefix_app _ _)) as (Hx12 & Hst2 & Hnew). fold w2 in Hx12, Hst2, Hnew.
    assert (Hsf : forall name', sig_for name' sig2 = sig_for name' (w_sig w) ++ (if str_eqb name' name then [(n, loc)] else [])).
    { intros name'. unfold sig2. rewrite sig_for_app. f_equal. unfold sig_for. cbn [filter fst snd]. destruct (str_eqb name' name); reflexivity. }
    assert (Hws2 : wstatic t fl w2) by (destruct Hws as [A B]; split; [exact A|exact B]).
    unfold dpost2. apply (doomed_dup2 w2); [exact Hws2| |].
    - split; [cbn [set_scoped_l set_store l_store]; apply Sfull_storeK, Hst2|]. intros name'. cbn [set_scoped_l l_scoped]. rewrite alist_get_set.
      destruct (str_eqb_spec name' name) as [->|Hne].
      + cbn [cellK]. change (w_sig w2) with sig2. rewrite Hsf, str_eqb_refl. pose proof (Hc name) as Hcn. pose proof (Hcells name) as Hun.
        destruct Hp as [Ep|[Ep ->]]; rewrite Ep in Hcn, Hun; cbn [cellK] in Hcn.
        * destruct Hcn as [_ HDs]. split; [|apply Forall_app; split; [exact HDs|constructor; [apply HD|constructor]]].
          exists (pairs ++ [(slv, LVar (N.of_nat loc), dbg)]), []. split; [rewrite app_nil_r; reflexivity|].
          apply Forall2_app; [eapply Forall2_mono_l; [|exact Hun]; intros pr d [H1 H2]; split; [exact H1|eapply den2_weaken; eapply den2_mono; [exact Hx12|exact H2]]|].
          constructor; [|constructor]. split; [reflexivity|]. cbn [fst snd]. eapply den2_weaken. eapply den2_mono; [exact Hx12|exact Hds].
        * exfalso. apply sig_for_in in Hin0. rewrite Hun in Hin0. destruct Hin0.
      + assert (Es : sig_for name' (w_sig w2) = sig_for name' (w_sig w)).
        { change (w_sig w2) with sig2. rewrite Hsf. destruct (str_eqb_spec name' name); [contradiction|apply app_nil_r]. }
        cbn [set_store l_scoped]. specialize (Hc name'). destruct (alist_get name' (l_scoped ls)) as [[prs| |mp]|]; cbn [cellK] in *.
        * rewrite Es. destruct Hc as [(early & extra & E & HF) HDs]. split; [|exact HDs]. exists early, extra. split; [exact E|].
          eapply Forall2_mono_l; [|exact HF]. intros pr d. apply pairK_mono, Hx12.
        * exact I.
        * unfold mapK in *. rewrite Es. exact Hc.
        * rewrite Es. exact Hc.
    - exists name. change (w_sig w2) with sig2. rewrite Hsf, str_eqb_refl, map_app. cbn [map fst]. intros Hnd.
      apply NoDup_remove_2 in Hnd. rewrite app_nil_r in Hnd. apply Hnd. apply in_map_iff. exists (n, loc0). split; [reflexivity|apply sig_for_in, Hin0].
  Qed.

  Lemma scoped_core_fail fuel le ll lf sc name l x lvx ss p e w ls pl :
    fexpr2' true sc -> inh_scope_ok fl D (ll_match ll) (VarS sc name l) -> env_rel' le ll ->
    (sv <- eval' fuel le sc ;; n <- scope_of sv ;; scoped_add_at n name x false) ss p = Err e -> okerr2 e ->
    Rel2 w ss ls -> K w ls -> den2 w false lvx x -> nob pl ->
    nres ((sv <- leval' lf ll sc ;; var <- store_add lvx (ll_ctx ll) ;; scoped_store_add sv name var (ll_ctx ll)) ls pl) dpost2.
  Proof.
    intros Hf Hsd Henv H Ho HR HK Hdx Hb. pose proof (Rel2_static _ _ _ HR) as Hws. apply bind_err in H. destruct H as [H|(sv & s1 & p1 & H1 & H)].
    - (* the scope fails *)
      apply nres_bind. eapply nres_eqn; [apply (eval_fail2' fuel le ll sc true Hf Henv lf _ _ _ H Ho w ls pl (proj1 HR) HK Hb)|].
      intros slv ls1 pl1 Esc (HF1 & wK & Hp & HK1 & HB).
      apply (scoped_scope_fail name slv lvx (ll_ctx ll) wK ls1 pl1 (wstatic_ext0 t fl _ _ Hp Hws) HK1 (bad_scope_lv call t fl D wK slv HB)).
      intros v. eapply leval_scope_pairD; eauto.
    - apply nres_bind. eapply nres_eqn; [apply nres_of_lres; apply (eval_sim2' fuel le ll sc true Hf Henv lf _ _ _ _ _ H1 w ls pl (proj1 HR) Hb)|].
      intros slv ls1 pl1 Esc HP1. destruct (rel_step2 t fl call purev _ w sv ss s1 ls slv ls1 pl1 HR HP1) as (w1 & Hp1 & HR1 & Hds). unfold Qd in Hds.
      assert (HK1 : K w1 ls1) by (apply (K_step0 fl call D w w1 ls ls1 HK Hp1 (proj1 (proj1 HR1))); apply HP1).
      pose proof (proj1 HP1) as Hb1.
      pose proof (wstatic_ext0 t fl _ _ Hp1 Hws) as Hws1.
      pose proof (den2_mono call w w1 (wext0_wext _ _ Hp1) _ _ _ Hdx) as Hdx1.
      apply bind_err in H. destruct H as [H|(n & s2 & p2 & H2 & H3)].
      + (* the scope is not a syntax node *)
        apply (scoped_scope_fail name slv lvx (ll_ctx ll) w1 ls1 pl1 Hws1 HK1).
        * apply (bad_scope_type call Hcall t fl D Hanti w1 Hws1 slv sv (den2_weaken call _ _ _ _ Hds)). intros n ->. discriminate.
        * intros v. eapply leval_scope_pairD; eauto.
      + (* a duplicate definition *)
        assert (Esv : sv = VSyn n /\ s2 = s1 /\ p2 = p1).
        { unfold scope_of in H2. destruct sv; try discriminate. apply ret_ok in H2. destruct H2 as (-> & -> & ->). auto. }
        destruct Esv as (-> & -> & ->).
        assert (Hl : exists v0, scoped_lookup (s_scoped s1) n name = Some v0).
        { unfold scoped_add_at, bind, get_state in H3. unfold scoped_lookup. destruct (scopes_get (s_scoped s1) n) as [f|]; cbn [alist_get] in *; [|discriminate].
          destruct (alist_get name f) as [[v0 mu0]|]; [exists v0; reflexivity|discriminate]. }
        destruct Hl as [v0 Hl].
        apply (scoped_dup_fail name n x lvx slv (ll_ctx ll) w1 s1 ls1 pl1 v0 HR1 HK1 Hl Hds Hdx1). intros v. eapply leval_scope_pairD; eauto.
  Qed.

  Lemma fsimK_scoped_def fuel le ll lf e sc name l : fexpr2' false e -> fexpr2' true sc -> inh_scope_ok fl D (ll_match ll) (VarS sc name l) -> env_rel' le ll ->
    fsimK (x <- eval' fuel le e ;; sv <- eval' fuel le sc ;; n <- scope_of sv ;; scoped_add_at n name x false)
          (x <- leval' lf ll e ;; sv <- leval' lf ll sc ;; var <- store_add x (ll_ctx ll) ;; scoped_store_add sv name var (ll_ctx ll)).
  Proof.
    intros Hfe Hf Hsd Henv ss p err H Ho w ls pl HR HK Hb. pose proof (Rel2_static _ _ _ HR) as Hws. apply bind_err in H. destruct H as [H|(x & s1 & p1 & H1 & H2)].
    - apply nres_bind. eapply nres_mono; [apply (eval_fail2' fuel le ll e false Hfe Henv lf _ _ _ H Ho w ls pl (proj1 HR) HK Hb)|].
      intros lvx ls1 pl1 (HF1 & wK & Hp & HK1 & HB). apply (scoped_value_fail lf ll sc name l lvx wK ls1 pl1 (wstatic_ext0 t fl _ _ Hp Hws) Hsd HK1 HB).
    - apply nres_bind. apply nres_of_lres. eapply lres_mono; [apply (eval_sim2' fuel le ll e false Hfe Henv lf _ _ _ _ _ H1 w ls pl (proj1 HR) Hb)|].
      intros lvx ls1 pl1 HP1. destruct (rel_step2 t fl call purev _ w x ss s1 ls lvx ls1 pl1 HR HP1) as (w1 & Hp1 & HR1 & Hd). unfold Qd in Hd.
      assert (HK1 : K w1 ls1) by (apply (K_step0 fl call D w w1 ls ls1 HK Hp1 (proj1 (proj1 HR1))); apply HP1).
      apply (scoped_core_fail fuel le ll lf sc name l x lvx _ _ _ w1 ls1 pl1 Hf Hsd Henv H2 Ho HR1 HK1 Hd (proj1 HP1)).
  Qed.
  Lemma fsimK_scoped_val fuel le ll lf sc name l x : fexpr2' true sc -> inh_scope_ok fl D (ll_match ll) (VarS sc name l) -> env_rel' le ll ->
    fsimK (sv <- eval' fuel le sc ;; n <- scope_of sv ;; scoped_add_at n name x false)
          (sv <- leval' lf ll sc ;; var <- store_add (LValue x) (ll_ctx ll) ;; scoped_store_add sv name var (ll_ctx ll)).
  Proof.
    intros Hf Hsd Henv ss p err H Ho w ls pl HR HK Hb.
    apply (scoped_core_fail fuel le ll lf sc name l x (LValue x) _ _ _ w ls pl Hf Hsd Henv H Ho HR HK (d2_value call w _ x) Hb).
  Qed.

  (* ---------------- graph statements ---------------- *)
  Lemma endpoint_fail2 fuel le ll e lf : fexpr2' false e -> env_rel' le ll ->
    efail2 bad_end (x <- eval' fuel le e ;; lift (as_gnode x)) (leval' lf ll e).
  Proof.
    intros Hf Henv ss p err H Ho w ls pl HR HK Hb. pose proof (Renv2_static t fl call purev _ _ _ HR) as Hws. apply bind_err in H. destruct H as [H|(x & s1 & p1 & H1 & H2)].
    - eapply nres_mono; [apply (eval_fail2' fuel le ll e false Hf Henv lf _ _ _ H Ho w ls pl HR HK Hb)|].
      intros lv ls1 pl1 (HF1 & wK & Hp & HK1 & HB). split; [exact HF1|]. exists wK. split; [exact Hp|]. split; [exact HK1|]. apply bad_end_lv, HB.
    - apply lift_err in H2. apply nres_of_lres.
      eapply lres_mono; [apply (eval_sim2' fuel le ll e false Hf Henv lf _ _ _ _ _ H1 w ls pl HR Hb)|].
      intros lv ls1 pl1 HP1. eapply epost2_K in HP1; [|exact HK]. destruct HP1 as (Hb1 & Hf1 & w1 & Hp1 & HR1 & HK1 & Hd).
      split; [apply lframe_EFr, Hf1|]. exists w1. split; [exact Hp1|]. split; [exact HK1|].
      apply (bad_end_type call Hcall t fl D Hanti w1 (wstatic_ext0 t fl _ _ Hp1 Hws) lv x Hd). intros n ->. discriminate.
  Qed.

  (* the attributes of an `attr` statement failed: the statement that is recorded dooms the state *)
  Lemma attrs_doomed2 tgt w1 s1 ls1 outs ls2 pl2 (st : lstmt) :
    Rel2 w1 s1 ls1 -> fpostA2 t fl call D tgt (s_graph s1) w1 ls1 outs ls2 pl2 ->
    (match st with LSAttrNode _ _ _ | LSAttrEdge _ _ _ _ => True | _ => False end) ->
    (forall wK key lv, wext0 w1 wK -> wstatic t fl wK -> In (key, lv) outs -> bad_lv2 wK lv -> bad_stmt wK st) ->
    (forall wK pre key lv post kvs G' v, wext0 w1 wK -> wstatic t fl wK -> outs = pre ++ (key, lv) :: post -> den_attrs2 wK pre kvs -> den2 wK false lv v ->
       apply_attrs (map (mk tgt) kvs) (s_graph s1) = Some G' -> conflict (mk tgt (key, v)) G' -> bad_stmt_g wK (s_graph s1) st) ->
    Doomed2 (lpush_attr st ls2).
  Proof.
    intros HR1 (HF2 & wK & dt & Hp & HJ & HB) Hst Hbad Hconf. pose proof (wstatic_ext0 t fl _ _ Hp (Rel2_static _ _ _ HR1)) as Hws. destruct dt as [d|].
    - eapply (doomed_thunk2 wK); [exact Hws|]. eapply J_same; [| |exact HJ]; reflexivity.
    - destruct (HB eq_refl) as (pre & key & lv & post & kvs & G' & Eo & Hpre & HG & [Hlv|(v & Hv & Hc)]).
      + eapply (doomed_stmt2 wK None); [exact Hws|eapply J_same; [| |exact HJ]; reflexivity|right; left; cbn [lpush_attr l_attrs]; apply in_snoc|].
        apply (Hbad wK key lv Hp Hws); [rewrite Eo; apply in_or_app; right; left; reflexivity|exact Hlv].
      + apply (doomed_conflict2 w1 wK s1 ls1 ls2 st HR1 Hp HF2 (J_K _ _ _ _ _ _ _ _ HJ)). eapply Hconf; eauto.
  Qed.

  Notation attr_fail2' := (attr_fail2 t fl glob call okfn purev Hpure Hperr Hcall D Hanti m Hsh).
  Notation attrs_fail2' := (attrs_fail2 t fl call purev D).

  Lemma fsimK_attr_node fuel le ll lf node attrs : fexpr2' false node -> All fattr2' attrs -> env_rel' le ll ->
    fsimK (nv <- eval' fuel le node ;; n <- lift (as_gnode nv) ;; iterM (exec_attr' fuel le (TNode n)) attrs)
          (nv <- leval' lf ll node ;; outs <- mapM (lexec_attr' lf ll) attrs ;; push_lstmt (LSAttrNode nv (concat outs) (ll_ctx ll))).
  Proof.
    intros Hfn Hfa Henv ss p err H Ho w ls pl HR HK Hb. pose proof (Rel2_static _ _ _ HR) as Hws.
    assert (Hpa : pfr2 (mapM (lexec_attr' lf ll) attrs)) by (apply pfr2_mapM; intros a; apply pfr2_lexec_attr; assumption).
    assert (H' : (x <- eval' fuel le node ;; lift (as_gnode x)) ss p = Err err \/
                 exists n s1 p1, (x <- eval' fuel le node ;; lift (as_gnode x)) ss p = Ok (n, s1, p1) /\ iterM (exec_attr' fuel le (TNode n)) attrs s1 p1 = Err err).
    { apply bind_err in H. destruct H as [H|(nv0 & s1 & p1 & H1 & H)]; [left; unfold bind; rewrite H; reflexivity|].
      apply bind_err in H. destruct H as [H|(n & s2 & p2 & H2 & H3)]; [left; unfold bind; rewrite H1; exact H|].
      right. exists n, s2, p2. split; [unfold bind at 1; rewrite H1; exact H2|exact H3]. }
    destruct H' as [H1|(n & s1 & p1 & H1 & H3)].
    - (* the node does not evaluate to a graph node *)
      apply nres_bind. eapply nres_mono; [apply (endpoint_fail2 fuel le ll node lf Hfn Henv _ _ _ H1 Ho w ls pl (proj1 HR) HK Hb)|]. intros nv ls1 pl1 HP1.
      apply nres_bind.
      eapply nres_mono; [apply (fpostE2_tail t fl call D bad_end (fun r (_ : list (list (ident * lvalue))) => bad_end r nv) w ls nv ls1 pl1 _ Hws HP1 Hpa)|]; [auto|].
      intros outs ls2 pl2 (HF2 & wK & Hp & HK2 & HB). rewrite push_attr_eq by exact I. cbn [nres]. unfold dpost2.
      eapply (doomed_stmt2 wK None); [eapply wstatic_ext0; eauto|apply K_J; exact HK2|right; left; cbn [lpush_attr l_attrs]; apply in_snoc|]. apply bad_stmt_node_end, HB.
    - (* an attribute fails *)
      apply nres_bind. apply nres_of_lres.
      eapply lres_mono; [apply (endpoint_sim2 t fl glob call okfn purev Hpure m fuel le ll node lf Hfn Henv _ _ _ _ _ H1 w ls pl (proj1 HR) Hb)|].
      intros nv ls1 pl1 HP1. destruct (rel_step2 t fl call purev _ w n ss s1 ls nv ls1 pl1 HR HP1) as (w1 & Hp1 & HR1 & Hdn).
      assert (HK1 : K w1 ls1) by (apply (K_step0 fl call D w w1 ls ls1 HK Hp1 (proj1 (proj1 HR1))); apply HP1).
      apply nres_bind.
      eapply nres_mono; [apply (attrs_fail2' (TNode n) _ _ attrs (attrs_all_sim2 t fl glob call okfn purev Hpure m Hsh fuel le ll (TNode n) lf attrs Hfa Henv)
                                 (fun a Hin => attr_fail2' fuel le ll (TNode n) a (All_In _ _ _ Hfa Hin) Henv lf)
                                 (fun a => pfr2_lexec_attr t fl glob call Hcall D Hanti lf ll a) _ _ _ H3 Ho w1 ls1 pl1 (proj1 HR1) HK1 (proj1 HP1))|].
      intros outs ls2 pl2 HP2. rewrite push_attr_eq by exact I. cbn [nres]. unfold dpost2.
      apply (attrs_doomed2 (TNode n) w1 s1 ls1 (concat outs) ls2 pl2 (LSAttrNode nv (concat outs) (ll_ctx ll)) HR1 HP2 I).
      + intros wK key lv _ Hws' Hin Hlv. apply (bad_stmt_node_attr call t fl D Hanti wK Hws' nv (concat outs) (ll_ctx ll) key lv Hin Hlv).
      + intros wK pre key lv post kvs G' v Hp Hws' -> Hpre Hv HG Hc.
        apply (bad_stmt_node_conflict call Hcall t fl D Hanti wK Hws' (s_graph s1) G' nv n pre kvs key lv v post (ll_ctx ll)); try assumption.
        eapply den2_mono; [apply wext0_wext, Hp|exact Hdn].
  Qed.

  Lemma fsimK_edge fuel le ll lf src snk dbg : fexpr2' false src -> fexpr2' false snk -> env_rel' le ll ->
    fsimK (a <- (x <- eval' fuel le src ;; lift (as_gnode x)) ;; b <- (x <- eval' fuel le snk ;; lift (as_gnode x)) ;;
           isnew <- add_edge a b ;; (if isnew : bool then ret tt else ret tt))
          (a <- leval' lf ll src ;; b <- leval' lf ll snk ;; push_lstmt (LSEdge a b [] dbg)).
  Proof.
    intros Hfa Hfb Henv ss p err H Ho w ls pl HR HK Hb. pose proof (Rel2_static _ _ _ HR) as Hws. apply bind_err in H. destruct H as [H|(a & s1 & p1 & H1 & H)].
    - apply nres_bind. eapply nres_mono; [apply (endpoint_fail2 fuel le ll src lf Hfa Henv _ _ _ H Ho w ls pl (proj1 HR) HK Hb)|]. intros a' ls1 pl1 HP1.
      apply nres_bind.
      eapply nres_mono; [apply (fpostE2_tail t fl call D bad_end (fun r (_ : lvalue) => bad_end r a') w ls a' ls1 pl1 _ Hws HP1 (pfr2_leval t fl glob call Hcall D Hanti lf ll snk))|]; [auto|].
      intros b' ls2 pl2 (HF2 & wK & Hp & HK2 & HB). rewrite push_edge_eq. cbn [nres]. unfold dpost2.
      eapply (doomed_stmt2 wK None); [eapply wstatic_ext0; eauto|apply K_J; exact HK2|left; cbn [lpush_edge l_edges]; apply in_snoc|]. apply bad_stmt_edge_src, HB.
    - apply nres_bind. apply nres_of_lres.
      eapply lres_mono; [apply (endpoint_sim2 t fl glob call okfn purev Hpure m fuel le ll src lf Hfa Henv _ _ _ _ _ H1 w ls pl (proj1 HR) Hb)|].
      intros a' ls1 pl1 HP1. destruct (rel_step2 t fl call purev _ w a ss s1 ls a' ls1 pl1 HR HP1) as (w1 & Hp1 & HR1 & Hda).
      assert (HK1 : K w1 ls1) by (apply (K_step0 fl call D w w1 ls ls1 HK Hp1 (proj1 (proj1 HR1))); apply HP1).
      apply bind_err in H. destruct H as [H|(b & s2 & p2 & H2 & H)].
      + apply nres_bind. eapply nres_mono; [apply (endpoint_fail2 fuel le ll snk lf Hfb Henv _ _ _ H Ho w1 ls1 pl1 (proj1 HR1) HK1 (proj1 HP1))|].
        intros b' ls2 pl2 (HF2 & wK & Hp & HK2 & HB). rewrite push_edge_eq. cbn [nres]. unfold dpost2.
        assert (HwsK : wstatic t fl wK) by (eapply wstatic_ext0; [exact Hp|eapply wstatic_ext0; eauto]).
        eapply (doomed_stmt2 wK None); [exact HwsK|apply K_J; exact HK2|left; cbn [lpush_edge l_edges]; apply in_snoc|]. apply bad_stmt_edge_snk; assumption.
      + exfalso. apply bind_err in H. destruct H as [H|(isnew & s3 & p3 & H3 & H4)]; [eapply add_edge_noerr; eauto|]. destruct isnew; eapply ret_noerr; eauto.
  Qed.

  Lemma fsimK_attr_edge fuel le ll lf src snk attrs : fexpr2' false src -> fexpr2' false snk -> All fattr2' attrs -> env_rel' le ll ->
    fsimK (a <- (x <- eval' fuel le src ;; lift (as_gnode x)) ;; b <- (x <- eval' fuel le snk ;; lift (as_gnode x)) ;;
           iterM (exec_attr' fuel le (TEdge a b)) attrs)
          (a <- leval' lf ll src ;; b <- leval' lf ll snk ;; outs <- mapM (lexec_attr' lf ll) attrs ;;
           push_lstmt (LSAttrEdge a b (concat outs) (ll_ctx ll))).
  Proof.
    intros Hfa Hfb Hfat Henv ss p err H Ho w ls pl HR HK Hb. pose proof (Rel2_static _ _ _ HR) as Hws.
    assert (Hpa : pfr2 (mapM (lexec_attr' lf ll) attrs)) by (apply pfr2_mapM; intros a0; apply pfr2_lexec_attr; assumption).
    apply bind_err in H. destruct H as [H|(a & s1 & p1 & H1 & H)].
    - apply nres_bind. eapply nres_mono; [apply (endpoint_fail2 fuel le ll src lf Hfa Henv _ _ _ H Ho w ls pl (proj1 HR) HK Hb)|]. intros a' ls1 pl1 HP1.
      apply nres_bind.
      eapply nres_mono; [apply (fpostE2_tail t fl call D bad_end (fun r (_ : lvalue) => bad_end r a') w ls a' ls1 pl1 _ Hws HP1 (pfr2_leval t fl glob call Hcall D Hanti lf ll snk))|]; [auto|].
      intros b' ls2 pl2 HP2. apply nres_bind.
      eapply nres_mono; [apply (fpostE2_tail t fl call D _ (fun r (_ : list (list (ident * lvalue))) => bad_end r a') w ls b' ls2 pl2 _ Hws HP2 Hpa)|]; [auto|].
      intros outs ls3 pl3 (HF3 & wK & Hp & HK3 & HB). rewrite push_attr_eq by exact I. cbn [nres]. unfold dpost2.
      eapply (doomed_stmt2 wK None); [eapply wstatic_ext0; eauto|apply K_J; exact HK3|right; left; cbn [lpush_attr l_attrs]; apply in_snoc|]. apply bad_stmt_aedge_src, HB.
    - apply nres_bind. apply nres_of_lres.
      eapply lres_mono; [apply (endpoint_sim2 t fl glob call okfn purev Hpure m fuel le ll src lf Hfa Henv _ _ _ _ _ H1 w ls pl (proj1 HR) Hb)|].
      intros a' ls1 pl1 HP1. destruct (rel_step2 t fl call purev _ w a ss s1 ls a' ls1 pl1 HR HP1) as (w1 & Hp1 & HR1 & Hda).
      assert (HK1 : K w1 ls1) by (apply (K_step0 fl call D w w1 ls ls1 HK Hp1 (proj1 (proj1 HR1))); apply HP1).
      pose proof (wstatic_ext0 t fl _ _ Hp1 Hws) as Hws1.
      apply bind_err in H. destruct H as [H|(b & s2 & p2 & H2 & H3)].
      + apply nres_bind. eapply nres_mono; [apply (endpoint_fail2 fuel le ll snk lf Hfb Henv _ _ _ H Ho w1 ls1 pl1 (proj1 HR1) HK1 (proj1 HP1))|]. intros b' ls2 pl2 HP2.
        apply nres_bind.
        eapply nres_mono; [apply (fpostE2_tail t fl call D bad_end (fun r (_ : list (list (ident * lvalue))) => bad_end r b') w1 ls1 b' ls2 pl2 _ Hws1 HP2 Hpa)|]; [auto|].
        intros outs ls3 pl3 (HF3 & wK & Hp & HK3 & HB). rewrite push_attr_eq by exact I. cbn [nres]. unfold dpost2.
        assert (HwsK : wstatic t fl wK) by (eapply wstatic_ext0; eauto).
        eapply (doomed_stmt2 wK None); [exact HwsK|apply K_J; exact HK3|right; left; cbn [lpush_attr l_attrs]; apply in_snoc|]. apply bad_stmt_aedge_snk; assumption.
      + apply nres_bind. apply nres_of_lres.
        eapply lres_mono; [apply (endpoint_sim2 t fl glob call okfn purev Hpure m fuel le ll snk lf Hfb Henv _ _ _ _ _ H2 w1 ls1 pl1 (proj1 HR1) (proj1 HP1))|].
        intros b' ls2 pl2 HP2. destruct (rel_step2 t fl call purev _ w1 b s1 s2 ls1 b' ls2 pl2 HR1 HP2) as (w2 & Hp12 & HR2 & Hdb).
        assert (HK2 : K w2 ls2) by (apply (K_step0 fl call D w1 w2 ls1 ls2 HK1 Hp12 (proj1 (proj1 HR2))); apply HP2).
        apply nres_bind.
        eapply nres_mono; [apply (attrs_fail2' (TEdge a b) _ _ attrs (attrs_all_sim2 t fl glob call okfn purev Hpure m Hsh fuel le ll (TEdge a b) lf attrs Hfat Henv)
                                   (fun a0 Hin => attr_fail2' fuel le ll (TEdge a b) a0 (All_In _ _ _ Hfat Hin) Henv lf)
                                   (fun a0 => pfr2_lexec_attr t fl glob call Hcall D Hanti lf ll a0) _ _ _ H3 Ho w2 ls2 pl2 (proj1 HR2) HK2 (proj1 HP2))|].
        intros outs ls3 pl3 HP3. rewrite push_attr_eq by exact I. cbn [nres]. unfold dpost2.
        apply (attrs_doomed2 (TEdge a b) w2 s2 ls2 (concat outs) ls3 pl3 (LSAttrEdge a' b' (concat outs) (ll_ctx ll)) HR2 HP3 I).
        * intros wK key lv _ Hws' Hin Hlv. apply (bad_stmt_aedge_attr call t fl D Hanti wK Hws' a' b' (concat outs) (ll_ctx ll) key lv Hin Hlv).
        * intros wK pre key lv post kvs G' v Hp Hws' -> Hpre Hv HG Hc.
          apply (bad_stmt_edge_conflict call Hcall t fl D Hanti wK Hws' (s_graph s2) G' a' b' a b pre kvs key lv v post (ll_ctx ll)); try assumption.
          -- eapply den2_mono; [|exact Hda]. apply wext0_wext. eapply wext0_trans; eauto.
          -- eapply den2_mono; [apply wext0_wext, Hp|exact Hdb].
  Qed.

  (* `print` *)
  Definition bad_arg2 (r : world) (a : option lvalue) : Prop := exists lv, a = Some lv /\ bad_lv2 r lv.
  Lemma print_arg_fail2 fuel le ll lf e : fexpr2' false e -> env_rel' le ll ->
    efail2 bad_arg2 (match e with EStr _ => ret tt | _ => eval' fuel le e ;;; ret tt end)
                    (match e with EStr _ => ret None | _ => lv <- leval' lf ll e ;; ret (Some lv) end).
  Proof.
    intros Hf Henv.
    assert (Hgen : efail2 bad_arg2 (eval' fuel le e ;;; ret tt) (lv <- leval' lf ll e ;; ret (Some lv))).
    { intros ss p err H Ho w ls pl HR HK Hb. apply bind_err in H. destruct H as [H|(v & s1 & p1 & H1 & H2)]; [|exfalso; eapply ret_noerr; eauto].
      apply nres_bind. eapply nres_mono; [apply (eval_fail2' fuel le ll e false Hf Henv lf _ _ _ H Ho w ls pl HR HK Hb)|].
      intros lv ls1 pl1 (HF1 & wK & Hp & HK1 & HB). apply nres_ret. split; [exact HF1|]. exists wK. split; [exact Hp|]. split; [exact HK1|].
      exists lv. auto. }
    destruct e; try exact Hgen. intros ss p err H. exfalso. eapply ret_noerr; eauto.
  Qed.
  Lemma print_arg_pfr2 lf ll e : pfr2 (match e with EStr _ => ret None | _ => lv <- leval' lf ll e ;; ret (Some lv) end).
  Proof.
    assert (Hgen : pfr2 (lv <- leval' lf ll e ;; ret (Some lv))) by (apply pfr2_bind; [apply pfr2_leval; assumption|intros lv; apply pfr2_ret]).
    destruct e; try exact Hgen. apply pfr2_ret.
  Qed.
  Lemma fsimK_print fuel le ll lf values dbg : All (fexpr2' false) values -> env_rel' le ll ->
    fsimK (iterM (fun e => match e with EStr _ => ret tt | _ => eval' fuel le e ;;; ret tt end) values)
          (args <- mapM (fun e => match e with EStr _ => ret None | _ => lv <- leval' lf ll e ;; ret (Some lv) end) values ;;
           push_lstmt (LSPrint args dbg)).
  Proof.
    intros Hf Henv ss p err H Ho w ls pl HR HK Hb. pose proof (Rel2_static _ _ _ HR) as Hws. apply iterM_err_mapM in H. apply nres_bind.
    eapply nres_mono; [apply (trav_fail2 t fl call purev D _ _ (arg_ok2 call) bad_arg2 (fexpr2' false) (arg_ok2_mono call)
                               (fun e He => print_arg_sim2 t fl glob call okfn purev Hpure m fuel le ll lf e He Henv)
                               (fun e He => print_arg_fail2 fuel le ll lf e He Henv) (fun e => print_arg_pfr2 lf ll e) values Hf _ _ _ H Ho w ls pl (proj1 HR) HK Hb)|].
    intros args ls1 pl1 (HF1 & wK & Hp & HK1 & pre & a & post & us & -> & _ & lv & -> & HB). rewrite push_print_eq. cbn [nres]. unfold dpost2.
    pose proof (wstatic_ext0 t fl _ _ Hp Hws) as HwsK.
    eapply (doomed_stmt2 wK None); [exact HwsK|apply K_J; exact HK1|right; right; cbn [lpush_print l_prints]; apply in_snoc|].
    apply (bad_stmt_print call t fl D Hanti wK HwsK _ dbg lv); [apply in_or_app; right; left; reflexivity|exact HB].
  Qed.
End FailStmt2.
