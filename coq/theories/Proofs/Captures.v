(* Proofs/Captures.v — C03: captures are bound per match and per stanza, identically in both modes. *)
From TSG Require Import Model.Strict Model.Lazy Proofs.MonadFacts.

(* a plain capture is the matched node, `?` is the node or null, `*`/`+` the list in match order *)
Lemma from_nodes_shape ns q :
  match q with
  | QOne => (exists n rest, ns = n :: rest /\ from_nodes ns q = Ok (VSyn n)) \/ (ns = [] /\ from_nodes ns q = Panic P_missing_capture)
  | QOpt => (exists n rest, ns = n :: rest /\ from_nodes ns q = Ok (VSyn n)) \/ (ns = [] /\ from_nodes ns q = Ok VNull)
  | QStar | QPlus => from_nodes ns q = Ok (VList (map VSyn ns))
  | QZero => from_nodes ns q = Panic P_unreachable_quantifier
  end.
Proof. destruct q, ns; cbn; eauto. Qed.

(* the multiset/sequence of nodes a name denotes is all that matters: strict reads it by the stanza
   query's index from the stanza query's match, lazy by the merged query's index from the merged
   query's match (oracle assumption A3 says these node lists coincide) *)
Section Modes.
  Variables (t : tree) (fl : file) (glob : globals) (call : ident -> graph -> list value -> res (value * graph)).

  Lemma capture_modes_agree fuel fuel' (le : lenv) (ll : llenv) name q fidx sidx l s p sl pl :
    nodes_for_capture (le_match le) sidx = nodes_for_capture (ll_match ll) fidx ->
    match eval t fl glob call (S fuel) le (ECapture name q fidx sidx l) s p,
          leval t fl glob call (S fuel') ll (ECapture name q fidx sidx l) sl pl with
    | Ok (v, _, _), Ok (lv, _, _) => lv = LValue v
    | Panic x, Panic y => x = y
    | Err _, _ | _, Err _ | OutOfFuel, _ | _, OutOfFuel => False
    | _, _ => False
    end.
  Proof.
    intros H. cbn [eval leval]. rewrite H. unfold lift, bind, ret.
    destruct (from_nodes (nodes_for_capture (ll_match ll) fidx) q) as [v|e|x|] eqn:E; try reflexivity.
    - destruct q, (nodes_for_capture (ll_match ll) fidx); cbn in E; discriminate.
    - destruct q, (nodes_for_capture (ll_match ll) fidx); cbn in E; discriminate.
  Qed.
End Modes.

(* a capture's value depends only on the current match and the capture's own index: other stanzas'
   captures, quantifiers and matches cannot influence it *)
Lemma capture_value_local t fl glob call fuel (le le' : lenv) name q fidx sidx l s p :
  nodes_for_capture (le_match le) sidx = nodes_for_capture (le_match le') sidx ->
  eval t fl glob call (S fuel) le (ECapture name q fidx sidx l) s p =
  eval t fl glob call (S fuel) le' (ECapture name q fidx sidx l) s p.
Proof. intros H. cbn [eval]. rewrite H. reflexivity. Qed.

(* every match runs its stanza's block exactly once, stanzas in file order (strict) *)
Fixpoint blocks {A} (sts : list stanza) (ms : list (list A)) : list (stanza * A) :=
  match sts, ms with
  | st :: sts', m :: ms' => map (fun x => (st, x)) m ++ blocks sts' ms'
  | _, _ => []
  end.
Lemma iterM_app {S A} (f : A -> M S unit) l1 l2 : forall s p,
  iterM f (l1 ++ l2) s p = bind (iterM f l1) (fun _ => iterM f l2) s p.
Proof.
  induction l1 as [|x l1 IH]; intros s p; cbn [iterM app].
  - reflexivity.
  - unfold bind. destruct (f x s p) as [[[u s1] p1]| | |]; try reflexivity. rewrite IH. unfold bind. reflexivity.
Qed.
Lemma iterM_map {S A B} (f : B -> M S unit) (g : A -> B) l : forall s p, iterM f (map g l) s p = iterM (fun x => f (g x)) l s p.
Proof. induction l as [|x l IH]; intros s p; cbn [iterM map]; [reflexivity|]. unfold bind. destruct (f (g x) s p) as [[[u s1] p1]| | |]; try reflexivity. apply IH. Qed.

Lemma strict_blocks_once {rx : Type} t fl cfg glob (regexes : list rx) find call fuel sts ms s p :
  exec_file t fl cfg glob regexes find call fuel sts ms s p =
  iterM (fun b : stanza * qmatch => exec_stanza t fl cfg glob regexes find call fuel (fst b) (snd b)) (blocks sts ms) s p.
Proof.
  revert ms s p. induction sts as [|st sts IH]; intros [|m ms] s p; cbn [exec_file blocks]; try reflexivity.
  rewrite iterM_app. unfold bind. rewrite iterM_map. cbn [fst snd].
  destruct (iterM (exec_stanza t fl cfg glob regexes find call fuel st) m s p) as [[[u s1] p1]| | |]; try reflexivity. apply IH.
Qed.
