(* Proofs/Captures.v — C03: captures are bound per match and per stanza, identically in both modes. *)
From TSG Require Import Model.Strict Model.Lazy Proofs.MonadFacts.

(* a plain capture is the matched node, `?` is the node or null, `*`/`+` the list in match order *)
Lemma from_nodes_shape ns q :
  match q with
  | QOne => (exists n rest, ns = n :: rest /\ from_nodes ns q = Ok (VSyn n)) \/ (ns = [] /\ from_nodes ns q = Panic P_missing_capture)
  | QOpt => (exists n rest, ns = n :: rest /\ from_nodes ns q = Ok (VSyn n)) \/ (ns = [] /\ from_nodes ns q = Ok VNull)
  | QStar | QPlus => from_nodes ns q = Ok (VList (map VSyn ns))
  | QZero => from_nodes ns q = Panic P_unreachable_quantifier
  end.
Proof. destruct q, ns; cbn; eauto. Qed.

(* the multiset/sequence of nodes a name denotes is all that matters: strict reads it by the stanza
   query's index from the stanza query's match, lazy by the merged query's index from the merged
   query's match (oracle assumption A3 says these node lists coincide) *)
Section Modes.
  Variables (t : tree) (fl : file) (glob : globals) (call : ident -> graph -> list value -> res (value * graph)).

  Lemma capture_modes_agree fuel fuel' (le : lenv) (ll : llenv) name q fidx sidx l s p sl pl :
    nodes_for_capture (le_match le) sidx = nodes_for_capture (ll_match ll) fidx ->
    match eval t fl glob call (S fuel) le (ECapture name q fidx sidx l) s p,
          leval t fl glob call (S fuel') ll (ECapture name q fidx sidx l) sl pl with
    | Ok (v, _, _), Ok (lv, _, _) => lv = LValue v
    | Panic x, Panic y => x = y
    | Err _, _ | _, Err _ | OutOfFuel, _ | _, OutOfFuel => False
    | _, _ => False
    end.
  Proof.
    intros H. cbn [eval leval]. rewrite H. unfold lift, bind, ret.
    destruct (from_nodes (nodes_for_capture (ll_match ll) fidx) q) as [v|e|x|] eqn:E; try reflexivity.
    - destruct q, (nodes_for_capture (ll_match ll) fidx); cbn in E; discriminate.
    - destruct q, (nodes_for_capture (ll_match ll) fidx); cbn in E; discriminate.
  Qed.
End Modes.

(* a capture's value depends only on the current match and the capture's own index: other stanzas'
   captures, quantifiers and matches cannot influence it *)
Lemma capture_value_local t fl glob call fuel (le le' : lenv) name q fidx sidx l s p :
  nodes_for_capture (le_match le) sidx = nodes_for_capture (le_match le') sidx ->
  eval t fl glob call (S fuel) le (ECapture name q fidx sidx l) s p =
  eval t fl glob call (S fuel) le' (ECapture name q fidx sidx l) s p.
Proof. intros H. cbn [eval]. rewrite H. reflexivity. Qed.

(* every match runs its stanza's block exactly once, stanzas in file order (strict) *)
Fixpoint blocks {A} (sts : list stanza) (ms : list (list A)) : list (stanza * A) :=
  match sts, ms with
  | st :: sts', m :: ms' => map (fun x => (st, x)) m ++ blocks sts' ms'
  | _, _ => []
  end.
Lemma iterM_app {S A} (f : A -> M S unit) l1 l2 : forall s p,
  iterM f (l1 ++ l2) s p = bind (iterM f l1) (fun _ => iterM f l2) s p.
Proof.
  induction l1 as [|x l1 IH]; intros s p; cbn [iterM app].
  - reflexivity.
  - unfold bind. destruct (f x s p) as [[[u s1] p1]| | |]; try reflexivity. rewrite IH. unfold bind. reflexivity.
Qed.
Lemma iterM_map {S A B} (f : B -> M S unit) (g : A -> B) l : forall s p, iterM f (map g l) s p = iterM (fun x => f (g x)) l s p.
Proof. induction l as [|x l IH]; intros s p; cbn [iterM map]; [reflexivity|]. unfold bind. destruct (f (g x) s p) as [[[u s1] p1]| | |]; try reflexivity. apply IH. Qed.

Lemma strict_blocks_once {rx : Type} t fl cfg glob (regexes : list rx) find call fuel sts ms s p :
  exec_file t fl cfg glob regexes find call fuel sts ms s p =
  iterM (fun b : stanza * qmatch => exec_stanza t fl cfg glob regexes find call fuel (fst b) (snd b)) (blocks sts ms) s p.
Proof.
  revert ms s p. induction sts as [|st sts IH]; intros [|m ms] s p; cbn [exec_file blocks]; try reflexivity.
  rewrite iterM_app. unfold bind. rewrite iterM_map. cbn [fst snd].
  destruct (iterM (exec_stanza t fl cfg glob regexes find call fuel st) m s p) as [[[u s1] p1]| | |]; try reflexivity. apply IH.
Qed.

(* the block list spelled out: per stanza in file order, per match of that stanza in match order, exactly one block;
   matches supplied for stanzas that do not exist (and stanzas without a match list) contribute nothing *)
Lemma blocks_flat_map {A} : forall sts (ms : list (list A)),
  blocks sts ms = flat_map (fun sm : stanza * list A => map (fun x => (fst sm, x)) (snd sm)) (combine sts ms).
Proof.
  induction sts as [|st sts IH]; intros [|m ms]; cbn [blocks combine flat_map fst snd]; try reflexivity.
  rewrite IH. reflexivity.
Qed.

Lemma blocks_length {A} : forall sts (ms : list (list A)),
  length (blocks sts ms) = fold_right (fun sm acc => (length (snd sm) + acc)%nat) 0%nat (combine sts ms).
Proof.
  induction sts as [|st sts IH]; intros [|m ms]; cbn [blocks combine fold_right fst snd length]; try reflexivity.
  rewrite app_length, map_length, IH. reflexivity.
Qed.

(* the k-th match of the i-th stanza is the block at position (number of matches of earlier stanzas) + k *)
Lemma blocks_nth {A} : forall sts (ms : list (list A)) i k st m x,
  nth_error sts i = Some st -> nth_error ms i = Some m -> nth_error m k = Some x ->
  nth_error (blocks sts ms) (length (blocks (firstn i sts) (firstn i ms)) + k) = Some (st, x).
Proof.
  induction sts as [|st0 sts IH]; intros ms i k st m x Hs Hm Hx.
  - destruct i; discriminate.
  - destruct ms as [|m0 ms]; [destruct i; discriminate|].
    destruct i as [|i]; cbn [nth_error firstn blocks length] in *.
    + injection Hs as <-. injection Hm as <-. cbn [Nat.add]. rewrite nth_error_app1 by (rewrite map_length; apply nth_error_Some; congruence).
      rewrite nth_error_map, Hx. reflexivity.
    + rewrite app_length, map_length, <- Nat.add_assoc. rewrite nth_error_app2 by (rewrite map_length; apply Nat.le_add_r).
      rewrite map_length, Nat.add_comm, Nat.add_sub. eapply IH; eassumption.
Qed.
