(* Proofs/BlockPermStd.v — C08: the hypothesis `call_ok` on function calls (graph-pure, commutes with
   order-preserving renamings of graph-node ids, invents no graph-node id) holds for every function of the
   standard library except `node` (it adds a graph node), `format` and `join` (they render a graph-node
   reference as text that shows its number). *)
From TSG Require Import Model.Lazy Model.Stdlib Proofs.BaseFacts Proofs.BlockPermRen.

Definition omapv (r : N -> N) (x : res value) : res value :=
  match x with Ok v => Ok (vren r v) | Err e => Err e | Panic p => Panic p | OutOfFuel => OutOfFuel end.

Section Std.
  Variables (rxo : regex_oracle) (t : tree).
  Variable D : N -> Prop.
  Variable r : N -> N.
  Hypothesis Hmono : forall i j, D i -> D j -> i < j -> r i < r j.
  Notation vr := (vren r).

  Lemma cmpD : cmp_pres D r. Proof. apply smono_cmp_pres, Hmono. Qed.

  Lemma as_bool_vr v : as_bool (vr v) = as_bool v. Proof. destruct v; reflexivity. Qed.
  Lemma as_int_vr v : as_int (vr v) = as_int v. Proof. destruct v; reflexivity. Qed.
  Lemma as_str_vr' v : as_str (vr v) = as_str v. Proof. destruct v; reflexivity. Qed.
  Lemma as_syn_vr v : as_syn (vr v) = as_syn v. Proof. destruct v; reflexivity. Qed.
  Lemma finish_vr ps : finish (map vr ps) = finish ps. Proof. destruct ps; reflexivity. Qed.

  Lemma eq_values_vr a b : vall D a -> vall D b -> eq_values (vr a) (vr b) = eq_values a b.
  Proof.
    intros Ha Hb. destruct a, b; try reflexivity.
    - change (Ok (value_eqb (vr (VList l)) (vr (VList l0))) = Ok (value_eqb (VList l) (VList l0)) :> res bool). rewrite (value_eqb_vren D r _ _ cmpD Ha Hb). reflexivity.
    - change (Ok (value_eqb (vr (VSet l)) (vr (VSet l0))) = Ok (value_eqb (VSet l) (VSet l0)) :> res bool). rewrite (value_eqb_vren D r _ _ cmpD Ha Hb). reflexivity.
    - cbn [vren eq_values vall] in *. f_equal. destruct (N.eqb_spec n n0) as [->|Hne]; [apply N.eqb_refl|]. apply N.eqb_neq. intros E.
      pose proof (cmpD n n0 Ha Hb) as C. rewrite E, N.compare_refl in C. symmetry in C. apply N.compare_eq_iff in C. contradiction.
  Qed.

  Lemma and_loop_vr ps : forall acc, and_loop (map vr ps) acc = and_loop ps acc.
  Proof. induction ps as [|v ps IH]; intros acc; cbn [map and_loop]; [reflexivity|]. rewrite as_bool_vr. destruct (as_bool v); cbn [obind]; auto. Qed.
  Lemma or_loop_vr ps : forall acc, or_loop (map vr ps) acc = or_loop ps acc.
  Proof. induction ps as [|v ps IH]; intros acc; cbn [map or_loop]; [reflexivity|]. rewrite as_bool_vr. destruct (as_bool v); cbn [obind]; auto. Qed.
  Lemma plus_loop_vr ps : forall acc, plus_loop (map vr ps) acc = plus_loop ps acc.
  Proof. induction ps as [|v ps IH]; intros acc; cbn [map plus_loop]; [reflexivity|]. rewrite as_int_vr. destruct (as_int v); cbn [obind]; auto. destruct (acc + a <=? u32_max); auto. Qed.
  Lemma as_list_vr' v : as_list (vr v) = match as_list v with Ok l => Ok (map vr l) | Err e => Err e | Panic x => Panic x | OutOfFuel => OutOfFuel end.
  Proof. destruct v; reflexivity. Qed.
  Lemma concat_loop_vr ps : forall acc, Forall (vall D) ps -> Forall (vall D) acc ->
    concat_loop (map vr ps) (map vr acc) = match concat_loop ps acc with Ok l => Ok (map vr l) | Err e => Err e | Panic x => Panic x | OutOfFuel => OutOfFuel end /\
    forall l, concat_loop ps acc = Ok l -> Forall (vall D) l.
  Proof.
    induction ps as [|v ps IH]; intros acc Hps Hacc; cbn [map concat_loop].
    - split; [reflexivity|]. intros l [= <-]. exact Hacc.
    - inversion Hps as [|? ? Hv Hrest]; subst. rewrite as_list_vr'. destruct v; cbn [as_list obind]; try (split; [reflexivity|discriminate]).
      rewrite <- map_app. rewrite vall_list in Hv. apply IH; [exact Hrest|apply Forall_app; split; assumption].
  Qed.

  Lemma with_syn_vr ps body : (forall n x v, body n x = Ok v -> vall noid v) ->
    with_syntax_node t (map vr ps) body = with_syntax_node t ps body /\ forall v, with_syntax_node t ps body = Ok v -> vall noid v.
  Proof.
    intros Hb. unfold with_syntax_node. destruct ps as [|v ps]; cbn [map param obind]; [split; [reflexivity|discriminate]|].
    rewrite as_syn_vr. destruct (as_syn v) as [n|e|x|]; cbn [obind]; try (split; [reflexivity|discriminate]).
    destruct (node_at t n) as [x|]; [|split; [reflexivity|discriminate]]. rewrite finish_vr. destruct (finish ps); cbn [obind]; try (split; [reflexivity|discriminate]).
    split; [reflexivity|]. intros w. apply Hb.
  Qed.

  Definition fn_ok (f : fn) : Prop := match f with FNode | FFormat | FJoin => False | _ => True end.

  Lemma omapv_noid x : (forall v, x = Ok v -> vall noid v) -> omapv r x = x.
  Proof. intros H. destruct x as [v|e|p|]; cbn [omapv]; try reflexivity. rewrite (vren_noid r v (H v eq_refl)). reflexivity. Qed.
  Lemma noid_D v : vall noid v -> vall D v. Proof. apply vall_impl. intros i []. Qed.

  Lemma std_pure_vr f g g' args : fn_ok f -> Forall (vall D) args ->
    stdlib_pure rxo t f g' (map vr args) = omapv r (stdlib_pure rxo t f g args) /\ forall v, stdlib_pure rxo t f g args = Ok v -> vall D v.
  Proof.
    intros Hf Hargs.
    assert (Hsyn : forall body, (forall n x v, body n x = Ok v -> vall noid v) ->
              with_syntax_node t (map vr args) body = omapv r (with_syntax_node t args body) /\ forall v, with_syntax_node t args body = Ok v -> vall D v).
    { intros body Hb. destruct (with_syn_vr args body Hb) as [E Hn]. split; [rewrite E; symmetry; apply omapv_noid, Hn|intros v Hv; apply noid_D, Hn, Hv]. }
    destruct f; cbn [fn_ok] in Hf; try contradiction; cbn [stdlib_pure].
    - (* eq *) destruct args as [|a [|b [|c rest]]]; cbn [map param finish obind]; try (split; [reflexivity|discriminate]).
      inversion Hargs as [|? ? Ha H2]; subst. inversion H2 as [|? ? Hb _]; subst. rewrite (eq_values_vr a b Ha Hb).
      destruct (eq_values a b); cbn [obind omapv vren]; split; try reflexivity; try discriminate. intros v [= <-]. exact I.
    - (* is-null *) destruct args as [|a [|b rest]]; cbn [map param finish obind]; try (split; [reflexivity|discriminate]).
      split; [destruct a; reflexivity|intros v [= <-]; exact I].
    - apply Hsyn. intros n x v. unfold named_child_index_body. destruct (tn_parent x); [|discriminate]. destruct (node_at t n0); [|discriminate].
      destruct (index_of n (named_children t t0) 0); [|discriminate]. intros [= <-]. exact I.
    - apply Hsyn. intros n x v. unfold source_text_body. destruct (tn_span x). destruct ((n0 <=? n1) && (n1 <=? N.of_nat (length (t_src t)))); [|discriminate]. intros [= <-]. exact I.
    - apply Hsyn. intros n x v [= <-]. exact I.
    - apply Hsyn. intros n x v [= <-]. exact I.
    - apply Hsyn. intros n x v [= <-]. exact I.
    - apply Hsyn. intros n x v [= <-]. exact I.
    - apply Hsyn. intros n x v [= <-]. exact I.
    - apply Hsyn. intros n x v [= <-]. exact I.
    - (* not *) destruct args as [|a rest]; cbn [map param obind]; [split; [reflexivity|discriminate]|]. rewrite as_bool_vr, finish_vr.
      destruct (as_bool a); cbn [obind]; try (split; [reflexivity|discriminate]). destruct (finish rest); cbn [obind omapv vren]; split; try reflexivity; try discriminate. intros v [= <-]. exact I.
    - rewrite and_loop_vr. destruct (and_loop args true); cbn [obind omapv vren]; split; try reflexivity; try discriminate. intros v [= <-]. exact I.
    - rewrite or_loop_vr. destruct (or_loop args false); cbn [obind omapv vren]; split; try reflexivity; try discriminate. intros v [= <-]. exact I.
    - rewrite plus_loop_vr. destruct (plus_loop args 0); cbn [obind omapv vren]; split; try reflexivity; try discriminate. intros v [= <-]. exact I.
    - (* replace *) destruct args as [|a rest]; cbn [map param obind]; [split; [reflexivity|discriminate]|]. rewrite as_str_vr'.
      destruct (as_str a) as [text|e|x|]; cbn [obind]; try (split; [reflexivity|discriminate]).
      destruct rest as [|b rest]; cbn [map param obind]; [split; [reflexivity|discriminate]|]. rewrite as_str_vr'.
      destruct (as_str b) as [pat|e|x|]; cbn [obind]; try (split; [reflexivity|discriminate]).
      destruct (rxo text pat []); [|split; [reflexivity|discriminate]].
      destruct rest as [|c rest]; cbn [map param obind]; [split; [reflexivity|discriminate]|]. rewrite as_str_vr'.
      destruct (as_str c) as [rep|e|x|]; cbn [obind]; try (split; [reflexivity|discriminate]). rewrite finish_vr.
      destruct (finish rest); cbn [obind]; try (split; [reflexivity|discriminate]). destruct (rxo text pat rep); cbn [omapv vren]; split; try reflexivity; try discriminate. intros v [= <-]. exact I.
    - (* concat *) destruct (concat_loop_vr args [] Hargs (Forall_nil _)) as [E Hv]. cbn [map] in E. rewrite E.
      destruct (concat_loop args []) as [l|e|x|]; cbn [obind omapv vren]; split; try reflexivity; try discriminate. intros v [= <-]. rewrite vall_list. apply Hv. reflexivity.
    - (* is-empty *) destruct args as [|a rest]; cbn [map param obind]; [split; [reflexivity|discriminate]|]. rewrite as_list_vr', finish_vr.
      destruct (as_list a) as [l|e|x|]; cbn [obind]; try (split; [reflexivity|discriminate]). destruct (finish rest); cbn [obind omapv vren]; try (split; [reflexivity|discriminate]).
      split; [destruct l; reflexivity|intros v [= <-]; exact I].
    - (* length *) destruct args as [|a rest]; cbn [map param obind]; [split; [reflexivity|discriminate]|]. rewrite as_list_vr', finish_vr.
      destruct (as_list a) as [l|e|x|]; cbn [obind]; try (split; [reflexivity|discriminate]). destruct (finish rest); cbn [obind omapv vren]; try (split; [reflexivity|discriminate]).
      split; [rewrite map_length; reflexivity|intros v [= <-]; exact I].
  Qed.
End Std.

Theorem stdlib_call_ok rxo t f : (forall fn, fn_of_name f = Some fn -> fn_ok fn) -> call_ok (stdlib_call rxo t) f.
Proof.
  intros Hf D r g g' args Hargs Hmono. unfold stdlib_call. destruct (fn_of_name f) as [fn|] eqn:Ef; [|reflexivity].
  specialize (Hf fn eq_refl). unfold stdlib_fn. destruct (std_pure_vr rxo t D r Hmono fn g g' args Hf Hargs) as [E Hv]. rewrite E.
  destruct (stdlib_pure rxo t fn g args) as [v|e|x|]; cbn [obind omapv]; try reflexivity.
  split; [destruct fn; try reflexivity; contradiction|]. split; [apply Hv; reflexivity|]. destruct fn; try reflexivity; contradiction.
Qed.
