(* Proofs/SLF2Jok.v — C02, failure direction with scoped variables, part 2: every successful computation of the lazy
   interpreter preserves the invariant `J w dt dc` of Proofs/SLF2Store.v (`jok2`).  Evaluation of ANY lazy value, thunk or
   cell: by the partial-correctness theorem `evJ`.  Execution phase: the induction of Proofs/SLFailStore.v, with the cells
   treated by hand (`scoped_store_add` appends a pair: for an inherited name the pair must have a literal node of `D name`
   as its scope, which is what the static condition `sdef` on the executed statement provides). *)
From TSG Require Import Model.Lazy Proofs.BaseFacts Proofs.Containers Proofs.MonadFacts Proofs.StrictMeta
  Proofs.SLGraph Proofs.SLForce Proofs.SLExpr Proofs.Extends Proofs.Scoped Proofs.SL2Force Proofs.SLFailGraph Proofs.SLFailStore Proofs.SLF2Store.

Lemma from_nodes_syn ns q k : from_nodes ns q = Ok (VSyn k) -> In k ns.
Proof. destruct q, ns; cbn; try discriminate; intros H; inversion H; left; reflexivity. Qed.
Lemma All_imp {X} (P Q : X -> Prop) l : (forall x, P x -> Q x) -> All P l -> All Q l.
Proof. intros H. induction l as [|x l IH]; cbn [All]; [auto|]. intros [Hx Hl]. split; [apply H, Hx|apply IH, Hl]. Qed.
Lemma cell_set_eq name c ls p : cell_set name c ls p = Ok (tt, set_scoped_l (alist_set name c (l_scoped ls)) ls, p).
Proof. reflexivity. Qed.

Section Jok2.
  Context {rx : Type}.
  Variable call : ident -> graph -> list value -> res (value * graph).
  Variables (t : tree) (fl : file).
  Variable D : ident -> N -> Prop.
  Hypothesis Hanti : forall name n a, inherited fl name = true -> D name n -> D name a -> In a (anc t n) -> False.
  Variables (cfg : config) (glob : globals) (regexes : list rx) (find : rx -> str -> option (list (option (N * N)))).
  Variables (w : world) (dt : option (nat * lvalue)) (dc : option (ident * lvalue)).
  Hypothesis Hws : wstatic t fl w.
  Notation J' := (J call t fl D w dt dc).
  Notation eval_lv' := (eval_lv t fl call).
  Notation force_thunk' := (force_thunk t fl call).
  Notation force_scoped' := (force_scoped t fl call).

  Definition jok2 {A} (m : M lstate A) : Prop := forall ls p a ls' p', J' ls -> m ls p = Ok (a, ls', p') -> J' ls'.

  Lemma jk_ret A (a : A) : jok2 (ret a).
  Proof. intros s p a' s' p' HJ H. apply ret_ok in H as (_ & -> & _). exact HJ. Qed.
  Lemma jk_bind A B (m : M lstate A) (f : A -> M lstate B) : jok2 m -> (forall a, jok2 (f a)) -> jok2 (bind m f).
  Proof. intros Hm Hf s p b s' p' HJ H. apply bind_ok in H as (a & s1 & p1 & E & H). eapply Hf; [|exact H]. eapply Hm; eauto. Qed.
  Lemma jk_noresult A (m : M lstate A) : (forall s p a s' p', m s p <> Ok (a, s', p')) -> jok2 m.
  Proof. intros Hm s p a s' p' _ H. exfalso. eapply Hm; eauto. Qed.
  Lemma jk_fail A e : jok2 (@fail lstate A e). Proof. apply jk_noresult. discriminate. Qed.
  Lemma jk_fail_in A c e : jok2 (@fail_in A c e). Proof. apply jk_noresult. discriminate. Qed.
  Lemma jk_panic A x : jok2 (@panic lstate A x). Proof. apply jk_noresult. discriminate. Qed.
  Lemma jk_oof A : jok2 (@out_of_fuel lstate A). Proof. apply jk_noresult. discriminate. Qed.
  Lemma jk_ctx A c (m : M lstate A) : jok2 m -> jok2 (ctx_wrap c m).
  Proof. intros Hm s p a s' p' HJ H. apply ctx_wrap_ok in H. eapply Hm; eauto. Qed.
  Lemma jk_same A (m : M lstate A) : (forall s p a s' p', m s p = Ok (a, s', p') -> l_store s' = l_store s /\ l_scoped s' = l_scoped s) -> jok2 m.
  Proof. intros Hm s p a s' p' HJ H. destruct (Hm _ _ _ _ _ H) as [E1 E2]. eapply J_same; eauto. Qed.
  Ltac same_upd := apply jk_same; intros s p a s' p' H; unfold upd in H; apply modify_ok in H as (-> & _); auto.
  Lemma jk_get : jok2 (@get_state lstate). Proof. apply jk_same. intros s p a s' p' H. apply get_ok in H as (_ & -> & _). auto. Qed.
  Lemma jk_set_llocals l : jok2 (set_llocals l). Proof. unfold set_llocals. same_upd. Qed.
  Lemma jk_set_lparams l : jok2 (set_lparams l). Proof. unfold set_lparams. same_upd. Qed.
  Lemma jk_set_lprev l : jok2 (set_lprev l). Proof. unfold set_lprev. same_upd. Qed.
  Lemma jk_set_lgraph g : jok2 (set_lgraph g). Proof. unfold set_lgraph. same_upd. Qed.
  Lemma jk_push_lstmt st : jok2 (push_lstmt st).
  Proof. apply jk_same. intros s p a s' p' H. unfold push_lstmt, upd in H. apply modify_ok in H as (-> & _). destruct st; auto. Qed.
  Lemma jk_lpoll l : jok2 (lpoll l).
  Proof. apply jk_same. intros s p a s' p' H. apply poll_ok in H as (-> & _). auto. Qed.
  Lemma jk_lift A (r : res A) : jok2 (lift r).
  Proof. apply jk_same. intros s p a s' p' H. apply lift_ok in H as (_ & -> & _). auto. Qed.

  Ltac jk_dm := repeat first [ apply jk_ret | apply jk_get | apply jk_set_lgraph | apply jk_panic | apply jk_oof
                             | apply jk_fail | apply jk_fail_in
                             | apply jk_bind; [|intros ?]
                             | match goal with |- jok2 (match ?x with _ => _ end) => destruct x end
                             | match goal with |- jok2 (let '(_, _) := ?x in _) => destruct x end ].
  Lemma jk_ladd_node : jok2 ladd_node. Proof. unfold ladd_node. jk_dm. Qed.
  Lemma jk_ladd_node_attr n k v : jok2 (ladd_node_attr n k v). Proof. unfold ladd_node_attr. jk_dm. Qed.
  Lemma jk_lcall f args : jok2 (lcall_function call f args). Proof. unfold lcall_function. jk_dm. Qed.
  Lemma jk_lattr_node_add n k v prev dbg : jok2 (lattr_node_add n k v prev dbg). Proof. unfold lattr_node_add. jk_dm. Qed.
  Lemma jk_ledge_add a b ea : jok2 (ledge_add a b ea). Proof. unfold ledge_add. jk_dm. Qed.
  Lemma jk_lattr_edge_add a b k v prev dbg : jok2 (lattr_edge_add a b k v prev dbg). Proof. unfold lattr_edge_add. jk_dm. Qed.

  Lemma jk_store_add lv dbg : jok2 (store_add lv dbg).
  Proof.
    intros s p a s' p' ((Hs & Hc) & Hdt & Hdc) H. rewrite store_add_eq in H. inversion H; subst. cbn [set_store l_store l_scoped].
    split; [split; [apply storeK_app, Hs|exact Hc]|]. split; [apply dtl_app, Hdt|exact Hdc].
  Qed.

  Lemma jk_mapM A B (f : A -> M lstate B) l : (forall x, jok2 (f x)) -> jok2 (mapM f l).
  Proof. intros H. induction l as [|x l IH]; cbn [mapM]; [apply jk_ret|]. apply jk_bind; [apply H|]. intros y. apply jk_bind; [exact IH|]. intros ys. apply jk_ret. Qed.
  Lemma jk_iterM A (f : A -> M lstate unit) l : (forall x, jok2 (f x)) -> jok2 (iterM f l).
  Proof. intros H. induction l as [|x l IH]; cbn [iterM]; [apply jk_ret|]. apply jk_bind; [apply H|]. intros _. exact IH. Qed.
  Lemma jk_iterM_All A (P : A -> Prop) (f : A -> M lstate unit) l : (forall x, P x -> jok2 (f x)) -> All P l -> jok2 (iterM f l).
  Proof. intros H. induction l as [|x l IH]; intros HP; cbn [iterM]; [apply jk_ret|]. destruct HP as [Px HP]. apply jk_bind; [apply H, Px|]. intros _. apply IH, HP. Qed.

  Ltac phi_prim :=
    first [ apply jk_ret | apply jk_get | apply jk_set_llocals
          | apply jk_push_lstmt | apply jk_set_lparams | apply jk_set_lprev
          | apply jk_lpoll | apply jk_ladd_node | apply jk_ladd_node_attr | apply jk_lcall
          | apply jk_lattr_node_add | apply jk_ledge_add | apply jk_lattr_edge_add
          | apply jk_panic | apply jk_oof | apply jk_fail | apply jk_fail_in | apply jk_lift ].
  Ltac phi_step :=
    first [ phi_prim
          | apply jk_bind; [|intros ?]
          | apply jk_ctx
          | apply jk_mapM; intros ?
          | apply jk_iterM; intros ?
          | match goal with |- jok2 (match ?x with _ => _ end) => destruct x end
          | match goal with |- jok2 (if ?x then _ else _) => destruct x end ].
  Ltac phi := repeat phi_step.

  Lemma jk_lpoll_n n l : jok2 (lpoll_n n l).
  Proof. induction n as [|n IH]; cbn [lpoll_n]; [apply jk_ret|]. apply jk_bind; [apply jk_lpoll|intros _; exact IH]. Qed.
  Lemma jk_lopt_node_attr n name v : jok2 (lopt_node_attr n name v). Proof. unfold lopt_node_attr. phi. Qed.
  Lemma jk_lpush_frame : jok2 lpush_frame. Proof. unfold lpush_frame. phi. Qed.
  Lemma jk_lpop_frame : jok2 lpop_frame. Proof. unfold lpop_frame. phi. Qed.
  Lemma jk_lclear_frame : jok2 lclear_frame. Proof. unfold lclear_frame. phi. Qed.
  Lemma jk_cell_get name : jok2 (cell_get name). Proof. unfold cell_get. phi. Qed.
  Lemma jk_lpush_param v : jok2 (lpush_param v). Proof. unfold lpush_param. phi. Qed.
  Lemma jk_ldrain_params n : jok2 (ldrain_params n). Proof. unfold ldrain_params. phi. Qed.
  Lemma jk_prev_insert k dbg : jok2 (prev_insert k dbg). Proof. unfold prev_insert. phi. Qed.
  Lemma jk_ledge_exists a b : jok2 (ledge_exists a b). Proof. unfold ledge_exists. phi. Qed.
  Lemma jk_lfull_match_node le : jok2 (lfull_match_node le). Proof. unfold lfull_match_node. phi. Qed.
  Lemma jk_lunscoped_get name : jok2 (lunscoped_get glob name). Proof. unfold lunscoped_get. phi. Qed.
  Lemma jk_lunscoped_add le name v m : jok2 (lunscoped_add glob le name v m).
  Proof. unfold lunscoped_add. destruct (globals_get glob name); [apply jk_fail|]. apply jk_bind; [apply jk_store_add|intros var]. phi. Qed.
  Lemma jk_lunscoped_set le name v : jok2 (lunscoped_set glob le name v).
  Proof. unfold lunscoped_set. destruct (globals_get glob name); [apply jk_fail|]. apply jk_bind; [apply jk_store_add|intros var]. phi. Qed.

  (* LazyScopedVariables::add: the new pair goes to the end of the unforced cell *)
  Lemma jk_scoped_store_add sc name v dbg : pairD fl D name (sc, v, dbg) -> jok2 (scoped_store_add sc name v dbg).
  Proof.
    intros HD ls p a ls' p' HJ H. unfold scoped_store_add in H. apply bind_ok in H as (c & ls1 & p1 & E & H).
    unfold cell_get in E. apply bind_ok in E as (s0 & s1 & p0 & E0 & E). apply get_ok in E0 as (-> & -> & ->). apply ret_ok in E as (-> & -> & ->).
    pose proof (proj2 (proj1 HJ) name) as Hc. destruct (alist_get name (l_scoped ls)) as [[pairs| |m]|] eqn:Ec; try discriminate.
    - rewrite cell_set_eq in H. inversion H; subst. apply J_set_cell; [exact HJ| |].
      + destruct Hc as [(early & extra & -> & HF) HDs]. split; [exists early, (extra ++ [(sc, v, dbg)]); split; [rewrite app_assoc; reflexivity|exact HF]|].
        apply Forall_app. split; [exact HDs|constructor; [exact HD|constructor]].
      + intros slv Edc. destruct HJ as (_ & _ & Hd). rewrite Edc in Hd. destruct Hd as [_ Hd]. rewrite Ec in Hd. destruct Hd as (v0 & dbg0 & Hin).
        exists v0, dbg0. apply in_or_app. left. exact Hin.
    - rewrite cell_set_eq in H. inversion H; subst. apply J_set_cell; [exact HJ| |].
      + cbn [cellK] in *. split; [exists [], [(sc, v, dbg)]; split; [reflexivity|rewrite Hc; constructor]|constructor; [exact HD|constructor]].
      + intros slv Edc. destruct HJ as (_ & _ & Hd). rewrite Edc in Hd. destruct Hd as [_ Hd]. rewrite Ec in Hd. contradiction.
  Qed.

  (* ---- evaluation of arbitrary lazy values: by evJ ---- *)
  Lemma jk_eval_lv F lv : jok2 (eval_lv' F lv).
  Proof. intros ls p a ls' p' HJ H. destruct (evJ call t fl D Hanti w dt dc Hws F) as (He & _ & _). pose proof (He lv ls p HJ) as N. rewrite H in N. apply N. Qed.
  Lemma jk_force_thunk F loc : jok2 (force_thunk' F loc).
  Proof. intros ls p a ls' p' HJ H. destruct (evJ call t fl D Hanti w dt dc Hws F) as (_ & Ht & _). pose proof (Ht loc ls p HJ) as N. rewrite H in N. apply N. Qed.
  Lemma jk_sweep_step F name : jok2 (sweep_step call t fl F name).
  Proof. intros ls p a ls' p' HJ H. pose proof (n_sweep_step call t fl D Hanti w dt dc Hws F name ls p HJ) as N. rewrite H in N. apply N. Qed.

  Lemma jk_eval_as_gnode fuel lv : jok2 (eval_as_gnode t fl call fuel lv).
  Proof. unfold eval_as_gnode. apply jk_bind; [apply jk_eval_lv|intros v; apply jk_lift]. Qed.

  Lemma jk_eval_lstmt fuel st : jok2 (eval_lstmt t fl call fuel st).
  Proof.
    unfold eval_lstmt. apply jk_bind; [apply jk_lpoll|intros _]. destruct st.
    - apply jk_ctx. apply jk_bind; [apply jk_ctx; apply jk_eval_as_gnode|intros n]. apply jk_iterM. intros a.
      apply jk_bind; [apply jk_eval_lv|intros v]. apply jk_bind; [apply jk_prev_insert|intros prev]. apply jk_lattr_node_add.
    - apply jk_ctx. apply jk_bind; [apply jk_ctx; apply jk_eval_as_gnode|intros a]. apply jk_bind; [apply jk_ctx; apply jk_eval_as_gnode|intros b].
      apply jk_ledge_add.
    - apply jk_ctx. apply jk_bind; [apply jk_ctx; apply jk_eval_as_gnode|intros a]. apply jk_bind; [apply jk_ctx; apply jk_eval_as_gnode|intros b].
      apply jk_iterM. intros ak. apply jk_bind; [apply jk_eval_lv|intros v]. apply jk_bind; [apply jk_ledge_exists|intros ex].
      destruct ex; [|apply jk_fail]. apply jk_bind; [apply jk_prev_insert|intros prev]. apply jk_lattr_edge_add.
    - apply jk_ctx. apply jk_iterM. intros a. destruct a; [|apply jk_ret]. apply jk_bind; [apply jk_eval_lv|intros _; apply jk_ret].
  Qed.

  Ltac phi2_step :=
    first [ apply jk_lpoll_n | apply jk_lopt_node_attr | apply jk_lpush_frame | apply jk_lpop_frame | apply jk_lclear_frame
          | apply jk_store_add | apply jk_cell_get
          | apply jk_lpush_param | apply jk_ldrain_params | apply jk_prev_insert | apply jk_ledge_exists
          | apply jk_lfull_match_node | apply jk_lunscoped_get | apply jk_lunscoped_add | apply jk_lunscoped_set
          | phi_step ].
  Ltac phi2 := repeat phi2_step.

  (* ---- execution phase ---- *)
  Notation leval' := (leval t fl glob call).
  Lemma jk_leval : forall fuel le e, jok2 (leval' fuel le e).
  Proof.
    induction fuel as [|fuel IH]; intros le e; [apply jk_oof|].
    assert (Heager : forall e', jok2 (lv <- leval' fuel le e' ;; eval_lv' (S fuel + default_eval_fuel) lv)).
    { intros e'. apply jk_bind; [apply IH|intros lv; apply jk_eval_lv]. }
    assert (Hcomp : forall elem var value,
      jok2 (lv <- (lv <- leval' fuel le value ;; eval_lv' (S fuel + default_eval_fuel) lv) ;; vals <- lift (as_list lv) ;;
            lpush_frame ;;;
            out <- mapM (fun v => lclear_frame ;;; lunscoped_add glob le var (LValue v) false ;;; leval' fuel le elem) vals ;;
            lpop_frame ;;; ret out)).
    { intros elem var value. apply jk_bind; [apply Heager|intros lv]. apply jk_bind; [apply jk_lift|intros vals].
      apply jk_bind; [apply jk_lpush_frame|intros _]. apply jk_bind.
      - apply jk_mapM. intros v. apply jk_bind; [apply jk_lclear_frame|intros _]. apply jk_bind; [apply jk_lunscoped_add|intros _]. apply IH.
      - intros out. apply jk_bind; [apply jk_lpop_frame|intros _; apply jk_ret]. }
    destruct e; cbn [leval]; try (phi2; apply IH).
    - apply jk_bind; [apply Hcomp|intros out; apply jk_ret].
    - apply jk_bind; [apply Hcomp|intros out; apply jk_ret].
  Qed.
  Lemma jk_leager fuel le e : jok2 (leager t fl glob call fuel le e).
  Proof. unfold leager. apply jk_bind; [apply jk_leval|intros lv; apply jk_eval_lv]. Qed.

  Lemma jk_lvar_add fuel le v x mu : inh_scope_ok fl D (ll_match le) v -> jok2 (lvar_add t fl glob call fuel le v x mu).
  Proof.
    destruct v as [name l|sc name l]; cbn [lvar_add inh_scope_ok]; intros Hs; [apply jk_lunscoped_add|]. destruct mu; [apply jk_fail|].
    intros ls p a ls' p' HJ H. apply bind_ok in H as (sv & ls1 & p1 & H1 & H). apply bind_ok in H as (var & ls2 & p2 & H2 & H3).
    pose proof (jk_leval fuel le sc _ _ _ _ _ HJ H1) as HJ1. pose proof (jk_store_add x (ll_ctx le) _ _ _ _ _ HJ1 H2) as HJ2.
    refine (jk_scoped_store_add sv name var (ll_ctx le) _ _ _ _ _ _ HJ2 H3).
    intros Hi. destruct (Hs Hi) as (nm & q & fi & si & l0 & -> & HD). destruct fuel as [|fuel]; [discriminate|]. cbn [leval] in H1.
    apply bind_ok in H1 as (v & s' & p'' & Hl & Hr). apply lift_ok in Hl as (Hfn & -> & ->). apply ret_ok in Hr as (-> & _ & _).
    exists v. split; [reflexivity|]. intros k ->. apply HD. eapply from_nodes_syn; eauto.
  Qed.
  Lemma jk_lvar_set fuel le v x : jok2 (lvar_set glob fuel le v x).
  Proof. destruct v; cbn [lvar_set]; [apply jk_lunscoped_set|apply jk_fail]. Qed.
  Lemma jk_ltest_cond fuel le c : jok2 (ltest_cond t fl glob call fuel le c).
  Proof. destruct c; cbn [ltest_cond]; (apply jk_bind; [apply jk_leager|intros v]); try apply jk_ret. apply jk_lift. Qed.

  Notation lexec_attr' := (lexec_attr t fl glob call).
  Lemma jk_lexec_attr : forall fuel le a, jok2 (lexec_attr' fuel le a).
  Proof.
    induction fuel as [|fuel IH]; intros le a; [apply jk_oof|].
    destruct a as [name value]. cbn [lexec_attr]. apply jk_bind; [apply jk_lpoll|intros _].
    apply jk_bind; [apply jk_leval|intros v]. destruct (find_shorthand name (f_shorthands fl)) as [sh|]; [|apply jk_ret].
    apply jk_bind; [apply jk_get|intros s]. cbv zeta. apply jk_bind; [apply jk_set_llocals|intros _].
    apply jk_bind; [apply jk_lunscoped_add|intros _]. apply jk_bind; [apply jk_mapM; intros; apply IH|intros outs].
    apply jk_bind; [apply jk_set_llocals|intros _; apply jk_ret].
  Qed.

  Lemma jk_lscan_loop run_arm arms rs subject :
    (forall caps k r body l', nth_error arms k = Some (r, body, l') -> jok2 (run_arm caps body)) ->
    forall sfuel i, jok2 (lscan_loop find run_arm arms rs subject sfuel i).
  Proof.
    intros Hrun. induction sfuel as [|sfuel IHs]; intros i; cbn [lscan_loop]; [apply jk_oof|].
    destruct (N.ltb i (N.of_nat (length subject))); [|apply jk_ret]. cbv zeta.
    apply jk_bind; [apply jk_lpoll_n|intros _].
    destruct (arm_select find rs (skipn (N.to_nat i) subject)) as [|k|k caps]; [apply jk_ret|apply jk_fail|].
    destruct (nth_error arms (N.to_nat k)) as [[[r body] l']|] eqn:E; [|apply jk_panic].
    apply jk_bind; [apply jk_lpush_frame|intros _].
    apply jk_bind; [apply (Hrun _ _ _ _ _ E)|intros _].
    apply jk_bind; [apply jk_lpop_frame|intros _]. apply IHs.
  Qed.
  Lemma jk_lif_loop test run_body :
    (forall c, jok2 (test c)) ->
    forall arms, All (fun arm : list cond * list stmt * loc => jok2 (run_body (snd (fst arm)))) arms -> jok2 (lif_loop test run_body arms).
  Proof.
    intros Ht. induction arms as [|[[conds body] l'] arms IHa]; intros Hr; cbn [lif_loop]; [apply jk_ret|]. destruct Hr as [Hb Hr]. cbn [fst snd] in Hb.
    apply jk_bind; [apply jk_mapM; intros c; apply Ht|intros bs].
    destruct (forallb (fun b => b) bs); [|apply IHa, Hr].
    apply jk_bind; [apply jk_lpush_frame|intros _].
    apply jk_bind; [exact Hb|intros _]. apply jk_lpop_frame.
  Qed.

  Notation lexec_stmt' := (lexec_stmt t fl cfg glob regexes find call).
  Notation sdef' := (sdef fl D).
  Lemma jk_lexec_stmt : forall fuel le s, sdef' (ll_match le) s -> jok2 (lexec_stmt' fuel le s).
  Proof.
    induction fuel as [|fuel IH]; intros le s Hsd; [apply jk_oof|].
    assert (Hblock : forall le' body, ll_match le' = ll_match le -> All (sdef' (ll_match le)) body ->
               jok2 (iterM (fun st => lexec_stmt' fuel (ll_with_ctx le' (ctx_update (ll_ctx le') st)) st) body)).
    { intros le' body Em Hb. apply (jk_iterM_All _ (sdef' (ll_match le))); [|exact Hb]. intros st Hst. apply IH. cbn [ll_with_ctx ll_match]. rewrite Em. exact Hst. }
    assert (Harm : forall le' body, ll_match le' = ll_match le -> All (sdef' (ll_match le)) body ->
               jok2 (iterM (fun st => let c := ctx_update (ll_ctx le') st in
                                      ctx_wrap (CtxStmts [c]) (ctx_wrap CtxOther (lexec_stmt' fuel (ll_with_ctx le' c) st))) body)).
    { intros le' body Em Hb. apply (jk_iterM_All _ (sdef' (ll_match le))); [|exact Hb]. intros st Hst. cbv zeta. apply jk_ctx, jk_ctx. apply IH.
      cbn [ll_with_ctx ll_match]. rewrite Em. exact Hst. }
    destruct s; cbn [lexec_stmt]; cbn [sdef] in Hsd; (apply jk_bind; [apply jk_lpoll|intros _]).
    - apply jk_bind; [apply jk_leval|intros x; apply jk_lvar_add, Hsd].
    - apply jk_bind; [apply jk_leval|intros x]. destruct v; cbn [lvar_add]; [apply jk_lunscoped_add|apply jk_fail].
    - apply jk_bind; [apply jk_leval|intros x; apply jk_lvar_set].
    - phi2. all: apply jk_lvar_add, Hsd.
    - apply jk_bind; [apply jk_leval|intros nv]. apply jk_bind; [apply jk_mapM; intros; apply jk_lexec_attr|intros outs]. apply jk_push_lstmt.
    - apply jk_bind; [apply jk_leval|intros a]. apply jk_bind; [apply jk_leval|intros b]. cbv zeta. apply jk_push_lstmt.
    - apply jk_bind; [apply jk_leval|intros a]. apply jk_bind; [apply jk_leval|intros b].
      apply jk_bind; [apply jk_mapM; intros; apply jk_lexec_attr|intros outs]. apply jk_push_lstmt.
    - apply jk_bind; [apply jk_leager|intros sv]. apply jk_bind; [apply jk_lift|intros subject].
      destruct (arm_table regexes arms) as [rs|]; [|apply jk_panic].
      apply jk_lscan_loop. intros caps k r body l' E. apply (Harm (ll_with_caps le caps) body); [reflexivity|].
      apply (All_In _ _ _ Hsd (nth_error_In _ _ E)).
    - apply jk_bind; [|intros args; apply jk_push_lstmt]. apply jk_mapM. intros e. destruct e; try apply jk_ret.
      all: apply jk_bind; [apply jk_leval|intros lv; apply jk_ret].
    - apply jk_lif_loop; [intros c; apply jk_ltest_cond|]. eapply All_imp; [|exact Hsd]. intros [[conds body] l'] Hb. cbn [fst snd] in *. apply (Hblock le body eq_refl Hb).
    - apply jk_bind; [apply jk_leager|intros lv]. apply jk_bind; [apply jk_lift|intros vals].
      apply jk_bind; [apply jk_lpush_frame|intros _]. apply jk_bind; [|intros _; apply jk_lpop_frame].
      apply jk_iterM. intros v. apply jk_bind; [apply jk_lclear_frame|intros _].
      apply jk_bind; [apply jk_lunscoped_add|intros _]. apply (Hblock le body eq_refl Hsd).
  Qed.

  Lemma jk_lexec_stanza fuel st m : All (sdef' m) (st_stmts st) -> jok2 (lexec_stanza t fl cfg glob regexes find call fuel st m).
  Proof.
    intros Hsd. unfold lexec_stanza. apply jk_bind; [apply jk_lpoll|intros _]. apply jk_bind; [apply jk_lclear_frame|intros _].
    cbv zeta. destruct (nodes_for_capture m (st_full_file_idx st)); [apply jk_panic|]. apply (jk_iterM_All _ (sdef' m)); [|exact Hsd]. intros s Hs. apply jk_ctx. apply jk_lexec_stmt. exact Hs.
  Qed.
End Jok2.
