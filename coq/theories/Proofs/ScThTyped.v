(* Proofs/ScThTyped.v — C08 WITH scoped variables inside thunks, part 3: the shape of a state between blocks when thunks
   have kinds.  A block descriptor is an interval of graph ids, an interval of store locations and the kinds of these
   locations.  `styped3 bds s`: every thunk lies in exactly one block and is typed by its kind (`thk`: an L thunk is local
   to its block and scoped-free, an M thunk is unforced and `mvall2`); every deferred statement is typed by some block;
   cells as in Proofs/ScPermTyped.v.  Appending a block's delta keeps the state typed. *)
From Coq Require Import Permutation.
From TSG Require Import Model.Lazy Proofs.BaseFacts Proofs.Containers Proofs.MonadFacts Proofs.SLForce Proofs.SLExpr Proofs.BlockPermRen Proofs.BlockPermSim Proofs.BlockPermSwap
  Proofs.BlockPermGraph Proofs.ScPermSound Proofs.ScPermSim Proofs.ScPermSwap Proofs.ScPermTyped Proofs.ScPermSR Proofs.ScThSim Proofs.ScThSwap.

Record bdesc3 := { q_b : bdesc; q_ks : list bool }.
Definition qLA (d : bdesc3) : N -> Prop := LAk (b_klo (q_b d)) (q_ks d).
Definition qLL (d : bdesc3) : N -> Prop := LLk (b_klo (q_b d)) (q_ks d).

Section Typed3.
  Variable okfn : ident -> Prop.
  Variable g0 : graph.
  Notation n0 := (N.of_nat (length g0)).

  Definition qsty (d : bdesc3) : lstmt -> Prop := sty ea0 okfn n0 (b_glo (q_b d)) (b_klo (q_b d)) (b_ghi (q_b d)) (q_ks d).
  Definition qthk (d : bdesc3) (i : nat) (th : thunk) : Prop :=
    thk okfn n0 (b_glo (q_b d)) (b_klo (q_b d)) (b_ghi (q_b d)) (q_ks d) (i - N.to_nat (b_klo (q_b d))) th.
  Definition stmts_typed3 (K : lstmt -> Prop) (bds : list bdesc3) (l : list lstmt) : Prop :=
    Forall (fun st => K st /\ exists d, In d bds /\ qsty d st) l.

  Definition styped3 (bds : list bdesc3) (s : lstate) : Prop :=
    (forall d, In d bds -> n0 <= b_glo (q_b d) /\ b_glo (q_b d) <= b_ghi (q_b d) /\ b_ghi (q_b d) <= gn s /\ b_khi (q_b d) <= sn s /\ b_khi (q_b d) = b_klo (q_b d) + N.of_nat (length (q_ks d))) /\
    (forall i th, nth_error (l_store s) i = Some th ->
       (exists d, In d bds /\ qLA d (N.of_nat i)) /\ (forall d, In d bds -> qLA d (N.of_nat i) -> qthk d i th)) /\
    stmts_typed3 is_estmt bds (l_edges s) /\ stmts_typed3 is_astmt bds (l_attrs s) /\ stmts_typed3 is_pstmt bds (l_prints s) /\
    (allunf (l_scoped s) /\ forall name, Forall (pair_ok (sn s)) (cellps (l_scoped s) name)) /\
    (exists ns, l_graph s = g0 ++ ns /\ Forall nplain ns).

  Lemma styped3_init : styped3 [] (linit g0).
  Proof.
    unfold styped3, stmts_typed3, gn, sn. cbn [linit l_graph l_store l_edges l_attrs l_prints l_scoped]. split; [intros d []|].
    split; [intros i th H; destruct i; discriminate|]. split; [constructor|]. split; [constructor|]. split; [constructor|].
    split; [split; [intros name c H; discriminate|intros name; constructor]|]. exists []. rewrite app_nil_r. split; [reflexivity|constructor].
  Qed.

  Definition mkdesc3 (s s1 : lstate) (ks : list bool) : bdesc3 := {| q_b := mkdesc s s1; q_ks := ks |}.

  Lemma stmts_typed3_app K bds l es d : stmts_typed3 K bds l -> Forall (fun st => K st /\ qsty d st) es -> stmts_typed3 K (bds ++ [d]) (l ++ es).
  Proof.
    intros Hl He. apply Forall_app. split.
    - eapply Forall_impl; [|exact Hl]. intros st [HK (d0 & Hin & Hm)]. split; [exact HK|]. exists d0. split; [apply in_or_app; left; exact Hin|exact Hm].
    - eapply Forall_impl; [|exact He]. intros st [HK Hm]. split; [exact HK|]. exists d. split; [apply in_or_app; right; left; reflexivity|exact Hm].
  Qed.

  Theorem styped3_step bds s d s1 : styped3 bds s -> n0 <= gn s -> extends2 s d s1 -> delta_ok3 ea0 okfn n0 (gn s) (sn s) d ->
    exists ks, styped3 (bds ++ [mkdesc3 s s1 ks]) s1.
  Proof.
    intros (Hb & Ht & He & Ha & Hp & (Hu & Hc) & (ns & Hg & Hpl)) Hn0 X (ks & Od). exists ks. cbv zeta in Od.
    destruct (extends2_sizes _ _ _ X) as (Eg & Es & _ & Hu1). destruct X as (Xg & Xs & Xe & Xa & Xp & _ & Xc & _).
    destruct Od as (Olen & On & Oth & Oe & Oa & Op & Odf). rewrite <- Eg in Oth, Oe, Oa, Op.
    set (dn := mkdesc3 s s1 ks).
    assert (HLA : forall l, qLA dn l <-> sn s <= l /\ l < sn s1).
    { intros l. unfold qLA, dn, mkdesc3, mkdesc, LAk. cbn [q_b q_ks b_klo]. rewrite Es, Olen. reflexivity. }
    split; [|split; [|split; [|split; [|split; [|split]]]]].
    - intros d0 Hin. apply in_app_or in Hin as [Hin|[<-|[]]].
      + destruct (Hb d0 Hin) as (A & A' & B & C & D). split; [exact A|]. split; [exact A'|]. split; [lia|]. split; [lia|exact D].
      + unfold dn, mkdesc3, mkdesc. cbn [q_b q_ks b_glo b_ghi b_klo b_khi]. split; [exact Hn0|]. split; [lia|]. split; [lia|]. split; [lia|]. rewrite Es, Olen. reflexivity.
    - intros i th Ei. rewrite Xs in Ei. destruct (Nat.lt_ge_cases i (length (l_store s))) as [Hlt|Hge].
      + rewrite nth_error_app1 in Ei by exact Hlt. destruct (Ht i th Ei) as ((d0 & Hin & HL) & Hall). split; [exists d0; split; [apply in_or_app; left; exact Hin|exact HL]|].
        intros d1 Hin1 HL1. apply in_app_or in Hin1 as [Hin1|[<-|[]]]; [apply (Hall d1 Hin1 HL1)|]. exfalso. apply HLA in HL1. unfold sn in HL1. lia.
      + rewrite nth_error_app2 in Ei by exact Hge. assert (Hj : (i - length (l_store s) < length (e_thunks d))%nat) by (apply nth_error_Some; congruence).
        split; [exists dn; split; [apply in_or_app; right; left; reflexivity|apply HLA; unfold sn in *; lia]|].
        intros d1 Hin1 HL1. apply in_app_or in Hin1 as [Hin1|[<-|[]]].
        * exfalso. destruct (Hb d1 Hin1) as (_ & _ & _ & C & D). destruct HL1 as [L1 L2]. unfold sn in C. lia.
        * unfold qthk, dn, mkdesc3, mkdesc. cbn [q_b q_ks b_glo b_ghi b_klo]. replace (i - N.to_nat (sn s))%nat with (i - length (l_store s))%nat by (unfold sn; lia).
          apply (Oth _ _ Ei).
    - rewrite Xe. apply stmts_typed3_app; [exact He|exact Oe].
    - rewrite Xa. apply stmts_typed3_app; [exact Ha|exact Oa].
    - rewrite Xp. apply stmts_typed3_app; [exact Hp|exact Op].
    - split; [apply Hu1, Hu|]. intros name. rewrite Xc, (addl_cellps _ _ name Hu). apply Forall_app. split.
      + eapply Forall_impl; [|apply Hc]. intros pr [A (loc & B & C)]. split; [exact A|]. exists loc. split; [exact B|lia].
      + unfold pairs_of. apply Forall_forall. intros pr Hpr. apply in_map_iff in Hpr as (df & <- & Hdf). apply filter_In in Hdf as [Hdf _].
        rewrite Forall_forall in Odf. destruct (Odf df Hdf) as [A (loc & B & [C1 C2])]. split; [exact A|]. exists loc. split; [exact B|]. rewrite Es, Olen. exact C2.
    - exists (ns ++ e_nodes d). rewrite Xg, Hg, app_assoc. split; [reflexivity|]. apply Forall_app. split; [exact Hpl|exact On].
  Qed.

  (* everything in a typed state is fixed by renamings that are the identity below its sizes *)
  Lemma styped3_fix bds s rg rl : styped3 bds s -> (forall i, i < gn s -> rg i = i) -> (forall l, l < sn s -> rl l = l) ->
    (forall th, In th (l_store s) -> thren rg rl th = th) /\
    (forall st, In st (l_edges s) \/ In st (l_attrs s) \/ In st (l_prints s) -> lsren rg rl st = st) /\
    (forall name pr, In pr (cellps (l_scoped s) name) -> prren rg rl pr = pr).
  Proof.
    intros (Hb & Ht & He & Ha & Hp & (Hu & Hc) & _) Hrg Hrl.
    assert (HD : forall d, In d bds -> forall i, Dn n0 (b_glo (q_b d)) (b_ghi (q_b d)) i -> rg i = (fun x => x) i).
    { intros d Hd i Hi. destruct (Hb d Hd) as (B1 & B1' & B2 & _). apply Hrg. unfold BlockPermSim.Dn in Hi. lia. }
    assert (HL : forall d, In d bds -> forall l, qLA d l -> rl l = (fun x => x) l).
    { intros d Hd l [L1 L2]. destruct (Hb d Hd) as (_ & _ & _ & B3 & B4). apply Hrl. lia. }
    assert (Hst : forall K l st, stmts_typed3 K bds l -> In st l -> lsren rg rl st = st).
    { intros K l st H Hin. unfold stmts_typed3 in H. rewrite Forall_forall in H. destruct (H st Hin) as [_ (d & Hd & Hs)].
      rewrite (ms2all_ext ea0 okfn _ _ _ rg (fun i => i) rl (fun l => l) st (HD d Hd) (fun l0 Hl0 => HL d Hd l0 (LLk_LAk _ _ _ Hl0)) (HL d Hd) Hs). apply lsren_id. }
    split; [|split].
    - intros th Hin. apply In_nth_error in Hin as [i Hi]. destruct (Ht i th Hi) as ((d & Hd & HLd) & Hall).
      rewrite (thk_ext okfn n0 _ _ _ _ _ th rg (fun i => i) rl (fun l => l) (HD d Hd) (HL d Hd) (Hall d Hd HLd)). apply thren_id.
    - intros st [Hin|[Hin|Hin]]; [apply (Hst is_estmt _ st He Hin)|apply (Hst is_astmt _ st Ha Hin)|apply (Hst is_pstmt _ st Hp Hin)].
    - intros name pr Hin. specialize (Hc name). rewrite Forall_forall in Hc. destruct (Hc pr Hin) as [(v & Hv & Hn) (loc & Hl & Hlt)].
      destruct pr as [[sc val] dbg]. cbn [fst snd] in *. subst sc val. unfold prren. cbn [fst snd lvren]. rewrite (vren_noid _ v Hn), (Hrl loc Hlt). reflexivity.
  Qed.
End Typed3.
