(* Proofs/ErrorCtxValid.v — C20, lazy mode: every statement context of a lazy error is a VALID context of
   the run (stanza location, matched node and statement location of one executed (stanza, match) block),
   and no non-cancellation error escapes `lexec_file` without a statement context.

   The generic meta-theorem (Proofs/LazyMeta.v) cannot carry a state invariant, so this is a dedicated
   Hoare-style proof over the lazy interpreter:
     Inv X s : every statement context stored in the state (thunks, deferred statements, pending scoped
               definitions, prev_element_debug_info) satisfies V; a scoped cell may be in the Forcing state
               only if its name is in X (the cells being forced by enclosing evaluations);
     keeps top X m R : from Inv X, m keeps Inv X, its result satisfies R, and its errors are cancellation,
               wrapped in 1 or 2 V-contexts, or (only when top = false) not yet wrapped.  *)
From TSG Require Import Model.Strict Model.Lazy.
From TSG Require Import Proofs.BaseFacts Proofs.MonadFacts Proofs.StrictMeta Proofs.Captures Proofs.ErrorCtx.

(* ---------------------------------------------------------------- statements of a stanza, at any depth *)
(* all statements nested in s (s itself excluded) *)
Fixpoint stmt_subs (s : stmt) : list stmt :=
  match s with
  | SScan _ arms _ => flat_map (fun arm : N * list stmt * loc => flat_map (fun x => x :: stmt_subs x) (snd (fst arm))) arms
  | SIf arms _ => flat_map (fun arm : list cond * list stmt * loc => flat_map (fun x => x :: stmt_subs x) (snd (fst arm))) arms
  | SFor _ _ _ body _ => flat_map (fun x => x :: stmt_subs x) body
  | _ => []
  end.
(* the statements of a block and everything nested in them *)
Definition stmts_all (l : list stmt) : list stmt := flat_map (fun x => x :: stmt_subs x) l.
Definition stmt_in (st : stanza) (s : stmt) : Prop := In s (stmts_all (st_stmts st)).
Definition stmt_loc_in (st : stanza) (l : loc) : Prop := exists s, stmt_in st s /\ stmt_loc s = l.

Lemma stmts_all_in body x y : In x body -> In y (x :: stmt_subs x) -> In y (stmts_all body).
Proof. intros Hx Hy. unfold stmts_all. apply in_flat_map. exists x. split; assumption. Qed.
Lemma subs_scan value arms l r body l' x y : In (r, body, l') arms -> In x body -> In y (x :: stmt_subs x) -> In y (stmt_subs (SScan value arms l)).
Proof. intros Ha Hx Hy. cbn [stmt_subs]. apply in_flat_map. exists (r, body, l'). split; [exact Ha|]. cbn [fst snd]. eapply stmts_all_in; eauto. Qed.
Lemma subs_if arms l conds body l' x y : In (conds, body, l') arms -> In x body -> In y (x :: stmt_subs x) -> In y (stmt_subs (SIf arms l)).
Proof. intros Ha Hx Hy. cbn [stmt_subs]. apply in_flat_map. exists (conds, body, l'). split; [exact Ha|]. cbn [fst snd]. eapply stmts_all_in; eauto. Qed.
Lemma subs_for var vloc value body l x y : In x body -> In y (x :: stmt_subs x) -> In y (stmt_subs (SFor var vloc value body l)).
Proof. intros Hx Hy. cbn [stmt_subs]. eapply stmts_all_in; eauto. Qed.

(* ---------------------------------------------------------------- error shapes *)
Section ErrPred.
  Variable V : stmt_ctx -> Prop.
  Definition cancelled (e : exec_error) : Prop := exists l, e = ECancelled l.
  (* inside one statement context, or two for a conflict; every context satisfies V *)
  Definition wrapped (e : exec_error) : Prop :=
    exists cs e0, e = EInContext (CtxStmts cs) e0 /\ unwrapped e0 /\ (length cs = 1 \/ length cs = 2)%nat /\ Forall V cs.
  Definition err (top : bool) (e : exec_error) : Prop :=
    cancelled e \/ (top = false /\ unwrapped e) \/ wrapped e.

  Lemma err_cancel top l : err top (ECancelled l). Proof. left. exists l. reflexivity. Qed.
  Lemma err_wrapped top e : wrapped e -> err top e. Proof. intros H. right. right. exact H. Qed.
  Lemma err_base e : base_error e -> err false e. Proof. intros H. right. left. split; [reflexivity|]. apply U_base, H. Qed.
  Lemma err_weaken top e : err true e -> err top e.
  Proof. intros [H|[[H _]|H]]; [left; exact H|discriminate|right; right; exact H]. Qed.
  Lemma err_other top e : err top e -> err top (add_context CtxOther e).
  Proof.
    intros [[l ->]|[[-> Hu]|(cs & e0 & -> & H)]].
    - apply err_cancel.
    - right. left. split; [reflexivity|]. apply unwrapped_add_other, Hu.
    - apply err_wrapped. cbn [add_context]. exists cs, e0. split; [reflexivity|exact H].
  Qed.
  Lemma unwrapped_add_stmts cs e : unwrapped e -> add_context (CtxStmts cs) e = EInContext (CtxStmts cs) e.
  Proof. intros H. destruct H as [e Hb|e H]; [|reflexivity]. destruct e; cbn in *; try contradiction; reflexivity. Qed.
  Lemma err_stmt top top' c e : V c -> err top e -> err top' (add_context (CtxStmts [c]) e).
  Proof.
    intros Hc [[l ->]|[[_ Hu]|(cs & e0 & -> & H)]].
    - apply err_cancel.
    - apply err_wrapped. rewrite unwrapped_add_stmts by exact Hu. exists [c], e. split; [reflexivity|]. split; [exact Hu|].
      split; [left; reflexivity|]. constructor; [exact Hc|constructor].
    - apply err_wrapped. cbn [add_context]. exists cs, e0. split; [reflexivity|exact H].
  Qed.
End ErrPred.

(* ---------------------------------------------------------------- the invariant and the triples *)
Definition ls_dbg (st : lstmt) : stmt_ctx :=
  match st with LSAttrNode _ _ d | LSEdge _ _ _ d | LSAttrEdge _ _ _ d | LSPrint _ d => d end.

Section LazyValid.
  Context {rx : Type}.
  Variables (t : tree) (fl : file) (cfg : config) (glob : globals) (regexes : list rx)
            (find : rx -> str -> option (list (option (N * N))))
            (call : ident -> graph -> list value -> res (value * graph)).
  Hypothesis Hcall : call_errors_base call.
  Variable V : stmt_ctx -> Prop.

  Notation LM := (M lstate).

  Definition pairs_ok (ps : list (lvalue * lvalue * stmt_ctx)) : Prop := Forall (fun x => V (snd x)) ps.
  Definition cell_pairs_ok (c : scoped_values) : Prop := match c with SVUnforced ps => pairs_ok ps | _ => True end.
  Definition cell_ok (X : ident -> Prop) (name : ident) (c : scoped_values) : Prop :=
    match c with SVUnforced ps => pairs_ok ps | SVForcing => X name | SVForced _ => True end.
  Definition scoped_ok (X : ident -> Prop) (sc : list (ident * scoped_values)) : Prop :=
    forall name c, alist_get name sc = Some c -> cell_ok X name c.
  Definition store_ok (l : list thunk) : Prop := Forall (fun th => V (th_dbg th)) l.
  Definition stmts_ok (l : list lstmt) : Prop := Forall (fun st => V (ls_dbg st)) l.
  Definition prev_ok (l : list (elem_key * stmt_ctx)) : Prop := Forall (fun x => V (snd x)) l.
  Definition Inv (X : ident -> Prop) (s : lstate) : Prop :=
    store_ok (l_store s) /\ scoped_ok X (l_scoped s) /\ stmts_ok (l_edges s) /\ stmts_ok (l_attrs s) /\ stmts_ok (l_prints s) /\
    prev_ok (l_prev s).

  Definition hoare {A} (P : lstate -> Prop) (m : LM A) (Q : A -> lstate -> Prop) (E : exec_error -> Prop) : Prop :=
    forall s p, P s -> match m s p with Ok (a, s', _) => Q a s' | Err e => E e | _ => True end.
  Definition keeps {A} (top : bool) (X : ident -> Prop) (m : LM A) (R : A -> Prop) : Prop :=
    hoare (Inv X) m (fun a s => Inv X s /\ R a) (err V top).
  Definition TT {A} : A -> Prop := fun _ => True.

  Lemma h_bind A B P (m : LM A) Q (f : A -> LM B) R E : hoare P m Q E -> (forall a, hoare (Q a) (f a) R E) -> hoare P (bind m f) R E.
  Proof.
    intros Hm Hf s p HP. specialize (Hm s p HP). unfold bind. destruct (m s p) as [[[a s1] p1]|e|x|]; auto. apply Hf, Hm.
  Qed.
  Lemma h_pre A (P P' : lstate -> Prop) (m : LM A) Q E : (forall s, P' s -> P s) -> hoare P m Q E -> hoare P' m Q E.
  Proof. intros HP H s p HP'. apply H, HP, HP'. Qed.
  Lemma h_post A P (m : LM A) (Q Q' : A -> lstate -> Prop) E : (forall a s, Q a s -> Q' a s) -> hoare P m Q E -> hoare P m Q' E.
  Proof. intros HQ H s p HP. specialize (H s p HP). destruct (m s p) as [[[a s1] p1]|e|x|]; auto. Qed.

  Lemma k_ret top X A (a : A) (R : A -> Prop) : R a -> keeps top X (ret a) R.
  Proof. intros H s p HI. cbn. split; assumption. Qed.
  Lemma k_bind top X A B (m : LM A) (f : A -> LM B) R R' : keeps top X m R -> (forall a, R a -> keeps top X (f a) R') -> keeps top X (bind m f) R'.
  Proof.
    intros Hm Hf s p HI. specialize (Hm s p HI). unfold bind. destruct (m s p) as [[[a s1] p1]|e|x|]; auto.
    destruct Hm as [HI1 HR]. apply (Hf a HR s1 p1 HI1).
  Qed.
  Lemma k_bindT top X A B (m : LM A) (f : A -> LM B) R' : keeps top X m TT -> (forall a, keeps top X (f a) R') -> keeps top X (bind m f) R'.
  Proof. intros Hm Hf. eapply k_bind; [exact Hm|]. intros a _. apply Hf. Qed.
  Lemma k_conseq top X A (m : LM A) (R R' : A -> Prop) : (forall a, R a -> R' a) -> keeps top X m R -> keeps top X m R'.
  Proof. intros HR H. unfold keeps. eapply h_post; [|exact H]. intros a s [H1 H2]. split; [exact H1|apply HR, H2]. Qed.
  Lemma k_weaken top X A (m : LM A) R : keeps true X m R -> keeps top X m R.
  Proof. intros H s p HI. specialize (H s p HI). destruct (m s p) as [[[a s1] p1]|e|x|]; auto. apply err_weaken, H. Qed.
  Lemma k_fail X A e (R : A -> Prop) : base_error e -> keeps false X (fail e) R.
  Proof. intros H s p HI. cbn. apply err_base, H. Qed.
  Lemma k_panic top X A x (R : A -> Prop) : keeps top X (panic x) R. Proof. intros s p HI. exact I. Qed.
  Lemma k_oof top X A (R : A -> Prop) : keeps top X out_of_fuel R. Proof. intros s p HI. exact I. Qed.
  Lemma k_lift X A (r : res A) : base_res r -> keeps false X (lift r) TT.
  Proof. intros H s p HI. unfold lift. destruct r as [a|e|x|]; [split; [exact HI|exact I]|apply err_base, H|exact I|exact I]. Qed.
  Lemma k_get_bind top X A (f : lstate -> LM A) R : (forall s0, Inv X s0 -> keeps top X (f s0) R) -> keeps top X (s <- get_state ;; f s) R.
  Proof. intros H s p HI. unfold bind, get_state. apply (H s HI s p HI). Qed.
  Lemma k_poll top X l : keeps top X (lpoll l) TT.
  Proof.
    intros s p HI. unfold lpoll, poll. destruct (poll_step l p) as [q c]. destruct c; [apply err_cancel|]. split; [exact HI|exact I].
  Qed.
  Lemma k_ctx_other top X A (m : LM A) R : keeps top X m R -> keeps top X (ctx_wrap CtxOther m) R.
  Proof. intros H s p HI. specialize (H s p HI). unfold ctx_wrap. destruct (m s p) as [[[a s1] p1]|e|x|]; auto. apply err_other, H. Qed.
  (* the wrap in a statement context: whatever was not wrapped becomes wrapped *)
  Lemma k_ctx_stmt top top' X A c (m : LM A) R : V c -> keeps top X m R -> keeps top' X (ctx_wrap (CtxStmts [c]) m) R.
  Proof. intros Hc H s p HI. specialize (H s p HI). unfold ctx_wrap. destruct (m s p) as [[[a s1] p1]|e|x|]; auto. eapply err_stmt; eauto. Qed.
  Lemma k_mapM top X A B (f : A -> LM B) l : (forall x, In x l -> keeps top X (f x) TT) -> keeps top X (mapM f l) TT.
  Proof.
    induction l as [|x l IH]; intros H; cbn [mapM]; [apply k_ret; exact I|].
    apply k_bindT; [apply H; left; reflexivity|intros y]. apply k_bindT; [apply IH; intros z Hz; apply H; right; exact Hz|intros ys]. apply k_ret; exact I.
  Qed.
  Lemma k_iterM top X A (f : A -> LM unit) l : (forall x, In x l -> keeps top X (f x) TT) -> keeps top X (iterM f l) TT.
  Proof.
    induction l as [|x l IH]; intros H; cbn [iterM]; [apply k_ret; exact I|].
    apply k_bindT; [apply H; left; reflexivity|intros _]. apply IH. intros z Hz. apply H. right. exact Hz.
  Qed.

  (* ---- primitives ---- *)
  Ltac lst := unfold Inv; cbn [l_graph l_locals l_store l_scoped l_edges l_attrs l_prints l_params l_prev].
  Ltac start := intros s p HI; pose proof HI as (Hst & Hsc & Hed & Hat & Hpr & Hpv).
  Ltac done := split; [lst; repeat split; assumption|exact I].

  Lemma k_set_lgraph top X g : keeps top X (set_lgraph g) TT. Proof. start. cbv [set_lgraph upd modify]. done. Qed.
  Lemma k_set_llocals top X l : keeps top X (set_llocals l) TT. Proof. start. cbv [set_llocals upd modify]. done. Qed.
  Lemma k_set_lparams top X l : keeps top X (set_lparams l) TT. Proof. start. cbv [set_lparams upd modify]. done. Qed.
  Lemma k_set_lstore top X l : store_ok l -> keeps top X (set_lstore l) TT.
  Proof. intros Hl. start. cbv [set_lstore upd modify]. done. Qed.
  Lemma h_set_lscoped X X' sc E : scoped_ok X' sc -> hoare (Inv X) (set_lscoped sc) (fun _ s => Inv X' s) E.
  Proof. intros Hl. start. cbv [set_lscoped upd modify]. lst. repeat split; assumption. Qed.
  Lemma k_set_lprev top X l : prev_ok l -> keeps top X (set_lprev l) TT.
  Proof. intros Hl. start. cbv [set_lprev upd modify]. done. Qed.
  Lemma k_push_lstmt top X st : V (ls_dbg st) -> keeps top X (push_lstmt st) TT.
  Proof.
    intros Hv. start. cbv [push_lstmt upd modify].
    assert (Hone : stmts_ok [st]) by (constructor; [exact Hv|constructor]).
    destruct st; (split; [lst; repeat split; try assumption; apply Forall_app; split; assumption|exact I]).
  Qed.
  Lemma k_ladd_node top X : keeps top X ladd_node TT.
  Proof. start. cbv [ladd_node bind get_state ret set_lgraph upd modify]. destruct (add_graph_node (l_graph s)) as [g' n]. done. Qed.
  Lemma k_ladd_node_attr X n k v : keeps false X (ladd_node_attr n k v) TT.
  Proof.
    start. cbv [ladd_node_attr bind get_state fail panic set_lgraph upd modify]. destruct (gnode_at (l_graph s) n) as [nd|]; [|exact I].
    destruct (attrs_add (g_attrs nd) k v) as [m' c]. destruct c; [apply err_base; exact I|done].
  Qed.
  Lemma k_lcall X f args : keeps false X (lcall_function call f args) TT.
  Proof.
    start. cbv [lcall_function bind get_state fail panic out_of_fuel ret set_lgraph upd modify].
    destruct (call f (l_graph s) args) as [[v g']|e|x|] eqn:Ec; [done|apply err_base; eapply Hcall; eauto|exact I|exact I].
  Qed.
  Definition opt_ok (o : option stmt_ctx) : Prop := match o with Some c => V c | None => True end.
  Lemma conflict_wrapped top prev dbg e : opt_ok prev -> V dbg -> base_error e ->
    err V top (EInContext (CtxStmts (match prev with Some p => [p; dbg] | None => [dbg] end)) e).
  Proof.
    intros Hp Hd He. apply err_wrapped. eexists. eexists. split; [reflexivity|]. split; [apply U_base, He|].
    destruct prev as [c|]; cbn [opt_ok] in Hp; (split; [cbn; auto|repeat constructor; assumption]).
  Qed.
  Lemma k_lattr_node_add top X n k v prev dbg : opt_ok prev -> V dbg -> keeps top X (lattr_node_add n k v prev dbg) TT.
  Proof.
    intros Hp Hd. start. cbv [lattr_node_add bind get_state fail_in panic set_lgraph upd modify]. destruct (gnode_at (l_graph s) n) as [nd|]; [|exact I].
    destruct (attrs_add (g_attrs nd) k v) as [m' c]. destruct c; [apply conflict_wrapped; [assumption|assumption|exact I]|done].
  Qed.
  Lemma k_ledge_add top X a b ea : keeps top X (ledge_add a b ea) TT.
  Proof.
    start. cbv [ledge_add bind get_state panic set_lgraph upd modify]. destruct (graph_add_edge (l_graph s) a b) as [[g' isnew]|]; [|exact I].
    destruct isnew; done.
  Qed.
  Lemma k_lattr_edge_add X a b k v prev dbg : opt_ok prev -> V dbg -> keeps false X (lattr_edge_add a b k v prev dbg) TT.
  Proof.
    intros Hp Hd. start. cbv [lattr_edge_add bind get_state fail fail_in panic set_lgraph upd modify]. destruct (gnode_at (l_graph s) a) as [nd|]; [|exact I].
    destruct (edges_get b (g_edges nd)) as [m|]; [|apply err_base; exact I].
    destruct (attrs_add m k v) as [m' c]. destruct c; [apply conflict_wrapped; [assumption|assumption|exact I]|done].
  Qed.
  Lemma k_ledge_exists top X a b : keeps top X (ledge_exists a b) TT.
  Proof. start. cbv [ledge_exists bind get_state panic ret]. destruct (gnode_at (l_graph s) a); [split; [exact HI|exact I]|exact I]. Qed.

  Lemma k_lpoll_n top X n l : keeps top X (lpoll_n n l) TT.
  Proof. induction n as [|n IH]; cbn [lpoll_n]; [apply k_ret; exact I|]. apply k_bindT; [apply k_poll|intros _; exact IH]. Qed.
  Lemma k_lopt_node_attr X n name v : keeps false X (lopt_node_attr n name v) TT.
  Proof. unfold lopt_node_attr. destruct name; [apply k_ladd_node_attr|apply k_ret; exact I]. Qed.
  Lemma k_lpush_frame top X : keeps top X lpush_frame TT. Proof. unfold lpush_frame. apply k_get_bind. intros s0 _. apply k_set_llocals. Qed.
  Lemma k_lpop_frame top X : keeps top X lpop_frame TT.
  Proof. unfold lpop_frame. apply k_get_bind. intros s0 _. destruct (l_locals s0); [apply k_panic|apply k_set_llocals]. Qed.
  Lemma k_lclear_frame top X : keeps top X lclear_frame TT. Proof. unfold lclear_frame. apply k_get_bind. intros s0 _. apply k_set_llocals. Qed.
  Lemma k_store_add top X lv dbg : V dbg -> keeps top X (store_add lv dbg) TT.
  Proof.
    intros Hd. unfold store_add. apply k_get_bind. intros s0 (Hst & _). cbv zeta. apply k_bindT; [|intros _; apply k_ret; exact I].
    apply k_set_lstore. apply Forall_app. split; [exact Hst|]. constructor; [exact Hd|constructor].
  Qed.
  Lemma Forall_list_update' {A} (P : A -> Prop) (f : A -> A) : (forall x, P x -> P (f x)) -> forall k l, Forall P l -> Forall P (list_update k f l).
  Proof. intros Hf. induction k as [|k IH]; intros [|x l] H; cbn [list_update]; try constructor; inversion H; subst; auto. Qed.
  Lemma k_store_set_state top X loc st : keeps top X (store_set_state loc st) TT.
  Proof.
    unfold store_set_state. apply k_get_bind. intros s0 (Hst & _). apply k_set_lstore. apply Forall_list_update'; [|exact Hst].
    intros th H. exact H.
  Qed.
  Lemma k_cell_get top X name : keeps top X (cell_get name) (fun c => match c with Some cell => cell_ok X name cell | None => True end).
  Proof.
    unfold cell_get. apply k_get_bind. intros s0 (_ & Hsc & _). apply k_ret. destruct (alist_get name (l_scoped s0)) as [cell|] eqn:E; [|exact I].
    apply Hsc, E.
  Qed.
  (* replacing the cell of `name`; the set of names allowed to be Forcing may change with it *)
  Lemma h_cell_set X X' name v E :
    (forall k c, k <> name -> cell_ok X k c -> cell_ok X' k c) -> cell_ok X' name v ->
    hoare (Inv X) (cell_set name v) (fun _ s => Inv X' s) E.
  Proof.
    intros Hmono Hv. unfold cell_set. intros s p HI. unfold bind, get_state. apply (h_set_lscoped X X'); [|exact HI].
    destruct HI as (_ & Hsc & _). intros k c. rewrite alist_get_set. destruct (str_eqb_spec k name) as [->|Hn].
    - intros E'. inversion E'; subst. exact Hv.
    - intros E'. apply Hmono; [exact Hn|]. apply Hsc, E'.
  Qed.
  Lemma k_cell_set top X name v : cell_ok X name v -> keeps top X (cell_set name v) TT.
  Proof. intros Hv. unfold keeps. eapply h_post; [|apply (h_cell_set X X name v); [intros k c _ H; exact H|exact Hv]]. intros a s H. split; [exact H|exact I]. Qed.
  Lemma k_scoped_store_add X scope name v dbg : V dbg -> keeps false X (scoped_store_add scope name v dbg) TT.
  Proof.
    intros Hd. unfold scoped_store_add. eapply k_bind; [apply k_cell_get|intros c Hc]. destruct c as [[ps| |m]|].
    - apply k_cell_set. cbn [cell_ok] in *. apply Forall_app. split; [exact Hc|]. constructor; [exact Hd|constructor].
    - apply k_fail; exact I.
    - apply k_fail; exact I.
    - apply k_cell_set. cbn [cell_ok]. constructor; [exact Hd|constructor].
  Qed.
  Lemma k_lpush_param top X v : keeps top X (lpush_param v) TT. Proof. unfold lpush_param. apply k_get_bind. intros s0 _. apply k_set_lparams. Qed.
  Lemma k_ldrain_params top X n : keeps top X (ldrain_params n) TT.
  Proof.
    unfold ldrain_params. apply k_get_bind. intros s0 _. cbv zeta. destruct (Nat.ltb _ n); [apply k_panic|].
    apply k_bindT; [apply k_set_lparams|intros _; apply k_ret; exact I].
  Qed.
  Lemma k_prev_insert top X k dbg : V dbg -> keeps top X (prev_insert k dbg) opt_ok.
  Proof.
    intros Hd. unfold prev_insert. apply k_get_bind. intros s0 (_ & _ & _ & _ & _ & Hpv). cbv zeta.
    apply k_bindT.
    - apply k_set_lprev. constructor; [exact Hd|]. unfold prev_ok in *. rewrite Forall_forall in *. intros x Hx. apply filter_In in Hx. apply Hpv, Hx.
    - intros _. apply k_ret. induction (l_prev s0) as [|[k' d] l IH]; [exact I|]. inversion Hpv; subst. destruct (elem_key_eqb k k'); [assumption|apply IH; assumption].
  Qed.
  Lemma k_lfull_match_node top X le : keeps top X (lfull_match_node le) TT.
  Proof. unfold lfull_match_node. destruct (nodes_for_capture _ _); [apply k_panic|apply k_ret; exact I]. Qed.
  Lemma k_lunscoped_get X name : keeps false X (lunscoped_get glob name) TT.
  Proof.
    unfold lunscoped_get. destruct (globals_get glob name); [apply k_ret; exact I|]. apply k_get_bind. intros s0 _.
    destruct (varmap_get _ _); [apply k_ret; exact I|apply k_fail; exact I].
  Qed.
  Lemma k_lunscoped_add X le name v m : V (ll_ctx le) -> keeps false X (lunscoped_add glob le name v m) TT.
  Proof.
    intros Hc. unfold lunscoped_add. destruct (globals_get glob name); [apply k_fail; exact I|]. apply k_bindT; [apply k_store_add, Hc|intros var].
    apply k_get_bind. intros s0 _. destruct (varmap_add _ _ _ _); [apply k_set_llocals|apply k_fail; exact I].
  Qed.
  Lemma k_lunscoped_set X le name v : V (ll_ctx le) -> keeps false X (lunscoped_set glob le name v) TT.
  Proof.
    intros Hc. unfold lunscoped_set. destruct (globals_get glob name); [apply k_fail; exact I|]. apply k_bindT; [apply k_store_add, Hc|intros var].
    apply k_get_bind. intros s0 _. destruct (varmap_set _ _ _); [apply k_set_llocals|]. destruct (varmap_get _ _); apply k_fail; exact I.
  Qed.

  Lemma base_as_syn v : base_res (as_syn v). Proof. destruct v; cbn; exact I. Qed.

  (* ---- evaluation phase functions ---- *)
  Lemma dbg_get_ok dbgs n prev : Forall (fun x : N * stmt_ctx => V (snd x)) dbgs -> dbg_get dbgs n = Some prev -> V prev.
  Proof.
    induction dbgs as [|[k d] dbgs IH]; cbn [dbg_get]; [discriminate|]. intros H. inversion H; subst.
    destruct (N.eqb n k); [intros E; inversion E; subst; assumption|apply IH; assumption].
  Qed.
  (* every error of the loop over the pending definitions of one scoped variable is wrapped *)
  Lemma k_force_pairs top X ev : (forall sc, keeps false X (ev sc) TT) -> forall ps values dbgs,
    pairs_ok ps -> Forall (fun x : N * stmt_ctx => V (snd x)) dbgs -> keeps top X (force_pairs ev ps values dbgs) TT.
  Proof.
    intros Hev. induction ps as [|[[scope v] dbg] ps IHp]; intros values dbgs Hps Hd; cbn [force_pairs]; [apply k_ret; exact I|].
    inversion Hps as [|? ? Hdbg Hps']; subst. cbn [snd] in Hdbg.
    apply k_bindT; [apply (k_ctx_stmt false); [exact Hdbg|]; apply k_ctx_other, Hev|intros n].
    destruct (nmap_get values n).
    - destruct (dbg_get dbgs n) as [prev|] eqn:Eg; [|apply k_panic]. intros s p HI. unfold fail_in.
      apply (conflict_wrapped top (Some prev) dbg); [eapply dbg_get_ok; eauto|exact Hdbg|exact I].
    - apply IHp; [exact Hps'|]. apply Forall_app. split; [exact Hd|]. constructor; [exact Hdbg|constructor].
  Qed.

  Notation eval_lv' := (eval_lv t fl call).
  Notation force_thunk' := (force_thunk t fl call).
  Notation force_scoped' := (force_scoped t fl call).

  Definition plus (X : ident -> Prop) (name : ident) : ident -> Prop := fun k => X k \/ k = name.
  Lemma cell_ok_plus X name k c : k <> name -> cell_ok X k c -> cell_ok (plus X name) k c.
  Proof. intros _. destruct c; cbn [cell_ok]; auto. intros H. left. exact H. Qed.
  Lemma cell_ok_minus X name k c : k <> name -> cell_ok (plus X name) k c -> cell_ok X k c.
  Proof. intros Hn. destruct c; cbn [cell_ok]; auto. intros [H|H]; [exact H|contradiction]. Qed.
  Lemma cell_ok_pairs X name c : cell_ok X name c -> cell_pairs_ok c. Proof. destruct c; cbn; auto. Qed.

  (* LazyScopedVariables::get: mark the cell Forcing, force, store the result, continue *)
  Lemma k_forcing top X A name (body : LM (list (N * lvalue))) (k : list (N * lvalue) -> LM A) R :
    keeps top (plus X name) body TT -> (forall map, keeps top X (k map) R) ->
    keeps top X (cell_set name SVForcing ;;; map <- body ;; cell_set name (SVForced map) ;;; k map) R.
  Proof.
    intros Hb Hk. unfold keeps. eapply h_bind.
    { apply (h_cell_set X (plus X name) name SVForcing); [apply cell_ok_plus|right; reflexivity]. }
    intros u; cbv beta. eapply h_bind; [exact Hb|]. intros map. eapply h_bind.
    { eapply h_pre; [|apply (h_cell_set (plus X name) X name (SVForced map)); [apply cell_ok_minus|exact I]]. intros s [H _]. exact H. }
    intros u'; cbv beta. apply Hk.
  Qed.
  Lemma k_forcing0 top X name (body : LM (list (N * lvalue))) :
    keeps top (plus X name) body TT ->
    keeps top X (cell_set name SVForcing ;;; map <- body ;; cell_set name (SVForced map)) TT.
  Proof.
    intros Hb. unfold keeps. eapply h_bind.
    { apply (h_cell_set X (plus X name) name SVForcing); [apply cell_ok_plus|right; reflexivity]. }
    intros u; cbv beta. eapply h_bind; [exact Hb|]. intros map.
    eapply h_pre; [|eapply h_post; [|apply (h_cell_set (plus X name) X name (SVForced map)); [apply cell_ok_minus|exact I]]].
    - intros s [H _]. exact H.
    - intros a s H. split; [exact H|exact I].
  Qed.

  Lemma k_eval_all : forall fuel,
    (forall X lv, keeps false X (eval_lv' fuel lv) TT) /\ (forall X loc, keeps false X (force_thunk' fuel loc) TT) /\
    (forall X name cell, cell_pairs_ok cell -> keeps false X (force_scoped' fuel name cell) TT).
  Proof.
    induction fuel as [|fuel (IHe & IHt & IHs)]; [repeat split; intros; apply k_oof|].
    repeat split.
    - intros X lv. destruct lv; cbn [eval_lv]; (apply k_bindT; [apply k_poll|intros _]).
      + apply k_ret; exact I.
      + apply k_bindT; [apply k_mapM; intros; apply IHe|intros vs; apply k_ret; exact I].
      + apply k_bindT; [apply k_mapM; intros; apply IHe|intros vs; apply k_ret; exact I].
      + apply IHt.
      + apply k_bindT.
        { apply k_ctx_other. apply k_bindT; [apply IHe|intros sv]. apply k_lift, base_as_syn. }
        intros n. eapply k_bind; [apply k_cell_get|intros c Hc]. destruct c as [cell|]; [|apply k_fail; exact I].
        apply k_forcing; [apply IHs; eapply cell_ok_pairs; eauto|]. intros map. cbv zeta.
        match goal with |- keeps _ _ (match ?x with _ => _ end) _ => destruct x end; [apply IHe|apply k_fail; exact I].
      + apply k_bindT; [apply k_iterM; intros a _; apply k_bindT; [apply IHe|intros v; apply k_lpush_param]|intros _].
        apply k_bindT; [apply k_ldrain_params|intros ps]. apply k_lcall.
    - intros X loc. cbn [force_thunk]. apply k_get_bind. intros s0 (Hst & _).
      destruct (nth_error (l_store s0) (N.to_nat loc)) as [th|] eqn:En; [|apply k_panic].
      apply (k_ctx_stmt false).
      { unfold store_ok in Hst. rewrite Forall_forall in Hst. apply Hst. eapply nth_error_In; eauto. }
      destruct (th_state th).
      + apply k_bindT; [apply k_store_set_state|intros _]. apply k_bindT; [apply IHe|intros v].
        apply k_bindT; [apply k_store_set_state|intros _; apply k_ret; exact I].
      + apply k_fail; exact I.
      + apply k_ret; exact I.
    - intros X name cell Hc. cbn [force_scoped]. destruct cell as [pairs| |map]; [|apply k_fail; exact I|apply k_ret; exact I].
      apply k_force_pairs; [|exact Hc|constructor]. intros scope. apply k_bindT; [apply IHe|intros sv]. apply k_lift, base_as_syn.
  Qed.
  Lemma k_eval_lv X fuel lv : keeps false X (eval_lv' fuel lv) TT. Proof. apply k_eval_all. Qed.
  (* forcing a thunk / the definitions of a scoped variable from the top: every error is wrapped *)
  Lemma k_force_thunk top X fuel loc : keeps top X (force_thunk' fuel loc) TT.
  Proof.
    destruct fuel as [|fuel]; [apply k_oof|]. cbn [force_thunk]. apply k_get_bind. intros s0 (Hst & _).
    destruct (nth_error (l_store s0) (N.to_nat loc)) as [th|] eqn:En; [|apply k_panic].
    apply (k_ctx_stmt false).
    { unfold store_ok in Hst. rewrite Forall_forall in Hst. apply Hst. eapply nth_error_In; eauto. }
    destruct (th_state th).
    - apply k_bindT; [apply k_store_set_state|intros _]. apply k_bindT; [apply k_eval_lv|intros v].
      apply k_bindT; [apply k_store_set_state|intros _; apply k_ret; exact I].
    - apply k_fail; exact I.
    - apply k_ret; exact I.
  Qed.
  Lemma k_force_scoped top X fuel name cell : cell_pairs_ok cell -> cell <> SVForcing -> keeps top X (force_scoped' fuel name cell) TT.
  Proof.
    intros Hc Hn. destruct fuel as [|fuel]; [apply k_oof|]. cbn [force_scoped]. destruct cell as [pairs| |map]; [|congruence|apply k_ret; exact I].
    apply k_force_pairs; [|exact Hc|constructor]. intros scope. apply k_bindT; [apply k_eval_lv|intros sv]. apply k_lift, base_as_syn.
  Qed.

  Lemma k_eval_as_gnode X fuel lv : keeps false X (eval_as_gnode t fl call fuel lv) TT.
  Proof. unfold eval_as_gnode. apply k_bindT; [apply k_eval_lv|intros v; apply k_lift, base_as_gnode]. Qed.

  (* a deferred statement: cancellation, or wrapped in the statement's own context (or in the conflict pair) *)
  Lemma k_eval_lstmt top X fuel st : V (ls_dbg st) -> keeps top X (eval_lstmt t fl call fuel st) TT.
  Proof.
    intros Hd. unfold eval_lstmt. apply k_bindT; [apply k_poll|intros _]. destruct st; cbn [ls_dbg] in Hd; apply (k_ctx_stmt false); try exact Hd.
    - apply k_bindT; [apply k_ctx_other, k_eval_as_gnode|intros n]. apply k_iterM. intros a _.
      apply k_bindT; [apply k_eval_lv|intros v]. eapply k_bind; [apply k_prev_insert, Hd|intros prev Hp]. apply k_lattr_node_add; assumption.
    - apply k_bindT; [apply k_ctx_other, k_eval_as_gnode|intros a]. apply k_bindT; [apply k_ctx_other, k_eval_as_gnode|intros b].
      apply k_ledge_add.
    - apply k_bindT; [apply k_ctx_other, k_eval_as_gnode|intros a]. apply k_bindT; [apply k_ctx_other, k_eval_as_gnode|intros b].
      apply k_iterM. intros ak _. apply k_bindT; [apply k_eval_lv|intros v]. apply k_bindT; [apply k_ledge_exists|intros ex].
      destruct ex; [|apply k_fail; exact I]. eapply k_bind; [apply k_prev_insert, Hd|intros prev Hp]. apply k_lattr_edge_add; assumption.
    - apply k_iterM. intros a _. destruct a; [|apply k_ret; exact I]. apply k_bindT; [apply k_eval_lv|intros _; apply k_ret; exact I].
  Qed.

  Definition none : ident -> Prop := fun _ => False.

  (* the evaluation phase, from a state in which no scoped cell is being forced *)
  Lemma k_evaluate_phase fuel : keeps true none (evaluate_phase t fl call fuel) TT.
  Proof.
    unfold evaluate_phase. apply k_get_bind. intros s0 (_ & _ & Hed & Hat & Hpr & _).
    unfold stmts_ok in *. rewrite Forall_forall in Hed, Hat, Hpr.
    apply k_bindT; [apply k_iterM; intros st Hin; apply k_eval_lstmt, Hed, Hin|intros _].
    apply k_bindT; [apply k_iterM; intros st Hin; apply k_eval_lstmt, Hat, Hin|intros _].
    apply k_bindT; [apply k_iterM; intros st Hin; apply k_eval_lstmt, Hpr, Hin|intros _].
    apply k_bindT.
    - unfold store_evaluate_all. apply k_get_bind. intros s1 _. apply k_iterM. intros i _.
      apply k_bindT; [apply k_force_thunk|intros _; apply k_ret; exact I].
    - intros _. unfold scoped_evaluate_all. apply k_get_bind. intros s1 _. apply k_iterM. intros name _.
      eapply k_bind; [apply k_cell_get|intros c Hc]. destruct c as [cell|]; [|apply k_ret; exact I].
      apply k_forcing0. apply k_force_scoped; [eapply cell_ok_pairs; eauto|]. intros ->. exact Hc.
  Qed.

  (* ---- execution phase ---- *)
  Notation leval' := (leval t fl glob call).
  Lemma k_leval X : forall fuel le e, V (ll_ctx le) -> keeps false X (leval' fuel le e) TT.
  Proof.
    induction fuel as [|fuel IH]; intros le e Hc; [apply k_oof|].
    assert (Heager : forall e', keeps false X (lv <- leval' fuel le e' ;; eval_lv' (S fuel + default_eval_fuel) lv) TT).
    { intros e'. apply k_bindT; [apply IH, Hc|intros lv; apply k_eval_lv]. }
    assert (Hcomp : forall elem var value,
      keeps false X (lv <- (lv <- leval' fuel le value ;; eval_lv' (S fuel + default_eval_fuel) lv) ;; vals <- lift (as_list lv) ;;
           lpush_frame ;;;
           out <- mapM (fun v => lclear_frame ;;; lunscoped_add glob le var (LValue v) false ;;; leval' fuel le elem) vals ;;
           lpop_frame ;;; ret out) TT).
    { intros elem var value. apply k_bindT; [apply Heager|intros lv]. apply k_bindT; [apply k_lift, base_as_list|intros vals].
      apply k_bindT; [apply k_lpush_frame|intros _]. apply k_bindT.
      - apply k_mapM. intros v _. apply k_bindT; [apply k_lclear_frame|intros _]. apply k_bindT; [apply k_lunscoped_add, Hc|intros _]. apply IH, Hc.
      - intros out. apply k_bindT; [apply k_lpop_frame|intros _; apply k_ret; exact I]. }
    destruct e; cbn [leval]; try (apply k_ret; exact I).
    - apply k_bindT; [apply k_mapM; intros; apply IH, Hc|intros vs; apply k_ret; exact I].
    - apply k_bindT; [apply k_mapM; intros; apply IH, Hc|intros vs; apply k_ret; exact I].
    - apply k_bindT; [apply Hcomp|intros out; apply k_ret; exact I].
    - apply k_bindT; [apply Hcomp|intros out; apply k_ret; exact I].
    - apply k_bindT; [apply k_lift, base_from_nodes|intros v; apply k_ret; exact I].
    - apply k_lunscoped_get.
    - apply k_bindT; [apply IH, Hc|intros sv; apply k_ret; exact I].
    - apply k_bindT; [apply k_mapM; intros; apply IH, Hc|intros vs; apply k_ret; exact I].
    - destruct (nth_error _ _); [apply k_ret; exact I|apply k_fail; exact I].
  Qed.
  Lemma k_leager X fuel le e : V (ll_ctx le) -> keeps false X (leager t fl glob call fuel le e) TT.
  Proof. intros Hc. unfold leager. apply k_bindT; [apply k_leval, Hc|intros lv; apply k_eval_lv]. Qed.
  Lemma k_lvar_add X fuel le v x m : V (ll_ctx le) -> keeps false X (lvar_add t fl glob call fuel le v x m) TT.
  Proof.
    intros Hc. destruct v; cbn [lvar_add]; [apply k_lunscoped_add, Hc|]. destruct m; [apply k_fail; exact I|].
    apply k_bindT; [apply k_leval, Hc|intros sv]. apply k_bindT; [apply k_store_add, Hc|intros var]. apply k_scoped_store_add, Hc.
  Qed.
  Lemma k_lvar_set X fuel le v x : V (ll_ctx le) -> keeps false X (lvar_set glob fuel le v x) TT.
  Proof. intros Hc. destruct v; cbn [lvar_set]; [apply k_lunscoped_set, Hc|apply k_fail; exact I]. Qed.
  Lemma k_ltest_cond X fuel le c : V (ll_ctx le) -> keeps false X (ltest_cond t fl glob call fuel le c) TT.
  Proof.
    intros Hc. destruct c; cbn [ltest_cond]; (apply k_bindT; [apply k_leager, Hc|intros v]); try (apply k_ret; exact I).
    apply k_lift, base_as_bool.
  Qed.

  Notation lexec_attr' := (lexec_attr t fl glob call).
  Lemma k_lexec_attr X : forall fuel le a, V (ll_ctx le) -> keeps false X (lexec_attr' fuel le a) TT.
  Proof.
    induction fuel as [|fuel IH]; intros le a Hc; [apply k_oof|].
    destruct a as [name value]. cbn [lexec_attr]. apply k_bindT; [apply k_poll|intros _].
    apply k_bindT; [apply k_leval, Hc|intros v]. destruct (find_shorthand name (f_shorthands fl)) as [sh|]; [|apply k_ret; exact I].
    apply k_get_bind. intros s0 _. cbv zeta. apply k_bindT; [apply k_set_llocals|intros _].
    apply k_bindT; [apply k_lunscoped_add, Hc|intros _]. apply k_bindT; [apply k_mapM; intros; apply IH, Hc|intros outs].
    apply k_bindT; [apply k_set_llocals|intros _; apply k_ret; exact I].
  Qed.

  Lemma k_lscan_loop X run_arm arms rs subject :
    (forall caps r body l, In (r, body, l) arms -> keeps false X (run_arm caps body) TT) ->
    forall sfuel i, keeps false X (lscan_loop find run_arm arms rs subject sfuel i) TT.
  Proof.
    intros Hrun. induction sfuel as [|sfuel IHs]; intros i; cbn [lscan_loop]; [apply k_oof|].
    destruct (N.ltb i (N.of_nat (length subject))); [|apply k_ret; exact I]. cbv zeta.
    apply k_bindT; [apply k_lpoll_n|intros _].
    destruct (arm_select find rs (skipn (N.to_nat i) subject)) as [|k|k caps]; [apply k_ret; exact I|apply k_fail; exact I|].
    destruct (nth_error arms (N.to_nat k)) as [[[r body] l']|] eqn:En; [|apply k_panic].
    apply k_bindT; [apply k_lpush_frame|intros _].
    apply k_bindT; [eapply Hrun; eapply nth_error_In; eauto|intros _].
    apply k_bindT; [apply k_lpop_frame|intros _]. apply IHs.
  Qed.
  Lemma k_lif_loop X test run_body :
    (forall c, keeps false X (test c) TT) ->
    forall arms, (forall conds body l, In (conds, body, l) arms -> keeps false X (run_body body) TT) ->
    keeps false X (lif_loop test run_body arms) TT.
  Proof.
    intros Ht. induction arms as [|[[conds body] l'] arms IHa]; intros Hr; cbn [lif_loop]; [apply k_ret; exact I|].
    apply k_bindT; [apply k_mapM; intros c _; apply Ht|intros bs].
    destruct (forallb (fun b => b) bs); [|apply IHa; intros; eapply Hr; right; eauto].
    apply k_bindT; [apply k_lpush_frame|intros _].
    apply k_bindT; [eapply Hr; left; reflexivity|intros _]. apply k_lpop_frame.
  Qed.

  (* the error context of the environment is valid, and stays valid when the statement location is moved
     to any statement nested in s *)
  Definition env_ok (le : llenv) (s : stmt) : Prop :=
    V (ll_ctx le) /\ forall s', In s' (stmt_subs s) -> V (ctx_update (ll_ctx le) s').
  Lemma env_ok_nested le s st : (forall y, In y (st :: stmt_subs st) -> In y (stmt_subs s)) -> env_ok le s ->
    env_ok (ll_with_ctx le (ctx_update (ll_ctx le) st)) st.
  Proof.
    intros Hsub [_ Hn]. split; cbn [ll_with_ctx ll_ctx].
    - apply Hn, Hsub. left. reflexivity.
    - intros s' Hs'. change (V (ctx_update (ll_ctx le) s')). apply Hn, Hsub. right. exact Hs'.
  Qed.

  Notation lexec_stmt' := (lexec_stmt t fl cfg glob regexes find call).
  Lemma k_lexec_stmt X : forall fuel le s, env_ok le s -> keeps false X (lexec_stmt' fuel le s) TT.
  Proof.
    induction fuel as [|fuel IH]; intros le s Henv; [apply k_oof|]. pose proof Henv as [Hc Hn].
    assert (Hblock : forall le' body, ll_ctx le' = ll_ctx le ->
               (forall st y, In st body -> In y (st :: stmt_subs st) -> In y (stmt_subs s)) ->
               keeps false X (iterM (fun st => lexec_stmt' fuel (ll_with_ctx le' (ctx_update (ll_ctx le') st)) st) body) TT).
    { intros le' body El Hsub. apply k_iterM. intros st Hin. apply IH. apply (env_ok_nested le' s st).
      - intros y Hy. eapply Hsub; eauto.
      - unfold env_ok. rewrite El. exact Henv. }
    assert (Harm : forall le' body, ll_ctx le' = ll_ctx le ->
               (forall st y, In st body -> In y (st :: stmt_subs st) -> In y (stmt_subs s)) ->
               keeps false X (iterM (fun st => let c := ctx_update (ll_ctx le') st in
                                     ctx_wrap (CtxStmts [c]) (ctx_wrap CtxOther (lexec_stmt' fuel (ll_with_ctx le' c) st))) body) TT).
    { intros le' body El Hsub. apply k_iterM. intros st Hin. cbv zeta.
      assert (He : env_ok (ll_with_ctx le' (ctx_update (ll_ctx le') st)) st).
      { apply (env_ok_nested le' s st); [intros y Hy; eapply Hsub; eauto|]. unfold env_ok. rewrite El. exact Henv. }
      apply (k_ctx_stmt false); [exact (proj1 He)|]. apply k_ctx_other. apply IH, He. }
    destruct s; cbn [lexec_stmt]; (apply k_bindT; [apply k_poll|intros _]).
    - apply k_bindT; [apply k_leval, Hc|intros x; apply k_lvar_add, Hc].
    - apply k_bindT; [apply k_leval, Hc|intros x; apply k_lvar_add, Hc].
    - apply k_bindT; [apply k_leval, Hc|intros x; apply k_lvar_set, Hc].
    - apply k_bindT; [apply k_ladd_node|intros n]. apply k_bindT; [apply k_lopt_node_attr|intros _].
      apply k_bindT; [apply k_lopt_node_attr|intros _]. apply k_bindT; [|intros _; apply k_lvar_add, Hc].
      destruct (c_match_attr cfg); [|apply k_ret; exact I]. apply k_bindT; [apply k_lfull_match_node|intros mn]. apply k_ladd_node_attr.
    - apply k_bindT; [apply k_leval, Hc|intros nv]. apply k_bindT; [apply k_mapM; intros; apply k_lexec_attr, Hc|intros outs].
      apply k_push_lstmt. exact Hc.
    - apply k_bindT; [apply k_leval, Hc|intros a]. apply k_bindT; [apply k_leval, Hc|intros b]. cbv zeta. apply k_push_lstmt. exact Hc.
    - apply k_bindT; [apply k_leval, Hc|intros a]. apply k_bindT; [apply k_leval, Hc|intros b].
      apply k_bindT; [apply k_mapM; intros; apply k_lexec_attr, Hc|intros outs]. apply k_push_lstmt. exact Hc.
    - apply k_bindT; [apply k_leager, Hc|intros sv]. apply k_bindT; [apply k_lift, base_as_str|intros subject].
      destruct (arm_table regexes arms) as [rs|]; [|apply k_panic].
      apply k_lscan_loop. intros caps r body l' Hin. apply (Harm (ll_with_caps le caps) body); [reflexivity|].
      intros st y Hst Hy. eapply subs_scan; eauto.
    - apply k_bindT; [|intros args; apply k_push_lstmt; exact Hc]. apply k_mapM. intros e _. destruct e; try (apply k_ret; exact I).
      all: apply k_bindT; [apply k_leval, Hc|intros lv; apply k_ret; exact I].
    - apply k_lif_loop; [intros c; apply k_ltest_cond, Hc|]. intros conds body l' Hin. apply (Hblock le body); [reflexivity|].
      intros st y Hst Hy. eapply subs_if; eauto.
    - apply k_bindT; [apply k_leager, Hc|intros lv]. apply k_bindT; [apply k_lift, base_as_list|intros vals].
      apply k_bindT; [apply k_lpush_frame|intros _]. apply k_bindT; [|intros _; apply k_lpop_frame].
      apply k_iterM. intros v _. apply k_bindT; [apply k_lclear_frame|intros _].
      apply k_bindT; [apply k_lunscoped_add, Hc|intros _]. apply (Hblock le body); [reflexivity|].
      intros st y Hst Hy. eapply subs_for; eauto.
  Qed.

  (* what V must contain for one (stanza, match) block: the contexts of all its statements *)
  Definition block_ok (st : stanza) (m : qmatch) : Prop :=
    forall n rest s, nodes_for_capture m (st_full_file_idx st) = n :: rest -> stmt_in st s ->
                     V {| sc_stmt := stmt_loc s; sc_stanza := st_start st; sc_node := n |}.

  Lemma k_lexec_stanza top X fuel st m : block_ok st m -> keeps top X (lexec_stanza t fl cfg glob regexes find call fuel st m) TT.
  Proof.
    intros Hb. unfold lexec_stanza. apply k_bindT; [apply k_poll|intros _]. apply k_bindT; [apply k_lclear_frame|intros _].
    cbv zeta. destruct (nodes_for_capture m (st_full_file_idx st)) as [|n rest] eqn:En; [apply k_panic|]. apply k_iterM. intros s Hin.
    assert (He : forall y, In y (s :: stmt_subs s) -> V {| sc_stmt := stmt_loc y; sc_stanza := st_start st; sc_node := n |}).
    { intros y Hy. eapply Hb; [exact En|]. unfold stmt_in. eapply stmts_all_in; eauto. }
    apply (k_ctx_stmt false); [apply He; left; reflexivity|]. apply k_lexec_stmt. split; cbn [ll_with_ctx ll_ctx].
    - apply He. left. reflexivity.
    - intros s' Hs'. cbn [ctx_update sc_stanza sc_node]. apply He. right. exact Hs'.
  Qed.

  Theorem k_lexec_file fuel ms :
    (forall pm st, In pm ms -> nth_error (f_stanzas fl) (N.to_nat (fst pm)) = Some st -> block_ok st (snd pm)) ->
    keeps true none (lexec_file t fl cfg glob regexes find call fuel ms) TT.
  Proof.
    intros Hms. unfold lexec_file. apply k_bindT; [|intros _; apply k_evaluate_phase]. apply k_iterM. intros pm Hin.
    destruct (nth_error (f_stanzas fl) (N.to_nat (fst pm))) as [st|] eqn:En; [|apply k_panic]. apply k_lexec_stanza. eapply Hms; eauto.
  Qed.
End LazyValid.

(* ---------------------------------------------------------------- lazy mode: the theorem *)
(* a statement context is a VALID context of the run of `ms` over `fl`: its stanza location and node are those of one
   executed (stanza, match) block and its statement location is that of a statement of that stanza (any depth) *)
Definition valid_ctx (fl : file) (ms : list (N * qmatch)) (c : stmt_ctx) : Prop :=
  exists i st m n rest, In (i, m) ms /\ nth_error (f_stanzas fl) (N.to_nat i) = Some st /\
    nodes_for_capture m (st_full_file_idx st) = n :: rest /\
    sc_stanza c = st_start st /\ sc_node c = n /\ stmt_loc_in st (sc_stmt c).

(* every statement context stored in a lazy state is valid and no scoped variable is being forced *)
Definition lazy_ctx_inv (fl : file) (ms : list (N * qmatch)) (s : lstate) : Prop := Inv (valid_ctx fl ms) none s.
Lemma lazy_ctx_inv_init fl ms g : lazy_ctx_inv fl ms (linit g).
Proof. unfold lazy_ctx_inv, Inv, linit. cbn. repeat split; try constructor. intros name c H. discriminate. Qed.

Theorem lexec_file_ctx_valid_lemma {rx : Type} t fl cfg glob (regexes : list rx) find call fuel ms s p :
  call_errors_base call -> lazy_ctx_inv fl ms s ->
  match lexec_file t fl cfg glob regexes find call fuel ms s p with
  | Ok (_, s', _) => lazy_ctx_inv fl ms s'
  | Err e => cancelled e \/ wrapped (valid_ctx fl ms) e
  | _ => True
  end.
Proof.
  intros Hcall HI.
  assert (K : keeps (valid_ctx fl ms) true none (lexec_file t fl cfg glob regexes find call fuel ms) TT).
  { apply k_lexec_file; [exact Hcall|]. intros [i m] st Hin En n rest s0 Hn Hs. cbn [fst snd] in *.
    exists i, st, m, n, rest. cbn [sc_stanza sc_node sc_stmt]. repeat split; try assumption. exists s0. split; [exact Hs|reflexivity]. }
  specialize (K s p HI). destruct (lexec_file t fl cfg glob regexes find call fuel ms s p) as [[[a s1] p1]|e|x|]; auto.
  - apply K.
  - destruct K as [K|[[K _]|K]]; [left; exact K|discriminate|right; exact K].
Qed.

Theorem lexec_file_error_valid_lemma {rx : Type} t fl cfg glob (regexes : list rx) find call fuel ms g0 p e :
  call_errors_base call ->
  lexec_file t fl cfg glob regexes find call fuel ms (linit g0) p = Err e ->
  (exists l, e = ECancelled l) \/
  exists cs e0, e = EInContext (CtxStmts cs) e0 /\ unwrapped e0 /\ (length cs = 1 \/ length cs = 2)%nat /\ Forall (valid_ctx fl ms) cs.
Proof.
  intros Hcall H. pose proof (lexec_file_ctx_valid_lemma t fl cfg glob regexes find call fuel ms (linit g0) p Hcall (lazy_ctx_inv_init fl ms g0)) as K.
  rewrite H in K. exact K.
Qed.

(* whole run: an error is one of check_globals (raised before any stanza is executed) or as above *)
Theorem run_lazy_error_valid_lemma {rx : Type} t fl cfg supplied budget (regexes : list rx) find call fuel ms g0 e :
  call_errors_base call ->
  run_lazy t fl cfg supplied budget regexes find call fuel ms g0 = Err e ->
  check_globals (f_globals fl) (globals_nested supplied) = Err e \/
  (exists l, e = ECancelled l) \/
  exists cs e0, e = EInContext (CtxStmts cs) e0 /\ unwrapped e0 /\ (length cs = 1 \/ length cs = 2)%nat /\ Forall (valid_ctx fl ms) cs.
Proof.
  intros Hcall H. unfold run_lazy in H. destruct (check_globals (f_globals fl) (globals_nested supplied)) as [glob|e'|x|] eqn:Eg; try discriminate.
  - right. destruct (lexec_file t fl cfg glob regexes find call fuel ms (linit g0) (polls0 budget)) as [[[a s1] p1]|e'|x|] eqn:El; try discriminate.
    inversion H; subst. eapply lexec_file_error_valid_lemma; eauto.
  - left. inversion H; subst. reflexivity.
Qed.

(* ---------------------------------------------------------------- strict mode: the cited statement *)
(* In strict mode every statement of a nested block is run inside its own statement context and with_context
   keeps the innermost one, so the location an error cites is that of the INNERMOST statement whose own
   execution failed.  Formally: the cited statement s' is a statement of the stanza (any depth) and the cause is
   the error returned by a run of s' itself (in this block: same match, stanza location and node in its environment)
   that carries NO statement context — and whatever a nested block of s' raises is a cancellation or carries a
   statement context (`strict_nested_error_not_plain`), so the failure is not one of a statement nested in s'. *)
Section StrictLoc.
  Context {rx : Type}.
  Variables (t : tree) (fl : file) (cfg : config) (glob : globals) (regexes : list rx)
            (find : rx -> str -> option (list (option (N * N))))
            (call : ident -> graph -> list value -> res (value * graph)).
  Hypothesis Hcall : call_errors_base call.
  Variables (z : loc) (n : N) (m : qmatch).

  Notation SM := (M sstate).
  Notation exec_stmt' := (exec_stmt t fl cfg glob regexes find call).
  Definition mk_ctx (l : loc) : stmt_ctx := {| sc_stmt := l; sc_stanza := z; sc_node := n |}.

  Definition errs {A} (RR : exec_error -> Prop) (c : SM A) : Prop := forall s p e, c s p = Err e -> RR e.
  Definition plain (e : exec_error) : Prop := cancelled e \/ unwrapped e.

  (* statement s' was run in this block and its run returned e1, an error without statement context *)
  Definition fails_directly (s' : stmt) (e1 : exec_error) : Prop :=
    exists fuel le s0 p0, exec_stmt' fuel le s' s0 p0 = Err e1 /\ unwrapped e1 /\
                          le_ctx le = mk_ctx (stmt_loc s') /\ le_match le = m.
  (* e cites a statement of L that failed directly; the cause is that failure (inside "matching .. arm" for scan arms) *)
  Definition located (L : list stmt) (e : exec_error) : Prop :=
    exists s' e0 e1, In s' L /\ e = EInContext (CtxStmts [mk_ctx (stmt_loc s')]) e0 /\
                     (e0 = e1 \/ e0 = EInContext CtxOther e1) /\ fails_directly s' e1.
  Definition stmt_err (s : stmt) (e : exec_error) : Prop := cancelled e \/ unwrapped e \/ located (stmt_subs s) e.

  Lemma e_ret A RR (a : A) : errs RR (ret a). Proof. intros s p e H. discriminate. Qed.
  Lemma e_bind A B RR (c : SM A) (f : A -> SM B) : errs RR c -> (forall a, errs RR (f a)) -> errs RR (bind c f).
  Proof. intros Hc Hf s p e H. apply bind_err in H as [H|(a & s1 & p1 & _ & H)]; [eapply Hc|eapply Hf]; eauto. Qed.
  Lemma e_weaken A (RR RR' : exec_error -> Prop) (c : SM A) : (forall e, RR e -> RR' e) -> errs RR c -> errs RR' c.
  Proof. intros HR H s p e He. eapply HR, H, He. Qed.
  Lemma e_iterM A RR (f : A -> SM unit) l : (forall x, In x l -> errs RR (f x)) -> errs RR (iterM f l).
  Proof.
    induction l as [|x l IH]; intros H; cbn [iterM]; [apply e_ret|]. apply e_bind; [apply H; left; reflexivity|intros _].
    apply IH. intros y Hy. apply H. right. exact Hy.
  Qed.
  Lemma e_mapM A B RR (f : A -> SM B) l : (forall x, errs RR (f x)) -> errs RR (mapM f l).
  Proof.
    intros H. induction l as [|x l IH]; cbn [mapM]; [apply e_ret|]. apply e_bind; [apply H|intros y]. apply e_bind; [exact IH|intros ys; apply e_ret].
  Qed.

  (* the parts of the interpreter without nested blocks: instances of the generic meta-theorem *)
  Definition PP : forall A : Type, SM A -> Prop := fun A c => errs plain c.
  Ltac destruct_matches_in H :=
    repeat match type of H with context [match ?x with _ => _ end] => destruct x eqn:? end.
  Ltac prim := intros s0 p0 e0 H;
    cbv [add_node add_attr add_edge call_function set_graph set_locals set_scoped set_params bind get_state modify ret fail panic out_of_fuel] in H;
    destruct_matches_in H; try discriminate; inversion H; subst; try (right; apply U_base; exact I).
  Lemma p_ret : forall A (a : A), PP A (ret a). Proof. intros A a. apply e_ret. Qed.
  Lemma p_bind : forall A B (c : SM A) (f : A -> SM B), PP A c -> (forall a, PP B (f a)) -> PP B (bind c f).
  Proof. intros A B c f. apply e_bind. Qed.
  Lemma p_fail : forall A e, base_error e -> PP A (fail e). Proof. intros A e Hb s p e' H. inversion H; subst. right. apply U_base, Hb. Qed.
  Lemma p_panic : forall A x, PP A (panic x). Proof. intros A x s p e H. discriminate. Qed.
  Lemma p_oof : forall A, PP A out_of_fuel. Proof. intros A s p e H. discriminate. Qed.
  Lemma p_get : PP sstate get_state. Proof. intros s p e H. discriminate. Qed.
  Lemma p_set_locals : forall l, PP unit (set_locals l). Proof. intros l. prim. Qed.
  Lemma p_set_scoped : forall l, PP unit (set_scoped l). Proof. intros l. prim. Qed.
  Lemma p_set_params : forall l, PP unit (set_params l). Proof. intros l. prim. Qed.
  Lemma p_poll : forall l, PP unit (poll l). Proof. intros l s p e H. apply poll_err in H as (-> & _). left. exists l. reflexivity. Qed.
  Lemma p_add_node : PP N add_node. Proof. prim. Qed.
  Lemma p_add_attr : forall tgt k v, PP unit (add_attr tgt k v). Proof. intros tgt k v. prim. Qed.
  Lemma p_add_edge : forall a b, PP bool (add_edge a b). Proof. intros a b. prim. Qed.
  Lemma p_call : forall f args, PP value (call_function call f args).
  Proof. intros f args. prim. right. apply U_base. eapply Hcall; eauto. Qed.
  Ltac pside := first [ exact p_ret | exact p_bind | exact p_fail | exact p_panic | exact p_oof | exact p_get | exact p_set_locals
                      | exact p_set_scoped | exact p_set_params | exact p_poll | exact p_add_node | exact p_add_attr | exact p_add_edge | exact p_call ].

  Lemma e_eval fuel le e : errs plain (eval t fl glob call fuel le e). Proof. apply (Phi_eval t fl glob call PP); pside. Qed.
  Lemma e_var_add fuel le v x mu : errs plain (var_add t fl glob call fuel le v x mu). Proof. apply (Phi_var_add t fl glob call PP); pside. Qed.
  Lemma e_var_set fuel le v x : errs plain (var_set t fl glob call fuel le v x). Proof. apply (Phi_var_set t fl glob call PP); pside. Qed.
  Lemma e_test_cond fuel le c : errs plain (test_cond t fl glob call fuel le c). Proof. apply (Phi_test_cond t fl glob call PP); pside. Qed.
  Lemma e_exec_attr fuel le tgt a : errs plain (exec_attr t fl glob call fuel le tgt a). Proof. apply (Phi_exec_attr t fl glob call PP); pside. Qed.
  Lemma e_opt_attr tgt name v : errs plain (opt_attr tgt name v). Proof. apply (Phi_opt_attr PP); pside. Qed.
  Lemma e_full_match_node le : errs plain (full_match_node le). Proof. apply (Phi_full_match_node PP); pside. Qed.
  Lemma e_push_frame : errs plain push_frame. Proof. apply (Phi_push_frame PP); pside. Qed.
  Lemma e_pop_frame : errs plain pop_frame. Proof. apply (Phi_pop_frame PP); pside. Qed.
  Lemma e_clear_frame : errs plain clear_frame. Proof. apply (Phi_clear_frame PP); pside. Qed.
  Lemma e_unscoped_add name v mu : errs plain (unscoped_add glob name v mu). Proof. apply (Phi_unscoped_add glob PP); pside. Qed.
  Lemma e_lift A (r : res A) : base_res r -> errs plain (lift r). Proof. apply (Phi_lift PP); pside. Qed.

  Ltac pl_step :=
    first [ apply e_ret | apply e_eval | apply e_var_add | apply e_var_set | apply e_test_cond | apply e_exec_attr | apply e_opt_attr
          | apply e_full_match_node | apply e_push_frame | apply e_pop_frame | apply e_clear_frame | apply e_unscoped_add
          | exact p_add_node | apply p_add_attr | apply p_add_edge | apply p_poll
          | apply e_lift; first [apply base_as_bool | apply base_as_str | apply base_as_list | apply base_as_gnode]
          | apply e_bind; [|intros ?]
          | apply e_iterM; intros ? _
          | match goal with |- errs _ (match ?x with _ => _ end) => destruct x end
          | match goal with |- errs _ (if ?x then _ else _) => destruct x end ].
  Ltac pl := repeat pl_step.

  Section Loops.
    Variable RR : exec_error -> Prop.
    Hypothesis Hplain : forall e, plain e -> RR e.
    Lemma e_plain A (c : SM A) : errs plain c -> errs RR c. Proof. apply e_weaken, Hplain. Qed.
    Lemma e_scan_loop run_arm arms rs subject :
      (forall caps r body l, In (r, body, l) arms -> errs RR (run_arm caps body)) ->
      forall sfuel i, errs RR (scan_loop find run_arm arms rs subject sfuel i).
    Proof.
      intros Hrun. induction sfuel as [|sfuel IHs]; intros i; cbn [scan_loop]; [intros s p e H; discriminate|].
      destruct (N.ltb i (N.of_nat (length subject))); [|apply e_ret].
      apply e_bind; [apply e_plain, p_poll|intros _]. cbv zeta.
      destruct (arm_select find rs (skipn (N.to_nat i) subject)) as [|k|k caps]; [apply e_ret|apply e_plain, p_fail; exact I|].
      destruct (nth_error arms (N.to_nat k)) as [[[r body] l']|] eqn:En; [|intros s p e H; discriminate].
      apply e_bind; [apply e_plain, e_push_frame|intros _].
      apply e_bind; [eapply Hrun; eapply nth_error_In; eauto|intros _].
      apply e_bind; [apply e_plain, e_pop_frame|intros _]. apply IHs.
    Qed.
    Lemma e_if_loop test run_body :
      (forall c, errs RR (test c)) ->
      forall arms, (forall conds body l, In (conds, body, l) arms -> errs RR (run_body body)) ->
      errs RR (if_loop test run_body arms).
    Proof.
      intros Ht. induction arms as [|[[conds body] l'] arms IHa]; intros Hr; cbn [if_loop]; [apply e_ret|].
      apply e_bind; [apply e_mapM; intros c; apply Ht|intros bs].
      destruct (forallb (fun b => b) bs); [|apply IHa; intros; eapply Hr; right; eauto].
      apply e_bind; [apply e_plain, e_push_frame|intros _].
      apply e_bind; [eapply Hr; left; reflexivity|intros _]. apply e_plain, e_pop_frame.
    Qed.
  End Loops.

  Lemma unwrapped_add_other_eq e : unwrapped e -> add_context CtxOther e = EInContext CtxOther e.
  Proof. intros H. destruct H as [e Hb|e H]; [|reflexivity]. destruct e; cbn in *; try contradiction; reflexivity. Qed.

  (* one statement of a block, run inside its own statement context: the error of the wrapped run, given what the
     statement's own run can return *)
  Lemma nested_stmt_error (L : list stmt) (wrap : SM unit -> SM unit) fuel le st s0 p0 e :
    (forall (c : SM unit) s p e', wrap c s p = Err e' -> exists e1, c s p = Err e1 /\ (e' = e1 \/ e' = add_context CtxOther e1)) ->
    (forall y, In y (st :: stmt_subs st) -> In y L) ->
    le_ctx le = mk_ctx (stmt_loc st) -> le_match le = m ->
    errs (stmt_err st) (exec_stmt' fuel le st) ->
    ctx_wrap (CtxStmts [mk_ctx (stmt_loc st)]) (wrap (exec_stmt' fuel le st)) s0 p0 = Err e ->
    cancelled e \/ located L e.
  Proof.
    intros Hw HL Hctx Hm IH H. apply ctx_wrap_err in H as (ew & H & ->). apply Hw in H as (e1 & H & Hew).
    destruct (IH _ _ _ H) as [[l ->]|[Hu|(s' & e0 & e2 & Hin & -> & He0 & Hf)]].
    - left. exists l. destruct Hew as [->| ->]; reflexivity.
    - right. exists st, ew, e1. split; [apply HL; left; reflexivity|]. split.
      + destruct Hew as [->| ->]; [apply unwrapped_add_stmts, Hu|]. rewrite unwrapped_add_other_eq by exact Hu. reflexivity.
      + split; [destruct Hew as [->| ->]; [left; reflexivity|right; apply unwrapped_add_other_eq, Hu]|].
        exists fuel, le, s0, p0. auto.
    - right. exists s', e0, e2. split; [apply HL; right; exact Hin|]. split; [destruct Hew as [->| ->]; reflexivity|]. auto.
  Qed.

  Lemma wrap_id (c : SM unit) s p e' : (fun x : SM unit => x) c s p = Err e' -> exists e1, c s p = Err e1 /\ (e' = e1 \/ e' = add_context CtxOther e1).
  Proof. intros H. exists e'. auto. Qed.
  Lemma wrap_other (c : SM unit) s p e' : ctx_wrap CtxOther c s p = Err e' -> exists e1, c s p = Err e1 /\ (e' = e1 \/ e' = add_context CtxOther e1).
  Proof. intros H. apply ctx_wrap_err in H as (e1 & H & ->). exists e1. auto. Qed.

  Lemma stmt_err_plain s e : plain e -> stmt_err s e.
  Proof. intros [H|H]; [left; exact H|right; left; exact H]. Qed.

  Theorem strict_stmt_error_loc : forall fuel le s, le_ctx le = mk_ctx (stmt_loc s) -> le_match le = m ->
    errs (stmt_err s) (exec_stmt' fuel le s).
  Proof.
    induction fuel as [|fuel IH]; intros le s Hctx Hm; [intros s0 p0 e H; discriminate|].
    assert (Hblock : forall le' (wrap : SM unit -> SM unit) body,
               (forall (c : SM unit) s p e', wrap c s p = Err e' -> exists e1, c s p = Err e1 /\ (e' = e1 \/ e' = add_context CtxOther e1)) ->
               le_ctx le' = le_ctx le -> le_match le' = m ->
               (forall st y, In st body -> In y (st :: stmt_subs st) -> In y (stmt_subs s)) ->
               errs (stmt_err s) (iterM (fun st => let c := ctx_update (le_ctx le') st in
                                     ctx_wrap (CtxStmts [c]) (wrap (exec_stmt' fuel (le_with_ctx le' c) st))) body)).
    { intros le' wrap body Hw El Em Hsub. apply e_iterM. intros st Hin s0 p0 e H. cbv zeta in H.
      assert (Ec : ctx_update (le_ctx le') st = mk_ctx (stmt_loc st)) by (rewrite El, Hctx; reflexivity).
      rewrite Ec in H.
      destruct (nested_stmt_error (stmt_subs s) wrap fuel (le_with_ctx le' (mk_ctx (stmt_loc st))) st s0 p0 e Hw) as [Hc|Hl]; auto.
      - intros y Hy. eapply Hsub; eauto.
      - left. exact Hc.
      - right. right. exact Hl. }
    destruct s; cbn [exec_stmt]; (apply e_bind; [apply e_plain; [apply stmt_err_plain|apply p_poll]|intros _]).
    1-7, 9: apply e_plain; [apply stmt_err_plain|]; pl.
    - (* scan *)
      apply e_bind; [apply e_plain; [apply stmt_err_plain|apply e_eval]|intros sv].
      apply e_bind; [apply e_plain; [apply stmt_err_plain|apply e_lift, base_as_str]|intros subject].
      destruct (arm_table regexes arms) as [rs|]; [|intros s0 p0 e H; discriminate].
      apply e_scan_loop; [apply stmt_err_plain|]. intros caps r body l' Hin.
      apply (Hblock (le_with_caps le caps) (ctx_wrap CtxOther) body); [apply wrap_other|reflexivity|exact Hm|].
      intros st y Hst Hy. eapply subs_scan; eauto.
    - (* if *)
      apply e_if_loop; [apply stmt_err_plain|intros c; apply e_plain; [apply stmt_err_plain|apply e_test_cond]|].
      intros conds body l' Hin. apply (Hblock le (fun x => x) body); [apply wrap_id|reflexivity|exact Hm|].
      intros st y Hst Hy. eapply subs_if; eauto.
    - (* for *)
      apply e_bind; [apply e_plain; [apply stmt_err_plain|apply e_eval]|intros lv].
      apply e_bind; [apply e_plain; [apply stmt_err_plain|apply e_lift, base_as_list]|intros vals].
      apply e_bind; [apply e_plain; [apply stmt_err_plain|apply e_push_frame]|intros _].
      apply e_bind; [|intros _; apply e_plain; [apply stmt_err_plain|apply e_pop_frame]].
      apply e_iterM. intros v _. apply e_bind; [apply e_plain; [apply stmt_err_plain|apply e_clear_frame]|intros _].
      apply e_bind; [apply e_plain; [apply stmt_err_plain|apply e_unscoped_add]|intros _].
      apply (Hblock le (fun x => x) body); [apply wrap_id|reflexivity|exact Hm|].
      intros st y Hst Hy. eapply subs_for; eauto.
  Qed.

  (* a nested block (the statements of an `if`/`for` body or of a scan arm, each in its own context): its error is a
     cancellation or cites one of its statements (any depth) that failed directly *)
  Theorem strict_block_error_lemma fuel le' (wrap : SM unit -> SM unit) body :
    (forall (c : SM unit) s p e', wrap c s p = Err e' -> exists e1, c s p = Err e1 /\ (e' = e1 \/ e' = add_context CtxOther e1)) ->
    sc_stanza (le_ctx le') = z -> sc_node (le_ctx le') = n -> le_match le' = m ->
    errs (fun e => cancelled e \/ located (stmts_all body) e)
         (iterM (fun st => let c := ctx_update (le_ctx le') st in
                           ctx_wrap (CtxStmts [c]) (wrap (exec_stmt' fuel (le_with_ctx le' c) st))) body).
  Proof.
    intros Hw Ez En Em. apply e_iterM. intros st Hin s0 p0 e H. cbv zeta in H.
    assert (Ec : ctx_update (le_ctx le') st = mk_ctx (stmt_loc st)) by (unfold ctx_update, mk_ctx; rewrite Ez, En; reflexivity).
    rewrite Ec in H.
    apply (nested_stmt_error (stmts_all body) wrap fuel (le_with_ctx le' (mk_ctx (stmt_loc st))) st s0 p0 e Hw); auto.
    - intros y Hy. eapply stmts_all_in; eauto.
    - apply strict_stmt_error_loc; auto.
  Qed.
  Lemma located_not_unwrapped L e : cancelled e \/ located L e -> ~ unwrapped e.
  Proof.
    intros [[l ->]|(s' & e0 & e1 & _ & -> & _)] Hu; inversion Hu as [e Hb|e Hu']; subst; cbn in *; try contradiction.
  Qed.

  (* one (stanza, match) block *)
  Theorem strict_stanza_error_loc_lemma fuel st s p e rest :
    z = st_start st -> nodes_for_capture m (st_full_stanza_idx st) = n :: rest ->
    exec_stanza t fl cfg glob regexes find call fuel st m s p = Err e ->
    cancelled e \/ located (stmts_all (st_stmts st)) e.
  Proof.
    intros Ez Hn H. unfold exec_stanza in H. apply bind_err in H as [H|(u & s1 & p1 & _ & H)].
    - unfold clear_frame in H. apply bind_err in H as [H|(a & s2 & p2 & _ & H)]; discriminate.
    - apply iterM_err in H as (x & s' & p' & Hin & H). cbv zeta in H. rewrite Hn in H. rewrite <- Ez in H.
      eapply (nested_stmt_error (stmts_all (st_stmts st)) (fun c => c)) in H; [exact H|apply wrap_id| | | |].
      + intros y Hy. eapply stmts_all_in; eauto.
      + reflexivity.
      + reflexivity.
      + apply strict_stmt_error_loc; reflexivity.
  Qed.
End StrictLoc.

Theorem strict_file_error_loc_lemma {rx : Type} t fl cfg glob (regexes : list rx) find call fuel sts ms s p e :
  call_errors_base call ->
  exec_file t fl cfg glob regexes find call fuel sts ms s p = Err e ->
  cancelled e \/
  exists st m, In (st, m) (blocks sts ms) /\
    match nodes_for_capture m (st_full_stanza_idx st) with
    | n :: _ => located t fl cfg glob regexes find call (st_start st) n m (stmts_all (st_stmts st)) e
    | [] => False
    end.
Proof.
  intros Hcall H. rewrite strict_blocks_once in H. apply iterM_err in H as ([st m] & s' & p' & Hin & H). cbn [fst snd] in H.
  destruct (nodes_for_capture m (st_full_stanza_idx st)) as [|n rest] eqn:En.
  - exfalso. unfold exec_stanza in H. apply bind_err in H as [H|(u & s1 & p1 & _ & H)].
    + unfold clear_frame in H. apply bind_err in H as [H|(a & s2 & p2 & _ & H)]; discriminate.
    + apply iterM_err in H as (x & s'' & p'' & _ & H). cbv zeta in H. rewrite En in H. discriminate.
  - destruct (strict_stanza_error_loc_lemma t fl cfg glob regexes find call Hcall (st_start st) n m fuel st s' p' e rest eq_refl En H) as [Hc|Hc]; [left; exact Hc|].
    right. exists st, m. split; [exact Hin|]. rewrite En. exact Hc.
Qed.
