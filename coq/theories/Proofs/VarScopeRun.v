(* Proofs/VarScopeRun.v — C06, scope soundness part 7: whole runs of both interpreter models on a checked file.
   - the globals: after `check_globals` the effective chain defines exactly the DECLARED names, provided the caller
     supplies no undeclared one (`supplied_declared`; Appendix D: an undeclared supplied global shadows nothing
     and makes a same-named `let` fail at run time — `ex_undeclared_supplied_global` in Props/C06.v);
   - the function table: `call_clean` (no function returns one of the four variable errors); the standard
     library satisfies it;
   - `run_strict` / `run_lazy` on a file that satisfies the discipline. *)
From TSG Require Import Model.Exec Model.Strict Model.Lazy Model.VarScope Model.Stdlib Spec.StdlibDoc
  Proofs.BaseFacts Proofs.MonadFacts Proofs.Globals Proofs.Checker Proofs.LocalCheck Proofs.LocalRun Proofs.Stdlib
  Proofs.VarScopeShape Proofs.VarScopeCheck Proofs.VarScopeHoare Proofs.VarScopeStrict Proofs.VarScopeLazy Proofs.VarScopeFlags.

Definition call_clean (call : ident -> graph -> list value -> res (value * graph)) : Prop :=
  forall f g args e, call f g args = Err e -> variable_error e = false.
Definition supplied_declared (f : file) (supplied : globals) : Prop :=
  forall k v, globals_get supplied k = Some v -> is_global f k = true.

Lemma stdlib_call_clean rx t : call_clean (stdlib_call rx t).
Proof.
  intros f g args e H. apply error_classes_lemma in H. unfold variable_error. destruct e; try discriminate; reflexivity.
Qed.

Lemma glob_exact f supplied glob : check_globals (f_globals f) (globals_nested supplied) = Ok glob -> supplied_declared f supplied ->
  forall x, is_global f x = match globals_get glob x with Some _ => true | None => false end.
Proof.
  intros Hg Hs x. destruct (is_global f x) eqn:E.
  - destruct (is_global_glob _ _ _ Hg x E) as [v ->]. reflexivity.
  - assert (Hn : ~ In x (map gl_name (f_globals f))) by (intros Hin; apply is_global_In in Hin; congruence).
    rewrite (undeclared_kept_lemma _ _ _ _ Hg Hn). destruct (globals_get supplied x) as [v|] eqn:Es; [|reflexivity].
    rewrite (Hs _ _ Es) in E. discriminate.
Qed.
Lemma check_globals_err_clean ds supplied e : check_globals ds (globals_nested supplied) = Err e -> variable_error e = false.
Proof.
  unfold globals_nested. intros H. destruct (check_globals_outcomes_lemma ds [] supplied) as [[g' E]|[E|E]];
    pose proof (eq_trans (eq_sym H) E) as X; [discriminate|inversion X; reflexivity|inversion X; reflexivity].
Qed.

Section Runs.
  Context {rx : Type}.
  Variable t : tree.
  Variable fl : file.
  Variable cfg : config.
  Variable regexes : list rx.
  Variable find : rx -> str -> option (list (option (N * N))).
  Variable call : ident -> graph -> list value -> res (value * graph).
  Hypothesis Hcall : call_clean call.

  Theorem run_strict_scope_ok sr sd supplied budget fuel matches g0 e :
    vs_file sr sd fl = true -> supplied_declared fl supplied ->
    run_strict t fl cfg supplied budget regexes find call fuel matches g0 = Err e -> serr_ok sr sd e.
  Proof.
    intros Hf Hs. unfold vs_file in Hf. apply andb_true_iff in Hf. destruct Hf as [Hsh Hst]. unfold run_strict.
    destruct (check_globals (f_globals fl) (globals_nested supplied)) as [glob|e0|x|] eqn:Eg; try discriminate.
    - pose proof (hv_exec_file t fl cfg glob regexes find call (is_global fl) sr sd (glob_exact _ _ _ Eg Hs) Hcall Hsh fuel
                    (f_stanzas fl) matches [[]] Hst (ex_intro _ [] eq_refl) (sinit g0) (polls0 budget) eq_refl) as H.
      destruct (exec_file t fl cfg glob regexes find call fuel (f_stanzas fl) matches (sinit g0) (polls0 budget)) as [[[u s] p]|e1|x|];
        try discriminate. intros [= <-]. exact H.
    - intros [= <-]. apply serr_ok_other. eapply check_globals_err_clean. exact Eg.
  Qed.

  Theorem run_lazy_scope_ok supplied budget fuel matches g0 e :
    vs_file true true fl = true -> supplied_declared fl supplied ->
    run_lazy t fl cfg supplied budget regexes find call fuel matches g0 = Err e -> lerr_ok e.
  Proof.
    intros Hf Hs. unfold vs_file in Hf. apply andb_true_iff in Hf. destruct Hf as [Hsh Hst]. unfold run_lazy.
    destruct (check_globals (f_globals fl) (globals_nested supplied)) as [glob|e0|x|] eqn:Eg; try discriminate.
    - pose proof (hv_lexec_file t fl cfg glob regexes find call (is_global fl) (glob_exact _ _ _ Eg Hs) Hcall Hsh fuel
                    matches [[]] Hst (ex_intro _ [] eq_refl) (linit g0) (polls0 budget) eq_refl) as H.
      destruct (lexec_file t fl cfg glob regexes find call fuel matches (linit g0) (polls0 budget)) as [[[u s] p]|e1|x|];
        try discriminate. intros [= <-]. exact H.
    - intros [= <-]. apply lerr_ok_other. eapply check_globals_err_clean. exact Eg.
  Qed.
End Runs.

(* ---- checked files ---- *)
Lemma checked_vs_file q f f' : check_file q f = CkOk f' -> shorthands_scope_ok f' = true ->
  vs_file true true f' = true /\ vs_file (file_sr f') (file_sd f') f' = true.
Proof.
  intros Hc Hsh. unfold check_file in Hc. pose proof (check_file_vs_with _ _ _ _ Hc) as Hst. unfold shorthands_scope_ok in Hsh. split.
  - unfold vs_file. rewrite Hsh, Hst. reflexivity.
  - apply vs_file_flags; assumption.
Qed.
Lemma no_shorthands_scope_ok f : f_shorthands f = [] -> shorthands_scope_ok f = true.
Proof. unfold shorthands_scope_ok, vs_shorthands. intros ->. reflexivity. Qed.

(* reading an unscoped variable that the discipline allows always succeeds, and changes nothing *)
Lemma eval_unscoped_ok_strict t fl glob call (G : ident -> bool) fuel le x l env s p :
  (forall y, G y = match globals_get glob y with Some _ => true | None => false end) ->
  G x || is_bound env x = true -> shape (s_locals s) = env ->
  exists v, eval t fl glob call (S fuel) le (EUnscoped x l) s p = Ok (v, s, p).
Proof.
  intros HG H Hs. cbn [eval]. unfold unscoped_get. destruct (globals_get glob x) eqn:Eg; [eexists; reflexivity|].
  rewrite HG, Eg in H. cbn [orb] in H. rewrite <- Hs, is_bound_shape in H. unfold bind, get_state.
  destruct (varmap_get (s_locals s) x); [eexists; reflexivity|discriminate].
Qed.
Lemma eval_unscoped_ok_lazy t fl glob call (G : ident -> bool) fuel le x l env s p :
  (forall y, G y = match globals_get glob y with Some _ => true | None => false end) ->
  G x || is_bound env x = true -> shape (l_locals s) = env ->
  exists lv, leval t fl glob call (S fuel) le (EUnscoped x l) s p = Ok (lv, s, p).
Proof.
  intros HG H Hs. cbn [leval]. unfold lunscoped_get. destruct (globals_get glob x) eqn:Eg; [eexists; reflexivity|].
  rewrite HG, Eg in H. cbn [orb] in H. rewrite <- Hs, is_bound_shape in H. unfold bind, get_state.
  destruct (varmap_get (l_locals s) x); [eexists; reflexivity|discriminate].
Qed.
