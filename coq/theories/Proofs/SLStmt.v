(* Proofs/SLStmt.v — C02 (strict/lazy whole-run simulation), part 4: attributes, statements, stanzas.
   The execution-phase invariant `Rel`: the lazy interpreter's graph is the skeleton (nodes only); its
   pending edge statements denote a list of edge insertions E, its pending attribute statements denote
   a list of attribute insertions A, and the strict interpreter's graph is the skeleton with E and then A
   applied.  Statement by statement, strict success implies that the lazy execution keeps the invariant
   (or runs out of fuel). *)
From TSG Require Import Model.Lazy Proofs.BaseFacts Proofs.Containers Proofs.MonadFacts Proofs.SLGraph Proofs.SLForce Proofs.SLExpr.

Definition mk (tgt : target) (kv : ident * value) : aop :=
  match tgt with TNode n => AN n (fst kv) (snd kv) | TEdge a b => AE a b (fst kv) (snd kv) end.

Lemma add_attr_ok tgt k v s p u s' p' : add_attr tgt k v s p = Ok (u, s', p') ->
  apply_attr (mk tgt (k, v)) (s_graph s) = Some (s_graph s') /\ s_locals s' = s_locals s /\ s_params s' = s_params s.
Proof.
  unfold add_attr, bind, get_state. destruct tgt as [n|a b]; cbn [mk apply_attr fst snd].
  - destruct (gnode_at (s_graph s) n) as [nd|]; [|discriminate]. destruct (attrs_add (g_attrs nd) k v) as [m' [c|]]; [discriminate|].
    unfold set_graph, modify. intros H; inversion H; subst. auto.
  - destruct (gnode_at (s_graph s) a) as [nd|]; [|discriminate]. destruct (edges_get b (g_edges nd)) as [m0|]; [|discriminate].
    destruct (attrs_add m0 k v) as [m' [c|]]; [discriminate|]. unfold set_graph, modify. intros H; inversion H; subst. auto.
Qed.

Section Stmt.
  Context {rx : Type}.
  Variables (t : tree) (fl : file) (glob : globals) (regexes : list rx)
            (find : rx -> str -> option (list (option (N * N))))
            (call : ident -> graph -> list value -> res (value * graph)).
  Variable okfn : ident -> Prop.
  Hypothesis Hpure : forall f, okfn f -> pure_fn call f.
  Variable m : qmatch.

  Notation den := (den call).
  Notation Renv := (Renv call).
  Notation epost := (epost call).
  Notation fexpr' := (fexpr okfn m).
  Notation fattr' := (fattr okfn m).
  Notation fstmt' := (fstmt okfn m).
  Notation env_rel' := (env_rel m).

  (* shorthand bodies are in the fragment too *)
  Hypothesis Hsh : Forall (fun sh => All fattr' (sh_attrs sh)) (f_shorthands fl).

  (* ---------------- attributes ---------------- *)
  Definition den_attrs (rho : list value) (out : list (ident * lvalue)) (kvs : list (ident * value)) : Prop :=
    Forall2 (fun x y => fst x = fst y /\ den rho (snd x) (snd y)) out kvs.
  Lemma den_attrs_mono rho rho' out kvs : prefix rho rho' -> den_attrs rho out kvs -> den_attrs rho' out kvs.
  Proof. intros Hp H. induction H as [|x y l l' [H1 H2] _ IH]; constructor; [|exact IH]. split; [exact H1|eapply den_mono; eauto]. Qed.

  (* strict added the attributes kvs to the target; lazy returned lazy attributes that denote kvs *)
  Definition apost (rho : list value) (tgt : target) (ss ss' : sstate) (ls : lstate) : list (ident * lvalue) -> lstate -> polls -> Prop :=
    fun out ls' pl' => nob pl' /\ lframe ls ls' /\ exists rho' kvs, prefix rho rho' /\ Renv rho' ss' ls' /\ den_attrs rho' out kvs /\
                         apply_attrs (map (mk tgt) kvs) (s_graph ss) = Some (s_graph ss').
  Definition asim (tgt : target) (ms : M sstate unit) (ml : M lstate (list (ident * lvalue))) : Prop :=
    forall ss p u ss' p', ms ss p = Ok (u, ss', p') -> forall rho ls pl, Renv rho ss ls -> nob pl -> lres (ml ls pl) (apost rho tgt ss ss' ls).

  Lemma attrs_sim tgt (exa : attr -> M sstate unit) (lexa : attr -> M lstate (list (ident * lvalue))) :
    forall attrs, (forall a, In a attrs -> asim tgt (exa a) (lexa a)) ->
    forall ss p u ss' p', iterM exa attrs ss p = Ok (u, ss', p') -> forall rho ls pl, Renv rho ss ls -> nob pl ->
      lres (mapM lexa attrs ls pl) (fun outs ls' pl' => apost rho tgt ss ss' ls (concat outs) ls' pl').
  Proof.
    induction attrs as [|a attrs IH]; intros Ha ss p u ss' p' H rho ls pl HR Hb; cbn [iterM mapM] in *.
    - apply ret_ok in H. destruct H as (-> & -> & ->). apply lres_ret. split; [exact Hb|]. split; [apply lframe_refl|].
      exists rho, []. split; [apply prefix_refl|]. split; [exact HR|]. split; [constructor|reflexivity].
    - apply bind_ok in H. destruct H as (u1 & s1 & p1 & H1 & H2).
      apply lres_bind. eapply lres_mono; [apply (Ha a (or_introl eq_refl) _ _ _ _ _ H1 rho ls pl HR Hb)|].
      intros o1 ls1 pl1 (Hb1 & Hf1 & rho1 & kvs1 & Hp1 & HR1 & Hd1 & Hg1).
      apply lres_bind. eapply lres_mono; [apply (IH (fun a0 Hin => Ha a0 (or_intror Hin)) _ _ _ _ _ H2 rho1 ls1 pl1 HR1 Hb1)|].
      intros outs ls2 pl2 (Hb2 & Hf2 & rho2 & kvs2 & Hp2 & HR2 & Hd2 & Hg2). apply lres_ret.
      split; [exact Hb2|]. split; [eapply lframe_trans; eauto|]. exists rho2, (kvs1 ++ kvs2). split; [eapply prefix_trans; eauto|].
      split; [exact HR2|]. split.
      + cbn [concat]. apply Forall2_app; [eapply den_attrs_mono; eauto|exact Hd2].
      + rewrite map_app. eapply ofold_app_ok; eauto.
  Qed.

  Notation eval' := (eval t fl glob call).
  Notation leval' := (leval t fl glob call).
  Notation exec_attr' := (exec_attr t fl glob call).
  Notation lexec_attr' := (lexec_attr t fl glob call).

  Lemma attr_sim : forall fuel le ll tgt a, fattr' a -> env_rel' le ll -> forall lf, asim tgt (exec_attr' fuel le tgt a) (lexec_attr' lf ll a).
  Proof.
    induction fuel as [|fuel IH]; intros le ll tgt a Hf Henv lf ss p u ss' p' H rho ls pl HR Hb; [discriminate|].
    destruct lf as [|lf]; [exact I|]. destruct a as [name value]. cbn [exec_attr] in H. cbn [lexec_attr fattr] in *.
    apply bind_ok in H. destruct H as (u0 & s0 & p0 & H0 & H). apply poll_ok in H0. destruct H0 as (-> & -> & _).
    apply bind_ok in H. destruct H as (v & s1 & p1 & H1 & H).
    apply lres_bind. apply lres_poll; [exact Hb|]. intros pl0 Hb0.
    apply lres_bind. eapply lres_mono; [apply (eval_sim t fl glob call okfn Hpure m fuel le ll value Hf Henv lf _ _ _ _ _ H1 rho ls pl0 HR Hb0)|].
    intros lv ls1 pl1 (Hb1 & [Sg1 Sp1] & Hf1 & rho1 & Hp1 & HR1 & Hd1).
    destruct (find_shorthand name (f_shorthands fl)) as [sh|] eqn:Esh.
    - (* shorthand: fresh variable map, expand, restore *)
      apply bind_ok in H. destruct H as (sg & s1' & p1' & G & H). apply get_ok in G. destruct G as (-> & -> & ->).
      apply bind_ok in H. destruct H as (u2 & s2 & p2 & H2 & H). rewrite set_locals_eq in H2. inversion H2; subst; clear H2.
      apply bind_ok in H. destruct H as (u3 & s3 & p3 & H3 & H). apply bind_ok in H. destruct H as (u4 & s4 & p4 & H4 & H5).
      rewrite set_locals_eq in H5. inversion H5; subst; clear H5.
      apply lres_get. apply lres_bind. rewrite set_llocals_eq. cbn [lres].
      assert (HR2 : Renv rho1 (sset_locals [[]] s1) (lset_locals [[]] ls1)).
      { destruct HR1 as [A1 A2]. split; [exact A1|]. constructor; [constructor|constructor]. }
      apply lres_bind. eapply lres_mono; [apply (unscoped_add_sim glob call ll (sh_var sh) v lv false _ _ _ _ _ rho1 _ pl1 H3 HR2 Hd1 Hb1)|].
      intros _ ls3 pl3 (Hb3 & [Sg3 Sp3] & Hf3 & rho3 & Hp3 & HR3 & _).
      assert (Hin : forall a0, In a0 (sh_attrs sh) -> asim tgt (exec_attr' fuel le tgt a0) (lexec_attr' lf ll a0)).
      { intros a0 Hin0. apply IH; [|exact Henv]. rewrite Forall_forall in Hsh. apply (All_In _ _ _ (Hsh sh (find_shorthand_In _ _ _ Esh)) Hin0). }
      apply lres_bind. eapply lres_mono; [apply (attrs_sim tgt _ _ (sh_attrs sh) Hin _ _ _ _ _ H4 rho3 ls3 pl3 HR3 Hb3)|].
      intros outs ls4 pl4 (Hb4 & Hf4 & rho4 & kvs & Hp4 & HR4 & Hd4 & Hg4).
      apply lres_bind. rewrite set_llocals_eq. cbn [lres]. split; [exact Hb4|].
      split; [eapply lframe_trans; [exact Hf1|]; eapply lframe_trans; [apply lframe_set_locals|]; eapply lframe_trans; [exact Hf3|]; eapply lframe_trans; [exact Hf4|apply lframe_set_locals]|].
      exists rho4, kvs. split; [eapply prefix_trans; [exact Hp1|]; eapply prefix_trans; [exact Hp3|exact Hp4]|]. split.
      + destruct HR4 as [A1 _]. destruct HR1 as [_ A2]. split; [exact A1|]. cbn [sset_locals lset_locals s_locals l_locals].
        eapply locals_rel_mono; [|exact A2]. eapply prefix_trans; eauto.
      + split; [exact Hd4|]. cbn [sset_locals s_graph] in *. rewrite <- Sg1, <- Sg3. exact Hg4.
    - (* plain attribute *)
      destruct (add_attr_ok _ _ _ _ _ _ _ _ H) as (Hg & Hl & Hps). apply lres_ret. split; [exact Hb1|]. split; [exact Hf1|].
      exists rho1, [(name, v)]. split; [exact Hp1|]. split; [eapply Renv_locals; [exact HR1|exact Hl|reflexivity|reflexivity]|].
      split; [constructor; [split; [reflexivity|exact Hd1]|constructor]|]. cbn [map ofold]. rewrite <- Sg1, Hg. reflexivity.
  Qed.

  (* ---------------- the execution-phase invariant ---------------- *)
  Definition den_edge (rho : list value) (st : lstmt) (e : N * N) : Prop :=
    exists a b dbg, st = LSEdge a b [] dbg /\ den rho a (VGraph (fst e)) /\ den rho b (VGraph (snd e)).
  Definition den_astmt (rho : list value) (st : lstmt) (ops : list aop) : Prop :=
    match st with
    | LSAttrNode n attrs _ => exists x kvs, den rho n (VGraph x) /\ den_attrs rho attrs kvs /\ ops = map (mk (TNode x)) kvs
    | LSAttrEdge a b attrs _ => exists x y kvs, den rho a (VGraph x) /\ den rho b (VGraph y) /\ den_attrs rho attrs kvs /\ ops = map (mk (TEdge x y)) kvs
    | _ => False
    end.
  Definition print_ok (rho : list value) (st : lstmt) : Prop :=
    match st with
    | LSPrint args _ => Forall (fun a => match a with Some lv => exists v, den rho lv v | None => True end) args
    | _ => False
    end.
  Lemma den_edge_mono rho rho' st e : prefix rho rho' -> den_edge rho st e -> den_edge rho' st e.
  Proof. intros Hp (a & b & dbg & E & Ha & Hb). exists a, b, dbg. split; [exact E|]. split; eapply den_mono; eauto. Qed.
  Lemma den_astmt_mono rho rho' st ops : prefix rho rho' -> den_astmt rho st ops -> den_astmt rho' st ops.
  Proof.
    intros Hp. destruct st; cbn [den_astmt]; try tauto.
    - intros (x & kvs & H1 & H2 & H3). exists x, kvs. split; [eapply den_mono; eauto|]. split; [eapply den_attrs_mono; eauto|exact H3].
    - intros (x & y & kvs & H1 & H1' & H2 & H3). exists x, y, kvs. split; [eapply den_mono; eauto|]. split; [eapply den_mono; eauto|].
      split; [eapply den_attrs_mono; eauto|exact H3].
  Qed.
  Lemma print_ok_mono rho rho' st : prefix rho rho' -> print_ok rho st -> print_ok rho' st.
  Proof.
    intros Hp. destruct st; cbn [print_ok]; try tauto. intros H. eapply Forall_impl; [|exact H]. intros [lv|]; [|auto].
    intros [v Hv]. exists v. eapply den_mono; eauto.
  Qed.

  Definition Rel (rho : list value) (ss : sstate) (ls : lstate) : Prop :=
    Renv rho ss ls /\ l_scoped ls = [] /\ Forall (print_ok rho) (l_prints ls) /\
    exists eops aopss g1, Forall2 (den_edge rho) (l_edges ls) eops /\ Forall2 (den_astmt rho) (l_attrs ls) aopss /\
                          apply_edges eops (l_graph ls) = Some g1 /\ apply_attrs (concat aopss) g1 = Some (s_graph ss).
  Definition RelX (ss : sstate) (ls : lstate) : Prop := exists rho, Rel rho ss ls.

  Lemma Forall2_mono_l {A B} (R R' : A -> B -> Prop) l l' : (forall a b, R a b -> R' a b) -> Forall2 R l l' -> Forall2 R' l l'.
  Proof. intros H F. induction F; constructor; auto. Qed.

  (* an expression-level step keeps the invariant *)
  Lemma rel_step {A B} (Q : list value -> B -> A -> Prop) rho a ss ss' ls b ls' pl' :
    Rel rho ss ls -> epost Q rho a ss ss' ls b ls' pl' -> exists rho', prefix rho rho' /\ Rel rho' ss' ls' /\ Q rho' b a.
  Proof.
    intros (_ & Hsc & Hpr & eops & aopss & g1 & He & Ha & Hg1 & Hg2) (_ & [Sg _] & (F1 & F2 & F3 & F4 & F5) & rho' & Hp & HR' & HQ).
    exists rho'. split; [exact Hp|]. split; [|exact HQ]. split; [exact HR'|]. split; [congruence|]. split.
    - rewrite F4. eapply Forall_impl; [|exact Hpr]. intros st. apply print_ok_mono, Hp.
    - exists eops, aopss, g1. rewrite F1, F2, F3, Sg. split; [eapply Forall2_mono_l; [|exact He]; intros st e; apply den_edge_mono, Hp|].
      split; [eapply Forall2_mono_l; [|exact Ha]; intros st e; apply den_astmt_mono, Hp|]. auto.
  Qed.

  Lemma rel_length rho ss ls : Rel rho ss ls -> length (s_graph ss) = length (l_graph ls).
  Proof.
    intros (_ & _ & _ & eops & aopss & g1 & _ & _ & Hg1 & Hg2).
    rewrite (ofold_length _ apply_attr_length _ _ _ Hg2). apply (ofold_length _ apply_edge_length _ _ _ Hg1).
  Qed.

  (* ---------------- statement-level simulation and its closure properties ---------------- *)
  Definition xsim {A B} (Q : A -> B -> Prop) (ms : M sstate A) (ml : M lstate B) : Prop :=
    forall ss p a ss' p', ms ss p = Ok (a, ss', p') -> forall ls pl, RelX ss ls -> nob pl ->
      lres (ml ls pl) (fun b ls' pl' => nob pl' /\ RelX ss' ls' /\ Q a b).
  Definition anyQ {A B} : A -> B -> Prop := fun _ _ => True.
  Notation xsimU := (xsim (@anyQ unit unit)).

  Lemma xsim_ret {A B} (Q : A -> B -> Prop) a b : Q a b -> xsim Q (ret a) (ret b).
  Proof. intros HQ ss p a' ss' p' H ls pl HR Hb. apply ret_ok in H. destruct H as (-> & -> & ->). apply lres_ret. auto. Qed.
  Lemma xsim_bind {A B C D} (Q1 : A -> B -> Prop) (Q2 : C -> D -> Prop) ms ml fs fl' :
    xsim Q1 ms ml -> (forall a b, Q1 a b -> xsim Q2 (fs a) (fl' b)) -> xsim Q2 (bind ms fs) (bind ml fl').
  Proof.
    intros Hm Hf ss p c ss' p' H ls pl HR Hb. apply bind_ok in H. destruct H as (a & s1 & p1 & H1 & H2).
    apply lres_bind. eapply lres_mono; [apply (Hm _ _ _ _ _ H1 ls pl HR Hb)|]. intros b ls1 pl1 (Hb1 & HR1 & HQ).
    apply (Hf a b HQ _ _ _ _ _ H2 ls1 pl1 HR1 Hb1).
  Qed.
  Lemma xsim_weaken {A B} (Q Q' : A -> B -> Prop) ms ml : (forall a b, Q a b -> Q' a b) -> xsim Q ms ml -> xsim Q' ms ml.
  Proof. intros HQ Hm ss p a ss' p' H ls pl HR Hb. eapply lres_mono; [apply (Hm _ _ _ _ _ H ls pl HR Hb)|]. intros b ls' pl' (H1 & H2 & H3). auto. Qed.
  Lemma xsim_seq {A B} (Q : A -> B -> Prop) (ms : M sstate unit) (ml : M lstate unit) ks kl :
    xsimU ms ml -> xsim Q ks kl -> xsim Q (ms ;;; ks) (ml ;;; kl).
  Proof. intros H1 H2. eapply xsim_bind; [exact H1|]. intros _ _ _. exact H2. Qed.
  Lemma xsim_sctx {A B} (Q : A -> B -> Prop) c ms ml : xsim Q ms ml -> xsim Q (ctx_wrap c ms) ml.
  Proof. intros Hm ss p a ss' p' H. apply ctx_wrap_ok in H. apply (Hm _ _ _ _ _ H). Qed.
  Lemma xsim_lctx {A B} (Q : A -> B -> Prop) c ms ml : xsim Q ms ml -> xsim Q ms (ctx_wrap c ml).
  Proof. intros Hm ss p a ss' p' H ls pl HR Hb. apply lres_ctx. apply (Hm _ _ _ _ _ H ls pl HR Hb). Qed.
  Lemma xsim_spoll {A B} (Q : A -> B -> Prop) l ms ml : xsim Q ms ml -> xsim Q (poll l ;;; ms) ml.
  Proof.
    intros Hm ss p a ss' p' H. apply bind_ok in H. destruct H as (u & s1 & p1 & H1 & H2). apply poll_ok in H1. destruct H1 as (-> & -> & _).
    apply (Hm _ _ _ _ _ H2).
  Qed.
  Lemma xsim_lpoll {A B} (Q : A -> B -> Prop) l ms ml : xsim Q ms ml -> xsim Q ms (lpoll l ;;; ml).
  Proof.
    intros Hm ss p a ss' p' H ls pl HR Hb. apply lres_bind. unfold lpoll. apply lres_poll; [exact Hb|]. intros pl0 Hb0.
    apply (Hm _ _ _ _ _ H ls pl0 HR Hb0).
  Qed.
  Lemma lpoll_n_res n l ls pl : nob pl -> lres (lpoll_n n l ls pl) (fun _ ls' pl' => ls' = ls /\ nob pl').
  Proof.
    revert pl. induction n as [|n IH]; intros pl Hb; cbn [lpoll_n]; [apply lres_ret; auto|].
    apply lres_bind. unfold lpoll. apply lres_poll; [exact Hb|]. intros pl0 Hb0. apply IH, Hb0.
  Qed.
  Lemma xsim_lpoll_n {A B} (Q : A -> B -> Prop) n l ms ml : xsim Q ms ml -> xsim Q ms (lpoll_n n l ;;; ml).
  Proof.
    intros Hm ss p a ss' p' H ls pl HR Hb. apply lres_bind. eapply lres_mono; [apply lpoll_n_res, Hb|].
    intros _ ls0 pl0 [-> Hb0]. apply (Hm _ _ _ _ _ H ls pl0 HR Hb0).
  Qed.
  Lemma xsim_soof {A B} (Q : A -> B -> Prop) ml : xsim Q (@out_of_fuel sstate A) ml.
  Proof. intros ss p a ss' p' H. discriminate. Qed.
  Lemma xsim_spanic {A B} (Q : A -> B -> Prop) x ml : xsim Q (@panic sstate A x) ml.
  Proof. intros ss p a ss' p' H. discriminate. Qed.
  Lemma xsim_sfail {A B} (Q : A -> B -> Prop) e ml : xsim Q (@fail sstate A e) ml.
  Proof. intros ss p a ss' p' H. discriminate. Qed.
  Lemma xsim_loof {A B} (Q : A -> B -> Prop) ms : xsim Q ms (@out_of_fuel lstate B).
  Proof. intros ss p a ss' p' H ls pl HR Hb. exact I. Qed.
  Lemma xsim_lift {A} (r : res A) : xsim eq (lift r) (lift r).
  Proof. intros ss p a ss' p' H ls pl HR Hb. apply lift_ok in H. destruct H as (-> & -> & ->). cbn. auto. Qed.
  Lemma xsim_iter {X} (P : X -> Prop) (F : X -> M sstate unit) (F' : X -> M lstate unit) l :
    (forall x, P x -> xsimU (F x) (F' x)) -> All P l -> xsimU (iterM F l) (iterM F' l).
  Proof.
    intros HF. induction l as [|x l IH]; intros HP; cbn [iterM]; [apply xsim_ret; exact I|]. destruct HP as [Px HP].
    apply xsim_seq; [apply HF, Px|apply IH, HP].
  Qed.
  Lemma xsim_mapM {X A B} (Q : A -> B -> Prop) (P : X -> Prop) (F : X -> M sstate A) (F' : X -> M lstate B) l :
    (forall x, P x -> xsim Q (F x) (F' x)) -> All P l -> xsim (Forall2 Q) (mapM F l) (mapM F' l).
  Proof.
    intros HF. induction l as [|x l IH]; intros HP; cbn [mapM]; [apply xsim_ret; constructor|]. destruct HP as [Px HP].
    eapply xsim_bind; [apply HF, Px|]. intros a b Hab. eapply xsim_bind; [apply IH, HP|]. intros as_ bs Habs. apply xsim_ret. constructor; assumption.
  Qed.
  Lemma Forall2_eq {A} (l l' : list A) : Forall2 eq l l' -> l = l'.
  Proof. intros H. induction H; congruence. Qed.

  (* expression-level steps inside statements *)
  Lemma xsim_of_esim {A B} (Q : list value -> B -> A -> Prop) (Q' : A -> B -> Prop) ms ml :
    esim call Q ms ml -> (forall r b a, Q r b a -> Q' a b) -> xsim Q' ms ml.
  Proof.
    intros Hm HQ ss p a ss' p' H ls pl [rho HR] Hb. eapply lres_mono; [apply (Hm _ _ _ _ _ H rho ls pl (proj1 HR) Hb)|].
    intros b ls' pl' HP. destruct (rel_step Q rho a ss ss' ls b ls' pl' HR HP) as (rho' & _ & HR' & HQ'). split; [apply HP|]. split; [exists rho'; exact HR'|].
    apply (HQ _ _ _ HQ').
  Qed.

  Lemma xsim_eager fuel le ll e lf : fexpr' e -> env_rel' le ll -> xsim eq (eval' fuel le e) (leager t fl glob call lf ll e).
  Proof.
    intros Hf Henv ss p v ss' p' H ls pl [rho HR] Hb.
    eapply lres_mono; [apply (leager_sim t fl glob call okfn Hpure m fuel le ll e lf _ _ _ _ _ rho ls pl Hf Henv H (proj1 HR) Hb)|].
    intros v' ls' pl' (-> & HP). destruct (rel_step _ rho tt ss ss' ls tt ls' pl' HR HP) as (rho' & _ & HR' & _).
    split; [apply HP|]. split; [exists rho'; exact HR'|reflexivity].
  Qed.

  Lemma rel_set_locals rho ss ls x y : Rel rho ss ls -> locals_rel call rho x y -> Rel rho (sset_locals x ss) (lset_locals y ls).
  Proof. intros ([A1 A2] & B) H. split; [split; [exact A1|exact H]|exact B]. Qed.

  Lemma xsim_push_frame : xsimU push_frame lpush_frame.
  Proof.
    intros ss p u ss' p' H ls pl [rho HR] Hb. rewrite push_frame_eq in H. inversion H; subst. rewrite lpush_frame_eq. cbn [lres].
    split; [exact Hb|]. split; [|exact I]. exists rho. apply rel_set_locals; [exact HR|]. constructor; [constructor|apply HR].
  Qed.
  Lemma xsim_clear_frame : xsimU clear_frame lclear_frame.
  Proof.
    intros ss p u ss' p' H ls pl [rho HR] Hb. rewrite clear_frame_eq in H. inversion H; subst. rewrite lclear_frame_eq. cbn [lres].
    split; [exact Hb|]. split; [|exact I]. exists rho. apply rel_set_locals; [exact HR|]. apply locals_clear, HR.
  Qed.
  Lemma xsim_pop_frame : xsimU pop_frame lpop_frame.
  Proof.
    intros ss p u ss' p' H ls pl [rho HR] Hb. apply pop_frame_ok in H. destruct H as (f & up & El & -> & ->).
    eapply lres_mono; [apply (lpop_frame_sim call rho ss ls pl f up (proj1 HR) El Hb)|]. intros [] ls' pl' HP.
    destruct (rel_step _ rho tt ss _ ls tt ls' pl' HR HP) as (rho' & _ & HR' & _). split; [apply HP|]. split; [exists rho'; exact HR'|exact I].
  Qed.

  (* a loop variable / `let` / `var` / `set` *)
  Lemma xsim_unscoped_add ll name v mu : xsimU (unscoped_add glob name v mu) (lunscoped_add glob ll name (LValue v) mu).
  Proof.
    intros ss p u ss' p' H ls pl [rho HR] Hb.
    eapply lres_mono; [apply (unscoped_add_sim glob call ll name v (LValue v) mu _ _ _ _ _ rho ls pl H (proj1 HR) (den_value call rho v) Hb)|].
    intros [] ls' pl' HP. destruct (rel_step _ rho tt ss ss' ls tt ls' pl' HR HP) as (rho' & _ & HR' & _).
    split; [apply HP|]. split; [exists rho'; exact HR'|exact I].
  Qed.
  Lemma xsim_bind_var fuel le ll e lf name mu : fexpr' e -> env_rel' le ll ->
    xsimU (x <- eval' fuel le e ;; unscoped_add glob name x mu) (x <- leval' lf ll e ;; lunscoped_add glob ll name x mu).
  Proof.
    intros Hf Henv ss p u ss' p' H ls pl [rho HR] Hb. apply bind_ok in H. destruct H as (x & s1 & p1 & H1 & H2).
    apply lres_bind. eapply lres_mono; [apply (eval_sim t fl glob call okfn Hpure m fuel le ll e Hf Henv lf _ _ _ _ _ H1 rho ls pl (proj1 HR) Hb)|].
    intros lv ls1 pl1 HP1. destruct (rel_step _ rho x ss s1 ls lv ls1 pl1 HR HP1) as (rho1 & _ & HR1 & Hd).
    eapply lres_mono; [apply (unscoped_add_sim glob call ll name x lv mu _ _ _ _ _ rho1 ls1 pl1 H2 (proj1 HR1) Hd (proj1 HP1))|].
    intros [] ls' pl' HP. destruct (rel_step _ rho1 tt s1 ss' ls1 tt ls' pl' HR1 HP) as (rho' & _ & HR' & _).
    split; [apply HP|]. split; [exists rho'; exact HR'|exact I].
  Qed.
  Lemma xsim_set_var fuel le ll e lf name : fexpr' e -> env_rel' le ll ->
    xsimU (x <- eval' fuel le e ;; unscoped_set glob name x) (x <- leval' lf ll e ;; lunscoped_set glob ll name x).
  Proof.
    intros Hf Henv ss p u ss' p' H ls pl [rho HR] Hb. apply bind_ok in H. destruct H as (x & s1 & p1 & H1 & H2).
    apply lres_bind. eapply lres_mono; [apply (eval_sim t fl glob call okfn Hpure m fuel le ll e Hf Henv lf _ _ _ _ _ H1 rho ls pl (proj1 HR) Hb)|].
    intros lv ls1 pl1 HP1. destruct (rel_step _ rho x ss s1 ls lv ls1 pl1 HR HP1) as (rho1 & _ & HR1 & Hd).
    eapply lres_mono; [apply (unscoped_set_sim glob call ll name x lv _ _ _ _ _ rho1 ls1 pl1 H2 (proj1 HR1) Hd (proj1 HP1))|].
    intros [] ls' pl' HP. destruct (rel_step _ rho1 tt s1 ss' ls1 tt ls' pl' HR1 HP) as (rho' & _ & HR' & _).
    split; [apply HP|]. split; [exists rho'; exact HR'|exact I].
  Qed.
End Stmt.
