(* Proofs/SLStmt.v — C02 (strict/lazy whole-run simulation), part 4: attributes, statements, stanzas.
   The execution-phase invariant `Rel`: the lazy interpreter's graph is the skeleton (nodes only); its
   pending edge statements denote a list of edge insertions E, its pending attribute statements denote
   a list of attribute insertions A, and the strict interpreter's graph is the skeleton with E and then A
   applied.  Statement by statement, strict success implies that the lazy execution keeps the invariant
   (or runs out of fuel). *)
From TSG Require Import Model.Lazy Proofs.BaseFacts Proofs.Containers Proofs.MonadFacts Proofs.SLGraph Proofs.SLForce Proofs.SLExpr Proofs.SLConv.

Definition mk (tgt : target) (kv : ident * value) : aop :=
  match tgt with TNode n => AN n (fst kv) (snd kv) | TEdge a b => AE a b (fst kv) (snd kv) end.

Lemma add_attr_ok tgt k v s p u s' p' : add_attr tgt k v s p = Ok (u, s', p') ->
  apply_attr (mk tgt (k, v)) (s_graph s) = Some (s_graph s') /\ s_locals s' = s_locals s /\ s_params s' = s_params s.
Proof.
  unfold add_attr, bind, get_state. destruct tgt as [n|a b]; cbn [mk apply_attr fst snd].
  - destruct (gnode_at (s_graph s) n) as [nd|]; [|discriminate]. destruct (attrs_add (g_attrs nd) k v) as [m' [c|]]; [discriminate|].
    unfold set_graph, modify. intros H; inversion H; subst. auto.
  - destruct (gnode_at (s_graph s) a) as [nd|]; [|discriminate]. destruct (edges_get b (g_edges nd)) as [m0|]; [|discriminate].
    destruct (attrs_add m0 k v) as [m' [c|]]; [discriminate|]. unfold set_graph, modify. intros H; inversion H; subst. auto.
Qed.

Section Stmt.
  Context {rx : Type}.
  Variables (t : tree) (fl : file) (glob : globals) (regexes : list rx)
            (find : rx -> str -> option (list (option (N * N))))
            (call : ident -> graph -> list value -> res (value * graph)).
  Variable okfn : ident -> Prop.
  Hypothesis Hpure : forall f, okfn f -> pure_fn call f.
  Variable m : qmatch.

  Notation den := (den call).
  Notation Renv := (Renv call).
  Notation epost := (epost call).
  Notation fexpr' := (fexpr okfn m).
  Notation fattr' := (fattr okfn m).
  Notation fstmt' := (fstmt okfn m).
  Notation env_rel' := (env_rel m).

  (* shorthand bodies are in the fragment too *)
  Hypothesis Hsh : Forall (fun sh => All fattr' (sh_attrs sh)) (f_shorthands fl).

  (* ---------------- attributes ---------------- *)
  Definition den_attrs (rho : list value) (out : list (ident * lvalue)) (kvs : list (ident * value)) : Prop :=
    Forall2 (fun x y => fst x = fst y /\ den rho (snd x) (snd y)) out kvs.
  Lemma den_attrs_mono rho rho' out kvs : prefix rho rho' -> den_attrs rho out kvs -> den_attrs rho' out kvs.
  Proof. intros Hp H. induction H as [|x y l l' [H1 H2] _ IH]; constructor; [|exact IH]. split; [exact H1|eapply den_mono; eauto]. Qed.

  (* strict added the attributes kvs to the target; lazy returned lazy attributes that denote kvs *)
  Definition apost (rho : list value) (tgt : target) (ss ss' : sstate) (ls : lstate) : list (ident * lvalue) -> lstate -> polls -> Prop :=
    fun out ls' pl' => nob pl' /\ lframe ls ls' /\ exists rho' kvs, prefix rho rho' /\ Renv rho' ss' ls' /\ den_attrs rho' out kvs /\
                         apply_attrs (map (mk tgt) kvs) (s_graph ss) = Some (s_graph ss').
  Definition asim (tgt : target) (ms : M sstate unit) (ml : M lstate (list (ident * lvalue))) : Prop :=
    forall ss p u ss' p', ms ss p = Ok (u, ss', p') -> forall rho ls pl, Renv rho ss ls -> nob pl -> lres (ml ls pl) (apost rho tgt ss ss' ls).

  Lemma attrs_sim tgt (exa : attr -> M sstate unit) (lexa : attr -> M lstate (list (ident * lvalue))) :
    forall attrs, (forall a, In a attrs -> asim tgt (exa a) (lexa a)) ->
    forall ss p u ss' p', iterM exa attrs ss p = Ok (u, ss', p') -> forall rho ls pl, Renv rho ss ls -> nob pl ->
      lres (mapM lexa attrs ls pl) (fun outs ls' pl' => apost rho tgt ss ss' ls (concat outs) ls' pl').
  Proof.
    induction attrs as [|a attrs IH]; intros Ha ss p u ss' p' H rho ls pl HR Hb; cbn [iterM mapM] in *.
    - apply ret_ok in H. destruct H as (-> & -> & ->). apply lres_ret. split; [exact Hb|]. split; [apply lframe_refl|].
      exists rho, []. split; [apply prefix_refl|]. split; [exact HR|]. split; [constructor|reflexivity].
    - apply bind_ok in H. destruct H as (u1 & s1 & p1 & H1 & H2).
      apply lres_bind. eapply lres_mono; [apply (Ha a (or_introl eq_refl) _ _ _ _ _ H1 rho ls pl HR Hb)|].
      intros o1 ls1 pl1 (Hb1 & Hf1 & rho1 & kvs1 & Hp1 & HR1 & Hd1 & Hg1).
      apply lres_bind. eapply lres_mono; [apply (IH (fun a0 Hin => Ha a0 (or_intror Hin)) _ _ _ _ _ H2 rho1 ls1 pl1 HR1 Hb1)|].
      intros outs ls2 pl2 (Hb2 & Hf2 & rho2 & kvs2 & Hp2 & HR2 & Hd2 & Hg2). apply lres_ret.
      split; [exact Hb2|]. split; [eapply lframe_trans; eauto|]. exists rho2, (kvs1 ++ kvs2). split; [eapply prefix_trans; eauto|].
      split; [exact HR2|]. split.
      + cbn [concat]. apply Forall2_app; [eapply den_attrs_mono; eauto|exact Hd2].
      + rewrite map_app. eapply ofold_app_ok; eauto.
  Qed.

  Notation eval' := (eval t fl glob call).
  Notation leval' := (leval t fl glob call).
  Notation exec_attr' := (exec_attr t fl glob call).
  Notation lexec_attr' := (lexec_attr t fl glob call).

  Lemma attr_sim : forall fuel le ll tgt a, fattr' a -> env_rel' le ll -> forall lf, asim tgt (exec_attr' fuel le tgt a) (lexec_attr' lf ll a).
  Proof.
    induction fuel as [|fuel IH]; intros le ll tgt a Hf Henv lf ss p u ss' p' H rho ls pl HR Hb; [discriminate|].
    destruct lf as [|lf]; [exact I|]. destruct a as [name value]. cbn [exec_attr] in H. cbn [lexec_attr fattr] in *.
    apply bind_ok in H. destruct H as (u0 & s0 & p0 & H0 & H). apply poll_ok in H0. destruct H0 as (-> & -> & _).
    apply bind_ok in H. destruct H as (v & s1 & p1 & H1 & H).
    apply lres_bind. apply lres_poll; [exact Hb|]. intros pl0 Hb0.
    apply lres_bind. eapply lres_mono; [apply (eval_sim t fl glob call okfn Hpure m fuel le ll value Hf Henv lf _ _ _ _ _ H1 rho ls pl0 HR Hb0)|].
    intros lv ls1 pl1 (Hb1 & [Sg1 Sp1] & Hf1 & rho1 & Hp1 & HR1 & Hd1).
    destruct (find_shorthand name (f_shorthands fl)) as [sh|] eqn:Esh.
    - (* shorthand: fresh variable map, expand, restore *)
      apply bind_ok in H. destruct H as (sg & s1' & p1' & G & H). apply get_ok in G. destruct G as (-> & -> & ->).
      apply bind_ok in H. destruct H as (u2 & s2 & p2 & H2 & H). rewrite set_locals_eq in H2. inversion H2; subst; clear H2.
      apply bind_ok in H. destruct H as (u3 & s3 & p3 & H3 & H). apply bind_ok in H. destruct H as (u4 & s4 & p4 & H4 & H5).
      rewrite set_locals_eq in H5. inversion H5; subst; clear H5.
      apply lres_get. apply lres_bind. rewrite set_llocals_eq. cbn [lres].
      assert (HR2 : Renv rho1 (sset_locals [[]] s1) (lset_locals [[]] ls1)).
      { destruct HR1 as [A1 A2]. split; [exact A1|]. constructor; [constructor|constructor]. }
      apply lres_bind. eapply lres_mono; [apply (unscoped_add_sim glob call ll (sh_var sh) v lv false _ _ _ _ _ rho1 _ pl1 H3 HR2 Hd1 Hb1)|].
      intros _ ls3 pl3 (Hb3 & [Sg3 Sp3] & Hf3 & rho3 & Hp3 & HR3 & _).
      assert (Hin : forall a0, In a0 (sh_attrs sh) -> asim tgt (exec_attr' fuel le tgt a0) (lexec_attr' lf ll a0)).
      { intros a0 Hin0. apply IH; [|exact Henv]. rewrite Forall_forall in Hsh. apply (All_In _ _ _ (Hsh sh (find_shorthand_In _ _ _ Esh)) Hin0). }
      apply lres_bind. eapply lres_mono; [apply (attrs_sim tgt _ _ (sh_attrs sh) Hin _ _ _ _ _ H4 rho3 ls3 pl3 HR3 Hb3)|].
      intros outs ls4 pl4 (Hb4 & Hf4 & rho4 & kvs & Hp4 & HR4 & Hd4 & Hg4).
      apply lres_bind. rewrite set_llocals_eq. cbn [lres]. split; [exact Hb4|].
      split; [eapply lframe_trans; [exact Hf1|]; eapply lframe_trans; [apply lframe_set_locals|]; eapply lframe_trans; [exact Hf3|]; eapply lframe_trans; [exact Hf4|apply lframe_set_locals]|].
      exists rho4, kvs. split; [eapply prefix_trans; [exact Hp1|]; eapply prefix_trans; [exact Hp3|exact Hp4]|]. split.
      + destruct HR4 as [A1 _]. destruct HR1 as [_ A2]. split; [exact A1|]. cbn [sset_locals lset_locals s_locals l_locals].
        eapply locals_rel_mono; [|exact A2]. eapply prefix_trans; eauto.
      + split; [exact Hd4|]. cbn [sset_locals s_graph] in *. rewrite <- Sg1, <- Sg3. exact Hg4.
    - (* plain attribute *)
      destruct (add_attr_ok _ _ _ _ _ _ _ _ H) as (Hg & Hl & Hps). apply lres_ret. split; [exact Hb1|]. split; [exact Hf1|].
      exists rho1, [(name, v)]. split; [exact Hp1|]. split; [eapply Renv_locals; [exact HR1|exact Hl|reflexivity|reflexivity]|].
      split; [constructor; [split; [reflexivity|exact Hd1]|constructor]|]. cbn [map ofold]. rewrite <- Sg1, Hg. reflexivity.
  Qed.

  (* ---------------- the execution-phase invariant ---------------- *)
  Definition den_edge (rho : list value) (st : lstmt) (e : N * N) : Prop :=
    exists a b dbg, st = LSEdge a b [] dbg /\ den rho a (VGraph (fst e)) /\ den rho b (VGraph (snd e)).
  Definition den_astmt (rho : list value) (st : lstmt) (ops : list aop) : Prop :=
    match st with
    | LSAttrNode n attrs _ => exists x kvs, den rho n (VGraph x) /\ den_attrs rho attrs kvs /\ ops = map (mk (TNode x)) kvs
    | LSAttrEdge a b attrs _ => exists x y kvs, den rho a (VGraph x) /\ den rho b (VGraph y) /\ den_attrs rho attrs kvs /\ ops = map (mk (TEdge x y)) kvs
    | _ => False
    end.
  Definition print_ok (rho : list value) (st : lstmt) : Prop :=
    match st with
    | LSPrint args _ => Forall (fun a => match a with Some lv => exists v, den rho lv v | None => True end) args
    | _ => False
    end.
  Lemma den_edge_mono rho rho' st e : prefix rho rho' -> den_edge rho st e -> den_edge rho' st e.
  Proof. intros Hp (a & b & dbg & E & Ha & Hb). exists a, b, dbg. split; [exact E|]. split; eapply den_mono; eauto. Qed.
  Lemma den_astmt_mono rho rho' st ops : prefix rho rho' -> den_astmt rho st ops -> den_astmt rho' st ops.
  Proof.
    intros Hp. destruct st; cbn [den_astmt]; try tauto.
    - intros (x & kvs & H1 & H2 & H3). exists x, kvs. split; [eapply den_mono; eauto|]. split; [eapply den_attrs_mono; eauto|exact H3].
    - intros (x & y & kvs & H1 & H1' & H2 & H3). exists x, y, kvs. split; [eapply den_mono; eauto|]. split; [eapply den_mono; eauto|].
      split; [eapply den_attrs_mono; eauto|exact H3].
  Qed.
  Lemma print_ok_mono rho rho' st : prefix rho rho' -> print_ok rho st -> print_ok rho' st.
  Proof.
    intros Hp. destruct st; cbn [print_ok]; try tauto. intros H. eapply Forall_impl; [|exact H]. intros [lv|]; [|auto].
    intros [v Hv]. exists v. eapply den_mono; eauto.
  Qed.

  Definition Rel (rho : list value) (ss : sstate) (ls : lstate) : Prop :=
    Renv rho ss ls /\ l_scoped ls = [] /\ Forall (print_ok rho) (l_prints ls) /\
    exists eops aopss g1, Forall2 (den_edge rho) (l_edges ls) eops /\ Forall2 (den_astmt rho) (l_attrs ls) aopss /\
                          apply_edges eops (l_graph ls) = Some g1 /\ apply_attrs (concat aopss) g1 = Some (s_graph ss).
  Definition RelX (ss : sstate) (ls : lstate) : Prop := exists rho, Rel rho ss ls.

  Lemma Forall2_mono_l {A B} (R R' : A -> B -> Prop) l l' : (forall a b, R a b -> R' a b) -> Forall2 R l l' -> Forall2 R' l l'.
  Proof. intros H F. induction F; constructor; auto. Qed.

  (* an expression-level step keeps the invariant *)
  Lemma rel_step {A B} (Q : list value -> B -> A -> Prop) rho a ss ss' ls b ls' pl' :
    Rel rho ss ls -> epost Q rho a ss ss' ls b ls' pl' -> exists rho', prefix rho rho' /\ Rel rho' ss' ls' /\ Q rho' b a.
  Proof.
    intros (_ & Hsc & Hpr & eops & aopss & g1 & He & Ha & Hg1 & Hg2) (_ & [Sg _] & (F1 & F2 & F3 & F4 & F5) & rho' & Hp & HR' & HQ).
    exists rho'. split; [exact Hp|]. split; [|exact HQ]. split; [exact HR'|]. split; [congruence|]. split.
    - rewrite F4. eapply Forall_impl; [|exact Hpr]. intros st. apply print_ok_mono, Hp.
    - exists eops, aopss, g1. rewrite F1, F2, F3, Sg. split; [eapply Forall2_mono_l; [|exact He]; intros st e; apply den_edge_mono, Hp|].
      split; [eapply Forall2_mono_l; [|exact Ha]; intros st e; apply den_astmt_mono, Hp|]. auto.
  Qed.

  Lemma rel_length rho ss ls : Rel rho ss ls -> length (s_graph ss) = length (l_graph ls).
  Proof.
    intros (_ & _ & _ & eops & aopss & g1 & _ & _ & Hg1 & Hg2).
    rewrite (ofold_length _ apply_attr_length _ _ _ Hg2). apply (ofold_length _ apply_edge_length _ _ _ Hg1).
  Qed.

  (* ---------------- statement-level simulation and its closure properties ---------------- *)
  Definition xsim {A B} (Q : A -> B -> Prop) (ms : M sstate A) (ml : M lstate B) : Prop :=
    forall ss p a ss' p', ms ss p = Ok (a, ss', p') -> forall ls pl, RelX ss ls -> nob pl ->
      lres (ml ls pl) (fun b ls' pl' => nob pl' /\ RelX ss' ls' /\ Q a b).
  Definition anyQ {A B} : A -> B -> Prop := fun _ _ => True.
  Notation xsimU := (xsim (@anyQ unit unit)).

  Lemma xsim_ret {A B} (Q : A -> B -> Prop) a b : Q a b -> xsim Q (ret a) (ret b).
  Proof. intros HQ ss p a' ss' p' H ls pl HR Hb. apply ret_ok in H. destruct H as (-> & -> & ->). apply lres_ret. auto. Qed.
  Lemma xsim_bind {A B C D} (Q1 : A -> B -> Prop) (Q2 : C -> D -> Prop) ms ml fs fl' :
    xsim Q1 ms ml -> (forall a b, Q1 a b -> xsim Q2 (fs a) (fl' b)) -> xsim Q2 (bind ms fs) (bind ml fl').
  Proof.
    intros Hm Hf ss p c ss' p' H ls pl HR Hb. apply bind_ok in H. destruct H as (a & s1 & p1 & H1 & H2).
    apply lres_bind. eapply lres_mono; [apply (Hm _ _ _ _ _ H1 ls pl HR Hb)|]. intros b ls1 pl1 (Hb1 & HR1 & HQ).
    apply (Hf a b HQ _ _ _ _ _ H2 ls1 pl1 HR1 Hb1).
  Qed.
  Lemma xsim_weaken {A B} (Q Q' : A -> B -> Prop) ms ml : (forall a b, Q a b -> Q' a b) -> xsim Q ms ml -> xsim Q' ms ml.
  Proof. intros HQ Hm ss p a ss' p' H ls pl HR Hb. eapply lres_mono; [apply (Hm _ _ _ _ _ H ls pl HR Hb)|]. intros b ls' pl' (H1 & H2 & H3). auto. Qed.
  Lemma xsim_seq {A B} (Q : A -> B -> Prop) (ms : M sstate unit) (ml : M lstate unit) ks kl :
    xsimU ms ml -> xsim Q ks kl -> xsim Q (ms ;;; ks) (ml ;;; kl).
  Proof. intros H1 H2. eapply xsim_bind; [exact H1|]. intros _ _ _. exact H2. Qed.
  Lemma xsim_sctx {A B} (Q : A -> B -> Prop) c ms ml : xsim Q ms ml -> xsim Q (ctx_wrap c ms) ml.
  Proof. intros Hm ss p a ss' p' H. apply ctx_wrap_ok in H. apply (Hm _ _ _ _ _ H). Qed.
  Lemma xsim_lctx {A B} (Q : A -> B -> Prop) c ms ml : xsim Q ms ml -> xsim Q ms (ctx_wrap c ml).
  Proof. intros Hm ss p a ss' p' H ls pl HR Hb. apply lres_ctx. apply (Hm _ _ _ _ _ H ls pl HR Hb). Qed.
  Lemma xsim_spoll {A B} (Q : A -> B -> Prop) l ms ml : xsim Q ms ml -> xsim Q (poll l ;;; ms) ml.
  Proof.
    intros Hm ss p a ss' p' H. apply bind_ok in H. destruct H as (u & s1 & p1 & H1 & H2). apply poll_ok in H1. destruct H1 as (-> & -> & _).
    apply (Hm _ _ _ _ _ H2).
  Qed.
  Lemma xsim_lpoll {A B} (Q : A -> B -> Prop) l ms ml : xsim Q ms ml -> xsim Q ms (lpoll l ;;; ml).
  Proof.
    intros Hm ss p a ss' p' H ls pl HR Hb. apply lres_bind. unfold lpoll. apply lres_poll; [exact Hb|]. intros pl0 Hb0.
    apply (Hm _ _ _ _ _ H ls pl0 HR Hb0).
  Qed.
  Lemma lpoll_n_res n l ls pl : nob pl -> lres (lpoll_n n l ls pl) (fun _ ls' pl' => ls' = ls /\ nob pl').
  Proof.
    revert pl. induction n as [|n IH]; intros pl Hb; cbn [lpoll_n]; [apply lres_ret; auto|].
    apply lres_bind. unfold lpoll. apply lres_poll; [exact Hb|]. intros pl0 Hb0. apply IH, Hb0.
  Qed.
  Lemma xsim_lpoll_n {A B} (Q : A -> B -> Prop) n l ms ml : xsim Q ms ml -> xsim Q ms (lpoll_n n l ;;; ml).
  Proof.
    intros Hm ss p a ss' p' H ls pl HR Hb. apply lres_bind. eapply lres_mono; [apply lpoll_n_res, Hb|].
    intros _ ls0 pl0 [-> Hb0]. apply (Hm _ _ _ _ _ H ls pl0 HR Hb0).
  Qed.
  Lemma xsim_soof {A B} (Q : A -> B -> Prop) ml : xsim Q (@out_of_fuel sstate A) ml.
  Proof. intros ss p a ss' p' H. discriminate. Qed.
  Lemma xsim_spanic {A B} (Q : A -> B -> Prop) x ml : xsim Q (@panic sstate A x) ml.
  Proof. intros ss p a ss' p' H. discriminate. Qed.
  Lemma xsim_sfail {A B} (Q : A -> B -> Prop) e ml : xsim Q (@fail sstate A e) ml.
  Proof. intros ss p a ss' p' H. discriminate. Qed.
  Lemma xsim_loof {A B} (Q : A -> B -> Prop) ms : xsim Q ms (@out_of_fuel lstate B).
  Proof. intros ss p a ss' p' H ls pl HR Hb. exact I. Qed.
  Lemma xsim_lift {A} (r : res A) : xsim eq (lift r) (lift r).
  Proof. intros ss p a ss' p' H ls pl HR Hb. apply lift_ok in H. destruct H as (-> & -> & ->). cbn. auto. Qed.
  Lemma xsim_iter {X} (P : X -> Prop) (F : X -> M sstate unit) (F' : X -> M lstate unit) l :
    (forall x, P x -> xsimU (F x) (F' x)) -> All P l -> xsimU (iterM F l) (iterM F' l).
  Proof.
    intros HF. induction l as [|x l IH]; intros HP; cbn [iterM]; [apply xsim_ret; exact I|]. destruct HP as [Px HP].
    apply xsim_seq; [apply HF, Px|apply IH, HP].
  Qed.
  Lemma xsim_mapM {X A B} (Q : A -> B -> Prop) (P : X -> Prop) (F : X -> M sstate A) (F' : X -> M lstate B) l :
    (forall x, P x -> xsim Q (F x) (F' x)) -> All P l -> xsim (Forall2 Q) (mapM F l) (mapM F' l).
  Proof.
    intros HF. induction l as [|x l IH]; intros HP; cbn [mapM]; [apply xsim_ret; constructor|]. destruct HP as [Px HP].
    eapply xsim_bind; [apply HF, Px|]. intros a b Hab. eapply xsim_bind; [apply IH, HP|]. intros as_ bs Habs. apply xsim_ret. constructor; assumption.
  Qed.
  Lemma Forall2_eq {A} (l l' : list A) : Forall2 eq l l' -> l = l'.
  Proof. intros H. induction H; congruence. Qed.

  (* expression-level steps inside statements *)
  Lemma xsim_of_esim {A B} (Q : list value -> B -> A -> Prop) (Q' : A -> B -> Prop) ms ml :
    esim call Q ms ml -> (forall r b a, Q r b a -> Q' a b) -> xsim Q' ms ml.
  Proof.
    intros Hm HQ ss p a ss' p' H ls pl [rho HR] Hb. eapply lres_mono; [apply (Hm _ _ _ _ _ H rho ls pl (proj1 HR) Hb)|].
    intros b ls' pl' HP. destruct (rel_step Q rho a ss ss' ls b ls' pl' HR HP) as (rho' & _ & HR' & HQ'). split; [apply HP|]. split; [exists rho'; exact HR'|].
    apply (HQ _ _ _ HQ').
  Qed.

  Lemma xsim_eager fuel le ll e lf : fexpr' e -> env_rel' le ll -> xsim eq (eval' fuel le e) (leager t fl glob call lf ll e).
  Proof.
    intros Hf Henv ss p v ss' p' H ls pl [rho HR] Hb.
    eapply lres_mono; [apply (leager_sim t fl glob call okfn Hpure m fuel le ll e lf _ _ _ _ _ rho ls pl Hf Henv H (proj1 HR) Hb)|].
    intros v' ls' pl' (-> & HP). destruct (rel_step _ rho tt ss ss' ls tt ls' pl' HR HP) as (rho' & _ & HR' & _).
    split; [apply HP|]. split; [exists rho'; exact HR'|reflexivity].
  Qed.

  Lemma rel_set_locals rho ss ls x y : Rel rho ss ls -> locals_rel call rho x y -> Rel rho (sset_locals x ss) (lset_locals y ls).
  Proof. intros ([A1 A2] & B) H. split; [split; [exact A1|exact H]|exact B]. Qed.

  Lemma xsim_push_frame : xsimU push_frame lpush_frame.
  Proof.
    intros ss p u ss' p' H ls pl [rho HR] Hb. rewrite push_frame_eq in H. inversion H; subst. rewrite lpush_frame_eq. cbn [lres].
    split; [exact Hb|]. split; [|exact I]. exists rho. apply rel_set_locals; [exact HR|]. constructor; [constructor|apply HR].
  Qed.
  Lemma xsim_clear_frame : xsimU clear_frame lclear_frame.
  Proof.
    intros ss p u ss' p' H ls pl [rho HR] Hb. rewrite clear_frame_eq in H. inversion H; subst. rewrite lclear_frame_eq. cbn [lres].
    split; [exact Hb|]. split; [|exact I]. exists rho. apply rel_set_locals; [exact HR|]. apply locals_clear, HR.
  Qed.
  Lemma xsim_pop_frame : xsimU pop_frame lpop_frame.
  Proof.
    intros ss p u ss' p' H ls pl [rho HR] Hb. apply pop_frame_ok in H. destruct H as (f & up & El & -> & ->).
    eapply lres_mono; [apply (lpop_frame_sim call rho ss ls pl f up (proj1 HR) El Hb)|]. intros [] ls' pl' HP.
    destruct (rel_step _ rho tt ss _ ls tt ls' pl' HR HP) as (rho' & _ & HR' & _). split; [apply HP|]. split; [exists rho'; exact HR'|exact I].
  Qed.

  (* a loop variable / `let` / `var` / `set` *)
  Lemma xsim_unscoped_add ll name v mu : xsimU (unscoped_add glob name v mu) (lunscoped_add glob ll name (LValue v) mu).
  Proof.
    intros ss p u ss' p' H ls pl [rho HR] Hb.
    eapply lres_mono; [apply (unscoped_add_sim glob call ll name v (LValue v) mu _ _ _ _ _ rho ls pl H (proj1 HR) (den_value call rho v) Hb)|].
    intros [] ls' pl' HP. destruct (rel_step _ rho tt ss ss' ls tt ls' pl' HR HP) as (rho' & _ & HR' & _).
    split; [apply HP|]. split; [exists rho'; exact HR'|exact I].
  Qed.
  Lemma xsim_bind_var fuel le ll e lf name mu : fexpr' e -> env_rel' le ll ->
    xsimU (x <- eval' fuel le e ;; unscoped_add glob name x mu) (x <- leval' lf ll e ;; lunscoped_add glob ll name x mu).
  Proof.
    intros Hf Henv ss p u ss' p' H ls pl [rho HR] Hb. apply bind_ok in H. destruct H as (x & s1 & p1 & H1 & H2).
    apply lres_bind. eapply lres_mono; [apply (eval_sim t fl glob call okfn Hpure m fuel le ll e Hf Henv lf _ _ _ _ _ H1 rho ls pl (proj1 HR) Hb)|].
    intros lv ls1 pl1 HP1. destruct (rel_step _ rho x ss s1 ls lv ls1 pl1 HR HP1) as (rho1 & _ & HR1 & Hd).
    eapply lres_mono; [apply (unscoped_add_sim glob call ll name x lv mu _ _ _ _ _ rho1 ls1 pl1 H2 (proj1 HR1) Hd (proj1 HP1))|].
    intros [] ls' pl' HP. destruct (rel_step _ rho1 tt s1 ss' ls1 tt ls' pl' HR1 HP) as (rho' & _ & HR' & _).
    split; [apply HP|]. split; [exists rho'; exact HR'|exact I].
  Qed.
  Lemma xsim_set_var fuel le ll e lf name : fexpr' e -> env_rel' le ll ->
    xsimU (x <- eval' fuel le e ;; unscoped_set glob name x) (x <- leval' lf ll e ;; lunscoped_set glob ll name x).
  Proof.
    intros Hf Henv ss p u ss' p' H ls pl [rho HR] Hb. apply bind_ok in H. destruct H as (x & s1 & p1 & H1 & H2).
    apply lres_bind. eapply lres_mono; [apply (eval_sim t fl glob call okfn Hpure m fuel le ll e Hf Henv lf _ _ _ _ _ H1 rho ls pl (proj1 HR) Hb)|].
    intros lv ls1 pl1 HP1. destruct (rel_step _ rho x ss s1 ls lv ls1 pl1 HR HP1) as (rho1 & _ & HR1 & Hd).
    eapply lres_mono; [apply (unscoped_set_sim glob call ll name x lv _ _ _ _ _ rho1 ls1 pl1 H2 (proj1 HR1) Hd (proj1 HP1))|].
    intros [] ls' pl' HP. destruct (rel_step _ rho1 tt s1 ss' ls1 tt ls' pl' HR1 HP) as (rho' & _ & HR' & _).
    split; [apply HP|]. split; [exists rho'; exact HR'|exact I].
  Qed.

  (* ---------------- graph statements ---------------- *)
  Definition lset_graph (g : graph) (s : lstate) : lstate :=
    {| l_graph := g; l_locals := l_locals s; l_store := l_store s; l_scoped := l_scoped s; l_edges := l_edges s;
       l_attrs := l_attrs s; l_prints := l_prints s; l_params := l_params s; l_prev := l_prev s |}.
  Definition lpush_edge (st : lstmt) (s : lstate) : lstate :=
    {| l_graph := l_graph s; l_locals := l_locals s; l_store := l_store s; l_scoped := l_scoped s; l_edges := l_edges s ++ [st];
       l_attrs := l_attrs s; l_prints := l_prints s; l_params := l_params s; l_prev := l_prev s |}.
  Definition lpush_attr (st : lstmt) (s : lstate) : lstate :=
    {| l_graph := l_graph s; l_locals := l_locals s; l_store := l_store s; l_scoped := l_scoped s; l_edges := l_edges s;
       l_attrs := l_attrs s ++ [st]; l_prints := l_prints s; l_params := l_params s; l_prev := l_prev s |}.
  Definition lpush_print (st : lstmt) (s : lstate) : lstate :=
    {| l_graph := l_graph s; l_locals := l_locals s; l_store := l_store s; l_scoped := l_scoped s; l_edges := l_edges s;
       l_attrs := l_attrs s; l_prints := l_prints s ++ [st]; l_params := l_params s; l_prev := l_prev s |}.

  Lemma add_node_eq s p : add_node s p = Ok (N.of_nat (length (s_graph s)), sset_graph (s_graph s ++ [new_gnode]) s, p).
  Proof. reflexivity. Qed.
  Lemma ladd_node_eq s p : ladd_node s p = Ok (N.of_nat (length (l_graph s)), lset_graph (l_graph s ++ [new_gnode]) s, p).
  Proof. reflexivity. Qed.

  (* `node`: same index in both modes; the pending operations are not affected *)
  Lemma xsim_add_node : xsim eq add_node ladd_node.
  Proof.
    intros ss p n ss' p' H ls pl [rho HR] Hb. rewrite add_node_eq in H. inversion H; subst; clear H. rewrite ladd_node_eq. cbn [lres].
    split; [exact Hb|]. split; [|rewrite (rel_length _ _ _ HR); reflexivity].
    destruct HR as (HE & Hsc & Hpr & eops & aopss & g1 & He & Ha & Hg1 & Hg2). exists rho. split; [exact HE|]. split; [exact Hsc|]. split; [exact Hpr|].
    exists eops, aopss, (g1 ++ [new_gnode]). split; [exact He|]. split; [exact Ha|]. cbn [lset_graph sset_graph l_graph s_graph]. split.
    - apply (ofold_app_node _ _ (fun x g g' => apply_edge_app x g g' _) _ _ _ Hg1).
    - apply (ofold_app_node _ _ (fun x g g' => apply_attr_app x g g' _) _ _ _ Hg2).
  Qed.

  Lemma add_edge_ok a b s p isnew s' p' : add_edge a b s p = Ok (isnew, s', p') ->
    apply_edge (a, b) (s_graph s) = Some (s_graph s') /\ s' = sset_graph (s_graph s') s.
  Proof.
    unfold add_edge, bind, get_state, apply_edge. cbn [fst snd]. destruct (graph_add_edge (s_graph s) a b) as [[g' nw]|]; [|discriminate].
    unfold set_graph, modify, ret. intros H; inversion H; subst. auto.
  Qed.

  (* the strict side evaluated an endpoint to a graph node; the lazy value denotes it *)
  Lemma endpoint_sim fuel le ll e lf : fexpr' e -> env_rel' le ll ->
    esim call (fun r lv n => den r lv (VGraph n)) (x <- eval' fuel le e ;; lift (as_gnode x)) (leval' lf ll e).
  Proof.
    intros Hf Henv ss p n ss' p' H rho ls pl HR Hb. apply bind_ok in H. destruct H as (x & s1 & p1 & H1 & H2).
    apply lift_ok in H2. destruct H2 as (Hg & -> & ->). apply as_gnode_ok in Hg. subst x.
    apply (eval_sim t fl glob call okfn Hpure m fuel le ll e Hf Henv lf _ _ _ _ _ H1 rho ls pl HR Hb).
  Qed.

  Lemma rel_push_edge rho ss ss' ls a b x y dbg : Rel rho ss ls -> den rho a (VGraph x) -> den rho b (VGraph y) ->
    apply_edge (x, y) (s_graph ss) = Some (s_graph ss') -> s_locals ss' = s_locals ss ->
    Rel rho ss' (lpush_edge (LSEdge a b [] dbg) ls).
  Proof.
    intros ([A1 A2] & Hsc & Hpr & eops & aopss & g1 & He & Ha & Hg1 & Hg2) Hda Hdb Hedge Hloc.
    split; [split; [exact A1|rewrite Hloc; exact A2]|]. split; [exact Hsc|]. split; [exact Hpr|].
    destruct (edge_before_attrs (x, y) _ _ _ _ Hg2 Hedge) as (g1' & E1 & E2).
    exists (eops ++ [(x, y)]), aopss, g1'. cbn [lpush_edge l_edges l_attrs l_graph]. split.
    - apply Forall2_app; [exact He|]. constructor; [|constructor]. exists a, b, dbg. auto.
    - split; [exact Ha|]. split; [|exact E2]. eapply ofold_app_ok; [exact Hg1|]. cbn [ofold]. rewrite E1. reflexivity.
  Qed.
  Lemma rel_push_attr rho rho2 s1 ss' ls1 ls2 st ops : Rel rho s1 ls1 -> prefix rho rho2 -> lframe ls1 ls2 -> Renv rho2 ss' ls2 ->
    den_astmt rho2 st ops -> apply_attrs ops (s_graph s1) = Some (s_graph ss') ->
    Rel rho2 ss' (lpush_attr st ls2).
  Proof.
    intros (_ & Hsc & Hpr & eops & aopss & g1 & He & Ha & Hg1 & Hg2) Hp (F1 & F2 & F3 & F4 & F5) HR2 Hst Hops.
    split; [exact HR2|]. split; [cbn [lpush_attr l_scoped]; congruence|]. split.
    - cbn [lpush_attr l_prints]. rewrite F4. eapply Forall_impl; [|exact Hpr]. intros st0. apply print_ok_mono, Hp.
    - exists eops, (aopss ++ [ops]), g1. cbn [lpush_attr l_edges l_attrs l_graph]. rewrite F1, F2, F3. split.
      + eapply Forall2_mono_l; [|exact He]. intros st0 e. apply den_edge_mono, Hp.
      + split; [apply Forall2_app; [eapply Forall2_mono_l; [|exact Ha]; intros st0 e; apply den_astmt_mono, Hp|constructor; [exact Hst|constructor]]|].
        split; [exact Hg1|]. rewrite concat_app. cbn [concat]. rewrite app_nil_r. eapply ofold_app_ok; eauto.
  Qed.

  Notation exec_stmt' := (exec_stmt t fl config0 glob regexes find call).
  Notation lexec_stmt' := (lexec_stmt t fl config0 glob regexes find call).

  Lemma attrs_all_sim fuel le ll tgt lf attrs : All fattr' attrs -> env_rel' le ll ->
    forall a, In a attrs -> asim tgt (exec_attr' fuel le tgt a) (lexec_attr' lf ll a).
  Proof. intros Hall Henv a Hin. apply attr_sim; [apply (All_In _ _ _ Hall Hin)|exact Henv]. Qed.

  Lemma xsim_attr_node fuel le ll lf node attrs : fexpr' node -> All fattr' attrs -> env_rel' le ll ->
    xsimU (nv <- eval' fuel le node ;; n <- lift (as_gnode nv) ;; iterM (exec_attr' fuel le (TNode n)) attrs)
          (nv <- leval' lf ll node ;; outs <- mapM (lexec_attr' lf ll) attrs ;; push_lstmt (LSAttrNode nv (concat outs) (ll_ctx ll))).
  Proof.
    intros Hfn Hfa Henv ss p u ss' p' H ls pl [rho HR] Hb.
    assert (H' : exists n s1 p1, (x <- eval' fuel le node ;; lift (as_gnode x)) ss p = Ok (n, s1, p1) /\ iterM (exec_attr' fuel le (TNode n)) attrs s1 p1 = Ok (u, ss', p')).
    { apply bind_ok in H. destruct H as (nv & s1 & p1 & H1 & H). apply bind_ok in H. destruct H as (n & s2 & p2 & H2 & H3).
      exists n, s2, p2. split; [|exact H3]. unfold bind at 1. rewrite H1. exact H2. }
    destruct H' as (n & s1 & p1 & H1 & H3).
    apply lres_bind. eapply lres_mono; [apply (endpoint_sim fuel le ll node lf Hfn Henv _ _ _ _ _ H1 rho ls pl (proj1 HR) Hb)|].
    intros nv' ls1 pl1 HP1. destruct (rel_step _ rho n ss s1 ls nv' ls1 pl1 HR HP1) as (rho1 & _ & HR1 & Hdn).
    apply lres_bind. eapply lres_mono; [apply (attrs_sim (TNode n) _ _ attrs (attrs_all_sim fuel le ll (TNode n) lf attrs Hfa Henv) _ _ _ _ _ H3 rho1 ls1 pl1 (proj1 HR1) (proj1 HP1))|].
    intros outs ls2 pl2 (Hb2 & Hf2 & rho2 & kvs & Hp2 & HR2 & Hd2 & Hg2).
    unfold push_lstmt, Lazy.upd. apply lres_modify. split; [exact Hb2|]. split; [|exact I]. exists rho2.
    apply (rel_push_attr rho1 rho2 s1 ss' ls1 ls2 _ (map (mk (TNode n)) kvs) HR1 Hp2 Hf2 HR2); [|exact Hg2].
    exists n, kvs. split; [eapply den_mono; eauto|]. split; [exact Hd2|reflexivity].
  Qed.

  Lemma xsim_attr_edge fuel le ll lf src snk attrs : fexpr' src -> fexpr' snk -> All fattr' attrs -> env_rel' le ll ->
    xsimU (a <- (x <- eval' fuel le src ;; lift (as_gnode x)) ;; b <- (x <- eval' fuel le snk ;; lift (as_gnode x)) ;;
           iterM (exec_attr' fuel le (TEdge a b)) attrs)
          (a <- leval' lf ll src ;; b <- leval' lf ll snk ;; outs <- mapM (lexec_attr' lf ll) attrs ;;
           push_lstmt (LSAttrEdge a b (concat outs) (ll_ctx ll))).
  Proof.
    intros Hfa Hfb Hfat Henv ss p u ss' p' H ls pl [rho HR] Hb.
    apply bind_ok in H. destruct H as (a & s1 & p1 & H1 & H). apply bind_ok in H. destruct H as (b & s2 & p2 & H2 & H3).
    apply lres_bind. eapply lres_mono; [apply (endpoint_sim fuel le ll src lf Hfa Henv _ _ _ _ _ H1 rho ls pl (proj1 HR) Hb)|].
    intros a' ls1 pl1 HP1. destruct (rel_step _ rho a ss s1 ls a' ls1 pl1 HR HP1) as (rho1 & _ & HR1 & Hda).
    apply lres_bind. eapply lres_mono; [apply (endpoint_sim fuel le ll snk lf Hfb Henv _ _ _ _ _ H2 rho1 ls1 pl1 (proj1 HR1) (proj1 HP1))|].
    intros b' ls2 pl2 HP2. destruct (rel_step _ rho1 b s1 s2 ls1 b' ls2 pl2 HR1 HP2) as (rho2 & Hp12 & HR2 & Hdb).
    apply lres_bind. eapply lres_mono; [apply (attrs_sim (TEdge a b) _ _ attrs (attrs_all_sim fuel le ll (TEdge a b) lf attrs Hfat Henv) _ _ _ _ _ H3 rho2 ls2 pl2 (proj1 HR2) (proj1 HP2))|].
    intros outs ls3 pl3 (Hb3 & Hf3 & rho3 & kvs & Hp3 & HR3 & Hd3 & Hg3).
    unfold push_lstmt, Lazy.upd. apply lres_modify. split; [exact Hb3|]. split; [|exact I]. exists rho3.
    apply (rel_push_attr rho2 rho3 s2 ss' ls2 ls3 _ (map (mk (TEdge a b)) kvs) HR2 Hp3 Hf3 HR3); [|exact Hg3].
    exists a, b, kvs. split; [eapply den_mono; [|exact Hda]; eapply prefix_trans; eauto|]. split; [eapply den_mono; eauto|]. split; [exact Hd3|reflexivity].
  Qed.

  Lemma xsim_edge fuel le ll lf src snk dbg : fexpr' src -> fexpr' snk -> env_rel' le ll ->
    xsimU (a <- (x <- eval' fuel le src ;; lift (as_gnode x)) ;; b <- (x <- eval' fuel le snk ;; lift (as_gnode x)) ;;
           isnew <- add_edge a b ;; (if isnew : bool then ret tt else ret tt))
          (a <- leval' lf ll src ;; b <- leval' lf ll snk ;; push_lstmt (LSEdge a b [] dbg)).
  Proof.
    intros Hfa Hfb Henv ss p u ss' p' H ls pl [rho HR] Hb.
    apply bind_ok in H. destruct H as (a & s1 & p1 & H1 & H). apply bind_ok in H. destruct H as (b & s2 & p2 & H2 & H).
    apply bind_ok in H. destruct H as (isnew & s3 & p3 & H3 & H4).
    assert (E4 : ss' = s3) by (destruct isnew; apply ret_ok in H4; destruct H4 as (_ & -> & _); reflexivity). subst s3.
    apply lres_bind. eapply lres_mono; [apply (endpoint_sim fuel le ll src lf Hfa Henv _ _ _ _ _ H1 rho ls pl (proj1 HR) Hb)|].
    intros a' ls1 pl1 HP1. destruct (rel_step _ rho a ss s1 ls a' ls1 pl1 HR HP1) as (rho1 & _ & HR1 & Hda).
    apply lres_bind. eapply lres_mono; [apply (endpoint_sim fuel le ll snk lf Hfb Henv _ _ _ _ _ H2 rho1 ls1 pl1 (proj1 HR1) (proj1 HP1))|].
    intros b' ls2 pl2 HP2. destruct (rel_step _ rho1 b s1 s2 ls1 b' ls2 pl2 HR1 HP2) as (rho2 & Hp12 & HR2 & Hdb).
    unfold push_lstmt, Lazy.upd. apply lres_modify. split; [apply HP2|]. split; [|exact I]. exists rho2.
    destruct (add_edge_ok _ _ _ _ _ _ _ H3) as [Hedge Hs]. apply (rel_push_edge rho2 s2 ss' ls2 a' b' a b dbg HR2); [eapply den_mono; eauto|exact Hdb|exact Hedge|].
    rewrite Hs. reflexivity.
  Qed.

  (* `print`: the strict side evaluates the arguments, the lazy side records lazy values that denote something *)
  Lemma iterM_mapM {S X} (F : X -> M S unit) l s p u s' p' : iterM F l s p = Ok (u, s', p') -> exists us, mapM F l s p = Ok (us, s', p').
  Proof.
    revert s p. induction l as [|x l IH]; intros s p H; cbn [iterM mapM] in *.
    - apply ret_ok in H. destruct H as (_ & -> & ->). exists []. reflexivity.
    - apply bind_ok in H. destruct H as (u1 & s1 & p1 & H1 & H2). destruct (IH _ _ H2) as (us & E). exists (u1 :: us).
      unfold bind. rewrite H1. unfold bind in E. rewrite E. reflexivity.
  Qed.
  Definition arg_ok (rho : list value) (a : option lvalue) (_ : unit) : Prop :=
    match a with Some lv => exists v, den rho lv v | None => True end.
  Lemma arg_ok_mono : Qmono arg_ok.
  Proof. intros r r' [lv|] [] Hp; cbn; [|auto]. intros [v Hv]. exists v. eapply den_mono; eauto. Qed.

  Lemma print_arg_sim fuel le ll lf e : fexpr' e -> env_rel' le ll ->
    esim call arg_ok (match e with EStr _ => ret tt | _ => eval' fuel le e ;;; ret tt end)
                     (match e with EStr _ => ret None | _ => lv <- leval' lf ll e ;; ret (Some lv) end).
  Proof.
    intros Hf Henv.
    assert (Hgen : esim call arg_ok (eval' fuel le e ;;; ret tt) (lv <- leval' lf ll e ;; ret (Some lv))).
    { intros ss p u ss' p' H rho ls pl HR Hb. apply bind_ok in H. destruct H as (v & s1 & p1 & H1 & H2). apply ret_ok in H2. destruct H2 as (-> & -> & ->).
      apply lres_bind. eapply lres_mono; [apply (eval_sim t fl glob call okfn Hpure m fuel le ll e Hf Henv lf _ _ _ _ _ H1 rho ls pl HR Hb)|].
      intros lv ls1 pl1 HP. apply lres_ret. eapply epost_impl; [exact HP|]. intros r Hd. exists v. exact Hd. }
    destruct e; try exact Hgen.
    intros ss p u ss' p' H rho ls pl HR Hb. apply ret_ok in H. destruct H as (-> & -> & ->). apply lres_ret. apply epost_here; [exact HR|exact Hb|exact I].
  Qed.

  Lemma xsim_print fuel le ll lf values dbg : All fexpr' values -> env_rel' le ll ->
    xsimU (iterM (fun e => match e with EStr _ => ret tt | _ => eval' fuel le e ;;; ret tt end) values)
          (args <- mapM (fun e => match e with EStr _ => ret None | _ => lv <- leval' lf ll e ;; ret (Some lv) end) values ;;
           push_lstmt (LSPrint args dbg)).
  Proof.
    intros Hf Henv ss p u ss' p' H ls pl [rho HR] Hb. destruct (iterM_mapM _ _ _ _ _ _ _ H) as (us & H').
    apply lres_bind.
    eapply lres_mono; [apply (trav_sim call _ _ arg_ok fexpr' arg_ok_mono (fun e He => print_arg_sim fuel le ll lf e He Henv) values Hf _ _ _ _ _ H' rho ls pl (proj1 HR) Hb)|].
    intros args ls1 pl1 HP. destruct (rel_step _ rho us ss ss' ls args ls1 pl1 HR HP) as (rho1 & _ & HR1 & HF).
    unfold push_lstmt, Lazy.upd. apply lres_modify. split; [apply HP|]. split; [|exact I]. exists rho1.
    destruct HR1 as (A & Hsc & Hpr & B). split; [exact A|]. split; [exact Hsc|]. split; [|exact B].
    cbn [l_prints]. apply Forall_app. split; [exact Hpr|]. constructor; [|constructor]. cbn [print_ok].
    clear -HF. induction HF as [|a b l l' Hab _ IH]; constructor; [exact Hab|exact IH].
  Qed.

  (* ---------------- control flow ---------------- *)
  Lemma All_impl {X} (P Q : X -> Prop) l : (forall x, P x -> Q x) -> All P l -> All Q l.
  Proof. intros H. induction l as [|x l IH]; cbn [All]; [auto|]. intros [A1 A2]. auto. Qed.

  Lemma xsim_cond fuel le ll lf c : fcond okfn m c -> env_rel' le ll ->
    xsim eq (test_cond t fl glob call fuel le c) (ltest_cond t fl glob call lf ll c).
  Proof.
    intros Hf Henv. destruct c; cbn [test_cond ltest_cond fcond] in *.
    - eapply xsim_bind; [apply xsim_eager; eassumption|]. intros a b <-. apply xsim_ret. reflexivity.
    - eapply xsim_bind; [apply xsim_eager; eassumption|]. intros a b <-. apply xsim_ret. reflexivity.
    - eapply xsim_bind; [apply xsim_eager; eassumption|]. intros a b <-. apply xsim_lift.
  Qed.

  Lemma xsim_if test test' run run' arms :
    All (fun arm : list cond * list stmt * loc =>
           All (fun c => xsim eq (test c) (test' c)) (fst (fst arm)) /\ xsimU (run (snd (fst arm))) (run' (snd (fst arm)))) arms ->
    xsimU (if_loop test run arms) (lif_loop test' run' arms).
  Proof.
    induction arms as [|[[conds body] l'] arms IH]; cbn [if_loop lif_loop All fst snd]; [intros _; apply xsim_ret; exact I|].
    intros [[Hc Hb] Hrest]. eapply xsim_bind; [apply (xsim_mapM eq _ test test' conds (fun c Hc0 => Hc0) Hc)|].
    intros bs bs' HF. apply Forall2_eq in HF. subst bs'. destruct (forallb (fun b => b) bs); [|apply IH, Hrest].
    apply xsim_seq; [apply xsim_push_frame|]. apply xsim_seq; [exact Hb|apply xsim_pop_frame].
  Qed.

  Lemma xsim_scan run run' arms rs subject :
    (forall caps k r body l', nth_error arms k = Some (r, body, l') -> xsimU (run caps body) (run' caps body)) ->
    forall sfuel i, xsimU (scan_loop find run arms rs subject sfuel i) (lscan_loop find run' arms rs subject sfuel i).
  Proof.
    intros Hrun. induction sfuel as [|sfuel IH]; intros i; cbn [scan_loop lscan_loop]; [apply xsim_soof|].
    destruct (N.ltb i (N.of_nat (length subject))); [|apply xsim_ret; exact I]. apply xsim_spoll. cbv zeta. apply xsim_lpoll_n.
    destruct (arm_select find rs (skipn (N.to_nat i) subject)) as [|k|k caps]; [apply xsim_ret; exact I|apply xsim_sfail|].
    destruct (nth_error arms (N.to_nat k)) as [[[r body] l']|] eqn:E; [|apply xsim_spanic].
    apply xsim_seq; [apply xsim_push_frame|]. apply xsim_seq; [apply (Hrun _ _ _ _ _ E)|]. apply xsim_seq; [apply xsim_pop_frame|apply IH].
  Qed.

  Lemma env_rel_ctx le ll c c' : env_rel' le ll -> env_rel' (le_with_ctx le c) (ll_with_ctx ll c').
  Proof. intros H. exact H. Qed.
  Lemma env_rel_caps le ll caps : env_rel' le ll -> env_rel' (le_with_caps le caps) (ll_with_caps ll caps).
  Proof. intros (H1 & H2 & H3). repeat split; assumption. Qed.

  Lemma stmt_sim : forall fuel le ll s, fstmt' s -> env_rel' le ll -> forall lf, xsimU (exec_stmt' fuel le s) (lexec_stmt' lf ll s).
  Proof.
    induction fuel as [|fuel IH]; intros le ll s Hf Henv lf; [apply xsim_soof|]. destruct lf as [|lf]; [apply xsim_loof|].
    assert (Hblock : forall le' ll' (wrap : M sstate unit -> M sstate unit) body, env_rel' le' ll' -> All fstmt' body ->
               (forall ms ml, xsimU ms ml -> xsimU (wrap ms) ml) ->
               xsimU (iterM (fun st => let c := ctx_update (le_ctx le') st in
                                       ctx_wrap (CtxStmts [c]) (wrap (exec_stmt' fuel (le_with_ctx le' c) st))) body)
                     (iterM (fun st => lexec_stmt' lf (ll_with_ctx ll' (ctx_update (ll_ctx ll') st)) st) body)).
    { intros le' ll' wrap body Henv' Hbody Hw. apply (xsim_iter fstmt'); [|exact Hbody]. intros st Hst. cbv zeta. apply xsim_sctx, Hw.
      apply IH; [exact Hst|apply env_rel_ctx, Henv']. }
    assert (Harm : forall le' ll' body, env_rel' le' ll' -> All fstmt' body ->
               xsimU (iterM (fun st => let c := ctx_update (le_ctx le') st in
                                       ctx_wrap (CtxStmts [c]) (ctx_wrap CtxOther (exec_stmt' fuel (le_with_ctx le' c) st))) body)
                     (iterM (fun st => let c := ctx_update (ll_ctx ll') st in
                                       ctx_wrap (CtxStmts [c]) (ctx_wrap CtxOther (lexec_stmt' lf (ll_with_ctx ll' c) st))) body)).
    { intros le' ll' body Henv' Hbody. apply (xsim_iter fstmt'); [|exact Hbody]. intros st Hst. cbv zeta. apply xsim_sctx, xsim_sctx, xsim_lctx, xsim_lctx.
      apply IH; [exact Hst|apply env_rel_ctx, Henv']. }
    destruct s; cbn [exec_stmt lexec_stmt]; cbn [fstmt] in Hf; apply xsim_spoll, xsim_lpoll.
    - (* let *) destruct Hf as [Hv He]. destruct v; [|contradiction]. cbn [var_add lvar_add]. apply xsim_bind_var; assumption.
    - (* var *) destruct Hf as [Hv He]. destruct v; [|contradiction]. cbn [var_add lvar_add]. apply xsim_bind_var; assumption.
    - (* set *) destruct Hf as [Hv He]. destruct v; [|contradiction]. cbn [var_set lvar_set]. apply xsim_set_var; assumption.
    - (* node *) destruct v; [|contradiction]. cbn [config0 c_var_attr c_loc_attr c_match_attr opt_attr lopt_node_attr var_add lvar_add].
      eapply xsim_bind; [apply xsim_add_node|]. intros n n' <-. apply xsim_seq; [apply xsim_ret; exact I|]. apply xsim_seq; [apply xsim_ret; exact I|].
      apply xsim_seq; [apply xsim_ret; exact I|]. apply (xsim_unscoped_add ll name (VGraph n) false).
    - (* attr on a node *) destruct Hf as [Hn Ha]. apply xsim_attr_node; assumption.
    - (* edge *) destruct Hf as [Ha Hb]. cbn [config0 c_loc_attr opt_attr]. apply xsim_edge; assumption.
    - (* attr on an edge *) destruct Hf as (Ha & Hb & Hat). apply xsim_attr_edge; assumption.
    - (* scan *) destruct Hf as [Hv Harms]. eapply xsim_bind; [apply xsim_eager; eassumption|]. intros sv sv' <-.
      eapply xsim_bind; [apply xsim_lift|]. intros subject subject' <-. destruct (arm_table regexes arms) as [rs|]; [|apply xsim_spanic].
      apply xsim_scan. intros caps k r body l' E. apply Harm; [apply env_rel_caps, Henv|].
      apply (All_In _ _ _ Harms (nth_error_In _ _ E)).
    - (* print *) apply xsim_print; assumption.
    - (* if *) apply xsim_if. eapply All_impl; [|exact Hf]. intros [[conds body] l'] [Hc Hb]. cbn [fst snd] in *. split.
      + eapply All_impl; [|exact Hc]. intros c Hfc. apply xsim_cond; assumption.
      + apply (Hblock le ll (fun ms => ms) body Henv Hb). auto.
    - (* for *) destruct Hf as [Hv Hbody]. eapply xsim_bind; [apply xsim_eager; eassumption|]. intros lv lv' <-.
      eapply xsim_bind; [apply xsim_lift|]. intros vals vals' <-. apply xsim_seq; [apply xsim_push_frame|].
      apply xsim_seq; [|apply xsim_pop_frame]. apply (xsim_iter (fun _ => True)); [|clear; induction vals; cbn; auto].
      intros v _. apply xsim_seq; [apply xsim_clear_frame|]. apply xsim_seq; [apply xsim_unscoped_add|].
      apply (Hblock le ll (fun ms => ms) body Henv Hbody). auto.
  Qed.

  (* one match of one stanza *)
  Lemma stanza_sim fuel lf st : All fstmt' (st_stmts st) -> nodes_for_capture m (st_full_file_idx st) <> [] ->
    xsimU (exec_stanza t fl config0 glob regexes find call fuel st m) (lexec_stanza t fl config0 glob regexes find call lf st m).
  Proof.
    intros Hst Hfull. unfold exec_stanza, lexec_stanza. apply xsim_lpoll. apply xsim_seq; [apply xsim_clear_frame|]. cbv zeta.
    destruct (nodes_for_capture m (st_full_file_idx st)) as [|n' ns']; [contradiction|].
    apply (xsim_iter fstmt'); [|exact Hst]. intros s Hs.
    destruct (nodes_for_capture m (st_full_stanza_idx st)) as [|n ns]; [apply xsim_spanic|].
    apply xsim_sctx, xsim_lctx. apply stmt_sim; [exact Hs|]. repeat split.
  Qed.

  (* ================= adequacy: the lazy execution phase converges (some fuel suffices) ================= *)
  Definition aconv (tgt : target) (ms : M sstate unit) (mlf : nat -> M lstate (list (ident * lvalue))) : Prop :=
    forall ss p u ss' p', ms ss p = Ok (u, ss', p') -> forall rho ls pl, Renv rho ss ls -> nob pl ->
      convP (fun lf => mlf lf ls pl) (apost rho tgt ss ss' ls).

  Lemma attrs_conv tgt (exa : attr -> M sstate unit) (lexa : nat -> attr -> M lstate (list (ident * lvalue))) :
    forall attrs, (forall a, In a attrs -> aconv tgt (exa a) (fun lf => lexa lf a)) ->
    forall ss p u ss' p', iterM exa attrs ss p = Ok (u, ss', p') -> forall rho ls pl, Renv rho ss ls -> nob pl ->
      convP (fun lf => mapM (lexa lf) attrs ls pl) (fun outs ls' pl' => apost rho tgt ss ss' ls (concat outs) ls' pl').
  Proof.
    induction attrs as [|a attrs IH]; intros Ha ss p u ss' p' H rho ls pl HR Hb; cbn [iterM mapM] in *.
    - apply ret_ok in H. destruct H as (-> & -> & ->). apply convP_ret. split; [exact Hb|]. split; [apply lframe_refl|].
      exists rho, []. split; [apply prefix_refl|]. split; [exact HR|]. split; [constructor|reflexivity].
    - apply bind_ok in H. destruct H as (u1 & s1 & p1 & H1 & H2).
      apply convP_bind. eapply convP_mono; [apply (Ha a (or_introl eq_refl) _ _ _ _ _ H1 rho ls pl HR Hb)|].
      intros o1 ls1 pl1 (Hb1 & Hf1 & rho1 & kvs1 & Hp1 & HR1 & Hd1 & Hg1).
      apply convP_bind. eapply convP_mono; [apply (IH (fun a0 Hin => Ha a0 (or_intror Hin)) _ _ _ _ _ H2 rho1 ls1 pl1 HR1 Hb1)|].
      intros outs ls2 pl2 (Hb2 & Hf2 & rho2 & kvs2 & Hp2 & HR2 & Hd2 & Hg2). apply convP_ret.
      split; [exact Hb2|]. split; [eapply lframe_trans; eauto|]. exists rho2, (kvs1 ++ kvs2). split; [eapply prefix_trans; eauto|].
      split; [exact HR2|]. split.
      + cbn [concat]. apply Forall2_app; [eapply den_attrs_mono; eauto|exact Hd2].
      + rewrite map_app. eapply ofold_app_ok; eauto.
  Qed.

  Lemma attr_conv : forall fuel le ll tgt a, fattr' a -> env_rel' le ll -> aconv tgt (exec_attr' fuel le tgt a) (fun lf => lexec_attr' lf ll a).
  Proof.
    induction fuel as [|fuel IH]; intros le ll tgt a Hf Henv ss p u ss' p' H rho ls pl HR Hb; [discriminate|].
    destruct a as [name value]. cbn [exec_attr] in H. cbn [fattr] in *.
    eapply convP_shift; [intros lf; cbn [lexec_attr]; reflexivity|].
    apply bind_ok in H. destruct H as (u0 & s0 & p0 & H0 & H). apply poll_ok in H0. destruct H0 as (-> & -> & _).
    apply bind_ok in H. destruct H as (v & s1 & p1 & H1 & H).
    apply convP_bind. apply convP_poll; [exact Hb|]. intros pl0 Hb0.
    apply convP_bind. eapply convP_mono; [apply (eval_conv t fl glob call okfn Hpure m fuel le ll value Hf Henv _ _ _ _ _ H1 rho ls pl0 HR Hb0)|].
    intros lv ls1 pl1 (Hb1 & [Sg1 Sp1] & Hf1 & rho1 & Hp1 & HR1 & Hd1).
    destruct (find_shorthand name (f_shorthands fl)) as [sh|] eqn:Esh.
    - apply bind_ok in H. destruct H as (sg & s1' & p1' & G & H). apply get_ok in G. destruct G as (-> & -> & ->).
      apply bind_ok in H. destruct H as (u2 & s2 & p2 & H2 & H). rewrite set_locals_eq in H2. inversion H2; subst; clear H2.
      apply bind_ok in H. destruct H as (u3 & s3 & p3 & H3 & H). apply bind_ok in H. destruct H as (u4 & s4 & p4 & H4 & H5).
      rewrite set_locals_eq in H5. inversion H5; subst; clear H5.
      apply convP_get. apply convP_bind. eapply convP_const; [apply set_llocals_eq|].
      assert (HR2 : Renv rho1 (sset_locals [[]] s1) (lset_locals [[]] ls1)).
      { destruct HR1 as [A1 A2]. split; [exact A1|]. constructor; [constructor|constructor]. }
      apply convP_bind. eapply convP_mono; [apply (unscoped_add_conv glob call ll (sh_var sh) v lv false _ _ _ _ _ rho1 _ pl1 H3 HR2 Hd1 Hb1)|].
      intros _ ls3 pl3 (Hb3 & [Sg3 Sp3] & Hf3 & rho3 & Hp3 & HR3 & _).
      assert (Hin : forall a0, In a0 (sh_attrs sh) -> aconv tgt (exec_attr' fuel le tgt a0) (fun lf => lexec_attr' lf ll a0)).
      { intros a0 Hin0. apply IH; [|exact Henv]. rewrite Forall_forall in Hsh. apply (All_In _ _ _ (Hsh sh (find_shorthand_In _ _ _ Esh)) Hin0). }
      apply convP_bind. eapply convP_mono; [apply (attrs_conv tgt _ (fun lf => lexec_attr' lf ll) (sh_attrs sh) Hin _ _ _ _ _ H4 rho3 ls3 pl3 HR3 Hb3)|].
      intros outs ls4 pl4 (Hb4 & Hf4 & rho4 & kvs & Hp4 & HR4 & Hd4 & Hg4).
      apply convP_bind. eapply convP_const; [apply set_llocals_eq|]. apply convP_ret. split; [exact Hb4|].
      split; [eapply lframe_trans; [exact Hf1|]; eapply lframe_trans; [apply lframe_set_locals|]; eapply lframe_trans; [exact Hf3|]; eapply lframe_trans; [exact Hf4|apply lframe_set_locals]|].
      exists rho4, kvs. split; [eapply prefix_trans; [exact Hp1|]; eapply prefix_trans; [exact Hp3|exact Hp4]|]. split.
      + destruct HR4 as [A1 _]. destruct HR1 as [_ A2]. split; [exact A1|]. cbn [sset_locals lset_locals s_locals l_locals].
        eapply locals_rel_mono; [|exact A2]. eapply prefix_trans; eauto.
      + split; [exact Hd4|]. cbn [sset_locals s_graph] in *. rewrite <- Sg1, <- Sg3. exact Hg4.
    - destruct (add_attr_ok _ _ _ _ _ _ _ _ H) as (Hg & Hl & Hps). apply convP_ret. split; [exact Hb1|]. split; [exact Hf1|].
      exists rho1, [(name, v)]. split; [exact Hp1|]. split; [eapply Renv_locals; [exact HR1|exact Hl|reflexivity|reflexivity]|].
      split; [constructor; [split; [reflexivity|exact Hd1]|constructor]|]. cbn [map ofold]. rewrite <- Sg1, Hg. reflexivity.
  Qed.

  Definition xconv {A B} (Q : A -> B -> Prop) (ms : M sstate A) (mlf : nat -> M lstate B) : Prop :=
    forall ss p a ss' p', ms ss p = Ok (a, ss', p') -> forall ls pl, RelX ss ls -> nob pl ->
      convP (fun lf => mlf lf ls pl) (fun b ls' pl' => nob pl' /\ RelX ss' ls' /\ Q a b).
  Notation xconvU := (xconv (@anyQ unit unit)).

  Lemma xconv_ret {A B} (Q : A -> B -> Prop) a b : Q a b -> xconv Q (ret a) (fun _ => ret b).
  Proof. intros HQ ss p a' ss' p' H ls pl HR Hb. apply ret_ok in H. destruct H as (-> & -> & ->). apply convP_ret. auto. Qed.
  Lemma xconv_bind {A B C D} (Q1 : A -> B -> Prop) (Q2 : C -> D -> Prop) ms (mlf : nat -> M lstate B) fs (flf : nat -> B -> M lstate D) :
    xconv Q1 ms mlf -> (forall a b, Q1 a b -> xconv Q2 (fs a) (fun lf => flf lf b)) -> xconv Q2 (bind ms fs) (fun lf => bind (mlf lf) (flf lf)).
  Proof.
    intros Hm Hf ss p c ss' p' H ls pl HR Hb. apply bind_ok in H. destruct H as (a & s1 & p1 & H1 & H2).
    apply convP_bind. eapply convP_mono; [apply (Hm _ _ _ _ _ H1 ls pl HR Hb)|]. intros b ls1 pl1 (Hb1 & HR1 & HQ).
    apply (Hf a b HQ _ _ _ _ _ H2 ls1 pl1 HR1 Hb1).
  Qed.
  Lemma xconv_seq {A B} (Q : A -> B -> Prop) (ms : M sstate unit) (mlf : nat -> M lstate unit) ks (klf : nat -> M lstate B) :
    xconvU ms mlf -> xconv Q ks klf -> xconv Q (ms ;;; ks) (fun lf => mlf lf ;;; klf lf).
  Proof. intros H1 H2. apply (xconv_bind anyQ Q ms mlf (fun _ => ks) (fun lf _ => klf lf)); [exact H1|]. intros _ _ _. exact H2. Qed.
  Lemma xconv_sctx {A B} (Q : A -> B -> Prop) c ms mlf : xconv Q ms mlf -> xconv Q (ctx_wrap c ms) mlf.
  Proof. intros Hm ss p a ss' p' H. apply ctx_wrap_ok in H. apply (Hm _ _ _ _ _ H). Qed.
  Lemma xconv_lctx {A B} (Q : A -> B -> Prop) c ms (mlf : nat -> M lstate B) : xconv Q ms mlf -> xconv Q ms (fun lf => ctx_wrap c (mlf lf)).
  Proof. intros Hm ss p a ss' p' H ls pl HR Hb. apply convP_ctx. apply (Hm _ _ _ _ _ H ls pl HR Hb). Qed.
  Lemma xconv_spoll {A B} (Q : A -> B -> Prop) l ms mlf : xconv Q ms mlf -> xconv Q (poll l ;;; ms) mlf.
  Proof.
    intros Hm ss p a ss' p' H. apply bind_ok in H. destruct H as (u & s1 & p1 & H1 & H2). apply poll_ok in H1. destruct H1 as (-> & -> & _).
    apply (Hm _ _ _ _ _ H2).
  Qed.
  Lemma xconv_lpoll {A B} (Q : A -> B -> Prop) l ms (mlf : nat -> M lstate B) : xconv Q ms mlf -> xconv Q ms (fun lf => lpoll l ;;; mlf lf).
  Proof.
    intros Hm ss p a ss' p' H ls pl HR Hb. apply (convP_bind (fun _ => lpoll l) (fun lf _ => mlf lf)). unfold lpoll. apply convP_poll; [exact Hb|]. intros pl0 Hb0.
    apply (Hm _ _ _ _ _ H ls pl0 HR Hb0).
  Qed.
  Lemma lpoll_n_noof n l ls pl : nob pl -> lpoll_n n l ls pl <> OutOfFuel.
  Proof.
    revert pl. induction n as [|n IH]; intros pl Hb; cbn [lpoll_n]; [discriminate|]. destruct (poll_nob l ls pl Hb) as (p' & E & Hb').
    unfold bind, lpoll. rewrite E. apply IH, Hb'.
  Qed.
  Lemma xconv_lpoll_n {A B} (Q : A -> B -> Prop) n l ms (mlf : nat -> M lstate B) : xconv Q ms mlf -> xconv Q ms (fun lf => lpoll_n n l ;;; mlf lf).
  Proof.
    intros Hm ss p a ss' p' H ls pl HR Hb. apply (convP_bind (fun _ => lpoll_n n l) (fun lf _ => mlf lf)).
    apply convP_of_lres; [|apply lpoll_n_noof, Hb]. eapply lres_mono; [apply lpoll_n_res, Hb|].
    intros _ ls0 pl0 [-> Hb0]. apply (Hm _ _ _ _ _ H ls pl0 HR Hb0).
  Qed.
  Lemma xconv_soof {A B} (Q : A -> B -> Prop) mlf : xconv Q (@out_of_fuel sstate A) mlf.
  Proof. intros ss p a ss' p' H. discriminate. Qed.
  Lemma xconv_spanic {A B} (Q : A -> B -> Prop) x mlf : xconv Q (@panic sstate A x) mlf.
  Proof. intros ss p a ss' p' H. discriminate. Qed.
  Lemma xconv_sfail {A B} (Q : A -> B -> Prop) e mlf : xconv Q (@fail sstate A e) mlf.
  Proof. intros ss p a ss' p' H. discriminate. Qed.
  Lemma xconv_lift {A} (r : res A) : xconv eq (lift r) (fun _ => lift r).
  Proof. intros ss p a ss' p' H ls pl HR Hb. apply lift_ok in H. destruct H as (-> & -> & ->). eapply convP_lift; [reflexivity|]. auto. Qed.
  Lemma xconv_iter {X} (P : X -> Prop) (F : X -> M sstate unit) (F' : nat -> X -> M lstate unit) l :
    (forall x, P x -> xconvU (F x) (fun lf => F' lf x)) -> All P l -> xconvU (iterM F l) (fun lf => iterM (F' lf) l).
  Proof.
    intros HF. induction l as [|x l IH]; intros HP; cbn [iterM]; [apply xconv_ret; exact I|]. destruct HP as [Px HP].
    apply (xconv_seq anyQ (F x) (fun lf => F' lf x) (iterM F l) (fun lf => iterM (F' lf) l)); [apply HF, Px|apply IH, HP].
  Qed.
  Lemma xconv_mapM {X A B} (Q : A -> B -> Prop) (P : X -> Prop) (F : X -> M sstate A) (F' : nat -> X -> M lstate B) l :
    (forall x, P x -> xconv Q (F x) (fun lf => F' lf x)) -> All P l -> xconv (Forall2 Q) (mapM F l) (fun lf => mapM (F' lf) l).
  Proof.
    intros HF. induction l as [|x l IH]; intros HP; cbn [mapM]; [apply xconv_ret; constructor|]. destruct HP as [Px HP].
    apply (xconv_bind Q (Forall2 Q) (F x) (fun lf => F' lf x) _ (fun lf y => ys <- mapM (F' lf) l ;; ret (y :: ys))); [apply HF, Px|]. intros a b Hab.
    apply (xconv_bind (Forall2 Q) (Forall2 Q) (mapM F l) (fun lf => mapM (F' lf) l) _ (fun _ ys => ret (b :: ys))); [apply IH, HP|].
    intros as_ bs Habs. apply xconv_ret. constructor; assumption.
  Qed.
  Lemma xconv_shift {A B} (Q : A -> B -> Prop) ms (f g : nat -> M lstate B) : (forall lf, f (S lf) = g lf) -> xconv Q ms g -> xconv Q ms f.
  Proof.
    intros E Hm ss p a ss' p' H ls pl HR Hb. apply (convP_shift _ (fun lf => g lf ls pl)); [intros lf; rewrite E; reflexivity|].
    apply (Hm _ _ _ _ _ H ls pl HR Hb).
  Qed.
  (* fuel-independent lazy computations that never run out of fuel *)
  Lemma xconv_const {A B} (Q : A -> B -> Prop) ms (ml : M lstate B) : xsim Q ms ml -> (forall ls pl, nob pl -> ml ls pl <> OutOfFuel) -> xconv Q ms (fun _ => ml).
  Proof. intros Hx Hn ss p a ss' p' H ls pl HR Hb. apply convP_of_lres; [apply (Hx _ _ _ _ _ H ls pl HR Hb)|apply Hn, Hb]. Qed.

  Lemma xconv_eager fuel le ll e : fexpr' e -> env_rel' le ll -> xconv eq (eval' fuel le e) (fun lf => leager t fl glob call lf ll e).
  Proof.
    intros Hf Henv ss p v ss' p' H ls pl [rho HR] Hb.
    eapply convP_mono; [apply (leager_conv t fl glob call okfn Hpure m fuel le ll e _ _ _ _ _ rho ls pl Hf Henv H (proj1 HR) Hb)|].
    intros v' ls' pl' (-> & HP). destruct (rel_step _ rho tt ss ss' ls tt ls' pl' HR HP) as (rho' & _ & HR' & _).
    split; [apply HP|]. split; [exists rho'; exact HR'|reflexivity].
  Qed.

  Lemma xconv_push_frame : xconvU push_frame (fun _ => lpush_frame).
  Proof. apply xconv_const; [apply xsim_push_frame|]. intros ls pl _. rewrite lpush_frame_eq. discriminate. Qed.
  Lemma xconv_clear_frame : xconvU clear_frame (fun _ => lclear_frame).
  Proof. apply xconv_const; [apply xsim_clear_frame|]. intros ls pl _. rewrite lclear_frame_eq. discriminate. Qed.
  Lemma xconv_pop_frame : xconvU pop_frame (fun _ => lpop_frame).
  Proof. apply xconv_const; [apply xsim_pop_frame|]. intros ls pl _. unfold lpop_frame, bind, get_state. destruct (l_locals ls); discriminate. Qed.
  Lemma xconv_unscoped_add ll name v mu : xconvU (unscoped_add glob name v mu) (fun _ => lunscoped_add glob ll name (LValue v) mu).
  Proof. apply xconv_const; [apply xsim_unscoped_add|]. intros ls pl _. apply lunscoped_add_noof. Qed.
  Lemma xconv_add_node : xconv eq add_node (fun _ => ladd_node).
  Proof. apply xconv_const; [apply xsim_add_node|]. intros ls pl _. rewrite ladd_node_eq. discriminate. Qed.

  Lemma xconv_bind_var fuel le ll e name mu : fexpr' e -> env_rel' le ll ->
    xconvU (x <- eval' fuel le e ;; unscoped_add glob name x mu) (fun lf => x <- leval' lf ll e ;; lunscoped_add glob ll name x mu).
  Proof.
    intros Hf Henv ss p u ss' p' H ls pl [rho HR] Hb. apply bind_ok in H. destruct H as (x & s1 & p1 & H1 & H2).
    apply (convP_bind (fun lf => leval' lf ll e) (fun _ x0 => lunscoped_add glob ll name x0 mu)).
    eapply convP_mono; [apply (eval_conv t fl glob call okfn Hpure m fuel le ll e Hf Henv _ _ _ _ _ H1 rho ls pl (proj1 HR) Hb)|].
    intros lv ls1 pl1 HP1. destruct (rel_step _ rho x ss s1 ls lv ls1 pl1 HR HP1) as (rho1 & _ & HR1 & Hd).
    eapply convP_mono; [apply (unscoped_add_conv glob call ll name x lv mu _ _ _ _ _ rho1 ls1 pl1 H2 (proj1 HR1) Hd (proj1 HP1))|].
    intros [] ls' pl' HP. destruct (rel_step _ rho1 tt s1 ss' ls1 tt ls' pl' HR1 HP) as (rho' & _ & HR' & _).
    split; [apply HP|]. split; [exists rho'; exact HR'|exact I].
  Qed.
  Lemma xconv_set_var fuel le ll e name : fexpr' e -> env_rel' le ll ->
    xconvU (x <- eval' fuel le e ;; unscoped_set glob name x) (fun lf => x <- leval' lf ll e ;; lunscoped_set glob ll name x).
  Proof.
    intros Hf Henv ss p u ss' p' H ls pl [rho HR] Hb. apply bind_ok in H. destruct H as (x & s1 & p1 & H1 & H2).
    apply (convP_bind (fun lf => leval' lf ll e) (fun _ x0 => lunscoped_set glob ll name x0)).
    eapply convP_mono; [apply (eval_conv t fl glob call okfn Hpure m fuel le ll e Hf Henv _ _ _ _ _ H1 rho ls pl (proj1 HR) Hb)|].
    intros lv ls1 pl1 HP1. destruct (rel_step _ rho x ss s1 ls lv ls1 pl1 HR HP1) as (rho1 & _ & HR1 & Hd).
    eapply convP_mono; [apply (unscoped_set_conv glob call ll name x lv _ _ _ _ _ rho1 ls1 pl1 H2 (proj1 HR1) Hd (proj1 HP1))|].
    intros [] ls' pl' HP. destruct (rel_step _ rho1 tt s1 ss' ls1 tt ls' pl' HR1 HP) as (rho' & _ & HR' & _).
    split; [apply HP|]. split; [exists rho'; exact HR'|exact I].
  Qed.

  Lemma endpoint_conv fuel le ll e : fexpr' e -> env_rel' le ll ->
    econv call (fun r lv n => den r lv (VGraph n)) (x <- eval' fuel le e ;; lift (as_gnode x)) (fun lf => leval' lf ll e).
  Proof.
    intros Hf Henv ss p n ss' p' H rho ls pl HR Hb. apply bind_ok in H. destruct H as (x & s1 & p1 & H1 & H2).
    apply lift_ok in H2. destruct H2 as (Hg & -> & ->). apply as_gnode_ok in Hg. subst x.
    apply (eval_conv t fl glob call okfn Hpure m fuel le ll e Hf Henv _ _ _ _ _ H1 rho ls pl HR Hb).
  Qed.
  Lemma attrs_all_conv fuel le ll tgt attrs : All fattr' attrs -> env_rel' le ll ->
    forall a, In a attrs -> aconv tgt (exec_attr' fuel le tgt a) (fun lf => lexec_attr' lf ll a).
  Proof. intros Hall Henv a Hin. apply attr_conv; [apply (All_In _ _ _ Hall Hin)|exact Henv]. Qed.

  Lemma xconv_attr_node fuel le ll node attrs : fexpr' node -> All fattr' attrs -> env_rel' le ll ->
    xconvU (nv <- eval' fuel le node ;; n <- lift (as_gnode nv) ;; iterM (exec_attr' fuel le (TNode n)) attrs)
           (fun lf => nv <- leval' lf ll node ;; outs <- mapM (lexec_attr' lf ll) attrs ;; push_lstmt (LSAttrNode nv (concat outs) (ll_ctx ll))).
  Proof.
    intros Hfn Hfa Henv ss p u ss' p' H ls pl [rho HR] Hb.
    assert (H' : exists n s1 p1, (x <- eval' fuel le node ;; lift (as_gnode x)) ss p = Ok (n, s1, p1) /\ iterM (exec_attr' fuel le (TNode n)) attrs s1 p1 = Ok (u, ss', p')).
    { apply bind_ok in H. destruct H as (nv & s1 & p1 & H1 & H). apply bind_ok in H. destruct H as (n & s2 & p2 & H2 & H3).
      exists n, s2, p2. split; [|exact H3]. unfold bind at 1. rewrite H1. exact H2. }
    destruct H' as (n & s1 & p1 & H1 & H3).
    apply convP_bind. eapply convP_mono; [apply (endpoint_conv fuel le ll node Hfn Henv _ _ _ _ _ H1 rho ls pl (proj1 HR) Hb)|].
    intros nv' ls1 pl1 HP1. destruct (rel_step _ rho n ss s1 ls nv' ls1 pl1 HR HP1) as (rho1 & _ & HR1 & Hdn).
    apply (convP_bind (fun lf => mapM (lexec_attr' lf ll) attrs) (fun _ outs => push_lstmt (LSAttrNode nv' (concat outs) (ll_ctx ll)))).
    eapply convP_mono; [apply (attrs_conv (TNode n) _ (fun lf => lexec_attr' lf ll) attrs (attrs_all_conv fuel le ll (TNode n) attrs Hfa Henv) _ _ _ _ _ H3 rho1 ls1 pl1 (proj1 HR1) (proj1 HP1))|].
    intros outs ls2 pl2 (Hb2 & Hf2 & rho2 & kvs & Hp2 & HR2 & Hd2 & Hg2).
    unfold push_lstmt, Lazy.upd. apply convP_modify. split; [exact Hb2|]. split; [|exact I]. exists rho2.
    apply (rel_push_attr rho1 rho2 s1 ss' ls1 ls2 _ (map (mk (TNode n)) kvs) HR1 Hp2 Hf2 HR2); [|exact Hg2].
    exists n, kvs. split; [eapply den_mono; eauto|]. split; [exact Hd2|reflexivity].
  Qed.

  Lemma xconv_attr_edge fuel le ll src snk attrs : fexpr' src -> fexpr' snk -> All fattr' attrs -> env_rel' le ll ->
    xconvU (a <- (x <- eval' fuel le src ;; lift (as_gnode x)) ;; b <- (x <- eval' fuel le snk ;; lift (as_gnode x)) ;;
            iterM (exec_attr' fuel le (TEdge a b)) attrs)
           (fun lf => a <- leval' lf ll src ;; b <- leval' lf ll snk ;; outs <- mapM (lexec_attr' lf ll) attrs ;;
            push_lstmt (LSAttrEdge a b (concat outs) (ll_ctx ll))).
  Proof.
    intros Hfa Hfb Hfat Henv ss p u ss' p' H ls pl [rho HR] Hb.
    apply bind_ok in H. destruct H as (a & s1 & p1 & H1 & H). apply bind_ok in H. destruct H as (b & s2 & p2 & H2 & H3).
    apply convP_bind. eapply convP_mono; [apply (endpoint_conv fuel le ll src Hfa Henv _ _ _ _ _ H1 rho ls pl (proj1 HR) Hb)|].
    intros a' ls1 pl1 HP1. destruct (rel_step _ rho a ss s1 ls a' ls1 pl1 HR HP1) as (rho1 & _ & HR1 & Hda).
    apply convP_bind. eapply convP_mono; [apply (endpoint_conv fuel le ll snk Hfb Henv _ _ _ _ _ H2 rho1 ls1 pl1 (proj1 HR1) (proj1 HP1))|].
    intros b' ls2 pl2 HP2. destruct (rel_step _ rho1 b s1 s2 ls1 b' ls2 pl2 HR1 HP2) as (rho2 & Hp12 & HR2 & Hdb).
    apply (convP_bind (fun lf => mapM (lexec_attr' lf ll) attrs) (fun _ outs => push_lstmt (LSAttrEdge a' b' (concat outs) (ll_ctx ll)))).
    eapply convP_mono; [apply (attrs_conv (TEdge a b) _ (fun lf => lexec_attr' lf ll) attrs (attrs_all_conv fuel le ll (TEdge a b) attrs Hfat Henv) _ _ _ _ _ H3 rho2 ls2 pl2 (proj1 HR2) (proj1 HP2))|].
    intros outs ls3 pl3 (Hb3 & Hf3 & rho3 & kvs & Hp3 & HR3 & Hd3 & Hg3).
    unfold push_lstmt, Lazy.upd. apply convP_modify. split; [exact Hb3|]. split; [|exact I]. exists rho3.
    apply (rel_push_attr rho2 rho3 s2 ss' ls2 ls3 _ (map (mk (TEdge a b)) kvs) HR2 Hp3 Hf3 HR3); [|exact Hg3].
    exists a, b, kvs. split; [eapply den_mono; [|exact Hda]; eapply prefix_trans; eauto|]. split; [eapply den_mono; eauto|]. split; [exact Hd3|reflexivity].
  Qed.

  Lemma xconv_edge fuel le ll src snk dbg : fexpr' src -> fexpr' snk -> env_rel' le ll ->
    xconvU (a <- (x <- eval' fuel le src ;; lift (as_gnode x)) ;; b <- (x <- eval' fuel le snk ;; lift (as_gnode x)) ;;
            isnew <- add_edge a b ;; (if isnew : bool then ret tt else ret tt))
           (fun lf => a <- leval' lf ll src ;; b <- leval' lf ll snk ;; push_lstmt (LSEdge a b [] dbg)).
  Proof.
    intros Hfa Hfb Henv ss p u ss' p' H ls pl [rho HR] Hb.
    apply bind_ok in H. destruct H as (a & s1 & p1 & H1 & H). apply bind_ok in H. destruct H as (b & s2 & p2 & H2 & H).
    apply bind_ok in H. destruct H as (isnew & s3 & p3 & H3 & H4).
    assert (E4 : ss' = s3) by (destruct isnew; apply ret_ok in H4; destruct H4 as (_ & -> & _); reflexivity). subst s3.
    apply convP_bind. eapply convP_mono; [apply (endpoint_conv fuel le ll src Hfa Henv _ _ _ _ _ H1 rho ls pl (proj1 HR) Hb)|].
    intros a' ls1 pl1 HP1. destruct (rel_step _ rho a ss s1 ls a' ls1 pl1 HR HP1) as (rho1 & _ & HR1 & Hda).
    apply (convP_bind (fun lf => leval' lf ll snk) (fun _ b0 => push_lstmt (LSEdge a' b0 [] dbg))).
    eapply convP_mono; [apply (endpoint_conv fuel le ll snk Hfb Henv _ _ _ _ _ H2 rho1 ls1 pl1 (proj1 HR1) (proj1 HP1))|].
    intros b' ls2 pl2 HP2. destruct (rel_step _ rho1 b s1 s2 ls1 b' ls2 pl2 HR1 HP2) as (rho2 & Hp12 & HR2 & Hdb).
    unfold push_lstmt, Lazy.upd. apply convP_modify. split; [apply HP2|]. split; [|exact I]. exists rho2.
    destruct (add_edge_ok _ _ _ _ _ _ _ H3) as [Hedge Hs]. apply (rel_push_edge rho2 s2 ss' ls2 a' b' a b dbg HR2); [eapply den_mono; eauto|exact Hdb|exact Hedge|].
    rewrite Hs. reflexivity.
  Qed.

  Lemma print_arg_conv fuel le ll e : fexpr' e -> env_rel' le ll ->
    econv call arg_ok (match e with EStr _ => ret tt | _ => eval' fuel le e ;;; ret tt end)
                      (fun lf => match e with EStr _ => ret None | _ => lv <- leval' lf ll e ;; ret (Some lv) end).
  Proof.
    intros Hf Henv.
    assert (Hgen : econv call arg_ok (eval' fuel le e ;;; ret tt) (fun lf => lv <- leval' lf ll e ;; ret (Some lv))).
    { intros ss p u ss' p' H rho ls pl HR Hb. apply bind_ok in H. destruct H as (v & s1 & p1 & H1 & H2). apply ret_ok in H2. destruct H2 as (-> & -> & ->).
      apply (convP_bind (fun lf => leval' lf ll e) (fun _ lv => ret (Some lv))).
      eapply convP_mono; [apply (eval_conv t fl glob call okfn Hpure m fuel le ll e Hf Henv _ _ _ _ _ H1 rho ls pl HR Hb)|].
      intros lv ls1 pl1 HP. apply convP_ret. eapply epost_impl; [exact HP|]. intros r Hd. exists v. exact Hd. }
    destruct e; try exact Hgen.
    intros ss p u ss' p' H rho ls pl HR Hb. apply ret_ok in H. destruct H as (-> & -> & ->). apply convP_ret. apply epost_here; [exact HR|exact Hb|exact I].
  Qed.

  Lemma xconv_print fuel le ll values dbg : All fexpr' values -> env_rel' le ll ->
    xconvU (iterM (fun e => match e with EStr _ => ret tt | _ => eval' fuel le e ;;; ret tt end) values)
           (fun lf => args <- mapM (fun e => match e with EStr _ => ret None | _ => lv <- leval' lf ll e ;; ret (Some lv) end) values ;;
            push_lstmt (LSPrint args dbg)).
  Proof.
    intros Hf Henv ss p u ss' p' H ls pl [rho HR] Hb. destruct (iterM_mapM _ _ _ _ _ _ _ H) as (us & H').
    apply (convP_bind (fun lf => mapM (fun e => match e with EStr _ => ret None | _ => lv <- leval' lf ll e ;; ret (Some lv) end) values)
                      (fun _ args => push_lstmt (LSPrint args dbg))).
    eapply convP_mono; [apply (trav_conv call _ (fun lf e => match e with EStr _ => ret None | _ => lv <- leval' lf ll e ;; ret (Some lv) end) arg_ok fexpr' arg_ok_mono (fun e He => print_arg_conv fuel le ll e He Henv) values Hf _ _ _ _ _ H' rho ls pl (proj1 HR) Hb)|].
    intros args ls1 pl1 HP. destruct (rel_step _ rho us ss ss' ls args ls1 pl1 HR HP) as (rho1 & _ & HR1 & HF).
    unfold push_lstmt, Lazy.upd. apply convP_modify. split; [apply HP|]. split; [|exact I]. exists rho1.
    destruct HR1 as (A & Hsc & Hpr & B). split; [exact A|]. split; [exact Hsc|]. split; [|exact B].
    cbn [l_prints]. apply Forall_app. split; [exact Hpr|]. constructor; [|constructor]. cbn [print_ok].
    clear -HF. induction HF as [|a b l l' Hab _ IH]; constructor; [exact Hab|exact IH].
  Qed.

  Lemma xconv_cond fuel le ll c : fcond okfn m c -> env_rel' le ll ->
    xconv eq (test_cond t fl glob call fuel le c) (fun lf => ltest_cond t fl glob call lf ll c).
  Proof.
    intros Hf Henv. destruct c; cbn [test_cond ltest_cond fcond] in *.
    - apply (xconv_bind eq eq _ (fun lf => leager t fl glob call lf ll e) _ (fun _ v => ret (negb (match v with VNull => true | _ => false end)))); [apply xconv_eager; assumption|].
      intros a b <-. apply xconv_ret. reflexivity.
    - apply (xconv_bind eq eq _ (fun lf => leager t fl glob call lf ll e) _ (fun _ v => ret (match v with VNull => true | _ => false end))); [apply xconv_eager; assumption|].
      intros a b <-. apply xconv_ret. reflexivity.
    - apply (xconv_bind eq eq _ (fun lf => leager t fl glob call lf ll e) _ (fun _ v => lift (as_bool v))); [apply xconv_eager; assumption|].
      intros a b <-. apply xconv_lift.
  Qed.

  Lemma xconv_if test (test' : nat -> cond -> M lstate bool) run (run' : nat -> list stmt -> M lstate unit) arms :
    All (fun arm : list cond * list stmt * loc =>
           All (fun c => xconv eq (test c) (fun lf => test' lf c)) (fst (fst arm)) /\ xconvU (run (snd (fst arm))) (fun lf => run' lf (snd (fst arm)))) arms ->
    xconvU (if_loop test run arms) (fun lf => lif_loop (test' lf) (run' lf) arms).
  Proof.
    induction arms as [|[[conds body] l'] arms IH]; cbn [if_loop lif_loop All fst snd]; [intros _; apply xconv_ret; exact I|].
    intros [[Hc Hb] Hrest].
    apply (xconv_bind (Forall2 eq) anyQ _ (fun lf => mapM (test' lf) conds) _
             (fun lf bs => if forallb (fun b => b) bs then lpush_frame ;;; run' lf body ;;; lpop_frame else lif_loop (test' lf) (run' lf) arms)).
    { apply (xconv_mapM eq _ test test' conds (fun c Hc0 => Hc0) Hc). }
    intros bs bs' HF. apply Forall2_eq in HF. subst bs'. destruct (forallb (fun b => b) bs); [|apply IH, Hrest].
    apply (xconv_seq anyQ _ (fun _ => lpush_frame) _ (fun lf => run' lf body ;;; lpop_frame)); [apply xconv_push_frame|].
    apply (xconv_seq anyQ _ (fun lf => run' lf body) _ (fun _ => lpop_frame)); [exact Hb|apply xconv_pop_frame].
  Qed.

  Lemma xconv_scan run (run' : nat -> list str -> list stmt -> M lstate unit) arms rs subject :
    (forall caps k r body l', nth_error arms k = Some (r, body, l') -> xconvU (run caps body) (fun lf => run' lf caps body)) ->
    forall sfuel i, xconvU (scan_loop find run arms rs subject sfuel i) (fun lf => lscan_loop find (run' lf) arms rs subject sfuel i).
  Proof.
    intros Hrun. induction sfuel as [|sfuel IH]; intros i; cbn [scan_loop lscan_loop]; [apply xconv_soof|].
    destruct (N.ltb i (N.of_nat (length subject))); [|apply xconv_ret; exact I]. apply xconv_spoll. cbv zeta.
    apply (xconv_lpoll_n anyQ _ L_scan _ (fun lf => match arm_select find rs (skipn (N.to_nat i) subject) with
                                                     | ASelNone => ret tt
                                                     | ASelEmpty _ => fail EEmptyRegexCapture
                                                     | ASelArm k caps =>
                                                         match nth_error arms (N.to_nat k) with
                                                         | Some (_, body, _) => lpush_frame ;;; run' lf (cap_texts (skipn (N.to_nat i) subject) caps) body ;;; lpop_frame ;;;
                                                                                lscan_loop find (run' lf) arms rs subject sfuel (i + snd (cap0 caps))
                                                         | None => panic P_regex_table
                                                         end
                                                     end)).
    destruct (arm_select find rs (skipn (N.to_nat i) subject)) as [|k|k caps]; [apply xconv_ret; exact I|apply xconv_sfail|].
    destruct (nth_error arms (N.to_nat k)) as [[[r body] l']|] eqn:E; [|apply xconv_spanic].
    apply (xconv_seq anyQ _ (fun _ => lpush_frame) _ (fun lf => run' lf (cap_texts (skipn (N.to_nat i) subject) caps) body ;;; lpop_frame ;;; lscan_loop find (run' lf) arms rs subject sfuel (i + snd (cap0 caps)))); [apply xconv_push_frame|].
    apply (xconv_seq anyQ _ (fun lf => run' lf (cap_texts (skipn (N.to_nat i) subject) caps) body) _ (fun lf => lpop_frame ;;; lscan_loop find (run' lf) arms rs subject sfuel (i + snd (cap0 caps)))); [apply (Hrun _ _ _ _ _ E)|].
    apply (xconv_seq anyQ _ (fun _ => lpop_frame) _ (fun lf => lscan_loop find (run' lf) arms rs subject sfuel (i + snd (cap0 caps)))); [apply xconv_pop_frame|apply IH].
  Qed.

  Lemma stmt_conv : forall fuel le ll s, fstmt' s -> env_rel' le ll -> xconvU (exec_stmt' fuel le s) (fun lf => lexec_stmt' lf ll s).
  Proof.
    induction fuel as [|fuel IH]; intros le ll s Hf Henv; [apply xconv_soof|].
    assert (Hblock : forall le' ll' (wrap : M sstate unit -> M sstate unit) body, env_rel' le' ll' -> All fstmt' body ->
               (forall ms mlf, xconvU ms mlf -> xconvU (wrap ms) mlf) ->
               xconvU (iterM (fun st => let c := ctx_update (le_ctx le') st in
                                        ctx_wrap (CtxStmts [c]) (wrap (exec_stmt' fuel (le_with_ctx le' c) st))) body)
                      (fun lf => iterM (fun st => lexec_stmt' lf (ll_with_ctx ll' (ctx_update (ll_ctx ll') st)) st) body)).
    { intros le' ll' wrap body Henv' Hbody Hw.
      apply (xconv_iter fstmt' _ (fun lf st => lexec_stmt' lf (ll_with_ctx ll' (ctx_update (ll_ctx ll') st)) st)); [|exact Hbody].
      intros st Hst. cbv zeta. apply xconv_sctx, Hw. apply IH; [exact Hst|apply env_rel_ctx, Henv']. }
    assert (Harm : forall le' ll' body, env_rel' le' ll' -> All fstmt' body ->
               xconvU (iterM (fun st => let c := ctx_update (le_ctx le') st in
                                        ctx_wrap (CtxStmts [c]) (ctx_wrap CtxOther (exec_stmt' fuel (le_with_ctx le' c) st))) body)
                      (fun lf => iterM (fun st => let c := ctx_update (ll_ctx ll') st in
                                        ctx_wrap (CtxStmts [c]) (ctx_wrap CtxOther (lexec_stmt' lf (ll_with_ctx ll' c) st))) body)).
    { intros le' ll' body Henv' Hbody.
      apply (xconv_iter fstmt' _ (fun lf st => let c := ctx_update (ll_ctx ll') st in
                                        ctx_wrap (CtxStmts [c]) (ctx_wrap CtxOther (lexec_stmt' lf (ll_with_ctx ll' c) st)))); [|exact Hbody].
      intros st Hst. cbv zeta. apply xconv_sctx, xconv_sctx.
      apply (xconv_lctx anyQ _ _ (fun lf => ctx_wrap CtxOther (lexec_stmt' lf (ll_with_ctx ll' (ctx_update (ll_ctx ll') st)) st))).
      apply (xconv_lctx anyQ _ _ (fun lf => lexec_stmt' lf (ll_with_ctx ll' (ctx_update (ll_ctx ll') st)) st)).
      apply IH; [exact Hst|apply env_rel_ctx, Henv']. }
    destruct s; cbn [exec_stmt]; cbn [fstmt] in Hf; (eapply xconv_shift; [intros lf; cbn [lexec_stmt]; reflexivity|]); apply xconv_spoll; eapply xconv_lpoll.
    - (* let *) destruct Hf as [Hv He]. destruct v; [|contradiction]. cbn [var_add lvar_add]. apply xconv_bind_var; assumption.
    - (* var *) destruct Hf as [Hv He]. destruct v; [|contradiction]. cbn [var_add lvar_add]. apply xconv_bind_var; assumption.
    - (* set *) destruct Hf as [Hv He]. destruct v; [|contradiction]. cbn [var_set lvar_set]. apply xconv_set_var; assumption.
    - (* node *) destruct v; [|contradiction]. cbn [config0 c_var_attr c_loc_attr c_match_attr opt_attr lopt_node_attr var_add lvar_add].
      eapply xconv_bind; [apply xconv_add_node|]. intros n n' <-. cbv beta.
      eapply xconv_seq; [apply xconv_ret; exact I|]. eapply xconv_seq; [apply xconv_ret; exact I|].
      eapply xconv_seq; [apply xconv_ret; exact I|]. apply (xconv_unscoped_add ll name (VGraph n) false).
    - (* attr on a node *) destruct Hf as [Hn Ha]. apply xconv_attr_node; assumption.
    - (* edge *) destruct Hf as [Ha Hb]. cbn [config0 c_loc_attr opt_attr]. apply xconv_edge; assumption.
    - (* attr on an edge *) destruct Hf as (Ha & Hb & Hat). apply xconv_attr_edge; assumption.
    - (* scan *) destruct Hf as [Hv Harms]. eapply xconv_bind; [apply xconv_eager; eassumption|]. intros sv sv' <-. cbv beta.
      eapply xconv_bind; [apply xconv_lift|]. intros subject subject' <-. cbv beta. destruct (arm_table regexes arms) as [rs|]; [|apply xconv_spanic].
      apply (xconv_scan _ (fun lf caps body => iterM (fun st => let c := ctx_update (ll_ctx (ll_with_caps ll caps)) st in
                                        ctx_wrap (CtxStmts [c]) (ctx_wrap CtxOther (lexec_stmt' lf (ll_with_ctx (ll_with_caps ll caps) c) st))) body)).
      intros caps k r body l' E. apply Harm; [apply env_rel_caps, Henv|].
      apply (All_In _ _ _ Harms (nth_error_In _ _ E)).
    - (* print *) apply xconv_print; assumption.
    - (* if *)
      apply (xconv_if _ (fun lf => ltest_cond t fl glob call lf ll) _
               (fun lf body => iterM (fun st => lexec_stmt' lf (ll_with_ctx ll (ctx_update (ll_ctx ll) st)) st) body)).
      eapply All_impl; [|exact Hf]. intros [[conds body] l'] [Hc Hb]. cbn [fst snd] in *. split.
      + eapply All_impl; [|exact Hc]. intros c Hfc. apply xconv_cond; assumption.
      + apply (Hblock le ll (fun ms => ms) body Henv Hb). auto.
    - (* for *) destruct Hf as [Hv Hbody]. eapply xconv_bind; [apply xconv_eager; eassumption|]. intros lv lv' <-. cbv beta.
      eapply xconv_bind; [apply xconv_lift|]. intros vals vals' <-. cbv beta. eapply xconv_seq; [apply xconv_push_frame|].
      eapply xconv_seq; [|apply xconv_pop_frame].
      apply (xconv_iter (fun _ => True) _ (fun lf v => lclear_frame ;;; lunscoped_add glob ll var (LValue v) false ;;;
                                            iterM (fun st => lexec_stmt' lf (ll_with_ctx ll (ctx_update (ll_ctx ll) st)) st) body)); [|clear; induction vals; cbn; auto].
      intros v _. eapply xconv_seq; [apply xconv_clear_frame|]. eapply xconv_seq; [apply xconv_unscoped_add|].
      apply (Hblock le ll (fun ms => ms) body Henv Hbody). auto.
  Qed.

  Lemma stanza_conv fuel st : All fstmt' (st_stmts st) -> nodes_for_capture m (st_full_file_idx st) <> [] ->
    xconvU (exec_stanza t fl config0 glob regexes find call fuel st m) (fun lf => lexec_stanza t fl config0 glob regexes find call lf st m).
  Proof.
    intros Hst Hfull. unfold exec_stanza, lexec_stanza. eapply xconv_lpoll. eapply xconv_seq; [apply xconv_clear_frame|]. cbv zeta.
    destruct (nodes_for_capture m (st_full_file_idx st)) as [|n' ns']; [contradiction|].
    apply (xconv_iter fstmt' _ (fun lf s => ctx_wrap (CtxStmts [{| sc_stmt := stmt_loc s; sc_stanza := st_start st; sc_node := n' |}])
                                   (lexec_stmt' lf (ll_with_ctx {| ll_match := m; ll_full := st_full_file_idx st; ll_caps := []; ll_ctx := {| sc_stmt := (0, 0); sc_stanza := st_start st; sc_node := 0 |} |}
                                                                {| sc_stmt := stmt_loc s; sc_stanza := st_start st; sc_node := n' |}) s))); [|exact Hst].
    intros s Hs. destruct (nodes_for_capture m (st_full_stanza_idx st)) as [|n ns]; [apply xconv_spanic|].
    apply xconv_sctx. eapply xconv_lctx. apply stmt_conv; [exact Hs|]. repeat split.
  Qed.
End Stmt.
