(* Proofs/ScPermSR.v — C08 WITH scoped variables, part 8: the relation between the states two block orders reach.
   `SR rg rl s s'`: s' is s renumbered: the fresh graph nodes are permuted by rg, the thunk at rl loc is the renamed
   thunk at loc, the deferred statements and, per name, the scoped definitions are permutations of the renamed
   ones.  SR_swap: exchanging two adjacent blocks relates the two states by the exchange `swp` of the two ranges of
   graph ids and of store locations.  SR_step: appending the SAME delta above the exchanged ranges preserves SR. *)
From Coq Require Import Permutation.
From TSG Require Import Model.Lazy Proofs.BaseFacts Proofs.Containers Proofs.MonadFacts Proofs.SLExpr Proofs.BlockPermRen Proofs.BlockPermSim Proofs.BlockPermSwap
  Proofs.BlockPermGraph Proofs.ScPermSound Proofs.ScPermSim Proofs.ScPermSwap Proofs.ScPermTyped.

Definition prren (rg rl : N -> N) (pr : lvalue * lvalue * stmt_ctx) : lvalue * lvalue * stmt_ctx :=
  (lvren rg rl (fst (fst pr)), lvren rg rl (snd (fst pr)), snd pr).
Lemma dfren_prren rg rl d : fst (dfren rg rl d) = fst d /\ snd (dfren rg rl d) = prren rg rl (snd d).
Proof. split; reflexivity. Qed.

(* ---------------- exchanging two adjacent segments of a list ---------------- *)
Section Swap3.
  Context {A : Type}.
  Variables (F fA fB : A -> A) (X TA TB : list A).
  Hypothesis HX : forall th, In th X -> F th = th.
  Hypothesis HA : forall th, In th TA -> F th = fB th.
  Hypothesis HB : forall th, In th TB -> F (fA th) = th.
  Notation x := (N.of_nat (length X)).
  Notation ka := (N.of_nat (length TA)).
  Notation kb := (N.of_nat (length TB)).

  Lemma nth_swap3 i th : nth_error (X ++ TA ++ map fA TB) (N.to_nat i) = Some th ->
    nth_error (X ++ TB ++ map fB TA) (N.to_nat (swp x ka kb i)) = Some (F th).
  Proof.
    intros H. unfold swp. destruct (N.ltb_spec i x) as [H1|H1].
    - rewrite nth_error_app1 in H by lia. rewrite nth_error_app1 by lia. rewrite H. f_equal. symmetry. apply HX. eapply nth_error_In; eauto.
    - rewrite nth_error_app2 in H by lia. destruct (N.ltb_spec i (x + ka)) as [H2|H2].
      + rewrite nth_error_app1 in H by lia. rewrite nth_error_app2 by lia. rewrite nth_error_app2 by lia.
        rewrite (HA th (nth_error_In _ _ H)). replace (N.to_nat (i + kb) - length X - length TB)%nat with (N.to_nat i - length X)%nat by lia.
        rewrite nth_error_map, H. reflexivity.
      + rewrite nth_error_app2 in H by lia. assert (Hlt : (N.to_nat i - length X - length TA < length (map fA TB))%nat) by (apply nth_error_Some; congruence).
        rewrite map_length in Hlt. destruct (N.ltb_spec i (x + ka + kb)) as [H3|H3]; [|lia].
        rewrite nth_error_map in H. destruct (nth_error TB (N.to_nat i - length X - length TA)) as [th0|] eqn:E0; [|discriminate]. cbn in H. inversion H; subst th.
        rewrite nth_error_app2 by lia. rewrite nth_error_app1 by lia. rewrite (HB th0 (nth_error_In _ _ E0)). rewrite <- E0. f_equal. lia.
  Qed.
  Lemma perm_swap3 : Permutation (map F (X ++ TA ++ map fA TB)) (X ++ TB ++ map fB TA).
  Proof.
    rewrite !map_app. assert (E1 : map F X = X) by (rewrite <- (map_id X) at 2; apply map_ext_in; exact HX).
    assert (E2 : map F TA = map fB TA) by (apply map_ext_in; exact HA).
    assert (E3 : map F (map fA TB) = TB) by (rewrite map_map; rewrite <- (map_id TB) at 2; apply map_ext_in; exact HB).
    rewrite E1, E2, E3. apply Permutation_app_head, Permutation_app_comm.
  Qed.
End Swap3.

Lemma swp_base n0 x a b j : swp (n0 + x) a b (n0 + j) - n0 = swp x a b j.
Proof. unfold swp. repeat match goal with |- context [N.ltb ?u ?v] => destruct (N.ltb_spec u v) end; lia. Qed.

Section SRdef.
  Variable okfn : ident -> Prop.
  Variable g0 : graph.
  Notation n0 := (N.of_nat (length g0)).
  Variables rg rl : N -> N.

  Definition SR (s s' : lstate) : Prop :=
    (exists ns ns', l_graph s = g0 ++ ns /\ l_graph s' = g0 ++ ns' /\ length ns = length ns' /\ Forall nplain ns' /\
       forall j nd, nth_error ns j = Some nd -> nth_error ns' (N.to_nat (rg (n0 + N.of_nat j) - n0)) = Some nd) /\
    (length (l_store s) = length (l_store s') /\
     forall i th, nth_error (l_store s) i = Some th -> nth_error (l_store s') (N.to_nat (rl (N.of_nat i))) = Some (thren rg rl th)) /\
    Permutation (map (lsren rg rl) (l_edges s)) (l_edges s') /\ Permutation (map (lsren rg rl) (l_attrs s)) (l_attrs s') /\
    Permutation (map (lsren rg rl) (l_prints s)) (l_prints s') /\
    (allunf (l_scoped s') /\ forall name, (alist_get name (l_scoped s) = None <-> alist_get name (l_scoped s') = None) /\
                                           Permutation (map (prren rg rl) (cellps (l_scoped s) name)) (cellps (l_scoped s') name)).

  (* ---------------- appending the same delta to both ---------------- *)
  Theorem SR_step s s' d s1 s1' : SR s s' -> n0 <= gn s -> (forall i, i < n0 \/ gn s <= i -> rg i = i) -> (forall l, sn s <= l -> rl l = l) ->
    allunf (l_scoped s) -> extends2 s d s1 -> extends2 s' d s1' -> delta_ok2 ea0 okfn n0 (gn s) (sn s) d -> SR s1 s1'.
  Proof.
    intros ((ns & ns' & Hg & Hg' & Hlen & Hpl & Hnth) & (Hsl & Hst) & He & Ha & Hp & (Hu' & Hc)) Hn0 Hrg Hrl Hu X X' Od.
    assert (Hfix : dren2 rg rl d = d).
    { rewrite (dren2_ext ea0 okfn n0 (gn s) (sn s) rg (fun i => i) rl (fun l => l) d Od); [apply dren2_id| |].
      - intros i [Hi|[Hi _]]; apply Hrg; [left|right]; assumption.
      - intros l [Hl _]. apply Hrl, Hl. }
    pose proof (f_equal e_thunks Hfix) as Fth. pose proof (f_equal e_edges Hfix) as Fe. pose proof (f_equal e_attrs Hfix) as Fa.
    pose proof (f_equal e_prints Hfix) as Fp. pose proof (f_equal e_defs Hfix) as Fd. cbn [dren2 e_thunks e_edges e_attrs e_prints e_defs] in Fth, Fe, Fa, Fp, Fd.
    destruct X as (Xg & Xs & Xe & Xa & Xp & _ & Xc & _). destruct X' as (Xg' & Xs' & Xe' & Xa' & Xp' & _ & Xc' & _).
    destruct Od as (On & _).
    assert (Egn : gn s = n0 + N.of_nat (length ns)) by (unfold gn; rewrite Hg, app_length; lia).
    split; [|split; [|split; [|split; [|split]]]].
    - exists (ns ++ e_nodes d), (ns' ++ e_nodes d). rewrite Xg, Xg', Hg, Hg', <- !app_assoc. split; [reflexivity|]. split; [reflexivity|].
      split; [rewrite !app_length; lia|]. split; [apply Forall_app; split; [exact Hpl|exact On]|]. intros j nd Ej.
      destruct (Nat.lt_ge_cases j (length ns)) as [Hlt|Hge].
      + rewrite nth_error_app1 in Ej by exact Hlt. specialize (Hnth _ _ Ej). rewrite nth_error_app1; [exact Hnth|]. apply nth_error_Some. congruence.
      + rewrite nth_error_app2 in Ej by exact Hge. rewrite (Hrg (n0 + N.of_nat j)) by (right; lia).
        replace (N.to_nat (n0 + N.of_nat j - n0)) with j by lia. rewrite nth_error_app2 by lia. rewrite <- Hlen. exact Ej.
    - rewrite Xs, Xs', !app_length. split; [lia|]. intros i th Ei. destruct (Nat.lt_ge_cases i (length (l_store s))) as [Hlt|Hge].
      + rewrite nth_error_app1 in Ei by exact Hlt. specialize (Hst _ _ Ei). rewrite nth_error_app1; [exact Hst|]. apply nth_error_Some. congruence.
      + rewrite nth_error_app2 in Ei by exact Hge. rewrite (Hrl (N.of_nat i)) by (unfold sn; lia). rewrite Nat2N.id. rewrite nth_error_app2 by lia. rewrite <- Hsl.
        assert (Eth : nth_error (map (thren rg rl) (e_thunks d)) (i - length (l_store s)) = Some (thren rg rl th)) by (rewrite nth_error_map, Ei; reflexivity).
        rewrite Fth in Eth. exact Eth.
    - rewrite Xe, Xe', map_app, Fe. apply Permutation_app_tail, He.
    - rewrite Xa, Xa', map_app, Fa. apply Permutation_app_tail, Ha.
    - rewrite Xp, Xp', map_app, Fp. apply Permutation_app_tail, Hp.
    - split; [rewrite Xc'; apply allunf_addl, Hu'|]. intros name. destruct (Hc name) as [Hnone Hperm]. split.
      + rewrite Xc, Xc', (addl_none _ _ name Hu), (addl_none _ _ name Hu'). rewrite Hnone. reflexivity.
      + rewrite Xc, Xc', (addl_cellps _ _ name Hu), (addl_cellps _ _ name Hu'), map_app. apply Permutation_app; [exact Hperm|].
        rewrite <- (pairs_of_map name (dfren rg rl) (prren rg rl) (e_defs d) (dfren_prren rg rl)), Fd. apply Permutation_refl.
  Qed.
End SRdef.

(* ---------------- exchanging two adjacent blocks ---------------- *)
Section SRswap.
  Variable okfn : ident -> Prop.
  Variable g0 : graph.
  Notation n0 := (N.of_nat (length g0)).
  Variables (bdsX : list bdesc) (X XA SAB XB SBA : lstate) (dA dB : delta2).
  Hypothesis HtX : styped okfn g0 bdsX X.
  Hypothesis Hn0 : n0 <= gn X.
  Hypothesis OA : delta_ok2 ea0 okfn n0 (gn X) (sn X) dA.
  Hypothesis OB : delta_ok2 ea0 okfn n0 (gn X) (sn X) dB.
  Hypothesis EA : extends2 X dA XA.
  Hypothesis EB : extends2 X dB XB.
  Hypothesis EAB : extends2 XA (dren2 (shg (gn X) (gn XA)) (shl (sn X) (sn XA)) dB) SAB.
  Hypothesis EBA : extends2 XB (dren2 (shg (gn X) (gn XB)) (shl (sn X) (sn XB)) dA) SBA.

  Notation a := (N.of_nat (length (e_nodes dA))).
  Notation b := (N.of_nat (length (e_nodes dB))).
  Notation ka := (N.of_nat (length (e_thunks dA))).
  Notation kb := (N.of_nat (length (e_thunks dB))).
  Definition srg : N -> N := swp (gn X) a b.
  Definition srl : N -> N := swp (sn X) ka kb.
  Notation shAg := (shg (gn X) (gn XA)).
  Notation shAl := (shl (sn X) (sn XA)).
  Notation shBg := (shg (gn X) (gn XB)).
  Notation shBl := (shl (sn X) (sn XB)).
  Notation DA := (fun i => i < n0 \/ (gn X <= i /\ i < gn X + a)).
  Notation DB := (fun i => i < n0 \/ (gn X <= i /\ i < gn X + b)).
  Notation LA := (fun l => sn X <= l /\ l < sn X + ka).
  Notation LB := (fun l => sn X <= l /\ l < sn X + kb).

  Lemma sizesA : gn XA = gn X + a /\ sn XA = sn X + ka. Proof. destruct (extends2_sizes _ _ _ EA) as (A & B & _). auto. Qed.
  Lemma sizesB : gn XB = gn X + b /\ sn XB = sn X + kb. Proof. destruct (extends2_sizes _ _ _ EB) as (A & B & _). auto. Qed.

  (* the three agreements *)
  Lemma agree_A_g i : DA i -> srg i = shBg i.
  Proof. destruct sizesB as [-> _]. unfold srg, swp, shg. intros H. repeat match goal with |- context [N.ltb ?u ?v] => destruct (N.ltb_spec u v) end; lia. Qed.
  Lemma agree_A_l l : LA l -> srl l = shBl l.
  Proof. destruct sizesB as [_ ->]. unfold srl, swp, shl. intros H. repeat match goal with |- context [N.ltb ?u ?v] => destruct (N.ltb_spec u v) end; lia. Qed.
  Lemma agree_B_g i : DB i -> srg (shAg i) = i.
  Proof. destruct sizesA as [-> _]. unfold srg, swp, shg. intros H. repeat match goal with |- context [N.ltb ?u ?v] => destruct (N.ltb_spec u v) end; lia. Qed.
  Lemma agree_B_l l : LB l -> srl (shAl l) = l.
  Proof. destruct sizesA as [_ ->]. unfold srl, swp, shl. intros H. repeat match goal with |- context [N.ltb ?u ?v] => destruct (N.ltb_spec u v) end; lia. Qed.
  Lemma agree_X_g i : i < gn X -> srg i = i.
  Proof. unfold srg, swp. intros H. destruct (N.ltb_spec i (gn X)); lia. Qed.
  Lemma agree_X_l l : l < sn X -> srl l = l.
  Proof. unfold srl, swp. intros H. destruct (N.ltb_spec l (sn X)); lia. Qed.

  (* renaming the pieces *)
  Lemma ren_X_stmt K st : (K st /\ exists d, In d bdsX /\ msall ea0 okfn (bD n0 d) (bL d) st) -> lsren srg srl st = st.
  Proof.
    intros [_ (d & Hin & Hm)]. destruct HtX as (Hb & _). destruct (Hb d Hin) as (B1 & B2 & B3).
    rewrite (msall_ext ea0 okfn (bD n0 d) (bL d) srg (fun i => i) srl (fun l => l) st); [apply lsren_id| | |exact Hm].
    - intros i [Hi|[_ Hi]]; apply agree_X_g; lia.
    - intros l [_ Hl]. apply agree_X_l. lia.
  Qed.
  Lemma ren_A_stmt K st : (K st /\ msall ea0 okfn DA LA st) -> lsren srg srl st = lsren shBg shBl st.
  Proof. intros [_ Hm]. apply (msall_ext ea0 okfn DA LA); [exact agree_A_g|exact agree_A_l|exact Hm]. Qed.
  Lemma lsren_comp rg rl rg' rl' st : lsren rg rl (lsren rg' rl' st) = lsren (fun i => rg (rg' i)) (fun l => rl (rl' l)) st.
  Proof.
    assert (Hat : forall l, map (atren rg rl) (map (atren rg' rl') l) = map (atren (fun i => rg (rg' i)) (fun l => rl (rl' l))) l).
    { intros l. rewrite map_map. apply map_ext. intros [k lv]. unfold atren. cbn [fst snd]. rewrite lvren_comp. reflexivity. }
    destruct st; cbn [lsren]; rewrite ?lvren_comp, ?Hat; try reflexivity.
    f_equal. rewrite map_map. apply map_ext. intros [lv|]; cbn [option_map]; [rewrite lvren_comp|]; reflexivity.
  Qed.
  Lemma ren_B_stmt K st : (K st /\ msall ea0 okfn DB LB st) -> lsren srg srl (lsren shAg shAl st) = st.
  Proof.
    intros [_ Hm]. rewrite lsren_comp. rewrite (msall_ext ea0 okfn DB LB _ (fun i => i) _ (fun l => l) st); [apply lsren_id| | |exact Hm].
    - exact agree_B_g.
    - exact agree_B_l.
  Qed.
  Lemma thren_comp rg rl rg' rl' th : thren rg rl (thren rg' rl' th) = thren (fun i => rg (rg' i)) (fun l => rl (rl' l)) th.
  Proof. destruct th as [st dbg]. unfold thren. cbn [th_state th_dbg]. f_equal. destruct st; cbn [tsren]; rewrite ?lvren_comp, ?vren_comp; reflexivity. Qed.

  Lemma thunksA th : In th (e_thunks dA) -> thall okfn DA LA th.
  Proof.
    intros Hin. apply In_nth_error in Hin as [j Hj]. destruct OA as (_ & Ht & _). eapply thall_impl; [| |apply (Ht j th Hj)]; [auto|].
    intros l [H1 H2]. assert (j < length (e_thunks dA))%nat by (apply nth_error_Some; congruence). lia.
  Qed.
  Lemma thunksB th : In th (e_thunks dB) -> thall okfn DB LB th.
  Proof.
    intros Hin. apply In_nth_error in Hin as [j Hj]. destruct OB as (_ & Ht & _). eapply thall_impl; [| |apply (Ht j th Hj)]; [auto|].
    intros l [H1 H2]. assert (j < length (e_thunks dB))%nat by (apply nth_error_Some; congruence). lia.
  Qed.
  Lemma thunksX th : In th (l_store X) -> thren srg srl th = th.
  Proof.
    intros Hin. apply In_nth_error in Hin as [i Hi]. destruct HtX as (Hb & Ht & _). destruct (Ht i th Hi) as ((d & Hd & HL) & Hall).
    destruct (Hb d Hd) as (B1 & B2 & B3). rewrite (thren_ext okfn (bD n0 d) (fun l => b_klo d <= l /\ l < N.of_nat i) srg (fun i => i) srl (fun l => l) th); [apply thren_id| | |apply (Hall d Hd HL)].
    - intros k [Hk|[_ Hk]]; apply agree_X_g; lia.
    - intros l [_ Hl]. apply agree_X_l. unfold bL in HL. lia.
  Qed.

  Lemma pairX name pr : In pr (cellps (l_scoped X) name) -> prren srg srl pr = pr.
  Proof.
    intros Hin. destruct HtX as (_ & _ & _ & _ & _ & (_ & Hc) & _). specialize (Hc name). rewrite Forall_forall in Hc.
    destruct (Hc pr Hin) as [(v & Hv & Hn) (loc & Hl & Hlt)]. destruct pr as [[sc val] dbg]. cbn [fst snd] in *. subst sc val. unfold prren. cbn [fst snd lvren].
    rewrite (vren_noid _ v Hn), (agree_X_l loc Hlt). reflexivity.
  Qed.
  Lemma defsA df : In df (e_defs dA) -> dfren srg srl df = dfren shBg shBl df.
  Proof. intros Hin. destruct OA as (_ & _ & _ & _ & _ & Hd). rewrite Forall_forall in Hd. apply (dfren_ext LA); [exact agree_A_l|apply Hd, Hin]. Qed.
  Lemma dfren_comp rg rl rg' rl' df : dfren rg rl (dfren rg' rl' df) = dfren (fun i => rg (rg' i)) (fun l => rl (rl' l)) df.
  Proof. destruct df as [name [[sc v] dbg]]. unfold dfren. cbn [fst snd]. rewrite !lvren_comp. reflexivity. Qed.
  Lemma defsB df : In df (e_defs dB) -> dfren srg srl (dfren shAg shAl df) = df.
  Proof.
    intros Hin. destruct OB as (_ & _ & _ & _ & _ & Hd). rewrite Forall_forall in Hd. rewrite dfren_comp.
    rewrite (dfren_ext LB _ (fun i => i) _ (fun l => l) df); [apply dfren_id|exact agree_B_l|apply Hd, Hin].
  Qed.

  Theorem SR_swap : SR g0 srg srl SAB SBA.
  Proof.
    destruct HtX as (HbX & HthX & HeX & HaX & HpX & (HuX & HcX) & (nsX & HgX & HplX)).
    destruct EA as (Ag & As & Ae & Aa & Ap & _ & Ac & _). destruct EB as (Bg & Bs & Be & Ba & Bp & _ & Bc & _).
    destruct EAB as (ABg & ABs & ABe & ABa & ABp & _ & ABc & _). destruct EBA as (BAg & BAs & BAe & BAa & BAp & _ & BAc & _).
    cbn [dren2 e_nodes e_thunks e_edges e_attrs e_prints e_defs] in ABg, ABs, ABe, ABa, ABp, ABc, BAg, BAs, BAe, BAa, BAp, BAc.
    destruct OA as (OAn & OAt & OAe & OAa & OAp & OAd). destruct OB as (OBn & OBt & OBe & OBa & OBp & OBd).
    assert (EgX : gn X = n0 + N.of_nat (length nsX)) by (unfold gn; rewrite HgX, app_length; lia).
    assert (Hstm : forall (K : lstmt -> Prop) LX EA0 EB0, stmts_typed okfn g0 K bdsX LX -> Forall (fun st => K st /\ msall ea0 okfn DA LA st) EA0 -> Forall (fun st => K st /\ msall ea0 okfn DB LB st) EB0 ->
               Permutation (map (lsren srg srl) (LX ++ EA0 ++ map (lsren shAg shAl) EB0)) (LX ++ EB0 ++ map (lsren shBg shBl) EA0)).
    { intros K LX EA0 EB0 H1 H2 H3. apply perm_swap3.
      - intros st Hin. unfold stmts_typed in H1. rewrite Forall_forall in H1. apply (ren_X_stmt K), H1, Hin.
      - intros st Hin. rewrite Forall_forall in H2. apply (ren_A_stmt K), H2, Hin.
      - intros st Hin. rewrite Forall_forall in H3. apply (ren_B_stmt K), H3, Hin. }
    split; [|split; [|split; [|split; [|split]]]].
    - exists (nsX ++ e_nodes dA ++ e_nodes dB), (nsX ++ e_nodes dB ++ e_nodes dA). rewrite ABg, Ag, BAg, Bg, HgX, <- !app_assoc.
      split; [reflexivity|]. split; [reflexivity|]. split; [rewrite !app_length; lia|].
      split; [apply Forall_app; split; [exact HplX|apply Forall_app; split; assumption]|]. intros j nd Ej.
      unfold srg. rewrite EgX, swp_base.
      pose proof (nth_swap3 (fun x => x) (fun x => x) (fun x => x) nsX (e_nodes dA) (e_nodes dB) (fun _ _ => eq_refl) (fun _ _ => eq_refl) (fun _ _ => eq_refl) (N.of_nat j) nd) as H.
      rewrite map_id, Nat2N.id in H. specialize (H Ej). rewrite map_id in H. exact H.
    - rewrite ABs, As, BAs, Bs, <- !app_assoc. split; [rewrite !app_length, !map_length; lia|]. intros i th Ei.
      apply (nth_swap3 (thren srg srl) (thren shAg shAl) (thren shBg shBl) (l_store X) (e_thunks dA) (e_thunks dB)).
      + exact thunksX.
      + intros th0 Hin. apply (thren_ext okfn DA LA); [exact agree_A_g|exact agree_A_l|apply thunksA, Hin].
      + intros th0 Hin. rewrite thren_comp. rewrite (thren_ext okfn DB LB _ (fun i => i) _ (fun l => l) th0); [apply thren_id|exact agree_B_g|exact agree_B_l|apply thunksB, Hin].
      + rewrite Nat2N.id. exact Ei.
    - rewrite ABe, Ae, BAe, Be, <- !app_assoc. apply (Hstm is_estmt); assumption.
    - rewrite ABa, Aa, BAa, Ba, <- !app_assoc. apply (Hstm is_astmt); assumption.
    - rewrite ABp, Ap, BAp, Bp, <- !app_assoc. apply (Hstm is_pstmt); assumption.
    - assert (UA : allunf (l_scoped XA)) by (rewrite Ac; apply allunf_addl, HuX). assert (UB : allunf (l_scoped XB)) by (rewrite Bc; apply allunf_addl, HuX).
      split; [rewrite BAc; apply allunf_addl, UB|]. intros name. split.
      + rewrite ABc, BAc, (addl_none _ _ name UA), (addl_none _ _ name UB), Ac, Bc, (addl_none _ _ name HuX), (addl_none _ _ name HuX).
        rewrite (pairs_of_map name _ _ (e_defs dB) (dfren_prren shAg shAl)), (pairs_of_map name _ _ (e_defs dA) (dfren_prren shBg shBl)).
        destruct (pairs_of name (e_defs dA)), (pairs_of name (e_defs dB)); cbn [map]; split; intros [[H1 H2] H3]; repeat split; try assumption; try discriminate.
      + rewrite ABc, BAc, (addl_cellps _ _ name UA), (addl_cellps _ _ name UB), Ac, Bc, (addl_cellps _ _ name HuX), (addl_cellps _ _ name HuX), <- !app_assoc.
        rewrite (pairs_of_map name _ _ (e_defs dB) (dfren_prren shAg shAl)), (pairs_of_map name _ _ (e_defs dA) (dfren_prren shBg shBl)).
        apply perm_swap3.
        * intros pr Hin. apply (pairX name), Hin.
        * intros pr Hin. unfold pairs_of in Hin. apply in_map_iff in Hin as (df & <- & Hdf). apply filter_In in Hdf as [Hdf _].
          pose proof (defsA df Hdf) as H. apply (f_equal snd) in H. exact H.
        * intros pr Hin. unfold pairs_of in Hin. apply in_map_iff in Hin as (df & <- & Hdf). apply filter_In in Hdf as [Hdf _].
          pose proof (defsB df Hdf) as H. apply (f_equal snd) in H. exact H.
  Qed.

  (* the exchange is a bijection that moves nothing outside the two ranges and is monotone on every block *)
  Lemma srg_inv i : swp (gn X) b a (srg i) = i. Proof. apply swp_inv. Qed.
  Lemma srg_inv' i : srg (swp (gn X) b a i) = i. Proof. apply swp_inv. Qed.
  Lemma srl_inv l : swp (sn X) kb ka (srl l) = l. Proof. apply swp_inv. Qed.
  Lemma srl_inv' l : srl (swp (sn X) kb ka l) = l. Proof. apply swp_inv. Qed.
  Lemma srg_out i : i < n0 \/ gn SAB <= i -> srg i = i.
  Proof.
    destruct (extends2_sizes _ _ _ EAB) as (G & _). cbn [dren2 e_nodes] in G. destruct sizesA as [GA _]. unfold srg, swp. intros H.
    repeat match goal with |- context [N.ltb ?u ?v] => destruct (N.ltb_spec u v) end; lia.
  Qed.
  Lemma srl_out l : sn SAB <= l -> srl l = l.
  Proof.
    destruct (extends2_sizes _ _ _ EAB) as (_ & K & _). cbn [dren2 e_thunks] in K. rewrite map_length in K. destruct sizesA as [_ KA]. unfold srl, swp. intros H.
    repeat match goal with |- context [N.ltb ?u ?v] => destruct (N.ltb_spec u v) end; lia.
  Qed.
  Lemma srg_mono_X d : In d bdsX -> forall i j, bD n0 d i -> bD n0 d j -> i < j -> srg i < srg j.
  Proof.
    intros Hin i j Hi Hj Hlt. destruct HtX as (Hb & _). destruct (Hb d Hin) as (B1 & B2 & _). rewrite !agree_X_g; [exact Hlt| |]; unfold bD in *; lia.
  Qed.
  Lemma srg_mono_A i j : bD n0 (mkdesc X XA) i -> bD n0 (mkdesc X XA) j -> i < j -> srg i < srg j.
  Proof.
    destruct sizesA as [GA _]. unfold bD, mkdesc. cbn [b_glo b_ghi]. rewrite GA. unfold srg, swp. intros Hi Hj Hlt.
    repeat match goal with |- context [N.ltb ?u ?v] => destruct (N.ltb_spec u v) end; lia.
  Qed.
  Lemma srg_mono_B i j : bD n0 (mkdesc XA SAB) i -> bD n0 (mkdesc XA SAB) j -> i < j -> srg i < srg j.
  Proof.
    destruct (extends2_sizes _ _ _ EAB) as (G & _). cbn [dren2 e_nodes] in G. destruct sizesA as [GA _]. unfold bD, mkdesc. cbn [b_glo b_ghi]. rewrite G, GA. unfold srg, swp. intros Hi Hj Hlt.
    repeat match goal with |- context [N.ltb ?u ?v] => destruct (N.ltb_spec u v) end; lia.
  Qed.
End SRswap.
